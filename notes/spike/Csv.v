From Coq Require Import List NArith Bool Lia.
Import ListNotations.
Definition pstr := list N.
Definition Q : N := 34%N.
Record st := { fld : pstr; quoted : bool; expect : bool; acc : list pstr }.
Definition init := {| fld := []; quoted := false; expect := false; acc := [] |}.
Inductive r := Ok (s:st) | Err.
(* transliteration of parse_complex_csv_line's loop body (str mode) *)
Definition stepc (d:N) (s:st) (ch:N) : r :=
  if andb (N.eqb ch d) (orb (negb (quoted s)) (expect s)) then
    Ok {| fld := []; quoted := false; expect := false; acc := acc s ++ [fld s] |}
  else if N.eqb ch Q then
    match fld s with
    | [] => Ok {| fld := []; quoted := true; expect := expect s; acc := acc s |}
    | _ => if quoted s then
             if negb (expect s) then Ok {| fld := fld s; quoted := true; expect := true; acc := acc s |}
             else Ok {| fld := fld s ++ [ch]; quoted := true; expect := false; acc := acc s |}
           else Ok {| fld := fld s ++ [ch]; quoted := quoted s; expect := expect s; acc := acc s |}
    end
  else if expect s then Err
  else Ok {| fld := fld s ++ [ch]; quoted := quoted s; expect := expect s; acc := acc s |}.
Fixpoint run (d:N) (s:st) (l:pstr) : r :=
  match l with [] => Ok s | c::t => match stepc d s c with Ok s' => run d s' t | Err => Err end end.
Definition parse d l := match run d init l with Ok s => Some (acc s ++ [fld s]) | Err => None end.
(* generate_complex_csv_row *)
Definition dbl (f:pstr) : pstr := flat_map (fun c => if N.eqb c Q then [Q;Q] else [c]) f.
Definition needq (d:N) (f:pstr) := orb (existsb (N.eqb d) f) (match f with c::_ => N.eqb c Q | [] => false end).
Definition genf d f := if needq d f then Q :: dbl f ++ [Q] else f.
Fixpoint gen d (row:list pstr) : pstr :=
  match row with [] => [] | [f] => genf d f | f::t => genf d f ++ d :: gen d t end.
Eval vm_compute in parse 44 (gen 44 [[97;44;34];[];[97;34]])%N.
Eval vm_compute in parse 44 (gen 44 [[34;97]])%N.  (* the defect: leading quote lost *)
