import random, json
r = random.Random(1)
def s2c(s): return '[' + ';'.join(str(ord(c)) for c in s) + ']%N' if s else '[]'
def gen(d):
    k = r.random()
    if d==0 or k<0.3:
        c=r.randint(0,3)
        return ['SNone', ('SBool', r.random()<.5), ('SInt', r.randint(-5,5)), ('SStr', r.choice(['','a','xy','é']))][c]
    if k<0.65: return {r.choice('abcdef')+str(i): gen(d-1) for i in range(r.randint(0,4))}
    return [gen(d-1) for _ in range(r.randint(0,4))]
def coq(t):
    if t=='SNone': return 'Leaf SNone'
    if isinstance(t,tuple):
        if t[0]=='SBool': return f'Leaf (SBool {"true" if t[1] else "false"})'
        if t[0]=='SInt': return f'Leaf (SInt ({t[1]})%Z)'
        return f'Leaf (SStr {s2c(t[1])})'
    if isinstance(t,dict): return 'Dict [' + '; '.join(f'({s2c(k)}, {coq(v)})' for k,v in t.items()) + ']'
    return 'Lst [' + '; '.join(coq(v) for v in t) + ']'
N=1500
with open('Cases.v','w') as f:
    f.write('Require Import Tree. From Coq Require Import List ZArith NArith. Import ListNotations.\n')
    f.write('Definition cases : list tree := [\n' + ';\n'.join(coq(gen(4)) for _ in range(N)) + '].\n')
    f.write('Definition ok (t:tree) : bool := forallb (fun ps => match resolve t (fst ps) with Some (Leaf _) => true | _ => false end) (enum t []).\n')
    f.write('Definition failed := filter (fun it => negb (ok (snd it))) (combine (seq 0 (length cases)) cases).\n')
    f.write('Eval vm_compute in (map fst failed, length cases, fold_right plus 0 (map (fun t => length (enum t [])) cases)).\n')
