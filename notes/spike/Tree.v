From Coq Require Import List ZArith NArith Bool Lia.
Import ListNotations.
Definition pstr := list N.
Definition pstr_eqb (a b : pstr) : bool := if list_eq_dec N.eq_dec a b then true else false.
Inductive scalar := SNone | SBool (b:bool) | SInt (z:Z) | SStr (s:pstr).
Inductive tree := Leaf (s:scalar) | Dict (kvs: list (pstr*tree)) | Lst (xs: list tree).
Inductive pstep := PKey (k:pstr) | PIdx (i:nat).
Definition path := list pstep.

Fixpoint lookup (k:pstr) (kvs: list (pstr*tree)) : option tree :=
  match kvs with [] => None | (k',v)::r => if pstr_eqb k k' then Some v else lookup k r end.

Fixpoint resolve (t:tree) (p:path) : option tree :=
  match p with
  | [] => Some t
  | PKey k :: r => match t with Dict kvs => match lookup k kvs with Some v => resolve v r | None => None end | _ => None end
  | PIdx i :: r => match t with Lst xs => match nth_error xs i with Some v => resolve v r | None => None end | _ => None end
  end.

Fixpoint enum (t:tree) (pre:path) : list (path*scalar) :=
  match t with
  | Leaf s => [(pre,s)]
  | Dict kvs => (fix go (l: list (pstr*tree)) := match l with [] => [] | (k,v)::r => enum v (pre++[PKey k]) ++ go r end) kvs
  | Lst xs => (fix go (l: list tree) (i:nat) := match l with [] => [] | v::r => enum v (pre++[PIdx i]) ++ go r (S i) end) xs 0
  end.

Fixpoint wf (t:tree) : Prop :=
  match t with
  | Leaf _ => True
  | Dict kvs => NoDup (map fst kvs) /\ (fix all (l: list (pstr*tree)) := match l with [] => True | (_,v)::r => wf v /\ all r end) kvs
  | Lst xs => (fix all (l: list tree) := match l with [] => True | v::r => wf v /\ all r end) xs
  end.

Lemma resolve_app t p q : resolve t (p++q) = match resolve t p with Some u => resolve u q | None => None end.
Proof. revert t; induction p as [|s p IH]; intros t; simpl; auto.
  destruct s, t; auto. destruct (lookup k kvs); auto. destruct (nth_error xs i); auto. Qed.

Lemma pstr_eqb_refl k : pstr_eqb k k = true.
Proof. unfold pstr_eqb. destruct (list_eq_dec N.eq_dec k k); congruence. Qed.
Lemma pstr_eqb_eq a b : pstr_eqb a b = true <-> a = b.
Proof. unfold pstr_eqb. destruct (list_eq_dec N.eq_dec a b); split; congruence. Qed.

Section ind.
Variable P : tree -> Prop.
Hypothesis HL : forall s, P (Leaf s).
Hypothesis HD : forall kvs, Forall (fun kv => P (snd kv)) kvs -> P (Dict kvs).
Hypothesis HS : forall xs, Forall P xs -> P (Lst xs).
Fixpoint tree_ind' (t:tree) : P t :=
  match t with
  | Leaf s => HL s
  | Dict kvs => HD kvs ((fix go l : Forall (fun kv => P (snd kv)) l := match l with [] => Forall_nil _ | (k,v)::r => Forall_cons (k,v) (tree_ind' v) (go r) end) kvs)
  | Lst xs => HS xs ((fix go l : Forall P l := match l with [] => Forall_nil _ | v::r => Forall_cons v (tree_ind' v) (go r) end) xs)
  end.
End ind.

Theorem enum_resolves : forall t, wf t -> forall root pre, resolve root pre = Some t ->
  forall p s, In (p,s) (enum t pre) -> resolve root p = Some (Leaf s).
Proof.
  induction t as [s0|kvs IH|xs IH] using tree_ind'; intros Hwf root pre Hpre p s Hin.
  - simpl in Hin. destruct Hin as [H|[]]. inversion H; subst. exact Hpre.
  - simpl in Hwf. destruct Hwf as [Hnd Hall].
    assert (G: forall l, (forall k v, In (k,v) l -> lookup k kvs = Some v) ->
       Forall (fun kv => forall (Hw: wf (snd kv)) root pre, resolve root pre = Some (snd kv) -> forall p s, In (p,s) (enum (snd kv) pre) -> resolve root p = Some (Leaf s)) l ->
       (fix all (l: list (pstr*tree)) := match l with [] => True | (_,v)::r => wf v /\ all r end) l ->
       In (p,s) ((fix go (l: list (pstr*tree)) := match l with [] => [] | (k,v)::r => enum v (pre++[PKey k]) ++ go r end) l) -> resolve root p = Some (Leaf s)).
    { induction l as [|[k v] r IHr]; intros Hlk HF Hw Hi; [destruct Hi|].
      inversion HF; subst. destruct Hw as [Hwv Hwr]. apply in_app_or in Hi. destruct Hi as [Hi|Hi].
      - simpl in H1. eapply (H1 Hwv root (pre++[PKey k])); eauto. rewrite resolve_app, Hpre. simpl. rewrite (Hlk k v (or_introl eq_refl)). reflexivity.
      - apply IHr; auto. intros; apply Hlk; right; auto. }
    apply (G kvs); auto.
    clear -Hnd. induction kvs as [|[k v] r IHr]; intros k0 v0 Hin; [destruct Hin|].
    simpl in *. inversion Hnd; subst. destruct Hin as [H|H].
    + inversion H; subst. rewrite pstr_eqb_refl. reflexivity.
    + destruct (pstr_eqb k0 k) eqn:E. * apply pstr_eqb_eq in E; subst. exfalso. apply H1. apply (in_map fst) in H. exact H. * apply IHr; auto.
  - simpl in Hwf.
    assert (G: forall l i0, (forall j v, nth_error l j = Some v -> nth_error xs (i0+j) = Some v) ->
       Forall (fun t => forall (Hw: wf t) root pre, resolve root pre = Some t -> forall p s, In (p,s) (enum t pre) -> resolve root p = Some (Leaf s)) l ->
       (fix all (l: list tree) := match l with [] => True | v::r => wf v /\ all r end) l ->
       In (p,s) ((fix go (l: list tree) (i:nat) := match l with [] => [] | v::r => enum v (pre++[PIdx i]) ++ go r (S i) end) l i0) -> resolve root p = Some (Leaf s)).
    { induction l as [|v r IHr]; intros i0 Hn HF Hw Hi; [destruct Hi|].
      inversion HF; subst. destruct Hw as [Hwv Hwr]. apply in_app_or in Hi. destruct Hi as [Hi|Hi].
      - eapply (H1 Hwv root (pre++[PIdx i0])); eauto. rewrite resolve_app, Hpre. simpl. specialize (Hn 0 v eq_refl). rewrite Nat.add_0_r in Hn. rewrite Hn. reflexivity.
      - apply (IHr (S i0)); auto. intros j w Hj. specialize (Hn (S j) w Hj). replace (S i0 + j) with (i0 + S j) by lia. exact Hn. }
    apply (G xs 0); auto.
Qed.
Print Assumptions enum_resolves.
