#!/usr/bin/env python3
"""Write the prompts for a round of independent bug-seeding sub-agents (one per property).
usage: mk_seed_prompts.py <round-tag> <outdir>      e.g. r3 /tmp/seedprompts3
Each agent gets only the property text and its own scratch worktree; nothing from /verif."""
import glob, json, os, re, sys
V = os.path.dirname(os.path.dirname(os.path.abspath(__file__)))
tag, out = sys.argv[1], sys.argv[2]
os.makedirs(out, exist_ok=True)
props = [json.loads(l) for l in open(os.path.join(V, "properties.jsonl")) if l.strip()]
T = """You are testing a verification effort by seeding a realistic bug. You work ONLY inside your own scratch git worktree of a Python library (py552/n0struct) at {wt} (already created for you). Do NOT read, list or touch /verif or /repo or any other /tmp/seed* directory, and do not use any information about how the property is being checked: your change must be independent of the checker.

The library: pure-Python utilities extending dict/list (n0dict/n0list) with xpath-style get/set, structural comparison, CSV/TLV/JSON/XML load and export helpers. Run Python with `PYTHONPATH={wt} /venv/bin/python` (add `from loguru import logger; logger.remove()` to silence logging). The existing test suite: `cd {wt} && /venv/bin/python -m pytest -q -p no:cacheprovider` (31 tests, must stay green, unedited).

THE PROPERTY (semantic property the library is supposed to satisfy):
id: {id}
title: {title}
statement: {statement}
quantifier: {quant}
anchors (where the mechanism lives): {anchors}
files: {files}

YOUR TASK: produce TWO independent changes (A and B), both DIFFERENT in mechanism and in code site from the changes listed under "ALREADY TRIED" below, to the library source, each of which
 1. BREAKS the property above (some input/history/configuration in the property's quantifier now violates the statement),
 2. still compiles/imports and passes the existing, unedited test suite,
 3. is REALISTIC (the kind of slip a maintainer could make: an off-by-one, a wrong branch condition, a dropped special case, a refactoring that changes evaluation order, a cache/default-argument reuse, a swapped argument, a too-eager optimisation, a helper "simplified" in a way that is right for the common case), small (a few lines), and
 4. is SUBTLE: it must need something specific to manifest — an unusual input, a particular multi-step sequence of operations, a specific option combination, or two cooperating sites that each look fine alone — NOT something that any ordinary use would expose at once. A and B must use different mechanisms / different code sites. Prefer code the property depends on INDIRECTLY (helpers the anchored functions call, shared utilities, constructors/converters that build the objects, re-entrant paths) over the most obvious line.
For each change also write a small demonstration program (plain Python script `demo.py` that exits 0 when the property holds on its scenario and exits 1 with a message when it is violated): it must FAIL (exit 1) with the change applied and PASS (exit 0) on the unchanged code. The demonstration must test the property as stated (not an implementation detail, not behaviour the property does not mention).

Deliverables (create these directories):
 {o}/A/patch.diff   (output of `git diff` for change A against the worktree's HEAD; must apply with `git apply` on a clean checkout)
 {o}/A/demo.py
 {o}/A/notes.md     (what the change is, why it breaks the property, exactly what is needed for it to manifest, and the commands you ran with their results: test suite green with the patch; demo fails with the patch; demo passes without)
 and the same under {o}/B/.
Work one change at a time: make it, run the suite and the demo, save `git diff > patch.diff`, then `git checkout -- .` to return the worktree to clean before the next one. Leave the worktree clean at the end. Verify each patch applies cleanly (`git apply --check`). Final message: two short paragraphs summarising A and B.

ALREADY TRIED (do not repeat these mechanisms or code sites; find different ones):
{tried}
"""
for p in props:
    pid = p["id"]
    tried = []
    for d in sorted(glob.glob(os.path.join(V, "seeded", pid + "-*"))):
        n = os.path.join(d, "notes.md")
        txt = open(n).read() if os.path.exists(n) else ""
        txt = re.sub(r"\s+", " ", txt)[:600]
        tried.append("- " + txt)
    wt = "/tmp/seed%s-%s" % (tag, pid)
    q = p.get("quantifier", {})
    open(os.path.join(out, "%s.txt" % pid), "w").write(T.format(
        wt=wt, id=pid, title=p.get("title", ""), statement=p["statement"], quant=q.get("text", q) if isinstance(q, dict) else q,
        anchors=json.dumps(p.get("anchors", [])), files=sorted(set(re.findall(r"n0struct/[\w_]+\.py", json.dumps(p.get("anchors", []))))), o="/tmp/seed%s-%s-out" % (tag, pid), tried="\n".join(tried)))
print("wrote", len(props), "prompts to", out)
