import sys, json, copy, itertools, random, collections
sys.path.insert(0,'/repo')
sys.setrecursionlimit(3000)
from loguru import logger; logger.remove()
from n0struct import *
T = {"a": 1, "b": {"c": [10, {"d": "x", "e": None}, [7, 8]], "f": ""}, "g": [], "h": {}, "k": [[1,2],[3]], "r":[{"k":"a","f":1},{"k":"b","f":2}]}
toks = ["a","b","c","d","f","k","r","zz","/","//","[","]","*","..","0","1","2","-","+","last()","new()","text()","=","!=","~","'",'"'," ","x", "[*]","[0]","[1]","[-1]","[last()]","[new()]","[k=a]","[text()=x]"]
rnd = random.Random(1)
stats = collections.Counter(); examples = {}
def plain(x):
    if isinstance(x, dict): return {k: plain(v) for k,v in x.items()}
    if isinstance(x,(list,tuple)): return [plain(v) for v in x]
    return x
for it in range(60000):
    n = rnd.randint(1,6)
    p = ''.join(rnd.choice(toks) for _ in range(n))
    for root in ('dict','list'):
        d = n0dict.convert_recursively(copy.deepcopy(T)) if root=='dict' else n0dict.convert_recursively([copy.deepcopy(T), [1,2], 5])
        before = plain(d)
        for meth in ('get','first','getitem'):
            try:
                if meth=='getitem': d[p]
                else: getattr(d,meth)(p,'DEF')
                k=(root,meth,'ok')
            except BaseException as e:
                k=(root,meth,type(e).__name__)
            stats[k]+=1
            if k not in examples: examples[k]=p
            if plain(d)!=before:
                k2=(root,meth,'MUTATED'); stats[k2]+=1
                if k2 not in examples: examples[k2]=p
                d = n0dict.convert_recursively(copy.deepcopy(T)) if root=='dict' else n0dict.convert_recursively([copy.deepcopy(T), [1,2], 5])
for k in sorted(stats): print(k, stats[k], repr(examples[k]))
