import sys, json, copy, itertools
sys.path.insert(0,'/repo')
from loguru import logger; logger.remove()
from n0struct import *
def show(f):
    try: return ('OK', f())
    except BaseException as e: return ('EXC', type(e).__name__, str(e)[:80])
T={"Root":{"N1":{"S":[{"tag":"P1","value":"v11"},{"tag":"P2","value":"v12"}],"name":"n1"},"N2":{"S":[{"tag":"P1","value":"v21"}],"name":"n2","deep":{"name":"dn"}}, "L":[[{"name":"x"}],[{"name":"y"},{"q":1}]], "name":"rn", "sc":[1,2]}}
d=n0dict.convert_recursively(T)
d0=copy.deepcopy(d)
for p in ["//Root/N1","Root/N1/name","/Root/N1/S","//Root/N1/S/tag","//Root/N1/S[0]/tag","//Root/N1/S[*]/tag","//Root/N1/S[last()]/tag","//Root/N1/S[-1]/tag","//Root/N1/S[5]/tag","//*/name","//Root/*/name","*/name","//*/tag","//Root/N1/S/tag[text()==P1]/../value","//*/S/tag[text()=P1]/../value","//Root/L/name","//Root/L[1]/name","//Root/L[1][0]/name","//Root/L[*][*]/name","//Root/zz","//Root/sc","//Root/sc[0]","//Root/sc/x","//*/q","//","//Root/N1/S/..", "//Root/N1/name/..", "//*/deep/name", "//*/*/name", "//*"]:
    r = show(lambda: d.findall(p))
    print(repr(p), r if len(str(r))<300 else str(r)[:300]+'...')
    if r[0]=='OK' and r[1]:
        for k,v in r[1].items():
            g=show(lambda: d[k])
            if not (g[0]=='OK' and g[1] is v): print("      NOT RESOLVE", k, g)
    print("      first:", show(lambda: d.findfirst(p)), show(lambda: d.findfirst(p, False)))
print("unchanged", d==d0)
# history dependence
a1 = show(lambda: d.findall("//*/name")); a2 = show(lambda: d.findall("//*/name")); print(a1==a2)
import n0struct.n0struct_findall as F
print(F._findall.__defaults__)
l = n0dict.convert_recursively([{"a":{"name":1}},{"name":2}])
print(show(lambda: l.findall("//*/name")), show(lambda: l.findall("[0]/a/name")), show(lambda: l.findall("a/name")))
print(F._findall.__defaults__)
