import sys, json, copy, random, itertools, signal
sys.path.insert(0,'/repo')
from loguru import logger; logger.remove()
from n0struct import *
R=random.Random(5)
C=n0dict.convert_recursively
# C06 fanout/pred on string-valued k, single selecting step, depth prefix
n=bad=0
for _ in range(3000):
    recs=[]
    for i in range(R.randint(0,5)):
        r={}
        if R.random()<.8: r['k']=R.choice(['a','b','ab','c'])
        if R.random()<.8: r['f']=R.choice([1,'x',None,2.5,True])
        if R.random()<.5: r['g']=R.randint(0,3)
        recs.append(r)
    t={'p':{'q':recs},'z':1}; d=C(t)
    lit=R.choice(['a','b','zz','ab'])
    exp_all=[r['f'] for r in recs if 'f' in r]
    for path,exp in [("p/q[*]/f",exp_all),("p/q/f",exp_all),
                     (f"p/q[k={lit}]/f",[r['f'] for r in recs if 'f' in r and r.get('k','\0')==lit and 'k' in r]),
                     (f"p/q[k='{lit}']/f",[r['f'] for r in recs if 'f' in r and 'k' in r and r['k']==lit]),
                     (f"p/q/k[text()={lit}]/../f",[r['f'] for r in recs if 'f' in r and 'k' in r and r['k']==lit]),
                     (f"p/q[k!={lit}]/f",[r['f'] for r in recs if 'f' in r and 'k' in r and r['k']!=lit]),
                     (f"p/q[k~{lit}]/f",[r['f'] for r in recs if 'f' in r and 'k' in r and lit in r['k']])]:
        n+=1
        got=d.get(path,'MISS')
        want = exp if exp else 'MISS'
        ok = got==want and (got=='MISS' or all(type(x)==type(y) for x,y in zip(got,want)))
        f1=d.first(path,'MISS'); wantf = 'MISS' if not exp else (exp[0] if len(exp)==1 else exp)
        ok = ok and (f1==wantf)
        if not ok:
            bad+=1
            if bad<8: print('C06', path, json.dumps(recs), 'got', got, 'want', want, 'first', f1, wantf)
print('C06 single-step', n, 'bad', bad)
# C16 tlv tiling with arbitrary strings (nonneg lens)
class TO(Exception): pass
def h(*a): raise TO()
signal.signal(signal.SIGALRM,h)
n=bad=neg=0
for _ in range(20000):
    s=''.join(R.choice('0123456789+- ab') for _ in range(R.randint(0,10))); tw=R.randint(0,3); lw=R.randint(0,3)
    signal.alarm(1)
    try:
        out=[]; 
        for x in parse_tlv(s,tw,lw):
            out.append(x)
            if len(out)>40: raise TO()
        signal.alarm(0)
        n+=1
        if any(l<0 for _,l,_ in out): neg+=1; continue
        # tiling: reconstruct
        off=0; ok=True
        for tag,l,val in out:
            if s[off:off+tw]!=tag: ok=False
            off+=tw; 
            try:
                if int(s[off:off+lw])!=l: ok=False
            except: ok=False
            off+=lw
            if s[off:off+l]!=val: ok=False
            off+=l
        if not ok or (out and off<len(s)) : bad+=1; print('TLV', repr(s),tw,lw,out)
    except TO: signal.alarm(0); neg+=1
    except ValueError: signal.alarm(0)
    except BaseException as e: signal.alarm(0); bad+=1; print('TLV EXC', type(e).__name__, repr(s), tw, lw)
print('tlv tiles', n, 'bad', bad, 'neg/timeouts', neg)
