import sys, json, copy
sys.path.insert(0,'/repo')
from loguru import logger; logger.remove()
from n0struct import *
C = n0dict.convert_recursively
def trial(a, b, meth='compare', **kw):
    A, B = C(a), C(b)
    A0, B0 = copy.deepcopy(A), copy.deepcopy(B)
    try:
        r = getattr(A, meth)(B, **kw)
        print(meth, json.dumps(a), 'VS', json.dumps(b), {k:v for k,v in kw.items() if k!='transform'} or '')
        for k,v in r.items():
            if v: print('     ', k, v)
        if not r['differences']: print('      EQUAL')
        if A!=A0 or B!=B0: print("      OPERANDS MODIFIED")
    except BaseException as e:
        print(meth, json.dumps(a), 'VS', json.dumps(b), kw or '', f"EXC {type(e).__name__}: {str(e)[:90]}")
L1=[{"id":1,"n":"a","v":10},{"id":2,"n":"b","v":20},{"id":3,"n":"c","v":30}]
L2=[{"id":3,"n":"c","v":30},{"id":1,"n":"a","v":11},{"id":4,"n":"d","v":40}]
trial({"L":L1},{"L":L2},composite_key=("id",))
trial({"L":L1},{"L":L2},composite_key="id")
trial({"L":L1},{"L":L2},composite_key=("id","n"))
trial({"L":L1},{"L":list(reversed(L1))},composite_key=("id",))
trial({"L":L1},{"L":list(reversed(L1))})
trial({"L":[{"id":1,"p":{"q":1,"r":[1,2]}}]},{"L":[{"id":9},{"id":1,"p":{"q":2,"r":[2,1,3]}}]},composite_key=("id",))
trial({"L":[{"id":1,"p":[[1,2],[3]]},{"id":2}]},{"L":[{"id":2},{"id":1,"p":[[3],[1,5]]}]},composite_key=("id",))
trial({"L":[{"id":1,"p":[[1,2],[3]]},{"id":2}]},{"L":[{"id":1,"p":[[1,2],[4]]},{"id":2}]},composite_key=("id",))
trial({"X":{"L":[{"id":1,"p":[{"id":5,"z":1},{"id":6,"z":2}]}]}},{"X":{"L":[{"id":1,"p":[{"id":6,"z":3},{"id":5,"z":1}]}]}},composite_key=("id",))
# dup keys
trial({"L":[{"id":1,"v":1},{"id":1,"v":2}]},{"L":[{"id":1,"v":2},{"id":1,"v":1}]},composite_key=("id",))
# flags
print("---- flags")
for setter, val in [(set__flag_compare_check_different_types, True),(set__flag_compare_return_difference_of_values, True),(set__flag_compare_return_equal, True),(set__flag_compare_return_place, False)]:
    setter(val)
    trial({"a":1,"b":[1,"x",{"c":2}],"d":"s"},{"a":"1","b":[2,"y",{"c":2.5}],"e":5,"d":"t"},'direct_compare')
    trial({"a":1,"b":[1,"x",{"c":2}],"d":"s"},{"a":"1","b":[2,"y",{"c":2.5}],"e":5,"d":"t"},'compare')
    trial({"a":1,"b":[1,2]},{"a":1,"b":[1,2]},'compare')
