import sys, json, copy
sys.path.insert(0,'/repo')
from loguru import logger; logger.remove()
from n0struct import *
def show(f):
    try: return ('OK', f())
    except BaseException as e: return ('EXC', type(e).__name__, str(e)[:90])
t={"a":{"b":1},"l":[1,[2,3],{"c":4}]}
A=n0dict.convert_recursively(t); B=n0dict(copy.deepcopy(t)); J=n0dict(json.dumps(t))
for x,y,n in [(A,B,'conv vs wrap'),(B,A,'wrap vs conv'),(B,B,'wrap vs wrap'),(A,J,'conv vs json'),(J,J,'json vs json'),(J,A,'json vs conv')]:
    for m in ('direct_compare','compare'):
        r=show(lambda: getattr(x,m)(y))
        print(n,m, r if r[0]=='EXC' else ('EQUAL' if not r[1]['differences'] else r[1]['not_equal']))
d=n0dict.convert_recursively({"one":[{"f":9}],"l1":[5],"l2":[[1,2]],"s":"x"})
print(d.first("one"), d.first("l1"), d.first("l2"), d.first("one/f"), d.get("one/f"), d.first("s"))
d2=n0dict.convert_recursively({"a":1}); d2["?b/c"]=None; d2["?b/d"]=""; d2["?b/e"]=0; d2["?a"]=None; print(d2)
print(show(lambda: d2.get(5)), show(lambda: d2.get(None,'D')), show(lambda: d2[5]))
l=n0dict.convert_recursively([1,2]); print(show(lambda: l.get(5,'D')), show(lambda: l.get(None,'D')), show(lambda: l.get('','D')), show(lambda: l.get(-2,'D')))
# dict order after set existing / del / new
d3=n0dict.convert_recursively({"a":1,"b":2,"c":3}); d3["b"]=9; d3["/a"]=8; print(list(d3.items())); d3.delete("b"); d3["b/x"]=1; print(list(d3.items()))
# to_xpath / xpath on list root?
print(show(lambda: n0dict.convert_recursively([1,{"a":2}]).xpath()))
print(show(lambda: n0dict({"a":(1,2)}).xpath()), show(lambda: n0dict({"a":b"x"}).xpath()))
