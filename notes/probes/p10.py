import sys, json, copy
sys.path.insert(0,'/repo')
from loguru import logger; logger.remove()
from n0struct import *
C = n0dict.convert_recursively
def trial(a, b, meth='compare', **kw):
    A, B = C(a), C(b)
    try:
        r = getattr(A, meth)(B, **kw)
        print(meth, {k:v for k,v in kw.items() if k!='transform'} or '', 'T' if 'transform' in kw else '')
        for k,v in r.items():
            if v and k!='differences': print('     ', k, v)
        if not r['differences']: print('      EQUAL')
    except BaseException as e:
        print(meth, kw or '', f"EXC {type(e).__name__}: {str(e)[:90]}")
a={"x":{"y":1,"z":[1,2,{"y":5,"w":1}],"u":{"y":2}},"y":3,"Q":"Ab","only_a":1,"L":[{"y":1},{"y":2}]}
b={"x":{"y":9,"z":[1,3,{"y":6,"w":2}],"u":{"y":8}},"y":4,"Q":"aB","only_b":{"y":1},"L":[{"y":1},{"y":3},{"y":7}]}
print(json.dumps(a)); print(json.dumps(b))
for m in ('direct_compare','compare'):
    trial(a,b,m)
    for ex in [("/x/y",),("//y",),"//y",("y",),("/y",),("//x/y",),("//X/Y",),("/x/*/y",),("/*/y",),("//u/y","//Q"),("/x",),("//x",),("//z",),("//L",), ("/only_a","/only_b"),("//w",),("x/y",), ("//*/y",), ("/x/z/y",), ("/x/z[2]/y",)]:
        trial(a,b,m,exclude_xpaths=ex)
    for co in [("/x/y",),("//y",),("y",),("//w",),("//only_a",),("//z",),("//Q",)]:
        trial(a,b,m,compare_only=co)
    trial(a,b,m,transform=(("//Q", lambda s: s.lower()),))
    trial(a,b,m,transform=(("//y", lambda s: 0),))
    trial(a,b,m,transform=(("//z", lambda s: 0),))
    trial(a,b,m,transform=(("//x", lambda s: 0),))
