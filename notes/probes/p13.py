import sys, json, copy, csv, io, itertools
sys.path.insert(0,'/repo')
from loguru import logger; logger.remove()
from n0struct import *
alpha = ['a', ',', ';', '"', "'", ' ', 'é']
bad_gen=[]; bad_csv=[]; n=0
for L in range(0,4):
    for f in itertools.product(alpha, repeat=L):
        f=''.join(f)
        for row in ([f],[f,'x'],['x',f],['x',f,'y'], [f,f]):
            n+=1
            line = generate_complex_csv_row(row, ',')
            try: got = parse_complex_csv_line(line, ',')
            except Exception as e: got = ('EXC', type(e).__name__)
            if got != row: bad_gen.append((row,line,got))
            s=io.StringIO(); csv.writer(s, delimiter=',', lineterminator='\n').writerow(row); line2=s.getvalue()
            try: got2 = parse_complex_csv_line(line2, ',')
            except Exception as e: got2 = ('EXC', type(e).__name__)
            if got2 != row: bad_csv.append((row,line2,got2))
print(n, len(bad_gen), len(bad_csv))
for x in bad_gen[:25]: print('GEN', x)
for x in bad_csv[:25]: print('CSV', x)
# bytes
print(parse_complex_csv_line(b'a,"b,c",d\r\n', b','), parse_complex_csv_line(b'a,"b,c",d\r\n', ','))
print(parse_complex_csv_line('a,"b,c",d\r\n', b','))
print(repr(generate_complex_csv_row(['a','b'], ',', '')))
print(repr(generate_complex_csv_row([], ',')))
print(parse_complex_csv_line('', ','), parse_complex_csv_line('\n', ','))
