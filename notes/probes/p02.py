import sys, json, copy
sys.path.insert(0,'/repo')
from loguru import logger; logger.remove()
from n0struct import n0dict, n0list

def plain(x):
    if isinstance(x, dict): return {k: plain(v) for k,v in x.items()}
    if isinstance(x,(list,tuple)): return [plain(v) for v in x]
    return x
def tshow(x):
    if isinstance(x, dict): return type(x).__name__[0:2]+'{'+', '.join(f'{k}:{tshow(v)}' for k,v in x.items())+'}'
    if isinstance(x,(list,tuple)): return type(x).__name__[0:2]+'['+', '.join(tshow(v) for v in x)+']'
    return repr(x)
T = {"a": 1, "b": {"c": [10, {"d": "x", "e": None}, [7, 8]], "f": ""}, "g": [], "h": {}, "k": [[1,2],[3]]}
def trial(p, v, conv=n0dict.convert_recursively, t=T):
    d = conv(copy.deepcopy(t))
    try:
        d[p] = v
        print(f"{p!r:40} = {v!r}: ", tshow(d))
    except BaseException as e:
        print(f"{p!r:40} = {v!r}: EXC {type(e).__name__}: {str(e)[:90]}   AFTER: {tshow(d) if plain(d)!=t else 'unchanged'}")
print(tshow(n0dict.convert_recursively(T)))
print("--- existing")
for p in ["a","/a","b/f","b/c[0]","b/c[-1]","b/c[last()]","b/c[1]/d","b/c[2][0]","b/c[2]/[1]","b","b/c","k[0][1]","b/c[last()-1]/e", "b/c[1]", "h", "g", "b/c[-3]", "a[0]", "b/c[1][0]"]:
    trial(p, "NEW")
print("--- existing plain")
for p in ["a","b/f","b/c[0]","b/c[1]/d","b/c[2][0]"]:
    trial(p, "NEW", conv=n0dict)
print("--- create")
for p in ["x","x/y","x/y/z","b/x","b/x/y","h/x","h/x/y","b/c[1]/x","b/c[1]/x/y","x[new()]","x[0]","x[1]","x[new()]/y","x[0]/y","x/y[new()]","x/y[new()]/z",
          "b/c[new()]","b/c[3]","b/c[4]","b/c[new()]/q","b/c[3]/q","g[new()]","g[0]","g[0]/q","g[new()]/q", "a[new()]", "a[1]", "b/f[new()]", "h[new()]", "b[new()]", "b[new()]/z", "a/x", "b/c[0]/x", "b/f/x",
          "b/c[2][new()]","b/c[2][2]","b/c[2][3]","k[new()]","k[new()][new()]","k[2][0]","k[new()]/[new()]", "x[new()][new()]", "x[0][0]", "x[new()]/y[new()]", "x[new()]/y[new()]/z", "x[last()]", "b/c[last()+1]", "k[1][1]", "k[1][new()]", "k[0][new()]/w"]:
    trial(p, "NEW")
