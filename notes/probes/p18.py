import sys, json, copy, itertools
sys.path.insert(0,'/repo')
from loguru import logger; logger.remove()
from n0struct import *
import xml.etree.ElementTree as ET
def show(f):
    try: return ('OK', f())
    except BaseException as e: return ('EXC', type(e).__name__, str(e)[:80])
x = n0xml('<r><a>1</a><b><c>x</c><c>y</c><d/><c>x</c></b><a k="v">2</a><b><c>z</c></b><e><f><c>q</c></f></e></r>')
print(x.ordered_items)
for p in ["a","a[1]","a[2]","b/c","b/c[1]","b/c[2]","b[1]/c","b[1]/c[0]","b/d","e/f/c","","/","zz","b/zz", "b[0]/c[2]", "a/x"]:
    print(repr(p), show(lambda: x.get(p,'DEF')), show(lambda: x.get_attrib(p,'DEF')))
for p in ["a","a[1]","a[*]","b/c","b[*]/c[*]","b/c[1]","b[1]/c","b/c[text()=x]","b/c[text()!=x]","b/c[text()='x']","*","*/c","**","**/c","b/**","e/**","e/**/c","b/c/..","b/c[text()=x]/../d","**/c[text()=x]","a[5]","zz","b/*","b[0]/c[2]", "e/f", "b/d", "**/d", "b/d[text()=None]", "b[0]"]:
    r = show(lambda: x.findall(p))
    print(repr(p), r)
    if r[0]=='OK' and r[1]:
        for path,val in r[1]:
            g = show(lambda: x.get(path,'DEF'))
            if g != ('OK',val): print('      NOT RESOLVE', path, val, g)
    print('      first', show(lambda: x.findfirst(p)), 'in', show(lambda: p in x))
