import sys, json, copy
sys.path.insert(0,'/repo')
from loguru import logger; logger.remove()
from n0struct import n0dict, n0list
def show(f):
    try:
        return ('OK', f())
    except BaseException as e:
        return ('EXC', type(e).__name__, str(e)[:80])
T = {"r": {"recs": [{"k":"a","f":1,"n":1},{"k":"b","f":2,"n":2},{"f":3,"n":1},{"k":"a","n":3},{"k":"ab","f":5,"n":1.5}], "one":[{"k":"a","f":9}], "single": {"k":"a","f":7}, "empty": []},
     "orders":[{"id":"1","items":[{"sku":"A","q":1},{"sku":"B","q":2}]},{"id":"2","items":[{"sku":"B","q":3},{"sku":"C","q":4}]},{"id":"2","items":[{"sku":"B","q":5}]}]}
d = n0dict.convert_recursively(T)
for p in ["r/recs[*]/f","r/recs/f","r/recs[*]/k","r/recs/zz","r/recs[*]/zz","r/recs[k=a]/f","r/recs[k='a']/f",'r/recs[k="a"]/f',"r/recs[k==a]/f","r/recs/k[text()=a]/../f","r/recs/k[text()='a']/../f","r/recs[k!=a]/f","r/recs[k~a]/f","r/recs[k=zz]/f","r/recs[k=b]/f",
          "r/recs[n=1]/f","r/recs[n=1]/k","r/recs[f=2]/k","r/recs[n=1.5]/f","r/recs[*]","r/recs","r/one[*]/f","r/one/f","r/one[k=a]/f","r/single/f","r/single[k=a]/f","r/single[*]/f","r/single[k=b]/f","r/empty[*]/f","r/empty/f","r/empty[k=a]/f",
          "orders[id=2]/items[sku=B]/q","orders/items/q","orders[*]/items[*]/q","orders[id=1]/items[sku=B]/q","orders[id=1]/items/q","orders[id=2]/items/sku", "orders[0]/items[sku=B]/q","orders[id=2]/items[0]/q", "orders[id=3]/items[sku=B]/q", "orders[id=2]/items[sku=Z]/q", "orders[id=2]/items[sku=C]/q",
          "r/recs[k=a]", "r/recs[k=a]/k", "r/recs[k!=a]/k","r/recs[k!~a]/k", "r/recs[contains(text(),a)]", "r/recs/k[contains(text(),a)]/../f"]:
    print(f"{p!r:45}", show(lambda: d[p]), '|', show(lambda: d.get(p,'DEF')), '|', show(lambda: d.first(p,'DEF')))
