import sys, json, copy
sys.path.insert(0,'/repo')
from loguru import logger; logger.remove()
from n0struct import n0dict, n0list
def plain(x):
    if isinstance(x, dict): return {k: plain(v) for k,v in x.items()}
    if isinstance(x,(list,tuple)): return [plain(v) for v in x]
    return x
T = {"a": 1, "b": {"c": [10, {"d": "x", "e": None}, [7, 8]], "f": ""}, "g": [], "h": {}, "k": [[1,2],[3]], "m": {"n": {"o": {"p": 1}}, "q": 2}}
def trial(kind, p, **kw):
    d = n0dict.convert_recursively(copy.deepcopy(T))
    try:
        r = getattr(d, kind)(p, **kw)
        r = r if kind=='pop' else ''
        print(f"{kind} {p!r:30} {kw}: ret={r!r}", json.dumps(plain(d)) if plain(d)!=T else 'unchanged')
    except BaseException as e:
        print(f"{kind} {p!r:30} {kw}: EXC {type(e).__name__}: {str(e)[:90]}   AFTER: {json.dumps(plain(d)) if plain(d)!=T else 'unchanged'}")
for p in ["a","/a","//a","b/f","b/c[0]","b/c[1]/d","b/c/[1]/d","b/c[2][0]","b/c[2]/[0]","b/c[-1]","b/c[last()]","k[0][1]","k[1][0]","b/c","b","zz","b/zz","b/c[5]","a/x","m/n/o/p", "b/c[1]", "g","h", "b/c[*]", "b/c[last()-1]/e"]:
    trial('delete', p)
    trial('pop', p, if_not_found='DEF')
for p in ["m/n/o/p","b/c[1]/d","k[1][0]", "m/q", "/m/n/o/p","h", "b/c[2][0]"]:
    trial('delete', p, recursively=True)
    trial('pop', p, if_not_found='DEF', recursively=True)
