import sys, json
sys.path.insert(0,'/repo')
from loguru import logger; logger.remove()
from n0struct import n0dict, n0list
import itertools, random

def show(f):
    try:
        return ('OK', f())
    except BaseException as e:
        return ('EXC', type(e).__name__, str(e)[:100])

t = {"a": 1, "b": {"c": [10, {"d": "x", "e": None}, [7, 8]], "f": ""}, "g": [], "h": {}, "k": [[1,2],[3]], "t": True, "fl": 1.5}
for conv in (n0dict, n0dict.convert_recursively):
    d = conv(t)
    print(conv, d.xpath())
    for xp, v in d.xpath():
        print(' ', xp, repr(v), show(lambda: d[xp]), show(lambda: d.get(xp)), show(lambda: d.first(xp)))
for p in ["a","/a","//a","b/c[0]","b/c/[0]","b/c[1]/d","b/c[-2]/d","b/c[last()]","b/c[last()][0]","b/c[last()-1]/d","b/c[2][1]","b/c[2]/[1]","b/c[1+1][1]","b/c[3]","b/c[-4]","b/c[-3]", "k[0][1]","k[1][0]","k[1][1]", "g","g[0]","h","h/x","a/x","a[0]","a[1]","b/f[0]", "b/c[0]/x", "b/c[1][0]"]:
    d = n0dict.convert_recursively(t)
    print(p, show(lambda: d[p]), show(lambda: d.get(p,'DEF')), show(lambda: d.first(p,'DEF')))
print("list rooted")
l = n0dict.convert_recursively([1, {"a": [5,6]}, [3,4]])
print(type(l))
for p in ["[0]","[1]/a[1]","[1]/a","[2][0]","[2]/[1]","[-1][0]","[last()][1]","[3]","/[0]","//[1]/a[0]", "0","-1","last()","[1]", "[1]/b", "[*]", "[1]/a[*]", "a"]:
    print(p, show(lambda: l[p]), show(lambda: l.get(p,'DEF')), show(lambda: l.first(p,'DEF')))
l2 = n0list([1, {"a": [5,6]}, [3,4]])
for p in ["[0]","[1]/a[1]","[2][0]"]:
    print('plain',p, show(lambda: l2[p]), show(lambda: l2.get(p,'DEF')))
