import sys, json, copy, csv, io, itertools, signal
sys.path.insert(0,'/repo')
from loguru import logger; logger.remove()
from n0struct import *
def show(f):
    try: return ('OK', f())
    except BaseException as e: return ('EXC', type(e).__name__, str(e)[:80])
class TO(Exception): pass
def h(*a): raise TO()
signal.signal(signal.SIGALRM, h)
# reference split with escape: delimiter preceded by odd run of escapes stays inside; trim double escapes? 
alpha=['a',';','\\']
bad=[]; n=0
import re
for L in range(0,7):
    for s in itertools.product(alpha, repeat=L):
        s=''.join(s)
        for ms in (None,0,1,2,3):
          for trim in (True, False):
            n+=1
            signal.alarm(2)
            try:
                r = split_with_escape(s,';',ms,'\\',trim)
            except TO: r=('TIMEOUT',)
            except BaseException as e: r=('EXC',type(e).__name__,str(e)[:50])
            finally: signal.alarm(0)
            if not isinstance(r, list): bad.append((s,ms,trim,r))
            elif '\\' not in s:
                exp = s.split(';', ms if ms else -1)
                if r!=exp: bad.append((s,ms,trim,r,exp))
print(n,len(bad))
for b in bad[:30]: print(b)
for s in ["a\;b;c", "a\\\;b;c", "a\\\\\;b;c", "a;b\\", "a;b\\\\", "a\;b\;c;d", "\;", ";\;;", "a\\\\\\\;b"]:
    print(repr(s), split_with_escape(s,';'), split_with_escape(s,';',trim_trailing_double_escape_characters=False), split_with_escape(s,';',1), split_with_escape(s,';',2))
print(deserialize_list("a;b;;c"), deserialize_list("a;b;;c", parse_empty=True), deserialize_list("a\;b;c", escape_character='\\'), deserialize_list(""), deserialize_list("", parse_empty=True))
for d in [{"a":"1","b":"2"},{"a":"x;y","b":"p=q"},{"a":"{}[]\"\\"},{"a":""},{"a":None},{"a":{"b":"c","d":"e"}},{"a":["x","y"]},{"a":{"b":{"c":"d"}}},{"a":1,"b":True},{"a":{}},{"a":[]}, {"a":"é"}, {"a;b":"x"}, {"a":"\\x41"}]:
    s = show(lambda: serialize_dict(d))
    print(d, s, show(lambda: unescape(deserialize_dict(s[1]))) if s[0]=='OK' else '')
print(deserialize_dict("a=1;b;c=3"), deserialize_dict("a=1;b;c=3", default_value="D"), deserialize_dict("a=1;;c=3", parse_empty=True), show(lambda: deserialize_dict("a=1;;c=3", parse_empty=True, default_value='D')))
print(deserialize_key_value("a"), deserialize_key_value("a=b=c"), deserialize_key_value("=b"), deserialize_key_value("v", default_key="K"))
# ini
save_file('/tmp/probe/t.ini', {"a":"1","b":"x y","c":"1.5","d":"'q'","e+":"x","e+ ":"y"}, EOL='\n')
print(open('/tmp/probe/t.ini').read())
print(load_ini('/tmp/probe/t.ini'))
print(parse_ini(["# c","// c","a = 1","b= 'x' ","c =\"y\"","d","e=1.25", "f+=ab","f+=cd","g+=1","  h=2", "i = -3", "j=+4", "k=1_0", "l = 1e3", "m=x=y", "n=#5"]))
