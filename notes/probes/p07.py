import sys, json, copy
sys.path.insert(0,'/repo')
from loguru import logger; logger.remove()
from n0struct import *
def plain(x):
    if isinstance(x, dict): return {k: plain(v) for k,v in x.items()}
    if isinstance(x,(list,tuple)): return [plain(v) for v in x]
    return x
C = n0dict.convert_recursively
def trial(a, b, meth='direct_compare', **kw):
    A, B = C(a), C(b)
    try:
        r = getattr(A, meth)(B, **kw)
        print(meth, json.dumps(a), 'VS', json.dumps(b), kw or '')
        for k,v in r.items():
            if v: print('     ', k, v)
        if not r['differences']: print('      EQUAL')
    except BaseException as e:
        print(meth, json.dumps(a), 'VS', json.dumps(b), kw or '', f"EXC {type(e).__name__}: {str(e)[:90]}")
pairs = [
 ({"a":1},{"a":1}), ({"a":1},{"a":2}), ({"a":1},{"a":"1"}), ({"a":1},{"a":1.0}), ({"a":True},{"a":1}), ({"a":None},{"a":None}), ({"a":None},{"a":1}), ({"a":1},{"a":None}), ({"a":None},{"a":""}),
 ({"a":1},{}), ({},{"a":1}), ({"a":1,"b":2},{"b":2,"a":1}),
 ({"a":[1,2]},{"a":[1,2]}), ({"a":[1,2]},{"a":[2,1]}), ({"a":[1,2]},{"a":[1]}), ({"a":[1]},{"a":[1,2]}), ({"a":[]},{"a":[1]}), ({"a":[1,None]},{"a":[1,None]}), ({"a":[None]},{"a":[1]}),({"a":[1,1]},{"a":[1]}),
 ({"a":[{"x":1},{"x":2}]},{"a":[{"x":2},{"x":1}]}), ({"a":[{"x":1},{"x":2}]},{"a":[{"x":1},{"x":3}]}), ({"a":[[1,2],[3]]},{"a":[[1,2],[3]]}), ({"a":[[1,2],[3]]},{"a":[[1,2],[4]]}), ({"a":[[1,2],[3]]},{"a":[[3],[1,2]]}),
 ({"a":{"b":{"c":1}}},{"a":{"b":{"c":2}}}), ({"a":{"b":1}},{"a":[1]}), ({"a":{}},{"a":{}}), ({"a":{}},{"a":[]}), ({"a":{}},{"a":None}), ({"a":[{"x":1}]},{"a":[[1]]}),({"a":[1,"1"]},{"a":["1",1]}), ({"a":[1.0]},{"a":[1]}),({"a":["x"]},{"a":[["x"]]}),
]
for a,b in pairs:
    trial(a,b,'direct_compare'); trial(a,b,'compare')
