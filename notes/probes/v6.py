import sys, itertools, csv, io, copy, random, json
sys.path.insert(0,'/repo')
from loguru import logger; logger.remove()
from n0struct import *
alpha = ['a', ',', ';', '"', "'", ' ', 'é']
tot=bad=unexpl=0
for L in range(0,5):
    for f in itertools.product(alpha, repeat=L):
        f=''.join(f)
        for row in ([f],[f,'x'],['x',f],['x',f,'y'],[f,f]):
            for eol in ('\n','\r\n',''):
                tot+=1
                line = generate_complex_csv_row(row, ',', eol)
                try: got = parse_complex_csv_line(line, ',')
                except Exception as e: got=('EXC',)
                s=io.StringIO(); csv.writer(s, delimiter=',', lineterminator=eol or '\n').writerow(row); line2=s.getvalue()
                try: got2 = parse_complex_csv_line(line2, ',')
                except Exception as e: got2=('EXC',)
                if got!=row or got2!=row:
                    bad+=1
                    if not any(x.startswith('"') for x in row): unexpl+=1; print('UNEXPLAINED', row, repr(line), got, repr(line2), got2)
print('csv', tot, 'bad', bad, 'unexplained', unexpl)
