import sys, json, copy, random, itertools, re
sys.path.insert(0,'/repo')
from loguru import logger; logger.remove()
from n0struct import *
R=random.Random(3)
KEYS=['a','b','c','k','f','n']
def leaf(): return R.choice([None, True, R.randint(-3,9), R.choice(['','x','yz']), 1.5])
def gen(d, inrec=False):
    r=R.random()
    if d==0 or r<0.3: return leaf()
    if r<0.65:
        ks=R.sample(KEYS, R.randint(0,4)); return {k:gen(d-1,inrec) for k in ks}
    if inrec: return leaf()
    return [gen(d-1,True) for _ in range(R.randint(0,4))]
def gend(d=4):
    while True:
        t=gen(d)
        if isinstance(t,dict): return t
C=n0dict.convert_recursively
def plain(x):
    if isinstance(x, dict): return {k: plain(v) for k,v in x.items()}
    if isinstance(x,(list,tuple)): return [plain(v) for v in x]
    return x
def positions(t,pre=()):
    yield pre
    if isinstance(t,dict):
        for k,v in t.items(): yield from positions(v,pre+(k,))
    elif isinstance(t,list):
        for i,v in enumerate(t): yield from positions(v,pre+(i,))
def mutate(t):
    t=copy.deepcopy(t); ps=[p for p in positions(t) if p]
    if not ps: t['zz']=1; return t
    p=R.choice(ps); par=t
    for st in p[:-1]: par=par[st]
    r=R.random()
    if r<0.4: par[p[-1]]=leaf()
    elif r<0.55:
        if isinstance(par,dict): del par[p[-1]]
        else: par.pop(p[-1])
    elif r<0.75:
        if isinstance(par,dict): par[R.choice(KEYS)]=leaf()
        else: par.append(leaf())
    else: par[p[-1]]=leaf()
    return t
def entries(r):
    out=[]
    for k in ('not_equal','self_unique','other_unique'):
        for path,v in r[k]: out.append((k,path,json.dumps(plain(v),default=str)))
    return out
def dict_entry_prefixes(path):
    # path like /x/z[2]<>[3]/y : dict-entry prefixes = each prefix ending at a '/'-part boundary, plus list-level prefixes (part without trailing index)
    parts=path.split('/')[1:]
    res=[]
    for i in range(1,len(parts)+1):
        pre='/'+'/'.join(parts[:i])
        res.append(pre)                      # full part (dict key possibly with index suffix)
        stripped=re.sub(r'(\[[^\]]*\](<>\[[^\]]*\])?)+$','',parts[i-1])
        if stripped!=parts[i-1]:
            res.append('/'+'/'.join(parts[:i-1]+[stripped]))   # the dict entry holding the list
    return res
def under_excluded(path, E):
    for pre in dict_entry_prefixes(path):
        # only prefixes that are dict entries: either no index suffix at the end, or full path that ends at a key
        if re.search(r'\]$', pre.split('/')[-1]): continue
        if xpath_match(pre,E): return True
    return False
n=bad=0
for _ in range(3000):
    a=gend(); b=copy.deepcopy(a)
    for _ in range(R.choice([1,2,3,4])): b=mutate(b)
    if not isinstance(b,dict): continue
    names=[k for t in (a,b) for p in positions(t) for k in p if isinstance(k,str)] or ['a']
    def pat():
        k=R.choice(names); r=R.random()
        if r<.3: return '//'+k
        if r<.45: return k.upper()
        if r<.6: return '/'+k
        if r<.8: return '//'+R.choice(names)+'/'+k
        return '/*/'+k
    E=tuple(pat() for _ in range(R.randint(1,2)))
    if R.random()<.2: E=E[0]
    A,B=C(a),C(b)
    for m in ('direct_compare','compare'):
        try:
            r0=getattr(A,m)(B); r1=getattr(A,m)(B,exclude_xpaths=E)
        except BaseException as e:
            print('EXC',type(e).__name__, str(e)[:50]); continue
        n+=1
        want=[e for e in entries(r0) if not under_excluded(e[1],E)]
        if entries(r1)!=want:
            bad+=1
            if bad<6: print('EXCL', m, E, json.dumps(a), json.dumps(b), '\n   got', entries(r1), '\n   want', want)
print('exclude_is_filter', n, 'bad', bad)
# compare_only filter: keep dict-entry-located entries that match; list membership untouched
def at_dict_entry(kind,path):
    return not re.search(r'\]$', path)   # path ends with a key -> located at dict entry
n=bad=0
for _ in range(3000):
    a=gend(); b=copy.deepcopy(a)
    for _ in range(R.choice([1,2,3,4])): b=mutate(b)
    if not isinstance(b,dict): continue
    names=[k for t in (a,b) for p in positions(t) for k in p if isinstance(k,str)] or ['a']
    E=tuple('//'+R.choice(names) for _ in range(R.randint(1,2)))
    A,B=C(a),C(b)
    for m in ('direct_compare','compare'):
        try: r0=getattr(A,m)(B); r1=getattr(A,m)(B,compare_only=E)
        except BaseException as e: print('EXC',type(e).__name__); continue
        n+=1
        want=[e for e in entries(r0) if (not at_dict_entry(e[0],e[1])) or xpath_match(e[1],E)]
        if entries(r1)!=want:
            bad+=1
            if bad<6: print('ONLY', m, E, json.dumps(a), json.dumps(b), '\n   got', entries(r1), '\n   want', want)
print('compare_only_is_filter', n, 'bad', bad)
