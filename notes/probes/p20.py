import sys, ast, builtins, symtable, os, importlib
sys.path.insert(0,'/repo')
from loguru import logger; logger.remove()
import n0struct
pkg='/repo/n0struct'
for fn in sorted(os.listdir(pkg)):
    if not fn.endswith('.py'): continue
    modname = 'n0struct.'+fn[:-3] if fn!='__init__.py' else 'n0struct'
    mod = importlib.import_module(modname)
    src=open(os.path.join(pkg,fn)).read()
    st = symtable.symtable(src, fn, 'exec')
    def walk(t, path):
        for s in t.get_symbols():
            if t.get_type()!='module' and (s.is_global() or (s.is_free() and False)) and s.is_referenced():
                n=s.get_name()
                if not hasattr(mod,n) and not hasattr(builtins,n):
                    print(modname, '.'.join(path+[t.get_name()]), 'UNDEFINED GLOBAL', n)
        for c in t.get_children():
            walk(c, path+[t.get_name()] if t.get_type()!='module' else [])
    walk(st, [])
    allv = getattr(mod,'__all__',None)
    if allv:
        for n in allv:
            if not hasattr(mod,n): print(modname,'__all__ missing',n)
            if not hasattr(n0struct,n) and modname!='n0struct': print(modname,'not exposed by package',n)
