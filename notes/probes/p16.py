import sys, json, copy, csv, io, itertools, signal
sys.path.insert(0,'/repo')
from loguru import logger; logger.remove()
from n0struct import *
def show(f):
    try: return ('OK', f())
    except BaseException as e: return ('EXC', type(e).__name__, str(e)[:80])
class TO(Exception): pass
def h(*a): raise TO()
signal.signal(signal.SIGALRM, h)
def ptlv(s, t=2, l=3, maxn=50):
    signal.alarm(2)
    try:
        out=[]
        for x in parse_tlv(s,t,l):
            out.append(x)
            if len(out)>maxn: return ('NONTERM', out[:3])
        return ('OK', out)
    except TO: return ('TIMEOUT',)
    except BaseException as e: return ('EXC', type(e).__name__, str(e)[:60])
    finally: signal.alarm(0)
for d,kw in [({"01":"P2","02":"01"},{}),({"1":"abc"},{}),({"123":"x"},{}),({"01":"x"*1000},{}),({"01":""},{}),({"":"x"},{"tag_fieldlen":0}),({"ab":"x"},dict(tag_fieldlen=2,len_fieldlen=0)),({"ab":""},dict(tag_fieldlen=2,len_fieldlen=0)),({"a":"x"},dict(tag_padding='0')), ({"a":"xy"},dict(len_padding=' ')), ({"a":"xy"},dict(len_padding='-'))]:
    g = show(lambda: generate_tlv(d,**kw))
    print(d if len(str(d))<50 else '<big>', kw, g if len(str(g))<80 else '<big>', ptlv(g[1], kw.get('tag_fieldlen',2), kw.get('len_fieldlen',3)) if g[0]=='OK' and len(g[1])<100 else '')
for s in ["01002P2", "01-05", "01-01x", "01 -1", "01+02ab", "01 02ab","01002a","01","010","0100","01000","01000x","01abc","01001", "011_1"+"x"*11, "01١٢٣"+"x"*130, "ab0 1x", "ab 1 x","ab-00cd"]:
    print(repr(s), ptlv(s))
print(ptlv("abcd",2,0), ptlv("ab",0,0), ptlv("1a1b",0,1), ptlv("-1",0,2), ptlv("-1a",0,2), ptlv("ab",-1,1))
# fwf
fmt = [dict(name='A',offset=0,size=3,till=3),dict(name='B',offset=3,size=4,till=7,type='int'),dict(name='C',offset=9,size=2,till=11)]
pf = {c['name']:{'offset':c['offset'],'width':c['size']} for c in fmt}
for rec in [{'A':'ab','B':12,'C':'zz'},{'A':'abcdef','B':123456,'C':''},{'A':'a'},{'B':-5}, {'A':'ab','B':'x','C':None}]:
    r = show(lambda: generate_fwf_row(rec, fmt))
    print(rec, r, show(lambda: parse_fwf_row(r[1], pf)) if r[0]=='OK' else '')
open('/tmp/probe/f.fwf','w').write("abc0012  zz\nabcXXXX  yy\nabc0001  qq\n")
pf2 = dict(pf); pf2['B']=dict(pf['B'], validations=["column_value.isdigit()"], error_message="B not digits")
print(show(lambda: load_fwf('/tmp/probe/f.fwf', pf2, EOL='\n')))
open('/tmp/probe/f.fwf','w').write("abc0012  zz\nabc0002  yy\nabcXXXX  qq\n")
print(show(lambda: load_fwf('/tmp/probe/f.fwf', pf2, EOL='\n')))
open('/tmp/probe/f.fwf','w').write("abc0012  zz\nabc0002  yy\nabc0003  qq\n")
print(show(lambda: load_fwf('/tmp/probe/f.fwf', pf2, EOL='\n')))
print(show(lambda: load_fwf('/tmp/probe/f.fwf', pf2)))
