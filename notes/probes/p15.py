import sys, json, copy, csv, io, itertools, signal, os
sys.path.insert(0,'/repo')
from loguru import logger; logger.remove()
from n0struct import *
def show(f):
    try: return ('OK', f())
    except BaseException as e: return ('EXC', type(e).__name__, str(e)[:80])
P='/tmp/probe/f.txt'
texts = ["", "a", "a\nb", "a\nb\n", "\na\n\nb", "é\tx \n", "a\rb\n"]
for t in texts:
  for eol in ['\n','\r\n','\r','\n\r','<EOL>', None]:
    for mode in ['t','wt','b','wb']:
      for enc in ['utf-8','utf-8-sig','latin-1']:
        kw = dict(mode=mode, encoding=enc); 
        if eol is not None: kw['EOL']=eol
        if os.path.exists(P): os.remove(P)
        r = show(lambda: save_file(P, t, **kw))
        disk = open(P,'rb').read() if os.path.exists(P) else None
        exp = t.replace('\n', eol if eol is not None else os.linesep).encode(enc)
        lk = dict(encoding=enc); 
        if eol is not None: lk['EOL']=eol
        back = show(lambda: load_file(P, **lk))
        ok = (disk==exp) and back==('OK',t)
        if not ok: print(repr(t), repr(eol), mode, enc, r, 'disk', disk, 'exp', exp, 'back', back)
print("---bytes")
for b in [b"", b"a\nb\r\n\x00\xff"]:
    for eol in ['\n','\r\n','<E>']:
        for mode in ['t','b','wt','wb']:
            r=show(lambda: save_file(P,b,mode=mode,EOL=eol)); disk=open(P,'rb').read(); back=show(lambda: load_file(P,'b'))
            if disk!=b or back!=('OK',b): print(b,eol,mode,r,disk,back)
print("---lines")
for lines in [[], ["a"], ["a","b",""], ["a","","b"], ["é"], [b"a",b"b"], ["a",b"b",3]]:
    for eol in ['\n','\r\n','\r','\n\r','<E>']:
        for mode in ['t','b']:
            r=show(lambda: save_file(P,lines,mode=mode,EOL=eol)); disk=open(P,'rb').read()
            back=show(lambda: list(load_lines(P, EOL=eol)))
            backb=show(lambda: list(load_lines(P, 'b', EOL=eol)))
            print(lines, repr(eol), mode, r[0], disk, back, backb)
print("--- append")
save_file(P,"a\n",EOL='\n'); save_file(P,"b\n",mode='at',EOL='\n'); print(open(P,'rb').read())
save_file(P,"a\n",EOL='\r\n'); save_file(P,"b\n",mode='at',EOL='\r\n'); print(open(P,'rb').read())
save_file(P,"a\n",EOL='<E>'); save_file(P,"b\n",mode='at',EOL='<E>'); print(open(P,'rb').read())
save_file(P,"a\n",EOL='\n'); save_file(P,b"b\n",mode='at',EOL='\n'); print(open(P,'rb').read())
save_file(P,"a\n",EOL='\n'); save_file(P,b"b\n",mode='a',EOL='\n'); print(open(P,'rb').read())
save_file(P,{"k":"v","k2":1},EOL='\n'); print(open(P,'rb').read())
