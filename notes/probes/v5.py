import sys, json, copy, random, itertools, re
sys.path.insert(0,'/repo')
from loguru import logger; logger.remove()
from n0struct import *
R=random.Random(9)
KEYS=['a','b','c']
def leaf(): return R.choice([None, True, R.randint(-3,9), R.choice(['','x','yz']), 1.5])
def gen(d):
    r=R.random()
    if d==0 or r<0.3: return leaf()
    if r<0.65:
        ks=R.sample(KEYS, R.randint(0,3)); return {k:gen(d-1) for k in ks}
    return [gen(d-1) for _ in range(R.randint(0,3))]
def gend(d=3):
    while True:
        t=gen(d)
        if isinstance(t,dict): return t
C=n0dict.convert_recursively
def plain(x):
    if isinstance(x, dict): return {k: plain(v) for k,v in x.items()}
    if isinstance(x,(list,tuple)): return [plain(v) for v in x]
    return x
def positions(t,pre=()):
    yield pre,t
    if isinstance(t,dict):
        for k,v in t.items(): yield from positions(v,pre+(k,))
    elif isinstance(t,list):
        for i,v in enumerate(t): yield from positions(v,pre+(i,))
def render(p):
    s=''
    for st in p:
        if isinstance(st,str): s+=('/' if s else '')+st
        else: s+=f'[{st}]'
    return s
# reference create: below node at pos (dict or list), apply suffix steps
def ref_create(t, pos, suffix, v):
    t=copy.deepcopy(t); node=t
    for st in pos: node=node[st]
    # returns None if refuse expected
    cur=node
    for i,st in enumerate(suffix):
        last = i==len(suffix)-1
        kind=st[0]
        nxt_kind = suffix[i+1][0] if not last else None
        def fresh():
            return None
        if kind=='name':      # fresh name under dict
            if not isinstance(cur,dict) or st[1] in cur: return 'NA'
            if last: cur[st[1]]=v
            else:
                cur[st[1]]={} ; cur=cur[st[1]]
        elif kind=='namenew': # name[new()] / name[0] fresh -> list with one elem
            if not isinstance(cur,dict) or st[1] in cur: return 'NA'
            if last: cur[st[1]]=[v]
            else:
                cur[st[1]]=[{}]; cur=cur[st[1]][0]
        elif kind=='new':     # [new()] or [len] on list
            if not isinstance(cur,list): return 'NA'
            if last: cur.append(v)
            else:
                cur.append({}); cur=cur[-1]
    return t
n=bad=0; kinds={}
for _ in range(6000):
    t=gend(); ps=[(p,x) for p,x in positions(t) if isinstance(x,(dict,list)) and (not p or isinstance(p[0],str))]
    p,x=R.choice(ps)
    suffix=[]
    cur_is_list=isinstance(x,list)
    for i in range(R.randint(1,3)):
        if cur_is_list and i==0:
            sp=R.choice(['new','len']); suffix.append(('new',sp)); cur_is_list=False
        else:
            nm='z'+str(i)
            if R.random()<.4: suffix.append(('namenew',nm,R.choice(['new()','0']))); cur_is_list=False
            else: suffix.append(('name',nm))
    # render
    s=render(p)
    for st in suffix:
        if st[0]=='name': s+=('/' if s else '')+st[1]
        elif st[0]=='namenew': s+=('/' if s else '')+f'{st[1]}[{st[2]}]'
        else: s+= '[new()]' if st[1]=='new' else f'[{len(x)}]'
    v=R.choice([7,'v',None,{'q':1}])
    ref=ref_create(t,p,suffix,v)
    if ref=='NA': continue
    d=C(t); n+=1
    try:
        d[s]=v
        ok = plain(d)==ref
        rb = s.replace('new()','last()')
        rb = re.sub(r'\[%d\]$'%len(x) if isinstance(x,list) else r'$^', '[last()]', rb) if False else rb
    except BaseException as e:
        ok=False; d='EXC %s %s'%(type(e).__name__, str(e)[:50])
    if not ok:
        bad+=1; k=tuple(st[0] for st in suffix); kinds[k]=kinds.get(k,0)+1
        if bad<8: print('CREATE', json.dumps(t), s, v, '\n   got ', json.dumps(plain(d)) if not isinstance(d,str) else d, '\n   want', json.dumps(ref))
print('create_chain', n, 'bad', bad, kinds)
