import sys, json, copy, itertools
sys.path.insert(0,'/repo')
from loguru import logger; logger.remove()
from n0struct import *
import xmltodict, xml.etree.ElementTree as ET
def plain(x):
    if isinstance(x, dict): return {k: plain(v) for k,v in x.items()}
    if isinstance(x,(list,tuple)): return [plain(v) for v in x]
    return x
def norm(x):
    if isinstance(x, dict): return {k: norm(v) for k,v in x.items()} 
    if isinstance(x,(list,tuple)): return [norm(v) for v in x]
    if x is None or x=='': return None
    return str(x).strip() or None
def rt(t, **kw):
    d = n0dict.convert_recursively(t)
    try: s = d.to_xml(**kw)
    except BaseException as e: return ('EXC-TOXML', type(e).__name__, str(e)[:80])
    try: ET.fromstring(s.split('?>\n',1)[-1] if s.startswith('<?xml') else s)
    except BaseException as e: return ('ILLFORMED', s, str(e)[:60])
    try: back = plain(n0dict(s))
    except BaseException as e: return ('EXC-LOAD', s, type(e).__name__, str(e)[:80])
    return 'OK' if norm(back)==norm(t) else ('DIFF', s, back)
trees=[{"r":None},{"r":"x"},{"r":1},{"r":{"a":"1","b":"2"}},{"r":{"a":["1","2"]}},{"r":{"a":[{"b":"1"},{"b":"2"}]}},{"r":{"a":{"b":{"c":"d"}}}},{"r":{"a":"<&>\"'"}},{"r":{"a":"é€Œ—"}},{"r":{"a":"x\ny"}},{"r":{"a":" x "}},{"r":{"a":"<![CDATA[<q>]]>"}},
 {"r":{"Parm":{"ParmCode":"A","Value":"B"}}},{"r":{"Parm":[{"ParmCode":"A","Value":"B"},{"ParmCode":"C","Value":"D"}]}},{"r":{"Value":"v","x":"y"}},{"r":{"a":[]}},{"r":{"a":{}}},{"r":{"a":""}},{"r":{"a":[None,"x"]}},{"r":{"a":["x"]}},{"r":{"a":[{"b":"1"}]}},{"r":{"a":[["1","2"],["3"]]}},
 {"r":{"a":"1","b":{"c":"2"}}, }, {"r":{"a":[{"b":["1","2"]},{"b":"3"}]}}, {"r":{"a":True}}, {"r":{"a":1.5}}, {"r":{"a": "&amp;"}}, {"r":{"a":"]]>"}}, {"r":{"a":[{"b":"1","c":"2"},"t"]}}, {"a":"1","b":"2"}, {"r":{"a":[{"Parm":"1"},{"Parm":"2"}]}}]
for t in trees:
    res={str(o): rt(t,**o) for o in [dict(), dict(indent=0), dict(encoding=None), dict(indent=2, quote="'")]}
    if all(r=='OK' for r in res.values()): print('OK  ', json.dumps(t))
    else:
        print('FAIL', json.dumps(t))
        for o,r in res.items():
            if r!='OK': print('      ', o, r)
