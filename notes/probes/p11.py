import sys, json, copy, itertools
sys.path.insert(0,'/repo')
from loguru import logger; logger.remove()
from n0struct import *
def rt(t, **kw):
    d = n0dict.convert_recursively(t) if isinstance(t,dict) else n0dict.convert_recursively(t)
    try:
        s = d.to_json(**kw)
    except BaseException as e:
        return ('EXC-TOJSON', type(e).__name__, str(e)[:80])
    try:
        back = json.loads(s)
    except BaseException as e:
        return ('BADJSON', s)
    return 'OK' if back == t and type(back)==type(t) else ('DIFF', s, back)
trees = [{}, {"a":1}, {"a":"x"}, {"a":None,"b":True,"c":False,"d":1.5}, {"a":[]}, {"a":{}}, {"a":[1,2,3]}, {"a":[[1,2],[3]]}, {"a":[{"x":1,"y":"s"},{"x":2}]}, {"a":[{"x":1},{"y":2}]}, {"a":[{"x":1,"y":2},{"z":2}]},
 {"a":[{"x":"q\"q","y":True},{"x":None}]}, {"a":'q"q'}, {"a":"back\\slash"}, {"a":"new\nline"}, {"a":"tab\t"}, {"a":"é€"}, {"a":"null"}, {"a":"true"}, {'k"q':1}, {"k\\":1}, {"a":[{'k"q':"v"}]}, {"a":[{"x":"b\\"}]},
 {"a":{"b":"c","d":"e"}}, {"a":{"b":"c","d":"e","f":"g"}}, {"a":[{"x":{}}]}, {"a":[{}]}, {"a":[{},{}]}, {"a":[[],[]]}, {"a":[None]}, {"a":[True,False]}, {"a":""}, {"":1}, {"a":[{"x":""},{"x":"abc"}]}, {"a":[{"x":1.0,"y":-2}]}, {"a": 1e22}, {"a":[{"x":[1]}]},
 [], [1,2], [{"x":1},{"y":"2"}], [[1]], [{"a":[{"b":1,"c":2},{"b":3}]}], {"a":"x'y"}, {"a":[{"x":"x'y"}]},  {"a":[{"x":True,"y":None}]}, {"a": "\u0001"}, {"a":[{"x":None}]}, {"a":[{"x":1},{"x":None}]}]
opts = [dict(), dict(indent=0), dict(indent=2), dict(pairs_in_one_line=False), dict(compress=True), dict(skip_empty_arrays=True), dict(indent=1,pairs_in_one_line=True)]
for t in trees:
    res = [rt(t, **o) for o in opts]
    if all(r=='OK' for r in res): print('OK  ', json.dumps(t))
    else:
        print('FAIL', json.dumps(t))
        for o,r in zip(opts,res):
            if r!='OK': print('      ', o, r)
print(n0dict('{"a":{"b":[1,{"c":2}]}}')["a/b[1]/c"], n0list('[1,{"a":[2]}]')["[1]/a[0]"], n0dict(' {"a":1} ')== json.loads('{"a":1}'))
