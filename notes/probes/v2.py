import sys, json, copy, random, itertools
sys.path.insert(0,'/repo')
from loguru import logger; logger.remove()
from n0struct import *
exec(open('v1.py').read().split('# 1. direct_verdict')[0].split("R=random.Random(7)")[1].join(["R=random.Random(11)\n",""]) if False else '')
R=random.Random(11)
KEYS=['a','b','c','k','f','n']
def leaf(): return R.choice([None, True, False, R.randint(-3,9), R.choice(['','x','yz','a b']), R.choice([0.5,1.5,-2.0])])
def gen(d, nolist_in_rec=False, inrec=False):
    r=R.random()
    if d==0 or r<0.3: return leaf()
    if r<0.65:
        ks=R.sample(KEYS, R.randint(0,4)); return {k:gen(d-1,nolist_in_rec,inrec) for k in ks}
    if nolist_in_rec and inrec: return leaf()
    return [gen(d-1,nolist_in_rec,True) for _ in range(R.randint(0,4))]
def gend(d=4, **kw):
    while True:
        t=gen(d, **kw)
        if isinstance(t,dict): return t
C=n0dict.convert_recursively
def plain(x):
    if isinstance(x, dict): return {k: plain(v) for k,v in x.items()}
    if isinstance(x,(list,tuple)): return [plain(v) for v in x]
    return x
def teq(a,b):
    if isinstance(a,dict) and isinstance(b,dict): return a.keys()==b.keys() and all(teq(a[k],b[k]) for k in a)
    if isinstance(a,list) and isinstance(b,list): return len(a)==len(b) and all(teq(x,y) for x,y in zip(a,b))
    if isinstance(a,(dict,list)) or isinstance(b,(dict,list)): return False
    return type(a)==type(b) and a==b
def emo(a,b):  # eq mod order, non-records by value
    if isinstance(a,dict) and isinstance(b,dict): return a.keys()==b.keys() and all(emo(a[k],b[k]) for k in a)
    if isinstance(a,list) and isinstance(b,list):
        ra=[x for x in a if isinstance(x,dict)]; rb=[x for x in b if isinstance(x,dict)]
        if len(ra)!=len(rb) or not all(emo(x,y) for x,y in zip(ra,rb)): return False
        na=[x for x in a if not isinstance(x,dict)]; nb=[x for x in b if not isinstance(x,dict)]
        if len(na)!=len(nb): return False
        nb=list(nb)
        for x in na:
            for j,y in enumerate(nb):
                if teq(x,y): del nb[j]; break
            else: return False
        return True
    if isinstance(a,(dict,list)) or isinstance(b,(dict,list)): return False
    return type(a)==type(b) and a==b
def positions(t,pre=()):
    yield pre
    if isinstance(t,dict):
        for k,v in t.items(): yield from positions(v,pre+(k,))
    elif isinstance(t,list):
        for i,v in enumerate(t): yield from positions(v,pre+(i,))
def mutate(t):
    t=copy.deepcopy(t); ps=[p for p in positions(t) if p]
    if not ps: t['zz']=1; return t
    p=R.choice(ps); par=t
    for st in p[:-1]: par=par[st]
    r=R.random()
    if r<0.3: par[p[-1]]=leaf()
    elif r<0.5:
        if isinstance(par,dict): del par[p[-1]]
        else: par.pop(p[-1])
    elif r<0.7:
        if isinstance(par,dict): par['new'+str(R.randint(0,9))]=leaf()
        else: par.append(leaf())
    elif isinstance(par,list): R.shuffle(par)
    else: par[p[-1]]=leaf()
    return t
def keys_collide(a,b):
    # any list pair (by same position) where two distinct-by-teq nonrecord items share str, or '' item with records
    bad=False
    def lists(t,pre=()):
        if isinstance(t,dict):
            for k,v in t.items(): yield from lists(v,pre+(k,))
        elif isinstance(t,list):
            yield pre,t
            for i,v in enumerate(t): yield from lists(v,pre+(i,))
    for t in (a,b):
        for pre,l in lists(t):
            items=[x for x in l if not isinstance(x,dict)]
            if any(isinstance(x,dict) for x in l) and any(x=='' and isinstance(x,str) for x in items): return True
    la=dict(lists(a)); lb=dict(lists(b))
    for pre in la:
        if pre in lb:
            its=[x for x in la[pre]+lb[pre] if not isinstance(x,dict)]
            for x,y in itertools.combinations(its,2):
                if str(x)==str(y) and not teq(x,y): return True
    return False
# default compare verdict vs eq_mod_order, guarded (no list inside record-in-list; no key collisions)
n=bad=exc=skipped=0
for _ in range(4000):
    a=gend(4,nolist_in_rec=True); b=copy.deepcopy(a)
    for _ in range(R.choice([0,0,1,1,2])): b=mutate(b)
    if not isinstance(b,dict): continue
    if keys_collide(a,b): skipped+=1; continue
    n+=1
    try:
        r=C(a).compare(C(b)); 
        if (not r['differences'])!=emo(a,b):
            bad+=1
            if bad<5: print('DEFAULT MISMATCH', json.dumps(a), json.dumps(b), r['differences'][:2], emo(a,b))
    except BaseException as e:
        exc+=1
        if exc<4: print('DEFAULT EXC', type(e).__name__, str(e)[:60], json.dumps(a), json.dumps(b))
print('default_verdict', n, 'bad', bad, 'exc', exc, 'skipped', skipped)
# direct with guard nolist_in_rec
n=bad=exc=0
for _ in range(3000):
    a=gend(4,nolist_in_rec=True); b=copy.deepcopy(a)
    for _ in range(R.choice([0,0,1,1,2])): b=mutate(b)
    if not isinstance(b,dict): continue
    n+=1
    try:
        r=C(a).direct_compare(C(b))
        if (not r['differences'])!=teq(a,b): bad+=1; print('DIRECT MISMATCH', json.dumps(a), json.dumps(b))
    except BaseException as e:
        exc+=1
        if exc<4: print('DIRECT EXC', type(e).__name__, str(e)[:60], json.dumps(a), json.dumps(b))
print('direct_verdict guarded', n, 'bad', bad, 'exc', exc)
# C09 noteq_resolves & one_line_per_entry on direct + default
n=bad=0
def split_lr(path):
    import re
    l=re.sub(r'\[(-?\d+)\]<>\[(-?\d+)\]', r'[\1]', path); r=re.sub(r'\[(-?\d+)\]<>\[(-?\d+)\]', r'[\2]', path); return l,r
for _ in range(2000):
    a=gend(4,nolist_in_rec=True); b=copy.deepcopy(a)
    for _ in range(R.choice([1,1,2,3])): b=mutate(b)
    if not isinstance(b,dict): continue
    A,B=C(a),C(b)
    for m in ('direct_compare','compare'):
        try: r=getattr(A,m)(B)
        except BaseException as e: continue
        n+=1
        if len(r['differences'])!=len(r['not_equal'])+len(r['self_unique'])+len(r['other_unique']): bad+=1; print('COUNT', m)
        for path,vals in r['not_equal']:
            l,rr=split_lr(path)
            try:
                ok = (A[l] is vals[0] or teq(plain(A[l]),plain(vals[0]))) and teq(plain(B[rr]),plain(vals[1])) and not teq(plain(vals[0]),plain(vals[1]))
            except BaseException as e: ok=False
            if not ok:
                bad+=1
                if bad<6: print('NOTEQ NOT FAITHFUL', m, path, vals, json.dumps(a), json.dumps(b))
        for path,v in r['self_unique']:
            try: ok= teq(plain(A[path]),plain(v))
            except BaseException: ok=False
            if not ok:
                bad+=1
                if bad<6: print('SELFUNIQ NOT FAITHFUL', m, path, v)
        for path,v in r['other_unique']:
            try: ok= teq(plain(B[path]),plain(v))
            except BaseException: ok=False
            if not ok:
                bad+=1
                if bad<6: print('OTHERUNIQ NOT FAITHFUL', m, path, v)
print('report faithful', n, 'bad', bad)
