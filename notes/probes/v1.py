# validate planned [core] theorem statements against the real code (randomised)
import sys, json, copy, random, itertools, csv, io
sys.path.insert(0,'/repo')
from loguru import logger; logger.remove()
from n0struct import *
R=random.Random(7)
KEYS=['a','b','c','k','f','n']
def leaf():
    return R.choice([None, True, False, R.randint(-3,9), R.choice(['','x','yz','a b']), R.choice([0.5,1.5,-2.0])])
def gen(d):
    r=R.random()
    if d==0 or r<0.3: return leaf()
    if r<0.65:
        ks=R.sample(KEYS, R.randint(0,4)); return {k:gen(d-1) for k in ks}
    return [gen(d-1) for _ in range(R.randint(0,4))]
def gend(d=4):
    while True:
        t=gen(d)
        if isinstance(t,dict): return t
C=n0dict.convert_recursively
def plain(x):
    if isinstance(x, dict): return {k: plain(v) for k,v in x.items()}
    if isinstance(x,(list,tuple)): return [plain(v) for v in x]
    return x
def teq(a,b):
    if isinstance(a,dict) and isinstance(b,dict): return a.keys()==b.keys() and all(teq(a[k],b[k]) for k in a)
    if isinstance(a,list) and isinstance(b,list): return len(a)==len(b) and all(teq(x,y) for x,y in zip(a,b))
    if isinstance(a,(dict,list)) or isinstance(b,(dict,list)): return False
    return type(a)==type(b) and a==b
def positions(t,pre=()):
    yield pre
    if isinstance(t,dict):
        for k,v in t.items(): yield from positions(v,pre+(k,))
    elif isinstance(t,list):
        for i,v in enumerate(t): yield from positions(v,pre+(i,))
def render(p, style=0):
    s=''
    for st in p:
        if isinstance(st,str): s+=('/' if s else '')+st
        else: s+= (f'[{st}]' if style==0 else f'/[{st}]')
    return s
def mutate(t):
    t=copy.deepcopy(t); ps=[p for p in positions(t) if p]
    if not ps: t['zz']=1; return t
    p=R.choice(ps); par=t
    for st in p[:-1]: par=par[st]
    r=R.random()
    if r<0.3: par[p[-1]]=leaf()
    elif r<0.5:
        if isinstance(par,dict): del par[p[-1]]
        else: par.pop(p[-1])
    elif r<0.7:
        if isinstance(par,dict): par['new'+str(R.randint(0,9))]=leaf()
        else: par.append(leaf())
    elif r<0.85 and isinstance(par,list): R.shuffle(par)
    else: par[p[-1]]=gen(2)
    return t
# 1. direct_verdict iff tree_eq on converted operands; no exceptions
bad=0; n=0; exc=0
for _ in range(3000):
    a=gend(); b=copy.deepcopy(a)
    for _ in range(R.choice([0,0,1,1,2,3])): b=mutate(b)
    if not isinstance(b,dict): continue
    n+=1
    try:
        r=C(a).direct_compare(C(b))
        if (not r['differences'])!=teq(a,b):
            bad+=1
            if bad<4: print('DIRECT MISMATCH', json.dumps(a), json.dumps(b), r['differences'][:2])
    except BaseException as e:
        exc+=1
        if exc<4: print('DIRECT EXC', type(e).__name__, str(e)[:60], json.dumps(a), json.dumps(b))
print('direct_verdict', n, 'bad', bad, 'exc', exc)
# 2. set_existing: relative rendered path to existing node -> replace
bad=0;n=0
for _ in range(3000):
    t=gend(); ps=[p for p in positions(t) if p and isinstance(p[0],str)]
    if not ps: continue
    p=R.choice(ps); v=R.choice([leaf(), {'q':1}, [1,2]]); d=C(t); ref=copy.deepcopy(t)
    par=ref
    for st in p[:-1]: par=par[st]
    par[p[-1]]=v
    n+=1
    try:
        d[render(p,R.randint(0,1)) if len(p)>1 or True else p[0]]=v
        if plain(d)!=ref or not teq(plain(d),ref):
            bad+=1
            if bad<4: print('SET MISMATCH', json.dumps(t), render(p), v, json.dumps(plain(d)))
    except BaseException as e:
        bad+=1
        if bad<4: print('SET EXC', type(e).__name__, str(e)[:60], json.dumps(t), render(p))
print('set_existing', n, 'bad', bad)
# 3. delete_exact on relative '/'-separated spelling (style 1 for indexes after first)
bad=0;n=0
for _ in range(3000):
    t=gend(); ps=[p for p in positions(t) if p and isinstance(p[0],str)]
    if not ps: continue
    p=R.choice(ps); d=C(t); ref=copy.deepcopy(t); par=ref
    for st in p[:-1]: par=par[st]
    if isinstance(par,dict): del par[p[-1]]
    else: par.pop(p[-1])
    # spelling: name[i] allowed for first index after a name, further consecutive indexes need '/[j]'
    s=''
    prev_idx=False
    for st in p:
        if isinstance(st,str): s+=('/' if s else '')+st; prev_idx=False
        else:
            s+= (f'/[{st}]' if prev_idx else f'[{st}]'); prev_idx=True
    n+=1
    try:
        d.delete(s)
        if not teq(plain(d),ref):
            bad+=1
            if bad<4: print('DEL MISMATCH', json.dumps(t), s, json.dumps(plain(d)))
    except BaseException as e:
        bad+=1
        if bad<4: print('DEL EXC', type(e).__name__, str(e)[:60], json.dumps(t), s)
print('delete_exact', n, 'bad', bad)
