(* Props/C07.v — property theorems only. *)
From Coq Require Import List NArith ZArith Bool.
From N0 Require Import Base.PyStr Base.PyVal Compare.Util Compare.Flags Compare.Match Compare.Model
  Compare.Spec Compare.WalkLemmas Compare.VerdictProofs Compare.DefaultProofs Compare.ReflProofs Compare.SymProofs Compare.TransProofs Compare.EqImpliesProofs Compare.DefaultReflProofs.
Import ListNotations.

(* direct_compare (the ordered walk): for every flag state, every pair of
   operands of the supported domain (all containers n0dict/n0list, no bytes
   leaves; both dicts or both lists), without exclude_xpaths / compare_only /
   transform, the model returns a report, and the report is empty iff the
   trees are structurally equal. *)
Theorem C07_direct_verdict :
  forall fl o ck a b, quiet o -> good a -> good b -> same_kind a b ->
  exists r, compare_top fl o MDirect ck a b = Ok r /\ (r = [] <-> tree_eq a b = true).
Proof. exact direct_verdict. Qed.
Print Assumptions C07_direct_verdict.

(* non-vacuity of C07_direct_verdict: a nested operand compared with itself and with a
   reordering of one of its lists *)
Theorem C07_direct_nonvacuous :
  quiet no_opts /\ good dv_a /\ good dv_b /\ same_kind dv_a dv_b /\
  compare_top flags_init no_opts MDirect (PSeq []) dv_a dv_a = Ok [] /\ tree_eq dv_a dv_a = true /\
  (exists r, compare_top flags_init no_opts MDirect (PSeq []) dv_a dv_b = Ok r /\ length r = 4) /\
  tree_eq dv_a dv_b = false.
Proof. exact direct_example. Qed.
Print Assumptions C07_direct_nonvacuous.

(* compare without composite key (the unordered walk): for every flag state and every
   pair of operands of the supported domain on which str() identifies the list items
   the walk pairs exactly as their value does (keys_ok, Compare/Spec.v), a returned
   report is empty iff the trees are equal up to the order of the non-record items
   inside each list (records pairwise in order, the other items as multisets matched
   by value).  Named _partial: outside keys_ok the statement is false (Refuted/C07.v,
   known finding C07/str-keys), and that the model returns a report (no exception,
   str() in the model) is not part of the theorem. *)
Theorem C07_default_verdict_partial :
  forall fl o ck a b r,
  quiet o -> ck_empty ck -> good a -> good b -> keys_ok a b = true ->
  compare_top fl o MKeyed ck a b = Ok r -> (r = [] <-> eq_mod_order a b = true).
Proof. exact default_verdict. Qed.
Print Assumptions C07_default_verdict_partial.

(* non-vacuity: permuted non-record items around a record satisfy the guard and compare
   equal although they are not structurally equal; a changed record is reported *)
Theorem C07_default_nonvacuous :
  good dv_a /\ good dv_b /\ good dv_c /\ keys_ok dv_a dv_b = true /\ keys_ok dv_a dv_c = true /\
  compare_top flags_init no_opts MKeyed (PSeq []) dv_a dv_b = Ok [] /\ eq_mod_order dv_a dv_b = true /\
  tree_eq dv_a dv_b = false /\
  (exists e, compare_top flags_init no_opts MKeyed (PSeq []) dv_a dv_c = Ok [e]) /\ eq_mod_order dv_a dv_c = false.
Proof. exact default_example. Qed.
Print Assumptions C07_default_nonvacuous.

(* Every history of set__flag_compare_* calls from the import-time state ends in
   one of the 48 states of [reachable_set], each of which is reached by some
   history, and all of which satisfy equal = records || elements, not both. *)
Theorem C07_reachable_flags :
  (forall h, In (run_setters h flags_init) reachable_set) /\
  (forall f, In f reachable_set -> exists h, run_setters h flags_init = f) /\
  (forall f, In f reachable_set -> flags_inv f = true).
Proof.
  exact (conj (fun h => run_setters_reachable h flags_init init_reachable)
              (conj reachable_sound reachable_inv)).
Qed.
Print Assumptions C07_reachable_flags.

(* The flags only add detail: for any two flag states (reachable or not), any
   options, both walks and any operands, the outcome (report / exception) is
   the same and the reports have the same skeleton: the same (left xpath,
   left value, right value) pairs in the same order, whether filed under
   not_equal or difftypes, and the same unique entries. *)
Theorem C07_flags_only_add_detail :
  forall fl1 fl2 o m ck a b, SK (compare_top fl1 o m ck a b) = SK (compare_top fl2 o m ck a b).
Proof. exact flags_only_add_detail. Qed.
Print Assumptions C07_flags_only_add_detail.

(* ... hence the verdict is the same under every flag configuration, in
   particular after every setter history. *)
Theorem C07_verdict_flag_independent :
  forall h1 h2 o m ck a b,
  compare_top (run_setters h1 flags_init) o m ck a b = Ok [] <->
  compare_top (run_setters h2 flags_init) o m ck a b = Ok [].
Proof. exact (fun h1 h2 => verdict_flag_independent (run_setters h1 flags_init) (run_setters h2 flags_init)). Qed.
Print Assumptions C07_verdict_flag_independent.

(* Reflexivity: structural equality holds of every tree with distinct keys per
   dictionary (what a Python dict is), hence direct_compare of an operand with
   itself returns an empty report - for every flag state, at any depth. *)
Theorem C07_structural_equality_reflexive :
  forall t, wf t -> tree_eq t t = true.
Proof. exact tree_eq_refl. Qed.
Print Assumptions C07_structural_equality_reflexive.

Theorem C07_direct_reflexive :
  forall fl o ck a, quiet o -> good a -> wf a -> same_kind a a ->
  compare_top fl o MDirect ck a a = Ok [].
Proof. exact direct_reflexive. Qed.
Print Assumptions C07_direct_reflexive.

(* Symmetry: structural equality does not depend on the order of its arguments,
   and neither does the verdict of direct_compare - the reports of (a, b) and of
   (b, a) are both empty or both non-empty, for every flag state. *)
Theorem C07_structural_equality_symmetric :
  forall a b, wf a -> wf b -> tree_eq a b = tree_eq b a.
Proof. exact tree_eq_comm. Qed.
Print Assumptions C07_structural_equality_symmetric.

Theorem C07_direct_verdict_symmetric :
  forall fl o ck a b, quiet o -> good a -> good b -> wf a -> wf b -> same_kind a b ->
  exists r1 r2, compare_top fl o MDirect ck a b = Ok r1 /\ compare_top fl o MDirect ck b a = Ok r2 /\
                (r1 = [] <-> r2 = []).
Proof. exact direct_verdict_symmetric. Qed.
Print Assumptions C07_direct_verdict_symmetric.

(* Transitivity: structural equality chains (with the two theorems above it is an
   equivalence on trees with distinct keys), and so does the "no difference"
   verdict of direct_compare. *)
Theorem C07_structural_equality_transitive :
  forall a b c, tree_eq a b = true -> tree_eq b c = true -> tree_eq a c = true.
Proof. exact tree_eq_trans. Qed.
Print Assumptions C07_structural_equality_transitive.

Theorem C07_direct_no_difference_chains :
  forall fl o ck a b c,
  quiet o -> good a -> good b -> good c -> same_kind a b -> same_kind b c ->
  compare_top fl o MDirect ck a b = Ok [] -> compare_top fl o MDirect ck b c = Ok [] ->
  compare_top fl o MDirect ck a c = Ok [].
Proof. exact direct_no_difference_chains. Qed.
Print Assumptions C07_direct_no_difference_chains.

(* The two walks agree on "no difference": structural equality implies equality
   up to the order of non-record list items, so where direct_compare reports
   nothing, compare (within its guard keys_ok) reports nothing either - whatever
   the flag states of the two calls. *)
Theorem C07_structural_implies_mod_order :
  forall a b, tree_eq a b = true -> eq_mod_order a b = true.
Proof. exact tree_eq_eq_mod_order. Qed.
Print Assumptions C07_structural_implies_mod_order.

Theorem C07_direct_equal_default_equal :
  forall fl fl' o ck ck' a b r,
  quiet o -> ck_empty ck' -> good a -> good b -> same_kind a b -> keys_ok a b = true ->
  compare_top fl o MDirect ck a b = Ok [] ->
  compare_top fl' o MKeyed ck' a b = Ok r -> r = [].
Proof. exact direct_equal_default_equal. Qed.
Print Assumptions C07_direct_equal_default_equal.

(* compare (no composite key) of an operand with itself: whenever it returns a
   report inside its guard, the report is empty; with a concrete nested instance. *)
Theorem C07_default_reflexive :
  forall fl o ck a r,
  quiet o -> ck_empty ck -> good a -> wf a -> keys_ok a a = true ->
  compare_top fl o MKeyed ck a a = Ok r -> r = [].
Proof. exact default_reflexive. Qed.
Print Assumptions C07_default_reflexive.

Theorem C07_default_reflexive_nonvacuous :
  good dv_a /\ wf dv_a /\ keys_ok dv_a dv_a = true /\
  compare_top flags_init no_opts MKeyed (PSeq []) dv_a dv_a = Ok [].
Proof. exact default_reflexive_example. Qed.
Print Assumptions C07_default_reflexive_nonvacuous.
