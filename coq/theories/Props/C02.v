(* Props/C02.v — property theorems only (grows as the proofs land). *)
From Coq Require Import List NArith ZArith.
From N0 Require Import Base.PyStr Base.PyVal.
Import ListNotations.

Theorem C02_update_read_back : forall (k : pstr) (v : tree) kvs, lookup k (update k v kvs) = Some v.
Proof. exact (@lookup_update_same tree). Qed.
Print Assumptions C02_update_read_back.

Theorem C02_update_frame : forall (k k2 : pstr) (v : tree) kvs, k2 <> k -> lookup k2 (update k v kvs) = lookup k2 kvs.
Proof. exact (@lookup_update_other tree). Qed.
Print Assumptions C02_update_frame.
