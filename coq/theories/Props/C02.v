(* Props/C02.v — property theorems only. *)
From Coq Require Import List NArith ZArith.
From N0 Require Import Base.PyStr Base.PyVal Xpath.Dec Xpath.DecProofs Xpath.Token Xpath.TokenProofs
  Xpath.Find Xpath.FindProofs Xpath.Write Xpath.SpecProofs Xpath.WalkProofs Xpath.SpellProofs Xpath.LongPathProofs Xpath.PutPut Xpath.PutGet.
Import ListNotations.

(* d[xpath] = v on a path that spells an existing node (by key, index, negative index;
   leaf or inner node) never raises and yields exactly the tree with that one slot
   replaced (replace_at is the plain nested dict/list update). *)
Theorem C02_set_existing :
  forall root x v p, keys_ok root -> has_path_char x = true -> no_qmark x -> tokenize x <> [] ->
  spells root p (tokenize x) ->
  setitem (wfuel x) root x v = Ok (replace_at root p v).
Proof. exact set_existing. Qed.
Print Assumptions C02_set_existing.

(* the same for paths whose indexes are written last(), last()-k or a+b *)
Theorem C02_set_existing_all_spellings :
  forall root x v p, keys_ok root -> has_path_char x = true -> no_qmark x -> tokenize x <> [] ->
  spells5 root p (tokenize x) ->
  setitem (wfuel x) root x v = Ok (replace_at root p v).
Proof. exact set_existing5. Qed.
Print Assumptions C02_set_existing_all_spellings.

(* what "exactly that one slot" means for the Spec: the written slot reads back v ... *)
Theorem C02_get_put : forall t p v u, resolve t p = Some u -> resolve (replace_at t p v) p = Some v.
Proof. exact resolve_replace_same. Qed.
Print Assumptions C02_get_put.

(* ... and every path that parts ways with p (a sibling, an unrelated branch, a sibling
   of an ancestor) resolves exactly as before. *)
Theorem C02_frame : forall t p q v, diverge p q -> resolve (replace_at t p v) q = resolve t q.
Proof. exact resolve_replace_other. Qed.
Print Assumptions C02_frame.

(* the last write wins: assigning twice through the same path equals the second
   assignment alone (with C02_get_put and C02_frame: the lens laws of the Spec) *)
Theorem C02_put_put : forall t p v w, replace_at (replace_at t p v) p w = replace_at t p w.
Proof. exact replace_replace. Qed.
Print Assumptions C02_put_put.

(* ... and writing back the value that is already there changes nothing *)
Theorem C02_put_same : forall t p u, resolve t p = Some u -> replace_at t p u = t.
Proof. exact replace_with_same. Qed.
Print Assumptions C02_put_same.

(* any finite sequence of such assignments, each addressing a node that exists when it is
   applied, equals the plain model that applied the same writes *)
Theorem C02_set_sequence : forall t ops sops,
  hist_ok t ops sops ->
  run_ops t (map (fun xv => WSet (fst xv) (snd xv)) ops) =
  Ok (fold_left (fun t pv => replace_at t (fst pv) (snd pv)) sops t).
Proof. exact set_sequence. Qed.
Print Assumptions C02_set_sequence.

Theorem C02_nonvacuous :
  exists root x p, keys_ok root /\ has_path_char x = true /\ no_qmark x /\ tokenize x <> [] /\
                   spells root p (tokenize x) /\ resolve root p = Some (Leaf (SInt 7)).
Proof. exact c01_example. Qed.
Print Assumptions C02_nonvacuous.

(* the number of steps has no limit: the theorems above quantify over every string.  A concrete instance with 70 tokens
   (140 path steps, dictionary and list levels alternating): the assignment replaces exactly the addressed leaf *)
Theorem C02_long_path_example :
  length (tokenize (deep_x 70)) = 70 /\ length (deep_p 70) = 140 /\
  resolve (deep 70) (deep_p 70) = Some (Leaf (SInt 1)) /\
  setitem (wfuel (deep_x 70)) (deep 70) (deep_x 70) (Leaf (SInt 7)) = Ok (replace_at (deep 70) (deep_p 70) (Leaf (SInt 7))) /\
  resolve (replace_at (deep 70) (deep_p 70) (Leaf (SInt 7))) (deep_p 70) = Some (Leaf (SInt 7)).
Proof. exact long_path_example. Qed.
Print Assumptions C02_long_path_example.
