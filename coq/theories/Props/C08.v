(* Props/C08.v — property theorems only. *)
From Coq Require Import List NArith ZArith Bool Permutation.
From N0 Require Import Base.PyStr Base.PyVal Compare.Util Compare.Flags Compare.Match Compare.Model
  Compare.Spec Compare.WalkLemmas Compare.VerdictProofs Compare.ReportProofs Compare.KeyedProofs Compare.CompleteProofs.
Import ListNotations.

(* With composite keys that are unique within each list, the first-match-and-delete
   pairing loop of n0list.compare is the pairing by key: the loop's three outputs
   are (1) for every left item whose key occurs on the right, in left order, the
   comparison with that partner, (2) the left items whose key does not occur on the
   right, (3) the right items whose key does not occur on the left.  (Any flags,
   options and recursion handle.) *)
Theorem C08_pairing_by_key :
  forall fl o rec ck p ka kb,
  NoDup (map fst ka) -> NoDup (map fst kb) ->
  lk_loop fl o rec ck p ka kb = (paired_calls fl o rec ck p ka kb, left_only ka kb, right_only ka kb).
Proof. exact lk_loop_by_key. Qed.
Print Assumptions C08_pairing_by_key.

(* ... hence the report of the unordered list walk: the entries of the pairs, then one
   self_unique entry per left-only record, then one other_unique entry per right-only
   record, and nothing else. *)
Theorem C08_keyed_classification :
  forall fl o rec ck p xs ys ka kb,
  excluded o p = false ->
  item_keys o (render p) ck (enum_from 0 xs) = Ok ka ->
  item_keys o (render p) ck (enum_from 0 ys) = Ok kb ->
  NoDup (map fst ka) -> NoDup (map fst kb) ->
  list_keyed fl o rec ck p xs ys =
  match seq_res (paired_calls fl o rec ck p ka kb) with
  | Ok paired => Ok (paired ++ map (self_entry p) (left_only ka kb) ++ map (other_entry p) (right_only ka kb))
  | e => e
  end.
Proof. exact keyed_classification. Qed.
Print Assumptions C08_keyed_classification.

(* every left record is classified exactly once, by key *)
Theorem C08_classified_once :
  forall fl o rec ck p ka kb,
  length (paired_calls fl o rec ck p ka kb) + length (left_only ka kb) = length ka /\
  (forall ix, In ix (left_only ka kb) <-> exists k, In (k, ix) ka /\ lookup k kb = None) /\
  (forall kjy, In kjy (right_only ka kb) <-> In kjy kb /\ lookup (fst kjy) ka = None) /\
  (forall c, In c (paired_calls fl o rec ck p ka kb) <->
     exists k ix jy, In (k, ix) ka /\ lookup k kb = Some jy /\ c = pair_call fl o rec ck p ix jy).
Proof.
  exact (fun fl o rec ck p ka kb =>
    conj (classified_once fl o rec ck p ka kb)
      (conj (left_only_iff ka kb) (conj (right_only_iff ka kb) (paired_calls_iff fl o rec ck p ka kb)))).
Qed.
Print Assumptions C08_classified_once.

(* a key present on both sides: the pair of records (payloads of scalars and nested
   dicts) yields nothing iff the records are equal *)
Theorem C08_keyed_pair_verdict :
  forall fl o fuel ck p i j x y r,
  quiet o -> good x -> good y -> list_free x = true -> is_record x = true -> is_record y = true ->
  pair_call fl o (walk fl o fuel MKeyed) ck p (i, x) (j, y) = Ok r ->
  (r = [] <-> tree_eq x y = true).
Proof. exact keyed_pair_verdict. Qed.
Print Assumptions C08_keyed_pair_verdict.

(* ... and yields an entry for each differing leaf of the pair: every place q below the
   two records at which both have a value and the values differ (different types, or
   scalars of one type with different values) is reported as not_equal (difftypes under
   the flag) under the xpath prefix[i]<>[j] + q, with exactly those values. *)
Theorem C08_keyed_pair_complete :
  forall fl o fuel ck p i j x y r,
  quiet o -> good x -> good y -> wf x -> list_free x = true -> is_record x = true -> is_record y = true ->
  pair_call fl o (walk fl o fuel MKeyed) ck p (i, x) (j, y) = Ok r ->
  forall q u v, q <> [] -> resolve x q = Some u -> resolve y q = Some v -> differ_here u v ->
  In (clash_entry fl ((p ++ [idx_step i j]) ++ steps_of q) u v) r.
Proof. exact keyed_pair_complete. Qed.
Print Assumptions C08_keyed_pair_complete.

(* The verdict on two lists of flat records (good, list-free dicts) with unique keys, stated
   without indexes: no differences iff every left record has a right record with the same
   key and equal to it, and every right record's key occurs on the left. *)
Theorem C08_keyed_verdict :
  forall fl o, quiet o -> forall fuel ck p xs ys ka kb r,
  item_keys o (render p) ck (enum_from 0 xs) = Ok ka ->
  item_keys o (render p) ck (enum_from 0 ys) = Ok kb ->
  NoDup (map fst ka) -> NoDup (map fst kb) ->
  Forall flat_record xs -> Forall flat_record ys ->
  list_keyed fl o (walk fl o fuel MKeyed) ck p xs ys = Ok r ->
  (r = [] <-> keyed_equal o ck p xs ys).
Proof. exact keyed_verdict_char. Qed.
Print Assumptions C08_keyed_verdict.

(* ... hence permuting either list never changes the verdict.  (For records whose payload
   contains lists, and for the classified entries up to the renaming of indexes, the
   invariance is covered by the oracle, which runs every case in three orders.) *)
Theorem C08_keyed_perm_verdict :
  forall fl o, quiet o -> forall fuel ck p xs ys xs' ys' ka kb ka' kb' r r',
  Permutation xs xs' -> Permutation ys ys' ->
  item_keys o (render p) ck (enum_from 0 xs) = Ok ka -> item_keys o (render p) ck (enum_from 0 ys) = Ok kb ->
  item_keys o (render p) ck (enum_from 0 xs') = Ok ka' -> item_keys o (render p) ck (enum_from 0 ys') = Ok kb' ->
  NoDup (map fst ka) -> NoDup (map fst kb) -> NoDup (map fst ka') -> NoDup (map fst kb') ->
  Forall flat_record xs -> Forall flat_record ys ->
  list_keyed fl o (walk fl o fuel MKeyed) ck p xs ys = Ok r ->
  list_keyed fl o (walk fl o fuel MKeyed) ck p xs' ys' = Ok r' ->
  (r = [] <-> r' = []).
Proof. exact keyed_perm_verdict. Qed.
Print Assumptions C08_keyed_perm_verdict.

(* non-vacuity: two concrete record lists with composite key ("id",) meet the hypotheses:
   two pair calls, no left-only record, one right-only record, two reported differences *)
Theorem C08_nonvacuous :
  exists ka kb,
    item_keys no_opts (render []) kx_ck (enum_from 0 kx_xs) = Ok ka /\
    item_keys no_opts (render []) kx_ck (enum_from 0 kx_ys) = Ok kb /\
    NoDup (map fst ka) /\ NoDup (map fst kb) /\
    Forall flat_record kx_xs /\ Forall flat_record kx_ys /\
    length (paired_calls flags_init no_opts (walk flags_init no_opts 3 MKeyed) kx_ck [] ka kb) = 2 /\
    left_only ka kb = [] /\ length (right_only ka kb) = 1 /\
    exists r, list_keyed flags_init no_opts (walk flags_init no_opts 3 MKeyed) kx_ck [] kx_xs kx_ys = Ok r /\ length r = 2.
Proof. exact keyed_example. Qed.
Print Assumptions C08_nonvacuous.
