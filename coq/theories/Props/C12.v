(* Props/C12.v — property theorems only (C12: XML export is well-formed, escaped, and
   loads back to the same tree). *)
From Coq Require Import List NArith ZArith Bool.
From N0 Require Import Base.PyStr Base.PyVal Export.Util Export.Xml Export.XmlGrammar Export.XmlProofs.
Import ListNotations.

(* Every text value is escaped: for EVERY text the translation applied by the writer
   contains no '<', no '>', no double quote, and the reference reader (every '&' must start a
   predefined entity or a decimal character reference, closed by ';') gives the text back. *)
Theorem C12_escape_total :
  forall s, forallb markup_free (xml_escape s) = true /\ xml_unescape (xml_escape s) = Some s.
Proof. exact (fun s => conj (escape_markup_free s) (unescape_escape s)). Qed.
Print Assumptions C12_escape_total.

(* ... and for every text made of characters XML can carry it is character data (CharData and
   References of the XML grammar) standing for exactly that text. *)
Theorem C12_escape_chardata :
  forall s, forallb xml_char s = true -> chardata (xml_escape s) s.
Proof. exact escape_chardata. Qed.
Print Assumptions C12_escape_chardata.

(* the executable reader used above agrees with the grammar relation *)
Theorem C12_reader_sound :
  forall b s, chardata b s -> xml_unescape b = Some s.
Proof. exact chardata_unescape. Qed.
Print Assumptions C12_reader_sound.

(* Well-formedness and structure.  For every option record whose declaration part is
   sensible (no encoding, or an encoding name with a single or double quote character), every root name and every
   value that is XML-shaped — element names are Names, texts are made of XML characters,
   values are text, None, numbers, nested dictionaries or lists (repeated elements), the
   root itself not a list — the text written by to_xml is a well-formed document whose
   element tree is nodes_of root value: same names, nesting and order, a list as one
   element per item, numbers as their text, None / '' / [] as an empty element.
   A text value that is, blanks apart, exactly one CDATA section is written as that section
   and stands for its content (is_cdata / cdata_inner of the Spec): it is inside the theorem.
   PARTIAL only in what "well-formed" means: the grammar relation is a sound subset of XML 1.0
   (no attributes, comments, hexadecimal references); expat itself is an oracle. *)
Theorem C12_to_xml_wellformed_partial :
  forall o k v, decl_ok o -> name_ok k = true -> shaped_val v = true -> single_root v = true ->
  exists name kids, nodes_of k v = [XElem name kids] /\ document (to_xml o [(k, v)]) (XElem name kids).
Proof. exact to_xml_wellformed. Qed.
Print Assumptions C12_to_xml_wellformed_partial.

(* Loading back.  x2d_root / elem_value (Export/XmlGrammar.v) restate what xmltodict does with an
   element tree (character chunks joined and stripped, child elements pushed into a mapping, a
   repeated name turned into a list, '#text' for mixed content); this restatement is validated
   against the real xmltodict on every run (stream x2d).  For every XML-shaped entry  k -> v  whose
   dictionaries have distinct keys and whose lists contain no list, the document written by to_xml
   denotes an element tree that xmltodict maps to  { k : xml_norm v }  — the original tree up to
   XML's own normalisations (numbers become text, '' and None coincide, surrounding white space is
   dropped; an empty container is None, a one-item list is its item).
   PARTIAL: expat (text -> element tree) is represented by the grammar relation, not modelled;
   xmltodict by x2d_root (validated by the x2d stream of every run). *)
Theorem C12_to_xml_loads_back_partial :
  forall o k v, decl_ok o -> name_ok k = true -> shaped_val v = true -> single_root v = true ->
  wf v -> flat v = true ->
  exists n, document (to_xml o [(k, v)]) n /\ x2d_root n = Dict false [(k, xml_norm v)].
Proof. exact to_xml_loads_back. Qed.
Print Assumptions C12_to_xml_loads_back_partial.

(* indent, encoding and quote change the layout only: the same element tree is denoted *)
Theorem C12_options_layout_only :
  forall o1 o2 k v, decl_ok o1 -> decl_ok o2 -> name_ok k = true -> shaped_val v = true -> single_root v = true ->
  exists n, document (to_xml o1 [(k, v)]) n /\ document (to_xml o2 [(k, v)]) n.
Proof. exact xml_options_layout_only. Qed.
Print Assumptions C12_options_layout_only.

(* on that domain the writer refuses nothing (the observation of the correspondence stream
   is the text itself) *)
Theorem C12_no_refusal :
  forall v k, name_ok k = true -> shaped_val v = true -> xml_check k v = VOk.
Proof. exact shaped_check. Qed.
Print Assumptions C12_no_refusal.

(* Non-vacuity: a tree with markup characters, quotes, non-ASCII and entity-table characters
   (one of them white space for str.strip), a list mixing text, None and a record, the
   Parm/ParmCode/Value layout, a number, a float, an embedded newline and a CDATA value meets the
   hypotheses; the model computes its document. *)
Theorem C12_nonvacuous :
  let v := Dict true
    [([97], Lst true [Leaf (SStr [60; 38; 62; 34; 39; 233; 8364; 8195]); Leaf SNone; Dict true [([98], Leaf (SInt (-7)))]]);
     ([80; 97; 114; 109], Dict true [([80; 97; 114; 109; 67; 111; 100; 101], Leaf (SStr [65])); ([86; 97; 108; 117; 101], Leaf (SFlt 3))]);
     ([99], Leaf (SStr [120; 10; 121]));
     ([100], Leaf (SStr [32; 60; 33; 91; 67; 68; 65; 84; 65; 91; 60; 113; 62; 38; 93; 93; 62; 10]))]%N in
  let o := {| x_indent := 2; x_encoding := [117; 116; 102; 45; 56]; x_quote := [39] |}%N in
  decl_ok o /\ name_ok [114]%N = true /\ shaped_val v = true /\ single_root v = true /\ wf v /\ flat v = true /\
  to_xml o [([114]%N, v)] =
    [60;63;120;109;108;32;118;101;114;115;105;111;110;61;39;49;46;48;39;32;101;110;99;111;100;105;110;103;61;39;117;116;102;45;56;39;63;62;10;60;114;62;10;32;32;60;97;62;38;108;116;59;38;97;109;112;59;38;103;116;59;38;113;117;111;116;59;39;233;38;35;56;51;54;52;59;38;35;56;49;57;53;59;60;47;97;62;10;32;32;60;97;47;62;10;32;32;60;97;62;60;98;62;45;55;60;47;98;62;60;47;97;62;32;32;60;80;97;114;109;62;60;80;97;114;109;67;111;100;101;62;65;60;47;80;97;114;109;67;111;100;101;62;60;86;97;108;117;101;62;49;46;53;60;47;86;97;108;117;101;62;60;47;80;97;114;109;62;10;32;32;60;99;62;120;10;121;60;47;99;62;10;32;32;60;100;62;10;32;32;32;32;32;60;33;91;67;68;65;84;65;91;60;113;62;38;93;93;62;10;10;32;32;60;47;100;62;10;60;47;114;62]%N.
Proof. exact to_xml_example. Qed.
Print Assumptions C12_nonvacuous.
