(* Props/C20.v — property theorems only.

   C20: no public entry point can fail on a name the library never defined.
   The program is regenerated from the repository sources on every run
   (harness/n0v_scope); the theorems below are about ALL programs.  The run-time
   file [RepoClean.v] (written next to the generated [RepoProgram.v]) instantiates
   them:  repo_clean : check RepoProgram.program = <recorded list>  by vm_compute,
   then  repo_ok : program_ok RepoProgram.program  by C20_check_sound. *)
From Coq Require Import List String Bool NArith.
From N0 Require Import Scope.Lang Scope.Sem Scope.Spec Scope.Checker Scope.CheckerProofs Scope.Examples.
Import ListNotations.
Open Scope string_scope.
Open Scope N_scope.
Open Scope list_scope.

(* Soundness of the checker, for every program: if [check p] is empty then
   - importing the package raises nothing the model can see (every imported name
     exists at the moment of the import, every star-imported __all__ entry exists,
     no module-level read of an unbound name),
   - every name in every module's __all__ is bound in that module and in the
     package namespace,
   - every name read in every function / lambda / comprehension / class body, at
     any nesting depth, is a local, a closure variable of an enclosing function,
     a name of the module namespace after import, or a builtin (Python's LEGB rule
     as the inductive relation [resolves], class bodies skipped, [global] honoured),
   - every class has statically known ancestors, and
   - every [self.x] read in an instance method inherited by a class that is exported
     or has no subclass is defined or assigned by one of its ancestors, and
   - every [B.x] read where the global [B] is a class or module of the package finds
     [x] among the class's ancestors' attributes / in the module's namespace. *)
Theorem C20_check_sound : forall p : program, check p = [] -> program_ok p.
Proof. exact check_sound. Qed.
Print Assumptions C20_check_sound.

(* The same without assuming the list is empty: every place where the property
   can fail is in the list, labelled with module, scope path, line and name.
   (This is what transports a run with recorded findings: everything outside the
   recorded list resolves.) *)
Theorem C20_check_lists_all : forall p : program, ok_modulo p (check p).
Proof. exact check_lists_all. Qed.
Print Assumptions C20_check_lists_all.

(* The core of it, spelled out: a read that the checker does not report resolves. *)
Theorem C20_loads_listed :
  forall (p : program) (md : module) (env : list scope) (s : scope) (n : name),
  In md (p_modules p) ->
  (exists r, In r (m_scopes md) /\ reach [] r env s) ->
  In n (sc_loads s) ->
  resolves p (m_name md) env s n
  \/ In (VUnbound (m_name md) (path_of env s) (sc_line s) n) (check p).
Proof. exact loads_listed_unfolded. Qed.
Print Assumptions C20_loads_listed.

(* No false alarms on reads: whatever [check] reports as an unbound read is a read
   site of the program that does not satisfy [resolves]. *)
Theorem C20_loads_exact :
  forall (p : program) (v : violation),
  In v (check_loads p (run_imports p)) ->
  exists md env s n, load_site p md env s n /\ ~ resolves p (m_name md) env s n
                     /\ v = VUnbound (m_name md) (path_of env s) (sc_line s) n.
Proof. exact loads_exact. Qed.
Print Assumptions C20_loads_exact.

(* Non-vacuity: a package with star imports through __all__, a closure, a
   comprehension and a class hierarchy satisfies the hypothesis (and therefore the
   conclusion) ... *)
Theorem C20_nonvacuous : check demo_ok = [] /\ program_ok demo_ok.
Proof. exact (conj demo_ok_check demo_ok_program_ok). Qed.
Print Assumptions C20_nonvacuous.

(* ... and the conclusion is falsifiable: with one import deleted and one method
   renamed the checker lists exactly the two broken references, and the unbound
   read does not satisfy the declarative relation. *)
Theorem C20_detects :
  check demo_bad =
    [VUnbound "pkg.b" ["Child"; "extra2"] 6 "helper";
     VSelfAttr "pkg.b" "pkg.b:Child" "pkg.b:Base" "get2" 4 "extra"]
  /\ ~ resolves demo_bad "pkg.b" [b_Child "extra2"] (b_extra "extra2") "helper".
Proof. exact (conj demo_bad_check (proj2 demo_bad_unresolved)). Qed.
Print Assumptions C20_detects.

Theorem C20_detects_class_attribute :
  check demo_bad_attr = [VAttr "pkg.b" ["Child"; "extra"] 6 "Base" "get3"].
Proof. exact demo_bad_attr_check. Qed.
Print Assumptions C20_detects_class_attribute.
