(* Props/C16.v — property theorems only (C16: TLV and fixed-width codecs
   round-trip, refuse and terminate). *)
From Coq Require Import List NArith ZArith.
From N0 Require Import Base.PyStr Base.PyVal Codec.Util Codec.Tlv Codec.TlvProofs Codec.TlvInjective Codec.Fwf Codec.FwfProofs Codec.FwfFillerProofs.
Import ListNotations.

(* ---- TLV -------------------------------------------------------------------- *)

(* Round trip: for every mapping (association list, any tags and values, any
   code points) whose tags and value lengths fit the field widths, every tag
   padding character and a length padding of '0' or ' ', generate_tlv succeeds
   and parse_tlv returns, in order, one (tag padded to tw, len(value), value)
   triplet per entry. *)
Theorem C16_tlv_round_trip :
  forall tw lw tp lp m, lp = 48%N \/ lp = 32%N -> Forall (fits tw lw) m ->
  exists s, gen_tlv tw lw tp lp m = Ok s /\
            tlv_parse tw lw s = Ok (map (expected_triplet tw tp) m).
Proof. exact tlv_round_trip. Qed.
Print Assumptions C16_tlv_round_trip.

(* Refusal: if some tag is longer than the tag field, or the decimal length of
   some value is longer than the length field, no string is produced. *)
Theorem C16_tlv_refuses :
  forall tw lw tp lp m, Exists (fun kv => ~ fits tw lw kv) m ->
  gen_tlv tw lw tp lp m = Raise ExAssertion.
Proof. exact tlv_refuses. Qed.
Print Assumptions C16_tlv_refuses.

(* the fit condition spelled out: for a length field of lw >= 1 digits a value
   fits iff it is shorter than 10^lw characters; with lw = 0 nothing fits (even
   the empty value needs the digit "0"), so generate_tlv always refuses *)
Theorem C16_tlv_fits_readable :
  forall tw lw kv, 1 <= lw ->
  (fits tw lw kv <-> length (fst kv) <= tw /\ (N.of_nat (length (snd kv)) < 10 ^ N.of_nat lw)%N).
Proof. exact fits_readable. Qed.
Print Assumptions C16_tlv_fits_readable.

Theorem C16_tlv_width0_never_fits :
  forall tw kv, ~ fits tw 0 kv.
Proof. exact fits_width0. Qed.
Print Assumptions C16_tlv_width0_never_fits.

(* ... and nothing else happens: generation either refuses or emits a string,
   and an emitted string is always decodable (to the expected triplets). *)
Theorem C16_tlv_emitted_decodes :
  forall tw lw tp lp m s, lp = 48%N \/ lp = 32%N ->
  gen_tlv tw lw tp lp m = Ok s ->
  tlv_parse tw lw s = Ok (map (expected_triplet tw tp) m).
Proof. exact tlv_emitted_decodes. Qed.
Print Assumptions C16_tlv_emitted_decodes.

Theorem C16_tlv_gen_total :
  forall tw lw tp lp m,
  gen_tlv tw lw tp lp m = Raise ExAssertion \/ exists s, gen_tlv tw lw tp lp m = Ok s.
Proof. exact tlv_gen_total. Qed.
Print Assumptions C16_tlv_gen_total.

(* Termination: the fuel handed to the loop (length + 1) is never exhausted,
   for any input and any field widths (0 included). *)
Theorem C16_tlv_terminates :
  forall tw lw s, tlv_parse tw lw s <> OutOfFuel.
Proof. exact tlv_terminates. Qed.
Print Assumptions C16_tlv_terminates.

(* Tiling: for an arbitrary ASCII input (the quantifier's digits, sign, blank,
   letters; code points >= 128 in a length field are outside the int() model)
   the parser raises ValueError or returns triplets that tile the input. *)
Theorem C16_tlv_tiles :
  forall tw lw s, non_ascii s = false ->
  tlv_parse tw lw s = Raise ExValue \/
  exists ts, tlv_parse tw lw s = Ok ts /\ tiles tw lw s ts.
Proof. exact tlv_tiles. Qed.
Print Assumptions C16_tlv_tiles.

(* a tiling accounts for every character exactly once: the input is the
   concatenation tag ++ length field ++ value over the triplets, in order *)
Theorem C16_tiles_concat :
  forall tw lw s ts, tiles tw lw s ts ->
  exists fs, length fs = length ts /\
    s = concat (map (fun x => fst (fst (fst x)) ++ snd x ++ snd (fst x)) (combine ts fs)) /\
    Forall (fun x => py_int (snd x) = Ok (snd (fst (fst x)))) (combine ts fs).
Proof. exact tiles_concat. Qed.
Print Assumptions C16_tiles_concat.

(* str(n) / int(s) used by the length field: int(str(n)) = n *)
Theorem C16_int_of_dec :
  forall n w pad, pad = 48%N \/ pad = 32%N ->
  py_int (rjust (dec_of_N n) w pad) = Ok (Z.of_N n).
Proof. exact py_int_rjust_dec. Qed.
Print Assumptions C16_int_of_dec.

(* Unambiguity: the emitted string determines the values (in order) and the
   padded tags it was made from - two mappings emitted as the same string agree
   on both, so no information but the tag padding is lost by encoding. *)
Theorem C16_tlv_gen_injective :
  forall tw lw tp lp m1 m2 s, lp = 48%N \/ lp = 32%N ->
  gen_tlv tw lw tp lp m1 = Ok s -> gen_tlv tw lw tp lp m2 = Ok s ->
  map snd m1 = map snd m2 /\
  map (fun kv => ljust (fst kv) tw tp) m1 = map (fun kv => ljust (fst kv) tw tp) m2.
Proof. exact tlv_gen_injective. Qed.
Print Assumptions C16_tlv_gen_injective.

Theorem C16_tlv_distinct_values_distinct_strings :
  forall tw lw tp lp m1 m2 s1 s2, lp = 48%N \/ lp = 32%N ->
  gen_tlv tw lw tp lp m1 = Ok s1 -> gen_tlv tw lw tp lp m2 = Ok s2 ->
  map snd m1 <> map snd m2 -> s1 <> s2.
Proof. exact tlv_distinct_values_distinct_strings. Qed.
Print Assumptions C16_tlv_distinct_values_distinct_strings.

(* Non-vacuity: a concrete mapping fits, is generated, parses back; an
   over-long tag is refused; a negative length is a ValueError. *)
Theorem C16_tlv_nonvacuous :
  let m := [([48; 49], [80; 50]); ([97], []); ([48; 51], [49; 48; 48; 48; 48])]%N in
  Forall (fits 2 3) m /\
  gen_tlv 2 3 32 48 m =
    Ok [48;49;48;48;50;80;50; 97;32;48;48;48; 48;51;48;48;53;49;48;48;48;48]%N /\
  tlv_parse 2 3 [48;49;48;48;50;80;50; 97;32;48;48;48; 48;51;48;48;53;49;48;48;48;48]%N =
    Ok (map (expected_triplet 2 32) m) /\
  gen_tlv 2 3 32 48 [([48; 49; 50], [])]%N = Raise ExAssertion /\
  tlv_parse 2 3 [48;49;45;48;53]%N = Raise ExValue.
Proof. exact tlv_example. Qed.
Print Assumptions C16_tlv_nonvacuous.

(* ---- fixed-width rows ------------------------------------------------------------- *)

(* Round trip: for every layout whose columns have till = offset + size and are
   pairwise non-overlapping (any order, any gaps, size 0 allowed, int or str
   type), distinct column names, every record of str/int/bool/None values (any
   subset of the columns, extra keys allowed) and every one-character filler,
   generate_fwf_row produces a row of max(till) characters and
   parse_fwf_row(row, {name: {offset, width: size}}) returns, column by column,
   str(value) zero-filled (int) or blank-padded (str) and cut to the column size -
   or size fillers for a column the record does not have. *)
Theorem C16_fwf_round_trip :
  forall rcd cols fc,
  cols <> [] -> layout_ok cols -> NoDup (map g_name cols) -> rec_printable rcd ->
  exists row, gen_row rcd cols [fc] = Ok row /\ length row = row_len cols /\
    parse_row row (map pcol_of_gcol cols) true =
      Ok (PDict (map (fun c => (g_name c, t_str (cell rcd fc c))) cols)).
Proof. exact fwf_round_trip. Qed.
Print Assumptions C16_fwf_round_trip.

(* every parsed column has exactly the column size *)
Theorem C16_fwf_cell_length :
  forall rcd fc c, length (cell rcd fc c) = g_size c.
Proof. exact cell_length. Qed.
Print Assumptions C16_fwf_cell_length.

(* load_fwf (validate=True): the for-loop with the lagging previous_row and the
   two accumulators equals the line-by-line specification [spec]: line j is
   handled exactly once - with the header layout if j = 0, the footer layout if
   it is the last line, the body layout otherwise - and its outcome is appended
   to exactly one of the two lists, in file order. *)
Theorem C16_load_fwf_spec :
  forall lines hdr body footer orig, hdr <> [] ->
  load_fwf lines hdr body footer true orig =
  res_map (fun p => t_list [t_list (fst p); t_list (snd p)])
          (spec hdr (eff_body hdr body) (eff_footer hdr body footer) orig 0 lines).
Proof. exact load_fwf_spec. Qed.
Print Assumptions C16_load_fwf_spec.

(* one line: nothing if empty, otherwise exactly one entry in exactly one list,
   and a rejected entry carries the line itself *)
Theorem C16_load_fwf_outcome :
  forall orig fmt idx line a r, outcome orig fmt idx line = Ok (a, r) ->
  (line = [] /\ a = [] /\ r = []) \/
  (line <> [] /\ ((exists d, a = [d] /\ r = []) \/ (exists msg, a = [] /\ r = [t_fail idx line msg]))).
Proof. exact outcome_shape. Qed.
Print Assumptions C16_load_fwf_outcome.

(* partition: accepted + rejected = non-empty lines *)
Theorem C16_load_fwf_partition :
  forall hdr body footer orig lines j a r,
  spec hdr body footer orig j lines = Ok (a, r) ->
  length a + length r = length (filter nonempty_str lines).
Proof. exact load_fwf_partition. Qed.
Print Assumptions C16_load_fwf_partition.

Theorem C16_fwf_nonvacuous :
  let cols := [ {| g_name := [65]; g_offset := 0; g_size := 3; g_till := 3; g_int := false |};
                {| g_name := [66]; g_offset := 3; g_size := 4; g_till := 7; g_int := true |};
                {| g_name := [67]; g_offset := 9; g_size := 2; g_till := 11; g_int := false |} ]%N in
  let rcd := [([65], SStr [97; 98]); ([66], SInt (-12))]%N in
  cols <> [] /\ layout_ok cols /\ NoDup (map g_name cols) /\ rec_printable rcd /\
  gen_row rcd cols [46]%N = Ok [97; 98; 32; 45; 48; 49; 50; 46; 46; 46; 46]%N.
Proof. exact fwf_example. Qed.
Print Assumptions C16_fwf_nonvacuous.

(* the round trip for fillers of several characters: the row starts as row_len copies of the filler
   (|filler| * row_len characters) and the columns are spliced in by character position, so every column the record
   has parses back to its fitted value (cell_any = fit_col ... for such a column); a column the record lacks reads the
   characters of the filler pattern that lie at its place *)
Theorem C16_fwf_round_trip_any_filler :
  forall rcd cols filler,
  filler <> [] -> cols <> [] -> layout_ok cols -> NoDup (map g_name cols) -> rec_printable rcd ->
  exists row, gen_row rcd cols filler = Ok row /\ length row = length filler * row_len cols /\
    parse_row row (map pcol_of_gcol cols) true =
      Ok (PDict (map (fun c => (g_name c, t_str (cell_any rcd filler cols c))) cols)).
Proof. exact fwf_round_trip_any_filler. Qed.
Print Assumptions C16_fwf_round_trip_any_filler.

Theorem C16_fwf_present_columns_any_filler :
  forall rcd cols filler c v, In c cols -> lookup (g_name c) rcd = Some v ->
  cell_any rcd filler cols c = fit_col c (str_total v).
Proof. exact fwf_present_columns_any_filler. Qed.
Print Assumptions C16_fwf_present_columns_any_filler.

(* non-vacuity: filler "<>", A@0+3, B@3+4, C@9+2, the record has A and C: A and C come back fitted, B reads "><><" *)
Theorem C16_fwf_any_filler_nonvacuous :
  ff_cols <> [] /\ layout_ok ff_cols /\ NoDup (map g_name ff_cols) /\ rec_printable ff_rcd /\
  gen_row ff_rcd ff_cols [60; 62]%N =
    Ok [97; 98; 32; 62; 60; 62; 60; 62; 60; 53; 32; 62; 60; 62; 60; 62; 60; 62; 60; 62; 60; 62]%N /\
  map (cell_any ff_rcd [60; 62]%N ff_cols) ff_cols = [[97; 98; 32]; [62; 60; 62; 60]; [53; 32]]%N.
Proof. exact fwf_filler_example. Qed.
Print Assumptions C16_fwf_any_filler_nonvacuous.
