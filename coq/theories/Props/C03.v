(* Props/C03.v — property theorems only (grows as the proofs land). *)
From Coq Require Import List NArith ZArith.
From N0 Require Import Base.PyStr Base.PyVal.
Import ListNotations.

Theorem C03_update_read_back : forall (k : pstr) (v : tree) kvs, lookup k (update k v kvs) = Some v.
Proof. exact (@lookup_update_same tree). Qed.
Print Assumptions C03_update_read_back.
