(* Props/C03.v — property theorems only. *)
From Coq Require Import List NArith ZArith Bool.
From N0 Require Import Base.PyStr Base.PyVal Xpath.Dec Xpath.DecProofs Xpath.Token Xpath.TokenProofs
  Xpath.Find Xpath.FindProofs Xpath.Write Xpath.SpecProofs Xpath.WalkProofs Xpath.TokenizeProofs Xpath.EnumProofs
  Xpath.FstrProofs Xpath.CreateProofs Xpath.AppendProofs Xpath.BlankBracketProofs.
Import ListNotations.

(* d["P/n1/.../nk"] = v, where P spells an existing dictionary and n1 is a fresh name in it
   (n2..nk arbitrary names): exactly the missing chain is created — name steps become
   nested (n0-) dictionaries holding v at the end — and nothing is raised.
   (partial with respect to the property's whole creation grammar: single list-creating steps
   are the next theorems; suffixes that combine several of them are covered
   by the correspondence check and the reference oracle only; see DESIGN.md 5/C03.) *)
Theorem C03_creates_names_partial :
  forall fuel root x v toks p c kvs n1 ns,
  has_path_char x = true -> tokenize x = toks ++ n1 :: ns ->
  walk root toks p (Dict c kvs) ->
  Forall name_tok (n1 :: ns) -> plain_key n1 -> lookup n1 kvs = None ->
  2 * length toks + 2 + length ns <= fuel ->
  setitem_core fuel root x v = Ok (replace_at root p (Dict c (update n1 (chain ns v) kvs))).
Proof. exact setitem_creates_names. Qed.
Print Assumptions C03_creates_names_partial.

(* afterwards the created path reads back v ... *)
Theorem C03_created_chain_resolves : forall root p c kvs n1 ns v,
  resolve root p = Some (Dict c kvs) ->
  resolve (replace_at root p (Dict c (update n1 (chain ns v) kvs))) (p ++ PKey n1 :: map PKey ns) = Some v.
Proof. exact created_chain_resolves. Qed.
Print Assumptions C03_created_chain_resolves.

(* ... and every previously existing node that is not an ancestor of the new chain is unchanged *)
Theorem C03_existing_nodes_unchanged : forall root p c kvs n1 X q u,
  resolve root p = Some (Dict c kvs) -> lookup n1 kvs = None ->
  resolve root q = Some u -> (forall r, p <> q ++ r) ->
  resolve (replace_at root p (Dict c (update n1 X kvs))) q = Some u.
Proof. exact creation_preserves. Qed.
Print Assumptions C03_existing_nodes_unchanged.

(* name[new()] (or name[0]) on a fresh name creates the list with exactly one element, v *)
Theorem C03_creates_list :
  forall fuel root x v toks p c kvs y n si,
  has_path_char x = true -> tokenize x = toks ++ [y] ->
  walk root toks p (Dict c kvs) ->
  split_name_index y = Ok (n, IdxStr si) -> plain_key n -> si <> [] ->
  pstr_eqb si s_new || pstr_eqb si s_zero = true ->
  lookup n kvs = None ->
  2 * length toks + 2 <= fuel ->
  setitem_core fuel root x v = Ok (replace_at root p (Dict c (update n (Lst true [v]) kvs))).
Proof. exact setitem_creates_list. Qed.
Print Assumptions C03_creates_list.

(* P[new()] on an existing list (reached through keys and indexes, a list nested in a list
   included) appends exactly one element: the list grows by one, v is last, nothing else
   changes.  Uses the found-path invariant: the resolver re-resolves xpath_found_str from
   the root and reaches the same list. *)
Theorem C03_new_appends :
  forall fuel root x v toks p c items segs,
  keys_good root ->
  has_path_char x = true -> tokenize x = toks ++ [br s_new] ->
  walks root toks p (Lst c items) segs -> toks <> [] ->
  2 * length toks + 2 * length (seg_tokens segs) + 2 <= fuel ->
  setitem_core fuel root x v = Ok (replace_at root p (Lst c (items ++ [v]))).
Proof. exact setitem_appends. Qed.
Print Assumptions C03_new_appends.

(* [len] (an index equal to the length of the list, in any spelling that evaluates to it) appends exactly one
   element, like [new()] ... *)
Theorem C03_len_appends :
  forall fuel root x v toks p c items y si,
  has_path_char x = true -> tokenize x = toks ++ [y] ->
  walk root toks p (Lst c items) ->
  split_name_index y = Ok ([], IdxStr si) -> plain_idx si -> n0eval si = EvInt (Z.of_nat (length items)) ->
  2 * length toks + 2 <= fuel ->
  setitem_core fuel root x v = Ok (replace_at root p (Lst c (items ++ [v]))).
Proof. exact setitem_appends_at_len. Qed.
Print Assumptions C03_len_appends.

(* ... and an index beyond the end is refused with SyntaxError instead of storing v anywhere *)
Theorem C03_beyond_end_refused :
  forall fuel root x v toks p c items y si z,
  has_path_char x = true -> tokenize x = toks ++ [y] ->
  walk root toks p (Lst c items) ->
  split_name_index y = Ok ([], IdxStr si) -> plain_idx si -> n0eval si = EvInt z ->
  (Z.of_nat (length items) < z)%Z ->
  2 * length toks + 2 <= fuel ->
  setitem_core fuel root x v = Raise ExSyntax.
Proof. exact setitem_refuses_beyond_end. Qed.
Print Assumptions C03_beyond_end_refused.

(* a step below a scalar is refused with IndexError (no tree is produced) *)
Theorem C03_below_scalar_refused :
  forall fuel root x v toks p s y rest name ix,
  has_path_char x = true -> tokenize x = toks ++ y :: rest ->
  walk root toks p (Leaf s) ->
  split_name_index y = Ok (name, ix) -> name <> [] -> pstr_eqb name s_dotdot = false ->
  2 * length toks + 1 <= fuel ->
  setitem_core fuel root x v = Raise ExIndex.
Proof. exact setitem_refuses_below_scalar. Qed.
Print Assumptions C03_below_scalar_refused.

Theorem C03_new_appends_nonvacuous :
  keys_good ap_root /\
  (exists toks p c items segs, tokenize ap_x = toks ++ [br s_new] /\ walks ap_root toks p (Lst c items) segs /\ toks <> []) /\
  setitem_core (wfuel ap_x) ap_root ap_x (Leaf (SInt 7)) =
  Ok (Dict true [([97]%N, Dict true [([108]%N, Lst true [Leaf (SInt 1); Leaf (SInt 7)])])]).
Proof. exact append_example. Qed.
Print Assumptions C03_new_appends_nonvacuous.

Theorem C03_nonvacuous :
  setitem_core (wfuel cr_x) cr_root cr_x (Leaf (SInt 7)) =
  Ok (Dict true [([97]%N, Dict true [([107]%N, Leaf (SInt 1)); ([110; 49]%N, Dict true [([110; 50]%N, Leaf (SInt 7))])])]) /\
  exists toks p c kvs n1 ns,
    tokenize cr_x = toks ++ n1 :: ns /\ walk cr_root toks p (Dict c kvs) /\ Forall name_tok (n1 :: ns) /\
    plain_key n1 /\ lookup n1 kvs = None.
Proof. exact create_example. Qed.
Print Assumptions C03_nonvacuous.

(* white space between the name of a step and its bracket is not part of the name: 'b [new()]', 'b  [0]' are read
   exactly as 'b[new()]', 'b[0]' (any name without '[', any run of white space, anything between the brackets), so
   a creating path spelled with such blanks creates / appends under the same key.  (Step level: every resolver and
   writer of the model reads a step through split_name_index only.) *)
Theorem C03_blank_before_bracket_same_step :
  forall k bl r,
  mem_chr c_lb k = false -> Forall (fun c => mem_chr c py_ws = true) bl ->
  split_name_index (k ++ bl ++ c_lb :: r ++ [c_rb]) = split_name_index (k ++ c_lb :: r ++ [c_rb]).
Proof. exact sni_blank_before_bracket. Qed.
Print Assumptions C03_blank_before_bracket_same_step.

Theorem C03_blank_before_bracket_example :
  split_name_index ([98; 32; 91; 110; 101; 119; 40; 41; 93])%N = split_name_index ([98; 91; 110; 101; 119; 40; 41; 93])%N
  /\ split_name_index ([98; 32; 91; 110; 101; 119; 40; 41; 93])%N = Ok ([98]%N, IdxStr [110; 101; 119; 40; 41]%N).
Proof. exact blank_before_bracket_example. Qed.
Print Assumptions C03_blank_before_bracket_example.
