(* Props/C10.v — property theorems only. *)
From Coq Require Import List NArith ZArith Bool.
From N0 Require Import Base.PyStr Base.PyVal Compare.Util Compare.Flags Compare.Match Compare.MatchProofs
  Compare.Model Compare.Spec Compare.WalkLemmas Compare.VerdictProofs Compare.ReportProofs Compare.FilterProofs Compare.FilterMonoProofs Compare.ExclReading Compare.OnlyStrProofs Compare.TransformTypesProofs.
Import ListNotations.

(* One pattern matches an xpath iff the parts of the pattern after its last empty
   part (a leading "/" or "//" imposes nothing further) equal, one for one, the last
   parts of the xpath — case-insensitively, "*" standing for any one part. *)
Theorem C10_match_spec :
  forall xpath pat, match_one xpath pat = true <-> tail_match xpath pat.
Proof. exact match_one_spec. Qed.
Print Assumptions C10_match_spec.

(* xpath_match returns 0 iff no pattern of the list matches, and i+1 iff pattern i is
   the first that does; a str argument is the one-element tuple. *)
Theorem C10_match_result :
  forall xpath l,
  (xpath_match xpath l = 0 <-> forall p, In p l -> ~ tail_match xpath p) /\
  (forall n, xpath_match xpath l = S n <->
     exists p, nth_error l n = Some p /\ tail_match xpath p /\
               forall q, In q (firstn n l) -> ~ tail_match xpath q) /\
  (forall s, pats_list (PStr s) = pats_list (PSeq [s])).
Proof.
  exact (fun xpath l => conj (xpath_match_zero xpath l)
           (conj (xpath_match_index xpath l) pats_str_is_singleton)).
Qed.
Print Assumptions C10_match_result.

(* non-vacuity: "//k", "/k", "k", "K", "*", "//x/*" and "" match "/x/k"; "/x" does not *)
Theorem C10_match_nonvacuous :
  let xp := [47; 120; 47; 107]%N in
  map (fun p => match_one xp p)
      [[47; 47; 107]; [47; 107]; [107]; [75]; [42]; [47; 120]; [47; 47; 120; 47; 42]; []]%N
  = [true; true; true; true; true; false; true; true].
Proof. exact match_examples. Qed.
Print Assumptions C10_match_nonvacuous.

(* compare_only = O (non-empty): the report is the report of the comparison without it,
   filtered: an entry whose xpath ends in a key — a difference located at a dictionary
   entry — is kept iff the xpath matches O; an entry whose xpath ends in an index — a
   list-membership difference — is kept.  Both walks, any flags, exclusions, transforms
   and operands; the outcome (exception) is the same. *)
Theorem C10_compare_only_is_filter :
  forall fl O excl tr m ck a b,
  pats_truthy O = true ->
  compare_top fl (mk_opts O excl tr) m ck a b =
  RF (keep_only (pats_list O)) (compare_top fl (mk_opts (PSeq []) excl tr) m ck a b).
Proof. exact compare_only_is_filter. Qed.
Print Assumptions C10_compare_only_is_filter.

(* exclude_xpaths = E: whenever the comparison without it returns a report r, the
   comparison with it returns r filtered: an entry is dropped iff, on the way to its
   xpath, a dictionary entry's xpath matches E, or a list's own xpath matches E (the
   list walks test their prefix; for patterns without brackets — the pattern language
   of the property — a list's xpath k[i] matches only through "*", which then matches
   the dictionary entry k holding the list as well).  Both walks (the unordered one
   under the guard "no list directly inside a list"), any flags, compare_only, transform. *)
Theorem C10_exclude_is_filter :
  forall fl only E tr m ck a b r,
  walk_guard m a ->
  compare_top fl (mk_opts only (PSeq []) tr) m ck a b = Ok r ->
  compare_top fl (mk_opts only E tr) m ck a b = Ok (filter (keep_excluded (pats_list E)) r).
Proof. exact exclude_is_filter. Qed.
Print Assumptions C10_exclude_is_filter.

(* ... and that predicate is the dictionary-entry reading of the property: for patterns
   without "[" and an xpath that starts with a key and whose keys contain no "/" (the
   xpaths reported for dict-rooted operands with plain key names), "some dictionary entry
   or list on the way matches" = "some prefix that ends in a key matches" (Spec.under_excl).
   That every reported xpath has this form is by construction of the walks (prefix "",
   steps "/key" with the operands' own keys) and is checked by the oracle's path parser,
   not proved. *)
Theorem C10_excl_reading :
  forall E, Forall bracket_free E -> forall k rest,
  Forall key_noslash (SKey k :: rest) ->
  excl_hit E [] (SKey k :: rest) = under_excl E (SKey k :: rest).
Proof. exact excl_reading. Qed.
Print Assumptions C10_excl_reading.

(* transform, at the pair of values it is applied to: when the transformed values are
   scalars of one type, the pair is reported iff the transformed values differ, and
   the entry carries the original values.  (The relation between whole reports with and
   without transform is covered by correspondence + oracle only.) *)
Theorem C10_transform_pair_partial :
  forall fl o rec par ck tp p pd sl sd x y,
  same_type (transformed o tp x) (transformed o tp y) = true ->
  is_cmp_scalar (transformed o tp x) = true ->
  cmp_pair fl o rec par ck tp p pd sl sd x y =
  Ok (if val_neq (transformed o tp x) (transformed o tp y) && only_ok o par p then [NotEq p x y] else []).
Proof. exact transform_pair. Qed.
Print Assumptions C10_transform_pair_partial.

(* non-vacuity of the two filter theorems: a pair with four differences; "//y" excludes
   three of them, "/x/z" two; compare_only "//y" keeps all four (one is a list item),
   compare_only "/X/y" two *)
Theorem C10_filters_nonvacuous :
  (exists r, compare_top flags_init no_opts MDirect (PSeq []) fx_a fx_b = Ok r /\ length r = 4 /\
     length (filter (keep_excluded (pats_list pat_any_y)) r) = 1 /\
     length (filter (keep_excluded (pats_list pat_x_z)) r) = 2 /\
     length (filter (keep_only (pats_list pat_any_y)) r) = 4 /\
     length (filter (keep_only (pats_list pat_x_y)) r) = 2) /\
  walk_guard MKeyed fx_a /\ pats_truthy pat_any_y = true.
Proof. exact filter_example. Qed.
Print Assumptions C10_filters_nonvacuous.

(* compare_only / exclude_xpaths "given as str or tuple": one pattern as a bare str means what the one-element
   tuple means - the whole report (or exception) is the same.  Both walks, any flags, any other options.  (The
   filter theorems read the option through its pattern list only; a str is never taken as a set of characters
   or searched for key names.) *)
Theorem C10_compare_only_str_is_tuple :
  forall fl s excl tr m ck a b, s <> [] ->
  compare_top fl (mk_opts (PStr s) excl tr) m ck a b = compare_top fl (mk_opts (PSeq [s]) excl tr) m ck a b.
Proof. exact compare_only_str_is_tuple. Qed.
Print Assumptions C10_compare_only_str_is_tuple.

Theorem C10_exclude_str_is_tuple :
  forall fl only s tr m ck a b r, walk_guard m a ->
  compare_top fl (mk_opts only (PSeq []) tr) m ck a b = Ok r ->
  compare_top fl (mk_opts only (PStr s) tr) m ck a b = compare_top fl (mk_opts only (PSeq [s]) tr) m ck a b.
Proof. exact exclude_str_is_tuple. Qed.
Print Assumptions C10_exclude_str_is_tuple.

(* transform, the other half of the pair-level statement: when the transformed values are of different types the pair
   is reported (unless compare_only filters the entry out), and the entry carries the original values *)
Theorem C10_transform_pair_types :
  forall fl o rec par ck tp p pd sl sd x y,
  same_type (transformed o tp x) (transformed o tp y) = false ->
  cmp_pair fl o rec par ck tp p pd sl sd x y =
  Ok (if only_ok o par pd then [if f_types fl then DiffType pd x y else NotEq p x y] else []).
Proof. exact transform_pair_types. Qed.
Print Assumptions C10_transform_pair_types.

(* The filters only ever remove: whatever is reported under exclude_xpaths or
   compare_only was reported without them (nothing is invented), the report does
   not grow, and operands that compare equal without a filter compare equal with it. *)
Theorem C10_exclude_only_removes :
  forall fl only E tr m ck a b r,
  walk_guard m a ->
  compare_top fl (mk_opts only (PSeq []) tr) m ck a b = Ok r ->
  exists r', compare_top fl (mk_opts only E tr) m ck a b = Ok r' /\
             (forall e, In e r' -> In e r) /\ length r' <= length r /\ (r = [] -> r' = []).
Proof. exact exclude_only_removes. Qed.
Print Assumptions C10_exclude_only_removes.

Theorem C10_compare_only_only_removes :
  forall fl O excl tr m ck a b r,
  pats_truthy O = true ->
  compare_top fl (mk_opts (PSeq []) excl tr) m ck a b = Ok r ->
  exists r', compare_top fl (mk_opts O excl tr) m ck a b = Ok r' /\
             (forall e, In e r' -> In e r) /\ length r' <= length r /\ (r = [] -> r' = []).
Proof. exact compare_only_only_removes. Qed.
Print Assumptions C10_compare_only_only_removes.
