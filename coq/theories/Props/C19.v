(* Props/C19.v — property theorems only (dictionary findall returns complete,
   resolvable, history-independent results).  Model: Findall/Model.v; proofs:
   Findall/Proofs.v. *)
From Coq Require Import List NArith ZArith Bool.
From N0 Require Import Base.PyStr Base.PyVal N0xml.Util Findall.Util Findall.Model Findall.Proofs Findall.FanUpProofs.
Import ListNotations.

(* The model threads the contents of the two mutable default arguments of
   _findall (found_xpath_list = [], parent_nodes_stack = {}) through every call
   as an explicit cell.  For every tree and every expression - whatever the
   outcome of the search is: a mapping, None, or an exception - the cell is back
   at ([], {}) after a top-level search that started from ([], {}). *)
Theorem C19_defaults_invariant :
  forall root expr, snd (findall_top init_cell root expr) = init_cell.
Proof. exact defaults_invariant. Qed.
Print Assumptions C19_defaults_invariant.

(* Hence the result of a search depends only on the tree and the expression:
   in any sequence of searches on the same or on different trees every search
   returns what it returns from the initial state, and leaves the initial state. *)
Theorem C19_history_independent :
  forall calls,
  run_seq init_cell calls =
  map (fun c => (fst (findall_top init_cell (fst c) (snd c)), init_cell)) calls.
Proof. exact history_independent. Qed.
Print Assumptions C19_history_independent.

(* The cell is real state (the two theorems above are not vacuous): started from
   another content, a search does change it. *)
Theorem C19_cell_is_state :
  exists c root expr, snd (findall_top c root expr) <> c.
Proof. exact cell_is_state. Qed.
Print Assumptions C19_cell_is_state.

(* Every key of the returned mapping resolves to the very node: the key is the
   rendering of a segment list that the rendered-xpath resolver [walk] leads to
   exactly the position/value pair stored under it, and that value is the
   subtree of the root at that position (identity = position).
   Guards: names, '*', [i], [-i], last(), [*] steps only (no text() condition,
   no '..'); dictionary keys of the tree unique, non-empty and free of '[' and '/'. *)
Theorem C19_findall_keys_resolve :
  forall root expr d c',
  tree_ok root = true -> plain (normalize expr) = true ->
  findall_top init_cell root expr = (Ok (Some d), c') ->
  Forall (fun kv => (exists fx, fst kv = render fx /\ walk root fx = Some (snd kv)) /\
                    resolve root (fst (snd kv)) = Some (snd (snd kv))) d.
Proof. exact findall_keys_resolve. Qed.
Print Assumptions C19_findall_keys_resolve.

(* The same at the level of the key string: item access, as modelled by
   resolve_key (strip "//", split on '/', name then [i] groups with Python's
   negative indexes; tied to the real d[key] by the getitem correspondence
   stream), resolves every returned key to exactly the node stored under it.
   tree_ok now also demands that no dictionary key contains '/'. *)
Theorem C19_findall_keys_resolve_key :
  forall root expr d c',
  tree_ok root = true -> plain (normalize expr) = true ->
  findall_top init_cell root expr = (Ok (Some d), c') ->
  Forall (fun kv => resolve_key root (fst kv) = Some (snd kv) /\
                    resolve root (fst (snd kv)) = Some (snd (snd kv))) d.
Proof. exact findall_keys_resolve_key. Qed.
Print Assumptions C19_findall_keys_resolve_key.

(* An exact path finds exactly its node: when the steps address, one by one,
   the position p (addr: a name step that classifies as that key, an index step
   in any spelling - [i], [-k], [ i ], last()... - that classifies as that
   element, list elements on the way being dictionaries or lists), the result
   is the single entry for exactly that node. *)
Theorem C19_exact_path_finds :
  forall root seeked p v,
  addr root seeked p v ->
  exists key, fst (findall_parts init_cell root seeked) = Ok (Some [(key, (p, v))]).
Proof. exact exact_path_finds. Qed.
Print Assumptions C19_exact_path_finds.

(* addr is inhabited for the last() spelling: //Root/N1/S[last()]/tag addresses S[1]/tag of ex_tree *)
Theorem C19_exact_example :
  addr ex_tree (normalize ex_last)
       [PKey [82; 111; 111; 116]; PKey [78; 49]; PKey [83]; PIdx 1; PKey [116; 97; 103]]%N (Leaf (SStr [80; 50]%N)).
Proof. exact exact_example. Qed.
Print Assumptions C19_exact_example.

(* A name applied to a list fans out over all its elements: every element is
   searched with the same steps (name first), the keys it yields are keys of the
   result, and every entry of the result comes from one of the elements. *)
Theorem C19_fanout_spec :
  forall f c xs pos s n rest fx st d,
  classify s = KName n ->
  r_out (fa (S (S f)) (Lst c xs) pos (s :: rest) fx st) = Ok (Some d) ->
  (forall i child, nth_error xs i = Some child ->
     exists fxi sti o, r_out (fa f child (pos ++ [PIdx i]) (s :: rest) fxi sti) = Ok o /\
                       forall k0, In k0 (keys_of (found_truthy o)) -> In k0 (keys_of d)) /\
  (forall kv, In kv d ->
     exists i child fxi sti o, nth_error xs i = Some child /\
       r_out (fa f child (pos ++ [PIdx i]) (s :: rest) fxi sti) = Ok o /\ In kv (found_truthy o)).
Proof. exact fanout_spec. Qed.
Print Assumptions C19_fanout_spec.

(* The descendant wildcard //*/name finds every node called name at any depth
   and nothing else: for any spelling of the two steps that classifies as '*'
   and as the name, whenever the search returns a mapping (it raises when a list
   has a scalar element, which is outside the quantifier), every position
   q ++ [name] of the tree is in the result with its very node, and every entry
   of the result is such a position with the subtree found there. *)
Theorem C19_descendant_complete :
  forall root ss sn name d c',
  classify ss = KName s_star -> classify sn = KName name ->
  key_plain name = true -> pstr_eqb name s_star = false ->
  tree_ok root = true ->
  findall_parts init_cell root [ss; sn] = (Ok (Some d), c') ->
  (forall q v, resolve root (q ++ [PKey name]) = Some v -> exists key, In (key, (q ++ [PKey name], v)) d) /\
  (forall key p v, In (key, (p, v)) d -> (exists q, p = q ++ [PKey name]) /\ resolve root p = Some v).
Proof. exact descendant_complete. Qed.
Print Assumptions C19_descendant_complete.

(* its hypotheses hold for //*/name on ex_tree *)
Theorem C19_descendant_example :
  normalize ex_desc = [s_star; [110; 97; 109; 101]]%N /\
  classify s_star = KName s_star /\ classify [110; 97; 109; 101]%N = KName [110; 97; 109; 101]%N /\
  key_plain [110; 97; 109; 101]%N = true /\ pstr_eqb [110; 97; 109; 101]%N s_star = false /\
  exists d c, findall_parts init_cell ex_tree [s_star; [110; 97; 109; 101]%N] = (Ok (Some d), c) /\ length d = 2%nat.
Proof. exact descendant_example. Qed.
Print Assumptions C19_descendant_example.

(* findfirst returns the first pair, or signals none / many as documented *)
Theorem C19_findfirst_spec :
  forall found rx,
  findfirst_of found rx =
  match found with
  | Ok None | Ok (Some []) => if rx then Raise ExIndex else Ok None
  | Ok (Some [kv]) => Ok (Some kv)
  | Ok (Some (kv :: _ :: _)) => if rx then Raise ExIndex else Ok (Some kv)
  | Raise e => Raise e
  | OutOfFuel => OutOfFuel
  | Unmodelled => Unmodelled
  end.
Proof. exact findfirst_spec. Qed.
Print Assumptions C19_findfirst_spec.

(* Non-vacuity: ex_tree = {"Root": {"N1": {"S": [{"tag": "P1"}, {"tag": "P2"}], "name": "n1"}, "name": "rn"}}
   meets the guards, and so do the fan-out expression //Root/N1/S/tag and the
   descendant search //*/name, which both return two entries. *)
Theorem C19_nonvacuous :
  tree_ok ex_tree = true /\ plain (normalize ex_fan) = true /\ plain (normalize ex_desc) = true /\
  (exists d, fst (findall_top init_cell ex_tree ex_fan) = Ok (Some d) /\ length d = 2%nat) /\
  (exists d, fst (findall_top init_cell ex_tree ex_desc) = Ok (Some d) /\ length d = 2%nat).
Proof. exact nonvacuous. Qed.
Print Assumptions C19_nonvacuous.

(* '../..' behind a fan-out: //shop/items/sku[text()=B2]/../../currency, the same with items[*] and with items[1] on
   {"shop": {"currency": "EUR", "items": [{"sku": "A1"}, {"sku": "B2"}]}} all return exactly {'//shop/currency': 'EUR'}:
   two levels above a leaf of a list element is the owner of the list, however the list step is spelled *)
Theorem C19_fan_up_example :
  fst (findall_top init_cell fu_tree fu_name) = fu_expected /\
  fst (findall_top init_cell fu_tree fu_star) = fu_expected /\
  fst (findall_top init_cell fu_tree fu_idx) = fu_expected.
Proof. exact fan_up_example. Qed.
Print Assumptions C19_fan_up_example.
