(* Props/C17.v — property theorems only (C17: delimited list / key=value / INI
   text decodes to what was encoded). *)
From Coq Require Import List NArith ZArith.
From N0 Require Import Base.PyStr Base.PyVal Codec.Util Codec.Split Codec.SplitProofs Codec.Serialize Codec.SerializeProofs Codec.SerializeInjective
  Codec.Ini Codec.IniProofs.
Import ListNotations.

(* ---- split_with_escape / deserialize_list -------------------------------------- *)

(* Without the escape character in the text the split equals the plain
   str.split(delimiter, maxsplit if maxsplit else -1) - for every text,
   delimiter, maxsplit (None, 0, n), escape character and trim flag. *)
Theorem C17_split_no_escape :
  forall s d m e trim, ~ In e s -> split_esc s d m (Some e) trim = py_split d s m.
Proof. exact split_no_escape. Qed.
Print Assumptions C17_split_no_escape.

Theorem C17_split_escape_off :
  forall s d m trim, split_esc s d m None trim = py_split d s m.
Proof. exact split_none. Qed.
Print Assumptions C17_split_escape_off.

(* The (repaired) function is total - the model has no failure value left - and
   like str.split it always returns at least one item. *)
Theorem C17_split_nonempty :
  forall s d m esc trim, split_esc s d m esc trim <> [].
Proof. exact split_esc_nonempty. Qed.
Print Assumptions C17_split_nonempty.

(* Joining items (free of the delimiter and of the escape character) with the
   delimiter and splitting returns the items. *)
Theorem C17_join_split :
  forall items d e trim,
  items <> [] -> Forall (fun it => ~ In d it) items -> Forall (fun it => ~ In e it) items ->
  split_esc (join [d] items) d None (Some e) trim = items.
Proof. exact join_split. Qed.
Print Assumptions C17_join_split.

(* deserialize_list(d.join(items)) = items with parse_empty, the non-empty items
   without; with and without an escape character. *)
Theorem C17_deserialize_list_join :
  forall items d e,
  items <> [] -> Forall (fun it => ~ In d it) items -> Forall (fun it => ~ In e it) items ->
  deserialize_list (join [d] items) d true (Some e) = items /\
  deserialize_list (join [d] items) d false (Some e) = filter nonempty items /\
  deserialize_list (join [d] items) d true None = items /\
  deserialize_list (join [d] items) d false None = filter nonempty items.
Proof. exact deserialize_list_join. Qed.
Print Assumptions C17_deserialize_list_join.

Theorem C17_split_nonvacuous :
  let items := [[97; 98]; []; [61; 32]; [99]]%N in
  items <> [] /\ Forall (fun it => ~ In 59%N it) items /\ Forall (fun it => ~ In 92%N it) items /\
  split_esc (join [59%N] items) 59 None (Some 92%N) true = items /\
  split_esc [97; 92; 59; 98; 59; 99; 92; 92; 59; 100; 92; 92]%N 59 None (Some 92%N) true
    = [[97; 59; 98]; [99; 92]; [100; 92]]%N.
Proof. exact join_split_example. Qed.
Print Assumptions C17_split_nonvacuous.

(* [ext] Independence from neighbouring items: a delimiter preceded by an even
   run of escape characters (zero included) cuts - the text left of it and the
   text right of it are split independently of each other, whatever they
   contain (further escapes, escaped delimiters, trimming on or off). *)
Theorem C17_split_independent :
  forall a b d e trim, d <> e -> Nat.even (trail e a) = true ->
  split_esc (a ++ d :: b) d None (Some e) trim =
  split_esc a d None (Some e) trim ++ split_esc b d None (Some e) trim.
Proof. exact split_esc_app. Qed.
Print Assumptions C17_split_independent.

(* [ext] ... and a delimiter preceded by an odd run stays inside its item (the
   escape character in front of it is dropped) *)
Theorem C17_escaped_delimiter_stays :
  forall a b d e trim, d <> e -> ~ In d a -> ~ In d b -> Nat.odd (trail e a) = true ->
  split_esc (a ++ d :: b) d None (Some e) trim = [finish_last e trim (removelast a ++ d :: b)].
Proof. exact escaped_delimiter_stays. Qed.
Print Assumptions C17_escaped_delimiter_stays.

(* str.split(d, n) returns at most n+1 items, so the recursive branch of
   split_with_escape guarded by `maxsplit+1 < len(separated_items)` (evaluated
   after a pop) can never run: it is absent from the model *)
Theorem C17_split_max_length :
  forall d s n, length (py_split d s (Some (S n))) <= S (S n).
Proof. exact py_split_max_length. Qed.
Print Assumptions C17_split_max_length.

(* ---- key=value ---------------------------------------------------------------------- *)

(* a key without the equal tag gets the default value (or, with a default key,
   becomes the value of that key) *)
Theorem C17_key_without_eq :
  forall item eq dk dv, ~ In eq item ->
  deserialize_key_value item eq dk dv =
  match dk with Some k => (k, t_str item) | None => (item, dv) end.
Proof. exact key_without_eq. Qed.
Print Assumptions C17_key_without_eq.

Theorem C17_key_with_eq :
  forall k v eq dk dv, ~ In eq k -> deserialize_key_value (k ++ eq :: v) eq dk dv = (k, t_str v).
Proof. exact key_with_eq. Qed.
Print Assumptions C17_key_with_eq.

(* ---- serialize_dict / deserialize_dict / unescape -------------------------------- *)

(* Round trip of a flat str -> str mapping under the default options: ASCII
   delimiter and equal tag that are distinct and are not themselves letters of
   the \xHH escape (backslash, x, 0-9, a-f); distinct keys free of delimiter and
   equal tag (anything else allowed, empty key included); ASCII values over the
   whole alphabet (delimiter, equal tag, braces, brackets, quote, backslash,
   blanks, empty).  The text is 'k=v;...' with the reserved characters of the
   values hex-protected, deserialize_dict splits it into exactly the entries, and
   unescape restores the mapping, in order. *)
Theorem C17_serialize_round_trip :
  forall d eq c m,
  (d < 128)%N -> (eq < 128)%N -> d <> eq -> safe_sep d -> safe_sep eq ->
  keys_ok d eq m -> Forall (fun kv => non_ascii (snd kv) = false) m ->
  exists s, serialize_dict (dcfg d eq) (Dict c (flat m)) = Ok (Some s) /\
            s = join [d] (map (entry d eq) m) /\
            deserialize_dict s d false eq None t_none = map (fun kv => (fst kv, t_str (protect d eq (snd kv)))) m /\
            unescape (Dict false (deserialize_dict s d false eq None t_none)) = Ok (Dict false (flat m)).
Proof. exact serialize_round_trip. Qed.
Print Assumptions C17_serialize_round_trip.

(* reserved characters in values are protected: the protected text of a value
   consists of unreserved characters, backslashes and escape letters only *)
Theorem C17_values_protected :
  forall d eq v x, non_ascii v = false -> In x (protect d eq v) ->
  x = Split.BSL \/ In x escape_letters \/ dangerous d eq x = false.
Proof. exact values_protected. Qed.
Print Assumptions C17_values_protected.

(* unescape undoes the protection, byte for byte *)
Theorem C17_unescape_protect :
  forall d eq v, Forall (fun c => (c < 256)%N) v -> unesc (protect d eq v) = Ok v.
Proof. exact unesc_protect. Qed.
Print Assumptions C17_unescape_protect.

(* nested mappings serialise without error: any tree of dicts and lists with
   str/int/bool/None leaves (None not directly inside a list, where the code
   concatenates it to a str), at any nesting level, with the default key/value
   capitalisation *)
Theorem C17_serialize_nested_total :
  forall cfg, plain_case cfg -> forall t level, ser_okb t = true -> exists o, ser cfg level t = Ok o.
Proof. exact ser_total. Qed.
Print Assumptions C17_serialize_nested_total.

Theorem C17_serialize_nonvacuous :
  let m := [([97], [120; 59; 121]); ([98], [112; 61; 113]); ([99], [123; 125; 91; 93; 34; 92]); ([100], [])]%N in
  keys_ok 59 61 m /\ Forall (fun kv => non_ascii (snd kv) = false) m /\ safe_sep 59 /\ safe_sep 61 /\
  serialize_dict (dcfg 59 61) (Dict false (flat m)) =
    Ok (Some [97;61;120;92;120;51;98;121; 59; 98;61;112;92;120;51;100;113; 59;
              99;61;92;120;55;98;92;120;55;100;92;120;53;98;92;120;53;100;92;120;50;50;92;120;53;99; 59; 100;61]%N) /\
  serialize_dict (dcfg 59 61) (Dict false [([97]%N, Dict false [([98]%N, Leaf (SStr [99]%N)); ([100]%N, Lst false [Leaf (SInt 1); Leaf (SBool true)])])])
    = Ok (Some [97;61;123;98;61;99;59;100;61;91;49;59;84;114;117;101;93;125]%N).
Proof. exact serialize_example. Qed.
Print Assumptions C17_serialize_nonvacuous.

(* ---- INI ---------------------------------------------------------------------------------- *)

(* blank lines and comment lines leave the result untouched *)
Theorem C17_ini_skip_blank :
  forall cfg acc line, lstrip_set py_ws line = [] -> ini_line cfg acc line = Ok acc.
Proof. exact ini_skip_blank. Qed.
Print Assumptions C17_ini_skip_blank.

Theorem C17_ini_skip_comment :
  forall cfg acc line tag,
  In tag (ic_comments cfg) -> startswith (lstrip_set py_ws line) tag = true -> ini_line cfg acc line = Ok acc.
Proof. exact ini_skip_comment. Qed.
Print Assumptions C17_ini_skip_comment.

(* a live "key=value" line stores the typed value under the stripped, upper-cased key *)
Theorem C17_ini_key_value :
  forall cfg acc k v,
  live_line cfg (k ++ ic_eq cfg :: v) -> ~ In (ic_eq cfg) k -> non_ascii k = false ->
  ends_with_plus (upper (strip k)) = false ->
  ini_line cfg acc (k ++ ic_eq cfg :: v) =
  do value <- default_parse_value v;; Ok (update (upper (strip k)) value acc).
Proof. exact ini_key_value. Qed.
Print Assumptions C17_ini_key_value.

(* "key+=value" concatenates the texts (or starts with the concatenate sign) *)
Theorem C17_ini_plus_equal :
  forall cfg acc k v,
  live_line cfg (k ++ PLUS :: ic_eq cfg :: v) -> ~ In (ic_eq cfg) (k ++ [PLUS]) -> non_ascii k = false ->
  strip (k ++ [PLUS]) = strip k ++ [PLUS] ->
  ini_line cfg acc (k ++ PLUS :: ic_eq cfg :: v) =
  do value <- default_parse_value v;;
  Ok (update (upper (strip k))
             (IStr (match lookup (upper (strip k)) acc with
                    | Some old => str_of_ival old ++ str_of_ival value
                    | None => ic_concat cfg ++ str_of_ival value
                    end)) acc).
Proof. exact ini_plus_equal. Qed.
Print Assumptions C17_ini_plus_equal.

(* typed numbers: the text str(z) of any integer reads back as that integer *)
Theorem C17_ini_typed_int :
  forall z, default_parse_value (dec_of_Z z) = Ok (IInt z).
Proof. exact ini_typed_int. Qed.
Print Assumptions C17_ini_typed_int.

(* a mapping of integers written as "key=value" lines (keys starting with a
   letter, free of '=', ASCII, not ending in '+', distinct after strip+upper)
   loads back as {KEY: int}, in order *)
Theorem C17_ini_int_mapping :
  forall m : list (pstr * Z),
  Forall (fun kz => clean_key (fst kz)) m ->
  NoDup (map (fun kz => upper (strip (fst kz))) m) ->
  parse_ini default_cfg (map int_line m) = Ok (map int_entry m).
Proof. exact ini_int_mapping. Qed.
Print Assumptions C17_ini_int_mapping.

Theorem C17_ini_int_mapping_nonvacuous :
  let m := [([112; 111; 114; 116], 8080%Z); ([82; 101; 116; 114; 121; 32], (-3)%Z)]%N in
  Forall (fun kz => clean_key (fst kz)) m /\ NoDup (map (fun kz => upper (strip (fst kz))) m) /\
  map int_entry m = [([80; 79; 82; 84], IInt 8080); ([82; 69; 84; 82; 89], IInt (-3))]%N.
Proof. exact ini_int_mapping_example. Qed.
Print Assumptions C17_ini_int_mapping_nonvacuous.

Theorem C17_ini_nonvacuous :
  parse_ini default_cfg
    [[35; 32; 99]; [47; 47; 99]; []; [97; 32; 61; 32; 49]; [98; 61; 32; 39; 120; 39; 32]; [100];
     [101; 61; 49; 46; 50; 53]; [102; 43; 61; 97; 98]; [102; 43; 61; 99; 100]; [103; 61; 46]; [104; 61; 45; 32; 53]]%N
  = Ok [([65], IInt 1); ([66], IStr [120]); ([68], IStr []); ([69], IFlt [49; 46; 50; 53]);
        ([70], IStr [22; 97; 98; 99; 100]); ([71], IStr [46]); ([72], IStr [45; 32; 53])]%N.
Proof. exact ini_example. Qed.
Print Assumptions C17_ini_nonvacuous.

(* ---- unambiguity ----------------------------------------------------------------------- *)

(* a joined list determines its items (items free of delimiter and escape) ... *)
Theorem C17_join_injective :
  forall d e (l1 l2 : list pstr),
  l1 <> [] -> l2 <> [] ->
  Forall (fun it => ~ In d it) l1 -> Forall (fun it => ~ In d it) l2 ->
  Forall (fun it => ~ In e it) l1 -> Forall (fun it => ~ In e it) l2 ->
  join [d] l1 = join [d] l2 -> l1 = l2.
Proof. exact join_injective. Qed.
Print Assumptions C17_join_injective.

(* ... and the text of a serialised flat mapping determines the mapping: keys,
   values and order (same guards as the round trip) *)
Theorem C17_serialize_injective :
  forall d eq c1 c2 m1 m2 s,
  (d < 128)%N -> (eq < 128)%N -> d <> eq -> safe_sep d -> safe_sep eq ->
  keys_ok d eq m1 -> Forall (fun kv => non_ascii (snd kv) = false) m1 ->
  keys_ok d eq m2 -> Forall (fun kv => non_ascii (snd kv) = false) m2 ->
  serialize_dict (dcfg d eq) (Dict c1 (flat m1)) = Ok (Some s) ->
  serialize_dict (dcfg d eq) (Dict c2 (flat m2)) = Ok (Some s) ->
  m1 = m2.
Proof. exact serialize_injective. Qed.
Print Assumptions C17_serialize_injective.
