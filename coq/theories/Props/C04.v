(* Props/C04.v — property theorems only (grows as the proofs land). *)
From Coq Require Import List NArith ZArith.
From N0 Require Import Base.PyStr Base.PyVal Xpath.Dec Xpath.Token Xpath.Find Xpath.FindProofs.
Import ListNotations.

(* get / first convert every funnelled exception of the resolver into the default:
   for every fuel, tree and string, the dict-side get never reports one of the four
   classes the code catches (plus KeyError after the fix). *)
Theorem C04_get_never_funnelled : forall fuel root x rl root' e,
  dict_get fuel root x false rl = Ok (root', LRaise e) -> funnelled e = false.
Proof. exact dict_get_no_funnelled. Qed.
Print Assumptions C04_get_never_funnelled.
