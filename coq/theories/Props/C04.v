(* Props/C04.v — property theorems only. *)
From Coq Require Import List NArith ZArith.
From N0 Require Import Base.PyStr Base.PyVal Xpath.Dec Xpath.DecProofs Xpath.Token Xpath.TokenProofs
  Xpath.Find Xpath.FindProofs Xpath.Write Xpath.SpecProofs Xpath.WalkProofs Xpath.TokenizeProofs Xpath.EnumProofs
  Xpath.FstrProofs Xpath.DeleteProofs Xpath.CreateProofs Xpath.AppendProofs Xpath.PureProofs
  Xpath.PredOpsProofs Xpath.TildeListProofs Xpath.EmptyStepProofs Xpath.TextLastProofs.
Import ListNotations.

(* get / first convert every exception of the resolver that the funnel names
   (Value/Index/Key/Type/SyntaxError) into the default: for every fuel, tree and string
   (ill-formed included), the dict-side get never reports one of them. *)
Theorem C04_get_never_funnelled : forall fuel root x rl root' e,
  dict_get fuel root x false rl = Ok (root', LRaise e) -> funnelled e = false.
Proof. exact dict_get_no_funnelled. Qed.
Print Assumptions C04_get_never_funnelled.

(* Totality, for every tree and every string (ill-formed included) and every amount of fuel: every
   exception the dict- and the list-rooted resolver raise belongs to the classes the lookups funnel
   (ValueError, IndexError, KeyError, TypeError, SyntaxError); hence get and first never raise, and item
   access raises only those classes. (By induction on fuel over the whole transliteration, fan-out loops
   included.  What is not proved: that the real _find terminates; the model is fuelled.) *)
Theorem C04_resolver_raises_only_funnelled : forall rl fuel root xs par parv fstr e,
  find true rl fuel root xs par parv fstr = Raise e -> funnelled e = true.
Proof. exact find_raises_funnelled. Qed.
Print Assumptions C04_resolver_raises_only_funnelled.

Theorem C04_list_resolver_raises_only_funnelled : forall rl fuel root xs par parv fstr e,
  lfind rl fuel root xs par parv fstr = Raise e -> funnelled e = true.
Proof. exact lfind_raises_funnelled. Qed.
Print Assumptions C04_list_resolver_raises_only_funnelled.

Theorem C04_get_never_raises : forall fuel root x rl root' r,
  dict_get fuel root x false rl = Ok (root', r) -> forall e, r <> LRaise e.
Proof. exact dict_get_total. Qed.
Print Assumptions C04_get_never_raises.

Theorem C04_list_get_never_raises : forall fuel root x rl root' r,
  list_get fuel root x false rl = Ok (root', r) -> forall e, r <> LRaise e.
Proof. exact list_get_total. Qed.
Print Assumptions C04_list_get_never_raises.

Theorem C04_item_access_raises_only_allowed : forall fuel root x root' e,
  dict_getitem fuel root x = Ok (root', LRaise e) -> funnelled e = true.
Proof. exact dict_getitem_raises_allowed. Qed.
Print Assumptions C04_item_access_raises_only_allowed.

(* The shape of every answer.  A '?'-prefixed path answers a value or '' - never an exception, never the caller's
   default - through item access, get and first alike ([re], [rl] arbitrary), dict- and list-rooted, for every
   string after the '?'; get / first without the prefix answer a value or the caller's default, nothing else. *)
Theorem C04_qmark_yields_value_or_empty : forall fuel root x re rl root' r,
  dict_get fuel root (63%N :: x) re rl = Ok (root', r) -> r = LEmpty \/ exists v, r = LVal v.
Proof. exact dict_qmark_yields_value_or_empty. Qed.
Print Assumptions C04_qmark_yields_value_or_empty.

Theorem C04_list_qmark_yields_value_or_empty : forall fuel root x re rl root' r,
  list_get fuel root (63%N :: x) re rl = Ok (root', r) -> r = LEmpty \/ exists v, r = LVal v.
Proof. exact list_qmark_yields_value_or_empty. Qed.
Print Assumptions C04_list_qmark_yields_value_or_empty.

Theorem C04_get_value_or_default : forall fuel root x rl root' r,
  dict_get fuel root x false rl = Ok (root', r) -> r = LDefault \/ r = LEmpty \/ exists v, r = LVal v.
Proof. exact dict_get_value_or_default. Qed.
Print Assumptions C04_get_value_or_default.

(* "Resolves" = item access returns a value.  Item access has no caller default; the one string on
   which it answers without a value and without raising is '' on a list root (None), never on a dict. *)
Theorem C04_list_item_access_default_only_empty : forall fuel root x rl root',
  list_get fuel root x true rl = Ok (root', LDefault) -> x = [].
Proof. exact list_getitem_default_only_empty. Qed.
Print Assumptions C04_list_item_access_default_only_empty.

Theorem C04_dict_item_access_never_default : forall fuel root x root',
  dict_getitem fuel root x = Ok (root', LDefault) -> False.
Proof. exact dict_getitem_never_default. Qed.
Print Assumptions C04_dict_item_access_never_default.

(* Purity, for every string: the tree a resolver call returns is its input unless the
   call raised the "mutated" flag, which only the [new()] branch sets (partial: that the
   flag stays down for new()-free strings is not proved; see DESIGN 5/C04). *)
Theorem C04_find_pure_partial : forall rl fuel root xs par parv fstr root' m F,
  find true rl fuel root xs par parv fstr = Ok (root', m, F) -> m = false -> root' = root.
Proof. exact find_unmutated. Qed.
Print Assumptions C04_find_pure_partial.

Theorem C04_list_find_pure_partial : forall rl fuel root xs par parv fstr root' m F,
  lfind rl fuel root xs par parv fstr = Ok (root', m, F) -> m = false -> root' = root.
Proof. exact lfind_unmutated. Qed.
Print Assumptions C04_list_find_pure_partial.

Theorem C04_get_pure_partial : forall fuel root x re rl dflt root' r,
  dict_get_core fuel root x re rl dflt = Ok (root', r) ->
  dict_lookup_mutates fuel root x rl = false -> root' = root.
Proof. exact dict_get_core_pure. Qed.
Print Assumptions C04_get_pure_partial.

(* Purity without the flag hypothesis.  The only branch of the resolver that writes is [new()].  If one of the
   letters 'w' / 'n' occurs neither in the string nor in any key of the tree, no token the resolver ever builds
   (from the caller's string, from the keys it fans out over, from the path string it accumulates and
   re-tokenises for '..', from the indexes it prints) can be "[new()]", so the flag stays down and the tree
   is returned as it was: for every fuel, every such tree and every such string, ill-formed ones included,
   through item access, get and first ([re], [rl] arbitrary), '?' prefix or not.
   What is left of the "no lookup modifies the tree" clause: strings that do contain both letters —
   for those the clause is false as stated (Refuted/C04.v: a lookup through [new()] wraps the node). *)
Theorem C04_lookup_pure_without_letter : forall c0, c0 = 110%N \/ c0 = 119%N ->
  forall fuel root x re rl root' r,
  knw c0 root -> nw c0 x -> dict_get fuel root x re rl = Ok (root', r) -> root' = root.
Proof. exact dict_get_nw. Qed.
Print Assumptions C04_lookup_pure_without_letter.

Theorem C04_list_lookup_pure_without_letter : forall c0, c0 = 110%N \/ c0 = 119%N ->
  forall fuel root x re rl root' r,
  knw c0 root -> nw c0 x -> list_get fuel root x re rl = Ok (root', r) -> root' = root.
Proof. exact list_get_nw. Qed.
Print Assumptions C04_list_lookup_pure_without_letter.

Theorem C04_resolver_flag_down_without_letter : forall c0, c0 = 110%N \/ c0 = 119%N ->
  forall rl fuel root xs par parv fstr root' m F,
  knw c0 root -> knw c0 parv -> Forall (nw c0) xs -> nw c0 fstr ->
  find true rl fuel root xs par parv fstr = Ok (root', m, F) -> m = false /\ Fnw c0 F.
Proof. exact find_nw. Qed.
Print Assumptions C04_resolver_flag_down_without_letter.

Theorem C04_pure_nonvacuous : knw 119 pure_root /\ nw 119 pure_x /\
  dict_get (fuel_for pure_root pure_x) pure_root pure_x true true = Ok (pure_root, LVal (Leaf (SInt 1))).
Proof. exact pure_example. Qed.
Print Assumptions C04_pure_nonvacuous.

(* Misses derived from real paths are total and pure without any flag: an unknown key
   below a resolved prefix gives IndexError on item access and the default on get/first,
   the tree unchanged ... *)
Theorem C04_unknown_key_is_miss :
  forall fuel root x re rl dflt toks p c kvs y rest k ix,
  has_path_char x = true -> tokenize x = toks ++ y :: rest ->
  walk root toks p (Dict c kvs) ->
  split_name_index y = Ok (k, ix) -> plain_key k -> lookup k kvs = None ->
  2 * length toks + 1 <= fuel ->
  dict_get_core fuel root x re rl dflt = Ok (root, if re then LRaise ExIndex else dflt).
Proof. exact lookup_unknown_key. Qed.
Print Assumptions C04_unknown_key_is_miss.

(* ... and so does an index out of range. *)
Theorem C04_out_of_range_is_miss :
  forall fuel root x re rl dflt toks p c items y rest si z,
  has_path_char x = true -> tokenize x = toks ++ y :: rest ->
  walk root toks p (Lst c items) ->
  split_name_index y = Ok ([], IdxStr si) -> plain_idx si -> n0eval si = EvInt z ->
  (Z.of_nat (length items) <= z \/ z < - Z.of_nat (length items))%Z ->
  2 * length toks + 1 <= fuel ->
  dict_get_core fuel root x re rl dflt = Ok (root, if re then LRaise ExIndex else dflt).
Proof. exact out_of_range_is_miss. Qed.
Print Assumptions C04_out_of_range_is_miss.

(* ... and a name step below a scalar *)
Theorem C04_below_scalar_is_miss :
  forall fuel root x re rl dflt toks p s y rest name ix,
  has_path_char x = true -> tokenize x = toks ++ y :: rest ->
  walk root toks p (Leaf s) ->
  split_name_index y = Ok (name, ix) -> name <> [] -> pstr_eqb name s_dotdot = false ->
  2 * length toks + 1 <= fuel ->
  dict_get_core fuel root x re rl dflt = Ok (root, if re then LRaise ExIndex else dflt).
Proof. exact lookup_below_scalar_is_miss. Qed.
Print Assumptions C04_below_scalar_is_miss.

(* a '~' condition on a list-valued field: the literal is taken as it stands (no numeric reading), the test never
   raises, and on a list of texts it holds iff the literal IS one of the elements - a literal spelled with the letters
   of several elements is no element, so such a path does not resolve *)
Theorem C04_tilde_on_list_is_membership :
  (forall c xs v, pred_literal (Lst c xs) (PvStr v) = Some (LitStr v)) /\
  (forall c xs l, exists b, pred_test OpHas (Lst c xs) l = Ok b) /\
  (forall c ss v, pred_test OpHas (Lst c (text_items ss)) (LitStr v) = Ok true <-> In v ss).
Proof. exact (conj tilde_literal_on_list (conj tilde_on_list_total tilde_on_text_list)). Qed.
Print Assumptions C04_tilde_on_list_is_membership.

Theorem C04_tilde_on_list_example :
  pred_test OpHas (Lst true (text_items [[120]; [121]]%N)) (LitStr [120; 121]%N) = Ok false /\
  pred_test OpHas (Lst true (text_items [[120]; [121]]%N)) (LitStr [120]%N) = Ok true.
Proof. exact tilde_list_example. Qed.
Print Assumptions C04_tilde_on_list_example.

(* an empty bracket step '[]' (blanks inside allowed) is ill-formed wherever it stands - first step or behind steps that
   resolve, behind a fan-out, whatever follows: the resolver answers ValueError, a funnelled class; item access raises
   it, get / first answer the default *)
Theorem C04_empty_step_is_value_error :
  forall selfok rl f root bl rest par parv fstr,
  Forall (fun c => mem_chr c py_ws = true) bl ->
  find selfok rl (S f) root ((c_lb :: bl ++ [c_rb]) :: rest) par parv fstr = Raise ExValue.
Proof. exact find_empty_step. Qed.
Print Assumptions C04_empty_step_is_value_error.

Theorem C04_empty_step_example :
  dict_get_core 50 es_tree es_x1 true false LEmpty = Ok (es_tree, LRaise ExValue) /\
  dict_get_core 50 es_tree es_x1 false false (LVal (Leaf (SInt 9))) = Ok (es_tree, LVal (Leaf (SInt 9))) /\
  dict_get_core 50 es_tree es_x2 true false LEmpty = Ok (es_tree, LRaise ExValue) /\
  dict_get_core 50 es_tree es_x2 false false (LVal (Leaf (SInt 9))) = Ok (es_tree, LVal (Leaf (SInt 9))).
Proof. exact empty_step_example. Qed.
Print Assumptions C04_empty_step_example.

(* a text() condition as the LAST remaining step (any of the operators): when the node fails it, the resolver hands the
   step back as a non-empty "not found" rest - a miss: get / first answer the default, item access raises IndexError;
   when the node meets it, the lookup goes on with no steps left *)
Theorem C04_text_condition_last_step :
  forall o rl f root t par kv fstr v lit b,
  split_name_index t = Ok ([], IdxPred s_text (op_str o) v) -> pred_literal kv v = Some lit ->
  pred_test o kv lit = Ok b ->
  find true rl (S f) root [t] par kv fstr =
  (if b then find true rl f root [] par kv fstr
   else Ok (root, false, mkF par kv None None fstr (Some [t]))) /\ rest_falsy (Some [t]) = false.
Proof. exact text_last_step_full. Qed.
Print Assumptions C04_text_condition_last_step.
