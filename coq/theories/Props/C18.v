(* Props/C18.v — property theorems only (n0xml keeps document order and its
   searches return only real nodes).  Model: N0xml/Model.v; proofs: N0xml/Proofs.v. *)
From Coq Require Import List NArith ZArith Bool.
From N0 Require Import Base.PyStr Base.PyVal N0xml.Util N0xml.Model N0xml.Proofs.
Import ListNotations.

(* _parse_node keeps tags, attributes, texts and sibling order: the element tree
   ElementTree reports can be read back from ordered_items (unparse), except
   for the text of elements that have children, which n0xml does not store. *)
Theorem C18_parse_preserves :
  forall e, map unparse_item (parse_node e) = map erase (e_kids e).
Proof. exact parse_preserves. Qed.
Print Assumptions C18_parse_preserves.

(* position by position: the i-th item is the i-th child (tag, attributes, value) *)
Theorem C18_parse_order :
  forall e i, nth_error (parse_node e) i = option_map item_of (nth_error (e_kids e) i).
Proof. exact parse_nth. Qed.
Print Assumptions C18_parse_order.

(* the sibling-counting loop of _get returns the i-th sibling with that tag ... *)
Theorem C18_xget_spec :
  forall name items i,
  sib name (Z.of_nat i) items = nth_error (map it_val (filter (same_tag name) items)) i.
Proof. exact sib_spec. Qed.
Print Assumptions C18_xget_spec.

(* ... and nothing for a negative index *)
Theorem C18_xget_negative :
  forall name items idx, (idx < 0)%Z -> sib name idx items = None.
Proof. exact sib_neg. Qed.
Print Assumptions C18_xget_negative.

(* get with explicit per-tag indexes tag[i]/tag[i]/... returns exactly the
   ElementTree node at that position (its text when it is a leaf, its parsed
   children otherwise) and the default (None) when there is no such node,
   including below a leaf; never an exception.  Guard: the tag names of the
   path contain no '['. *)
Theorem C18_get_is_et :
  forall steps e,
  Forall (fun s => no_lb (fst s) = true) steps ->
  xget (VItems (parse_node e)) (map render_step steps) =
  Ok (match steps with
      | [] => Some (VItems (parse_node e))
      | _ => option_map val_of (et_nav e steps)
      end).
Proof. exact get_is_et. Qed.
Print Assumptions C18_get_is_et.

(* every (path, value) returned by findall - for every expression: names, *, **,
   [i], [*], text() conditions, '..' - resolves through get to that same value.
   Guard: no tag of the document contains '['. *)
Theorem C18_findall_resolves :
  forall root xp l,
  tags_ok (VItems root) = true ->
  findall_m root xp = Ok (Some l) ->
  Forall (fun pv => get_parts root (fst pv) = Ok (Some (snd pv))) l.
Proof. exact findall_resolves. Qed.
Print Assumptions C18_findall_resolves.

(* '**' returns every leaf exactly once in document order: the result is the
   document-order list of leaves with their rendered paths ... *)
Theorem C18_starstar_leaves :
  forall root r, findall_m root starstar = Ok r -> r = Some (leaves [] (VItems root)).
Proof. exact starstar_leaves. Qed.
Print Assumptions C18_starstar_leaves.

(* ... whose values are the plain left-to-right flattening of the tree *)
Theorem C18_starstar_values :
  forall root l, findall_m root starstar = Ok (Some l) -> map snd l = leaf_vals (VItems root).
Proof. exact starstar_values. Qed.
Print Assumptions C18_starstar_values.

(* index and text() conditions keep exactly the matching siblings: one selecting
   step s (a name or '*', optional [i] / [*], optional text() condition - as
   tokenized) applied to the children of any node returns exactly [select]: the
   siblings whose tag matches, whose per-tag position satisfies the index and
   whose value satisfies the condition, in document order, each under the path
   passed + [tag[i]].  (fuel >= 2; the model supplies more) *)
Theorem C18_select_spec :
  forall f s st items passed,
  tok_step s = Some st -> pstr_eqb (s_tag st) starstar = false ->
  rwhile (S (S f)) false false (VItems items) [s] passed 0 [] = Ok (Some (select st passed items), false).
Proof. exact select_spec. Qed.
Print Assumptions C18_select_spec.

(* the same for a one-step findall on the document *)
Theorem C18_findall_select :
  forall root s st,
  tok_step s = Some st -> pstr_eqb (s_tag st) starstar = false ->
  findall_parts false root [s] = Ok (Some (select st [] root), false).
Proof. exact findall_select. Qed.
Print Assumptions C18_findall_select.

(* the tokenizer on typical selecting steps: c[1][text()=y], *[*], b[text()!='x'] *)
Theorem C18_tok_examples :
  tok_step [99; 91; 49; 93; 91; 116; 101; 120; 116; 40; 41; 61; 121; 93]%N
    = Some {| s_tag := [99]%N; s_idx := INum 1; s_cond := Some (true, [121]%N) |} /\
  tok_step [42; 91; 42; 93]%N = Some {| s_tag := star; s_idx := IStar; s_cond := None |} /\
  tok_step [98; 91; 116; 101; 120; 116; 40; 41; 33; 61; 39; 120; 39; 93]%N
    = Some {| s_tag := [98]%N; s_idx := INone; s_cond := Some (false, [120]%N) |}.
Proof. exact tok_examples. Qed.
Print Assumptions C18_tok_examples.

(* findfirst equals the first findall result (() when there is none, also when
   findall returns the None signal of a leading '..'), for every expression
   (as repaired: findfirst runs the complete search). *)
Theorem C18_findfirst_head :
  forall root xp o,
  findall_m root xp = Ok o ->
  findfirst_m root xp = Ok (match o with Some l => hd_error l | None => None end).
Proof. exact findfirst_head. Qed.
Print Assumptions C18_findfirst_head.

(* 'in' is true exactly when findall is non-empty, for every expression. *)
Theorem C18_contains_iff_nonempty :
  forall root xp o,
  findall_m root xp = Ok o ->
  contains_m root xp = Ok (match o with Some (_ :: _) => true | _ => false end).
Proof. exact contains_iff_nonempty. Qed.
Print Assumptions C18_contains_iff_nonempty.

(* ... and both raise what findall raises *)
Theorem C18_findfirst_contains_raise :
  forall root xp e,
  findall_m root xp = Raise e -> findfirst_m root xp = Raise e /\ contains_m root xp = Raise e.
Proof. exact findfirst_contains_raise. Qed.
Print Assumptions C18_findfirst_contains_raise.

(* The early exit findall(find_first=True) (public, no longer used by findfirst):
   without a '..' step it returns a prefix of the complete result with the same
   head, empty exactly when the complete result is empty.  With '..' this is
   false (Refuted/C18.v), which is why findfirst had to be repaired. *)
Theorem C18_find_first_prefix :
  forall root xp l,
  no_dd (split_xpath (collapse (length xp) xp)) = true ->
  findall_m root xp = Ok (Some l) ->
  exists lt ft, findall_str true root xp = Ok (Some lt, ft) /\
                (exists extra, l = lt ++ extra) /\ (l = [] <-> lt = []) /\ hd_error lt = hd_error l.
Proof. exact find_first_prefix. Qed.
Print Assumptions C18_find_first_prefix.

(* without '..' findall never returns the None signal *)
Theorem C18_findall_total_without_dotdot :
  forall root xp o,
  no_dd (split_xpath (collapse (length xp) xp)) = true ->
  findall_m root xp = Ok o -> o <> None.
Proof. exact findall_nodd_some. Qed.
Print Assumptions C18_findall_total_without_dotdot.

(* Non-vacuity: the document ex_doc = <r><a>1</a><b><c>x</c><d/><c>y</c></b><a k="v">2</a></r>
   (repeated, interleaved siblings, an empty element, nesting) meets the guards;
   ex_xp = b/c[1][text()=y]; an indexed search with a text() condition and a
   '**' search return non-empty results there, and the fuel supplied by the
   model suffices. *)
Theorem C18_nonvacuous :
  let root := parse_node ex_doc in
  tags_ok (VItems root) = true /\
  findall_m root ex_xp = Ok (Some [([[98]; [99; 91; 49; 93]], VText (Some [121]))])%N /\
  (exists l, findall_m root starstar = Ok (Some l) /\ length l = 5%nat) /\
  findfirst_m root [97]%N = Ok (Some ([[97]], VText (Some [49])))%N /\
  contains_m root [97; 91; 49; 93]%N = Ok true.
Proof. exact nonvacuous. Qed.
Print Assumptions C18_nonvacuous.
