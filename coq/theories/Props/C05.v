(* Props/C05.v — property theorems only (grows as the proofs land). *)
From Coq Require Import List NArith ZArith.
From N0 Require Import Base.PyStr Base.PyVal.
Import ListNotations.

Theorem C05_set_nth_length : forall (n : nat) (v : tree) l, length (set_nth n v l) = length l.
Proof. exact (@set_nth_length tree). Qed.
Print Assumptions C05_set_nth_length.
