(* Props/C05.v — property theorems only. *)
From Coq Require Import List NArith ZArith.
From N0 Require Import Base.PyStr Base.PyVal Xpath.Dec Xpath.DecProofs Xpath.Token Xpath.TokenProofs
  Xpath.Find Xpath.FindProofs Xpath.Write Xpath.SpecProofs Xpath.WalkProofs Xpath.DeleteProofs Xpath.DeleteFrame Xpath.DeleteFrameTree.
Import ListNotations.

(* delete(xpath) on a path that spells an existing node (relative, '/'- or '//'-rooted,
   'a[i][j]', negative indexes: whatever tokenises to a spelling) removes exactly that
   dict entry / list element: the result is delete_at (later list elements shift down;
   delete_at changes nothing else). *)
Theorem C05_delete_exact :
  forall root x p, keys_ok root -> tokenize x <> [] -> spells root p (tokenize x) ->
  delete_res (wfuel x) root x false = Ok (delete_at root p).
Proof. exact delete_existing. Qed.
Print Assumptions C05_delete_exact.

(* recursively=True: after the addressed node is removed, the token-boundary ancestors (the paths Q k of
   the token prefixes, longest first) are visited in turn and each one that is an empty dictionary at that
   moment is removed (prune_list); nothing else changes.  The ancestors' paths are the ones they have in the
   original tree: deletions below an ancestor do not move it. *)
Theorem C05_delete_recursively :
  forall fuel root x p u,
  tokenize x <> [] -> walk root (tokenize x) p u -> 2 * length (tokenize x) <= fuel ->
  exists qs,
    Forall2 (Q root (tokenize x)) (rev (seq 1 (length (tokenize x) - 1))) qs /\
    delete fuel root x true = (prune_list (delete_at root p) qs, None).
Proof. exact delete_recursive_walk. Qed.
Print Assumptions C05_delete_recursively.

(* when no visited ancestor is (or becomes) an empty dictionary, recursively changes nothing more *)
Theorem C05_prune_noop : forall t qs,
  Forall (fun q => forall c, resolve t q <> Some (Dict c [])) qs -> prune_list t qs = t.
Proof. exact prune_list_noop. Qed.
Print Assumptions C05_prune_noop.

(* pop returns the value lookup returns and has the effect of delete *)
Theorem C05_pop_existing :
  forall root x p, keys_ok root -> has_path_char x = true -> no_qmark x -> tokenize x <> [] ->
  spells root p (tokenize x) ->
  exists v, resolve root p = Some v /\ pop (wfuel x) root x false = Ok (Some v, delete_at root p).
Proof. exact pop_existing. Qed.
Print Assumptions C05_pop_existing.

(* pop of a path on which item access raises returns the default and the tree lookup left *)
Theorem C05_pop_missing : forall fuel root x rc root' e,
  dict_getitem fuel root x = Ok (root', LRaise e) -> pop fuel root x rc = Ok (None, root').
Proof. exact pop_missing. Qed.
Print Assumptions C05_pop_missing.

(* the Spec: the removed key no longer resolves; a list loses exactly one element; the
   rest of the tree is the old tree (delete_at is replace_at of the parent) *)
(* delete of a path that addresses nothing removes nothing: below a resolved prefix, an index outside the list
   (on either side: norm_idx refuses z >= len and z < -len alike) or an unknown key makes delete raise, and the
   tree it leaves behind is the tree it was given ([rest] arbitrary: further steps do not matter) *)
Theorem C05_delete_index_out_of_range_changes_nothing :
  forall fuel root x rc toks p c items y rest si z,
  tokenize x = toks ++ y :: rest -> walk root toks p (Lst c items) ->
  split_name_index y = Ok ([], IdxStr si) -> plain_idx si -> n0eval si = EvInt z ->
  norm_idx (length items) z = None -> 2 * length toks + 1 <= fuel ->
  delete fuel root x rc = (root, Some (Raise ExIndex)).
Proof. exact delete_index_out_of_range. Qed.
Print Assumptions C05_delete_index_out_of_range_changes_nothing.

Theorem C05_delete_unknown_key_changes_nothing :
  forall fuel root x rc toks p c kvs y rest k ix,
  tokenize x = toks ++ y :: rest -> walk root toks p (Dict c kvs) ->
  split_name_index y = Ok (k, ix) -> plain_key k -> lookup k kvs = None ->
  2 * length toks + 1 <= fuel ->
  exists e, delete fuel root x rc = (root, Some (Raise e)).
Proof. exact delete_unknown_key. Qed.
Print Assumptions C05_delete_unknown_key_changes_nothing.

Theorem C05_removed_key_gone : forall (k : pstr) (kvs : list (pstr * tree)),
  NoDup (map fst kvs) -> lookup k (remove_key k kvs) = None.
Proof. exact (@lookup_remove_key tree). Qed.
Print Assumptions C05_removed_key_gone.

Theorem C05_list_shrinks_by_one : forall (l : list tree) i, i < length l -> length (del_nth i l) = length l - 1.
Proof. exact (@del_nth_length tree). Qed.
Print Assumptions C05_list_shrinks_by_one.

(* ... and what the removal does not change: every other key keeps its value, the
   remaining entries keep their order; every other list element keeps its value,
   those behind the removed one move up by exactly one place. *)
Theorem C05_other_keys_kept : forall (k k2 : pstr) (kvs : list (pstr * tree)),
  k2 <> k -> lookup k2 (remove_key k kvs) = lookup k2 kvs.
Proof. exact (@lookup_remove_key_other tree). Qed.
Print Assumptions C05_other_keys_kept.

Theorem C05_remaining_entries_in_order : forall (k : pstr) (kvs : list (pstr * tree)),
  NoDup (map fst kvs) ->
  remove_key k kvs = filter (fun kv => negb (pstr_eqb k (fst kv))) kvs.
Proof. exact (@remove_key_filter tree). Qed.
Print Assumptions C05_remaining_entries_in_order.

Theorem C05_other_elements_kept : forall (l : list tree) i,
  del_nth i l = firstn i l ++ skipn (S i) l /\
  (forall j d, j < i -> nth j (del_nth i l) d = nth j l d) /\
  (forall j d, i <= j -> nth j (del_nth i l) d = nth (S j) l d).
Proof. exact (fun l i => conj (del_nth_firstn_skipn l i) (conj (fun j d => del_nth_before l i j d) (fun j d => del_nth_after l i j d))). Qed.
Print Assumptions C05_other_elements_kept.

(* delete-frame on whole trees: every path that parts ways with the deleted one at
   a key step, or at an index step above the list the slot is removed from,
   resolves exactly as before (the siblings of a removed list element shift:
   C05_other_elements_kept). *)
Theorem C05_delete_frame : forall t p q,
  kdiverge p q -> resolve (delete_at t p) q = resolve t q.
Proof. exact resolve_delete_other. Qed.
Print Assumptions C05_delete_frame.

Theorem C05_delete_is_local : forall t q r u,
  r <> [] -> resolve t q = Some u -> delete_at t (q ++ r) = replace_at t q (delete_at u r).
Proof. exact delete_at_app. Qed.
Print Assumptions C05_delete_is_local.

Theorem C05_nonvacuous :
  exists root x p, keys_ok root /\ has_path_char x = true /\ no_qmark x /\ tokenize x <> [] /\
                   spells root p (tokenize x) /\ resolve root p = Some (Leaf (SInt 7)).
Proof. exact c01_example. Qed.
Print Assumptions C05_nonvacuous.
