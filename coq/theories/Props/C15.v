(* Props/C15.v — property theorems only.
   Model: Files/SaveLoad.v (save_file / load_file / load_lines over a byte-level
   file with explicit handle buffer, Python's text layer, open()'s mode
   validation); codecs: Files/Bytes.v.  All theorems are for an arbitrary codec
   satisfying [good_codec] (ASCII-compatible, decode inverts encode); UTF-8,
   UTF-8-sig, Latin-1 and cp1252 are proved to satisfy it (C15_codecs_good). *)
From Coq Require Import List NArith Bool.
From N0 Require Import Base.PyStr Base.PyVal Files.Bytes Files.Util Files.BytesProofs
  Files.SaveLoad Files.SaveLoadProofs Files.OverwriteProofs.
Import ListNotations.
Local Open Scope N_scope.

(* Text: for every truncating mode of the quantifier (t b wt wb w t+ b+ w+ wt+
   wb+), every ASCII EOL (standard, LFCR, custom multi-character), every text
   encodable in the codec that satisfies the guard [eol_ok] (standard EOL: no
   CR in the text; custom EOL: some character of the EOL other than "\n" does
   not occur in the text), whatever the file held before: when save_file
   returns the bytes on disk are the text with each "\n" replaced by the EOL in
   the requested encoding, and load_file with the same EOL and encoding
   returns the text. *)
Theorem C15_save_load_text :
  forall c, good_codec c -> forall disk s m eol bs0,
  mode_kind m = Some MWrite -> ascii eol -> eol_ok eol s = true ->
  enc_chars c s = Some bs0 ->
  exists d, encode c (replace s [LF] eol) = Some d /\
            save_file disk (PStr s) m c eol = Ok (Some d) /\
            load_file (Some d) [ch_t] c eol = Ok (LStr s).
Proof. exact save_load_text. Qed.
Print Assumptions C15_save_load_text.

(* The lemma the custom-EOL path stands on, at character level: replacing the
   EOL back to "\n" inverts replacing "\n" by the EOL, as soon as one character
   of the EOL other than "\n" does not occur in the text. *)
Theorem C15_replace_inverse :
  forall e s, has_marker e s = true -> replace (replace s [10] e) e [10] = s.
Proof. exact replace_inverse. Qed.
Print Assumptions C15_replace_inverse.

(* Bytes payloads are stored verbatim (whatever mode letter and EOL were
   passed) and load back verbatim in binary read mode. *)
Theorem C15_save_load_bytes :
  forall c disk b m eol e,
  mode_kind m = Some MWrite -> encode c eol = Some e ->
  save_file disk (PBytes b) m c eol = Ok (Some b) /\
  forall c' eol', load_file (Some b) [ch_b] c' eol' = Ok (LBytes b).
Proof. exact save_load_bytes. Qed.
Print Assumptions C15_save_load_bytes.

(* A list of lines (no CR / LF inside a line) written through the text path
   with a standard EOL is stored one line per EOL (BOM once, if the codec has
   one and the list is not empty) and load_lines returns exactly those lines. *)
Theorem C15_save_lines_load_lines :
  forall c, good_codec c -> forall disk lines m eol bs,
  mode_kind m = Some MWrite -> mem_chr ch_b (norm_mode m) = false -> std_eol eol = true ->
  Forall line_ok lines ->
  enc_chars c (concat (map (fun l => l ++ eol) lines)) = Some bs ->
  let d := (match lines with [] => [] | _ => c_bom c end) ++ bs in
  save_file disk (PList (map IStr lines)) m c eol = Ok (Some d) /\
  load_lines (Some d) [ch_t] c eol = Ok (LLStr lines).
Proof. exact save_lines_load_lines. Qed.
Print Assumptions C15_save_lines_load_lines.

(* The same list through the binary path (a mode with 'b'), any ASCII EOL:
   one line per EOL provided the codec writes no BOM.  (With utf-8-sig every
   chunk gets its own BOM: C15_bom_per_chunk_refuted.) *)
Theorem C15_save_lines_binary_partial :
  forall c, good_codec c -> forall disk lines m eol bs,
  mode_kind m = Some MWrite -> mem_chr ch_b (norm_mode m) = true -> ascii eol ->
  c_bom c = [] ->
  enc_chars c (concat (map (fun l => l ++ eol) lines)) = Some bs ->
  save_file disk (PList (map IStr lines)) m c eol = Ok (Some bs).
Proof. exact save_lines_binary. Qed.
Print Assumptions C15_save_lines_binary_partial.

(* ... and for a standard EOL load_lines returns exactly those lines. *)
Theorem C15_save_lines_binary_load_lines_partial :
  forall c, good_codec c -> forall disk lines m eol bs,
  mode_kind m = Some MWrite -> mem_chr ch_b (norm_mode m) = true -> std_eol eol = true ->
  c_bom c = [] -> Forall line_ok lines ->
  enc_chars c (concat (map (fun l => l ++ eol) lines)) = Some bs ->
  save_file disk (PList (map IStr lines)) m c eol = Ok (Some bs) /\
  load_lines (Some bs) [ch_t] c eol = Ok (LLStr lines).
Proof. exact save_lines_binary_load_lines. Qed.
Print Assumptions C15_save_lines_binary_load_lines_partial.

(* A dict payload is stored as its "key=value" lines joined by "\n", i.e. as
   that text (to which C15_save_load_text applies). *)
Theorem C15_save_dict :
  forall c disk kvs m eol,
  save_file disk (PDict kvs) m c eol = save_file disk (PStr (dict_text kvs)) m c eol.
Proof. exact save_dict. Qed.
Print Assumptions C15_save_dict.

(* A list of bytes lines through the binary path (a mode with 'b' or a custom
   EOL): each line verbatim followed by the EOL, for BOM-less codecs. *)
Theorem C15_save_bytes_lines_partial :
  forall c, good_codec c -> forall disk ls m eol,
  mode_kind m = Some MWrite -> ascii eol -> c_bom c = [] ->
  mem_chr ch_b (norm_mode m) || negb (std_eol eol) = true ->
  save_file disk (PList (map IBytes ls)) m c eol = Ok (Some (concat (map (fun b => b ++ eol) ls))).
Proof. exact save_bytes_lines. Qed.
Print Assumptions C15_save_bytes_lines_partial.

(* Append mode (at ab a a+ at+ ab+) adds to the existing content: bytes
   verbatim; text as its encoding with the EOL substituted, preceded by the
   codec's BOM or by nothing. *)
Theorem C15_append_adds_bytes :
  forall c disk b m eol e,
  mode_kind m = Some MAppend -> encode c eol = Some e ->
  save_file disk (PBytes b) m c eol = Ok (Some (content disk ++ b)).
Proof. exact append_adds_bytes. Qed.
Print Assumptions C15_append_adds_bytes.

Theorem C15_append_adds_text :
  forall c, good_codec c -> forall disk s m eol bs0,
  mode_kind m = Some MAppend -> ascii eol -> enc_chars c s = Some bs0 ->
  exists pre w, (pre = [] \/ pre = c_bom c) /\
    enc_chars c (replace s [LF] eol) = Some w /\
    save_file disk (PStr s) m c eol = Ok (Some (content disk ++ pre ++ w)).
Proof. exact append_adds_text. Qed.
Print Assumptions C15_append_adds_text.

(* Durability in the model: written data reach the file when the handle is
   closed.  All theorems above are about [save_file] = the variant that closes
   before returning (the repaired code); the variant that returns without
   closing leaves on disk only what was there when the handle was opened.
   partial: "the kernel has the data" beyond close() is outside the model. *)
Theorem C15_unclosed_keeps_nothing_partial :
  forall c disk p m eol d,
  save_file_gen false disk p m c eol = Ok d -> d = Some [] \/ d = Some (content disk).
Proof. exact unclosed_keeps_nothing. Qed.
Print Assumptions C15_unclosed_keeps_nothing_partial.

(* Overwriting is complete: in every truncating mode of the quantifier the
   outcome of save_file - the bytes on disk, or the exception - is the same
   whatever the file held before (missing, empty, shorter, longer): every
   payload kind, codec and EOL. *)
Theorem C15_overwrite_ignores_previous :
  forall close d1 d2 p m c eol,
  mode_kind m = Some MWrite ->
  save_file_gen close d1 p m c eol = save_file_gen close d2 p m c eol.
Proof. exact overwrite_ignores_previous. Qed.
Print Assumptions C15_overwrite_ignores_previous.

(* ... and in any mode the previous file matters only through its bytes (a
   missing file and an empty one are indistinguishable) *)
Theorem C15_save_depends_on_content_only :
  forall close d1 d2 p m c eol,
  content d1 = content d2 ->
  save_file_gen close d1 p m c eol = save_file_gen close d2 p m c eol.
Proof. exact save_depends_on_content_only. Qed.
Print Assumptions C15_save_depends_on_content_only.

(* The hypotheses on the codec are satisfiable by the codecs the correspondence
   check validates against CPython. *)
Theorem C15_codecs_good : good_codec utf8 /\ good_codec utf8sig /\ good_codec latin1 /\ good_codec cp1252.
Proof. exact (conj utf8_good (conj utf8sig_good (conj latin1_good cp1252_good))). Qed.
Print Assumptions C15_codecs_good.

(* Non-vacuity: concrete modes, EOLs and a text with non-ASCII characters and
   consecutive newlines meet the guards, with the computed file contents. *)
Theorem C15_nonvacuous :
  let s := [97; 10; 233; 8364; 10; 10; 98] in
  mode_kind [ch_w; ch_t] = Some MWrite /\ mode_kind [ch_b] = Some MWrite /\
  eol_ok [CR; LF] s = true /\ eol_ok [60; 69; 79; 76; 62] s = true /\ eol_ok [LF; CR] s = true /\
  (exists bs, enc_chars utf8 s = Some bs) /\
  save_file None (PStr s) [ch_w; ch_t] utf8 [CR; LF]
    = Ok (Some [97; 13; 10; 195; 169; 226; 130; 172; 13; 10; 13; 10; 98]) /\
  save_file (Some [1]) (PStr s) [ch_b] utf8sig [60; 69; 79; 76; 62]
    = Ok (Some [239; 187; 191; 97; 60; 69; 79; 76; 62; 195; 169; 226; 130; 172; 60; 69; 79; 76; 62; 60; 69; 79; 76; 62; 98]) /\
  load_file (Some [239; 187; 191; 97; 60; 69; 79; 76; 62; 195; 169; 226; 130; 172; 60; 69; 79; 76; 62; 60; 69; 79; 76; 62; 98])
    [ch_t] utf8sig [60; 69; 79; 76; 62] = Ok (LStr s) /\
  Forall line_ok [[97]; []; [233]] /\
  load_lines (Some [97; 13; 13; 233; 13]) [ch_t] latin1 [CR] = Ok (LLStr [[97]; []; [233]]).
Proof. exact c15_example. Qed.
Print Assumptions C15_nonvacuous.
