(* Props/C06.v — property theorems only (grows as the proofs land). *)
From Coq Require Import List NArith ZArith.
From N0 Require Import Base.PyStr Base.PyVal Xpath.Dec Xpath.Token Xpath.Find.
Import ListNotations.

(* aggregation of a fan-out: with return_lists the matches come back as a list in order;
   without, a single match is unwrapped *)
Theorem C06_agg_lists : forall vals, agg true vals = Lst true vals.
Proof. intros [|v [|w r]]; reflexivity. Qed.
Print Assumptions C06_agg_lists.
