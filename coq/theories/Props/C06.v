(* Props/C06.v — property theorems only. *)
From Coq Require Import List NArith ZArith.
From N0 Require Import Base.PyStr Base.PyVal Xpath.Dec Xpath.DecProofs Xpath.Token Xpath.TokenProofs
  Xpath.Find Xpath.FindProofs Xpath.Write Xpath.SpecProofs Xpath.WalkProofs Xpath.FanoutProofs.
Import ListNotations.

(* For a list of dict records reached by a concrete path P, 'P/[*]/f' returns the values
   of f of exactly the records that have f, in list order (select_all), as a list for
   item access / get and unwrapped when single for first (agg); when no record has f the
   path is a miss (IndexError on item access, the default otherwise); the tree is
   returned unchanged. *)
Theorem C06_fanout_star :
  forall fuel root x re rl dflt toks p c items fk f,
  has_path_char x = true -> tokenize x = toks ++ [br s_star; fk] ->
  walk root toks p (Lst c items) -> all_records items ->
  split_name_index fk = Ok (f, IdxNone) -> plain_key f ->
  2 * length toks + 3 <= fuel ->
  dict_get_core fuel root x re rl dflt = Ok (root, fanout_result re rl dflt (select_all f items)).
Proof. exact fanout_lookup. Qed.
Print Assumptions C06_fanout_star.

(* the shorthand 'P/f' (a name applied to a list) selects the same *)
Theorem C06_fanout_shorthand :
  forall fuel root x re rl dflt toks p c items fk f,
  has_path_char x = true -> tokenize x = toks ++ [fk] ->
  walk root toks p (Lst c items) -> all_records items ->
  split_name_index fk = Ok (f, IdxNone) -> plain_key f ->
  2 * length toks + 4 <= fuel ->
  dict_get_core fuel root x re rl dflt = Ok (root, fanout_result re rl dflt (select_all f items)).
Proof. exact fanout_shorthand_lookup. Qed.
Print Assumptions C06_fanout_shorthand.

Theorem C06_agg_lists : forall vals, agg true vals = Lst true vals.
Proof. exact agg_lists. Qed.
Print Assumptions C06_agg_lists.

Theorem C06_first_unwraps_single : forall v, unwrap_single (LVal (agg false [v])) = unwrap_single (LVal v).
Proof. exact first_single. Qed.
Print Assumptions C06_first_unwraps_single.

Theorem C06_nonvacuous :
  all_records ex_recs /\ select_all [102]%N ex_recs = [Leaf (SInt 1); Leaf (SInt 3)] /\
  dict_get_core (fuel_for ex_froot ex_fx) ex_froot ex_fx true true LDefault
  = Ok (ex_froot, LVal (Lst true [Leaf (SInt 1); Leaf (SInt 3)])).
Proof. exact fanout_example. Qed.
Print Assumptions C06_nonvacuous.
