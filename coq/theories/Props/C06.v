(* Props/C06.v — property theorems only. *)
From Coq Require Import List NArith ZArith.
From N0 Require Import Base.PyStr Base.PyVal Xpath.Dec Xpath.DecProofs Xpath.Token Xpath.TokenProofs
  Xpath.Find Xpath.FindProofs Xpath.Write Xpath.SpecProofs Xpath.WalkProofs Xpath.TokenizeProofs Xpath.EnumProofs
  Xpath.FstrProofs Xpath.FanoutProofs Xpath.PredProofs Xpath.PredOpsProofs Xpath.PredNameOpsProofs Xpath.TextSpellProofs Xpath.ListRootProofs.
Import ListNotations.

(* For a list of dict records reached by a concrete path P, 'P/[*]/f' returns the values
   of f of exactly the records that have f, in list order (select_all), as a list for
   item access / get and unwrapped when single for first (agg); when no record has f the
   path is a miss (IndexError on item access, the default otherwise); the tree is
   returned unchanged. *)
Theorem C06_fanout_star :
  forall fuel root x re rl dflt toks p c items fk f,
  has_path_char x = true -> tokenize x = toks ++ [br s_star; fk] ->
  walk root toks p (Lst c items) -> all_records items ->
  split_name_index fk = Ok (f, IdxNone) -> plain_key f ->
  2 * length toks + 3 <= fuel ->
  dict_get_core fuel root x re rl dflt = Ok (root, fanout_result re rl dflt (select_all f items)).
Proof. exact fanout_lookup. Qed.
Print Assumptions C06_fanout_star.

(* the shorthand 'P/f' (a name applied to a list) selects the same *)
Theorem C06_fanout_shorthand :
  forall fuel root x re rl dflt toks p c items fk f,
  has_path_char x = true -> tokenize x = toks ++ [fk] ->
  walk root toks p (Lst c items) -> all_records items ->
  split_name_index fk = Ok (f, IdxNone) -> plain_key f ->
  2 * length toks + 4 <= fuel ->
  dict_get_core fuel root x re rl dflt = Ok (root, fanout_result re rl dflt (select_all f items)).
Proof. exact fanout_shorthand_lookup. Qed.
Print Assumptions C06_fanout_shorthand.

(* 'P[k=v]/f' (the predicate on the name token) and 'P/[k=v]/f': for a non-empty list of dict
   records reached by a concrete path P from the root, the result is f of exactly the
   records whose k equals the literal v (rec_select: records without k select nothing; the
   literal is converted to the field's numeric type; each matching record contributes its f
   if it has one), in list order; a miss when nothing is selected; the tree is unchanged.
   The proof follows the resolver through the rewrite [k=v] -> k/[text()==v]/.. and the
   re-resolution of the found path by the '..' step (found-path invariant, FstrProofs). *)
Theorem C06_predicate_eq_on_name :
  forall fuel root x re rl dflt toks0 p0 c0 kvs0 segs0 name c r0 items yk fk k f v,
  keys_good root ->
  has_path_char x = true -> tokenize x = toks0 ++ [yk; fk] ->
  walks root toks0 p0 (Dict c0 kvs0) segs0 ->
  split_name_index yk = Ok (name, IdxPred k op_eq (PvStr v)) ->
  split_name_index name = Ok (name, IdxNone) -> plain_key name ->
  lookup name kvs0 = Some (Lst c (r0 :: items)) ->
  pstr_eqb k s_text = false -> clean_lit v -> quoted_pred_ok k v ->
  split_name_index fk = Ok (f, IdxNone) -> plain_key f ->
  all_selectable k f v (r0 :: items) ->
  2 * length toks0 + 2 * (length segs0 + 2) + 12 <= fuel ->
  dict_get_core fuel root x re rl dflt =
  Ok (root, fanout_result re rl dflt (flat_map (sel_list (rec_select k f v)) (r0 :: items))).
Proof. exact pred_lookup_name. Qed.
Print Assumptions C06_predicate_eq_on_name.

Theorem C06_predicate_eq_step :
  forall fuel root x re rl dflt toks p c r0 items segs y fk k f v,
  keys_good root ->
  has_path_char x = true -> tokenize x = toks ++ [y; fk] ->
  walks root toks p (Lst c (r0 :: items)) segs ->
  split_name_index y = Ok ([], IdxPred k op_eq (PvStr v)) -> pstr_eqb k s_text = false -> clean_lit v ->
  split_name_index fk = Ok (f, IdxNone) -> plain_key f ->
  all_selectable k f v (r0 :: items) ->
  2 * length toks + 2 * (length segs + 1) + 10 <= fuel ->
  dict_get_core fuel root x re rl dflt =
  Ok (root, fanout_result re rl dflt (flat_map (sel_list (rec_select k f v)) (r0 :: items))).
Proof. exact pred_lookup. Qed.
Print Assumptions C06_predicate_eq_step.

(* The explicit spelling 'P/k[text()=v]/../f' (the statement's "equivalent" form): a name step on the record list
   fans out, k[text()=v] tests the field of each record (the resolver rewrites it into the quoted step
   [text()=='v'] below the field), '..' re-resolves the found path back to the record, f is looked up there:
   exactly the selection of P[k=v]/f (rec_select), in order; a miss when nothing is selected; tree unchanged. *)
Theorem C06_text_spelling :
  forall fuel root x re rl dflt toks p c r0 items segs yk fk k f v,
  keys_good root ->
  has_path_char x = true -> tokenize x = toks ++ [yk; s_dotdot; fk] ->
  walks root toks p (Lst c (r0 :: items)) segs ->
  split_name_index yk = Ok (k, IdxPred s_text op_eq (PvStr v)) -> plain_key k -> quoted_pred_ok s_text v ->
  split_name_index fk = Ok (f, IdxNone) -> plain_key f ->
  all_selectable k f v (r0 :: items) ->
  2 * length toks + 2 * (length segs + 1) + 10 <= fuel ->
  dict_get_core fuel root x re rl dflt =
  Ok (root, fanout_result re rl dflt (flat_map (sel_list (rec_select k f v)) (r0 :: items))).
Proof. exact text_spelling_lookup. Qed.
Print Assumptions C06_text_spelling.

Theorem C06_text_spelling_nonvacuous :
  quoted_pred_ok s_text [97]%N /\
  split_name_index [107; 91; 116; 101; 120; 116; 40; 41; 61; 97; 93]%N = Ok ([107]%N, IdxPred s_text op_eq (PvStr [97]%N)) /\
  dict_get_core (fuel_for pr_root pr_x_text) pr_root pr_x_text true true LDefault
  = Ok (pr_root, LVal (Lst true [Leaf (SInt 1); Leaf (SInt 3)])).
Proof. exact text_spelling_example. Qed.
Print Assumptions C06_text_spelling_nonvacuous.

(* A predicate after a predicate, the statement's own example shape 'orders[id=2]/items[k1=B]/f': the nested list of
   per-parent selections (since the "fix:" commit 2fc3539; before it this very input was the witness of the recorded
   finding C06/chained-selection - the model, like the code, answered with a miss).  An example, not a theorem about
   all inputs: chained selections are carried by the correspondence and the oracle. *)
Theorem C06_chained_example :
  dict_get_pub (fuel_for ch_orders ch_xp) ch_orders ch_xp = Ok (ch_orders, LVal (Lst true [Lst true [Leaf (SStr [51%N])]])).
Proof. exact chained_example. Qed.
Print Assumptions C06_chained_example.

(* Below an element of a list-rooted container.  '[i]/rest' on a list root whose element i is a dictionary answers
   exactly what 'rest' answers on that dictionary, and leaves the list as it is when the element is left as it is:
   every theorem of this file (and of C01 / C04) about dict-rooted lookups transfers to records reached through an
   index of a list root, whatever the index (since the "fix:" commit 1eca224; before it this held for element 0 only -
   '..', which every key predicate uses, re-resolved '[i]' inside the element). *)
Theorem C06_list_root_reduces :
  forall fuel c items x x' y0 si z i c' kvs re rl dflt r,
  has_path_char x = true -> has_path_char x' = true ->
  tokenize x = y0 :: tokenize x' -> tokenize x' <> [] ->
  split_name_index y0 = Ok ([], IdxStr si) -> plain_idx si -> n0eval si = EvInt z ->
  norm_idx (length items) z = Some i -> nth_error items i = Some (Dict c' kvs) ->
  dict_get_core fuel (Dict c' kvs) x' re rl dflt = Ok (Dict c' kvs, r) ->
  list_get_core (S fuel) (Lst c items) x re rl dflt = Ok (Lst c items, r).
Proof. exact list_root_reduces_pure. Qed.
Print Assumptions C06_list_root_reduces.

Theorem C06_list_root_nonvacuous :
  tokenize lr_x = [91; 49; 93]%N :: tokenize pr_x /\ tokenize pr_x <> [] /\
  split_name_index [91; 49; 93]%N = Ok ([], IdxStr [49]%N) /\ n0eval [49]%N = EvInt 1 /\
  list_get_core (S (fuel_for pr_root pr_x)) lr_root lr_x true true LDefault
  = Ok (lr_root, LVal (Lst true [Leaf (SInt 1); Leaf (SInt 3)])).
Proof. exact list_root_example. Qed.
Print Assumptions C06_list_root_nonvacuous.

(* A record list that is empty: a predicate step on it is a miss for that list and nothing else (since the
   "fix:" commit 20793f6; before it the step raised IndexError there, which left an enclosing fan-out loop and
   lost the selections of the sibling parents: orders/items[k=v]/f with one order's items == []). *)
Theorem C06_predicate_on_empty_list_is_miss :
  forall fuel root x re rl dflt toks p c segs y rest k op v,
  has_path_char x = true -> tokenize x = toks ++ y :: rest ->
  walks root toks p (Lst c []) segs ->
  split_name_index y = Ok ([], IdxPred k op v) -> pstr_eqb k s_text = false ->
  2 * length toks + 1 <= fuel ->
  dict_get_core fuel root x re rl dflt = Ok (root, if re then LRaise ExIndex else dflt).
Proof. exact pred_lookup_empty. Qed.
Print Assumptions C06_predicate_on_empty_list_is_miss.

Theorem C06_predicate_step_on_empty_list :
  forall rl f root y rest par c fstr k op v,
  split_name_index y = Ok ([], IdxPred k op v) -> pstr_eqb k s_text = false ->
  find true rl (S f) root (y :: rest) par (Lst c []) fstr =
  Ok (root, false, mkF par (Lst c []) None None fstr (Some (y :: rest))).
Proof. exact find_pred_empty. Qed.
Print Assumptions C06_predicate_step_on_empty_list.

(* The three operators of the statement, for the step spelling 'P/[k op v]/f': '=' selects the records whose k
   equals v, '!=' those whose k differs (records without k select nothing), '~' those whose k contains v
   (pred_test: lit_eq, its negation, lit_in); same conclusion as above. *)
Theorem C06_predicate_ops_step :
  forall o fuel root x re rl dflt toks p c r0 items segs y fk k f v,
  keys_good root ->
  has_path_char x = true -> tokenize x = toks ++ [y; fk] ->
  walks root toks p (Lst c (r0 :: items)) segs ->
  split_name_index y = Ok ([], IdxPred k (op_str o) (PvStr v)) -> pstr_eqb k s_text = false -> clean_lit_ops v ->
  split_name_index fk = Ok (f, IdxNone) -> plain_key f ->
  all_selectable_op o k f v (r0 :: items) ->
  2 * length toks + 2 * (length segs + 1) + 10 <= fuel ->
  dict_get_core fuel root x re rl dflt =
  Ok (root, fanout_result re rl dflt (flat_map (sel_list (rec_select_op o k f v)) (r0 :: items))).
Proof. exact pred_lookup_op. Qed.
Print Assumptions C06_predicate_ops_step.

(* ... and for the spelling with the predicate on the name token, 'P[k op v]/f': the resolver rewrites it into
   the quoted step [k op 'v'] below the list, which re-parses to the same predicate (quoted_pred_ok_op: k and v over
   the index alphabet, no '!'), for all three operators *)
Theorem C06_predicate_ops_on_name :
  forall o fuel root x re rl dflt toks0 p0 c0 kvs0 segs0 name c r0 items yk fk k f v,
  keys_good root ->
  has_path_char x = true -> tokenize x = toks0 ++ [yk; fk] ->
  walks root toks0 p0 (Dict c0 kvs0) segs0 ->
  split_name_index yk = Ok (name, IdxPred k (op_str o) (PvStr v)) ->
  split_name_index name = Ok (name, IdxNone) -> plain_key name ->
  lookup name kvs0 = Some (Lst c (r0 :: items)) ->
  pstr_eqb k s_text = false -> clean_lit_ops v -> quoted_pred_ok_op o k v ->
  split_name_index fk = Ok (f, IdxNone) -> plain_key f ->
  all_selectable_op o k f v (r0 :: items) ->
  2 * length toks0 + 2 * (length segs0 + 2) + 12 <= fuel ->
  dict_get_core fuel root x re rl dflt =
  Ok (root, fanout_result re rl dflt (flat_map (sel_list (rec_select_op o k f v)) (r0 :: items))).
Proof. exact pred_lookup_name_op. Qed.
Print Assumptions C06_predicate_ops_on_name.

Theorem C06_predicate_ops_on_name_nonvacuous :
  quoted_pred_ok_op OpNe [107]%N [97]%N /\ quoted_pred_ok_op OpHas [107]%N [97]%N /\
  dict_get_core (fuel_for pr_root pr_xn_ne) pr_root pr_xn_ne true true LDefault = Ok (pr_root, LVal (Lst true [Leaf (SInt 2)])) /\
  dict_get_core (fuel_for pr_root pr_xn_has) pr_root pr_xn_has true true LDefault
  = Ok (pr_root, LVal (Lst true [Leaf (SInt 1); Leaf (SInt 3)])).
Proof. exact pred_name_ops_example. Qed.
Print Assumptions C06_predicate_ops_on_name_nonvacuous.

Theorem C06_predicate_ops_nonvacuous :
  clean_lit_ops [97]%N /\
  all_selectable_op OpNe [107]%N [102]%N [97]%N pr_recs /\ all_selectable_op OpHas [107]%N [102]%N [97]%N pr_recs /\
  flat_map (sel_list (rec_select_op OpNe [107]%N [102]%N [97]%N)) pr_recs = [Leaf (SInt 2)] /\
  flat_map (sel_list (rec_select_op OpHas [107]%N [102]%N [97]%N)) pr_recs = [Leaf (SInt 1); Leaf (SInt 3)] /\
  dict_get_core (fuel_for pr_root pr_x_ne) pr_root pr_x_ne true true LDefault = Ok (pr_root, LVal (Lst true [Leaf (SInt 2)])) /\
  dict_get_core (fuel_for pr_root pr_x_has) pr_root pr_x_has true true LDefault
  = Ok (pr_root, LVal (Lst true [Leaf (SInt 1); Leaf (SInt 3)])).
Proof. exact pred_ops_example. Qed.
Print Assumptions C06_predicate_ops_nonvacuous.

(* non-vacuity: r[k=a]/f on four records selects the f of the two whose k is "a" *)
Theorem C06_predicate_nonvacuous :
  keys_good pr_root /\
  all_selectable [107]%N [102]%N [97]%N pr_recs /\
  flat_map (sel_list (rec_select [107]%N [102]%N [97]%N)) pr_recs = [Leaf (SInt 1); Leaf (SInt 3)] /\
  clean_lit [97]%N /\ quoted_pred_ok [107]%N [97]%N /\
  dict_get_core (fuel_for pr_root pr_x) pr_root pr_x true true LDefault
  = Ok (pr_root, LVal (Lst true [Leaf (SInt 1); Leaf (SInt 3)])).
Proof. exact pred_example. Qed.
Print Assumptions C06_predicate_nonvacuous.

Theorem C06_agg_lists : forall vals, agg true vals = Lst true vals.
Proof. exact agg_lists. Qed.
Print Assumptions C06_agg_lists.

Theorem C06_first_unwraps_single : forall v, unwrap_single (LVal (agg false [v])) = unwrap_single (LVal v).
Proof. exact first_single. Qed.
Print Assumptions C06_first_unwraps_single.

Theorem C06_nonvacuous :
  all_records ex_recs /\ select_all [102]%N ex_recs = [Leaf (SInt 1); Leaf (SInt 3)] /\
  dict_get_core (fuel_for ex_froot ex_fx) ex_froot ex_fx true true LDefault
  = Ok (ex_froot, LVal (Lst true [Leaf (SInt 1); Leaf (SInt 3)])).
Proof. exact fanout_example. Qed.
Print Assumptions C06_nonvacuous.
