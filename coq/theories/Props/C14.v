(* Props/C14.v — property theorems only.
   Model: Files/CsvFile.v (load_csv: option normalisation, header decision,
   records; save_csv = csv.writer per row), on top of Codec/Csv.v (the line
   parser of C13), Files/Bytes.v and Files/SaveLoad.v (codecs, text layer). *)
From Coq Require Import List NArith.
From N0 Require Import Base.PyStr Base.PyVal Codec.Csv Codec.CsvProofs
  Files.Bytes Files.Util Files.BytesProofs Files.SaveLoad Files.SaveLoadProofs
  Files.CsvFile Files.CsvFileProofs Files.EmptyChProofs.
Import ListNotations.
Local Open Scope N_scope.

(* ---- the header decision rules, as implications --------------------------------------- *)

(* A mandatory header that is missing (the declared first column name is not the
   first field / some declared mandatory name is not among the fields of the
   first non-empty line) is refused, never consumed as data. *)
Theorem C14_mandatory_missing_refused :
  forall cn h first, header_missing h first = true -> decide cn h true first = Refuse.
Proof. exact mandatory_missing_refused. Qed.
Print Assumptions C14_mandatory_missing_refused.

(* The same line when the header is not mandatory: data, keyed by the caller's
   names if given, else by position. *)
Theorem C14_optional_missing_is_data :
  forall cn h first, header_missing h first = true ->
  decide cn h false first =
  IsData (match cn with Some l => map KT l | None => map KInt (seq 0 (length first)) end).
Proof. exact optional_missing_is_data. Qed.
Print Assumptions C14_optional_missing_is_data.

(* Header taken from the file. *)
Theorem C14_header_from_file :
  forall first, has_dup_t first = false ->
  decide None HNone true first = IsHeader (map KT first) (map KT first).
Proof. exact header_from_file. Qed.
Print Assumptions C14_header_from_file.

(* Without a header records are keyed by position. *)
Theorem C14_no_header_positional :
  forall first, decide None HNone false first = IsData (map KInt (seq 0 (length first))).
Proof. exact no_header_positional. Qed.
Print Assumptions C14_no_header_positional.

(* Names given by the caller, first line not recognisable as header: keyed by
   the caller's names. *)
Theorem C14_names_by_caller :
  forall l first x, first_missing l first = Some x -> t_truthy x = true ->
  decide (Some l) (HList l) false first = IsData (map KT l).
Proof. exact names_by_caller. Qed.
Print Assumptions C14_names_by_caller.

(* Both: all the caller's names occur in the first line: it is the header, and
   the caller's list (any subset, any order) selects the columns. *)
Theorem C14_names_and_header :
  forall l first him, first_missing l first = None -> has_dup_t first = false ->
  decide (Some l) (HList l) him first = IsHeader (map KT first) (map KT l).
Proof. exact names_and_header. Qed.
Print Assumptions C14_names_and_header.

Theorem C14_header_by_first_name :
  forall cn s f0 r him, has_dup_t (f0 :: r) = false -> tstr_eqb f0 (false, s) = true ->
  decide cn (HStr s) him (f0 :: r) =
  IsHeader (map KT (f0 :: r)) (match cn with Some l => map KT l | None => map KT (f0 :: r) end).
Proof. exact header_by_first_name. Qed.
Print Assumptions C14_header_by_first_name.

(* The legacy bool form of contains_header (as repaired) and its conflict rule. *)
Theorem C14_legacy_bool :
  norm_opts None (ChBool true) None = Ok (None, HNone, true) /\
  norm_opts None (ChBool false) None = Ok (None, HNone, false) /\
  forall b, norm_opts None (ChBool b) (Some (negb b)) = Raise ExSyntax.
Proof. exact (conj norm_legacy_true (conj norm_legacy_false norm_legacy_conflict)). Qed.
Print Assumptions C14_legacy_bool.

(* ---- save_csv then load_csv ------------------------------------------------------------- *)
(* Header taken from the file (header_is_mandatory=True, or the legacy
   contains_header=True with or without it): for every delimiter other than the
   quote / CR / LF, EOL LF or CRLF, every good codec (BOM or not), every table
   with a non-empty header of unique names, rows of any length (blank rows
   included) and cells free of CR / LF: load_csv yields one record per
   non-blank row, in file order, each column name mapped to exactly the saved
   cell, short rows padded with None.
   partial: this is the header-from-file mode; column selection, refusal and
   the header-less mode follow as separate theorems; the first-name / mandatory-
   list forms of contains_header end to end, read_mode 'b', strip options and
   agreement with csv.reader are covered by the decision theorems plus
   correspondence / oracle only. *)
Theorem C14_load_save_partial :
  forall d, d <> Q -> nocrlf d -> forall k, good_codec (codec_of k) ->
  forall eol, eol = [SaveLoad.LF] \/ eol = [SaveLoad.CR; SaveLoad.LF] ->
  forall H (rows : list (list pstr)) ch him bs,
  (ch = ChNone /\ him = Some true) \/ (ch = ChBool true /\ (him = None \/ him = Some true)) ->
  ascii_delim d = true -> H <> [] -> NoDup H -> cells_ok H -> Forall cells_ok rows ->
  enc_chars (codec_of k) (csv_text d eol (map (map Some) (H :: rows))) = Some bs ->
  save_csv H (map (map Some) rows) (codec_of k) eol d = Ok (c_bom (codec_of k) ++ bs) /\
  load_csv (Some (c_bom (codec_of k) ++ bs)) (read_opts d k None ch him) =
  Ok (map (row_record H) (filter nonblank rows)).
Proof. exact load_save_header_from_file. Qed.
Print Assumptions C14_load_save_partial.

(* Both: the caller's names (any non-empty duplicate-free list of names that all
   occur in the file's header, any order, free of xpath syntax) select exactly
   those columns in the requested order, whatever header_is_mandatory: each
   record is [select names (record of the row)].  [written d k eol H rows bs]
   = bs is the encoding of the csv.writer lines of header and rows. *)
Theorem C14_load_save_select :
  forall d, d <> Q -> nocrlf d -> forall k, good_codec (codec_of k) ->
  forall eol, eol = [SaveLoad.LF] \/ eol = [SaveLoad.CR; SaveLoad.LF] ->
  forall H (rows : list (list pstr)) (l : list pstr) him bs,
  ascii_delim d = true -> table_ok H rows -> written d k eol H rows bs ->
  l <> [] -> NoDup l -> (forall x, In x l -> In x H) -> forallb plain_key (hkeys l) = true ->
  load_csv (Some (c_bom (codec_of k) ++ bs)) (read_opts d k (Some (map ty l)) ChNone him) =
  Ok (map (fun r => select (hkeys l) (row_record H r)) (filter nonblank rows)).
Proof. exact load_save_select. Qed.
Print Assumptions C14_load_save_select.

(* A mandatory header that is missing is refused end to end (ReferenceError),
   not consumed as data: some requested (non-empty) name is not in the file's
   first line. *)
Theorem C14_load_refuses_missing :
  forall d, d <> Q -> nocrlf d -> forall k, good_codec (codec_of k) ->
  forall eol, eol = [SaveLoad.LF] \/ eol = [SaveLoad.CR; SaveLoad.LF] ->
  forall H (rows : list (list pstr)) (l : list pstr) bs,
  ascii_delim d = true -> table_ok H rows -> written d k eol H rows bs ->
  NoDup l -> Forall (fun n => n <> []) l -> (exists x, In x l /\ ~ In x H) ->
  load_csv (Some (c_bom (codec_of k) ++ bs)) (read_opts d k (Some (map ty l)) ChNone (Some true)) = Raise ExOther.
Proof. exact load_refuses_missing. Qed.
Print Assumptions C14_load_refuses_missing.

(* Without a header (nothing declared, or the legacy contains_header=False)
   every non-blank line, the first included, is a record keyed by position,
   short lines padded with None; the width is that of the first line. *)
Theorem C14_load_save_positional :
  forall d, d <> Q -> nocrlf d -> forall k, good_codec (codec_of k) ->
  forall eol, eol = [SaveLoad.LF] \/ eol = [SaveLoad.CR; SaveLoad.LF] ->
  forall (r0 : list pstr) (rows : list (list pstr)) ch him bs,
  ch = ChNone \/ ch = ChBool false -> him = None \/ him = Some false ->
  ascii_delim d = true -> r0 <> [] -> cells_ok r0 -> Forall cells_ok rows ->
  enc_chars (codec_of k) (concat (map (fun r => gen_w d r ++ eol) (r0 :: rows))) = Some bs ->
  load_csv (Some (c_bom (codec_of k) ++ bs)) (read_opts d k None ch him) =
  Ok (map (rec_of (map KInt (seq 0 (length r0)))) (r0 :: filter nonblank rows)).
Proof. exact load_save_positional. Qed.
Print Assumptions C14_load_save_positional.

(* ---- file variants ------------------------------------------------------------------------ *)
(* LF and CRLF files give identical results in text mode: every text without
   CR, every option set, every good codec.  partial: binary read mode is
   covered by correspondence (sibling cases) only. *)
Theorem C14_lf_crlf_same_partial :
  forall (o : opts) T b1 b2,
  o_binary o = false -> good_codec (codec_of (o_codec o)) -> ~ In SaveLoad.CR T ->
  enc_chars (codec_of (o_codec o)) T = Some b1 ->
  enc_chars (codec_of (o_codec o)) (expand one [SaveLoad.CR; SaveLoad.LF] T) = Some b2 ->
  load_csv (Some (c_bom (codec_of (o_codec o)) ++ b2)) o =
  load_csv (Some (c_bom (codec_of (o_codec o)) ++ b1)) o.
Proof. exact lf_crlf_same. Qed.
Print Assumptions C14_lf_crlf_same_partial.

(* With or without a UTF-8 BOM (utf-8-sig, the default encoding of load_csv),
   text mode; b is the file without BOM (it does not start with a BOM and is not
   a proper prefix of one, which CPython's incremental decoder reads as "")
   and is well-formed UTF-8. *)
Theorem C14_bom_same :
  forall (o : opts) b s,
  o_binary o = false -> o_codec o = 1 -> startswith b BOM = false -> bom_prefix b = false ->
  utf8_dec b = Some s ->
  load_csv (Some (BOM ++ b)) o = load_csv (Some b) o.
Proof. exact bom_same. Qed.
Print Assumptions C14_bom_same.

(* Non-vacuity: a concrete table (quoted cells, a blank row, a short row, a
   non-ASCII cell) meets the hypotheses, with the computed file and records;
   and a concrete mandatory-header-missing case is refused. *)
Theorem C14_nonvacuous :
  let H := [[65]; [66]] in
  let rows := [[[120; 44; 121]; [34; 113]]; []; [[233]]] in
  (exists bs, enc_chars utf8 (csv_text 44 [13; 10] (map (map Some) (H :: rows))) = Some bs) /\
  save_csv H (map (map Some) rows) utf8 [13; 10] 44 =
    Ok [65; 44; 66; 13; 10; 34; 120; 44; 121; 34; 44; 34; 34; 34; 113; 34; 13; 10; 13; 10; 195; 169; 13; 10] /\
  load_csv (Some [65; 44; 66; 13; 10; 34; 120; 44; 121; 34; 44; 34; 34; 34; 113; 34; 13; 10; 13; 10; 195; 169; 13; 10])
           (read_opts 44 0 None ChNone (Some true)) =
    Ok [row_record H [[120; 44; 121]; [34; 113]]; row_record H [[233]]] /\
  row_record H [[233]] = [(KT (false, [65]), Some (false, [233])); (KT (false, [66]), None)] /\
  header_missing (HList [(false, [65]); (false, [90])]) [(false, [65]); (false, [66])] = true /\
  load_csv (Some [65; 44; 66; 10; 49; 44; 50; 10])
           (read_opts 44 1 (Some [(false, [65]); (false, [90])]) ChNone (Some true)) = Raise ExOther.
Proof. exact c14_example. Qed.
Print Assumptions C14_nonvacuous.

(* contains_header given as an empty list (or an empty string) is as good as not given: the whole load - records or
   exception - is the same, for every file and every combination of the other options (with_ch o ch = o with its
   contains_header replaced by ch) *)
Theorem C14_empty_contains_header_is_none :
  forall disk o,
  load_csv disk (with_ch o (ChList [])) = load_csv disk (with_ch o ChNone) /\
  load_csv disk (with_ch o (ChStr [])) = load_csv disk (with_ch o ChNone).
Proof. exact empty_contains_header_is_none. Qed.
Print Assumptions C14_empty_contains_header_is_none.
