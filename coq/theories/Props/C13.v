(* Props/C13.v — property theorems only. *)
From Coq Require Import List NArith.
From N0 Require Import Base.PyStr Base.PyVal Codec.Csv Codec.CsvProofs Codec.CsvInjective.
Import ListNotations.

(* Parsing the line produced by the library's row generator returns exactly the
   original fields: every single-character delimiter other than the quote and
   CR/LF, every non-empty row of fields free of CR/LF (delimiters, quotes at
   any position, empty fields, any other code point allowed), every trailing
   run of CR/LF.  str and bytes lines are the same machine over code points /
   byte values. *)
Theorem C13_parse_gen :
  forall d, d <> Q -> forall row eol,
  nocrlf d -> row <> [] -> Forall (Forall nocrlf) row -> is_eol eol ->
  parse_line d (gen_row d row eol) = Some row.
Proof. exact parse_gen. Qed.
Print Assumptions C13_parse_gen.

(* The same for the line written by csv.writer with minimal quoting (as
   modelled by gen_w, validated against the real csv module on every run). *)
Theorem C13_parse_csv_writer :
  forall d, d <> Q -> forall row eol,
  nocrlf d -> row <> [] -> Forall (Forall nocrlf) row -> is_eol eol ->
  parse_line d (gen_w d row ++ eol) = Some row.
Proof. exact parse_gen_w. Qed.
Print Assumptions C13_parse_csv_writer.

(* The number of parsed fields equals the number written. *)
Theorem C13_field_count :
  forall d, d <> Q -> forall row eol,
  nocrlf d -> row <> [] -> Forall (Forall nocrlf) row -> is_eol eol ->
  exists fs, parse_line d (gen_row d row eol) = Some fs /\ length fs = length row.
Proof. exact parse_gen_length. Qed.
Print Assumptions C13_field_count.

(* Non-vacuity: a concrete row with every critical feature meets the hypotheses. *)
Theorem C13_nonvacuous :
  let row := [[97; 44; 34]; []; [34; 97]; [97; 34]; [233; 32; 39]]%N in
  parse_line 44 (gen_row 44 row [CR; LF]) = Some row /\
  parse_line 44 (gen_w 44 row ++ [LF]) = Some row.
Proof. exact parse_gen_example. Qed.
Print Assumptions C13_nonvacuous.

(* Unambiguity: a generated line determines its fields.  Two rows written as the
   same line - by the library's generator with any line endings, or one by the
   generator and one by csv.writer - are the same row. *)
Theorem C13_gen_row_injective :
  forall d, d <> Q -> forall r1 r2 e1 e2,
  nocrlf d -> r1 <> [] -> r2 <> [] -> Forall (Forall nocrlf) r1 -> Forall (Forall nocrlf) r2 ->
  is_eol e1 -> is_eol e2 ->
  gen_row d r1 e1 = gen_row d r2 e2 -> r1 = r2.
Proof. exact gen_row_injective. Qed.
Print Assumptions C13_gen_row_injective.

Theorem C13_gen_row_csv_writer_injective :
  forall d, d <> Q -> forall r1 r2 e1 e2,
  nocrlf d -> r1 <> [] -> r2 <> [] -> Forall (Forall nocrlf) r1 -> Forall (Forall nocrlf) r2 ->
  is_eol e1 -> is_eol e2 ->
  gen_row d r1 e1 = gen_w d r2 ++ e2 -> r1 = r2.
Proof. exact gen_row_gen_w_injective. Qed.
Print Assumptions C13_gen_row_csv_writer_injective.
