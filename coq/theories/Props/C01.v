(* Props/C01.v — property theorems only (grows as the proofs land). *)
From Coq Require Import List NArith ZArith.
From N0 Require Import Base.PyStr Base.PyVal.
Import ListNotations.

(* Spec-level statement proved in Base: the resolver spec composes over path concatenation. *)
Theorem C01_resolve_app : forall t p q,
  resolve t (p ++ q) = match resolve t p with Some u => resolve u q | None => None end.
Proof. exact resolve_app. Qed.
Print Assumptions C01_resolve_app.
