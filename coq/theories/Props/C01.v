(* Props/C01.v — property theorems only. *)
From Coq Require Import List NArith ZArith.
From N0 Require Import Base.PyStr Base.PyVal Xpath.Dec Xpath.DecProofs Xpath.Token Xpath.TokenProofs
  Xpath.Find Xpath.FindProofs Xpath.Write Xpath.SpecProofs Xpath.WalkProofs Xpath.TokenizeProofs Xpath.EnumProofs Xpath.ListProofs Xpath.SpellProofs.
Import ListNotations.

(* Every spelling of a node path (one token per step or name[index] tokens; every
   index written forwards i or backwards i-len) resolves, through item access, get
   and first, to the node Python indexing addresses (resolve), and the tree is
   returned unchanged.  Trees: any depth, keys free of '[' that are stripped,
   non-empty and not '..' or '*'. *)
Theorem C01_spelled_path_resolves :
  forall root x p, keys_ok root -> has_path_char x = true -> no_qmark x -> tokenize x <> [] ->
  spells root p (tokenize x) ->
  exists v, resolve root p = Some v /\
    dict_getitem (fuel_for root x) root x = Ok (root, LVal v) /\
    dict_get_pub (fuel_for root x) root x = Ok (root, LVal v) /\
    dict_first (fuel_for root x) root x = Ok (root, unwrap_single (LVal v)).
Proof. exact spelled_path_resolves. Qed.
Print Assumptions C01_spelled_path_resolves.

(* The printed form of any integer is an index token that evaluates to that integer. *)
Theorem C01_index_token_roundtrip :
  forall z, split_name_index (br (dec_of_Z z)) = Ok ([], IdxStr (dec_of_Z z)) /\ n0eval (dec_of_Z z) = EvInt z.
Proof. exact index_token_roundtrip. Qed.
Print Assumptions C01_index_token_roundtrip.

(* An evaluated index addresses the element Python indexing would ... *)
Theorem C01_python_indexing : forall len z i,
  norm_idx len z = Some i <->
  ((0 <= z < Z.of_nat len)%Z /\ Z.of_nat i = z) \/ ((- Z.of_nat len <= z < 0)%Z /\ Z.of_nat i = (z + Z.of_nat len)%Z).
Proof. exact norm_idx_spec. Qed.
Print Assumptions C01_python_indexing.

(* ... and an out-of-range index is a miss: item access raises IndexError, get/first
   give the default, whatever follows the index in the path. *)
Theorem C01_out_of_range_is_miss :
  forall fuel root x re rl dflt toks p c items y rest si z,
  has_path_char x = true -> tokenize x = toks ++ y :: rest ->
  walk root toks p (Lst c items) ->
  split_name_index y = Ok ([], IdxStr si) -> plain_idx si -> n0eval si = EvInt z ->
  (Z.of_nat (length items) <= z \/ z < - Z.of_nat (length items))%Z ->
  2 * length toks + 1 <= fuel ->
  dict_get_core fuel root x re rl dflt = Ok (root, if re then LRaise ExIndex else dflt).
Proof. exact out_of_range_is_miss. Qed.
Print Assumptions C01_out_of_range_is_miss.

(* The enumeration lists every scalar leaf exactly once, in document order, under the
   rendering of its position; rendered positions are pairwise different. *)
Theorem C01_enum_leaves : forall t,
  xpath_enum t = map (fun ps => (s_root ++ render (fst ps), snd ps)) (leaves t).
Proof. exact enum_leaves. Qed.
Print Assumptions C01_enum_leaves.

Theorem C01_leaves_resolve : forall t, wf t -> forall p s, In (p, s) (leaves t) -> resolve t p = Some (Leaf s).
Proof. exact leaves_resolve. Qed.
Print Assumptions C01_leaves_resolve.

(* The string-level statement of the property for dict-rooted trees: every (xpath, value)
   pair listed by the enumeration resolves, through item access, get and first, to that
   very leaf, and the tree comes back unchanged.  Hypotheses: keys unique per dict (wf, which
   Python dicts guarantee) and "good": non-empty, free of '/', '[', ']', no white space at
   either end, not '..' or '*'.  Proof: tokenize = single-pass splitter (for every string),
   rendered positions tokenise to their step tokens, decimal round trip, find_walk. *)
Theorem C01_enumerated_xpaths_resolve : forall c kvs,
  let t := Dict c kvs in
  wf t -> keys_good t ->
  forall xp s, In (xp, s) (xpath_enum t) ->
    dict_getitem (fuel_for t xp) t xp = Ok (t, LVal (Leaf s)) /\
    dict_get_pub (fuel_for t xp) t xp = Ok (t, LVal (Leaf s)) /\
    dict_first (fuel_for t xp) t xp = Ok (t, LVal (Leaf s)).
Proof. exact enumerated_xpaths_resolve. Qed.
Print Assumptions C01_enumerated_xpaths_resolve.

(* ... its hypotheses are met by a concrete tree with a non-empty enumeration *)
Theorem C01_enumerated_nonvacuous :
  wf ex_root /\ keys_good ex_root /\ xpath_enum ex_root <> [] /\
  forall xp s, In (xp, s) (xpath_enum ex_root) ->
    dict_getitem (fuel_for ex_root xp) ex_root xp = Ok (ex_root, LVal (Leaf s)).
Proof. exact enum_example. Qed.
Print Assumptions C01_enumerated_nonvacuous.

(* tokenize is a single-pass splitter, for every string (well- or ill-formed) *)
Theorem C01_tokenize_single_pass : forall x, tokenize x = map strip (filter nonempty (split2 x [] false)).
Proof. exact tokenize_split2. Qed.
Print Assumptions C01_tokenize_single_pass.

(* Non-vacuity: a concrete nested tree, a path through a list of lists written with
   name[index] and a negative index, satisfies every hypothesis above. *)
Theorem C01_nonvacuous :
  exists root x p, keys_ok root /\ has_path_char x = true /\ no_qmark x /\ tokenize x <> [] /\
                   spells root p (tokenize x) /\ resolve root p = Some (Leaf (SInt 7)).
Proof. exact c01_example. Qed.
Print Assumptions C01_nonvacuous.

(* The same holds for list-rooted containers addressed with a leading index: index steps
   through nested lists (every spelling that evaluates to the index), then the dict-rooted
   walk below the first dictionary (n0dict or plain). *)
Theorem C01_list_rooted_resolves : forall root x p v,
  has_path_char x = true -> no_qmark x -> lwalk root (tokenize x) p v ->
  resolve root p = Some v /\
  list_get (fuel_for root x) root x true true = Ok (root, LVal v) /\
  list_get (fuel_for root x) root x false true = Ok (root, LVal v) /\
  list_first (fuel_for root x) root x = Ok (root, unwrap_single (LVal v)).
Proof. exact list_lookup_lwalk. Qed.
Print Assumptions C01_list_rooted_resolves.

(* All five index spellings of the statement — i, i-len, last(), last()-k, a+b with a+b = i — address the
   element Python indexing would (each is an index token that evaluates to an integer z with
   norm_idx len z = Some i), and a path spelled with any mix of them resolves, through item access,
   get and first, to resolve root p. *)
Theorem C01_index_spellings : forall len i si,
  i < len -> idx_spell5 len i si ->
  split_name_index (br si) = Ok ([], IdxStr si) /\ plain_idx si /\
  exists z, n0eval si = EvInt z /\ norm_idx len z = Some i.
Proof. exact idx_spell5_sound. Qed.
Print Assumptions C01_index_spellings.

Theorem C01_all_spellings_resolve :
  forall root x p, keys_ok root -> has_path_char x = true -> no_qmark x -> tokenize x <> [] ->
  spells5 root p (tokenize x) ->
  exists v, resolve root p = Some v /\
    dict_getitem (fuel_for root x) root x = Ok (root, LVal v) /\
    dict_get_pub (fuel_for root x) root x = Ok (root, LVal v) /\
    dict_first (fuel_for root x) root x = Ok (root, unwrap_single (LVal v)).
Proof. exact spelled5_path_resolves. Qed.
Print Assumptions C01_all_spellings_resolve.

Theorem C01_all_spellings_nonvacuous :
  has_path_char sp_x = true /\ no_qmark sp_x /\ tokenize sp_x <> [] /\
  spells5 ex_root ex_p (tokenize sp_x) /\ resolve ex_root ex_p = Some (Leaf (SInt 7)).
Proof. exact spell5_example. Qed.
Print Assumptions C01_all_spellings_nonvacuous.
