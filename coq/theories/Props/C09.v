(* Props/C09.v — property theorems only. *)
From Coq Require Import List NArith ZArith Bool Permutation.
From N0 Require Import Base.PyStr Base.PyVal Compare.Util Compare.Flags Compare.Match Compare.Model
  Compare.Spec Compare.WalkLemmas Compare.VerdictProofs Compare.ReportProofs Compare.SwapProofs Compare.KeyedProofs Compare.CompleteProofs Compare.TransformTypesProofs.
Import ListNotations.

(* Every entry of a report is true of the operands (both walks, every flag state;
   operands of the supported domain with unique keys; no options):
   - a not_equal entry resolves, with the left indexes in a and the right indexes
     in b, to exactly the reported values, which are structurally different;
   - a difftypes entry resolves on the left (and on the right under the ordered
     walk) and its values differ;
   - a unique entry resolves on its own side, and does not resolve on the other
     side when it names a dictionary key or an item of the ordered walk.
   Guard for the unordered walk: no list directly inside a list (the prefix reset
   of line 548); what "no partner" means for its list items is C08. *)
Theorem C09_report_faithful :
  forall fl o m ck a b r,
  quiet o -> good a -> good b -> wf a -> wf b -> walk_guard m a ->
  compare_top fl o m ck a b = Ok r -> Forall (entry_ok m a b) r.
Proof. exact report_faithful. Qed.
Print Assumptions C09_report_faithful.

(* ... and conversely (ordered walk): every place q that resolves in both operands to
   values that differ there — different types, or two scalars of one type with different
   values — is reported, with exactly those values, as a not_equal entry (a difftypes
   entry for a type clash under the check-types flag).  With C09_report_faithful: the
   pairs reported by direct_compare are exactly the common places where the operands
   differ. *)
Theorem C09_direct_complete :
  forall fl o ck a b r,
  quiet o -> good a -> good b -> wf a ->
  compare_top fl o MDirect ck a b = Ok r ->
  forall q u v, q <> [] -> resolve a q = Some u -> resolve b q = Some v -> differ_here u v ->
  In (clash_entry fl (steps_of q) u v) r.
Proof. exact direct_complete. Qed.
Print Assumptions C09_direct_complete.

(* every reported xpath extends the prefix of the walk that produced it by at least
   one step (any options) *)
Theorem C09_entries_below_prefix :
  forall fl o fuel m ck q x y r,
  walk fl o fuel m ck q x y = Ok r -> walk_guard m x -> Forall (extends q) r.
Proof. exact walk_ext. Qed.
Print Assumptions C09_entries_below_prefix.

(* 'differences' has one line per structured entry: the report is the disjoint union
   of the four lists, and without the check-types flag (no 'difftypes' key in the
   result) no entry is of that kind.  The single ordered report is the model's
   representation of the result; the count is compared with len(differences) of the
   implementation on every correspondence case. *)
Theorem C09_one_line_per_entry :
  forall fl o m ck a b r,
  compare_top fl o m ck a b = Ok r ->
  length r = length (filter is_noteq r) + length (filter is_selfuniq r) + length (filter is_otheruniq r)
             + (if f_types fl then length (filter is_difftype r) else 0) /\
  (f_types fl = false -> filter is_difftype r = []).
Proof. exact one_line_per_entry. Qed.
Print Assumptions C09_one_line_per_entry.

(* direct_compare with swapped operands: the report is, up to the order of its entries
   (the dict walk follows the key order of its left operand), the mirror of the
   original one: self_unique and other_unique exchanged, each pair reversed; the
   ordered walk writes no "[i]<>[j]", so xpaths are unchanged (swap_is_mirror).
   For the unordered walk the mirror relation is covered by the oracle only (every
   case is also run with swapped operands). *)
Theorem C09_swap_mirror_direct :
  forall fl o ck a b r r',
  quiet o -> wf a -> wf b ->
  compare_top fl o MDirect ck a b = Ok r -> compare_top fl o MDirect ck b a = Ok r' ->
  Permutation r' (map swap_entry r).
Proof. exact swap_mirror. Qed.
Print Assumptions C09_swap_mirror_direct.

(* non-vacuity: a concrete pair with a changed leaf, a type clash, a removed key, a
   shorter list and a record inside a list meets the hypotheses under both walks *)
Theorem C09_nonvacuous :
  good ex_a /\ good ex_b /\ wf ex_a /\ wf ex_b /\ walk_guard MKeyed ex_a /\
  (exists r, compare_top flags_init no_opts MDirect (PSeq []) ex_a ex_b = Ok r /\ length r = 5) /\
  (exists r, compare_top flags_init no_opts MKeyed (PSeq []) ex_a ex_b = Ok r /\ length r = 6).
Proof. exact faithful_example. Qed.
Print Assumptions C09_nonvacuous.

(* with a transform: when the transformed values of a pair are of different types, the entry written for the pair
   (not_equal; difftypes under the check-types flag) carries the ORIGINAL values x, y - the transform decides
   equality only.  (The same-type case is C10_transform_pair_partial.) *)
Theorem C09_type_clash_under_transform_shows_originals :
  forall fl o rec par ck tp p pd sl sd x y,
  same_type (transformed o tp x) (transformed o tp y) = false ->
  cmp_pair fl o rec par ck tp p pd sl sd x y =
  Ok (if only_ok o par pd then [if f_types fl then DiffType pd x y else NotEq p x y] else []).
Proof. exact transform_pair_types. Qed.
Print Assumptions C09_type_clash_under_transform_shows_originals.

(* non-vacuity: 2.5 against the text "x" under transform ("T", round) *)
Theorem C09_type_clash_under_transform_example :
  transformed tt_opts [47; 84]%N tt_x = Leaf (SInt 2) /\
  same_type (transformed tt_opts [47; 84]%N tt_x) (transformed tt_opts [47; 84]%N tt_y) = false /\
  forall rec, cmp_pair flags_init tt_opts rec PDict (PSeq []) [47; 84]%N [SKey [84]%N] [SKey [84]%N] [] [] tt_x tt_y
              = Ok [NotEq [SKey [84]%N] tt_x tt_y].
Proof. exact transform_types_example. Qed.
Print Assumptions C09_type_clash_under_transform_example.
