(* Props/C11.v — property theorems only (C11: JSON export and load round-trip). *)
From Coq Require Import List NArith ZArith Bool.
From N0 Require Import Base.PyStr Base.PyVal Export.Util Export.Json Export.JsonGrammar Export.JsonProofs Export.JsonScan Export.PruneIdem.
Import ListNotations.

(* For every formatting option record (any integer indent, pairs_in_one_line,
   compress, skip_empty_arrays) and every tree with distinct keys per dictionary
   and no bytes leaf — strings and keys are arbitrary code point lists: quotes,
   backslashes, control and non-ASCII characters included — the text produced by
   to_json is a JSON text (RFC 8259 grammar of Export/JsonGrammar.v) whose value
   is the tree with class tags erased; with skip_empty_arrays, the tree with its
   empty containers dropped (the root stays).  No guard on strings, keys, record
   shapes or depth is left: the six defects found were repaired in the code. *)
Theorem C11_to_json_denotes :
  forall o t, wf t -> no_bytes t = true ->
  json_denotes (to_json o t) (exported (o_skip o) t).
Proof. exact to_json_denotes. Qed.
Print Assumptions C11_to_json_denotes.

(* indent, pairs_in_one_line and compress change the layout only: two option
   records that agree on skip_empty_arrays export texts with a common value. *)
Theorem C11_options_layout_only :
  forall o1 o2 t, wf t -> no_bytes t = true -> o_skip o1 = o_skip o2 ->
  exists v, json_denotes (to_json o1 t) v /\ json_denotes (to_json o2 t) v.
Proof. exact options_layout_only. Qed.
Print Assumptions C11_options_layout_only.

(* every string, as value or key, is quoted into a JSON string denoting exactly it *)
Theorem C11_every_string_quoted :
  forall s, json_value (quote s) (Leaf (SStr s)) /\ chars_denote (json_escape s) s.
Proof. exact (fun s => conj (quote_value s) (escape_denotes s)). Qed.
Print Assumptions C11_every_string_quoted.

(* skip_empty_arrays changes the value only by dropping empty containers: a tree
   without empty containers is exported unchanged, and what is exported has none *)
Theorem C11_skip_drops_only_empties :
  (forall t, no_empty t = true -> exported true t = exported false t) /\
  (forall t t', prune t = Some t' -> no_empty t' = true).
Proof. exact (conj skip_changes_nothing_without_empties prune_no_empty). Qed.
Print Assumptions C11_skip_drops_only_empties.

(* ... and dropping is idempotent: a second skip_empty_arrays pass over what the
   first one left changes nothing (no container becomes empty "late") *)
Theorem C11_skip_idempotent :
  (forall t t', prune t = Some t' -> prune t' = Some t') /\
  (forall t, prune_root (prune_root t) = prune_root t) /\
  (forall t, exported true (prune_root t) = exported true t).
Proof. exact (conj prune_idempotent (conj prune_root_idempotent exported_skip_idempotent)). Qed.
Print Assumptions C11_skip_idempotent.

(* [ext] a necessary condition for being a JSON text at all, as an executable scanner (string
   and escape structure, position of commas, colons and brackets, start of values): every
   text of the grammar passes it, so a text it rejects denotes no value (this is what the
   witnesses of Refuted/C11.v rest on). *)
Theorem C11_scan_necessary :
  forall s t, json_denotes s t -> json_scan s = true.
Proof. exact denotes_scan. Qed.
Print Assumptions C11_scan_necessary.

(* loading (partial): json.loads is an oracle, not modelled; what the constructors add
   — object_pairs_hook=n0dict — changes class tags only, and tags every object n0dict
   (xpath navigation available at every level).  Equality with the standard parser and
   the navigation itself are checked on the implementation by the oracle of the check. *)
Theorem C11_load_hook_partial :
  forall t, erase (hook t) = erase t /\ dicts_n0 (hook t) = true.
Proof. exact (fun t => conj (hook_erase t) (hook_n0 t)). Qed.
Print Assumptions C11_load_hook_partial.

(* Non-vacuity: a tree with every critical feature (quote, backslash, newline, U+0001,
   non-ASCII and astral characters in values and keys, a list of one- and two-key
   records with a missing first key, empty containers, nested lists, a huge integer,
   halves, booleans, None) satisfies the hypotheses, and the model computes its text. *)
Theorem C11_nonvacuous :
  let t := Dict true
    [([107; 34; 92; 10], Leaf (SStr [34; 92; 10; 1; 233; 8364; 128512]));
     ([114], Lst true [Dict true [([120], Leaf (SInt 1))]; Dict false [([121], Leaf (SStr [50]))]; Dict true []]);
     ([101], Lst false [Lst false []; Dict false []]);
     ([110], Lst false [Leaf SNone; Leaf (SBool true); Leaf (SFlt (-3)); Leaf (SInt (-123456789012345678901234567890))])]%N in
  wf t /\ no_bytes t = true /\
  to_json {| o_indent := 0; o_pairs := true; o_compress := true; o_skip := true |} t =
    [123;34;107;92;34;92;92;92;110;34;58;34;92;34;92;92;92;110;92;117;48;48;48;49;233;8364;128512;34;44;
     34;114;34;58;91;123;34;120;34;58;49;125;44;123;34;121;34;58;34;50;34;125;93;44;
     34;110;34;58;91;110;117;108;108;44;116;114;117;101;44;45;49;46;53;44;
     45;49;50;51;52;53;54;55;56;57;48;49;50;51;52;53;54;55;56;57;48;49;50;51;52;53;54;55;56;57;48;93;125]%N.
Proof. exact to_json_example. Qed.
Print Assumptions C11_nonvacuous.
