(* N0xml/Util.v — string / number helpers shared by the n0xml (C18) and the
   dictionary findall (C19) models: decimal rendering of counters (str(int)),
   int(str) for the index spellings the code accepts, character search and
   per-tag counters.  Model helpers and their characterising lemmas only. *)
From Coq Require Import List NArith ZArith Bool Lia.
From N0 Require Import Base.PyStr Base.PyVal.
Import ListNotations.

(* ---- decimal rendering: str(n) for n >= 0 ---------------------------------- *)
(* little-endian digits; fuel = number of bits of n (>= number of digits) *)
Fixpoint ldigits (fuel : nat) (n : N) : list N :=
  match fuel with
  | O => []
  | S f => (n mod 10)%N :: (if (n / 10 =? 0)%N then [] else ldigits f (n / 10)%N)
  end.
Definition dec_of_N (n : N) : pstr := rev (map (fun d => (48 + d)%N) (ldigits (S (N.size_nat n)) n)).
Definition dec_of_nat (n : nat) : pstr := dec_of_N (N.of_nat n).
Definition dec_of_Z (z : Z) : pstr :=
  match z with
  | Zneg p => 45%N :: dec_of_N (Npos p)
  | _ => dec_of_N (Z.to_N z)
  end.

(* big-endian digits -> number; None when a non-digit occurs or the string is empty *)
Fixpoint digits_val (s : pstr) (acc : N) : option N :=
  match s with
  | [] => Some acc
  | c :: r => if is_digit c then digits_val r (10 * acc + (c - 48))%N else None
  end.
Definition parse_dec (s : pstr) : option N :=
  match s with [] => None | _ => digits_val s 0%N end.

Definition all_digits (s : pstr) : bool := forallb is_digit s.

(* ---- int(s) as Python accepts it on the alphabets the generators use:
   surrounding white space, one sign, ASCII digits with single inner
   underscores.  None = ValueError. ----------------------------------------- *)
Fixpoint digits_us (s : pstr) (acc : N) (prev_digit : bool) : option N :=
  match s with
  | [] => if prev_digit then Some acc else None
  | c :: r =>
    if is_digit c then digits_us r (10 * acc + (c - 48))%N true
    else if N.eqb c 95 then (if prev_digit then digits_us r acc false else None)
    else None
  end.
Definition py_int (s : pstr) : option Z :=
  match strip s with
  | 43%N :: r => option_map Z.of_N (digits_us r 0%N false)
  | 45%N :: r => option_map (fun n => (- Z.of_N n)%Z) (digits_us r 0%N false)
  | r => option_map Z.of_N (digits_us r 0%N false)
  end.

(* ---- character search -------------------------------------------------------- *)
(* s.split(c, 1) when c occurs: (before, after) *)
Fixpoint split_first (c : N) (s : pstr) : option (pstr * pstr) :=
  match s with
  | [] => None
  | x :: r => if N.eqb x c then Some ([], r)
              else match split_first c r with Some (a, b) => Some (x :: a, b) | None => None end
  end.

(* longest prefix satisfying p, and the rest *)
Fixpoint span (p : N -> bool) (s : pstr) : pstr * pstr :=
  match s with
  | [] => ([], [])
  | x :: r => if p x then let (a, b) := span p r in (x :: a, b) else ([], s)
  end.

(* ---- per-key counters (collections.defaultdict(int)) ------------------------- *)
Definition counters := list (pstr * nat).
Fixpoint cnt_get (k : pstr) (c : counters) : nat :=
  match c with
  | [] => O
  | (k', n) :: r => if pstr_eqb k k' then n else cnt_get k r
  end.
Fixpoint cnt_incr (k : pstr) (c : counters) : counters :=
  match c with
  | [] => [(k, 1%nat)]
  | (k', n) :: r => if pstr_eqb k k' then (k', S n) :: r else (k', n) :: cnt_incr k r
  end.

Lemma cnt_get_incr_same k c : cnt_get k (cnt_incr k c) = S (cnt_get k c).
Proof.
  induction c as [|[k' n] r IH]; simpl.
  - now rewrite pstr_eqb_refl.
  - destruct (pstr_eqb k k') eqn:E; simpl; rewrite E; auto.
Qed.

Lemma cnt_get_incr_other k k2 c : k2 <> k -> cnt_get k2 (cnt_incr k c) = cnt_get k2 c.
Proof.
  intros Hne. induction c as [|[k' n] r IH]; simpl.
  - apply pstr_eqb_neq in Hne. now rewrite Hne.
  - destruct (pstr_eqb k k') eqn:E; simpl.
    + apply pstr_eqb_eq in E; subst k'. apply pstr_eqb_neq in Hne. now rewrite Hne.
    + destruct (pstr_eqb k2 k'); auto.
Qed.

(* ---- decimal round trip -------------------------------------------------------- *)
Fixpoint lval (l : list N) : N :=
  match l with [] => 0%N | d :: r => (d + 10 * lval r)%N end.

Lemma ldigits_val fuel : forall n, (n < 2 ^ N.of_nat fuel)%N -> lval (ldigits fuel n) = n.
Proof.
  induction fuel as [|f IH]; intros n Hn.
  - simpl in Hn. assert (n = 0%N) by lia. subst. reflexivity.
  - cbn [ldigits]. destruct (n / 10 =? 0)%N eqn:E.
    + apply N.eqb_eq in E. cbn [lval]. pose proof (N.div_mod' n 10). lia.
    + cbn [lval]. rewrite IH.
      * pose proof (N.div_mod' n 10). lia.
      * rewrite Nat2N.inj_succ, N.pow_succ_r' in Hn.
        apply N.div_lt_upper_bound; lia.
Qed.

Lemma ldigits_small fuel : forall n, Forall (fun d => (d < 10)%N) (ldigits fuel n).
Proof.
  induction fuel as [|f IH]; intros n; cbn [ldigits]; constructor.
  - apply N.mod_lt. lia.
  - destruct (n / 10 =? 0)%N; [constructor|apply IH].
Qed.

Lemma ldigits_nonempty fuel n : ldigits (S fuel) n <> [].
Proof. cbn [ldigits]. discriminate. Qed.

Lemma is_digit_48 d : (d < 10)%N -> is_digit (48 + d) = true.
Proof. intros H. unfold is_digit. apply andb_true_iff. split; apply N.leb_le; lia. Qed.

Lemma digits_val_app a b acc :
  digits_val (a ++ b) acc = match digits_val a acc with Some v => digits_val b v | None => None end.
Proof.
  revert acc; induction a as [|c a IH]; intros acc; simpl; auto.
  destruct (is_digit c); auto.
Qed.

Lemma digits_val_rev l : Forall (fun d => (d < 10)%N) l ->
  digits_val (rev (map (fun d => (48 + d)%N) l)) 0%N = Some (lval l).
Proof.
  induction 1 as [|d r Hd Hr IH]; [reflexivity|].
  cbn [map rev]. rewrite digits_val_app, IH. cbn [digits_val lval]. rewrite is_digit_48 by assumption.
  f_equal. lia.
Qed.

Lemma size_nat_bound n : (n < 2 ^ N.of_nat (N.size_nat n))%N.
Proof.
  destruct n as [|p]; [simpl; lia|].
  simpl N.size_nat.
  induction p as [p IH|p IH|]; cbn [Pos.size_nat]; rewrite ?Nat2N.inj_succ, ?N.pow_succ_r'; lia.
Qed.

Lemma dec_of_N_digits n : all_digits (dec_of_N n) = true.
Proof.
  unfold dec_of_N, all_digits. apply forallb_forall. intros c Hc.
  apply in_rev in Hc. apply in_map_iff in Hc as [d [<- Hd]].
  pose proof (ldigits_small (S (N.size_nat n)) n) as HF.
  rewrite Forall_forall in HF. apply is_digit_48, HF, Hd.
Qed.

Lemma dec_of_N_nonempty n : dec_of_N n <> [].
Proof.
  unfold dec_of_N. cbn [ldigits map]. intros H.
  apply (f_equal (@length N)) in H. rewrite rev_length in H. simpl in H. lia.
Qed.

Lemma parse_dec_of_N n : parse_dec (dec_of_N n) = Some n.
Proof.
  unfold parse_dec. destruct (dec_of_N n) eqn:E; [now apply dec_of_N_nonempty in E|].
  rewrite <- E. unfold dec_of_N. rewrite digits_val_rev by apply ldigits_small.
  f_equal. apply ldigits_val.
  eapply N.lt_le_trans; [apply size_nat_bound|].
  apply N.pow_le_mono_r; lia.
Qed.
