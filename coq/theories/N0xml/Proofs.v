(* N0xml/Proofs.v — proofs about the model of n0struct_xml.py (C18). *)
From Coq Require Import List NArith ZArith Bool Lia.
From N0 Require Import Base.PyStr Base.PyVal N0xml.Util N0xml.Model.
Import ListNotations.

(* ---- induction principles for the nested types --------------------------------- *)
Section oval_ind.
Variable P : oval -> Prop.
Hypothesis HT : forall t, P (VText t).
Hypothesis HI : forall items, Forall (fun it => P (it_val it)) items -> P (VItems items).
Fixpoint oval_ind' (v : oval) : P v :=
  match v with
  | VText t => HT t
  | VItems items =>
    HI items ((fix go (l : list item) : Forall (fun it => P (it_val it)) l :=
                 match l with
                 | [] => Forall_nil _
                 | (t, a, cv) :: r => Forall_cons (t, a, cv) (oval_ind' cv) (go r)
                 end) items)
  end.
End oval_ind.

Section elem_ind.
Variable P : elem -> Prop.
Hypothesis H : forall t a tx ks, Forall P ks -> P (El t a tx ks).
Fixpoint elem_ind' (e : elem) : P e :=
  match e with
  | El t a tx ks =>
    H t a tx ks ((fix go (l : list elem) : Forall P l :=
                    match l with [] => Forall_nil _ | c :: r => Forall_cons c (elem_ind' c) (go r) end) ks)
  end.
End elem_ind.

(* ================================================================================ *)
(* 1. parse_node keeps tags, attributes, texts and sibling order                      *)
(* ================================================================================ *)
Definition e_tag (e : elem) := match e with El t _ _ _ => t end.
Definition e_att (e : elem) := match e with El _ a _ _ => a end.
Definition e_text (e : elem) := match e with El _ _ tx _ => tx end.
Definition e_kids (e : elem) := match e with El _ _ _ ks => ks end.

(* the value n0xml stores for a child element *)
Definition val_of (c : elem) : oval :=
  match e_kids c with [] => VText (e_text c) | _ :: _ => VItems (parse_node c) end.
Definition item_of (c : elem) : item := (e_tag c, e_att c, val_of c).

Lemma parse_node_map e : parse_node e = map item_of (e_kids e).
Proof.
  destruct e as [t a tx ks]. cbn [parse_node e_kids]. apply map_ext. intros [t' a' tx' ks'].
  unfold item_of, val_of. cbn [e_tag e_att e_kids e_text]. destruct ks'; reflexivity.
Qed.

Lemma parse_tags e : map it_tag (parse_node e) = map e_tag (e_kids e).
Proof. rewrite parse_node_map, map_map. reflexivity. Qed.
Lemma parse_atts e : map it_att (parse_node e) = map e_att (e_kids e).
Proof. rewrite parse_node_map, map_map. reflexivity. Qed.
Lemma parse_nth e i : nth_error (parse_node e) i = option_map item_of (nth_error (e_kids e) i).
Proof. rewrite parse_node_map. apply nth_error_map. Qed.
Lemma parse_length e : length (parse_node e) = length (e_kids e).
Proof. rewrite parse_node_map. apply map_length. Qed.

(* the element tree can be read back from ordered_items, except for the text of
   elements that have children (mixed content), which n0xml drops *)
Fixpoint erase (e : elem) : elem :=
  match e with
  | El t a tx ks => El t a (match ks with [] => tx | _ :: _ => None end) (map erase ks)
  end.
Fixpoint unparse (t : pstr) (a : attrs) (v : oval) : elem :=
  match v with
  | VText tx => El t a tx []
  | VItems items => El t a None (map (fun it => match it with (t', a', cv) => unparse t' a' cv end) items)
  end.
Definition unparse_item (it : item) : elem := match it with (t, a, cv) => unparse t a cv end.

Lemma parse_preserves e : map unparse_item (parse_node e) = map erase (e_kids e).
Proof.
  induction e as [t a tx ks IH] using elem_ind'.
  rewrite parse_node_map, map_map. cbn [e_kids].
  induction IH as [|c r Hc Hr IHr]; [reflexivity|].
  cbn [map]. f_equal; [|exact IHr].
  destruct c as [t' a' tx' ks']. unfold item_of, val_of, unparse_item. cbn [e_tag e_att e_kids e_text].
  destruct ks' as [|k ks'].
  - reflexivity.
  - cbn [unparse erase]. f_equal. exact Hc.
Qed.

(* ================================================================================ *)
(* 2. _get: the sibling-counting loop                                                *)
(* ================================================================================ *)
Definition same_tag (name : pstr) (it : item) : bool := pstr_eqb (it_tag it) name.

Lemma sib_neg name items : forall idx, (idx < 0)%Z -> sib name idx items = None.
Proof.
  induction items as [|it r IH]; intros idx H; cbn [sib]; [reflexivity|].
  destruct (pstr_eqb (it_tag it) name).
  - destruct (idx =? 0)%Z eqn:E; [apply Z.eqb_eq in E; lia|]. apply IH. lia.
  - apply IH. assumption.
Qed.

Lemma sib_spec name items : forall i,
  sib name (Z.of_nat i) items = nth_error (map it_val (filter (same_tag name) items)) i.
Proof.
  induction items as [|it r IH]; intros i; cbn [sib filter].
  - destruct i; reflexivity.
  - unfold same_tag at 1. destruct (pstr_eqb (it_tag it) name).
    + destruct i as [|i].
      * reflexivity.
      * replace (Z.of_nat (S i) =? 0)%Z with false by (symmetry; apply Z.eqb_neq; lia).
        replace (Z.of_nat (S i) - 1)%Z with (Z.of_nat i) by lia. cbn [map nth_error]. apply IH.
    + apply IH.
Qed.

(* ElementTree navigation: the i-th child with the given tag, step by step *)
Fixpoint et_nav (e : elem) (steps : list (pstr * nat)) : option elem :=
  match steps with
  | [] => Some e
  | (tag, i) :: rest =>
    match nth_error (filter (fun c => pstr_eqb (e_tag c) tag) (e_kids e)) i with
    | Some c => et_nav c rest
    | None => None
    end
  end.

Definition no_lb (s : pstr) : bool := negb (mem_chr LB s).
Definition render_step (s : pstr * nat) : pstr := fst s ++ LB :: dec_of_nat (snd s) ++ [RB].

(* -- string facts needed to read a rendered part back -- *)
Lemma lstrip_set_id cs s : match s with [] => True | c :: _ => mem_chr c cs = false end -> lstrip_set cs s = s.
Proof. destruct s as [|c s]; intros H; cbn [lstrip_set]; [reflexivity|]. now rewrite H. Qed.

Lemma all_digits_forall s : all_digits s = true -> Forall (fun c => is_digit c = true) s.
Proof. unfold all_digits. rewrite forallb_forall, Forall_forall. auto. Qed.

Lemma digit_not_ws c : is_digit c = true -> mem_chr c py_ws = false.
Proof.
  unfold is_digit. intros H. apply andb_true_iff in H as [H1 H2].
  apply N.leb_le in H1. apply N.leb_le in H2.
  apply mem_chr_false. unfold py_ws. simpl. intros H. repeat (destruct H as [H|H]; [lia|]). exact H.
Qed.

Lemma digit_not_rb c : is_digit c = true -> N.eqb c RB = false.
Proof.
  unfold is_digit, RB. intros H. apply andb_true_iff in H as [H1 H2].
  apply N.leb_le in H1. apply N.leb_le in H2. apply N.eqb_neq. lia.
Qed.

Lemma strip_digits s : all_digits s = true -> strip s = s.
Proof.
  intros H. unfold strip, strip_set, rstrip_set.
  assert (HF := all_digits_forall s H).
  rewrite (lstrip_set_id py_ws s).
  - rewrite lstrip_set_id; [apply rev_involutive|].
    destruct (rev s) as [|c r] eqn:E; [exact I|].
    apply digit_not_ws. rewrite Forall_forall in HF. apply HF. apply in_rev. rewrite E. now left.
  - destruct s as [|c r]; [exact I|]. inversion HF; subst. now apply digit_not_ws.
Qed.

Lemma digits_us_digits s : all_digits s = true -> forall acc b,
  digits_us s acc b = match s with [] => if b then Some acc else None | _ => digits_val s acc end.
Proof.
  induction s as [|c r IH]; intros H acc b; [reflexivity|].
  cbn [all_digits forallb] in H. apply andb_true_iff in H as [Hc Hr].
  cbn [digits_us digits_val]. rewrite Hc. rewrite (IH Hr). destruct r; reflexivity.
Qed.

Lemma py_int_dec n : py_int (dec_of_N n) = Some (Z.of_N n).
Proof.
  unfold py_int. rewrite strip_digits by apply dec_of_N_digits.
  pose proof (dec_of_N_digits n) as HD. pose proof (parse_dec_of_N n) as HP.
  destruct (dec_of_N n) as [|c r] eqn:E; [now apply dec_of_N_nonempty in E|].
  assert (Hc : is_digit c = true) by (cbn [all_digits forallb] in HD; now apply andb_true_iff in HD as [? _]).
  assert (c <> 43%N /\ c <> 45%N) as [H1 H2].
  { unfold is_digit in Hc. apply andb_true_iff in Hc as [Ha Hb]. apply N.leb_le in Ha. split; lia. }
  unfold parse_dec in HP.
  destruct c as [|p]; [exfalso; now apply H1 || discriminate|].
  assert (G : option_map Z.of_N (digits_us (N.pos p :: r) 0%N false) = Some (Z.of_N n)).
  { rewrite digits_us_digits by exact HD. rewrite HP. reflexivity. }
  destruct p as [p|p|]; try exact G;
  destruct p as [p|p|]; try exact G;
  destruct p as [p|p|]; try exact G;
  destruct p as [p|p|]; try exact G;
  destruct p as [p|p|]; try exact G;
  destruct p as [p|p|]; try exact G; congruence.
Qed.

Lemma split_first_app c a b : ~ In c a -> split_first c (a ++ c :: b) = Some (a, b).
Proof.
  induction a as [|x a IH]; intros H; cbn [app split_first].
  - now rewrite N.eqb_refl.
  - assert (x <> c) by (intros ->; apply H; now left). apply N.eqb_neq in H0. rewrite H0.
    rewrite IH; [reflexivity|]. intros Hi. apply H. now right.
Qed.

Lemma rstrip_rb_render tag d :
  all_digits d = true -> d <> [] -> rstrip_set [RB] (tag ++ LB :: d ++ [RB]) = tag ++ LB :: d.
Proof.
  intros HD Hne. unfold rstrip_set.
  replace (tag ++ LB :: d ++ [RB]) with ((tag ++ LB :: d) ++ [RB]) by (rewrite <- app_assoc; reflexivity).
  rewrite rev_app_distr. cbn [rev app lstrip_set mem_chr existsb]. rewrite N.eqb_refl. cbn [orb].
  rewrite lstrip_set_id; [apply rev_involutive|].
  replace (tag ++ LB :: d) with ((tag ++ [LB]) ++ d) by (rewrite <- app_assoc; reflexivity).
  rewrite rev_app_distr.
  destruct (rev d) as [|c r] eqn:E.
  - exfalso. apply Hne. apply (f_equal (@rev N)) in E. now rewrite rev_involutive in E.
  - cbn [app]. unfold mem_chr. cbn [existsb]. rewrite orb_false_r.
    apply digit_not_rb. pose proof (all_digits_forall d HD) as HF. rewrite Forall_forall in HF.
    apply HF. apply in_rev. rewrite E. now left.
Qed.

Lemma mem_chr_app c a b : mem_chr c (a ++ b) = mem_chr c a || mem_chr c b.
Proof. unfold mem_chr. apply existsb_app. Qed.

Lemma parse_part_render tag i :
  no_lb tag = true -> parse_part (render_step (tag, i)) = Ok (tag, Z.of_nat i).
Proof.
  intros Ht. unfold parse_part, render_step, dec_of_nat. cbn [fst snd].
  rewrite mem_chr_app. replace (mem_chr LB (LB :: dec_of_N (N.of_nat i) ++ [RB])) with true
    by (unfold mem_chr; cbn [existsb]; now rewrite N.eqb_refl).
  rewrite orb_true_r.
  rewrite rstrip_rb_render by (apply dec_of_N_digits || apply dec_of_N_nonempty).
  rewrite split_first_app.
  - rewrite py_int_dec. now rewrite nat_N_Z.
  - unfold no_lb in Ht. apply negb_true_iff in Ht. now apply mem_chr_false.
Qed.

Lemma parse_part_plain tag : no_lb tag = true -> parse_part tag = Ok (tag, 0%Z).
Proof. intros Ht. unfold parse_part. unfold no_lb in Ht. apply negb_true_iff in Ht. now rewrite Ht. Qed.

Lemma filter_map_item tag ks :
  map it_val (filter (same_tag tag) (map item_of ks)) =
  map val_of (filter (fun c => pstr_eqb (e_tag c) tag) ks).
Proof.
  induction ks as [|c r IH]; [reflexivity|]. cbn [map filter].
  unfold same_tag at 1. cbn [item_of it_tag fst]. destruct (pstr_eqb (e_tag c) tag); cbn [map]; now rewrite IH.
Qed.

(* get with explicit per-tag indexes = the ElementTree node at that position,
   the default (None) when there is none *)
Lemma get_is_et : forall steps e,
  Forall (fun s => no_lb (fst s) = true) steps ->
  xget (VItems (parse_node e)) (map render_step steps) =
  Ok (match steps with
      | [] => Some (VItems (parse_node e))
      | _ => option_map val_of (et_nav e steps)
      end).
Proof.
  induction steps as [|[tag i] rest IH]; intros e HF; [reflexivity|].
  inversion HF as [|? ? Ht Hr]; subst. cbn [fst] in Ht.
  cbn [map xget]. rewrite parse_part_render by assumption. cbn [bind fst snd].
  rewrite sib_spec, parse_node_map, filter_map_item, nth_error_map. cbn [et_nav].
  destruct (nth_error (filter (fun c => pstr_eqb (e_tag c) tag) (e_kids e)) i) as [c|]; cbn [option_map]; [|reflexivity].
  destruct rest as [|s rest'].
  - reflexivity.
  - unfold val_of at 1. destruct (e_kids c) as [|k ks] eqn:Ek.
    + (* c is a leaf: below it there is nothing, in both worlds *)
      destruct s as [tag' i']. cbn [map xget]. inversion Hr; subst. cbn [fst] in H1.
      rewrite parse_part_render by assumption. cbn [bind et_nav]. rewrite Ek. cbn [filter].
      destruct i'; reflexivity.
    + rewrite (IH c Hr). reflexivity.
Qed.
(* ================================================================================ *)
(* 3. every (path, value) returned by findall resolves through get to that value      *)
(* ================================================================================ *)
Fixpoint tags_ok (v : oval) : bool :=
  match v with
  | VText _ => true
  | VItems items => forallb (fun it => match it with (t, _, cv) => no_lb t && tags_ok cv end) items
  end.

Definition resolves (root : oval) (pv : list pstr * oval) : Prop :=
  xget root (fst pv) = Ok (Some (snd pv)).

Lemma xget_app p : forall v q w,
  xget v p = Ok (Some w) -> xget v (p ++ q) = xget w q.
Proof.
  induction p as [|s p IH]; intros v q w H; cbn [xget app] in *.
  - inversion H; subst. reflexivity.
  - destruct (parse_part s) as [[name idx]| | |]; cbn [bind] in *; try discriminate.
    destruct v as [t|items]; [discriminate|]. cbn [fst snd] in *.
    destruct (sib name idx items) as [c|]; [|discriminate]. now apply IH.
Qed.

Fixpoint count_tag (t : pstr) (l : list item) : nat :=
  match l with
  | [] => O
  | it :: r => if pstr_eqb (it_tag it) t then S (count_tag t r) else count_tag t r
  end.

Lemma count_tag_app t a b : count_tag t (a ++ b) = count_tag t a + count_tag t b.
Proof. induction a as [|x a IH]; cbn [count_tag app]; [reflexivity|]. destruct (pstr_eqb (it_tag x) t); lia. Qed.

Lemma sib_at t done it r :
  it_tag it = t -> sib t (Z.of_nat (count_tag t done)) (done ++ it :: r) = Some (it_val it).
Proof.
  intros Ht. induction done as [|x done IH]; cbn [count_tag app sib].
  - rewrite Ht, pstr_eqb_refl. reflexivity.
  - destruct (pstr_eqb (it_tag x) t).
    + replace (Z.of_nat (S (count_tag t done)) =? 0)%Z with false by (symmetry; apply Z.eqb_neq; lia).
      replace (Z.of_nat (S (count_tag t done)) - 1)%Z with (Z.of_nat (count_tag t done)) by lia. exact IH.
    + exact IH.
Qed.

Lemma part_of_parses st t i :
  no_lb t = true -> (idx_truthy (s_idx st) || negb (Nat.eqb i 0) = false -> i = O) ->
  parse_part (part_of st t i) = Ok (t, Z.of_nat i).
Proof.
  intros Ht Hi. unfold part_of. destruct (idx_truthy (s_idx st) || negb (Nat.eqb i 0)) eqn:E.
  - apply (parse_part_render t i Ht).
  - rewrite app_nil_r. rewrite (Hi eq_refl). now apply parse_part_plain.
Qed.

Lemma tags_ok_in items it : tags_ok (VItems items) = true -> In it items ->
  no_lb (it_tag it) = true /\ tags_ok (it_val it) = true.
Proof.
  cbn [tags_ok]. rewrite forallb_forall. intros H Hin. specialize (H it Hin).
  destruct it as [[t a] cv]. apply andb_true_iff in H. exact H.
Qed.

Section Resolves.
Variable root : oval.

Definition rec_ok (rec : bool -> oval -> list pstr -> list pstr -> bool -> res (option fnd * bool)) : Prop :=
  forall first cv sg ps any2 r first',
    tags_ok cv = true -> xget root ps = Ok (Some cv) ->
    rec first cv sg ps any2 = Ok (Some r, first') -> Forall (resolves root) r.

Definition fexit_ok (e : fexit) : Prop :=
  match e with
  | FRet (Some r) _ => Forall (resolves root) r
  | FRet None _ => True
  | FBreak found _ => Forall (resolves root) found
  end.

Lemma dive_ok rec st mode passed first found cv sg t i a :
  rec_ok rec -> tags_ok cv = true -> xget root (passed ++ [part_of st t i]) = Ok (Some cv) ->
  Forall (resolves root) found ->
  dive rec st mode passed first found cv sg t i = Ok a ->
  match a with inl e => fexit_ok e | inr (found', _) => Forall (resolves root) found' end.
Proof.
  intros Hrec Hcv Hx Hf. unfold dive.
  destruct (rec first cv sg (passed ++ [part_of st t i]) (Nat.eqb mode 2)) as [[o f']| | |] eqn:E; cbn [bind]; try discriminate.
  destruct o as [l|].
  - assert (Hl : Forall (resolves root) l) by (eapply Hrec; eassumption).
    destruct f'; intros H; inversion H; subst; cbn [fexit_ok]; apply Forall_app; split; assumption.
  - intros H; inversion H; subst. exact Hf.
Qed.

Lemma rfor_ok rec st mode sought passed : rec_ok rec ->
  forall rest done idx found first e,
  tags_ok (VItems (done ++ rest)) = true ->
  xget root passed = Ok (Some (VItems (done ++ rest))) ->
  (forall t, tag_passes st mode t = true -> cnt_get t idx = count_tag t done) ->
  Forall (resolves root) found ->
  rfor rec st mode sought passed rest idx found first = Ok e -> fexit_ok e.
Proof.
  intros Hrec. induction rest as [|it r IH]; intros done idx found first e Hok Hx Hcnt Hf.
  - cbn [rfor]. intros H. inversion H; subst. exact Hf.
  - cbn [rfor].
    destruct (tag_passes st mode (it_tag it)) eqn:Etp.
    + assert (Hin : In it (done ++ it :: r)) by (apply in_or_app; right; now left).
      destruct (tags_ok_in _ _ Hok Hin) as [Hnl Hcv].
      assert (Hchild : xget root (passed ++ [part_of st (it_tag it) (cnt_get (it_tag it) idx)]) = Ok (Some (it_val it))).
      { rewrite (xget_app passed _ _ _ Hx). cbn [xget].
        rewrite part_of_parses.
        - cbn [bind fst snd]. rewrite (Hcnt _ Etp). rewrite sib_at by reflexivity. reflexivity.
        - exact Hnl.
        - intros Hz. apply orb_false_iff in Hz as [_ Hz]. apply negb_false_iff in Hz. now apply Nat.eqb_eq in Hz. }
      set (i := cnt_get (it_tag it) idx) in *.
      (* first block *)
      match goal with |- context [bind ?x _] => destruct x as [a| | |] eqn:Ea end; cbn [bind]; try discriminate.
      assert (Ha : match a with inl e => fexit_ok e | inr (found', _) => Forall (resolves root) found' end).
      { destruct (idx_ok (s_idx st) i && cond_ok (s_cond st) (it_val it)).
        - eapply dive_ok; eassumption.
        - inversion Ea; subst. exact Hf. }
      destruct a as [e1|[found1 first1]].
      * intros H. inversion H; subst. exact Ha.
      * match goal with |- context [bind ?x _] => destruct x as [b| | |] eqn:Eb end; cbn [bind]; try discriminate.
        assert (Hb : match b with inl e => fexit_ok e | inr (found', _) => Forall (resolves root) found' end).
        { destruct (Nat.eqb mode 1).
          - eapply dive_ok; eassumption.
          - inversion Eb; subst. exact Ha. }
        destruct b as [e2|[found2 first2]].
        -- intros H. inversion H; subst. exact Hb.
        -- apply (IH (done ++ [it]) (cnt_incr (it_tag it) idx) found2 first2 e).
           ++ rewrite <- app_assoc. exact Hok.
           ++ rewrite <- app_assoc. exact Hx.
           ++ intros t Ht. rewrite count_tag_app. cbn [count_tag].
              destruct (pstr_eqb (it_tag it) t) eqn:Et.
              ** apply pstr_eqb_eq in Et; subst t. rewrite cnt_get_incr_same, (Hcnt _ Etp). lia.
              ** rewrite cnt_get_incr_other, (Hcnt _ Ht); [lia|]. intros ->. now rewrite pstr_eqb_refl in Et.
           ++ exact Hb.
    + apply (IH (done ++ [it]) idx found first e).
      * rewrite <- app_assoc. exact Hok.
      * rewrite <- app_assoc. exact Hx.
      * intros t Ht. rewrite count_tag_app. cbn [count_tag].
        destruct (pstr_eqb (it_tag it) t) eqn:Et.
        -- apply pstr_eqb_eq in Et; subst t. congruence.
        -- rewrite (Hcnt _ Ht). lia.
      * exact Hf.
Qed.

Lemma rwhile_resolves : forall fuel ff first v sought passed mode found r first',
  tags_ok v = true -> xget root passed = Ok (Some v) -> Forall (resolves root) found ->
  rwhile fuel ff first v sought passed mode found = Ok (Some r, first') ->
  Forall (resolves root) r.
Proof.
  induction fuel as [|f IH]; intros ff first v sought passed mode found r first' Hok Hx Hf; [discriminate|].
  cbn [rwhile].
  destruct (is_nil sought && negb (Nat.eqb mode 2)).
  { intros H. inversion H; subst. constructor; [exact Hx|constructor]. }
  destruct (pstr_eqb (if Nat.eqb mode 2 then starstar else hd [] sought) dotdot); [discriminate|].
  destruct (tok_step (if Nat.eqb mode 2 then starstar else hd [] sought)) as [st|]; [|discriminate].
  set (mode' := if pstr_eqb (s_tag st) starstar
                then if existsb (fun p => negb (pstr_eqb p starstar)) (tl sought) then 1%nat else 2%nat
                else 0%nat) in *.
  assert (Hleaf : forall w, w = v -> Ok (Some (if Nat.eqb mode' 2 then found ++ [(passed, w)] else found), first) = Ok (Some r, first') ->
                  Forall (resolves root) r).
  { intros w -> Hw. inversion Hw; subst. destruct (Nat.eqb mode' 2); [|exact Hf].
    apply Forall_app. split; [exact Hf|]. constructor; [exact Hx|constructor]. }
  destruct v as [t|[|it its]]; try (apply (Hleaf _ eq_refl)).
  match goal with |- context [bind ?x _] => destruct x as [e| | |] eqn:Er end; cbn [bind]; try discriminate.
  assert (He : fexit_ok e).
  { eapply (rfor_ok _ st mode' sought passed) with (done := []); [| | | | |exact Er].
    - intros first0 cv sg ps any2 r0 f0 Hcv Hps Hr. eapply IH; [exact Hcv|exact Hps|constructor|exact Hr].
    - exact Hok.
    - exact Hx.
    - intros; reflexivity.
    - exact Hf. }
  destruct e as [o f1|found1 f1].
  - intros H. inversion H; subst. exact He.
  - intros H. eapply IH; [exact Hok|exact Hx|exact He|exact H].
Qed.
End Resolves.

Theorem findall_resolves root xp l :
  tags_ok (VItems root) = true ->
  findall_m root xp = Ok (Some l) ->
  Forall (fun pv => get_parts root (fst pv) = Ok (Some (snd pv))) l.
Proof.
  intros Hok H. unfold findall_m, findall_str, findall_parts in H.
  destruct (rwhile _ false false (VItems root) _ [] 0 []) as [[o f]| | |] eqn:E; cbn [bind] in H; try discriminate.
  inversion H; subst. cbn [fst] in *.
  eapply (rwhile_resolves (VItems root) _ _ _ (VItems root) _ []); [exact Hok|reflexivity|constructor|exact E].
Qed.

(* ================================================================================ *)
(* 4. '**' returns every leaf exactly once, in document order                         *)
(* ================================================================================ *)
(* leaves of a value in document order; an element without children is a leaf *)
Fixpoint leaf_vals (v : oval) : list oval :=
  match v with
  | VItems (it :: its) =>
    flat_map (fun it => match it with (_, _, cv) => leaf_vals cv end) (it :: its)
  | _ => [v]
  end.

(* the same with the path findall renders for each leaf *)
Definition plain_part (t : pstr) (i : nat) : pstr :=
  t ++ (if negb (Nat.eqb i 0) then LB :: dec_of_nat i ++ [RB] else []).
Fixpoint leaves (passed : list pstr) (v : oval) : fnd :=
  match v with
  | VItems (it :: its) =>
    (fix go (idx : counters) (l : list item) : fnd :=
       match l with
       | [] => []
       | (t, _, cv) :: r => leaves (passed ++ [plain_part t (cnt_get t idx)]) cv ++ go (cnt_incr t idx) r
       end) [] (it :: its)
  | _ => [(passed, v)]
  end.
Fixpoint leaves_go (passed : list pstr) (idx : counters) (l : list item) : fnd :=
  match l with
  | [] => []
  | it :: r => leaves (passed ++ [plain_part (it_tag it) (cnt_get (it_tag it) idx)]) (it_val it)
               ++ leaves_go passed (cnt_incr (it_tag it) idx) r
  end.
Lemma leaves_go_fix passed : forall (l : list item) (idx : counters),
    (fix go (idx : counters) (l : list item) : fnd :=
       match l with
       | [] => []
       | (t, _, cv) :: r => leaves (passed ++ [plain_part t (cnt_get t idx)]) cv ++ go (cnt_incr t idx) r
       end) idx l = leaves_go passed idx l.
Proof.
  induction l as [|[[t a] cv] r IH]; intros idx; [reflexivity|].
  cbn [leaves_go it_tag it_val fst snd]. now rewrite IH.
Qed.
Lemma leaves_items passed it its : leaves passed (VItems (it :: its)) = leaves_go passed [] (it :: its).
Proof. exact (leaves_go_fix passed (it :: its) []). Qed.

Lemma leaf_vals_items it its :
  leaf_vals (VItems (it :: its)) = flat_map (fun it => leaf_vals (it_val it)) (it :: its).
Proof.
  change (leaf_vals (VItems (it :: its))) with
    (flat_map (fun it : item => match it with (_, _, cv) => leaf_vals cv end) (it :: its)).
  apply flat_map_ext. intros [[t a] cv]. reflexivity.
Qed.

Lemma leaves_go_vals passed : forall l : list item,
  Forall (fun it => forall passed, map snd (leaves passed (it_val it)) = leaf_vals (it_val it)) l ->
  forall idx, map snd (leaves_go passed idx l) = flat_map (fun it => leaf_vals (it_val it)) l.
Proof.
  induction 1 as [|x r Hx Hr IHr]; intros idx; [reflexivity|].
  cbn [leaves_go flat_map]. now rewrite map_app, Hx, IHr.
Qed.

Lemma leaves_vals : forall v passed, map snd (leaves passed v) = leaf_vals v.
Proof.
  induction v as [t|items IH] using oval_ind'; intros passed; [reflexivity|].
  destruct items as [|it its]; [reflexivity|].
  rewrite leaves_items, leaf_vals_items. apply leaves_go_vals. exact IH.
Qed.

Definition st_starstar : step := {| s_tag := starstar; s_idx := INone; s_cond := None |}.
Lemma tok_starstar : tok_step starstar = Some st_starstar.
Proof. reflexivity. Qed.

Definition rec_leaves (rec : bool -> oval -> list pstr -> list pstr -> bool -> res (option fnd * bool)) : Prop :=
  forall cv ps o f', rec false cv [] ps true = Ok (o, f') -> o = Some (leaves ps cv) /\ f' = false.

Lemma rfor_leaves rec sought passed : rec_leaves rec -> tl sought = [] ->
  forall items idx found e,
  rfor rec st_starstar 2 sought passed items idx found false = Ok e ->
  e = FRet (Some (found ++ leaves_go passed idx items)) false.
Proof.
  intros Hrec Htl. induction items as [|it r IH]; intros idx found e.
  - cbn [rfor leaves_go]. rewrite app_nil_r. intros H. now inversion H.
  - cbn [rfor]. unfold tag_passes. cbn [s_tag st_starstar]. rewrite (pstr_eqb_refl starstar), orb_true_r. cbn [orb].
    cbn [s_idx s_cond st_starstar idx_ok cond_ok andb].
    unfold dive. rewrite Htl. cbn [Nat.eqb].
    replace (part_of st_starstar (it_tag it) (cnt_get (it_tag it) idx))
      with (plain_part (it_tag it) (cnt_get (it_tag it) idx)) by reflexivity.
    destruct (rec false (it_val it) [] (passed ++ [plain_part (it_tag it) (cnt_get (it_tag it) idx)]) true)
      as [[o f']| | |] eqn:E; cbn [bind]; try discriminate.
    destruct (Hrec _ _ _ _ E) as [-> ->]. cbn [bind].
    intros H. apply IH in H. rewrite H. cbn [leaves_go]. now rewrite app_assoc.
Qed.

Lemma rwhile_leaves : forall fuel ff v passed found o f',
  rwhile fuel ff false v [] passed 2 found = Ok (o, f') ->
  o = Some (found ++ leaves passed v) /\ f' = false.
Proof.
  induction fuel as [|f IH]; intros ff v passed found o f'; [discriminate|].
  cbn [rwhile is_nil Nat.eqb negb andb hd tl existsb]. 
  replace (pstr_eqb starstar dotdot) with false by reflexivity.
  rewrite tok_starstar. cbn [s_tag st_starstar]. rewrite (pstr_eqb_refl starstar). cbn [Nat.eqb].
  destruct v as [t|[|it its]].
  - intros H. inversion H. split; reflexivity.
  - intros H. inversion H. split; reflexivity.
  - match goal with |- context [bind ?x _] => destruct x as [e| | |] eqn:Er end; cbn [bind]; try discriminate.
    apply rfor_leaves in Er.
    + subst e. intros H. inversion H. rewrite leaves_items. split; reflexivity.
    + intros cv ps o' f'' Hr. destruct (IH _ _ _ _ _ _ Hr) as [-> ->]. split; reflexivity.
    + reflexivity.
Qed.

Lemma rwhile_starstar_top : forall fuel ff v passed found o f',
  rwhile fuel ff false v [starstar] passed 0 found = Ok (o, f') ->
  o = Some (found ++ leaves passed v) /\ f' = false.
Proof.
  intros [|f] ff v passed found o f'; [discriminate|].
  cbn [rwhile is_nil Nat.eqb negb andb hd tl existsb].
  replace (pstr_eqb starstar dotdot) with false by reflexivity.
  rewrite tok_starstar. cbn [s_tag st_starstar]. rewrite (pstr_eqb_refl starstar). cbn [Nat.eqb].
  destruct v as [t|[|it its]].
  - intros H. inversion H. split; reflexivity.
  - intros H. inversion H. split; reflexivity.
  - match goal with |- context [bind ?x _] => destruct x as [e| | |] eqn:Er end; cbn [bind]; try discriminate.
    apply rfor_leaves in Er.
    + subst e. intros H. inversion H. rewrite leaves_items. split; reflexivity.
    + intros cv ps o' f'' Hr. apply rwhile_leaves in Hr. exact Hr.
    + reflexivity.
Qed.

Theorem starstar_leaves root r :
  findall_m root starstar = Ok r ->
  r = Some (leaves [] (VItems root)).
Proof.
  unfold findall_m, findall_str.
  replace (split_xpath (collapse (length starstar) starstar)) with [starstar] by reflexivity.
  unfold findall_parts.
  destruct (rwhile _ false false (VItems root) [starstar] [] 0 []) as [[o f]| | |] eqn:E; cbn [bind]; try discriminate.
  apply rwhile_starstar_top in E. destruct E as [-> ->]. intros H. now inversion H.
Qed.

Corollary starstar_values root l :
  findall_m root starstar = Ok (Some l) -> map snd l = leaf_vals (VItems root).
Proof.
  intros H. apply starstar_leaves in H.
  assert (E : l = leaves [] (VItems root)) by congruence.
  rewrite E. apply leaves_vals.
Qed.

(* ================================================================================ *)
(* 5. findfirst = first findall result, 'in' = findall non-empty  (no '..' step)      *)
(* ================================================================================ *)
Definition no_dd (sought : list pstr) : bool := forallb (fun p => negb (pstr_eqb p dotdot)) sought.

Lemma no_dd_tl s : no_dd s = true -> no_dd (tl s) = true.
Proof. destruct s as [|p s]; [auto|]. cbn [no_dd forallb tl]. intros H. now apply andb_true_iff in H as [_ H]. Qed.

Lemma no_dd_hd s : no_dd s = true -> pstr_eqb (hd [] s) dotdot = false.
Proof.
  destruct s as [|p s]; [reflexivity|]. cbn [no_dd forallb hd]. intros H.
  apply andb_true_iff in H as [H _]. now apply negb_true_iff in H.
Qed.

Definition recT := bool -> oval -> list pstr -> list pstr -> bool -> res (option fnd * bool).

(* -- A: without '..' the signal None never occurs -- *)
Definition rec_some (rec : recT) : Prop :=
  forall first cv sg ps any2 o f', no_dd sg = true -> rec first cv sg ps any2 = Ok (o, f') -> o <> None.

Lemma rfor_some rec st mode sought passed : rec_some rec -> no_dd sought = true ->
  forall items idx found first e,
  rfor rec st mode sought passed items idx found first = Ok e ->
  exists r f, e = FRet (Some r) f.
Proof.
  intros Hrec Hnd. induction items as [|it r IH]; intros idx found first e.
  - cbn [rfor]. intros H. inversion H. eauto.
  - cbn [rfor]. destruct (tag_passes st mode (it_tag it)); [|apply IH].
    assert (Hd : forall first found sg a, no_dd sg = true ->
              dive rec st mode passed first found (it_val it) sg (it_tag it) (cnt_get (it_tag it) idx) = Ok a ->
              match a with inl e => exists r f, e = FRet (Some r) f | inr _ => True end).
    { intros first0 found0 sg a Hsg. unfold dive.
      match goal with |- context [bind ?x _] => destruct x as [[o f']| | |] eqn:E end; cbn [bind]; try discriminate.
      destruct o as [l|]; [|exfalso; eapply Hrec; [exact Hsg|exact E|reflexivity]].
      destruct f'; intros H; inversion H; eauto. }
    match goal with |- context [bind ?x _] => destruct x as [a| | |] eqn:Ea end; cbn [bind]; try discriminate.
    assert (Ha : match a with inl e => exists r f, e = FRet (Some r) f | inr _ => True end).
    { destruct (idx_ok (s_idx st) (cnt_get (it_tag it) idx) && cond_ok (s_cond st) (it_val it)).
      - eapply Hd; [|exact Ea]. now apply no_dd_tl.
      - inversion Ea. exact I. }
    destruct a as [e1|[found1 first1]]; [intros H; inversion H; subst; exact Ha|].
    match goal with |- context [bind ?x _] => destruct x as [b| | |] eqn:Eb end; cbn [bind]; try discriminate.
    assert (Hb : match b with inl e => exists r f, e = FRet (Some r) f | inr _ => True end).
    { destruct (Nat.eqb mode 1).
      - eapply Hd; [|exact Eb]. exact Hnd.
      - inversion Eb. exact I. }
    destruct b as [e2|[found2 first2]]; [intros H; inversion H; subst; exact Hb|].
    apply IH.
Qed.

Lemma rwhile_some : forall fuel ff, rec_some (fun first cv sg ps any2 => rwhile fuel ff first cv sg ps (if any2 then 2 else 0)%nat []).
Proof.
  assert (G : forall fuel ff first v sought passed mode found o f',
             no_dd sought = true -> rwhile fuel ff first v sought passed mode found = Ok (o, f') -> o <> None).
  { induction fuel as [|f IH]; intros ff first v sought passed mode found o f' Hnd; [discriminate|].
    cbn [rwhile].
    destruct (is_nil sought && negb (Nat.eqb mode 2)); [intros H; inversion H; discriminate|].
    assert (Hc : pstr_eqb (if Nat.eqb mode 2 then starstar else hd [] sought) dotdot = false).
    { destruct (Nat.eqb mode 2); [reflexivity|now apply no_dd_hd]. }
    rewrite Hc.
    destruct (tok_step (if Nat.eqb mode 2 then starstar else hd [] sought)) as [st|]; [|discriminate].
    destruct v as [t|[|it its]]; try (intros H; inversion H; discriminate).
    match goal with |- context [bind ?x _] => destruct x as [e| | |] eqn:Er end; cbn [bind]; try discriminate.
    apply rfor_some in Er; [|intros first0 cv sg ps any2 o0 f0 Hsg Hr; eapply IH; eassumption|exact Hnd].
    destruct Er as [r [f1 ->]]. intros H. inversion H. discriminate. }
  intros fuel ff first cv sg ps any2 o f' Hsg H. eapply G; eassumption.
Qed.

(* -- B: without find_first the first_found flag never changes -- *)
Definition rec_flag (rec : recT) : Prop :=
  forall first cv sg ps any2 o f', rec first cv sg ps any2 = Ok (o, f') -> f' = first.

Definition fexit_flag (e : fexit) : bool := match e with FRet _ f => f | FBreak _ f => f end.

Lemma rfor_flag rec st mode sought passed : rec_flag rec ->
  forall items idx found first e,
  rfor rec st mode sought passed items idx found first = Ok e -> fexit_flag e = first.
Proof.
  intros Hrec. induction items as [|it r IH]; intros idx found first e.
  - cbn [rfor]. intros H. now inversion H.
  - cbn [rfor]. destruct (tag_passes st mode (it_tag it)); [|apply IH].
    assert (Hd : forall first found sg a,
              dive rec st mode passed first found (it_val it) sg (it_tag it) (cnt_get (it_tag it) idx) = Ok a ->
              match a with inl e => fexit_flag e = first | inr (_, f) => f = first end).
    { intros first0 found0 sg a. unfold dive.
      match goal with |- context [bind ?x _] => destruct x as [[o f']| | |] eqn:E end; cbn [bind]; try discriminate.
      apply Hrec in E. subst f'.
      destruct o as [l|]; [destruct first0|]; intros H; inversion H; reflexivity. }
    match goal with |- context [bind ?x _] => destruct x as [a| | |] eqn:Ea end; cbn [bind]; try discriminate.
    assert (Ha : match a with inl e => fexit_flag e = first | inr (_, f) => f = first end).
    { destruct (idx_ok (s_idx st) (cnt_get (it_tag it) idx) && cond_ok (s_cond st) (it_val it)).
      - eapply Hd; exact Ea.
      - inversion Ea. reflexivity. }
    destruct a as [e1|[found1 first1]]; [intros H; injection H as <-; exact Ha|]. subst first1.
    match goal with |- context [bind ?x _] => destruct x as [b| | |] eqn:Eb end; cbn [bind]; try discriminate.
    assert (Hb : match b with inl e => fexit_flag e = first | inr (_, f) => f = first end).
    { destruct (Nat.eqb mode 1).
      - eapply Hd; exact Eb.
      - inversion Eb. reflexivity. }
    destruct b as [e2|[found2 first2]]; [intros H; injection H as <-; exact Hb|]. subst first2.
    apply IH.
Qed.

Lemma rwhile_flag : forall fuel first v sought passed mode found o f',
  rwhile fuel false first v sought passed mode found = Ok (o, f') -> f' = first.
Proof.
  induction fuel as [|f IH]; intros first v sought passed mode found o f'; [discriminate|].
  cbn [rwhile andb].
  destruct (is_nil sought && negb (Nat.eqb mode 2)); [intros H; now inversion H|].
  destruct (pstr_eqb (if Nat.eqb mode 2 then starstar else hd [] sought) dotdot); [intros H; now inversion H|].
  destruct (tok_step (if Nat.eqb mode 2 then starstar else hd [] sought)) as [st|]; [|discriminate].
  destruct v as [t|[|it its]]; try (intros H; now inversion H).
  match goal with |- context [bind ?x _] => destruct x as [e| | |] eqn:Er end; cbn [bind]; try discriminate.
  apply rfor_flag in Er; [|intros first0 cv sg ps any2 o0 f0 Hr; eapply IH; exact Hr].
  destruct e as [r f1|found1 f1]; cbn [fexit_flag] in Er; subst f1.
  - intros H. now inversion H.
  - apply IH.
Qed.

(* -- C: the find_first run returns a prefix of the full run, non-empty when it stopped early -- *)
Definition rel (found rt : fnd) (ft : bool) (rf : fnd) : Prop :=
  if ft then length found < length rt /\ exists extra, rf = rt ++ extra else rt = rf.

Definition rec_sim (rec_t rec_f : recT) : Prop :=
  forall cv sg ps any2 lf, no_dd sg = true ->
    rec_f false cv sg ps any2 = Ok (Some lf, false) ->
    exists lt ft, rec_t false cv sg ps any2 = Ok (Some lt, ft) /\ rel [] lt ft lf.

(* a returned list always extends the accumulator *)
Lemma rfor_extends rec st mode sought passed :
  forall items idx found first r f,
  rfor rec st mode sought passed items idx found first = Ok (FRet (Some r) f) -> exists more, r = found ++ more.
Proof.
  induction items as [|it r0 IH]; intros idx found first r f.
  - cbn [rfor]. intros H. inversion H. exists []. now rewrite app_nil_r.
  - cbn [rfor]. destruct (tag_passes st mode (it_tag it)); [|apply IH].
    assert (Hd : forall first found sg a,
              dive rec st mode passed first found (it_val it) sg (it_tag it) (cnt_get (it_tag it) idx) = Ok a ->
              match a with
              | inl (FRet (Some r) _) => exists more, r = found ++ more
              | inl _ => True
              | inr (found', _) => exists more, found' = found ++ more
              end).
    { intros first0 found0 sg a. unfold dive.
      match goal with |- context [bind ?x _] => destruct x as [[o f']| | |] eqn:E end; cbn [bind]; try discriminate.
      destruct o as [l|]; [destruct f'|]; intros H; inversion H; eauto. }
    match goal with |- context [bind ?x _] => destruct x as [a| | |] eqn:Ea end; cbn [bind]; try discriminate.
    assert (Ha : match a with
                 | inl (FRet (Some r) _) => exists more, r = found ++ more
                 | inl _ => True
                 | inr (found', _) => exists more, found' = found ++ more
                 end).
    { destruct (idx_ok (s_idx st) (cnt_get (it_tag it) idx) && cond_ok (s_cond st) (it_val it)).
      - eapply Hd; exact Ea.
      - inversion Ea. exists []. now rewrite app_nil_r. }
    destruct a as [e1|[found1 first1]]; [intros H; inversion H; subst; exact Ha|].
    destruct Ha as [m1 ->].
    match goal with |- context [bind ?x _] => destruct x as [b| | |] eqn:Eb end; cbn [bind]; try discriminate.
    assert (Hb : match b with
                 | inl (FRet (Some r) _) => exists more, r = found ++ more
                 | inl _ => True
                 | inr (found', _) => exists more, found' = found ++ more
                 end).
    { destruct (Nat.eqb mode 1).
      - apply Hd in Eb. destruct b as [[[r1|] f1|]|[found2 f2]]; auto;
          destruct Eb as [m2 ->]; exists (m1 ++ m2); now rewrite app_assoc.
      - inversion Eb. eauto. }
    destruct b as [e2|[found2 first2]]; [intros H; inversion H; subst; exact Hb|].
    destruct Hb as [m2 ->]. intros H. apply IH in H. destruct H as [m3 ->].
    exists (m2 ++ m3). now rewrite app_assoc.
Qed.

Lemma rfor_sim rec_t rec_f st mode sought passed :
  rec_sim rec_t rec_f -> rec_some rec_f -> rec_flag rec_f -> no_dd sought = true ->
  forall items idx found rf,
  rfor rec_f st mode sought passed items idx found false = Ok (FRet (Some rf) false) ->
  exists rt ft, rfor rec_t st mode sought passed items idx found false = Ok (FRet (Some rt) ft) /\ rel found rt ft rf.
Proof.
  intros Hsim Hsome Hflag Hnd. induction items as [|it r IH]; intros idx found rf.
  - cbn [rfor]. intros H. inversion H; subst. exists rf, false. split; reflexivity.
  - cbn [rfor]. destruct (tag_passes st mode (it_tag it)); [|apply IH].
    set (i := cnt_get (it_tag it) idx).
    (* what one dive does in both runs *)
    assert (Hd : forall found sg a, no_dd sg = true ->
              dive rec_f st mode passed false found (it_val it) sg (it_tag it) i = Ok a ->
              exists lf, a = inr (found ++ lf, false) /\
              (dive rec_t st mode passed false found (it_val it) sg (it_tag it) i = Ok (inr (found ++ lf, false)) \/
               exists lt, dive rec_t st mode passed false found (it_val it) sg (it_tag it) i
                          = Ok (inl (FRet (Some (found ++ lt)) true)) /\ lt <> [] /\ exists extra, lf = lt ++ extra)).
    { intros found0 sg a Hsg. unfold dive.
      destruct (rec_f false (it_val it) sg (passed ++ [part_of st (it_tag it) i]) (Nat.eqb mode 2)) as [[o f']| | |] eqn:E;
        cbn [bind]; try discriminate.
      pose proof (Hflag _ _ _ _ _ _ _ E) as ->.
      destruct o as [lf|]; [|exfalso; eapply Hsome; [exact Hsg|exact E|reflexivity]].
      intros H. inversion H; subst. exists lf. split; [reflexivity|].
      destruct (Hsim _ _ _ _ _ Hsg E) as [lt [ft [Et R]]]. rewrite Et. cbn [bind].
      destruct ft; cbn [rel] in R.
      - right. exists lt. destruct R as [Hlen Hex]. split; [reflexivity|]. split; [|exact Hex].
        intros ->. cbn in Hlen. lia.
      - left. now subst. }
    (* first block *)
    destruct (idx_ok (s_idx st) i && cond_ok (s_cond st) (it_val it)).
    + destruct (dive rec_f st mode passed false found (it_val it) (tl sought) (it_tag it) i) as [a| | |] eqn:Ea;
        cbn [bind]; try discriminate.
      destruct (Hd _ _ _ (no_dd_tl _ Hnd) Ea) as [lf [-> Ht]].
      destruct Ht as [Ht|[lt [Ht [Hne [extra ->]]]]].
      * rewrite Ht. cbn [bind].
        (* second block *)
        destruct (Nat.eqb mode 1).
        -- destruct (dive rec_f st mode passed false (found ++ lf) (it_val it) sought (it_tag it) i) as [b| | |] eqn:Eb;
             cbn [bind]; try discriminate.
           destruct (Hd _ _ _ Hnd Eb) as [lf2 [-> Ht2]].
           destruct Ht2 as [Ht2|[lt2 [Ht2 [Hne2 [extra2 ->]]]]].
           ++ rewrite Ht2. cbn [bind]. intros H. apply IH in H. destruct H as [rt [ft [Hr R]]].
              exists rt, ft. split; [exact Hr|]. destruct ft; cbn [rel] in *; [|exact R].
              destruct R as [Hlen Hex]. split; [|exact Hex]. rewrite !app_length in Hlen. lia.
           ++ rewrite Ht2. cbn [bind]. intros H.
              destruct (rfor_extends _ _ _ _ _ _ _ _ _ _ _ H) as [more ->].
              exists ((found ++ lf) ++ lt2), true. split; [reflexivity|]. cbn [rel]. split.
              ** rewrite !app_length. destruct lt2; [congruence|]. cbn [length]. lia.
              ** exists (extra2 ++ more). now rewrite <- !app_assoc.
        -- cbn [bind]. intros H. apply IH in H. destruct H as [rt [ft [Hr R]]].
           exists rt, ft. split; [exact Hr|]. destruct ft; cbn [rel] in *; [|exact R].
           destruct R as [Hlen Hex]. split; [|exact Hex]. rewrite !app_length in Hlen. lia.
      * rewrite Ht. cbn [bind]. intros H.
        assert (exists more, rf = (found ++ lt ++ extra) ++ more) as [more ->].
        { destruct (Nat.eqb mode 1).
          - destruct (dive rec_f st mode passed false (found ++ lt ++ extra) (it_val it) sought (it_tag it) i) as [b| | |] eqn:Eb;
              cbn [bind] in H; try discriminate.
            destruct (Hd _ _ _ Hnd Eb) as [lf2 [-> _]].
            destruct (rfor_extends _ _ _ _ _ _ _ _ _ _ _ H) as [more ->].
            exists (lf2 ++ more). now rewrite <- !app_assoc.
          - cbn [bind] in H. exact (rfor_extends _ _ _ _ _ _ _ _ _ _ _ H). }
        exists (found ++ lt), true. split; [reflexivity|]. cbn [rel]. split.
        -- rewrite app_length. destruct lt; [congruence|]. cbn [length]. lia.
        -- exists (extra ++ more). now rewrite <- !app_assoc.
    + cbn [bind].
      destruct (Nat.eqb mode 1).
      * destruct (dive rec_f st mode passed false found (it_val it) sought (it_tag it) i) as [b| | |] eqn:Eb;
          cbn [bind]; try discriminate.
        destruct (Hd _ _ _ Hnd Eb) as [lf2 [-> Ht2]].
        destruct Ht2 as [Ht2|[lt2 [Ht2 [Hne2 [extra2 ->]]]]].
        -- rewrite Ht2. cbn [bind]. intros H. apply IH in H. destruct H as [rt [ft [Hr R]]].
           exists rt, ft. split; [exact Hr|]. destruct ft; cbn [rel] in *; [|exact R].
           destruct R as [Hlen Hex]. split; [|exact Hex]. rewrite !app_length in Hlen. lia.
        -- rewrite Ht2. cbn [bind]. intros H.
           destruct (rfor_extends _ _ _ _ _ _ _ _ _ _ _ H) as [more ->].
           exists (found ++ lt2), true. split; [reflexivity|]. cbn [rel]. split.
           ++ rewrite !app_length. destruct lt2; [congruence|]. cbn [length]. lia.
           ++ exists (extra2 ++ more). now rewrite <- !app_assoc.
      * cbn [bind]. apply IH.
Qed.

Lemma rwhile_sim : forall fuel v sought passed mode rf,
  no_dd sought = true ->
  rwhile fuel false false v sought passed mode [] = Ok (Some rf, false) ->
  exists rt ft, rwhile fuel true false v sought passed mode [] = Ok (Some rt, ft) /\ rel [] rt ft rf.
Proof.
  induction fuel as [|f IH]; intros v sought passed mode rf Hnd; [discriminate|].
  cbn [rwhile andb negb].
  destruct (is_nil sought && negb (Nat.eqb mode 2)).
  { intros H. inversion H; subst. eexists _, _. split; [reflexivity|].
    destruct (negb (is_nil passed)); cbn [rel]; [|reflexivity].
    split; [cbn; lia|]. exists []. reflexivity. }
  destruct (pstr_eqb (if Nat.eqb mode 2 then starstar else hd [] sought) dotdot); [discriminate|].
  destruct (tok_step (if Nat.eqb mode 2 then starstar else hd [] sought)) as [st|]; [|discriminate].
  destruct v as [t|[|it its]];
    try (intros H; inversion H; subst; eexists _, false; split; [reflexivity|reflexivity]).
  match goal with |- context [bind ?x _] => destruct x as [e| | |] eqn:Er end; cbn [bind]; try discriminate.
  destruct (rfor_some _ _ _ _ _ (rwhile_some f false) Hnd _ _ _ _ _ Er) as [r [f1 ->]].
  intros H. inversion H; subst.
  eapply rfor_sim in Er; [| |apply rwhile_some| |exact Hnd].
  - destruct Er as [rt [ft [Hr R]]]. rewrite Hr. cbn [bind]. exists rt, ft. split; [reflexivity|exact R].
  - intros cv sg ps any2 lf Hsg Hr. apply IH; assumption.
  - intros first0 cv sg ps any2 o f0 Hr. eapply rwhile_flag. exact Hr.
Qed.

Lemma findall_str_sim root xp l :
  no_dd (split_xpath (collapse (length xp) xp)) = true ->
  findall_m root xp = Ok (Some l) ->
  exists lt ft, findall_str true root xp = Ok (Some lt, ft) /\ rel [] lt ft l.
Proof.
  intros Hnd. unfold findall_m, findall_str, findall_parts.
  match goal with |- context [bind ?x _] => destruct x as [[o f']| | |] eqn:E end; cbn [bind]; try discriminate.
  intros H. inversion H; subst. cbn [fst] in *.
  pose proof (rwhile_flag _ _ _ _ _ _ _ _ _ E) as ->.
  apply rwhile_sim; assumption.
Qed.

(* findall(find_first=True) returns a prefix of findall, non-empty when it stopped early *)
Theorem find_first_prefix root xp l :
  no_dd (split_xpath (collapse (length xp) xp)) = true ->
  findall_m root xp = Ok (Some l) ->
  exists lt ft, findall_str true root xp = Ok (Some lt, ft) /\
                (exists extra, l = lt ++ extra) /\ (l = [] <-> lt = []) /\ hd_error lt = hd_error l.
Proof.
  intros Hnd H. destruct (findall_str_sim _ _ _ Hnd H) as [lt [ft [E R]]].
  exists lt, ft. split; [exact E|]. destruct ft; cbn [rel] in R.
  - destruct R as [Hlen [extra ->]]. split; [now exists extra|]. destruct lt; [cbn in Hlen; lia|].
    split; [split; discriminate|reflexivity].
  - subst. split; [exists []; now rewrite app_nil_r|]. split; [tauto|reflexivity].
Qed.

(* findfirst = the first findall result, 'in' = findall non-empty: for every
   expression (as repaired, findfirst and __contains__ run the complete search) *)
Theorem findfirst_head root xp o :
  findall_m root xp = Ok o ->
  findfirst_m root xp = Ok (match o with Some l => hd_error l | None => None end).
Proof.
  unfold findall_m, findfirst_m. destruct (findall_str false root xp) as [[o' f]| | |]; cbn [bind]; try discriminate.
  intros H. inversion H; subst. cbn [fst]. destruct o as [[|x l]|]; reflexivity.
Qed.

Theorem contains_iff_nonempty root xp o :
  findall_m root xp = Ok o ->
  contains_m root xp = Ok (match o with Some (_ :: _) => true | _ => false end).
Proof.
  unfold findall_m, contains_m. destruct (findall_str false root xp) as [[o' f]| | |]; cbn [bind]; try discriminate.
  intros H. inversion H; subst. reflexivity.
Qed.

(* an exception of findall is the same exception of findfirst and of 'in' *)
Theorem findfirst_contains_raise root xp e :
  findall_m root xp = Raise e -> findfirst_m root xp = Raise e /\ contains_m root xp = Raise e.
Proof.
  unfold findall_m, findfirst_m, contains_m.
  destruct (findall_str false root xp) as [[o' f]| | |]; cbn [bind]; try discriminate.
  intros H. inversion H; subst. split; reflexivity.
Qed.

(* without '..' findall never returns the None signal *)
Theorem findall_nodd_some root xp o :
  no_dd (split_xpath (collapse (length xp) xp)) = true ->
  findall_m root xp = Ok o -> o <> None.
Proof.
  intros Hnd. unfold findall_m, findall_str, findall_parts.
  match goal with |- context [bind ?x _] => destruct x as [[o' f']| | |] eqn:E end; cbn [bind]; try discriminate.
  intros H. inversion H; subst. cbn [fst].
  pose proof (rwhile_some (S (height (VItems root) + length (split_xpath (collapse (length xp) xp)) + 3)) false) as G.
  intros ->.
  assert (G2 : forall fuel ff first v sought passed mode found o f',
             no_dd sought = true -> rwhile fuel ff first v sought passed mode found = Ok (o, f') -> o <> None).
  { clear. induction fuel as [|f IH]; intros ff first v sought passed mode found o f' Hnd; [discriminate|].
    cbn [rwhile].
    destruct (is_nil sought && negb (Nat.eqb mode 2)); [intros H; inversion H; discriminate|].
    assert (Hc : pstr_eqb (if Nat.eqb mode 2 then starstar else hd [] sought) dotdot = false).
    { destruct (Nat.eqb mode 2); [reflexivity|now apply no_dd_hd]. }
    rewrite Hc.
    destruct (tok_step (if Nat.eqb mode 2 then starstar else hd [] sought)) as [st|]; [|discriminate].
    destruct v as [t|[|it its]]; try (intros H; inversion H; discriminate).
    match goal with |- context [bind ?x _] => destruct x as [e| | |] eqn:Er end; cbn [bind]; try discriminate.
    apply rfor_some in Er; [|apply rwhile_some|exact Hnd].
    destruct Er as [r [f1 ->]]. intros H. inversion H. discriminate. }
  eapply G2; [exact Hnd|exact E|reflexivity].
Qed.

(* ---- a concrete instance (non-vacuity of the guards) ---------------------------- *)
Local Open Scope N_scope.
(* <r><a>1</a><b><c>x</c><d/><c>y</c></b><a k="v">2</a></r> *)
Definition ex_doc : elem :=
  El [114] [] None
     [El [97] [] (Some [49]) [];
      El [98] [] None [El [99] [] (Some [120]) []; El [100] [] None []; El [99] [] (Some [121]) []];
      El [97] [([107], [118])] (Some [50]) []].
(* b/c[1][text()=y] *)
Definition ex_xp : pstr := [98; 47; 99; 91; 49; 93; 91; 116; 101; 120; 116; 40; 41; 61; 121; 93].
Lemma nonvacuous :
  let root := parse_node ex_doc in
  tags_ok (VItems root) = true /\
  findall_m root ex_xp = Ok (Some [([[98]; [99; 91; 49; 93]], VText (Some [121]))]) /\
  (exists l, findall_m root starstar = Ok (Some l) /\ length l = 5%nat) /\
  findfirst_m root [97] = Ok (Some ([[97]], VText (Some [49]))) /\
  contains_m root [97; 91; 49; 93] = Ok true.
Proof.
  cbv zeta. split; [vm_compute; reflexivity|]. split; [vm_compute; reflexivity|].
  split; [eexists; split; vm_compute; reflexivity|]. split; vm_compute; reflexivity.
Qed.
Local Close Scope N_scope.

(* ================================================================================ *)
(* 6. index and text() conditions keep exactly the matching siblings                  *)
(* ================================================================================ *)
(* the siblings one selecting step keeps: tag equal (or the step is '*'), per-tag
   position (number of earlier siblings with the same tag) accepted by the index,
   value accepted by the text() condition - in document order, each with the
   path passed + [tag[i]] *)
Definition tag_match (st : step) (t : pstr) : bool := pstr_eqb t (s_tag st) || pstr_eqb (s_tag st) star.
Fixpoint select_from (st : step) (passed : list pstr) (done rest : list item) : fnd :=
  match rest with
  | [] => []
  | it :: r =>
    (if tag_match st (it_tag it) && idx_ok (s_idx st) (count_tag (it_tag it) done) && cond_ok (s_cond st) (it_val it)
     then [(passed ++ [part_of st (it_tag it) (count_tag (it_tag it) done)], it_val it)] else [])
    ++ select_from st passed (done ++ [it]) r
  end.
Definition select (st : step) (passed : list pstr) (items : list item) : fnd := select_from st passed [] items.

Lemma rfor_select rec st s passed :
  pstr_eqb (s_tag st) starstar = false ->
  (forall cv ps, rec false cv [] ps false = Ok (Some [(ps, cv)], false)) ->
  forall rest done idx found,
  (forall t, tag_match st t = true -> cnt_get t idx = count_tag t done) ->
  rfor rec st 0 [s] passed rest idx found false =
  Ok (FRet (Some (found ++ select_from st passed done rest)) false).
Proof.
  intros Hss Hrec. induction rest as [|it r IH]; intros done idx found Hcnt.
  - cbn [rfor select_from]. now rewrite app_nil_r.
  - cbn [rfor select_from]. unfold tag_passes. rewrite Hss. cbn [Nat.eqb negb]. rewrite !orb_false_r.
    change (pstr_eqb (it_tag it) (s_tag st) || pstr_eqb (s_tag st) star) with (tag_match st (it_tag it)).
    destruct (tag_match st (it_tag it)) eqn:Etm; cbn [andb].
    + rewrite (Hcnt _ Etm).
      assert (Hnext : forall found', rfor rec st 0 [s] passed r (cnt_incr (it_tag it) idx) found' false =
                                     Ok (FRet (Some (found' ++ select_from st passed (done ++ [it]) r)) false)).
      { intros found'. apply IH. intros t Ht. rewrite count_tag_app. cbn [count_tag].
        destruct (pstr_eqb (it_tag it) t) eqn:Et.
        - apply pstr_eqb_eq in Et; subst t. rewrite cnt_get_incr_same, (Hcnt _ Etm). lia.
        - rewrite cnt_get_incr_other, (Hcnt _ Ht); [lia|]. intros ->. now rewrite pstr_eqb_refl in Et. }
      destruct (idx_ok (s_idx st) (count_tag (it_tag it) done) && cond_ok (s_cond st) (it_val it)).
      * unfold dive. cbn [tl Nat.eqb]. rewrite Hrec. cbn [bind]. rewrite Hnext. now rewrite <- app_assoc.
      * cbn [bind Nat.eqb]. rewrite Hnext. reflexivity.
    + rewrite (IH (done ++ [it]) idx found); [reflexivity|].
      intros t Ht. rewrite count_tag_app. cbn [count_tag].
      destruct (pstr_eqb (it_tag it) t) eqn:Et.
      * apply pstr_eqb_eq in Et; subst t. congruence.
      * rewrite (Hcnt _ Ht). lia.
Qed.

Lemma tok_step_dotdot : tok_step dotdot = None.
Proof. reflexivity. Qed.

(* one selecting step (a name or '*', with optional index and text() condition)
   applied to the children of any node *)
Theorem select_spec : forall f s st items passed,
  tok_step s = Some st -> pstr_eqb (s_tag st) starstar = false ->
  rwhile (S (S f)) false false (VItems items) [s] passed 0 [] = Ok (Some (select st passed items), false).
Proof.
  intros f s st items passed Htok Hss.
  cbn [rwhile is_nil andb Nat.eqb hd].
  destruct (pstr_eqb s dotdot) eqn:Ed.
  { apply pstr_eqb_eq in Ed. subst s. rewrite tok_step_dotdot in Htok. discriminate. }
  rewrite Htok, Hss.
  destruct items as [|it its]; [reflexivity|].
  rewrite (rfor_select _ st s passed Hss) with (done := []).
  - reflexivity.
  - intros cv ps. reflexivity.
  - intros; reflexivity.
Qed.

Corollary findall_select : forall root s st,
  tok_step s = Some st -> pstr_eqb (s_tag st) starstar = false ->
  findall_parts false root [s] = Ok (Some (select st [] root), false).
Proof.
  intros root s st Htok Hss. unfold findall_parts.
  replace (height (VItems root) + length [s] + 3) with (S (S (height (VItems root) + 2))) by (cbn [length]; lia).
  now apply select_spec.
Qed.

(* what the tokenizer makes of typical selecting steps (so that select_spec is
   not about an empty set of steps): c[1][text()=y], *[*], b[text()!='x'] *)
Lemma tok_examples :
  tok_step [99; 91; 49; 93; 91; 116; 101; 120; 116; 40; 41; 61; 121; 93]%N
    = Some {| s_tag := [99]%N; s_idx := INum 1; s_cond := Some (true, [121]%N) |} /\
  tok_step [42; 91; 42; 93]%N = Some {| s_tag := star; s_idx := IStar; s_cond := None |} /\
  tok_step [98; 91; 116; 101; 120; 116; 40; 41; 33; 61; 39; 120; 39; 93]%N
    = Some {| s_tag := [98]%N; s_idx := INone; s_cond := Some (false, [120]%N) |}.
Proof. repeat split; vm_compute; reflexivity. Qed.
