(* N0xml/Model.v — executable model of n0struct/n0struct_xml.py:
   n0xml._parse_node (20-40), n0xml._get (70-117, as repaired by the "fix:"
   commit that returns the default below a leaf), n0xml.findall with its
   recurse closure (144-295), findfirst, __contains__ (as repaired by the
   "fix:" commits that join found[0][0] and that use the complete search).
   xml.etree.ElementTree's parser is the oracle that produces [elem]; the
   regular expression of findall is replaced by the hand-written tokenizer
   [tok_step] (validated by correspondence only).  No proofs in this file. *)
From Coq Require Import List NArith ZArith Bool Lia.
From N0 Require Import Base.PyStr Base.PyVal N0xml.Util.
Import ListNotations.

Definition attrs := list (pstr * pstr).

(* what ElementTree reports: tag, attributes (in document order), text (None
   for an empty element), children *)
Inductive elem := El (tag : pstr) (att : attrs) (text : option pstr) (kids : list elem).

(* n0xml.ordered_items: list of (tag, {'value': str | None | list, 'attrib': {..}}) *)
Inductive oval :=
| VText (t : option pstr)
| VItems (items : list (pstr * attrs * oval)).
Definition item := (pstr * attrs * oval)%type.

Definition it_tag (it : item) : pstr := fst (fst it).
Definition it_att (it : item) : attrs := snd (fst it).
Definition it_val (it : item) : oval := snd it.

(* ---- _parse_node ------------------------------------------------------------ *)
Fixpoint parse_node (e : elem) : list item :=
  match e with
  | El _ _ _ kids =>
    map (fun c => match c with
                  | El tag att text ks =>
                    (tag, att, match ks with [] => VText text | _ :: _ => VItems (parse_node c) end)
                  end) kids
  end.

(* ---- _get --------------------------------------------------------------------- *)
Definition LB : N := 91%N.   (* [ *)
Definition RB : N := 93%N.   (* ] *)
Definition SL : N := 47%N.   (* / *)

(* tag[index] -> (tag, index); a part without a bracket has index 0; int()
   failing is ValueError *)
Definition parse_part (p : pstr) : res (pstr * Z) :=
  if mem_chr LB p then
    match split_first LB (rstrip_set [RB] p) with
    | Some (name, idx) => match py_int idx with Some z => Ok (name, z) | None => Raise ExValue end
    | None => Raise ExValue
    end
  else Ok (p, 0%Z).

(* the sibling-counting loop: the node_index-th item whose tag is node_name *)
Fixpoint sib (name : pstr) (idx : Z) (items : list item) : option oval :=
  match items with
  | [] => None
  | it :: r =>
    if pstr_eqb (it_tag it) name then
      if (idx =? 0)%Z then Some (it_val it) else sib name (idx - 1)%Z r
    else sib name idx r
  end.

(* _get on a list of parts; Ok None = the default *)
Fixpoint xget (v : oval) (parts : list pstr) : res (option oval) :=
  match parts with
  | [] => Ok (Some v)
  | p :: rest =>
    do ni <- parse_part p ;;
    match v with
    | VText _ => Ok None
    | VItems items =>
      match sib (fst ni) (snd ni) items with
      | Some c => xget c rest
      | None => Ok None
      end
    end
  end.

(* xpath.replace('/[', '[').strip('/').split('/') *)
Definition split_xpath (s : pstr) : list pstr :=
  split_chr SL (strip_set [SL] (replace s [SL; LB] [LB])).

Definition get_str (root : list item) (xp : pstr) : res (option oval) :=
  match xp with
  | [] => Ok (Some (VItems root))
  | _ => xget (VItems root) (split_xpath xp)
  end.
Definition get_parts (root : list item) (parts : list pstr) : res (option oval) :=
  xget (VItems root) parts.

(* ---- the step tokenizer (stands for the regular expression of findall) ----- *)
Definition star : pstr := [42]%N.
Definition starstar : pstr := [42; 42]%N.
Definition dotdot : pstr := [46; 46]%N.

Definition is_word (c : N) : bool :=
  is_digit c || ((65 <=? c) && (c <=? 90))%N || ((97 <=? c) && (c <=? 122))%N || (c =? 95)%N.
Definition is_quote (c : N) : bool := ((c =? 39) || (c =? 34))%N.

Fixpoint strip_prefix (p s : pstr) : option pstr :=
  match p, s with
  | [], _ => Some s
  | c :: p', d :: s' => if N.eqb c d then strip_prefix p' s' else None
  | _ :: _, [] => None
  end.

Inductive sidx := INone | IStar | INum (n : N).
Record step := { s_tag : pstr; s_idx : sidx; s_cond : option (bool * pstr) }.

(* group 1: [a-zA-Z0-9_]+ | ** | * *)
Definition tok_tag (s : pstr) : option (pstr * pstr) :=
  match span is_word s with
  | (c :: w, r) => Some (c :: w, r)
  | ([], _) =>
    match strip_prefix starstar s with
    | Some r => Some (starstar, r)
    | None => match strip_prefix star s with Some r => Some (star, r) | None => None end
    end
  end.

(* optional group 2: a bracketed run of digits or a bracketed star *)
Definition tok_idx (s : pstr) : sidx * pstr :=
  match s with
  | c :: r =>
    if N.eqb c LB then
      match span is_digit r with
      | (d :: ds, r') =>
        match r' with
        | c2 :: r'' => if N.eqb c2 RB then
                         match parse_dec (d :: ds) with Some n => (INum n, r'') | None => (INone, s) end
                       else (INone, s)
        | [] => (INone, s)
        end
      | ([], _) => match strip_prefix [42; RB]%N r with Some r'' => (IStar, r'') | None => (INone, s) end
      end
    else (INone, s)
  | [] => (INone, s)
  end.

(* R[:k] for the largest k with R[k] = ']' *)
Fixpoint cut_last_rb (R : pstr) : option pstr :=
  match R with
  | [] => None
  | c :: r =>
    match cut_last_rb r with
    | Some p => Some (c :: p)
    | None => if N.eqb c RB then Some [] else None
    end
  end.

(* the value part of a condition: optional quote, a non-empty run of non-quote
   characters, optional quote, closing bracket - with the backtracking order of
   a greedy matcher (the longest run first) *)
Definition match_value (r : pstr) : option pstr :=
  let r1 := match r with c :: r' => if is_quote c then r' else r | [] => r end in
  let (R, after) := span (fun c => negb (is_quote c)) r1 in
  match R with
  | [] => None
  | c0 :: Rt =>
    let shorter := match cut_last_rb Rt with Some p => Some (c0 :: p) | None => None end in
    match after with
    | _ :: c :: _ => if N.eqb c RB then Some R else shorter
    | _ => shorter
    end
  end.

(* optional group 3: [text, optionally (), one of == != <> =, the value part;
   true = equality *)
Definition match_cond (s : pstr) : option (bool * pstr) :=
  match strip_prefix [LB; 116; 101; 120; 116]%N s with
  | None => None
  | Some r0 =>
    let r := match strip_prefix [40; 41]%N r0 with Some r' => r' | None => r0 end in
    let try (op : pstr) (eq : bool) : option (bool * pstr) :=
      match strip_prefix op r with
      | Some rv => match match_value rv with Some v => Some (eq, v) | None => None end
      | None => None
      end in
    match try [61; 61]%N true with
    | Some x => Some x
    | None =>
      match try [33; 61]%N false with
      | Some x => Some x
      | None =>
        match try [60; 62]%N false with
        | Some x => Some x
        | None => try [61]%N true
        end
      end
    end
  end.

Definition tok_step (s : pstr) : option step :=
  match tok_tag s with
  | None => None
  | Some (tag, r) =>
    let (ix, r2) := tok_idx r in
    Some {| s_tag := tag; s_idx := ix; s_cond := match_cond r2 |}
  end.

(* ---- the conditions of one step ------------------------------------------------- *)
Definition idx_ok (ix : sidx) (i : nat) : bool :=
  match ix with INone | IStar => true | INum n => N.eqb (N.of_nat i) n end.
Definition idx_truthy (ix : sidx) : bool :=
  match ix with INone => false | IStar => true | INum n => negb (N.eqb n 0) end.

Definition none_words : list pstr := [[110; 111; 110; 101]; [110; 117; 108; 108]; [110; 117; 108]]%N.
Definition is_none_val (v : oval) : bool := match v with VText None => true | _ => false end.
Definition is_text_val (s : pstr) (v : oval) : bool :=
  match v with VText (Some t) => pstr_eqb t s | _ => false end.
Definition cond_ok (c : option (bool * pstr)) (v : oval) : bool :=
  match c with
  | None => true
  | Some (eq, val) =>
    let hit := if mem_str (lower val) none_words then is_none_val v else is_text_val val v in
    if eq then hit else negb hit
  end.

(* ---- findall: the recurse closure -------------------------------------------------- *)
Definition fnd := list (list pstr * oval).
(* how the for-loop over the siblings is left: by a return (found or the '..'
   signal None), or by the break that follows a '..' signal from below *)
Inductive fexit := FRet (r : option fnd) (first : bool) | FBreak (found : fnd) (first : bool).

Definition is_nil {A} (l : list A) : bool := match l with [] => true | _ => false end.

Section ForLoop.
  (* the recursive call: first_found flag, ordered_items, sought, passed, any_xpath == 2 *)
  Variable rec : bool -> oval -> list pstr -> list pstr -> bool -> res (option fnd * bool).
  Variable st : step.
  Variable mode : nat.                 (* any_xpath of this iteration: 0, 1, 2 *)
  Variables sought passed : list pstr.

  Definition tag_passes (t : pstr) : bool :=
    pstr_eqb t (s_tag st) || pstr_eqb (s_tag st) star || pstr_eqb (s_tag st) starstar || negb (Nat.eqb mode 0).
  Definition part_of (t : pstr) (i : nat) : pstr :=
    t ++ (if idx_truthy (s_idx st) || negb (Nat.eqb i 0) then LB :: dec_of_nat i ++ [RB] else []).

  (* one nested call and what the loop does with its result; inl = the loop is left *)
  Definition dive (first : bool) (found : fnd) (cv : oval) (sg : list pstr) (t : pstr) (i : nat)
    : res (fexit + (fnd * bool)) :=
    do r <- rec first cv sg (passed ++ [part_of t i]) (Nat.eqb mode 2) ;;
    match r with
    | (None, first') => Ok (inl (FBreak found first'))
    | (Some l, first') =>
      if first' then Ok (inl (FRet (Some (found ++ l)) first')) else Ok (inr (found ++ l, first'))
    end.

  Fixpoint rfor (items : list item) (idx : counters) (found : fnd) (first : bool) : res fexit :=
    match items with
    | [] => Ok (FRet (Some found) first)
    | it :: r =>
      let t := it_tag it in
      let cv := it_val it in
      if tag_passes t then
        let i := cnt_get t idx in
        do a <- (if idx_ok (s_idx st) i && cond_ok (s_cond st) cv
                 then dive first found cv (tl sought) t i else Ok (inr (found, first))) ;;
        match a with
        | inl e => Ok e
        | inr (found1, first1) =>
          do b <- (if Nat.eqb mode 1 then dive first1 found1 cv sought t i else Ok (inr (found1, first1))) ;;
          match b with
          | inl e => Ok e
          | inr (found2, first2) => rfor r (cnt_incr t idx) found2 first2
          end
        end
      else rfor r idx found first
    end.
End ForLoop.

(* one call of recurse = the while loop; [mode] is the any_xpath parameter (only
   its being 2 is ever read before it is recomputed), [found] the accumulator *)
Fixpoint rwhile (fuel : nat) (ff first : bool) (v : oval) (sought passed : list pstr)
         (mode : nat) (found : fnd) : res (option fnd * bool) :=
  match fuel with
  | O => OutOfFuel
  | S f =>
    if is_nil sought && negb (Nat.eqb mode 2) then
      Ok (Some [(passed, v)], if ff && negb first then negb (is_nil passed) else first)
    else
      let cur := if Nat.eqb mode 2 then starstar else hd [] sought in
      if pstr_eqb cur dotdot then Ok (None, first) else
      match tok_step cur with
      | None => Raise ExValue
      | Some st =>
        let mode' :=
          if pstr_eqb (s_tag st) starstar then
            (if existsb (fun p => negb (pstr_eqb p starstar)) (tl sought) then 1 else 2)%nat
          else 0%nat in
        match v with
        | VItems (it :: its) =>
          do e <- rfor (fun first' cv sg ps any2 => rwhile f ff first' cv sg ps (if any2 then 2 else 0)%nat [])
                       st mode' sought passed (it :: its) [] found first ;;
          match e with
          | FRet r first' => Ok (r, first')
          | FBreak found' first' => rwhile f ff first' v (skipn 2 sought) passed mode' found'
          end
        | _ => Ok (Some (if Nat.eqb mode' 2 then found ++ [(passed, v)] else found), first)
        end
      end
  end.

Fixpoint height (v : oval) : nat :=
  match v with
  | VText _ => O
  | VItems items => S (fold_right (fun it m => Nat.max (height (snd it)) m) O items)
  end.

(* while the replacement of **/** by ** changes the string, repeat it *)
Fixpoint collapse (fuel : nat) (s : pstr) : pstr :=
  match fuel with
  | O => s
  | S f => let s' := replace s [42; 42; SL; 42; 42]%N starstar in
           if pstr_eqb s' s then s else collapse f s'
  end.

Definition findall_parts (ff : bool) (root : list item) (parts : list pstr) : res (option fnd * bool) :=
  rwhile (height (VItems root) + length parts + 3) ff false (VItems root) parts [] 0 [].
Definition findall_str (ff : bool) (root : list item) (xp : pstr) : res (option fnd * bool) :=
  findall_parts ff root (split_xpath (collapse (length xp) xp)).

(* findall(xpath) *)
Definition findall_m (root : list item) (xp : pstr) : res (option fnd) :=
  do r <- findall_str false root xp ;; Ok (fst r).
(* findfirst(xpath): found[0] of the complete search, or ()  (as repaired: it used
   findall(find_first=True)) *)
Definition findfirst_m (root : list item) (xp : pstr) : res (option (list pstr * oval)) :=
  do r <- findall_str false root xp ;;
  Ok (match fst r with Some (x :: _) => Some x | _ => None end).
(* xpath in obj: bool(__contains__), the complete search as well *)
Definition contains_m (root : list item) (xp : pstr) : res bool :=
  do r <- findall_str false root xp ;;
  Ok (match fst r with Some (_ :: _) => true | _ => false end).

(* ---- observations ------------------------------------------------------------------ *)
Definition k_value : pstr := [118; 97; 108; 117; 101]%N.
Definition k_attrib : pstr := [97; 116; 116; 114; 105; 98]%N.
Fixpoint enc_val (v : oval) : tree :=
  match v with
  | VText None => t_none
  | VText (Some s) => t_str s
  | VItems items =>
    Lst false (map (fun it => match it with
                              | (t, a, cv) =>
                                Lst false [t_str t;
                                           Dict false [(k_value, enc_val cv);
                                                       (k_attrib, Dict false (map (fun kv => (fst kv, t_str (snd kv))) a))]]
                              end) items)
  end.
Definition enc_pv (pv : list pstr * oval) : tree := Lst false [t_strs (fst pv); enc_val (snd pv)].
Definition enc_found (l : fnd) : tree := Lst false (map enc_pv l).

(* the property does not speak about exception classes: every exception is
   observed as the same outcome on both sides *)
Definition lift {A} (f : A -> tree) (r : res A) : out :=
  match r with Ok a => Ok (f a) | Raise _ => Raise ExOther | OutOfFuel => OutOfFuel | Unmodelled => Unmodelled end.

Definition enc_opt_val (o : option oval) : tree :=
  match o with Some v => enc_val v | None => t_bool false end.   (* the harness' default sentinel *)

Definition obs_parse (e : elem) : out := Ok (enc_val (VItems (parse_node e))).
Definition obs_get (x : elem * pstr) : out := lift enc_opt_val (get_str (parse_node (fst x)) (snd x)).
Definition obs_get_parts (x : elem * list pstr) : out := lift enc_opt_val (get_parts (parse_node (fst x)) (snd x)).
Definition obs_findall (x : elem * pstr) : out :=
  lift (fun o => match o with Some l => enc_found l | None => t_none end) (findall_m (parse_node (fst x)) (snd x)).
(* findall(xpath, [], find_first=True): public, not part of the property; observed so
   that the find_first machinery of the model stays tied to the code *)
Definition obs_findall_ff (x : elem * pstr) : out :=
  lift (fun r => match fst r with Some l => enc_found l | None => t_none end)
       (findall_str true (parse_node (fst x)) (snd x)).
Definition obs_findfirst (x : elem * pstr) : out :=
  lift (fun o => match o with Some pv => enc_pv pv | None => Lst false [] end) (findfirst_m (parse_node (fst x)) (snd x)).
Definition obs_contains (x : elem * pstr) : out := lift t_bool (contains_m (parse_node (fst x)) (snd x)).
