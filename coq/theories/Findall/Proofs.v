(* Findall/Proofs.v — proofs about the model of n0struct_findall.py (C19). *)
From Coq Require Import List NArith ZArith Bool Lia.
From N0 Require Import Base.PyStr Base.PyVal N0xml.Util N0xml.Proofs Findall.Util Findall.Model.
Import ListNotations.

(* ================================================================================ *)
(* 1. the default arguments are never mutated; history independence                   *)
(* ================================================================================ *)
Ltac step_cases :=
  repeat (match goal with
          | |- context [match ?x with _ => _ end] => destruct x eqn:?
          end; cbn [r_fxl r_pns r_out stuck]).

(* a call that receives the empty list object leaves it empty: every in-place
   write is found_xpath_list[-1] = ..., which raises IndexError on [] *)
Lemma fa_fxl_nil : forall fuel node pos seeked st, r_fxl (fa fuel node pos seeked [] st) = [].
Proof.
  induction fuel as [|f IH]; intros node pos seeked st; [reflexivity|].
  cbn [fa]. step_cases; try reflexivity; try apply IH.
Qed.

(* a call that receives the empty dict object leaves it empty: the only in-place
   write is the del in the '..' branch, guarded by len(parent_nodes_stack) >= 2 *)
Lemma fa_pns_nil : forall fuel node pos seeked fx, r_pns (fa fuel node pos seeked fx []) = [].
Proof.
  induction fuel as [|f IH]; intros node pos seeked fx; [reflexivity|].
  cbn [fa]. step_cases; try reflexivity; try apply IH; try discriminate.
Qed.

Theorem defaults_invariant : forall root expr,
  snd (findall_top init_cell root expr) = init_cell.
Proof.
  intros root expr. unfold findall_top, findall_parts, init_cell. cbn [fst snd].
  now rewrite fa_fxl_nil, fa_pns_nil.
Qed.

(* whether the call returns or raises: the statement above is about the cell
   whatever the outcome is; spelled out for the two outcomes *)
Corollary defaults_invariant_cases : forall root expr o c,
  findall_top init_cell root expr = (o, c) -> c = init_cell.
Proof. intros root expr o c H. pose proof (defaults_invariant root expr) as G. rewrite H in G. exact G. Qed.

Theorem history_independent : forall calls,
  run_seq init_cell calls =
  map (fun c => (fst (findall_top init_cell (fst c) (snd c)), init_cell)) calls.
Proof.
  induction calls as [|[root expr] more IH]; [reflexivity|].
  cbn [run_seq map fst snd]. rewrite defaults_invariant, IH.
  f_equal. rewrite <- (defaults_invariant root expr) at 3. now destruct (findall_top init_cell root expr).
Qed.

(* the cell is a real piece of state: from another content a search does change it *)
Lemma cell_is_state :
  exists c root expr, snd (findall_top c root expr) <> c.
Proof.
  exists ([[97]], [])%N, (Lst true [Dict true [([98]%N, Leaf SNone)]]), [LB; 48; RB]%N.
  vm_compute. discriminate.
Qed.

(* ================================================================================ *)
(* 2. findfirst                                                                        *)
(* ================================================================================ *)
Theorem findfirst_spec : forall found rx,
  findfirst_of found rx =
  match found with
  | Ok None | Ok (Some []) => if rx then Raise ExIndex else Ok None
  | Ok (Some [kv]) => Ok (Some kv)
  | Ok (Some (kv :: _ :: _)) => if rx then Raise ExIndex else Ok (Some kv)
  | Raise e => Raise e
  | OutOfFuel => OutOfFuel
  | Unmodelled => Unmodelled
  end.
Proof. intros [[[|kv [|kv2 more]]|]|e| |] rx; reflexivity. Qed.

(* ================================================================================ *)
(* 3. every key of the result resolves to the very node                               *)
(* ================================================================================ *)
Definition plain_step (s : pstr) : bool :=
  match classify s with KName _ | KIdx _ => true | _ => false end.
Definition plain (seeked : list pstr) : bool := forallb plain_step seeked.

Definition key_plain (k : pstr) : bool := negb (is_nil_str k) && negb (mem_chr LB k) && negb (mem_chr SL k).
Fixpoint tree_ok (t : tree) : bool :=
  match t with
  | Leaf _ => true
  | Dict _ kvs => nodup_keys (map fst kvs) && forallb (fun kv => key_plain (fst kv) && tree_ok (snd kv)) kvs
  | Lst _ xs => forallb tree_ok xs
  end.

(* the shape of a found_xpath_list: no segment contains '/', and only the first
   segment may be empty or start with '[' (a list root) *)
Definition seg_tail_ok (seg : pstr) : bool := match seg with [] => false | c :: _ => negb (N.eqb c LB) end.
Definition segs_ok (fx : fxl) : Prop :=
  Forall (fun seg => mem_chr SL seg = false) fx /\ Forall (fun seg => seg_tail_ok seg = true) (tl fx).

Definition entry_ok (root : tree) (kv : pstr * (path * tree)) : Prop :=
  exists fx, fst kv = render fx /\ walk root fx = Some (snd kv) /\ segs_ok fx.

(* -- the resolver on segments -- *)
Lemma walk_snoc root fx seg : walk root (fx ++ [seg]) = obind (walk root fx) (fun pn => apply_seg pn seg).
Proof. unfold walk. now rewrite fold_left_app. Qed.

Lemma span_app_stop p : forall s g c g', g = c :: g' -> p c = false ->
  span p (s ++ g) = (fst (span p s), snd (span p s) ++ g).
Proof.
  induction s as [|x s IH]; intros g c g' -> Hc.
  - cbn [app span fst snd]. now rewrite Hc.
  - cbn [app span]. destruct (p x) eqn:E.
    + rewrite (IH _ c g' eq_refl Hc). destruct (span p s). reflexivity.
    + reflexivity.
Qed.

Lemma gstep_fail s : fold_left gstep s GFail = GFail.
Proof. induction s; auto. Qed.

Lemma fold_gin_run acc : forall s cur, ~ In RB s ->
  fold_left gstep s (GIn acc cur) = GIn acc (rev s ++ cur).
Proof.
  induction s as [|c s IH]; intros cur Hn; [reflexivity|].
  cbn [fold_left gstep]. assert (c <> RB) by (intros ->; apply Hn; now left). apply N.eqb_neq in H. rewrite H.
  rewrite IH by (intros Hi; apply Hn; now right). cbn [rev]. now rewrite <- app_assoc.
Qed.

Lemma dec_of_N_no_rb n : ~ In RB (dec_of_N n).
Proof.
  intros H. pose proof (dec_of_N_digits n) as HD. apply all_digits_forall in HD.
  rewrite Forall_forall in HD. apply HD in H. apply digit_not_rb in H. now rewrite N.eqb_refl in H.
Qed.

Lemma dec_of_Z_no_rb z : ~ In RB (dec_of_Z z).
Proof.
  destruct z; cbn [dec_of_Z]; try apply dec_of_N_no_rb.
  intros [H|H]; [discriminate|]. now apply dec_of_N_no_rb in H.
Qed.

Lemma py_int_dec_of_Z z : py_int (dec_of_Z z) = Some z.
Proof.
  destruct z as [|p|p]; cbn [dec_of_Z].
  - change 0%Z with (Z.of_N 0). apply py_int_dec.
  - change (Z.pos p) with (Z.of_N (N.pos p)) at 2. apply py_int_dec.
  - unfold py_int.
    assert (Hs : strip (45%N :: dec_of_N (N.pos p)) = 45%N :: dec_of_N (N.pos p)).
    { unfold strip, strip_set, rstrip_set.
      rewrite (lstrip_set_id py_ws (45%N :: _)) by reflexivity.
      rewrite lstrip_set_id; [apply rev_involutive|].
      cbn [rev]. pose proof (dec_of_N_digits (N.pos p)) as HD. apply all_digits_forall in HD.
      destruct (rev (dec_of_N (N.pos p))) as [|c r] eqn:E.
      - exfalso. apply (dec_of_N_nonempty (N.pos p)). apply (f_equal (@rev N)) in E. now rewrite rev_involutive in E.
      - cbn [app]. apply digit_not_ws. rewrite Forall_forall in HD. apply HD. apply in_rev. rewrite E. now left. }
    rewrite Hs. rewrite digits_us_digits by apply dec_of_N_digits.
    pose proof (parse_dec_of_N (N.pos p)) as HP. unfold parse_dec in HP.
    destruct (dec_of_N (N.pos p)) eqn:E; [now apply dec_of_N_nonempty in E|].
    rewrite HP. reflexivity.
Qed.

Lemma parse_groups_app rest z idxs :
  parse_groups rest = Some idxs -> parse_groups (rest ++ idx_suffix z) = Some (idxs ++ [z]).
Proof.
  unfold parse_groups. rewrite fold_left_app.
  destruct (fold_left gstep rest (GOut [])) as [acc|acc cur|]; try discriminate.
  intros H. inversion H; subst acc. unfold idx_suffix. cbn [fold_left gstep]. rewrite N.eqb_refl.
  rewrite fold_left_app. rewrite fold_gin_run by apply dec_of_Z_no_rb.
  cbn [fold_left gstep]. rewrite N.eqb_refl. rewrite app_nil_r, rev_involutive, py_int_dec_of_Z. reflexivity.
Qed.

Lemma parse_seg_app seg z name idxs :
  parse_seg seg = Some (name, idxs) -> parse_seg (seg ++ idx_suffix z) = Some (name, idxs ++ [z]).
Proof.
  unfold parse_seg.
  rewrite (span_app_stop _ seg (idx_suffix z) LB (dec_of_Z z ++ [RB]) eq_refl) by (now rewrite N.eqb_refl).
  destruct (span (fun c => negb (N.eqb c LB)) seg) as [nm rest]. cbn [fst snd].
  destruct (parse_groups rest) as [ix|] eqn:E; [|discriminate].
  intros H. inversion H; subst. now rewrite (parse_groups_app _ z _ E).
Qed.

Lemma apply_seg_app pn seg z pn' :
  apply_seg pn seg = Some pn' -> apply_seg pn (seg ++ idx_suffix z) = apply_idx pn' z.
Proof.
  unfold apply_seg. destruct (parse_seg seg) as [[name idxs]|] eqn:E; [|discriminate].
  cbn [obind fst snd]. rewrite (parse_seg_app _ z _ _ E). cbn [obind fst snd].
  rewrite fold_left_app. cbn [fold_left]. intros ->. reflexivity.
Qed.

Lemma span_all p s : forallb p s = true -> span p s = (s, []).
Proof.
  induction s as [|c s IH]; [reflexivity|]. cbn [forallb span]. intros H. apply andb_true_iff in H as [Hc Hs].
  now rewrite Hc, (IH Hs).
Qed.

Lemma parse_seg_name n : mem_chr LB n = false -> parse_seg n = Some (n, []).
Proof.
  intros H. unfold parse_seg. rewrite span_all; [reflexivity|].
  apply forallb_forall. intros c Hc. apply negb_true_iff. apply N.eqb_neq. intros ->.
  apply mem_chr_false in H. contradiction.
Qed.

Lemma apply_seg_name pn n : key_plain n = true -> apply_seg pn n = apply_name pn n.
Proof.
  unfold key_plain. intros H. apply andb_true_iff in H as [H _]. apply andb_true_iff in H as [_ H].
  apply negb_true_iff in H. unfold apply_seg. rewrite (parse_seg_name _ H). reflexivity.
Qed.

Lemma apply_seg_empty pn : apply_seg pn [] = Some pn.
Proof. reflexivity. Qed.

(* -- frames: the list object differs at most in its last element -- *)
Definition same_but_last (a b : fxl) : Prop := removelast a = removelast b /\ length a = length b.

Lemma sbl_refl a : same_but_last a a. Proof. split; reflexivity. Qed.
Lemma sbl_trans a b c : same_but_last a b -> same_but_last b c -> same_but_last a c.
Proof. intros [H1 H2] [H3 H4]. split; congruence. Qed.
Lemma sbl_set_last a x : same_but_last (set_last a x) a.
Proof. split; [apply removelast_set_last|apply set_last_length]. Qed.

Lemma sbl_set_last_eq a b x : same_but_last a b -> set_last a x = set_last b x.
Proof.
  intros [H1 H2]. destruct (last_opt a) as [la|] eqn:Ea.
  - destruct (last_opt b) as [lb|] eqn:Eb.
    + rewrite (last_opt_some_snoc _ _ Ea), (last_opt_some_snoc _ _ Eb), !set_last_snoc. now rewrite H1.
    + apply last_opt_none in Eb. subst b. destruct a; [reflexivity|discriminate].
  - apply last_opt_none in Ea. subst a. destruct b; [reflexivity|discriminate].
Qed.

Lemma star_loop_sbl rec : (forall n p s fx st, same_but_last (r_fxl (rec n p s fx st)) fx) ->
  forall xs node pos rest st lx i loc multi,
  same_but_last (snd (star_loop rec node pos rest st lx xs i loc multi)) loc.
Proof.
  intros Hrec. induction xs as [|c xs IH]; intros node pos rest st lx i loc multi; cbn [star_loop snd].
  - apply sbl_refl.
  - destruct (is_container c); [|apply sbl_refl].
    set (r := rec c _ _ _ _).
    assert (Hr : same_but_last (r_fxl r) loc).
    { eapply sbl_trans; [apply Hrec|apply sbl_set_last]. }
    destruct (r_out r); cbn [snd]; try exact Hr.
    eapply sbl_trans; [apply IH|exact Hr].
Qed.

Lemma fa_sbl : forall fuel node pos seeked fx st, same_but_last (r_fxl (fa fuel node pos seeked fx st)) fx.
Proof.
  induction fuel as [|f IH]; intros node pos seeked fx st; [apply sbl_refl|].
  cbn [fa].
  repeat (match goal with
          | |- context [match ?x with _ => _ end] =>
            lazymatch x with
            | star_loop _ _ _ _ _ _ _ _ _ _ => fail
            | _ => destruct x eqn:?
            end
          end; cbn [r_fxl r_pns r_out stuck]); try apply sbl_refl; try apply IH;
    try (eapply sbl_trans; [apply IH|apply sbl_set_last]).
  (* the [*] fan-out *)
  all: match goal with
       | |- context [star_loop ?r ?n ?p ?rest ?st ?lx ?xs ?i ?loc ?m] =>
         pose proof (star_loop_sbl r IH xs n p rest st lx i loc m) as Hs;
         destruct (star_loop r n p rest st lx xs i loc m) as [o loc']; cbn [snd r_fxl] in *
       end; try apply sbl_refl; exact Hs.
Qed.

Lemma plain_allidx : plain_step s_allidx = true.
Proof. reflexivity. Qed.

Lemma fa_dict_fxl : forall fuel c kvs pos seeked fx st,
  plain seeked = true -> r_fxl (fa fuel (Dict c kvs) pos seeked fx st) = fx.
Proof.
  induction fuel as [|f IH]; intros c kvs pos seeked fx st Hp; [reflexivity|].
  cbn [fa]. destruct seeked as [|s0 rest]; [reflexivity|].
  cbn [plain forallb] in Hp. apply andb_true_iff in Hp as [H0 Hr]. unfold plain_step in H0.
  destruct (classify s0) as [|ci|eq v|n|e|]; try discriminate; cbn [r_fxl stuck].
  - destruct ci as [[| |]|]; reflexivity.
  - destruct (is_nil_str n); [reflexivity|].
    destruct (pstr_eqb n s_star).
    + destruct (r_out (fa f (Dict c kvs) pos rest fx st)); cbn [r_fxl]; apply IH; exact Hr.
    + destruct (lookup n kvs); reflexivity.
Qed.

Lemma lookup_mid {A} k (v : A) : forall done post,
  nodup_keys (map fst (done ++ (k, v) :: post)) = true -> lookup k (done ++ (k, v) :: post) = Some v.
Proof.
  induction done as [|[k' v'] done IH]; intros post H; cbn [app lookup].
  - now rewrite pstr_eqb_refl.
  - cbn [map app fst nodup_keys] in H. apply andb_true_iff in H as [Hn Hd].
    destruct (pstr_eqb k k') eqn:E.
    + apply pstr_eqb_eq in E; subst k'. exfalso. apply negb_true_iff in Hn.
      unfold mem_str in Hn. rewrite map_app in Hn. rewrite existsb_app in Hn. cbn [map existsb fst] in Hn.
      rewrite pstr_eqb_refl in Hn. cbn in Hn. rewrite orb_true_r in Hn. discriminate.
    + apply IH. exact Hd.
Qed.

Lemma walk_rebound root fx : walk root (match fx with [] => [[]] | _ => fx end) = walk root fx.
Proof. destruct fx; reflexivity. Qed.

Lemma norm_index_nat i len : i < len -> norm_index (Z.of_nat i) len = Some i.
Proof.
  intros H. unfold norm_index.
  replace (0 <=? Z.of_nat i)%Z with true by (symmetry; apply Z.leb_le; lia).
  replace (Z.of_nat i <? Z.of_nat len)%Z with true by (symmetry; apply Z.ltb_lt; lia).
  now rewrite Nat2Z.id.
Qed.

Lemma tree_ok_nth c xs k child : tree_ok (Lst c xs) = true -> nth_error xs k = Some child -> tree_ok child = true.
Proof.
  cbn [tree_ok]. rewrite forallb_forall. intros H Hn. apply H. eapply nth_error_In; exact Hn.
Qed.

Lemma tree_ok_kv c kvs k child : tree_ok (Dict c kvs) = true -> In (k, child) kvs ->
  key_plain k = true /\ tree_ok child = true.
Proof.
  cbn [tree_ok]. intros H Hin. apply andb_true_iff in H as [_ H]. rewrite forallb_forall in H.
  specialize (H _ Hin). cbn [fst snd] in H. now apply andb_true_iff in H.
Qed.

Lemma lookup_In {A} k (v : A) kvs : lookup k kvs = Some v -> In (k, v) kvs.
Proof.
  induction kvs as [|[k' v'] r IH]; [discriminate|]. cbn [lookup].
  destruct (pstr_eqb k k') eqn:E.
  - apply pstr_eqb_eq in E; subst. intros H; inversion H. now left.
  - intros H. right. now apply IH.
Qed.

(* -- segs_ok is kept by the two ways a found_xpath_list grows -- *)
Lemma segs_ok_nil : segs_ok []. Proof. split; constructor. Qed.
Lemma segs_ok_empty : segs_ok [[]]. Proof. split; [repeat constructor|constructor]. Qed.

Lemma key_plain_parts n : key_plain n = true ->
  n <> [] /\ mem_chr LB n = false /\ mem_chr SL n = false.
Proof.
  unfold key_plain. intros H. apply andb_true_iff in H as [H H3]. apply andb_true_iff in H as [H1 H2].
  apply negb_true_iff in H2, H3. split; [|now split]. destruct n; [discriminate|discriminate].
Qed.

Lemma segs_ok_snoc fx n : segs_ok fx -> key_plain n = true -> segs_ok (fx ++ [n]).
Proof.
  intros [H1 H2] Hk. destruct (key_plain_parts _ Hk) as [Hne [Hlb Hsl]]. split.
  - apply Forall_app. split; [exact H1|constructor; [exact Hsl|constructor]].
  - assert (Hn : seg_tail_ok n = true).
    { destruct n as [|c n]; [congruence|]. cbn [seg_tail_ok]. apply negb_true_iff. apply N.eqb_neq. intros ->.
      unfold mem_chr in Hlb. cbn [existsb] in Hlb. now rewrite N.eqb_refl in Hlb. }
    destruct fx as [|x fx]; [constructor|]. cbn [app tl] in *.
    apply Forall_app. split; [exact H2|constructor; [exact Hn|constructor]].
Qed.

Lemma dec_of_N_no_sl n : mem_chr SL (dec_of_N n) = false.
Proof.
  apply mem_chr_false. intros H. pose proof (dec_of_N_digits n) as HD. apply all_digits_forall in HD.
  rewrite Forall_forall in HD. apply HD in H. unfold is_digit, SL in H. apply andb_true_iff in H as [Ha Hb].
  apply N.leb_le in Ha. lia.
Qed.

Lemma idx_suffix_no_sl z : mem_chr SL (idx_suffix z) = false.
Proof.
  unfold idx_suffix. apply mem_chr_false. intros [H|H]; [discriminate|].
  apply in_app_or in H. destruct H as [H|[H|[]]]; [|discriminate].
  destruct z; cbn [dec_of_Z] in H.
  - apply mem_chr_In in H. now rewrite dec_of_N_no_sl in H.
  - apply mem_chr_In in H. now rewrite dec_of_N_no_sl in H.
  - destruct H as [H|H]; [discriminate|]. apply mem_chr_In in H. now rewrite dec_of_N_no_sl in H.
Qed.

Lemma segs_ok_suffix pre l z : segs_ok (pre ++ [l]) -> segs_ok (pre ++ [l ++ idx_suffix z]).
Proof.
  intros [H1 H2]. split.
  - apply Forall_app in H1 as [Hp Hl]. apply Forall_app. split; [exact Hp|]. constructor; [|constructor].
    inversion Hl as [|? ? Hl1 Hl2]; subst. rewrite mem_chr_app, Hl1, idx_suffix_no_sl. reflexivity.
  - destruct pre as [|x pre]; [constructor|]. cbn [app tl] in *.
    apply Forall_app in H2 as [Hp Hl]. apply Forall_app. split; [exact Hp|]. constructor; [|constructor].
    inversion Hl as [|? ? Hl1 Hl2]; subst. destruct l as [|c l]; [discriminate|]. exact Hl1.
Qed.

Lemma segs_ok_rebound fx : segs_ok fx -> segs_ok (if match fx with [] => true | _ => false end then [[]] else fx).
Proof. destruct fx; [intros _; apply segs_ok_empty|auto]. Qed.

Section Keys.
Variable root : tree.
Notation ok := (entry_ok root).

Definition rec_keys (rec : tree -> path -> list pstr -> fxl -> pns -> ret) : Prop :=
  forall node pos seeked fx st d, plain seeked = true -> tree_ok node = true ->
    walk root fx = Some (pos, node) -> segs_ok fx ->
    r_out (rec node pos seeked fx st) = Ok (Some d) -> Forall ok d.

Lemma update_all_ok multi o : Forall ok multi -> (forall d, o = Some d -> Forall ok d) ->
  Forall ok (update_all multi (found_truthy o)).
Proof.
  intros Hm Ho. apply Forall_forall. intros kv Hin. apply in_update_all in Hin.
  destruct Hin as [Hin|Hin].
  - rewrite Forall_forall in Hm. now apply Hm.
  - destruct o as [d|]; [|destruct Hin]. specialize (Ho d eq_refl). rewrite Forall_forall in Ho. now apply Ho.
Qed.

Lemma walk_child_idx pre lx pos c xs k child z :
  walk root (pre ++ [lx]) = Some (pos, Lst c xs) ->
  norm_index z (length xs) = Some k -> nth_error xs k = Some child ->
  walk root (pre ++ [lx ++ idx_suffix z]) = Some (pos ++ [PIdx k], child).
Proof.
  rewrite !walk_snoc. destruct (walk root pre) as [pn0|]; [|discriminate]. cbn [obind].
  intros H Hn Hc. rewrite (apply_seg_app _ _ z _ H). unfold apply_idx. cbn [fst snd]. now rewrite Hn, Hc.
Qed.

Lemma star_loop_keys rec c : rec_keys rec ->
  (forall n p s fx st, same_but_last (r_fxl (rec n p s fx st)) fx) ->
  forall xs done pos rest st lx pre loc multi d loc',
  plain rest = true -> tree_ok (Lst c (done ++ xs)) = true ->
  walk root (pre ++ [lx]) = Some (pos, Lst c (done ++ xs)) -> segs_ok (pre ++ [lx]) ->
  same_but_last loc (pre ++ [lx]) -> Forall ok multi ->
  star_loop rec (Lst c (done ++ xs)) pos rest st lx xs (length done) loc multi = (Ok d, loc') ->
  Forall ok d.
Proof.
  intros Hrec Hsbl. induction xs as [|child xs IH]; intros done pos rest st lx pre loc multi d loc' Hp Hok Hw Hsg Hl Hm.
  - cbn [star_loop]. intros H. inversion H; subst. exact Hm.
  - cbn [star_loop]. destruct (is_container child); [|discriminate].
    set (loc1 := set_last loc (lx ++ idx_suffix (Z.of_nat (length done)))).
    assert (E1 : loc1 = pre ++ [lx ++ idx_suffix (Z.of_nat (length done))]).
    { unfold loc1. rewrite (sbl_set_last_eq _ _ _ Hl). apply set_last_snoc. }
    assert (Hnth : nth_error (done ++ child :: xs) (length done) = Some child).
    { rewrite nth_error_app2 by lia. now rewrite Nat.sub_diag. }
    assert (Hw1 : walk root loc1 = Some (pos ++ [PIdx (length done)], child)).
    { rewrite E1. eapply walk_child_idx; [exact Hw| |exact Hnth].
      apply norm_index_nat. rewrite app_length. cbn [length]. lia. }
    assert (Hs1 : segs_ok loc1) by (rewrite E1; now apply segs_ok_suffix).
    set (r := rec child _ _ _ _).
    destruct (r_out r) as [o| | |] eqn:Eo; try discriminate.
    replace (done ++ child :: xs) with ((done ++ [child]) ++ xs) by (now rewrite <- app_assoc).
    replace (S (length done)) with (length (done ++ [child])) by (rewrite app_length; cbn [length]; lia).
    apply IH with (pre := pre).
    + exact Hp.
    + rewrite <- app_assoc. exact Hok.
    + rewrite <- app_assoc. exact Hw.
    + exact Hsg.
    + eapply sbl_trans; [apply Hsbl|]. eapply sbl_trans; [apply sbl_set_last|exact Hl].
    + apply update_all_ok; [exact Hm|]. intros d0 ->.
      eapply Hrec; [exact Hp| |exact Hw1|exact Hs1|exact Eo].
      eapply tree_ok_nth; [exact Hok|exact Hnth].
Qed.

Lemma any_loop_keys rec c : rec_keys rec ->
  forall kvs done pos seeked fx st multi d,
  plain seeked = true -> tree_ok (Dict c (done ++ kvs)) = true ->
  walk root fx = Some (pos, Dict c (done ++ kvs)) -> segs_ok fx -> Forall ok multi ->
  any_loop rec (Dict c (done ++ kvs)) pos seeked fx st kvs multi = Ok d -> Forall ok d.
Proof.
  intros Hrec. induction kvs as [|[k child] kvs IH]; intros done pos seeked fx st multi d Hp Hok Hw Hsg Hm.
  - cbn [any_loop]. intros H. inversion H; subst. exact Hm.
  - cbn [any_loop].
    assert (Hin : In (k, child) (done ++ (k, child) :: kvs)) by (apply in_or_app; right; now left).
    destruct (tree_ok_kv _ _ _ _ Hok Hin) as [Hk Hc].
    assert (Hnext : forall multi', Forall ok multi' ->
              any_loop rec (Dict c (done ++ (k, child) :: kvs)) pos seeked fx st kvs multi' = Ok d -> Forall ok d).
    { intros multi' Hm'.
      replace (done ++ (k, child) :: kvs) with ((done ++ [(k, child)]) ++ kvs) by (now rewrite <- app_assoc).
      apply IH; try assumption; rewrite <- app_assoc; assumption. }
    destruct (is_container child); [|now apply Hnext].
    set (r := rec child _ _ _ _).
    destruct (r_out r) as [o| | |] eqn:Eo; try discriminate.
    apply Hnext. apply update_all_ok; [exact Hm|]. intros d0 ->.
    eapply Hrec; [exact Hp|exact Hc| | |exact Eo]; [|now apply segs_ok_snoc].
    rewrite walk_snoc, Hw. cbn [obind]. rewrite (apply_seg_name _ _ Hk).
    unfold apply_name. cbn [snd fst]. destruct (key_plain_parts _ Hk) as [Hne _].
    destruct k as [|k0 k']; [congruence|].
    rewrite lookup_mid; [reflexivity|]. cbn [tree_ok] in Hok. now apply andb_true_iff in Hok as [Hok _].
Qed.

Lemma fa_keys : forall fuel, rec_keys (fa fuel).
Proof.
  induction fuel as [|f IH]; intros node pos seeked fx st d Hp Hok Hw Hsg; [discriminate|].
  cbn [fa]. destruct seeked as [|s0 rest].
  { cbn [r_out stuck]. intros H. inversion H; subst. constructor; [|constructor].
    exists fx. split; [reflexivity|split; [exact Hw|exact Hsg]]. }
  pose proof Hp as Hp0. cbn [plain forallb] in Hp. apply andb_true_iff in Hp as [H0 Hr]. unfold plain_step in H0.
  destruct (classify s0) as [|ci|eq v|n|e|] eqn:Ec; try discriminate.
  - (* index steps *)
    destruct node as [s|c kvs|c xs]; try (destruct ci as [[| |]|]; discriminate).
    destruct ci as [z|].
    + destruct (norm_index z (length xs)) as [k|] eqn:En; [|discriminate].
      destruct (nth_error xs k) as [child|] eqn:Ek; [|discriminate].
      destruct (is_container child); [|discriminate].
      remember (if match fx with [] => true | _ => false end then [[]] else fx) as loc eqn:Eloc.
      assert (Hwl : walk root loc = Some (pos, Lst c xs)).
      { subst loc. destruct fx; [exact Hw|exact Hw]. }
      assert (Hsl : segs_ok loc) by (subst loc; apply segs_ok_rebound; exact Hsg).
      destruct (last_opt loc) as [l|] eqn:El; [|discriminate].
      pose proof (last_opt_some_snoc _ _ El) as Esn.
      assert (Hwl' : walk root (removelast loc ++ [l]) = Some (pos, Lst c xs)).
      { exact (eq_ind loc (fun q => walk root q = Some (pos, Lst c xs)) Hwl _ Esn). }
      assert (Hsl' : segs_ok (removelast loc ++ [l])).
      { exact (eq_ind loc segs_ok Hsl _ Esn). }
      assert (E1 : set_last loc (l ++ idx_suffix z) = removelast loc ++ [l ++ idx_suffix z]).
      { exact (eq_ind_r (fun q => set_last q (l ++ idx_suffix z) = removelast loc ++ [l ++ idx_suffix z])
                        (set_last_snoc _ _ _) Esn). }
      rewrite E1. cbn [r_out]. intros H.
      eapply IH; [exact Hr| | | |exact H].
      * eapply tree_ok_nth; [exact Hok|exact Ek].
      * eapply walk_child_idx; eassumption.
      * now apply segs_ok_suffix.
    + remember (if match fx with [] => true | _ => false end then [[]] else fx) as loc eqn:Eloc.
      assert (Hwl : walk root loc = Some (pos, Lst c xs)).
      { subst loc. destruct fx; [exact Hw|exact Hw]. }
      assert (Hsl : segs_ok loc) by (subst loc; apply segs_ok_rebound; exact Hsg).
      destruct (last_opt loc) as [lx|] eqn:El; [|discriminate].
      destruct (star_loop (fa f) (Lst c xs) pos rest st lx xs 0 loc []) as [o loc'] eqn:Es.
      cbn [r_out]. destruct o as [d0| | |]; try discriminate. cbn [lift_multi]. intros H. inversion H; subst d0.
      pose proof (last_opt_some_snoc _ _ El) as Esn.
      eapply (star_loop_keys (fa f) c IH (fa_sbl f) xs [] pos rest st lx (removelast loc) loc [] d loc');
        try assumption.
      * exact (eq_ind loc (fun q => walk root q = Some (pos, Lst c xs)) Hwl _ Esn).
      * exact (eq_ind loc segs_ok Hsl _ Esn).
      * exact (eq_ind loc (fun q => same_but_last loc q) (sbl_refl loc) _ Esn).
      * constructor.
  - (* name steps *)
    destruct node as [s|c kvs|c xs]; try discriminate.
    + (* dict *)
      destruct (is_nil_str n) eqn:En; [discriminate|].
      destruct (pstr_eqb n s_star).
      * destruct (r_out (fa f (Dict c kvs) pos rest fx st)) as [o0| | |] eqn:E0; try (intros H; rewrite E0 in H; discriminate).
        cbn [r_out]. rewrite (fa_dict_fxl f c kvs pos rest fx st Hr).
        destruct (any_loop (fa f) (Dict c kvs) pos (s0 :: rest) fx _ kvs _) as [d0| | |] eqn:Ea; try discriminate.
        cbn [lift_multi]. intros H. inversion H; subst d0.
        eapply (any_loop_keys (fa f) c IH kvs []); [exact Hp0|exact Hok|exact Hw|exact Hsg| |exact Ea].
        apply update_all_ok; [constructor|]. intros d0 ->. eapply IH; [exact Hr|exact Hok|exact Hw|exact Hsg|exact E0].
      * destruct (lookup n kvs) as [child|] eqn:El; [|discriminate].
        cbn [r_out stuck]. intros H.
        apply lookup_In in El. destruct (tree_ok_kv _ _ _ _ Hok El) as [Hk Hc].
        eapply IH; [exact Hr|exact Hc| | |exact H]; [|now apply segs_ok_snoc].
        rewrite walk_snoc, Hw. cbn [obind]. rewrite (apply_seg_name _ _ Hk).
        unfold apply_name. cbn [snd fst]. destruct n as [|n0 n']; [discriminate|].
        assert (Hl : lookup (n0 :: n') kvs = Some child).
        { apply In_split in El. destruct El as [done [post ->]]. apply lookup_mid.
          cbn [tree_ok] in Hok. now apply andb_true_iff in Hok as [Hok _]. }
        now rewrite Hl.
    + (* list: fan out over all elements *)
      intros H. eapply IH; [|exact Hok|exact Hw|exact Hsg|exact H].
      cbn [plain forallb]. rewrite plain_allidx. exact Hp0.
Qed.
End Keys.

Lemma apply_idx_resolve root pn z pn' :
  resolve root (fst pn) = Some (snd pn) -> apply_idx pn z = Some pn' -> resolve root (fst pn') = Some (snd pn').
Proof.
  destruct pn as [pos node]. unfold apply_idx. cbn [fst snd]. intros Hr.
  destruct node as [s|c kvs|c xs]; try discriminate.
  destruct (norm_index z (length xs)) as [k|]; [|discriminate].
  destruct (nth_error xs k) as [child|] eqn:E; [|discriminate].
  intros H. inversion H; subst. cbn [fst snd]. rewrite resolve_app, Hr. cbn [resolve]. now rewrite E.
Qed.

Lemma apply_name_resolve root pn n pn' :
  resolve root (fst pn) = Some (snd pn) -> apply_name pn n = Some pn' -> resolve root (fst pn') = Some (snd pn').
Proof.
  destruct pn as [pos node]. unfold apply_name. cbn [fst snd]. intros Hr.
  destruct n as [|n0 n']; [intros H; inversion H; subst; exact Hr|].
  destruct node as [s|c kvs|c xs]; try discriminate.
  destruct (lookup (n0 :: n') kvs) as [child|] eqn:E; [|discriminate].
  intros H. inversion H; subst. cbn [fst snd]. rewrite resolve_app, Hr. cbn [resolve]. now rewrite E.
Qed.

Lemma apply_seg_resolve root pn seg pn' :
  resolve root (fst pn) = Some (snd pn) -> apply_seg pn seg = Some pn' -> resolve root (fst pn') = Some (snd pn').
Proof.
  unfold apply_seg. destruct (parse_seg seg) as [[name idxs]|]; [|discriminate]. cbn [obind fst snd].
  intros Hr. destruct (apply_name pn name) as [pn1|] eqn:E1.
  - pose proof (apply_name_resolve root _ _ _ Hr E1) as H1. clear E1 Hr. revert pn1 H1.
    induction idxs as [|z idxs IH]; intros pn1 H1; cbn [fold_left].
    + intros H. inversion H; subst. exact H1.
    + cbn [obind]. destruct (apply_idx pn1 z) as [pn2|] eqn:E2.
      * apply IH. eapply apply_idx_resolve; eassumption.
      * assert (G : forall l, fold_left (fun acc z => obind acc (fun pn' => apply_idx pn' z)) l (@None (path * tree)) = None)
          by (induction l; auto).
        rewrite G. discriminate.
  - assert (G : forall l, fold_left (fun acc z => obind acc (fun pn' => apply_idx pn' z)) l (@None (path * tree)) = None)
      by (induction l; auto).
    rewrite G. discriminate.
Qed.

(* a segment list that walks to (pos, v) names a real node: v is the subtree at pos *)
Lemma walk_resolve root : forall fx pn, walk root fx = Some pn -> resolve root (fst pn) = Some (snd pn).
Proof.
  intros fx. induction fx as [|seg fx IH] using rev_ind; intros pn.
  - cbn. intros H. inversion H. reflexivity.
  - rewrite walk_snoc. destruct (walk root fx) as [pn0|]; [|discriminate]. cbn [obind].
    apply apply_seg_resolve. now apply IH.
Qed.

Theorem findall_keys_resolve root expr d c' :
  tree_ok root = true -> plain (normalize expr) = true ->
  findall_top init_cell root expr = (Ok (Some d), c') ->
  Forall (fun kv => (exists fx, fst kv = render fx /\ walk root fx = Some (snd kv)) /\
                    resolve root (fst (snd kv)) = Some (snd (snd kv))) d.
Proof.
  intros Hok Hp H. unfold findall_top, findall_parts in H. inversion H as [[Ho Hc]].
  pose proof (fa_keys root _ root [] (normalize expr) [] [] d Hp Hok eq_refl segs_ok_nil Ho) as G.
  eapply Forall_impl; [|exact G]. intros kv [fx [Hk [Hw _]]]. split.
  - exists fx. now split.
  - apply (walk_resolve root fx _ Hw).
Qed.

(* ================================================================================ *)
(* 5. the key string itself: item access (resolve_key) on a returned key              *)
(* ================================================================================ *)
Lemma replace_aux_id old new : forall f s,
  (forall a b, s = a ++ b -> startswith b old = false) -> replace_aux f s old new = s.
Proof.
  induction f as [|f IH]; intros s H; [reflexivity|].
  destruct s as [|c s']; [reflexivity|]. cbn [replace_aux].
  rewrite (H [] (c :: s') eq_refl). f_equal. apply IH.
  intros a b E. apply (H (c :: a) b). now rewrite E.
Qed.

Lemma replace_id s old new :
  (forall a b, s = a ++ b -> startswith b old = false) -> replace s old new = s.
Proof. intros H. unfold replace. destruct old; [reflexivity|]. now apply replace_aux_id. Qed.

Lemma startswith_sl_lb_head b : startswith b [SL; LB] = true -> exists r, b = SL :: LB :: r.
Proof. intros H. apply startswith_spec in H. destruct H as [r ->]. now exists r. Qed.

Lemma join_no_sl_lb : forall fx, segs_ok fx ->
  forall a b, join [SL] fx = a ++ b -> startswith b [SL; LB] = false.
Proof.
  induction fx as [|x fx IH]; intros [H1 H2] a b E.
  - cbn in E. destruct a; [|discriminate]. destruct b; [reflexivity|discriminate].
  - destruct fx as [|y r].
    + cbn [join] in E. pose proof (Forall_inv H1) as Hx. cbn beta in Hx.
      destruct (startswith b [SL; LB]) eqn:Es; [|reflexivity].
      apply startswith_sl_lb_head in Es. destruct Es as [r' ->].
      exfalso. apply mem_chr_false in Hx. apply Hx. rewrite E. apply in_or_app. right. now left.
    + rewrite join_cons in E. pose proof (Forall_inv H1) as Hx. pose proof (Forall_inv_tail H1) as Hrest.
      cbn [tl] in H2. pose proof (Forall_inv H2) as Hy. pose proof (Forall_inv_tail H2) as Hr. cbn beta in Hx, Hy.
      assert (Hok' : segs_ok (y :: r)).
      { split; [exact Hrest|]. cbn [tl]. exact Hr. }
      destruct (startswith b [SL; LB]) eqn:Es; [|reflexivity].
      apply startswith_sl_lb_head in Es. destruct Es as [r' ->]. exfalso.
      symmetry in E. apply app_eq_app in E. destruct E as [l [[Ea Eb]|[Ea Eb]]].
      * (* the cut lies at or after the separator: [SL] ++ J = l ++ b *)
        destruct l as [|c l].
        -- cbn [app] in Eb. inversion Eb as [Ej].
           destruct y as [|cy y']; [discriminate|]. cbn [seg_tail_ok] in Hy.
           assert (Ecy : cy = LB) by (destruct r; cbn [app] in Ej; now inversion Ej).
           subst cy. now rewrite N.eqb_refl in Hy.
        -- cbn [app] in Eb. inversion Eb as [[Ec Ej]].
           assert (G := IH Hok' l (SL :: LB :: r') Ej).
           cbn [startswith] in G. rewrite !N.eqb_refl in G. discriminate.
      * (* the cut lies inside x: b = l ++ [SL] ++ J with x = a ++ l *)
        destruct l as [|c l].
        -- cbn [app] in Eb. inversion Eb as [Ej].
           destruct y as [|cy y']; [discriminate|]. cbn [seg_tail_ok] in Hy.
           assert (Ecy : cy = LB) by (destruct r; cbn [app] in Ej; now inversion Ej).
           subst cy. now rewrite N.eqb_refl in Hy.
        -- cbn [app] in Eb. inversion Eb as [[Ec Ej]]. 
           apply mem_chr_false in Hx. apply Hx. rewrite Ea. apply in_or_app. right. left. now symmetry.
Qed.

Lemma join_nil_inv fx : join [SL] fx = [] -> fx = [] \/ fx = [[]].
Proof.
  destruct fx as [|x [|y r]]; [now left| |].
  - cbn [join]. intros ->. now right.
  - rewrite join_cons. intros H. apply app_eq_nil in H as [_ H]. discriminate.
Qed.

Lemma resolve_key_render root fx : segs_ok fx -> resolve_key root (render fx) = walk root fx.
Proof.
  intros Hs. unfold resolve_key, render, key_segs.
  rewrite (replace_id _ _ _ (join_no_sl_lb fx Hs)).
  cbn [app startswith]. rewrite !N.eqb_refl. cbn [andb skipn obind].
  destruct (join [SL] fx) as [|c j] eqn:Ej.
  - apply join_nil_inv in Ej. destruct Ej as [->| ->]; reflexivity.
  - rewrite <- Ej. rewrite split_chr_join; [reflexivity| |].
    + intros ->. discriminate.
    + destruct Hs as [H1 _]. eapply Forall_impl; [|exact H1]. intros seg H. now apply mem_chr_false.
Qed.

(* every key of the result, given to item access as modelled by resolve_key,
   leads to exactly the node stored under it *)
Theorem findall_keys_resolve_key root expr d c' :
  tree_ok root = true -> plain (normalize expr) = true ->
  findall_top init_cell root expr = (Ok (Some d), c') ->
  Forall (fun kv => resolve_key root (fst kv) = Some (snd kv) /\
                    resolve root (fst (snd kv)) = Some (snd (snd kv))) d.
Proof.
  intros Hok Hp H. unfold findall_top, findall_parts in H. inversion H as [[Ho Hc]].
  pose proof (fa_keys root _ root [] (normalize expr) [] [] d Hp Hok eq_refl segs_ok_nil Ho) as G.
  eapply Forall_impl; [|exact G]. intros kv [fx [Hk [Hw Hs]]]. split.
  - rewrite Hk, resolve_key_render by exact Hs. exact Hw.
  - apply (walk_resolve root fx _ Hw).
Qed.

(* ================================================================================ *)
(* 6. the descendant wildcard //*/name: every node called name, and nothing else      *)
(* ================================================================================ *)
Definition keys_of (d : rdict) : list pstr := map fst d.

Lemma keys_update k (v : path * tree) d k0 : In k0 (keys_of (update k v d)) <-> k0 = k \/ In k0 (keys_of d).
Proof.
  unfold keys_of. induction d as [|[k' v'] r IH]; cbn [update map fst In].
  - intuition.
  - destruct (pstr_eqb k k') eqn:E; cbn [map fst In].
    + apply pstr_eqb_eq in E. subst k'. intuition.
    + rewrite IH. intuition.
Qed.

Lemma keys_update_all (new multi : rdict) k0 :
  In k0 (keys_of (update_all multi new)) <-> In k0 (keys_of multi) \/ In k0 (keys_of new).
Proof.
  unfold update_all. revert multi. induction new as [|[k v] r IH]; intros multi; cbn [fold_left fst snd].
  - unfold keys_of at 3. cbn. intuition.
  - rewrite IH, keys_update. unfold keys_of at 4. cbn [map fst In]. intuition.
Qed.

Lemma key_plain_not_nil n : key_plain n = true -> is_nil_str n = false.
Proof. intros H. destruct (key_plain_parts _ H) as [Hn _]. destruct n; [congruence|reflexivity]. Qed.

Section Desc.
Variable root : tree.
Variables ss sn name : pstr.
Hypothesis Hss : classify ss = KName s_star.
Hypothesis Hsn : classify sn = KName name.
Hypothesis Hname : key_plain name = true.
Hypothesis Hnostar : pstr_eqb name s_star = false.

Lemma name_not_nil : is_nil_str name = false.
Proof. exact (key_plain_not_nil _ Hname). Qed.

Definition recT := tree -> path -> list pstr -> fxl -> pns -> ret.

(* -- what the two loops keep: keys only grow, and every element was searched -- *)
Lemma any_loop_visits (rec : recT) node pos seeked fx st : forall kvs multi d,
  any_loop rec node pos seeked fx st kvs multi = Ok d ->
  (forall k0, In k0 (keys_of multi) -> In k0 (keys_of d)) /\
  (forall k child, In (k, child) kvs -> is_container child = true ->
     exists o, r_out (rec child (pos ++ [PKey k]) seeked (fx ++ [k]) (update (render fx) (node, pos) st)) = Ok o /\
               forall k0, In k0 (keys_of (found_truthy o)) -> In k0 (keys_of d)).
Proof.
  induction kvs as [|[k child] kvs IH]; intros multi d; cbn [any_loop].
  - intros H. inversion H; subst. split; [auto|intros k child []].
  - destruct (is_container child) eqn:Ec.
    + destruct (r_out (rec child (pos ++ [PKey k]) seeked (fx ++ [k]) (update (render fx) (node, pos) st))) as [o| | |] eqn:Eo;
        try discriminate.
      intros H. destruct (IH _ _ H) as [Hm Hv]. split.
      * intros k0 Hk0. apply Hm. apply keys_update_all. now left.
      * intros k' child' [E|Hin] Hc'.
        -- inversion E; subst k' child'. exists o. split; [exact Eo|].
           intros k0 Hk0. apply Hm. apply keys_update_all. now right.
        -- now apply Hv.
    + intros H. destruct (IH _ _ H) as [Hm Hv]. split; [exact Hm|].
      intros k' child' [E|Hin] Hc'; [inversion E; subst; congruence|now apply Hv].
Qed.

Lemma star_loop_visits (rec : recT) node pos rest st lx :
  (forall n p s fx st, same_but_last (r_fxl (rec n p s fx st)) fx) ->
  forall xs i0 loc multi d loc',
  star_loop rec node pos rest st lx xs i0 loc multi = (Ok d, loc') ->
  (forall k0, In k0 (keys_of multi) -> In k0 (keys_of d)) /\
  (forall j child, nth_error xs j = Some child ->
     exists locj o, same_but_last locj loc /\
       r_out (rec child (pos ++ [PIdx (i0 + j)]) rest (set_last locj (lx ++ idx_suffix (Z.of_nat (i0 + j))))
                  (update (render (set_last locj (lx ++ idx_suffix (Z.of_nat (i0 + j))))) (node, pos) st)) = Ok o /\
       forall k0, In k0 (keys_of (found_truthy o)) -> In k0 (keys_of d)).
Proof.
  intros Hsbl. induction xs as [|child xs IH]; intros i0 loc multi d loc'; cbn [star_loop].
  - intros H. inversion H; subst. split; [auto|]. intros [|j] c H0; discriminate.
  - destruct (is_container child); [|discriminate].
    set (loc1 := set_last loc (lx ++ idx_suffix (Z.of_nat i0))).
    destruct (r_out (rec child (pos ++ [PIdx i0]) rest loc1 (update (render loc1) (node, pos) st))) as [o| | |] eqn:Eo;
      try discriminate.
    intros H. destruct (IH _ _ _ _ _ H) as [Hm Hv]. split.
    + intros k0 Hk0. apply Hm. apply keys_update_all. now left.
    + intros [|j] c Hn.
      * cbn [nth_error] in Hn. inversion Hn; subst c. exists loc, o. split; [apply sbl_refl|].
        rewrite Nat.add_0_r. fold loc1. split; [exact Eo|].
        intros k0 Hk0. apply Hm. apply keys_update_all. now right.
      * cbn [nth_error] in Hn. destruct (Hv j c Hn) as [locj [o' [Hs [Hr Hk]]]].
        exists locj, o'. split.
        -- eapply sbl_trans; [exact Hs|]. eapply sbl_trans; [apply Hsbl|]. apply sbl_set_last.
        -- replace (i0 + S j) with (S i0 + j) by lia. split; assumption.
Qed.

(* -- completeness of the key set -- *)
Lemma desc_keys_gen : forall q node pos fx st fuel o v,
  tree_ok node = true -> walk root fx = Some (pos, node) -> segs_ok fx ->
  resolve node (q ++ [PKey name]) = Some v ->
  r_out (fa fuel node pos [ss; sn] fx st) = Ok o ->
  exists fxp, In (render fxp) (keys_of (found_truthy o)) /\
              walk root fxp = Some (pos ++ q ++ [PKey name], v) /\ segs_ok fxp.
Proof.
  induction q as [|step q IH]; intros node pos fx st fuel o v Hok Hw Hsg Hres.
  - (* the node called name is a child of this dictionary: found by the skip call *)
    cbn [app resolve] in Hres. destruct node as [s|c kvs|c xs]; try discriminate.
    destruct (lookup name kvs) as [child|] eqn:El; [|discriminate]. inversion Hres; subst child.
    destruct fuel as [|f]; [discriminate|]. cbn [fa]. rewrite Hss. cbn [is_nil_str s_star pstr_eqb N.eqb Pos.eqb andb].
    destruct (r_out (fa f (Dict c kvs) pos [sn] fx st)) as [o0| | |] eqn:E0;
      try (intros H; rewrite E0 in H; discriminate).
    cbn [r_out].
    (* the skip call itself *)
    destruct f as [|f1]; [discriminate|]. cbn [fa] in E0. rewrite Hsn, name_not_nil, Hnostar, El in E0.
    cbn [r_out stuck] in E0. destruct f1 as [|f2]; [discriminate|]. cbn [fa r_out stuck] in E0.
    inversion E0; subst o0. clear E0.
    destruct (any_loop _ _ _ _ _ _ kvs _) as [d0| | |] eqn:Ea; try discriminate.
    cbn [lift_multi]. intros H. inversion H; subst o. cbn [found_truthy].
    destruct (any_loop_visits _ _ _ _ _ _ _ _ _ Ea) as [Hm _].
    exists (fx ++ [name]). split; [|split].
    + apply Hm. unfold update_all, keys_of. cbn. now left.
    + rewrite walk_snoc, Hw. cbn [obind]. rewrite (apply_seg_name _ _ Hname).
      unfold apply_name. cbn [snd fst]. pose proof name_not_nil as Hn. destruct name as [|n0 n']; [discriminate|].
      now rewrite El.
    + now apply segs_ok_snoc.
  - destruct step as [k|i].
    + (* one dictionary level down *)
      cbn [app resolve] in Hres. destruct node as [s|c kvs|c xs]; try discriminate.
      destruct (lookup k kvs) as [child|] eqn:El; [|discriminate].
      assert (Hcont : is_container child = true).
      { destruct child; [|reflexivity|reflexivity]. destruct q as [|[|] q']; discriminate. }
      apply lookup_In in El. destruct (tree_ok_kv _ _ _ _ Hok El) as [Hk Hc].
      destruct fuel as [|f]; [discriminate|]. cbn [fa]. rewrite Hss. cbn [is_nil_str s_star pstr_eqb N.eqb Pos.eqb andb].
      destruct (r_out (fa f (Dict c kvs) pos [sn] fx st)) as [o0| | |] eqn:E0;
        try (intros H; rewrite E0 in H; discriminate).
      cbn [r_out].
      assert (Hfx0 : r_fxl (fa f (Dict c kvs) pos [sn] fx st) = fx).
      { apply fa_dict_fxl. cbn [plain forallb]. unfold plain_step. now rewrite Hsn. }
      rewrite Hfx0.
      destruct (any_loop _ _ _ _ _ _ kvs _) as [d0| | |] eqn:Ea; try discriminate.
      cbn [lift_multi]. intros H. inversion H; subst o. cbn [found_truthy].
      destruct (any_loop_visits _ _ _ _ _ _ _ _ _ Ea) as [_ Hv].
      destruct (Hv k child El Hcont) as [oc [Hr Hkeys]].
      assert (Hwc : walk root (fx ++ [k]) = Some (pos ++ [PKey k], child)).
      { rewrite walk_snoc, Hw. cbn [obind]. rewrite (apply_seg_name _ _ Hk).
        unfold apply_name. cbn [snd fst]. destruct (key_plain_parts _ Hk) as [Hne _].
        destruct k as [|k0 k']; [congruence|].
        apply In_split in El. destruct El as [done [post ->]]. rewrite lookup_mid; [reflexivity|].
        cbn [tree_ok] in Hok. now apply andb_true_iff in Hok as [Hok _]. }
      destruct (IH child (pos ++ [PKey k]) (fx ++ [k]) _ f oc v Hc Hwc (segs_ok_snoc _ _ Hsg Hk) Hres Hr)
        as [fxp [Hin [Hwp Hsp]]].
      exists fxp. split; [now apply Hkeys|]. split; [|exact Hsp]. rewrite Hwp. now rewrite <- !app_assoc.
    + (* one list level down: the name step fans out *)
      cbn [app resolve] in Hres. destruct node as [s|c kvs|c xs]; try discriminate.
      destruct (nth_error xs i) as [child|] eqn:En; [|discriminate].
      destruct fuel as [|f]; [discriminate|]. cbn [fa]. rewrite Hss.
      destruct f as [|f1]; [discriminate|]. cbn [fa].
      change (classify s_allidx) with (KIdx CStar).
      remember (if match fx with [] => true | _ => false end then [[]] else fx) as loc eqn:Eloc.
      assert (Hwl : walk root loc = Some (pos, Lst c xs)) by (subst loc; destruct fx; exact Hw).
      assert (Hsl : segs_ok loc) by (subst loc; apply segs_ok_rebound; exact Hsg).
      destruct (last_opt loc) as [lx|] eqn:El; [|discriminate].
      pose proof (last_opt_some_snoc _ _ El) as Esn.
      destruct (star_loop (fa f1) (Lst c xs) pos [ss; sn] st lx xs 0 loc []) as [o1 loc'] eqn:Es.
      cbn [r_out]. destruct o1 as [d0| | |]; try discriminate. cbn [lift_multi].
      intros H. inversion H; subst o. cbn [found_truthy].
      destruct (star_loop_visits (fa f1) _ _ _ _ _ (fa_sbl f1) _ _ _ _ _ _ Es) as [_ Hv].
      destruct (Hv i child En) as [locj [oc [Hs [Hr Hkeys]]]]. cbn [Nat.add] in Hr.
      assert (Hsj : same_but_last locj (removelast loc ++ [lx])).
      { exact (eq_ind loc (fun q0 => same_but_last locj q0) Hs _ Esn). }
      assert (E1 : set_last locj (lx ++ idx_suffix (Z.of_nat i)) = removelast loc ++ [lx ++ idx_suffix (Z.of_nat i)]).
      { rewrite (sbl_set_last_eq _ _ _ Hsj). apply set_last_snoc. }
      rewrite E1 in Hr.
      assert (Hwc : walk root (removelast loc ++ [lx ++ idx_suffix (Z.of_nat i)]) = Some (pos ++ [PIdx i], child)).
      { eapply walk_child_idx; [exact (eq_ind loc (fun q0 => walk root q0 = Some (pos, Lst c xs)) Hwl _ Esn)| |exact En].
        apply norm_index_nat. apply nth_error_Some. congruence. }
      assert (Hsc : segs_ok (removelast loc ++ [lx ++ idx_suffix (Z.of_nat i)])).
      { apply segs_ok_suffix. exact (eq_ind loc segs_ok Hsl _ Esn). }
      destruct (IH child (pos ++ [PIdx i]) _ _ f1 oc v (tree_ok_nth _ _ _ _ Hok En) Hwc Hsc Hres Hr)
        as [fxp [Hin [Hwp Hsp]]].
      exists fxp. split; [now apply Hkeys|]. split; [|exact Hsp]. rewrite Hwp. now rewrite <- !app_assoc.
Qed.
End Desc.

(* -- nothing else: every entry of the result is a node called name -- *)
Lemma update_all_forall (P : pstr * (path * tree) -> Prop) multi o :
  Forall P multi -> Forall P (found_truthy o) -> Forall P (update_all multi (found_truthy o)).
Proof.
  intros Hm Ho. apply Forall_forall. intros kv Hin. apply in_update_all in Hin.
  rewrite Forall_forall in Hm, Ho. destruct Hin; auto.
Qed.

Lemma any_loop_all (P : pstr * (path * tree) -> Prop) (rec : recT) node pos seeked fx st :
  (forall n p fx' st' o, r_out (rec n p seeked fx' st') = Ok o -> Forall P (found_truthy o)) ->
  forall kvs multi d, Forall P multi ->
  any_loop rec node pos seeked fx st kvs multi = Ok d -> Forall P d.
Proof.
  intros Hrec. induction kvs as [|[k child] kvs IH]; intros multi d Hm; cbn [any_loop].
  - intros H. inversion H; subst. exact Hm.
  - destruct (is_container child); [|now apply IH].
    destruct (r_out (rec child (pos ++ [PKey k]) seeked (fx ++ [k]) (update (render fx) (node, pos) st))) as [o| | |] eqn:Eo;
      try discriminate.
    apply IH. apply update_all_forall; [exact Hm|]. eapply Hrec. exact Eo.
Qed.

Lemma star_loop_all (P : pstr * (path * tree) -> Prop) (rec : recT) node pos rest st lx :
  (forall n p fx' st' o, r_out (rec n p rest fx' st') = Ok o -> Forall P (found_truthy o)) ->
  forall xs i loc multi d loc', Forall P multi ->
  star_loop rec node pos rest st lx xs i loc multi = (Ok d, loc') -> Forall P d.
Proof.
  intros Hrec. induction xs as [|child xs IH]; intros i loc multi d loc' Hm; cbn [star_loop].
  - intros H. inversion H; subst. exact Hm.
  - destruct (is_container child); [|discriminate].
    match goal with |- context [r_out ?r] => destruct (r_out r) as [o| | |] eqn:Eo end; try discriminate.
    apply IH. apply update_all_forall; [exact Hm|]. eapply Hrec. exact Eo.
Qed.

Section DescSound.
Variables ss sn name : pstr.
Hypothesis Hss : classify ss = KName s_star.
Hypothesis Hsn : classify sn = KName name.
Hypothesis Hname : key_plain name = true.
Hypothesis Hnostar : pstr_eqb name s_star = false.

Definition ends_name (kv : pstr * (path * tree)) : Prop := exists q, fst (snd kv) = q ++ [PKey name].

Lemma skip_call_sound : forall fuel c kvs pos fx st o,
  r_out (fa fuel (Dict c kvs) pos [sn] fx st) = Ok o -> Forall ends_name (found_truthy o).
Proof.
  intros [|f] c kvs pos fx st o; [discriminate|].
  cbn [fa]. rewrite Hsn, (name_not_nil name Hname), Hnostar.
  destruct (lookup name kvs) as [child|]; cbn [r_out stuck].
  - destruct f as [|f1]; [discriminate|]. cbn [fa r_out stuck]. intros H. inversion H; subst o.
    cbn [found_truthy]. constructor; [|constructor]. exists pos. reflexivity.
  - intros H. inversion H; subst o. constructor.
Qed.

Lemma desc_sound : forall fuel node pos fx st sk o,
  sk = [ss; sn] \/ sk = [s_allidx; ss; sn] ->
  r_out (fa fuel node pos sk fx st) = Ok o -> Forall ends_name (found_truthy o).
Proof.
  induction fuel as [|f IH]; intros node pos fx st sk o Hsk; [discriminate|].
  destruct Hsk as [-> | ->]; cbn [fa].
  - rewrite Hss. destruct node as [s|c kvs|c xs]; [discriminate| |].
    + cbn [is_nil_str s_star pstr_eqb N.eqb Pos.eqb andb].
      destruct (r_out (fa f (Dict c kvs) pos [sn] fx st)) as [o0| | |] eqn:E0;
        try (intros H; rewrite E0 in H; discriminate).
      cbn [r_out].
      destruct (any_loop _ _ _ _ _ _ kvs _) as [d0| | |] eqn:Ea; try discriminate.
      cbn [lift_multi]. intros H. inversion H; subst o. cbn [found_truthy].
      eapply any_loop_all; [| |exact Ea].
      * intros n p fx' st' o' Hr. eapply IH; [left; reflexivity|exact Hr].
      * apply update_all_forall; [constructor|]. eapply skip_call_sound. exact E0.
    + apply IH. right. reflexivity.
  - change (classify s_allidx) with (KIdx CStar).
    destruct node as [s|c kvs|c xs]; [discriminate|discriminate|].
    destruct (last_opt _) as [lx|]; [|discriminate].
    destruct (star_loop (fa f) (Lst c xs) pos [ss; sn] st lx xs 0 _ []) as [o1 loc'] eqn:Es.
    cbn [r_out]. destruct o1 as [d0| | |]; try discriminate. cbn [lift_multi].
    intros H. inversion H; subst o. cbn [found_truthy].
    eapply star_loop_all; [| |exact Es].
    + intros n p fx' st' o' Hr. eapply IH; [left; reflexivity|exact Hr].
    + constructor.
Qed.
End DescSound.

(* '//*/name' finds every node called name at any depth and nothing else: whenever
   the search returns (it raises on a list with a scalar element, which is
   outside the quantifier), every position q/name of the tree is in the result
   with its very node, and every entry of the result is such a position. *)
Theorem descendant_complete root ss sn name d c' :
  classify ss = KName s_star -> classify sn = KName name ->
  key_plain name = true -> pstr_eqb name s_star = false ->
  tree_ok root = true ->
  findall_parts init_cell root [ss; sn] = (Ok (Some d), c') ->
  (forall q v, resolve root (q ++ [PKey name]) = Some v -> exists key, In (key, (q ++ [PKey name], v)) d) /\
  (forall key p v, In (key, (p, v)) d -> (exists q, p = q ++ [PKey name]) /\ resolve root p = Some v).
Proof.
  intros Hss Hsn Hname Hns Hok H. unfold findall_parts in H. inversion H as [[Ho Hc]]. clear H Hc.
  assert (Hp : plain [ss; sn] = true).
  { cbn [plain forallb]. unfold plain_step. now rewrite Hss, Hsn. }
  pose proof (fa_keys root _ root [] [ss; sn] [] [] d Hp Hok eq_refl segs_ok_nil Ho) as G.
  split.
  - intros q v Hres.
    destruct (desc_keys_gen root ss sn name Hss Hsn Hname Hns q root [] [] [] _ _ v Hok eq_refl segs_ok_nil Hres Ho)
      as [fxp [Hin [Hwp Hsp]]].
    cbn [found_truthy] in Hin. unfold keys_of in Hin. apply in_map_iff in Hin. destruct Hin as [[key [p' v']] [Hk Hin]].
    cbn [fst] in Hk. rewrite Forall_forall in G. destruct (G _ Hin) as [fx [Hk2 [Hw2 Hs2]]]. cbn [fst snd] in *.
    exists key. change ([] ++ q ++ [PKey name]) with (q ++ [PKey name]) in Hwp.
    assert (E : Some (p', v') = Some (q ++ [PKey name], v)).
    { rewrite <- Hw2, <- Hwp. rewrite <- (resolve_key_render root fx Hs2), <- (resolve_key_render root fxp Hsp).
      now rewrite <- Hk2, <- Hk. }
    inversion E; subst. exact Hin.
  - intros key p v Hin. split.
    + pose proof (desc_sound ss sn name Hss Hsn Hname Hns _ _ _ _ _ _ _ (or_introl eq_refl) Ho) as S.
      cbn [found_truthy] in S. rewrite Forall_forall in S. exact (S _ Hin).
    + rewrite Forall_forall in G. destruct (G _ Hin) as [fx [_ [Hw _]]]. apply (walk_resolve root fx _ Hw).
Qed.

(* ================================================================================ *)
(* 7. a name applied to a list fans out over all its elements                          *)
(* ================================================================================ *)
Lemma star_loop_origin (rec : recT) node pos rest st lx :
  forall xs i0 loc multi d loc',
  star_loop rec node pos rest st lx xs i0 loc multi = (Ok d, loc') ->
  forall kv, In kv d ->
    In kv multi \/
    exists j child fxj stj o, nth_error xs j = Some child /\
      r_out (rec child (pos ++ [PIdx (i0 + j)]) rest fxj stj) = Ok o /\ In kv (found_truthy o).
Proof.
  induction xs as [|child xs IH]; intros i0 loc multi d loc'; cbn [star_loop].
  - intros H kv Hin. inversion H; subst. now left.
  - destruct (is_container child); [|discriminate].
    match goal with |- context [r_out (rec child ?p ?r ?x ?s)] =>
      destruct (r_out (rec child p r x s)) as [o| | |] eqn:Eo; try discriminate;
      intros H kv Hin; destruct (IH _ _ _ _ _ H kv Hin) as [Hm|[j [c [fxj [stj [o' [Hn [Hr Hi]]]]]]]];
      [apply in_update_all in Hm; destruct Hm as [Hm|Hm];
       [now left|right; exists 0, child, x, s, o; rewrite Nat.add_0_r; repeat split; assumption]
      |right; exists (S j), c, fxj, stj, o'; replace (i0 + S j) with (S i0 + j) by lia; repeat split; assumption]
    end.
Qed.

(* a name step applied to a list: every element is searched with the same steps
   (so the name is applied to each element), the keys it yields are in the
   result, and every entry of the result comes from one of the elements *)
Theorem fanout_spec : forall f c xs pos s n rest fx st d,
  classify s = KName n ->
  r_out (fa (S (S f)) (Lst c xs) pos (s :: rest) fx st) = Ok (Some d) ->
  (forall i child, nth_error xs i = Some child ->
     exists fxi sti o, r_out (fa f child (pos ++ [PIdx i]) (s :: rest) fxi sti) = Ok o /\
                       forall k0, In k0 (keys_of (found_truthy o)) -> In k0 (keys_of d)) /\
  (forall kv, In kv d ->
     exists i child fxi sti o, nth_error xs i = Some child /\
       r_out (fa f child (pos ++ [PIdx i]) (s :: rest) fxi sti) = Ok o /\ In kv (found_truthy o)).
Proof.
  intros f c xs pos s n rest fx st d Hs. cbn [fa]. rewrite Hs. change (classify s_allidx) with (KIdx CStar).
  cbv iota. destruct (last_opt _) as [lx|]; [|discriminate].
  match goal with |- context [star_loop ?r ?nd ?p ?rs ?s0 ?l ?x ?i ?lc ?m] =>
    destruct (star_loop r nd p rs s0 l x i lc m) as [o1 loc'] eqn:Es end.
  cbn [r_out]. destruct o1 as [d0| | |]; try discriminate. cbn [lift_multi].
  intros H. inversion H; subst d0. split.
  - intros i child Hn.
    destruct (star_loop_visits (fa f) _ _ _ _ _ (fa_sbl f) _ _ _ _ _ _ Es) as [_ Hv].
    destruct (Hv i child Hn) as [locj [o [_ [Hr Hk]]]]. cbn [Nat.add] in Hr. eauto.
  - intros kv Hin. destruct (star_loop_origin _ _ _ _ _ _ _ _ _ _ _ _ Es kv Hin) as [[]|Hx].
    destruct Hx as [j [child [fxj [stj [o [Hn [Hr Hi]]]]]]]. cbn [Nat.add] in Hr.
    exists j, child, fxj, stj, o. repeat split; assumption.
Qed.

(* ---- a concrete instance (non-vacuity of the guards) ---------------------------- *)
Local Open Scope N_scope.
(* {"Root": {"N1": {"S": [{"tag": "P1"}, {"tag": "P2"}], "name": "n1"}, "name": "rn"}} as n0dict / n0list *)
Definition ex_tree : tree :=
  Dict true [([82; 111; 111; 116],
     Dict true [([78; 49],
                 Dict true [([83], Lst true [Dict true [([116; 97; 103], Leaf (SStr [80; 49]))];
                                             Dict true [([116; 97; 103], Leaf (SStr [80; 50]))]]);
                            ([110; 97; 109; 101], Leaf (SStr [110; 49]))]);
                ([110; 97; 109; 101], Leaf (SStr [114; 110]))])].
(* //Root/N1/S/tag : a name applied to a list fans out *)
Definition ex_fan : pstr := [47; 47; 82; 111; 111; 116; 47; 78; 49; 47; 83; 47; 116; 97; 103].
(* //*/name *)
Definition ex_desc : pstr := [47; 47; 42; 47; 110; 97; 109; 101].
(* //Root/N1/S/.. *)
Definition ex_up : pstr := [47; 47; 82; 111; 111; 116; 47; 78; 49; 47; 83; 47; 46; 46].
Lemma nonvacuous :
  tree_ok ex_tree = true /\ plain (normalize ex_fan) = true /\ plain (normalize ex_desc) = true /\
  (exists d, fst (findall_top init_cell ex_tree ex_fan) = Ok (Some d) /\ length d = 2%nat) /\
  (exists d, fst (findall_top init_cell ex_tree ex_desc) = Ok (Some d) /\ length d = 2%nat).
Proof.
  split; [vm_compute; reflexivity|]. split; [vm_compute; reflexivity|]. split; [vm_compute; reflexivity|].
  split; eexists; split; vm_compute; reflexivity.
Qed.
Local Close Scope N_scope.

(* ================================================================================ *)
(* 4. an exact path finds exactly its node                                            *)
(* ================================================================================ *)
(* [addr node seeked p v]: the step strings address, one by one, the position p
   below node, whose subtree is v - whatever spelling a step uses ([i], [-k],
   [ i ], last()...), as long as it classifies as that name / that index.  List
   elements on the way are containers (the quantifier's domain). *)
Inductive addr : tree -> list pstr -> path -> tree -> Prop :=
| A_nil t : addr t [] [] t
| A_key c kvs s n child rest p v :
    classify s = KName n -> is_nil_str n = false -> pstr_eqb n s_star = false ->
    lookup n kvs = Some child -> addr child rest p v ->
    addr (Dict c kvs) (s :: rest) (PKey n :: p) v
| A_idx c xs s z k child rest p v :
    classify s = KIdx (CInt z) -> norm_index z (length xs) = Some k ->
    nth_error xs k = Some child -> is_container child = true -> addr child rest p v ->
    addr (Lst c xs) (s :: rest) (PIdx k :: p) v.

Lemma addr_resolve node seeked p v : addr node seeked p v -> resolve node p = Some v.
Proof.
  induction 1; cbn [resolve]; [reflexivity| |].
  - now rewrite H2.
  - now rewrite H1.
Qed.

Lemma exact_path_gen : forall node seeked p v, addr node seeked p v ->
  forall fuel pos fx st, length seeked < fuel ->
  exists key, r_out (fa fuel node pos seeked fx st) = Ok (Some [(key, (pos ++ p, v))]).
Proof.
  induction 1 as [t|c kvs s n child rest p v Hc Hn Hs Hl Ha IH|c xs s z k child rest p v Hc Hn Hk Hcont Ha IH];
    intros fuel pos fx st Hf; (destruct fuel as [|f]; [cbn in Hf; lia|]).
  - cbn [fa r_out stuck]. rewrite app_nil_r. eauto.
  - cbn [fa]. rewrite Hc, Hn, Hs, Hl. cbn [r_out stuck].
    destruct (IH f (pos ++ [PKey n]) (fx ++ [n]) (update (render fx) (Dict c kvs, pos) st)) as [key Hk];
      [cbn [length] in Hf; lia|].
    exists key. rewrite Hk. now rewrite <- app_assoc.
  - cbn [fa]. rewrite Hc, Hn, Hk, Hcont.
    set (loc := if match fx with [] => true | _ => false end then [[]] else fx).
    assert (Hne : loc <> []) by (unfold loc; destruct fx; discriminate).
    destruct (last_opt loc) as [l|] eqn:El; [|apply last_opt_none in El; contradiction].
    cbn [r_out].
    match goal with |- context [fa f child ?p ?r ?x ?s] => destruct (IH f p x s) as [key Hkey]; [cbn [length] in Hf; lia|] end.
    exists key. rewrite Hkey. now rewrite <- app_assoc.
Qed.

Theorem exact_path_finds root seeked p v :
  addr root seeked p v ->
  exists key, fst (findall_parts init_cell root seeked) = Ok (Some [(key, (p, v))]).
Proof.
  intros Ha. unfold findall_parts. cbn [fst].
  destruct (exact_path_gen _ _ _ _ Ha (fuel_for root seeked) [] [] []) as [key Hk].
  - unfold fuel_for. nia.
  - exists key. exact Hk.
Qed.

(* the last() spelling of an exact path: //Root/N1/S[last()]/tag addresses S[1]/tag *)
Local Open Scope N_scope.
Definition ex_last : pstr :=
  [47; 47; 82; 111; 111; 116; 47; 78; 49; 47; 83; 91; 108; 97; 115; 116; 40; 41; 93; 47; 116; 97; 103].
Lemma exact_example :
  addr ex_tree (normalize ex_last)
       [PKey [82; 111; 111; 116]; PKey [78; 49]; PKey [83]; PIdx 1; PKey [116; 97; 103]] (Leaf (SStr [80; 50])).
Proof.
  change (normalize ex_last) with [[82; 111; 111; 116]; [78; 49]; [83]; [91; 108; 97; 115; 116; 40; 41; 93]; [116; 97; 103]].
  unfold ex_tree.
  eapply A_key; [vm_compute; reflexivity|reflexivity|reflexivity|vm_compute; reflexivity|].
  eapply A_key; [vm_compute; reflexivity|reflexivity|reflexivity|vm_compute; reflexivity|].
  eapply A_key; [vm_compute; reflexivity|reflexivity|reflexivity|vm_compute; reflexivity|].
  eapply A_idx with (z := (-1)%Z); [vm_compute; reflexivity|vm_compute; reflexivity|reflexivity|reflexivity|].
  eapply A_key; [vm_compute; reflexivity|reflexivity|reflexivity|vm_compute; reflexivity|].
  apply A_nil.
Qed.
Local Close Scope N_scope.

(* the hypotheses of descendant_complete hold for //*/name on ex_tree *)
Local Open Scope N_scope.
Lemma descendant_example :
  normalize ex_desc = [s_star; [110; 97; 109; 101]] /\
  classify s_star = KName s_star /\ classify [110; 97; 109; 101] = KName [110; 97; 109; 101] /\
  key_plain [110; 97; 109; 101] = true /\ pstr_eqb [110; 97; 109; 101] s_star = false /\
  exists d c, findall_parts init_cell ex_tree [s_star; [110; 97; 109; 101]] = (Ok (Some d), c) /\ length d = 2%nat.
Proof.
  repeat split; try (vm_compute; reflexivity). eexists. eexists. split; vm_compute; reflexivity.
Qed.
Local Close Scope N_scope.
