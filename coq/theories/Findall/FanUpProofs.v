(* Findall/FanUpProofs.v — '../..' behind a fan-out: a name applied to a list, '[*]' and the exact index are three
   spellings under which the selected leaf has the same ancestors; two levels up is the owner of the list in all of
   them (a list is no level of its own on the parent stack).  Concrete instance, computed in the kernel. *)
From Coq Require Import List NArith ZArith Bool.
From N0 Require Import Base.PyStr Base.PyVal N0xml.Util Findall.Util Findall.Model.
Import ListNotations.

Definition fu_tree : tree :=
  Dict true [([115; 104; 111; 112]%N, Dict true [([99; 117; 114; 114; 101; 110; 99; 121]%N, Leaf (SStr [69; 85; 82]%N));
                              ([105; 116; 101; 109; 115]%N, Lst true [Dict true [([115; 107; 117]%N, Leaf (SStr [65; 49]%N))]; Dict true [([115; 107; 117]%N, Leaf (SStr [66; 50]%N))]])])].
Definition fu_name : pstr := [47; 47; 115; 104; 111; 112; 47; 105; 116; 101; 109; 115; 47; 115; 107; 117; 91; 116; 101; 120; 116; 40; 41; 61; 66; 50; 93; 47; 46; 46; 47; 46; 46; 47; 99; 117; 114; 114; 101; 110; 99; 121]%N.
Definition fu_star : pstr := [47; 47; 115; 104; 111; 112; 47; 105; 116; 101; 109; 115; 91; 42; 93; 47; 115; 107; 117; 91; 116; 101; 120; 116; 40; 41; 61; 66; 50; 93; 47; 46; 46; 47; 46; 46; 47; 99; 117; 114; 114; 101; 110; 99; 121]%N.
Definition fu_idx : pstr := [47; 47; 115; 104; 111; 112; 47; 105; 116; 101; 109; 115; 91; 49; 93; 47; 115; 107; 117; 91; 116; 101; 120; 116; 40; 41; 61; 66; 50; 93; 47; 46; 46; 47; 46; 46; 47; 99; 117; 114; 114; 101; 110; 99; 121]%N.
Definition fu_key : pstr := [47; 47; 115; 104; 111; 112; 47; 99; 117; 114; 114; 101; 110; 99; 121]%N.   (* //shop/currency *)
Definition fu_expected : res (option rdict) :=
  Ok (Some [(fu_key, ([PKey [115; 104; 111; 112]%N; PKey [99; 117; 114; 114; 101; 110; 99; 121]%N], Leaf (SStr [69; 85; 82]%N)))]).

Lemma fan_up_example :
  fst (findall_top init_cell fu_tree fu_name) = fu_expected /\
  fst (findall_top init_cell fu_tree fu_star) = fu_expected /\
  fst (findall_top init_cell fu_tree fu_idx) = fu_expected.
Proof. vm_compute. repeat split. Qed.
