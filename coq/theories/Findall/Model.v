(* Findall/Model.v — executable model of n0struct/n0struct_findall.py:
   findall (10-27, expression normalisation), _findall (42-294) and findfirst
   (29-40), as called through n0dict.findall / n0list.findall.

   _findall has two mutable default arguments, found_xpath_list = [] and
   parent_nodes_stack = {}.  Python evaluates them once; every top-level
   search receives the same two objects.  The model therefore threads the state
   of the two objects a call RECEIVED back to its caller: [fa] returns, beside
   the outcome, the final contents of the list object and of the dictionary
   object it was given.  A caller that passed its own object on (by reference)
   adopts the returned state; a caller that passed a fresh object (a slice, a
   concatenation, a dict display) ignores it.  The top-level call is given the
   contents of the defaults cell and writes the returned state back to it, so
   "the default object was mutated" is expressible.  Nodes carry their position
   in the root (identity = position).  No proofs in this file. *)
From Coq Require Import List NArith ZArith Bool Lia.
From N0 Require Import Base.PyStr Base.PyVal N0xml.Util Findall.Util.
Import ListNotations.

Definition LB : N := 91%N.   (* [ *)
Definition RB : N := 93%N.   (* ] *)
Definition SL : N := 47%N.   (* / *)
Definition s_dotdot : pstr := [46; 46]%N.
Definition s_star : pstr := [42]%N.
Definition s_allidx : pstr := [LB; 42; RB]%N.     (* [*] *)

Definition fxl := list pstr.                       (* found_xpath_list *)
Definition pns := list (pstr * (tree * path)).     (* parent_nodes_stack: key -> node (with its position) *)
Definition rdict := list (pstr * (path * tree)).   (* the returned mapping: key -> node (with its position) *)

(* "//" + "/".join(found_xpath_list).replace('/[', '[') *)
Definition render (fx : fxl) : pstr := [SL; SL] ++ replace (join [SL] fx) [SL; LB] [LB].

Record ret := { r_out : res (option rdict); r_fxl : fxl; r_pns : pns }.

(* ---- what kind of step seeked_xpath_list[0] is ---------------------------------- *)
Inductive cidx := CInt (z : Z) | CStar.
Inductive stepk :=
| KUp                              (* '..' *)
| KIdx (c : cidx)                  (* [int] [*] [last()...] *)
| KText (eq : bool) (v : pstr)     (* [text() op value]: value_for_condition *)
| KName (n : pstr)
| KErr (e : exn)
| KUnm.

Definition is_ascii (s : pstr) : bool := forallb (fun c => (c <? 128)%N) s.

(* n0struct_utils.isnumber on a str (ASCII) *)
Definition count_chr (c : N) (s : pstr) : nat := length (filter (N.eqb c) s).
Definition isnumber (s : pstr) : bool :=
  let v := strip s in
  let v := match v with c :: r => if (N.eqb c 43 || N.eqb c 45) then strip r else v | [] => v end in
  let v := if Nat.eqb (count_chr 46 v) 1 then map (fun c => if N.eqb c 46 then 48%N else c) v else v in
  negb (match v with [] => true | _ => false end) && forallb is_digit v.

(* eval("-1" + after_last) for the spellings modelled: nothing, digits, one signed number *)
Definition no_lead0 (ds : pstr) : bool := match ds with [48%N] => true | 48%N :: _ => false | [] => false | _ => all_digits ds end.
Definition eval_last (after : pstr) : stepk :=
  if negb (forallb (fun c => mem_chr c [45; 43; 48; 49; 50; 51; 52; 53; 54; 55; 56; 57]%N) after) then KErr ExSyntax
  else match after with
       | [] => KIdx (CInt (-1))
       | c :: ds =>
         if is_digit c then
           match parse_dec (49%N :: after) with Some n => KIdx (CInt (- Z.of_N n)) | None => KUnm end
         else if no_lead0 ds then
           match parse_dec ds with
           | Some n => KIdx (CInt (if N.eqb c 43 then -1 + Z.of_N n else -1 - Z.of_N n)%Z)
           | None => KUnm
           end
         else match ds with [] => KErr ExSyntax | _ => KUnm end
       end.

Definition is_q (c : N) : bool := (N.eqb c 34 || N.eqb c 39).
Definition unquote (v : pstr) : pstr :=
  match v, rev v with
  | a :: _ :: _, b :: _ => if is_q a && N.eqb a b then removelast (tl v) else v
  | _, _ => v
  end.

Definition s_text : pstr := [116; 101; 120; 116; 40; 41]%N.   (* text() *)
Definition s_last : pstr := [108; 97; 115; 116; 40; 41]%N.    (* last() *)

Definition classify (s : pstr) : stepk :=
  if pstr_eqb (strip s) s_dotdot then KUp
  else if startswith s [LB] then
    if negb (endswith s [RB]) then KErr ExType else
    let ci := strip (removelast (tl s)) in
    if negb (is_ascii ci) then KUnm else
    if isnumber ci then
      match py_int ci with Some z => KIdx (CInt z) | None => KErr ExValue end
    else
      let lci := filter (fun c => negb (N.eqb c 32)) (lower ci) in
      if pstr_eqb lci s_star then KIdx CStar
      else if startswith lci s_last then eval_last (skipn 6 lci)
      else if startswith lci s_text then
        let after := skipn 6 lci in
        let go (delim : pstr) (eq : bool) : stepk :=
          match split_str ci delim with
          | _ :: a :: rest => KText eq (unquote (strip (join delim (a :: rest))))
          | _ => KErr ExValue
          end in
        if startswith after [61; 61]%N then go [61; 61]%N true
        else if startswith after [61]%N then go [61]%N true
        else if startswith after [33; 61]%N then go [33; 61]%N false
        else if startswith after [60; 62]%N then go [60; 62]%N false
        else KErr ExType
      else KErr ExType
  else KName s.

(* ---- helpers on nodes --------------------------------------------------------------- *)
Definition is_container (t : tree) : bool := match t with Leaf _ => false | _ => true end.

(* parent_node[child_index] with Python's negative indexes; None = out of range *)
Definition norm_index (z : Z) (len : nat) : option nat :=
  if (0 <=? z)%Z then (if (z <? Z.of_nat len)%Z then Some (Z.to_nat z) else None)
  else (if (- z <=? Z.of_nat len)%Z then Some (Z.to_nat (Z.of_nat len + z)) else None).

Definition idx_suffix (z : Z) : pstr := LB :: dec_of_Z z ++ [RB].
Definition found_truthy (o : option rdict) : rdict := match o with Some d => d | None => [] end.

Definition stuck (o : res (option rdict)) (fx : fxl) (st : pns) : ret :=
  {| r_out := o; r_fxl := fx; r_pns := st |}.

(* ---- _findall ------------------------------------------------------------------------ *)
Section Loops.
  (* the recursive call *)
  Variable rec : tree -> path -> list pstr -> fxl -> pns -> ret.

  (* for child_index, child_node in enumerate(parent_node): the [*] fan-out.
     [loc] is the list object the local name found_xpath_list refers to *)
  Fixpoint star_loop (node : tree) (pos : path) (rest : list pstr) (st : pns) (last_xpath : pstr)
           (xs : list tree) (i : nat) (loc : fxl) (multi : rdict) : res rdict * fxl :=
    match xs with
    | [] => (Ok multi, loc)
    | child :: xs' =>
      if is_container child then
        let loc1 := set_last loc (last_xpath ++ idx_suffix (Z.of_nat i)) in
        let r := rec child (pos ++ [PIdx i]) rest loc1 (update (render loc1) (node, pos) st) in
        match r_out r with
        | Ok o => star_loop node pos rest st last_xpath xs' (S i) (r_fxl r) (update_all multi (found_truthy o))
        | Raise e => (Raise e, r_fxl r)
        | OutOfFuel => (OutOfFuel, r_fxl r)
        | Unmodelled => (Unmodelled, r_fxl r)
        end
      else (Raise ExIndex, loc)
    end.

  (* for child_name in parent_node: the '*' descent into every container child *)
  Fixpoint any_loop (node : tree) (pos : path) (seeked : list pstr) (fx : fxl) (st : pns)
           (kvs : list (pstr * tree)) (multi : rdict) : res rdict :=
    match kvs with
    | [] => Ok multi
    | (k, child) :: kvs' =>
      if is_container child then
        let r := rec child (pos ++ [PKey k]) seeked (fx ++ [k]) (update (render fx) (node, pos) st) in
        match r_out r with
        | Ok o => any_loop node pos seeked fx st kvs' (update_all multi (found_truthy o))
        | Raise e => Raise e
        | OutOfFuel => OutOfFuel
        | Unmodelled => Unmodelled
        end
      else any_loop node pos seeked fx st kvs' multi
    end.
End Loops.

Definition is_nil_str (s : pstr) : bool := match s with [] => true | _ => false end.

Definition lift_multi (r : res rdict) : res (option rdict) :=
  match r with Ok d => Ok (Some d) | Raise e => Raise e | OutOfFuel => OutOfFuel | Unmodelled => Unmodelled end.

Fixpoint fa (fuel : nat) (node : tree) (pos : path) (seeked : list pstr) (fx : fxl) (st : pns) : ret :=
  match fuel with
  | O => stuck OutOfFuel fx st
  | S f =>
    match seeked with
    | [] => stuck (Ok (Some [(render fx, (pos, node))])) fx st
    | s0 :: rest =>
      match classify s0 with
      | KUnm => stuck Unmodelled fx st
      | KErr e => stuck (Raise e) fx st
      | KUp =>
        if Nat.ltb (length st) 2 then stuck (Raise ExType) fx st   (* the message itself fails: list + str *)
        else
          let st' := removelast st in                                (* del parent_nodes_stack[last key] *)
          match last_opt st' with
          | Some (_, (tnode, tpos)) =>
            let r := fa f tnode tpos rest (removelast fx) st' in     (* found_xpath_list[:-1] is a new list *)
            {| r_out := r_out r; r_fxl := fx; r_pns := r_pns r |}
          | None => stuck (Raise ExIndex) fx st'
          end
      | KText eq v =>
        match node with
        | Leaf (SStr s) =>
          if negb (Bool.eqb (pstr_eqb (lower s) (lower v)) eq) then stuck (Ok None) fx st
          else
            match last_opt fx with
            | None => stuck (Raise ExIndex) fx st
            | Some l =>
              let fx1 := set_last fx (l ++ s0) in                    (* found_xpath_list[-1] += seeked[0] *)
              let r := fa f node pos rest fx1 (update (render fx1) (node, pos) st) in
              {| r_out := r_out r; r_fxl := r_fxl r; r_pns := st |}
            end
        | Leaf (SBytes _) => stuck Unmodelled fx st
        | _ => stuck (Raise ExAttribute) fx st                       (* no .lower() *)
        end
      | KName n =>
        match node with
        | Lst _ _ => fa f node pos (s_allidx :: seeked) fx st        (* both objects passed on *)
        | Dict _ kvs =>
          if is_nil_str n then stuck (Raise ExKey) fx st
          else if pstr_eqb n s_star then
            let r0 := fa f node pos rest fx st in                    (* skip '*': both objects passed on *)
            match r_out r0 with
            | Ok o0 =>
              {| r_out := lift_multi (any_loop (fa f) node pos seeked (r_fxl r0) (r_pns r0) kvs (update_all [] (found_truthy o0)));
                 r_fxl := r_fxl r0; r_pns := r_pns r0 |}
            | _ => r0
            end
          else
            match lookup n kvs with
            | Some child =>
              let r := fa f child (pos ++ [PKey n]) rest (fx ++ [n]) (update (render fx) (node, pos) st) in
              stuck (r_out r) fx st
            | None => stuck (Ok None) fx st
            end
        | Leaf _ => stuck (Raise ExKey) fx st
        end
      | KIdx c =>
        match node with
        | Lst _ xs =>
          match c with
          | CInt z =>
            match norm_index z (length xs) with
            | None => stuck (Raise ExIndex) fx st
            | Some k =>
              match nth_error xs k with
              | Some child =>
                if is_container child then
                  (* if not len(found_xpath_list): found_xpath_list = [""]  -- a rebinding (as repaired) *)
                  let rebound := match fx with [] => true | _ => false end in
                  let loc := if rebound then [[]] else fx in
                  match last_opt loc with
                  | None => stuck (Raise ExIndex) fx st
                  | Some l =>
                    let fx1 := set_last loc (l ++ idx_suffix z) in   (* found_xpath_list[-1] += "[i]" *)
                    let r := fa f child (pos ++ [PIdx k]) rest fx1 (update (render fx1) (node, pos) st) in
                    {| r_out := r_out r; r_fxl := if rebound then fx else r_fxl r; r_pns := st |}
                  end
                else stuck (Raise ExIndex) fx st
              | None => stuck (Raise ExIndex) fx st
              end
            end
          | CStar =>
            (* if not len(found_xpath_list): found_xpath_list = [""]  -- a rebinding, not a mutation *)
            let rebound := match fx with [] => true | _ => false end in
            let loc := if rebound then [[]] else fx in
            match last_opt loc with
            | None => stuck (Raise ExIndex) fx st
            | Some last_xpath =>
              let '(o, loc') := star_loop (fa f) node pos rest st last_xpath xs 0 loc [] in
              {| r_out := lift_multi o; r_fxl := if rebound then fx else loc'; r_pns := st |}
            end
          end
        | Dict _ _ =>
          match c with
          | CInt 0 => stuck (Raise ExKey) fx st
          | _ => stuck (Raise ExIndex) fx st
          end
        | Leaf _ => stuck (Raise ExKey) fx st
        end
      end
    end
  end.

(* ---- findall: expression normalisation and the top-level call --------------------- *)
Definition normalize (s : pstr) : list pstr :=
  let s := if startswith s [46; SL]%N then skipn 2 s else s in
  let s := if startswith s [SL; SL] then skipn 2 s else s in
  let s := if startswith s [SL] then skipn 1 s else s in
  filter (fun itm => negb (is_nil_str itm))
         (split_chr SL (replace (replace s [LB] [SL; LB]) [SL; SL] [SL])).

Fixpoint theight (t : tree) : nat :=
  match t with
  | Leaf _ => O
  | Dict _ kvs => S (fold_right (fun kv m => Nat.max (theight (snd kv)) m) O kvs)
  | Lst _ xs => S (fold_right (fun x m => Nat.max (theight x) m) O xs)
  end.

Definition fuel_for (root : tree) (parts : list pstr) : nat :=
  (length parts + 2) * (2 * theight root + 3) + 2.

(* the defaults cell: the contents of _findall.__defaults__[0:2] *)
Definition cell := (fxl * pns)%type.
Definition init_cell : cell := ([], []).

(* one top-level search: _findall(current_node, seeked_xpath_list) with both defaults *)
Definition findall_parts (c : cell) (root : tree) (parts : list pstr) : res (option rdict) * cell :=
  let r := fa (fuel_for root parts) root [] parts (fst c) (snd c) in
  (r_out r, (r_fxl r, r_pns r)).
Definition findall_top (c : cell) (root : tree) (expr : pstr) : res (option rdict) * cell :=
  findall_parts c root (normalize expr).

(* findfirst(current_node, expr, raise_exception) *)
Definition findfirst_of (found : res (option rdict)) (raise_exception : bool) : res (option (pstr * (path * tree))) :=
  match found with
  | Ok o =>
    match found_truthy o with
    | [] => if raise_exception then Raise ExIndex else Ok None
    | kv :: more =>
      match more with
      | _ :: _ => if raise_exception then Raise ExIndex else Ok (Some kv)
      | [] => Ok (Some kv)
      end
    end
  | Raise e => Raise e
  | OutOfFuel => OutOfFuel
  | Unmodelled => Unmodelled
  end.
Definition findfirst_top (c : cell) (root : tree) (expr : pstr) (raise_exception : bool)
  : res (option (pstr * (path * tree))) * cell :=
  let '(o, c') := findall_top c root expr in (findfirst_of o raise_exception, c').

(* a sequence of searches in one process: each outcome with the cell after it *)
Fixpoint run_seq (c : cell) (calls : list (tree * pstr)) : list (res (option rdict) * cell) :=
  match calls with
  | [] => []
  | (root, expr) :: more =>
    let oc := findall_top c root expr in
    oc :: run_seq (snd oc) more
  end.

(* ---- the rendered-xpath resolver: what item access does with a returned key ------- *)
Inductive gst := GOut (acc : list Z) | GIn (acc : list Z) (cur : pstr) | GFail.
Definition gstep (s : gst) (c : N) : gst :=
  match s with
  | GOut acc => if N.eqb c LB then GIn acc [] else GFail
  | GIn acc cur =>
    if N.eqb c RB then match py_int (rev cur) with Some z => GOut (acc ++ [z]) | None => GFail end
    else GIn acc (c :: cur)
  | GFail => GFail
  end.
Definition parse_groups (s : pstr) : option (list Z) :=
  match fold_left gstep s (GOut []) with GOut acc => Some acc | _ => None end.
Definition parse_seg (s : pstr) : option (pstr * list Z) :=
  let (name, rest) := span (fun c => negb (N.eqb c LB)) s in
  match parse_groups rest with Some idxs => Some (name, idxs) | None => None end.

Definition apply_idx (pn : path * tree) (z : Z) : option (path * tree) :=
  match snd pn with
  | Lst _ xs =>
    match norm_index z (length xs) with
    | Some k => match nth_error xs k with Some c => Some (fst pn ++ [PIdx k], c) | None => None end
    | None => None
    end
  | _ => None
  end.
Definition apply_name (pn : path * tree) (name : pstr) : option (path * tree) :=
  match name with
  | [] => Some pn
  | _ => match snd pn with
         | Dict _ kvs => match lookup name kvs with Some c => Some (fst pn ++ [PKey name], c) | None => None end
         | _ => None
         end
  end.
Definition obind {A B} (o : option A) (f : A -> option B) : option B := match o with Some a => f a | None => None end.
Definition apply_seg (pn : path * tree) (seg : pstr) : option (path * tree) :=
  obind (parse_seg seg) (fun ni =>
    fold_left (fun acc z => obind acc (fun pn' => apply_idx pn' z)) (snd ni) (apply_name pn (fst ni))).
Definition walk (root : tree) (segs : list pstr) : option (path * tree) :=
  fold_left (fun acc seg => obind acc (fun pn => apply_seg pn seg)) segs (Some ([], root)).

Definition key_segs (key : pstr) : option (list pstr) :=
  if startswith key [SL; SL] then
    Some (match skipn 2 key with [] => [] | r => split_chr SL r end)
  else None.
Definition resolve_key (root : tree) (key : pstr) : option (path * tree) :=
  obind (key_segs key) (walk root).

(* ---- observations ------------------------------------------------------------------ *)
Definition s_raise : pstr := [114; 97; 105; 115; 101]%N.   (* the word raise: all exception classes collapsed *)
Definition enc_out (o : res (option rdict)) : tree :=
  match o with
  | Ok None => t_none
  | Ok (Some d) => Dict false (map (fun kv => (fst kv, snd (snd kv))) d)
  | _ => t_str s_raise
  end.
Definition enc_cell (c : cell) : tree :=
  Lst false [t_strs (fst c); Dict false (map (fun kv => (fst kv, fst (snd kv))) (snd c))].

Definition res_status {A} (o : res A) : option out :=
  match o with OutOfFuel => Some OutOfFuel | Unmodelled => Some Unmodelled | _ => None end.

(* findall on one tree from the initial cell: [outcome; defaults afterwards; the tree afterwards] *)
Definition obs_findall (x : tree * pstr) : out :=
  let '(o, c) := findall_top init_cell (fst x) (snd x) in
  match res_status o with
  | Some bad => bad
  | None => Ok (Lst false [enc_out o; enc_cell c; fst x])
  end.

(* a sequence of searches on several trees: per call [outcome; defaults afterwards] *)
Definition obs_seq (x : list tree * list (nat * pstr)) : out :=
  let calls := map (fun ie => (nth (fst ie) (fst x) (Leaf SNone), snd ie)) (snd x) in
  let ocs := run_seq init_cell calls in
  match find (fun oc => match res_status (fst oc) with Some _ => true | None => false end) ocs with
  | Some oc => match res_status (fst oc) with Some bad => bad | None => Unmodelled end
  | None => Ok (Lst false (map (fun oc => Lst false [enc_out (fst oc); enc_cell (snd oc)]) ocs))
  end.

(* findfirst: (key, value) | (None, None) | IndexError | any other exception *)
Definition obs_findfirst (x : tree * pstr * bool) : out :=
  let '(o, _) := findfirst_top init_cell (fst (fst x)) (snd (fst x)) (snd x) in
  match o with
  | Ok (Some kv) => Ok (Lst false [t_str (fst kv); snd (snd kv)])
  | Ok None => Ok (Lst false [t_none; t_none])
  | Raise ExIndex => Raise ExIndex
  | Raise _ => Raise ExOther
  | OutOfFuel => OutOfFuel
  | Unmodelled => Unmodelled
  end.

(* item access with a returned key *)
Definition obs_getitem (x : tree * pstr) : out :=
  match resolve_key (fst x) (snd x) with
  | Some pn => Ok (snd pn)
  | None => Raise ExOther
  end.
