(* Findall/Util.v — list / dictionary helpers for the model of
   n0struct_findall.py (C19): last element access and in-place style updates of
   the last element, ordered-dictionary merge.  The decimal / int() helpers are
   shared with N0xml/Util.v. *)
From Coq Require Import List NArith ZArith Bool Lia.
From N0 Require Import Base.PyStr Base.PyVal N0xml.Util.
Import ListNotations.

(* l[-1] = x  (l non-empty) *)
Fixpoint set_last {A} (l : list A) (x : A) : list A :=
  match l with
  | [] => []
  | [_] => [x]
  | y :: r => y :: set_last r x
  end.

Fixpoint last_opt {A} (l : list A) : option A :=
  match l with
  | [] => None
  | [x] => Some x
  | _ :: r => last_opt r
  end.

Lemma set_last_length {A} (l : list A) x : length (set_last l x) = length l.
Proof.
  induction l as [|y r IH]; [reflexivity|]. destruct r as [|z r]; [reflexivity|].
  cbn [set_last length] in *. now rewrite IH.
Qed.

Lemma removelast_set_last {A} (l : list A) x : removelast (set_last l x) = removelast l.
Proof.
  induction l as [|y r IH]; [reflexivity|]. destruct r as [|z r]; [reflexivity|].
  change (set_last (y :: z :: r) x) with (y :: set_last (z :: r) x).
  assert (set_last (z :: r) x <> []).
  { intros E. apply (f_equal (@length A)) in E. rewrite set_last_length in E. discriminate. }
  destruct (set_last (z :: r) x) as [|a b] eqn:E; [congruence|].
  cbn [removelast] in *. rewrite <- E in *. rewrite IH. reflexivity.
Qed.

Lemma set_last_snoc {A} (l : list A) y x : set_last (l ++ [y]) x = l ++ [x].
Proof.
  induction l as [|z r IH]; [reflexivity|].
  cbn [app]. destruct (r ++ [y]) as [|a b] eqn:E.
  - destruct r; discriminate.
  - change (set_last (z :: a :: b) x) with (z :: set_last (a :: b) x). now rewrite IH.
Qed.

Lemma last_opt_snoc {A} (l : list A) y : last_opt (l ++ [y]) = Some y.
Proof.
  induction l as [|z r IH]; [reflexivity|].
  cbn [app]. destruct (r ++ [y]) as [|a b] eqn:E.
  - destruct r; discriminate.
  - exact IH.
Qed.

Lemma last_opt_some_snoc {A} (l : list A) y : last_opt l = Some y -> l = removelast l ++ [y].
Proof.
  induction l as [|z r IH]; [discriminate|]. destruct r as [|a b].
  - intros H. inversion H. reflexivity.
  - intros H. change (last_opt (z :: a :: b)) with (last_opt (a :: b)) in H.
    change (removelast (z :: a :: b)) with (z :: removelast (a :: b)). cbn [app]. f_equal. now apply IH.
Qed.

Lemma last_opt_none {A} (l : list A) : last_opt l = None -> l = [].
Proof.
  induction l as [|z r IH]; [reflexivity|]. destruct r as [|a b]; [discriminate|].
  intros H. apply IH in H. discriminate.
Qed.

(* d.update(other) on ordered dictionaries: existing keys keep their place *)
Definition update_all {A} (d other : list (pstr * A)) : list (pstr * A) :=
  fold_left (fun acc kv => update (fst kv) (snd kv) acc) other d.

Lemma in_update {A} k (v : A) d kv : In kv (update k v d) -> kv = (k, v) \/ In kv d.
Proof.
  induction d as [|[k' v'] r IH]; cbn [update].
  - intros [H|[]]. left. now symmetry.
  - destruct (pstr_eqb k k') eqn:E.
    + apply pstr_eqb_eq in E; subst k'. intros [H|H]; [left; now symmetry|right; now right].
    + intros [H|H]; [right; now left|]. apply IH in H. destruct H; [now left|right; now right].
Qed.

Lemma in_update_all {A} (other d : list (pstr * A)) kv : In kv (update_all d other) -> In kv d \/ In kv other.
Proof.
  unfold update_all. revert d. induction other as [|[k v] r IH]; intros d; cbn [fold_left].
  - now left.
  - intros H. apply IH in H. destruct H as [H|H]; [|right; now right].
    apply in_update in H. destruct H as [->|H]; [right; now left|now left].
Qed.
