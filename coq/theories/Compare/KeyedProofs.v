(* Compare/KeyedProofs.v — C08: with unique composite keys the first-match-and-delete
   pairing of n0list.compare is the pairing by key; every record is classified once. *)
From Coq Require Import List NArith ZArith Bool Lia Permutation.
From N0 Require Import Base.PyStr Base.PyVal Compare.Util Compare.Flags Compare.Match Compare.Model
  Compare.Spec Compare.WalkLemmas Compare.VerdictProofs.
Import ListNotations.

Definition has_key (k : pstr) (l : list keyed) : bool := mem_key k l.

Lemma lookup_app_none {A} k (l1 l2 : list (pstr * A)) :
  lookup k (l1 ++ l2) = match lookup k l1 with Some v => Some v | None => lookup k l2 end.
Proof.
  induction l1 as [|[k' v'] l1 IH]; simpl; [reflexivity|]. destruct (pstr_eqb k k'); [reflexivity|exact IH].
Qed.

Lemma lookup_none_notin {A} k (l : list (pstr * A)) : lookup k l = None <-> ~ In k (map fst l).
Proof.
  induction l as [|[k' v'] l IH]; simpl; [tauto|].
  destruct (pstr_eqb k k') eqn:E.
  - apply pstr_eqb_eq in E. subst. split; [discriminate|]. intros H. exfalso. apply H. now left.
  - apply pstr_eqb_neq in E. rewrite IH. split.
    + intros H [H1|H1]; [congruence|contradiction].
    + intros H H1. apply H. now right.
Qed.

Lemma mem_key_cons {A} k2 k (v : A) l : mem_key k2 ((k, v) :: l) = pstr_eqb k2 k || mem_key k2 l.
Proof. unfold mem_key. simpl. destruct (pstr_eqb k2 k); reflexivity. Qed.

Lemma find_key_lookup k (l : list keyed) :
  match find_key k l with
  | Some (v, _) => lookup k l = Some v
  | None => lookup k l = None
  end.
Proof.
  induction l as [|[k' v'] l IH]; simpl; [reflexivity|].
  destruct (pstr_eqb k k'); [reflexivity|].
  destruct (find_key k l) as [[v r]|]; assumption.
Qed.

Section Pairing.
Variables (fl : flags) (o : opts).
Variable rec : pats -> steps -> tree -> tree -> res report.
Variables (ck : pats) (p : steps).

(* the comparison of one left item with its partner, as the loop calls it *)
Definition pair_call (ix : nat * tree) (jy : nat * tree) : res report :=
  let '(i, x) := ix in let '(j, y) := jy in
  cmp_pair fl o rec PListK ck (render p) (p ++ [idx_step i j]) (p ++ [SIdx i]) (kl_sub_list p i j)
           (p ++ [idx_step i j]) x y.

(* pairing by key: for every left item whose key occurs on the right, the call with that partner *)
Definition paired_calls (ka kb : list keyed) : list (res report) :=
  flat_map (fun kix => match lookup (fst kix) kb with Some jy => [pair_call (snd kix) jy] | None => [] end) ka.
Definition left_only (ka kb : list keyed) : list (nat * tree) :=
  flat_map (fun kix => match lookup (fst kix) kb with Some _ => [] | None => [snd kix] end) ka.
Definition right_only (ka kb : list keyed) : list keyed :=
  filter (fun kjy => negb (mem_key (fst kjy) ka)) kb.

Lemma filter_ext_in' {A} (f g : A -> bool) l : (forall x, In x l -> f x = g x) -> filter f l = filter g l.
Proof.
  induction l as [|x l IH]; intros H; simpl; [reflexivity|].
  rewrite (H x (or_introl eq_refl)), IH; [reflexivity|]. intros; apply H; now right.
Qed.

Lemma flat_map_ext_in {A B} (f g : A -> list B) l : (forall x, In x l -> f x = g x) -> flat_map f l = flat_map g l.
Proof.
  induction l as [|x l IH]; intros H; simpl; [reflexivity|].
  rewrite (H x (or_introl eq_refl)), IH; [reflexivity|]. intros; apply H; now right.
Qed.

Theorem lk_loop_by_key : forall ka kb,
  NoDup (map fst ka) -> NoDup (map fst kb) ->
  lk_loop fl o rec ck p ka kb = (paired_calls ka kb, left_only ka kb, right_only ka kb).
Proof.
  induction ka as [|[k [i x]] ka IH]; intros kb Ha Hb.
  - simpl. unfold right_only. f_equal. symmetry. rewrite <- (filter_ext_in' (fun _ => true)).
    + clear. induction kb; simpl; congruence.
    + reflexivity.
  - inversion Ha as [|? ? Hk Ha']; subst. cbn [lk_loop].
    pose proof (find_key_lookup k kb) as Hl.
    destruct (find_key k kb) as [[[j y] rem']|] eqn:Ef.
    + apply find_key_some in Ef. destruct Ef as (l1 & l2 & -> & -> & Hl1).
      assert (Hb' : NoDup (map fst (l1 ++ l2))).
      { rewrite map_app in *. simpl in Hb. now apply NoDup_remove_1 in Hb. }
      assert (Hk2 : ~ In k (map fst (l1 ++ l2))).
      { rewrite map_app in *. simpl in Hb. now apply NoDup_remove_2 in Hb. }
      rewrite (IH (l1 ++ l2) Ha' Hb'). unfold paired_calls, left_only, right_only. simpl. rewrite Hl. simpl.
      (* the remaining left items have other keys: their lookups do not see the removed entry *)
      assert (Hlk : forall kix, In kix ka -> lookup (fst kix) (l1 ++ l2) = lookup (fst kix) (l1 ++ (k, (j, y)) :: l2)).
      { intros [k2 v2] Hin. simpl. rewrite !lookup_app_none. destruct (lookup k2 l1); [reflexivity|].
        simpl. destruct (pstr_eqb k2 k) eqn:E; [|reflexivity]. apply pstr_eqb_eq in E. subst.
        exfalso. apply Hk. apply in_map_iff. exists (k, v2). auto. }
      f_equal; [f_equal|].
      * f_equal. apply flat_map_ext_in. intros kix Hin. now rewrite (Hlk kix Hin).
      * apply flat_map_ext_in. intros kix Hin. now rewrite (Hlk kix Hin).
      * rewrite !filter_app. cbn [filter fst]. rewrite mem_key_cons, pstr_eqb_refl. simpl. f_equal; apply filter_ext_in'.
        -- intros [k2 v2] Hin. simpl. rewrite mem_key_cons. destruct (pstr_eqb k2 k) eqn:E; [|reflexivity].
           apply pstr_eqb_eq in E. subst. exfalso. apply Hk2. apply in_map_iff. exists (k, v2).
           split; [reflexivity|]. apply in_or_app. now left.
        -- intros [k2 v2] Hin. simpl. rewrite mem_key_cons. destruct (pstr_eqb k2 k) eqn:E; [|reflexivity].
           apply pstr_eqb_eq in E. subst. exfalso. apply Hk2. apply in_map_iff. exists (k, v2).
           split; [reflexivity|]. apply in_or_app. now right.
    + rewrite (IH kb Ha' Hb). unfold paired_calls, left_only, right_only. simpl. rewrite Hl. simpl.
      f_equal. apply filter_ext_in'. intros [k2 v2] Hin. simpl. rewrite mem_key_cons.
      destruct (pstr_eqb k2 k) eqn:E; [|reflexivity]. apply pstr_eqb_eq in E. subst.
      exfalso. apply lookup_none_notin in Hl. apply Hl. apply in_map_iff. exists (k, v2). auto.
Qed.
End Pairing.

(* ---- the unordered list walk under unique keys ------------------------------------------------- *)
Definition self_entry (p : steps) (ix : nat * tree) : entry := SelfUniq (p ++ [SIdx (fst ix)]) (snd ix).
Definition other_entry (p : steps) (kjy : keyed) : entry := OtherUniq (p ++ [SIdx (fst (snd kjy))]) (snd (snd kjy)).

Theorem keyed_classification fl o rec ck p xs ys ka kb :
  excluded o p = false ->
  item_keys o (render p) ck (enum_from 0 xs) = Ok ka ->
  item_keys o (render p) ck (enum_from 0 ys) = Ok kb ->
  NoDup (map fst ka) -> NoDup (map fst kb) ->
  list_keyed fl o rec ck p xs ys =
  match seq_res (paired_calls fl o rec ck p ka kb) with
  | Ok paired => Ok (paired ++ map (self_entry p) (left_only ka kb) ++ map (other_entry p) (right_only ka kb))
  | e => e
  end.
Proof.
  intros He Ea Eb Ha Hb. unfold list_keyed. rewrite He, Ea, Eb, (lk_loop_by_key fl o rec ck p ka kb Ha Hb).
  reflexivity.
Qed.

(* each left record is classified exactly once: by a pair call if its key occurs on
   the right, as unique otherwise; each right record whose key does not occur on
   the left is unique; nothing else is reported at this level *)
Lemma left_only_iff ka kb ix :
  In ix (left_only ka kb) <-> exists k, In (k, ix) ka /\ lookup k kb = None.
Proof.
  unfold left_only. rewrite in_flat_map. split.
  - intros ([k ix'] & Hin & H). simpl in H. destruct (lookup k kb) eqn:E; [destruct H|].
    destruct H as [<-|[]]. now exists k.
  - intros (k & Hin & E). exists (k, ix). split; [assumption|]. simpl. rewrite E. now left.
Qed.

Lemma right_only_iff ka kb kjy :
  In kjy (right_only ka kb) <-> In kjy kb /\ lookup (fst kjy) ka = None.
Proof.
  unfold right_only. rewrite filter_In, negb_true_iff, mem_key_false. tauto.
Qed.

Lemma paired_calls_iff fl o rec ck p ka kb c :
  In c (paired_calls fl o rec ck p ka kb) <->
  exists k ix jy, In (k, ix) ka /\ lookup k kb = Some jy /\ c = pair_call fl o rec ck p ix jy.
Proof.
  unfold paired_calls. rewrite in_flat_map. split.
  - intros ([k ix] & Hin & H). simpl in H. destruct (lookup k kb) as [jy|] eqn:E; [|destruct H].
    destruct H as [<-|[]]. now exists k, ix, jy.
  - intros (k & ix & jy & Hin & E & ->). exists (k, ix). split; [assumption|]. simpl. rewrite E. now left.
Qed.

(* every left record goes to exactly one of the two classes *)
Lemma classified_once fl o rec ck p ka kb :
  length (paired_calls fl o rec ck p ka kb) + length (left_only ka kb) = length ka.
Proof.
  unfold paired_calls, left_only. induction ka as [|[k ix] ka IH]; simpl; [reflexivity|].
  rewrite !app_length. destruct (lookup k kb); simpl; lia.
Qed.

(* ---- a pair of records without lists: nothing iff equal ------------------------------------------ *)
Fixpoint list_free (t : tree) : bool :=
  match t with
  | Leaf _ => true
  | Dict _ kvs => forallb (fun kv => list_free (snd kv)) kvs
  | Lst _ _ => false
  end.

Lemma cmp_pair_cong fl o rec1 rec2 par ck tp p pd sl sd x y :
  (forall ck' q y', rec1 ck' q x y' = rec2 ck' q x y') ->
  cmp_pair fl o rec1 par ck tp p pd sl sd x y = cmp_pair fl o rec2 par ck tp p pd sl sd x y.
Proof.
  intros H. unfold cmp_pair. destruct (same_type _ _); [|reflexivity].
  destruct (is_cmp_scalar _); [reflexivity|]. destruct x as [s|c ka|c xs]; try reflexivity.
  - destruct par; try apply H. destruct y as [|[]|]; try reflexivity. apply H.
  - destruct par; try apply H. destruct c; [apply H|reflexivity].
Qed.

Lemma dict_walk_cong fl o rec1 rec2 ck p ka kb :
  (forall kv, In kv ka -> forall ck' q y', rec1 ck' q (snd kv) y' = rec2 ck' q (snd kv) y') ->
  dict_walk fl o rec1 ck p ka kb = dict_walk fl o rec2 ck p ka kb.
Proof.
  intros H. unfold dict_walk.
  assert (E : map (dict_common fl o rec1 ck p kb) ka = map (dict_common fl o rec2 ck p kb) ka).
  { apply map_ext_in. intros kv Hin. unfold dict_common. destruct (lookup (fst kv) kb); [|reflexivity].
    destruct (excluded o _); [reflexivity|]. apply cmp_pair_cong. now apply H. }
  now rewrite E.
Qed.

Lemma walk_mode_irrelevant fl o : forall fuel ck p a b,
  list_free a = true -> walk fl o fuel MKeyed ck p a b = walk fl o fuel MDirect ck p a b.
Proof.
  induction fuel as [|f IH]; intros ck p a b Hf; [reflexivity|].
  destruct a as [s|c ka|c xs]; simpl in *; try reflexivity; try discriminate.
  destruct b as [s'|c' kb|c' ys]; try reflexivity.
  apply dict_walk_cong. intros kv Hin ck' q y'. apply IH.
  rewrite forallb_forall in Hf. now apply Hf.
Qed.

Theorem keyed_pair_verdict fl o fuel ck p i j x y r :
  quiet o -> good x -> good y -> list_free x = true -> is_record x = true -> is_record y = true ->
  pair_call fl o (walk fl o fuel MKeyed) ck p (i, x) (j, y) = Ok r ->
  (r = [] <-> tree_eq x y = true).
Proof.
  intros Hq Gx Gy Hf Rx Ry H. unfold pair_call, cmp_pair in H. rewrite !(q_transformed o Hq) in H.
  destruct x as [|c ka|]; try discriminate. destruct y as [|c' kb|]; try discriminate.
  pose proof (good_tag_dict c ka Gx). pose proof (good_tag_dict c' kb Gy). subst. simpl in H.
  rewrite walk_mode_irrelevant in H by assumption.
  eapply walk_direct_verdict; eauto.
Qed.

(* ---- the verdict on lists of flat records does not depend on the order of either list ---------- *)
Lemma item_keys_spec' o prefix ck l ks :
  item_keys o prefix ck l = Ok ks ->
  (forall k i x, In (k, (i, x)) ks -> In (i, x) l /\ item_key o prefix ck x = Ok k) /\
  (forall i x, In (i, x) l -> exists k, In (k, (i, x)) ks /\ item_key o prefix ck x = Ok k).
Proof.
  revert ks; induction l as [|[i0 x0] l IH]; intros ks H; simpl in H.
  - inversion H; subst. split; [intros k i x []|intros i x []].
  - destruct (item_key o prefix ck x0) as [k0| | |] eqn:E0; try discriminate.
    destruct (item_keys o prefix ck l) as [ks'| | |]; try discriminate. inversion H; subst.
    destruct (IH ks' eq_refl) as [I1 I2]. split.
    + intros k i x [Hin|Hin].
      * inversion Hin; subst. split; [now left|assumption].
      * destruct (I1 k i x Hin). split; [now right|assumption].
    + intros i x [Hin|Hin].
      * inversion Hin; subst. exists k0. split; [now left|assumption].
      * destruct (I2 i x Hin) as (k & Hk & Ek). exists k. split; [now right|assumption].
Qed.

Lemma in_enum_from {A} (l : list A) x : forall n, In x l -> exists i, In (i, x) (enum_from n l).
Proof.
  induction l as [|y l IH]; intros n []; simpl.
  - subst. exists n. now left.
  - destruct (IH (S n) H) as [i Hi]. exists i. now right.
Qed.

Definition flat_record (t : tree) : Prop := good t /\ list_free t = true /\ is_record t = true.

Section PermVerdict.
Variables (fl : flags) (o : opts).
Hypothesis Hq : quiet o.
Variables (fuel : nat) (ck : pats) (p : steps).
Let rec := walk fl o fuel MKeyed.
Let key (z : tree) := item_key o (render p) ck z.

(* the verdict, without indexes: every left record has a right record with the same key,
   equal to it, and every right record's key occurs on the left *)
Definition keyed_equal (xs ys : list tree) : Prop :=
  (forall x, In x xs -> exists y, In y ys /\ key x = key y /\ tree_eq x y = true) /\
  (forall y, In y ys -> exists x, In x xs /\ key y = key x).

Lemma keyed_verdict_char xs ys ka kb r :
  item_keys o (render p) ck (enum_from 0 xs) = Ok ka ->
  item_keys o (render p) ck (enum_from 0 ys) = Ok kb ->
  NoDup (map fst ka) -> NoDup (map fst kb) ->
  Forall flat_record xs -> Forall flat_record ys ->
  list_keyed fl o rec ck p xs ys = Ok r ->
  (r = [] <-> keyed_equal xs ys).
Proof.
  intros Ea Eb Na Nb Fx Fy H.
  assert (He : excluded o p = false) by (apply (q_excluded o Hq)).
  rewrite (keyed_classification fl o rec ck p xs ys ka kb He Ea Eb Na Nb) in H.
  destruct (seq_res (paired_calls fl o rec ck p ka kb)) as [paired| | |] eqn:Es; try discriminate.
  inversion H; subst; clear H.
  destruct (item_keys_spec' _ _ _ _ _ Ea) as [A1 A2]. destruct (item_keys_spec' _ _ _ _ _ Eb) as [B1 B2].
  rewrite Forall_forall in Fx, Fy.
  pose proof (seq_res_ok_forall _ _ Es) as Hok. rewrite Forall_forall in Hok.
  pose proof (seq_res_nil_iff _ _ Es) as Hnil.
  (* the pair calls decide by tree_eq *)
  assert (Hcall : forall k i x j y, In (k, (i, x)) ka -> lookup k kb = Some (j, y) ->
            exists a, pair_call fl o rec ck p (i, x) (j, y) = Ok a /\ (a = [] <-> tree_eq x y = true)).
  { intros k i x j y Hin Hl.
    destruct (Hok (pair_call fl o rec ck p (i, x) (j, y))) as [a Ha].
    { apply paired_calls_iff. now exists k, (i, x), (j, y). }
    exists a. split; [assumption|].
    destruct (A1 k i x Hin) as [Hix _]. apply enum_from_in in Hix.
    pose proof (lookup_In _ _ _ Hl) as (k' & Hjy & <-). destruct (B1 k j y Hjy) as [Hiy _]. apply enum_from_in in Hiy.
    destruct (Fx x Hix) as (Gx & Lx & Rx). destruct (Fy y Hiy) as (Gy & _ & Ry).
    eapply (keyed_pair_verdict fl o fuel ck p i j x y a); eauto. }
  split.
  - intros E. apply app_eq_nil in E. destruct E as [E1 E2]. apply app_eq_nil in E2. destruct E2 as [E2 E3].
    apply map_eq_nil in E2, E3. apply Hnil in E1. rewrite Forall_forall in E1. split.
    + intros x Hx. destruct (in_enum_from xs x 0 Hx) as [i Hi]. destruct (A2 i x Hi) as (k & Hk & Ek).
      destruct (lookup k kb) as [[j y]|] eqn:El.
      * pose proof (lookup_In _ _ _ El) as (k' & Hjy & <-). destruct (B1 k j y Hjy) as [Hiy Eky].
        exists y. split; [eapply enum_from_in; eauto|]. split; [unfold key; congruence|].
        destruct (Hcall k i x j y Hk El) as (a & Ha & Hiff). apply Hiff.
        assert (Ok a = Ok []) by (rewrite <- Ha; apply E1, paired_calls_iff; now exists k, (i, x), (j, y)). congruence.
      * exfalso. assert (Hin : In (i, x) (left_only ka kb)) by (apply left_only_iff; now exists k).
        rewrite E2 in Hin. destruct Hin.
    + intros y Hy. destruct (in_enum_from ys y 0 Hy) as [j Hj]. destruct (B2 j y Hj) as (k & Hk & Ek).
      destruct (lookup k ka) as [[i x]|] eqn:El.
      * pose proof (lookup_In _ _ _ El) as (k' & Hix & <-). destruct (A1 k i x Hix) as [Hix' Ekx].
        exists x. split; [eapply enum_from_in; eauto|unfold key; congruence].
      * exfalso. assert (Hin : In (k, (j, y)) (right_only ka kb)) by (apply right_only_iff; auto).
        rewrite E3 in Hin. destruct Hin.
  - intros [K1 K2].
    assert (E1 : paired = []).
    { apply Hnil. apply Forall_forall. intros c Hc. apply paired_calls_iff in Hc.
      destruct Hc as (k & [i x] & [j y] & Hin & Hl & ->).
      destruct (Hcall k i x j y Hin Hl) as (a & Ha & Hiff). rewrite Ha. f_equal. apply Hiff.
      destruct (A1 k i x Hin) as [Hix Ekx]. apply enum_from_in in Hix.
      destruct (K1 x Hix) as (y' & Hy' & Eky & Hteq).
      (* y' has key k, and so does y: unique keys make them the same entry *)
      destruct (in_enum_from ys y' 0 Hy') as [j' Hj']. destruct (B2 j' y' Hj') as (k' & Hk' & Ek').
      assert (k' = k) by (unfold key in Eky; congruence). subst k'.
      rewrite (lookup_in_nodup kb k (j', y') Nb Hk') in Hl. inversion Hl; subst. exact Hteq. }
    assert (E2 : left_only ka kb = []).
    { destruct (left_only ka kb) as [|[i x] l] eqn:El; [reflexivity|]. exfalso.
      assert (Hin : In (i, x) (left_only ka kb)) by (rewrite El; now left).
      apply left_only_iff in Hin. destruct Hin as (k & Hin & Hn).
      destruct (A1 k i x Hin) as [Hix Ekx]. apply enum_from_in in Hix.
      destruct (K1 x Hix) as (y & Hy & Eky & _).
      destruct (in_enum_from ys y 0 Hy) as [j Hj]. destruct (B2 j y Hj) as (k' & Hk' & Ek').
      assert (k' = k) by (unfold key in Eky; congruence). subst k'.
      rewrite (lookup_in_nodup kb k (j, y) Nb Hk') in Hn. discriminate. }
    assert (E3 : right_only ka kb = []).
    { destruct (right_only ka kb) as [|[k [j y]] l] eqn:El; [reflexivity|]. exfalso.
      assert (Hin : In (k, (j, y)) (right_only ka kb)) by (rewrite El; now left).
      apply right_only_iff in Hin. destruct Hin as (Hin & Hn). simpl in Hn.
      destruct (B1 k j y Hin) as [Hjy Eky]. apply enum_from_in in Hjy.
      destruct (K2 y Hjy) as (x & Hx & Ekx).
      destruct (in_enum_from xs x 0 Hx) as [i Hi]. destruct (A2 i x Hi) as (k' & Hk' & Ek').
      assert (k' = k) by (unfold key in Ekx; congruence). subst k'.
      rewrite (lookup_in_nodup ka k (i, x) Na Hk') in Hn. discriminate. }
    now rewrite E1, E2, E3.
Qed.

Lemma keyed_equal_perm xs ys xs' ys' :
  Permutation xs xs' -> Permutation ys ys' -> keyed_equal xs ys -> keyed_equal xs' ys'.
Proof.
  intros Px Py [K1 K2]. split.
  - intros x Hx. apply (Permutation_in _ (Permutation_sym Px)) in Hx.
    destruct (K1 x Hx) as (y & Hy & E). exists y. split; [exact (Permutation_in _ Py Hy)|assumption].
  - intros y Hy. apply (Permutation_in _ (Permutation_sym Py)) in Hy.
    destruct (K2 y Hy) as (x & Hx & E). exists x. split; [exact (Permutation_in _ Px Hx)|assumption].
Qed.

(* permuting either list of records never changes the verdict *)
Theorem keyed_perm_verdict xs ys xs' ys' ka kb ka' kb' r r' :
  Permutation xs xs' -> Permutation ys ys' ->
  item_keys o (render p) ck (enum_from 0 xs) = Ok ka -> item_keys o (render p) ck (enum_from 0 ys) = Ok kb ->
  item_keys o (render p) ck (enum_from 0 xs') = Ok ka' -> item_keys o (render p) ck (enum_from 0 ys') = Ok kb' ->
  NoDup (map fst ka) -> NoDup (map fst kb) -> NoDup (map fst ka') -> NoDup (map fst kb') ->
  Forall flat_record xs -> Forall flat_record ys ->
  list_keyed fl o rec ck p xs ys = Ok r -> list_keyed fl o rec ck p xs' ys' = Ok r' ->
  (r = [] <-> r' = []).
Proof.
  intros Px Py Ea Eb Ea' Eb' Na Nb Na' Nb' Fx Fy H H'.
  assert (Fx' : Forall flat_record xs') by (eapply Permutation_Forall; eauto).
  assert (Fy' : Forall flat_record ys') by (eapply Permutation_Forall; eauto).
  rewrite (keyed_verdict_char xs ys ka kb r Ea Eb Na Nb Fx Fy H).
  rewrite (keyed_verdict_char xs' ys' ka' kb' r' Ea' Eb' Na' Nb' Fx' Fy' H').
  split; apply keyed_equal_perm; auto using Permutation_sym.
Qed.
End PermVerdict.

(* ---- non-vacuity --------------------------------------------------------------------------------- *)
(* [{"id":1,"v":1},{"id":2,"v":2}] vs [{"id":2,"v":2},{"id":1,"v":9},{"id":3}] with composite key ("id",) *)
Definition kx_id : pstr := [105; 100]%N.
Definition kx_v : pstr := [118]%N.
Definition kx_rec (i v : Z) : tree := Dict true [(kx_id, Leaf (SInt i)); (kx_v, Leaf (SInt v))].
Definition kx_xs : list tree := [kx_rec 1 1; kx_rec 2 2].
Definition kx_ys : list tree := [kx_rec 2 2; kx_rec 1 9; Dict true [(kx_id, Leaf (SInt 3))]].
Definition kx_ck : pats := PSeq [kx_id].

Lemma nodup_keys_NoDup' l : nodup_keys l = true -> NoDup l.
Proof.
  induction l as [|k l IH]; simpl; intros H; [constructor|].
  apply andb_true_iff in H. destruct H as [H1 H2]. constructor; [|auto].
  intros Hin. apply negb_true_iff in H1. unfold mem_str in H1.
  assert (existsb (pstr_eqb k) l = true) by (apply existsb_exists; exists k; split; [assumption|apply pstr_eqb_refl]).
  congruence.
Qed.

Lemma keyed_example :
  exists ka kb,
    item_keys no_opts (render []) kx_ck (enum_from 0 kx_xs) = Ok ka /\
    item_keys no_opts (render []) kx_ck (enum_from 0 kx_ys) = Ok kb /\
    NoDup (map fst ka) /\ NoDup (map fst kb) /\
    Forall flat_record kx_xs /\ Forall flat_record kx_ys /\
    length (paired_calls flags_init no_opts (walk flags_init no_opts 3 MKeyed) kx_ck [] ka kb) = 2 /\
    left_only ka kb = [] /\ length (right_only ka kb) = 1 /\
    exists r, list_keyed flags_init no_opts (walk flags_init no_opts 3 MKeyed) kx_ck [] kx_xs kx_ys = Ok r /\ length r = 2.
Proof.
  eexists. eexists. split; [vm_compute; reflexivity|]. split; [vm_compute; reflexivity|].
  split; [apply nodup_keys_NoDup'; vm_compute; reflexivity|].
  split; [apply nodup_keys_NoDup'; vm_compute; reflexivity|].
  split; [repeat constructor|]. split; [repeat constructor|].
  split; [vm_compute; reflexivity|]. split; [vm_compute; reflexivity|]. split; [vm_compute; reflexivity|].
  eexists. split; vm_compute; reflexivity.
Qed.
