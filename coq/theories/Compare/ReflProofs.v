(* Compare/ReflProofs.v — comparing an operand with itself reports nothing. *)
From Coq Require Import List NArith ZArith Bool.
From N0 Require Import Base.PyStr Base.PyVal Compare.Util Compare.Flags Compare.Match Compare.Model
  Compare.Spec Compare.WalkLemmas Compare.VerdictProofs.
Import ListNotations.

Lemma wf_dict_Forall c kvs : wf (Dict c kvs) -> NoDup (map fst kvs) /\ Forall (fun kv => wf (snd kv)) kvs.
Proof.
  cbn. intros [Hn H]. split; [exact Hn|]. clear Hn.
  induction kvs as [|[k v] r IH]; [constructor|]. destruct H as [Hv Hr]. constructor; [exact Hv|now apply IH].
Qed.

Lemma wf_lst_Forall c xs : wf (Lst c xs) -> Forall wf xs.
Proof.
  cbn. induction xs as [|v r IH]; intros H; [constructor|]. destruct H as [Hv Hr]. constructor; [exact Hv|now apply IH].
Qed.

Lemma list_eqb_refl_Forall {A} (f : A -> A -> bool) l : Forall (fun x => f x x = true) l -> list_eqb f l l = true.
Proof. induction 1 as [|x r Hx Hr IH]; cbn; [reflexivity|]. now rewrite Hx, IH. Qed.

Theorem tree_eq_refl t : wf t -> tree_eq t t = true.
Proof.
  induction t as [s|c kvs IH|c xs IH] using tree_ind'; intros Hw.
  - cbn. now apply scalar_eqb_eq.
  - apply wf_dict_Forall in Hw. destruct Hw as [Hn Hw]. cbn [tree_eq]. apply andb_true_iff. split.
    + apply forallb_forall. intros [k v] Hin. cbn [fst snd].
      rewrite (lookup_in_nodup kvs k v Hn Hin).
      rewrite Forall_forall in IH, Hw. exact (IH _ Hin (Hw _ Hin)).
    + apply forallb_forall. intros [k v] Hin. cbn [fst]. unfold mem_key.
      now rewrite (lookup_in_nodup kvs k v Hn Hin).
  - apply wf_lst_Forall in Hw. cbn [tree_eq]. apply list_eqb_refl_Forall.
    rewrite Forall_forall in *. intros x Hx. exact (IH _ Hx (Hw _ Hx)).
Qed.

Lemma same_kind_refl a : (exists c kvs, a = Dict c kvs) \/ (exists c xs, a = Lst c xs) -> same_kind a a.
Proof. intros [[c [k ->]]|[c [x ->]]]; exact I. Qed.

(* direct_compare of an operand with itself: an empty report, for every flag state *)
Theorem direct_reflexive fl o ck a : quiet o -> good a -> wf a -> same_kind a a ->
  compare_top fl o MDirect ck a a = Ok [].
Proof.
  intros Hq Hg Hw Hk. destruct (direct_verdict fl o ck a a Hq Hg Hg Hk) as [r [E [_ H]]].
  rewrite E. f_equal. apply H. now apply tree_eq_refl.
Qed.
