(* Compare/TransProofs.v — structural equality is transitive (with ReflProofs and
   SymProofs: an equivalence on trees with distinct keys); the "no difference"
   verdict of direct_compare chains. *)
From Coq Require Import List NArith ZArith Bool.
From N0 Require Import Base.PyStr Base.PyVal Compare.Util Compare.Flags Compare.Match Compare.Model
  Compare.Spec Compare.WalkLemmas Compare.VerdictProofs.
Import ListNotations.

Theorem tree_eq_trans a : forall b c, tree_eq a b = true -> tree_eq b c = true -> tree_eq a c = true.
Proof.
  induction a as [s|k0 ka IH|k0 xs IH] using tree_ind'; intros b c Hab Hbc.
  - destruct b as [s2| |]; cbn in Hab; try discriminate. destruct c as [s3| |]; cbn in Hbc; try discriminate.
    cbn. apply scalar_eqb_eq in Hab. apply scalar_eqb_eq in Hbc. apply scalar_eqb_eq. congruence.
  - destruct b as [|k1 kb|]; cbn [tree_eq] in Hab; try discriminate.
    destruct c as [|k2 kc|]; cbn [tree_eq] in Hbc; try discriminate.
    apply andb_true_iff in Hab. destruct Hab as [A1 A2]. apply andb_true_iff in Hbc. destruct Hbc as [B1 B2].
    rewrite forallb_forall in A1, A2, B1, B2. rewrite Forall_forall in IH.
    cbn [tree_eq]. apply andb_true_iff. split; apply forallb_forall.
    + intros [k va] Hin. cbn [fst snd]. pose proof (A1 _ Hin) as P. cbn [fst snd] in P.
      destruct (lookup k kb) as [vb|] eqn:Lb; [|discriminate].
      destruct (lookup_In _ _ _ Lb) as [k' [Hinb <-]].
      pose proof (B1 _ Hinb) as Q. cbn [fst snd] in Q.
      destruct (lookup k kc) as [vc|]; [|discriminate].
      exact (IH _ Hin vb vc P Q).
    + intros [k vc] Hin. cbn [fst]. pose proof (B2 _ Hin) as P. cbn [fst] in P. unfold mem_key in P.
      destruct (lookup k kb) as [vb|] eqn:Lb; [|discriminate].
      destruct (lookup_In _ _ _ Lb) as [k' [Hinb <-]].
      exact (A2 _ Hinb).
  - destruct b as [| |k1 ys]; cbn [tree_eq] in Hab; try discriminate.
    destruct c as [| |k2 zs]; cbn [tree_eq] in Hbc; try discriminate.
    cbn [tree_eq]. revert ys zs Hab Hbc.
    induction xs as [|x r IHr]; intros [|y ys] [|z zs] Hab Hbc; cbn in *; try congruence.
    apply andb_true_iff in Hab. destruct Hab as [A1 A2]. apply andb_true_iff in Hbc. destruct Hbc as [B1 B2].
    inversion IH as [|? ? Ix Ir]; subst.
    rewrite (Ix y z A1 B1). cbn. exact (IHr Ir ys zs A2 B2).
Qed.

(* if direct_compare finds no difference between a and b, and none between b and c,
   it finds none between a and c *)
Theorem direct_no_difference_chains fl o ck a b c :
  quiet o -> good a -> good b -> good c -> same_kind a b -> same_kind b c ->
  compare_top fl o MDirect ck a b = Ok [] -> compare_top fl o MDirect ck b c = Ok [] ->
  compare_top fl o MDirect ck a c = Ok [].
Proof.
  intros Hq Ga Gb Gc Kab Kbc Hab Hbc.
  assert (Kac : same_kind a c) by (destruct a, b, c; cbn in *; tauto).
  destruct (direct_verdict fl o ck a b Hq Ga Gb Kab) as [r1 [E1 V1]].
  destruct (direct_verdict fl o ck b c Hq Gb Gc Kbc) as [r2 [E2 V2]].
  destruct (direct_verdict fl o ck a c Hq Ga Gc Kac) as [r3 [E3 V3]].
  rewrite E3. f_equal. apply V3.
  assert (r1 = []) by congruence. assert (r2 = []) by congruence.
  apply (tree_eq_trans a b c); [now apply V1|now apply V2].
Qed.
