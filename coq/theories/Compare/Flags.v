(* Compare/Flags.v — the six module-level booleans of n0struct_utils_compare.py
   (lines 4-102) and their setters, as a state machine. *)
From Coq Require Import List Bool.
Import ListNotations.

Record flags := mk_flags {
  f_types : bool;     (* __flag_compare_check_different_types *)
  f_delta : bool;     (* __flag_compare_return_difference_of_values *)
  f_equal : bool;     (* __flag_compare_return_equal *)
  f_eqrec : bool;     (* __flag_compare_return_equal_records *)
  f_eqelem : bool;    (* __flag_compare_return_equal_elements *)
  f_place : bool      (* __flag_compare_return_place *)
}.

(* the state at import time *)
Definition flags_init : flags := mk_flags false false false false false true.

Inductive setter := SetTypes | SetDelta | SetEqual | SetEqRec | SetEqElem | SetPlace.

Definition apply_setter (s : setter) (v : bool) (f : flags) : flags :=
  match s with
  | SetTypes => mk_flags v (f_delta f) (f_equal f) (f_eqrec f) (f_eqelem f) (f_place f)
  | SetDelta => mk_flags (f_types f) v (f_equal f) (f_eqrec f) (f_eqelem f) (f_place f)
  | SetEqual =>
    if v then
      if f_eqrec f || f_eqelem f
      then mk_flags (f_types f) (f_delta f) true (f_eqrec f) (f_eqelem f) (f_place f)
      else mk_flags (f_types f) (f_delta f) true true (f_eqelem f) (f_place f)
    else mk_flags (f_types f) (f_delta f) false false false (f_place f)
  | SetEqRec =>
    if v then mk_flags (f_types f) (f_delta f) true true false (f_place f)
    else mk_flags (f_types f) (f_delta f) (f_eqelem f) false (f_eqelem f) (f_place f)
  | SetEqElem =>
    if v then mk_flags (f_types f) (f_delta f) true false true (f_place f)
    else mk_flags (f_types f) (f_delta f) (f_eqrec f) (f_eqrec f) false (f_place f)
  | SetPlace => mk_flags (f_types f) (f_delta f) (f_equal f) (f_eqrec f) (f_eqelem f) v
  end.

Definition run_setters (h : list (setter * bool)) (f : flags) : flags :=
  fold_left (fun f sv => apply_setter (fst sv) (snd sv) f) h f.

Definition flags_eqb (a b : flags) : bool :=
  Bool.eqb (f_types a) (f_types b) && Bool.eqb (f_delta a) (f_delta b) &&
  Bool.eqb (f_equal a) (f_equal b) && Bool.eqb (f_eqrec a) (f_eqrec b) &&
  Bool.eqb (f_eqelem a) (f_eqelem b) && Bool.eqb (f_place a) (f_place b).

Lemma flags_eqb_eq a b : flags_eqb a b = true <-> a = b.
Proof.
  destruct a as [a1 a2 a3 a4 a5 a6], b as [b1 b2 b3 b4 b5 b6]; unfold flags_eqb; simpl.
  split.
  - intros H. repeat (apply andb_true_iff in H; destruct H as [H ?]).
    repeat match goal with X : Bool.eqb _ _ = true |- _ => apply Bool.eqb_prop in X end. subst. reflexivity.
  - intros H. inversion H. subst. now rewrite !Bool.eqb_reflx.
Qed.

(* all 64 states, and the 12 moves *)
Definition bools := [false; true].
Definition all_flags : list flags :=
  flat_map (fun a => flat_map (fun b => flat_map (fun c => flat_map (fun d => flat_map (fun e =>
    map (fun g => mk_flags a b c d e g) bools) bools) bools) bools) bools) bools.
Definition all_moves : list (setter * bool) :=
  flat_map (fun s => [(s, false); (s, true)]) [SetTypes; SetDelta; SetEqual; SetEqRec; SetEqElem; SetPlace].

(* the invariant of the three "equal" booleans *)
Definition flags_inv (f : flags) : bool :=
  Bool.eqb (f_equal f) (f_eqrec f || f_eqelem f) && negb (f_eqrec f && f_eqelem f).

(* the reachable set = the states satisfying the invariant (48 of 64) *)
Definition reachable_set : list flags := filter flags_inv all_flags.

Definition mem_flags (f : flags) (l : list flags) : bool := existsb (flags_eqb f) l.

Lemma mem_flags_In f l : mem_flags f l = true <-> In f l.
Proof.
  unfold mem_flags. rewrite existsb_exists. split.
  - intros [x [Hx E]]. apply flags_eqb_eq in E. now subst.
  - intros H. exists f. split; [assumption|now apply flags_eqb_eq].
Qed.

Lemma all_flags_complete f : In f all_flags.
Proof. destruct f as [[] [] [] [] [] []]; vm_compute; tauto. Qed.

Lemma all_moves_complete s v : In (s, v) all_moves.
Proof. destruct s, v; vm_compute; tauto. Qed.

(* closure: every move from a state of the set lands in the set (finite check) *)
Lemma reachable_closed_b :
  forallb (fun f => forallb (fun m => mem_flags (apply_setter (fst m) (snd m) f) reachable_set) all_moves) reachable_set = true.
Proof. vm_compute. reflexivity. Qed.

Lemma reachable_closed f s v : In f reachable_set -> In (apply_setter s v f) reachable_set.
Proof.
  intros H. pose proof reachable_closed_b as C. rewrite forallb_forall in C.
  specialize (C f H). rewrite forallb_forall in C. specialize (C (s, v) (all_moves_complete s v)).
  now apply mem_flags_In in C.
Qed.

Lemma init_reachable : In flags_init reachable_set.
Proof. vm_compute. tauto. Qed.

Lemma run_setters_reachable h : forall f, In f reachable_set -> In (run_setters h f) reachable_set.
Proof.
  induction h as [|[s v] h IH]; intros f H; simpl; [assumption|].
  apply IH. now apply reachable_closed.
Qed.

(* every state of the invariant is actually reached from the import-time state *)
Definition witness_history (f : flags) : list (setter * bool) :=
  [(SetTypes, f_types f); (SetDelta, f_delta f); (SetPlace, f_place f); (SetEqual, false)] ++
  (if f_eqrec f then [(SetEqRec, true)] else if f_eqelem f then [(SetEqElem, true)] else []).

Lemma reachable_exact_b :
  forallb (fun f => flags_eqb (run_setters (witness_history f) flags_init) f) reachable_set = true.
Proof. vm_compute. reflexivity. Qed.

Lemma reachable_sound f : In f reachable_set -> exists h, run_setters h flags_init = f.
Proof.
  intros H. exists (witness_history f). pose proof reachable_exact_b as C.
  rewrite forallb_forall in C. now apply flags_eqb_eq, C.
Qed.

Lemma reachable_inv f : In f reachable_set -> flags_inv f = true.
Proof. unfold reachable_set. rewrite filter_In. tauto. Qed.
