(* Compare/Spec.v — what the properties C07-C10 say, independently of the walks. *)
From Coq Require Import List NArith ZArith Bool.
From N0 Require Import Base.PyStr Base.PyVal Compare.Util Compare.Flags Compare.Match Compare.Model.
Import ListNotations.

(* ---- structural equality (C07) --------------------------------------------------
   same keys (as sets), same list lengths and order, leaves equal with equal type
   (scalar_eqb compares the constructor first: True <> 1, 1 <> 1.0, None = None
   only).  Container classes are not part of the value. *)
Fixpoint tree_eq (a b : tree) : bool :=
  match a, b with
  | Leaf x, Leaf y => scalar_eqb x y
  | Dict _ ka, Dict _ kb =>
    forallb (fun kv => match lookup (fst kv) kb with Some vb => tree_eq (snd kv) vb | None => false end) ka
    && forallb (fun kv => mem_key (fst kv) ka) kb
  | Lst _ xs, Lst _ ys => list_eqb tree_eq xs ys
  | _, _ => false
  end.

(* ---- equality up to the order of non-record list items (C07, default compare) ---
   in each list the records (dict items) correspond pairwise in order, the other
   items form equal multisets, matched by value (tree_eq). *)
Definition is_record (t : tree) : bool := match t with Dict _ _ => true | _ => false end.

(* remove the first element related to x *)
Fixpoint remove_first {A} (f : A -> bool) (l : list A) : option (list A) :=
  match l with
  | [] => None
  | y :: r => if f y then Some r else match remove_first f r with Some r' => Some (y :: r') | None => None end
  end.

(* multiset equality by a matching function *)
Fixpoint multiset_eqb {A} (f : A -> A -> bool) (l l' : list A) : bool :=
  match l with
  | [] => match l' with [] => true | _ => false end
  | x :: r => match remove_first (f x) l' with Some l'' => multiset_eqb f r l'' | None => false end
  end.

(* first element satisfying p, and what follows it *)
Fixpoint split_first {A} (p : A -> bool) (l : list A) : option (A * list A) :=
  match l with
  | [] => None
  | y :: r => if p y then Some (y, r) else split_first p r
  end.

(* list_eqb f (filter p l) (filter p l'), written so that f is applied to
   elements of l only (lemma filt_eqb_filter in VerdictProofs) *)
Definition filt_eqb {A} (p : A -> bool) (f : A -> A -> bool) : list A -> list A -> bool :=
  fix go (l l' : list A) : bool :=
    match l with
    | [] => negb (existsb p l')
    | x :: r =>
      if p x then match split_first p l' with Some (y, r') => f x y && go r r' | None => false end
      else go r l'
    end.

Fixpoint eq_mod_order (a b : tree) : bool :=
  match a, b with
  | Leaf x, Leaf y => scalar_eqb x y
  | Dict _ ka, Dict _ kb =>
    forallb (fun kv => match lookup (fst kv) kb with Some vb => eq_mod_order (snd kv) vb | None => false end) ka
    && forallb (fun kv => mem_key (fst kv) ka) kb
  | Lst _ xs, Lst _ ys =>
    filt_eqb is_record eq_mod_order xs ys
    && multiset_eqb tree_eq (filter (fun t => negb (is_record t)) xs) (filter (fun t => negb (is_record t)) ys)
  | _, _ => false
  end.

(* ---- reported xpaths (C09) ------------------------------------------------------- *)
Definition e_steps (e : entry) : steps :=
  match e with NotEq p _ _ | DiffType p _ _ | SelfUniq p _ | OtherUniq p _ => p end.

(* left index before "<>", right index after *)
Definition left_step (s : step) : pstep :=
  match s with SKey k => PKey k | SIdx i => PIdx i | SIdx2 i _ => PIdx i end.
Definition right_step (s : step) : pstep :=
  match s with SKey k => PKey k | SIdx i => PIdx i | SIdx2 _ j => PIdx j end.
Definition lefts (p : steps) : path := map left_step p.
Definition rights (p : steps) : path := map right_step p.

Definition mirror_step (s : step) : step :=
  match s with SIdx2 i j => SIdx2 j i | _ => s end.
Definition mirror_entry (e : entry) : entry :=
  match e with
  | NotEq p l r => NotEq (map mirror_step p) r l
  | DiffType p l r => DiffType (map mirror_step p) r l
  | SelfUniq p v => OtherUniq (map mirror_step p) v
  | OtherUniq p v => SelfUniq (map mirror_step p) v
  end.

(* ---- the two filters (C10) --------------------------------------------------------- *)
(* some prefix of the xpath that ends in a key — a dictionary entry — matches *)
Fixpoint under_excl_from (E : list pstr) (pre : steps) (p : steps) : bool :=
  match p with
  | [] => false
  | s :: r =>
    (match s with SKey _ => xmatch (render (pre ++ [s])) E | _ => false end)
    || under_excl_from E (pre ++ [s]) r
  end.
Definition under_excl (E : list pstr) (p : steps) : bool := under_excl_from E [] p.

Definition ends_with_index (p : steps) : bool :=
  match rev p with SKey _ :: _ => false | [] => false | _ => true end.

Definition keep_only (O : list pstr) (e : entry) : bool :=
  ends_with_index (e_steps e) || xmatch (render (e_steps e)) O.

(* ---- the guard of the default-compare verdict (C07) ------------------------------------
   The unordered walk pairs list items by a key string: "" for records (no composite
   key), str(item) otherwise.  The verdict is exact where that key identifies the items
   as their value does: for every left item x and right item y of two lists the walk
   pairs,
     - two non-records have equal keys iff they are equal (tree_eq), and when they
       do, the guard holds again below them;
     - a record and a non-record never share a key (the non-record's str() is not "");
     - two records: the guard holds below them;
   str() must be in the model (py_str = Some _).  The complement of this guard is the
   classifier of the known finding C07/str-keys. *)
Definition nonempty_str (t : tree) : bool :=
  match py_str t with Some (_ :: _) => true | _ => false end.

Fixpoint keys_ok (a b : tree) : bool :=
  match a, b with
  | Dict _ ka, Dict _ kb =>
    forallb (fun kv => match lookup (fst kv) kb with Some vb => keys_ok (snd kv) vb | None => true end) ka
  | Lst _ xs, Lst _ ys =>
    forallb (fun x => forallb (fun y =>
      match is_record x, is_record y with
      | true, true => keys_ok x y
      | false, false =>
        match py_str x, py_str y with
        | Some s, Some t => Bool.eqb (pstr_eqb s t) (tree_eq x y) && (negb (pstr_eqb s t) || keys_ok x y)
        | _, _ => false
        end
      | true, false => nonempty_str y
      | false, true => nonempty_str x
      end) ys) xs
  | _, _ => true
  end.
