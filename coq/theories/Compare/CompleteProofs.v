(* Compare/CompleteProofs.v — the ordered walk reports every place where the operands
   differ (completeness; C09_report_faithful is the converse). *)
From Coq Require Import List NArith ZArith Bool Lia.
From N0 Require Import Base.PyStr Base.PyVal Compare.Util Compare.Flags Compare.Match Compare.Model
  Compare.Spec Compare.WalkLemmas Compare.VerdictProofs Compare.ReportProofs Compare.KeyedProofs.
Import ListNotations.

Definition step_of (s : pstep) : step := match s with PKey k => SKey k | PIdx i => SIdx i end.
Definition steps_of (q : path) : steps := map step_of q.

(* two values found at the same place differ there: different types, or two scalars of
   one type with different values *)
Definition differ_here (u v : tree) : Prop :=
  same_type u v = false \/ (same_type u v = true /\ is_cmp_scalar u = true /\ val_neq u v = true).

(* the entry the walks file for such a pair *)
Definition clash_entry (fl : flags) (P : steps) (u v : tree) : entry :=
  if same_type u v then NotEq P u v else mk_diff fl P P u v.

Lemma seq_res_incl {A} (l : list (res (list A))) r a :
  seq_res l = Ok r -> In (Ok a) l -> incl a r.
Proof.
  revert r; induction l as [|x l IH]; intros r H Hin; [destruct Hin|].
  apply seq_res_cons_ok in H. destruct H as (a0 & b & -> & Hl & ->). destruct Hin as [Hin|Hin].
  - inversion Hin; subst. now apply incl_appl.
  - apply incl_appr. eapply IH; eauto.
Qed.

Section Complete.
Variables (fl : flags) (o : opts).
Hypothesis Hq : quiet o.

Definition rec_complete (rec : pats -> steps -> tree -> tree -> res report) : Prop :=
  forall ck P x y r, rec ck P x y = Ok r -> good x -> good y -> wf x ->
  forall q u v, q <> [] -> resolve x q = Some u -> resolve y q = Some v -> differ_here u v ->
  In (clash_entry fl (P ++ steps_of q) u v) r.

Lemma good_container_same_type x y s q u v :
  good x -> good y -> resolve x (s :: q) = Some u -> resolve y (s :: q) = Some v ->
  same_type x y = true /\ is_cmp_scalar x = false.
Proof.
  intros Gx Gy Hx Hy. destruct s; simpl in *.
  - destruct x as [|c ka|]; try discriminate. destruct y as [|c' kb|]; try discriminate.
    rewrite (good_tag_dict c ka Gx), (good_tag_dict c' kb Gy). auto.
  - destruct x as [| |c xs]; try discriminate. destruct y as [| |c' ys]; try discriminate.
    rewrite (good_tag_list c xs Gx), (good_tag_list c' ys Gy). auto.
Qed.

Lemma pair_complete rec par ck tp P x y r :
  par <> PListK -> rec_complete rec -> good x -> good y -> wf x ->
  cmp_pair fl o rec par ck tp P P P P x y = Ok r ->
  forall q u v, resolve x q = Some u -> resolve y q = Some v -> differ_here u v ->
  In (clash_entry fl (P ++ steps_of q) u v) r.
Proof.
  intros Hpar Hrec Gx Gy Wx H q u v Hu Hv Hd. unfold cmp_pair in H.
  rewrite !(q_transformed o Hq), !(q_only_ok o Hq) in H.
  destruct q as [|s q].
  - simpl in Hu, Hv. inversion Hu; inversion Hv; subst. unfold steps_of. simpl. rewrite app_nil_r.
    unfold clash_entry. destruct Hd as [Hd|(Hst & Hsc & Hne)].
    + rewrite Hd in *. inversion H. now left.
    + rewrite Hst, Hsc, Hne in *. simpl in H. inversion H. now left.
  - destruct (good_container_same_type x y s q u v Gx Gy Hu Hv) as [Hst Hsc]. rewrite Hst, Hsc in H.
    assert (Hr : rec ck P x y = Ok r).
    { destruct x as [sx|c ka|c xs]; [destruct s; discriminate| |].
      - destruct par; try congruence; assumption.
      - pose proof (good_tag_list c xs Gx); subst c. destruct par; try congruence; assumption. }
    eapply Hrec; eauto. discriminate.
Qed.

Lemma dict_complete rec : rec_complete rec -> forall ck P c c' ka kb r,
  dict_walk fl o rec ck P ka kb = Ok r -> good (Dict c ka) -> good (Dict c' kb) -> wf (Dict c ka) ->
  forall q u v, q <> [] -> resolve (Dict c ka) q = Some u -> resolve (Dict c' kb) q = Some v -> differ_here u v ->
  In (clash_entry fl (P ++ steps_of q) u v) r.
Proof.
  intros Hrec ck P c c' ka kb r H Ga Gb Wa q u v Hne Hu Hv Hd. unfold dict_walk in H.
  destruct (seq_res (map (dict_common fl o rec ck P kb) ka)) as [common| | |] eqn:Es; try discriminate.
  inversion H; subst; clear H. apply in_or_app. left.
  destruct q as [|[k|i] q]; [congruence| |discriminate]. simpl in Hu, Hv.
  destruct (lookup k ka) as [xa|] eqn:Ea; [|discriminate]. destruct (lookup k kb) as [yb|] eqn:Eb; [|discriminate].
  pose proof (lookup_In _ _ _ Ea) as (k' & Hin & <-).
  pose proof (seq_res_ok_forall _ _ Es) as Hok. rewrite Forall_forall in Hok.
  destruct (Hok _ (in_map (dict_common fl o rec ck P kb) ka (k, xa) Hin)) as [a Ha].
  apply (seq_res_incl _ _ a Es); [rewrite <- Ha; now apply in_map|].
  unfold dict_common in Ha. simpl in Ha. rewrite Eb, (q_excluded o Hq) in Ha.
  replace (P ++ steps_of (PKey k :: q)) with ((P ++ [SKey k]) ++ steps_of q)
    by (unfold steps_of; simpl; now rewrite <- app_assoc).
  refine (pair_complete rec PDict ck _ _ xa yb a _ Hrec (good_dict_child c ka k xa Ga Hin) (good_lookup c' kb k yb Gb Eb)
            (proj1 (wf_dict_child c ka k xa Wa Hin)) Ha q u v Hu Hv Hd). discriminate.
Qed.

Lemma ld_nth rec ck P xs : forall ys i n x y,
  nth_error xs n = Some x -> nth_error ys n = Some y ->
  In (cmp_pair fl o rec PListD ck (render P) (P ++ [SIdx (i + n)]) (P ++ [SIdx (i + n)]) (P ++ [SIdx (i + n)])
               (P ++ [SIdx (i + n)]) x y) (ld_loop fl o rec ck P i xs ys).
Proof.
  induction xs as [|x0 xs IH]; intros ys i n x y Hx Hy; [destruct n; discriminate|].
  destruct ys as [|y0 ys]; [destruct n; discriminate|]. cbn [ld_loop]. destruct n as [|n]; simpl in Hx, Hy.
  - inversion Hx; inversion Hy; subst. rewrite Nat.add_0_r. now left.
  - right. replace (i + S n) with (S i + n) by lia. now apply IH.
Qed.

Lemma list_direct_complete rec : rec_complete rec -> forall ck P c c' xs ys r,
  list_direct fl o rec ck P xs ys = Ok r -> good (Lst c xs) -> good (Lst c' ys) -> wf (Lst c xs) ->
  forall q u v, q <> [] -> resolve (Lst c xs) q = Some u -> resolve (Lst c' ys) q = Some v -> differ_here u v ->
  In (clash_entry fl (P ++ steps_of q) u v) r.
Proof.
  intros Hrec ck P c c' xs ys r H Ga Gb Wa q u v Hne Hu Hv Hd. unfold list_direct in H.
  rewrite (q_excluded o Hq) in H.
  destruct q as [|[k|i] q]; [congruence|discriminate|]. simpl in Hu, Hv.
  destruct (nth_error xs i) as [xi|] eqn:Ex; [|discriminate]. destruct (nth_error ys i) as [yi|] eqn:Ey; [|discriminate].
  pose proof (ld_nth rec ck P xs ys 0 i xi yi Ex Ey) as Hin. simpl in Hin.
  pose proof (seq_res_ok_forall _ _ H) as Hok. rewrite Forall_forall in Hok.
  destruct (Hok _ Hin) as [a Ha]. rewrite Ha in Hin.
  apply (seq_res_incl _ _ a H Hin).
  replace (P ++ steps_of (PIdx i :: q)) with ((P ++ [SIdx i]) ++ steps_of q)
    by (unfold steps_of; simpl; now rewrite <- app_assoc).
  refine (pair_complete rec PListD ck _ _ xi yi a _ Hrec (nth_error_good c xs i xi Ga Ex) (nth_error_good c' ys i yi Gb Ey)
            (wf_list_child c xs xi Wa (nth_error_In _ _ Ex)) Ha q u v Hu Hv Hd). discriminate.
Qed.

Theorem walk_complete : forall fuel, rec_complete (walk fl o fuel MDirect).
Proof.
  induction fuel as [|f IH]; intros ck P x y r H Gx Gy Wx q u v Hne Hu Hv Hd; [discriminate|].
  simpl in H. destruct x as [sx|c ka|c xs], y as [sy|c' kb|c' ys]; try discriminate.
  - eapply dict_complete; eauto.
  - eapply list_direct_complete; eauto.
Qed.
End Complete.

(* direct_compare reports every common place at which the operands differ: as a
   not_equal entry, or as a difftypes entry under the check-types flag *)
Theorem direct_complete fl o ck a b r :
  quiet o -> good a -> good b -> wf a ->
  compare_top fl o MDirect ck a b = Ok r ->
  forall q u v, q <> [] -> resolve a q = Some u -> resolve b q = Some v -> differ_here u v ->
  In (clash_entry fl (steps_of q) u v) r.
Proof.
  intros Hq Ga Gb Wa H q u v Hne Hu Hv Hd. unfold compare_top in H.
  destruct a as [|[] ka|[] xs]; try discriminate.
  - destruct b as [|[] kb|]; try discriminate.
    exact (walk_complete fl o Hq _ ck [] _ _ r H Ga Gb Wa q u v Hne Hu Hv Hd).
  - destruct b as [| |[] ys]; try discriminate.
    exact (walk_complete fl o Hq _ ck [] _ _ r H Ga Gb Wa q u v Hne Hu Hv Hd).
Qed.

(* C08: a pair of flat records under the keyed walk: one entry for each differing leaf *)
Theorem keyed_pair_complete fl o fuel ck p i j x y r :
  quiet o -> good x -> good y -> wf x -> list_free x = true -> is_record x = true -> is_record y = true ->
  pair_call fl o (walk fl o fuel MKeyed) ck p (i, x) (j, y) = Ok r ->
  forall q u v, q <> [] -> resolve x q = Some u -> resolve y q = Some v -> differ_here u v ->
  In (clash_entry fl ((p ++ [idx_step i j]) ++ steps_of q) u v) r.
Proof.
  intros Hq Gx Gy Wx Hf Rx Ry H q u v Hne Hu Hv Hd. unfold pair_call, cmp_pair in H.
  rewrite !(q_transformed o Hq) in H.
  destruct x as [|c ka|]; try discriminate. destruct y as [|c' kb|]; try discriminate.
  pose proof (good_tag_dict c ka Gx). pose proof (good_tag_dict c' kb Gy). subst. simpl in H.
  rewrite walk_mode_irrelevant in H by assumption.
  exact (walk_complete fl o Hq fuel ck _ _ _ r H Gx Gy Wx q u v Hne Hu Hv Hd).
Qed.
