(* Compare/OnlyStrProofs.v — one pattern given as a bare str or inside a tuple means the same (compare_only and
   exclude_xpaths): corollaries of the two filter theorems, which read the option through its pattern list only. *)
From Coq Require Import List NArith ZArith Bool.
From N0 Require Import Base.PyStr Base.PyVal Compare.Util Compare.Flags Compare.Match Compare.Model Compare.ReportProofs Compare.FilterProofs.
Import ListNotations.

Theorem compare_only_str_is_tuple fl s excl tr m ck a b :
  s <> [] ->
  compare_top fl (mk_opts (PStr s) excl tr) m ck a b = compare_top fl (mk_opts (PSeq [s]) excl tr) m ck a b.
Proof.
  intros Hs.
  rewrite (compare_only_is_filter fl (PStr s)) by (destruct s; [congruence|reflexivity]).
  rewrite (compare_only_is_filter fl (PSeq [s])) by reflexivity.
  reflexivity.
Qed.

Theorem exclude_str_is_tuple fl only s tr m ck a b r :
  walk_guard m a ->
  compare_top fl (mk_opts only (PSeq []) tr) m ck a b = Ok r ->
  compare_top fl (mk_opts only (PStr s) tr) m ck a b = compare_top fl (mk_opts only (PSeq [s]) tr) m ck a b.
Proof.
  intros G H.
  rewrite (exclude_is_filter fl only (PStr s) tr m ck a b r G H).
  rewrite (exclude_is_filter fl only (PSeq [s]) tr m ck a b r G H).
  reflexivity.
Qed.
