(* Compare/VerdictProofs.v — C07: the verdict of the ordered walk is exact. *)
From Coq Require Import List NArith ZArith Bool Lia.
From N0 Require Import Base.PyStr Base.PyVal Compare.Util Compare.Flags Compare.Match Compare.Model
  Compare.Spec Compare.WalkLemmas.
Import ListNotations.

(* no exclude_xpaths, no compare_only, no transform *)
Definition quiet (o : opts) : Prop :=
  pats_list (o_excl o) = [] /\ pats_truthy (o_only o) = false /\ o_tr o = [].

Definition good (t : tree) : Prop := all_n0 t = true /\ no_bytes t = true.

Lemma quiet_no_opts : quiet no_opts.
Proof. repeat split. Qed.

Section Quiet.
Variables (fl : flags) (o : opts).
Hypothesis Hq : quiet o.

Lemma q_excluded p : excluded o p = false.
Proof. unfold excluded. destruct Hq as (-> & _ & _). reflexivity. Qed.

Lemma q_only_ok par p : only_ok o par p = true.
Proof. unfold only_ok. destruct Hq as (_ & -> & _). destruct par; reflexivity. Qed.

Lemma q_transformed tp v : transformed o tp v = v.
Proof. unfold transformed. destruct Hq as (_ & _ & ->). reflexivity. Qed.
End Quiet.

Lemma good_dict_child c kvs k v : good (Dict c kvs) -> In (k, v) kvs -> good v.
Proof.
  intros [H1 H2] Hin. simpl in *. apply andb_true_iff in H1. destruct H1 as [_ H1].
  rewrite forallb_forall in H1, H2. split; [apply (H1 (k, v) Hin)|apply (H2 (k, v) Hin)].
Qed.

Lemma good_list_child c xs v : good (Lst c xs) -> In v xs -> good v.
Proof.
  intros [H1 H2] Hin. simpl in *. apply andb_true_iff in H1. destruct H1 as [_ H1].
  rewrite forallb_forall in H1, H2. split; auto.
Qed.

Lemma good_lookup c kvs k v : good (Dict c kvs) -> lookup k kvs = Some v -> good v.
Proof. intros G H. apply lookup_In in H. destruct H as (k' & Hin & _). eapply good_dict_child; eauto. Qed.

Lemma good_tag_dict c kvs : good (Dict c kvs) -> c = true.
Proof. intros [H _]. simpl in H. now apply andb_true_iff in H. Qed.
Lemma good_tag_list c xs : good (Lst c xs) -> c = true.
Proof. intros [H _]. simpl in H. now apply andb_true_iff in H. Qed.

Lemma same_scalar_type_false a b : same_scalar_type a b = false -> scalar_eqb a b = false.
Proof. destruct a, b; simpl; congruence. Qed.

Lemma same_type_false_neq x y : good x -> good y -> same_type x y = false -> tree_eq x y = false.
Proof.
  intros Gx Gy H. destruct x as [a|c ka|c xs], y as [b|c' kb|c' ys]; simpl in *; try reflexivity.
  - now apply same_scalar_type_false.
  - apply good_tag_dict in Gx, Gy. subst. discriminate.
  - apply good_tag_list in Gx, Gy. subst. discriminate.
Qed.

Lemma scalar_pair_verdict x y :
  same_type x y = true -> is_cmp_scalar x = true -> (val_neq x y = false <-> tree_eq x y = true).
Proof.
  destruct x as [a| |], y as [b| |]; simpl; try discriminate. intros _ _.
  rewrite negb_false_iff. tauto.
Qed.

(* ---- the pair, the dict walk, the ordered list walk -------------------------------------- *)
Section Direct.
Variables (fl : flags) (o : opts).
Hypothesis Hq : quiet o.

Definition rec_verdict (rec : pats -> steps -> tree -> tree -> res report) : Prop :=
  forall ck p x y r, rec ck p x y = Ok r -> good x -> good y -> (r = [] <-> tree_eq x y = true).

Lemma pair_verdict rec par ck tp p pd sl sd x y r :
  par <> PListK -> rec_verdict rec -> good x -> good y ->
  cmp_pair fl o rec par ck tp p pd sl sd x y = Ok r -> (r = [] <-> tree_eq x y = true).
Proof.
  intros Hpar Hrec Gx Gy H.
  pose proof (cmp_pair_outcome fl o rec par ck tp p pd sl sd x y) as O.
  rewrite H in O.
  inversion O as [Hst Hc|Hst Hsc Hne _|Hst _|Hst Hf|c xs Hst Hsc Hx Hc Hr|c kvs Hst Hsc Hx Hc Hr|]; subst;
    rewrite ?(q_transformed o Hq), ?(q_only_ok o Hq) in *.
  - destruct Hc as [[Hsc Hne]|[Hsc ->]].
    + rewrite andb_true_r in Hne. apply (scalar_pair_verdict x y Hst Hsc) in Hne. tauto.
    + destruct y as [[]| |]; simpl in Hst; try discriminate. simpl. tauto.
  - split; [discriminate|]. intros E. apply (scalar_pair_verdict x y Hst Hsc) in E. congruence.
  - split; [discriminate|]. rewrite (same_type_false_neq x y Gx Gy Hst). discriminate.
  - discriminate.
  - symmetry in Hr. eapply Hrec; eauto.
  - symmetry in Hr. eapply Hrec; eauto.
Qed.

Lemma flat_map_nil_iff {A B} (f : A -> list B) l : flat_map f l = [] <-> forall x, In x l -> f x = [].
Proof.
  induction l as [|x l IH]; simpl; [tauto|]. split.
  - intros H. apply app_eq_nil in H. destruct H as [H1 H2]. intros y [->|Hy]; [assumption|now apply IH].
  - intros H. rewrite (H x (or_introl eq_refl)). apply IH. intros y Hy. apply H. now right.
Qed.

Lemma dict_left_nil mk p others kv : dict_left o mk p others kv = [] <-> mem_key (fst kv) others = true.
Proof.
  unfold dict_left. destruct (mem_key (fst kv) others); [tauto|].
  rewrite (q_excluded o Hq), (q_only_ok o Hq). simpl. split; discriminate.
Qed.

Lemma dict_verdict rec : rec_verdict rec -> forall ck p c c' ka kb r,
  dict_walk fl o rec ck p ka kb = Ok r -> good (Dict c ka) -> good (Dict c' kb) ->
  (r = [] <-> tree_eq (Dict c ka) (Dict c' kb) = true).
Proof.
  intros Hrec ck p c c' ka kb r H Ga Gb. unfold dict_walk in H.
  destruct (seq_res (map (dict_common fl o rec ck p kb) ka)) as [common| | |] eqn:Es; try discriminate.
  inversion H; subst; clear H.
  pose proof (seq_res_ok_forall _ _ Es) as Hall. pose proof (seq_res_nil_iff _ _ Es) as Hnil.
  simpl. rewrite andb_true_iff, !forallb_forall.
  split.
  - intros E. apply app_eq_nil in E. destruct E as [E1 E2]. apply app_eq_nil in E2. destruct E2 as [E2 E3].
    rewrite flat_map_nil_iff in E2, E3. apply Hnil in E1. rewrite Forall_forall in E1, Hall. split.
    + intros [k v] Hin. simpl. specialize (E2 (k, v) Hin). apply dict_left_nil in E2. simpl in E2.
      apply mem_key_true in E2. destruct E2 as [vb Hvb]. rewrite Hvb.
      assert (Hc : dict_common fl o rec ck p kb (k, v) = Ok []) by (apply E1, in_map; assumption).
      unfold dict_common in Hc. simpl in Hc. rewrite Hvb, (q_excluded o Hq) in Hc.
      eapply pair_verdict in Hc; eauto; try discriminate.
      * now apply Hc.
      * exact (good_dict_child c ka k v Ga Hin).
      * exact (good_lookup c' kb k vb Gb Hvb).
    + intros kv Hin. apply (dict_left_nil OtherUniq p ka kv). auto.
  - intros [F1 F2]. assert (E1 : common = []).
    { apply Hnil. apply Forall_forall. intros x Hx. apply in_map_iff in Hx. destruct Hx as ([k v] & <- & Hin).
      specialize (F1 (k, v) Hin). simpl in F1. unfold dict_common. simpl.
      destruct (lookup k kb) as [vb|] eqn:Hvb; [|discriminate]. rewrite (q_excluded o Hq).
      rewrite Forall_forall in Hall.
      destruct (Hall (dict_common fl o rec ck p kb (k, v)) (in_map _ _ _ Hin)) as [r' Hr'].
      unfold dict_common in Hr'. simpl in Hr'. rewrite Hvb, (q_excluded o Hq) in Hr'. rewrite Hr'. f_equal.
      eapply pair_verdict in Hr'; eauto; try discriminate.
      * now apply Hr'.
      * exact (good_dict_child c ka k v Ga Hin).
      * exact (good_lookup c' kb k vb Gb Hvb). }
    rewrite E1. simpl.
    assert (E2 : flat_map (dict_left o SelfUniq p kb) ka = []).
    { apply flat_map_nil_iff. intros [k v] Hin. apply dict_left_nil. specialize (F1 (k, v) Hin). simpl in *.
      apply mem_key_true. destruct (lookup k kb); [eauto|discriminate]. }
    assert (E3 : flat_map (dict_left o OtherUniq p ka) kb = []).
    { apply flat_map_nil_iff. intros kv Hin. apply dict_left_nil. auto. }
    now rewrite E2, E3.
Qed.

Lemma ld_verdict rec : rec_verdict rec -> forall ck p xs ys i r,
  seq_res (ld_loop fl o rec ck p i xs ys) = Ok r ->
  (forall x, In x xs -> good x) -> (forall y, In y ys -> good y) ->
  (r = [] <-> list_eqb tree_eq xs ys = true).
Proof.
  intros Hrec ck p xs. induction xs as [|x xs IH]; intros ys i r H Gx Gy.
  - simpl in H. inversion H; subst. destruct ys; simpl; split; auto; discriminate.
  - destruct ys as [|y ys]; cbn [ld_loop] in H.
    + apply seq_res_cons_ok in H. destruct H as (a & b & Ha & _ & ->). inversion Ha; subst.
      simpl. split; discriminate.
    + apply seq_res_cons_ok in H. destruct H as (a & b & Ha & Hb & ->).
      eapply pair_verdict in Ha; eauto; try discriminate; try (apply Gx; now left); try (apply Gy; now left).
      apply IH in Hb; try (intros; first [apply Gx; now right|apply Gy; now right]).
      simpl. rewrite andb_true_iff, <- Ha, <- Hb. split.
      * intros E. apply app_eq_nil in E. tauto.
      * intros [-> ->]. reflexivity.
Qed.

Lemma list_direct_verdict rec : rec_verdict rec -> forall ck p c c' xs ys r,
  list_direct fl o rec ck p xs ys = Ok r -> good (Lst c xs) -> good (Lst c' ys) ->
  (r = [] <-> tree_eq (Lst c xs) (Lst c' ys) = true).
Proof.
  intros Hrec ck p c c' xs ys r H Ga Gb. unfold list_direct in H. rewrite (q_excluded o Hq) in H.
  eapply ld_verdict in H; eauto.
  - intros x Hx. exact (good_list_child c xs x Ga Hx).
  - intros y Hy. exact (good_list_child c' ys y Gb Hy).
Qed.

(* the whole ordered walk *)
Theorem walk_direct_verdict fuel ck p a b r :
  walk fl o fuel MDirect ck p a b = Ok r -> good a -> good b -> (r = [] <-> tree_eq a b = true).
Proof.
  intros H.
  refine (walk_ind fl o (fun m ck p a b r => m = MDirect -> good a -> good b -> (r = [] <-> tree_eq a b = true))
            _ _ _ fuel MDirect ck p a b r H eq_refl).
  - intros m rec Hrec ck' p' c c' ka kb r' H' -> Ga Gb. eapply dict_verdict; eauto.
    intros ck2 p2 x y r2 Hr2 Gx Gy. eapply Hrec; eauto.
  - intros rec Hrec ck' p' c c' xs ys r' H' _ Ga Gb. eapply list_direct_verdict; eauto.
    intros ck2 p2 x y r2 Hr2 Gx Gy. eapply Hrec; eauto.
  - intros rec _ ck' p' c c' xs ys r' _ E. discriminate.
Qed.
End Direct.


(* ---- the ordered walk returns a report on the supported domain ------------------------------ *)
Lemma seq_res_all_ok {A} (l : list (res (list A))) :
  Forall (fun x => exists a, x = Ok a) l -> exists r, seq_res l = Ok r.
Proof.
  induction 1 as [|x l [a ->] _ [b IH]]; simpl; [now exists []|]. rewrite IH. now exists (a ++ b).
Qed.

Definition same_kind (x y : tree) : Prop :=
  match x, y with Dict _ _, Dict _ _ | Lst _ _, Lst _ _ => True | _, _ => False end.

Section Total.
Variables (fl : flags) (o : opts).
Hypothesis Hq : quiet o.

Definition rec_total (bound : nat) (rec : pats -> steps -> tree -> tree -> res report) : Prop :=
  forall ck p x y, height x < bound -> good x -> good y -> same_kind x y -> exists r, rec ck p x y = Ok r.

Lemma pair_total bound rec par ck tp p pd sl sd x y :
  par <> PListK -> rec_total bound rec -> height x < bound -> good x -> good y ->
  exists r, cmp_pair fl o rec par ck tp p pd sl sd x y = Ok r.
Proof.
  intros Hpar Hrec Hh Gx Gy. unfold cmp_pair. rewrite !(q_transformed o Hq).
  destruct (same_type x y) eqn:Est.
  - destruct (is_cmp_scalar x) eqn:Esc.
    + destruct (val_neq x y && only_ok o par p); eauto.
    + destruct x as [s|c ka|c xs].
      * destruct s; simpl in Esc; try discriminate; eauto.
        destruct Gx as [_ Gx]. simpl in Gx. discriminate.
      * destruct y as [|c' kb|]; simpl in Est; try discriminate.
        destruct par; try congruence; apply Hrec; simpl; auto.
      * destruct y as [| |c' ys]; simpl in Est; try discriminate.
        pose proof (good_tag_list c xs Gx); subst c.
        destruct par; try congruence; apply Hrec; simpl; auto.
  - destruct (only_ok o par pd); eauto.
Qed.

Lemma walk_direct_total : forall fuel ck p a b,
  height a < fuel -> good a -> good b -> same_kind a b -> exists r, walk fl o fuel MDirect ck p a b = Ok r.
Proof.
  induction fuel as [|f IH]; intros ck p a b Hh Ga Gb Hk; [lia|].
  assert (Hrec : rec_total f (walk fl o f MDirect)) by (intros ck' p' x y Hx Gx Gy Hk'; now apply IH).
  destruct a as [s|c ka|c xs], b as [s'|c' kb|c' ys]; simpl in Hk; try contradiction; simpl.
  - unfold dict_walk.
    destruct (seq_res_all_ok (map (dict_common fl o (walk fl o f MDirect) ck p kb) ka)) as [r Hr].
    { apply Forall_forall. intros x Hx. apply in_map_iff in Hx. destruct Hx as ([k v] & <- & Hin).
      unfold dict_common. simpl. destruct (lookup k kb) as [vb|] eqn:Hvb; [|eauto].
      destruct (excluded o _); [eauto|].
      eapply pair_total; eauto; try discriminate.
      - pose proof (height_dict_child c ka k v Hin). lia.
      - exact (good_dict_child c ka k v Ga Hin).
      - exact (good_lookup c' kb k vb Gb Hvb). }
    rewrite Hr. eauto.
  - unfold list_direct. destruct (excluded o p); [eauto|].
    apply seq_res_all_ok.
    assert (G : forall xs0 ys0 i, (forall x, In x xs0 -> In x xs) -> (forall y, In y ys0 -> In y ys) ->
              Forall (fun x => exists a, x = Ok a) (ld_loop fl o (walk fl o f MDirect) ck p i xs0 ys0)).
    { induction xs0 as [|x xs0 IHx]; intros ys0 i Hxs Hys; simpl.
      - constructor; [eauto|constructor].
      - destruct ys0 as [|y ys0].
        + constructor; [eauto|]. apply IHx; auto. intros; apply Hxs; now right.
        + constructor.
          * eapply pair_total; eauto; try discriminate.
            -- pose proof (height_list_child c xs x (Hxs x (or_introl eq_refl))). lia.
            -- exact (good_list_child c xs x Ga (Hxs x (or_introl eq_refl))).
            -- exact (good_list_child c' ys y Gb (Hys y (or_introl eq_refl))).
          * apply IHx; intros; [apply Hxs|apply Hys]; now right. }
    apply G; auto.
Qed.
End Total.

(* ---- the entry point --------------------------------------------------------------------------- *)
Theorem direct_verdict fl o ck a b :
  quiet o -> good a -> good b -> same_kind a b ->
  exists r, compare_top fl o MDirect ck a b = Ok r /\ (r = [] <-> tree_eq a b = true).
Proof.
  intros Hq Ga Gb Hk.
  assert (Hw : exists r, walk fl o (S (height a)) MDirect ck [] a b = Ok r)
    by (apply walk_direct_total; auto).
  destruct Hw as [r Hr]. exists r. split.
  - unfold compare_top. destruct a as [|c ka|c xs], b as [|c' kb|c' ys]; simpl in Hk; try contradiction.
    + now rewrite (good_tag_dict c ka Ga), (good_tag_dict c' kb Gb).
    + now rewrite (good_tag_list c xs Ga), (good_tag_list c' ys Gb).
  - eapply walk_direct_verdict; eauto.
Qed.

(* ---- the flags only add detail ---------------------------------------------------------------- *)
(* what does not depend on the flags: the pairs with their left xpath (a difftypes
   entry of the unordered walk carries the left index only), and the unique entries *)
Definition proj_left (p : steps) : steps :=
  map (fun s => match s with SIdx2 i _ => SIdx i | _ => s end) p.

Inductive skel_entry :=
| SkPair (p : steps) (l r : tree)
| SkSelf (p : steps) (v : tree)
| SkOther (p : steps) (v : tree).

Definition skel (e : entry) : skel_entry :=
  match e with
  | NotEq p l r | DiffType p l r => SkPair (proj_left p) l r
  | SelfUniq p v => SkSelf p v
  | OtherUniq p v => SkOther p v
  end.

Definition res_map {A B} (f : A -> B) (r : res A) : res B :=
  match r with Ok a => Ok (f a) | Raise e => Raise e | OutOfFuel => OutOfFuel | Unmodelled => Unmodelled end.

Definition SK (r : res report) : res (list skel_entry) := res_map (map skel) r.

Lemma SK_seq (l : list (res report)) : SK (seq_res l) = seq_res (map SK l).
Proof.
  induction l as [|x l IH]; [reflexivity|]. simpl.
  destruct x as [a| | |]; try reflexivity. simpl.
  rewrite <- IH. destruct (seq_res l); simpl; try reflexivity. now rewrite map_app.
Qed.

Section FlagsDetail.
Variables (fl1 fl2 : flags) (o : opts).

Definition rec_sk (rec1 rec2 : pats -> steps -> tree -> tree -> res report) : Prop :=
  forall ck p x y, SK (rec1 ck p x y) = SK (rec2 ck p x y).

Lemma pair_sk rec1 rec2 par ck tp p pd sl sd x y :
  rec_sk rec1 rec2 -> proj_left pd = proj_left p ->
  SK (cmp_pair fl1 o rec1 par ck tp p pd sl sd x y) = SK (cmp_pair fl2 o rec2 par ck tp p pd sl sd x y).
Proof.
  intros Hrec Hp. unfold cmp_pair.
  destruct (same_type _ _).
  - destruct (is_cmp_scalar _); [reflexivity|].
    destruct x as [s|c ka|c xs]; try reflexivity.
    + destruct par; try apply Hrec. destruct y as [|[]|]; try reflexivity. apply Hrec.
    + destruct par; try apply Hrec. destruct c; [apply Hrec|reflexivity].
  - destruct (only_ok o par pd); [|reflexivity].
    unfold mk_diff. destruct (f_types fl1), (f_types fl2); simpl; rewrite ?Hp; reflexivity.
Qed.

Lemma dict_sk rec1 rec2 ck p ka kb :
  rec_sk rec1 rec2 -> SK (dict_walk fl1 o rec1 ck p ka kb) = SK (dict_walk fl2 o rec2 ck p ka kb).
Proof.
  intros Hrec. unfold dict_walk.
  assert (E : SK (seq_res (map (dict_common fl1 o rec1 ck p kb) ka)) =
              SK (seq_res (map (dict_common fl2 o rec2 ck p kb) ka))).
  { rewrite !SK_seq, !map_map. f_equal. apply map_ext. intros [k v]. unfold dict_common. simpl.
    destruct (lookup k kb); [|reflexivity]. destruct (excluded o _); [reflexivity|]. now apply pair_sk. }
  destruct (seq_res (map (dict_common fl1 o rec1 ck p kb) ka)) as [c1| | |],
           (seq_res (map (dict_common fl2 o rec2 ck p kb) ka)) as [c2| | |]; simpl in *; try congruence.
  inversion E as [E']. now rewrite !map_app, E'.
Qed.

Lemma ld_sk rec1 rec2 ck p xs : rec_sk rec1 rec2 -> forall i ys,
  map SK (ld_loop fl1 o rec1 ck p i xs ys) = map SK (ld_loop fl2 o rec2 ck p i xs ys).
Proof.
  intros Hrec. induction xs as [|x xs IH]; intros i ys; simpl; [reflexivity|].
  destruct ys as [|y ys]; simpl; rewrite IH; [reflexivity|]. f_equal. now apply pair_sk.
Qed.

Lemma list_direct_sk rec1 rec2 ck p xs ys :
  rec_sk rec1 rec2 -> SK (list_direct fl1 o rec1 ck p xs ys) = SK (list_direct fl2 o rec2 ck p xs ys).
Proof.
  intros Hrec. unfold list_direct. destruct (excluded o p); [reflexivity|].
  rewrite !SK_seq. f_equal. now apply ld_sk.
Qed.

Lemma proj_left_idx prefix i j : proj_left (prefix ++ [SIdx i]) = proj_left (prefix ++ [idx_step i j]).
Proof. unfold proj_left, idx_step. rewrite !map_app. destruct (Nat.eqb i j); reflexivity. Qed.

Lemma lk_sk rec1 rec2 ck p xs : rec_sk rec1 rec2 -> forall rem,
  let '(ps1, un1, rm1) := lk_loop fl1 o rec1 ck p xs rem in
  let '(ps2, un2, rm2) := lk_loop fl2 o rec2 ck p xs rem in
  map SK ps1 = map SK ps2 /\ un1 = un2 /\ rm1 = rm2.
Proof.
  intros Hrec. induction xs as [|[k [i x]] xs IH]; intros rem; simpl; [auto|].
  destruct (find_key k rem) as [[[j y] rem']|].
  - specialize (IH rem').
    destruct (lk_loop fl1 o rec1 ck p xs rem') as [[ps1 un1] rm1],
             (lk_loop fl2 o rec2 ck p xs rem') as [[ps2 un2] rm2].
    destruct IH as (E1 & E2 & E3). simpl. rewrite E1. repeat split; auto. f_equal.
    apply pair_sk; auto. apply proj_left_idx.
  - specialize (IH rem).
    destruct (lk_loop fl1 o rec1 ck p xs rem) as [[ps1 un1] rm1],
             (lk_loop fl2 o rec2 ck p xs rem) as [[ps2 un2] rm2].
    destruct IH as (E1 & E2 & E3). repeat split; auto. now rewrite E2.
Qed.

Lemma list_keyed_sk rec1 rec2 ck p xs ys :
  rec_sk rec1 rec2 -> SK (list_keyed fl1 o rec1 ck p xs ys) = SK (list_keyed fl2 o rec2 ck p xs ys).
Proof.
  intros Hrec. unfold list_keyed. destruct (excluded o p); [reflexivity|].
  destruct (item_keys o (render p) ck (enum_from 0 xs)) as [ka| | |]; try reflexivity.
  destruct (item_keys o (render p) ck (enum_from 0 ys)) as [kb| | |]; try reflexivity.
  pose proof (lk_sk rec1 rec2 ck p ka Hrec kb) as H.
  destruct (lk_loop fl1 o rec1 ck p ka kb) as [[ps1 un1] rm1],
           (lk_loop fl2 o rec2 ck p ka kb) as [[ps2 un2] rm2].
  destruct H as (E1 & -> & ->).
  assert (E : SK (seq_res ps1) = SK (seq_res ps2)) by (rewrite !SK_seq; now f_equal).
  destruct (seq_res ps1) as [c1| | |], (seq_res ps2) as [c2| | |]; simpl in *; try congruence.
  inversion E as [E']. now rewrite !map_app, E'.
Qed.

Theorem walk_sk : forall fuel m, rec_sk (walk fl1 o fuel m) (walk fl2 o fuel m).
Proof.
  induction fuel as [|f IH]; intros m ck p a b; [reflexivity|].
  simpl. destruct a as [s|c ka|c xs], b as [s'|c' kb|c' ys]; try reflexivity.
  - apply dict_sk, IH.
  - destruct m; [apply list_direct_sk|apply list_keyed_sk]; apply IH.
Qed.
End FlagsDetail.

(* for every two flag states: same outcome, same skeleton, hence the same verdict *)
Theorem flags_only_add_detail fl1 fl2 o m ck a b :
  SK (compare_top fl1 o m ck a b) = SK (compare_top fl2 o m ck a b).
Proof.
  unfold compare_top. destruct a as [|[] ka|[] xs]; try reflexivity.
  - destruct b as [|[] kb|]; try reflexivity. apply walk_sk.
  - destruct b as [| |[] ys]; try reflexivity. apply walk_sk.
Qed.

Corollary verdict_flag_independent fl1 fl2 o m ck a b :
  compare_top fl1 o m ck a b = Ok [] <-> compare_top fl2 o m ck a b = Ok [].
Proof.
  pose proof (flags_only_add_detail fl1 fl2 o m ck a b) as H. unfold SK in H.
  destruct (compare_top fl1 o m ck a b) as [r1| | |], (compare_top fl2 o m ck a b) as [r2| | |];
    simpl in H; try discriminate; try (split; discriminate).
  inversion H as [H']. split; intros E; inversion E; subst.
  - destruct r2; [reflexivity|discriminate].
  - destruct r1; [reflexivity|discriminate].
Qed.
