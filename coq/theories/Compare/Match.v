(* Compare/Match.v — xpath_match (n0struct_utils_compare.py 108-136): model and
   the specification it is proved against in MatchProofs.v. *)
From Coq Require Import List NArith ZArith Bool.
From N0 Require Import Base.PyStr Base.PyVal.
Import ListNotations.

Definition slash : N := 47%N.
Definition star : pstr := [42%N].

(* xpath_list: a str is wrapped into a one-element list *)
Inductive pats := PStr (s : pstr) | PSeq (l : list pstr).
Definition pats_list (p : pats) : list pstr := match p with PStr s => [s] | PSeq l => l end.
(* Python truthiness of the argument ("not compare_only") *)
Definition pats_truthy (p : pats) : bool :=
  match p with PStr [] => false | PSeq [] => false | _ => true end.

Definition part_ok (p x : pstr) : bool := pstr_eqb p star || pstr_eqb (lower p) (lower x).

(* the inner loop: pattern parts and xpath parts, both reversed.
     if not part: return i+1            (empty part: match)
     if j >= len(xpath_parts): break    (xpath too short)
     if part != "*" and part.lower() != xpath_parts[-1-j].lower(): break
   else: return i+1                     (pattern exhausted: match) *)
Fixpoint match_rev (pp xp : list pstr) : bool :=
  match pp with
  | [] => true
  | [] :: _ => true
  | p :: ps =>
    match xp with
    | [] => false
    | x :: xs => part_ok p x && match_rev ps xs
    end
  end.

Definition match_one (xpath pat : pstr) : bool :=
  match_rev (rev (split_chr slash pat)) (rev (split_chr slash xpath)).

Fixpoint xpath_match_from (i : nat) (xpath : pstr) (l : list pstr) : nat :=
  match l with
  | [] => 0
  | p :: r => if match_one xpath p then S i else xpath_match_from (S i) xpath r
  end.

(* 0 = no pattern matches, i+1 = the first matching pattern is number i *)
Definition xpath_match (xpath : pstr) (l : list pstr) : nat := xpath_match_from 0 xpath l.
Definition xmatch (xpath : pstr) (l : list pstr) : bool := negb (Nat.eqb (xpath_match xpath l) 0).

(* ---- specification ------------------------------------------------------------- *)
(* The parts of a pattern that count are those after its last empty part
   (a leading "/" or "//", or any "//" inside, cuts the pattern there). *)
Definition tail_of (Q parts : list pstr) : Prop :=
  Forall (fun p => p <> []) Q /\ (parts = Q \/ exists pre, parts = pre ++ [] :: Q).

Definition part_matches (p x : pstr) : Prop := p = star \/ lower p = lower x.

(* those parts equal, one for one, the last parts of the xpath *)
Definition tail_match (xpath pat : pstr) : Prop :=
  exists Q pre X,
    tail_of Q (split_chr slash pat) /\
    split_chr slash xpath = pre ++ X /\
    Forall2 part_matches Q X.

Definition obs_match (x : pstr * pats) : out :=
  Ok (Leaf (SInt (Z.of_nat (xpath_match (fst x) (pats_list (snd x)))))).
