(* Compare/SwapProofs.v — C09: swapping the operands of the ordered walk swaps the two
   unique lists and mirrors each pair. *)
From Coq Require Import List NArith ZArith Bool Lia Permutation.
From N0 Require Import Base.PyStr Base.PyVal Compare.Util Compare.Flags Compare.Match Compare.Model
  Compare.Spec Compare.WalkLemmas Compare.VerdictProofs Compare.ReportProofs Compare.FuelMono.
Import ListNotations.

(* the ordered walk never writes "[i]<>[j]": the mirror of an entry keeps its xpath *)
Definition swap_entry (e : entry) : entry :=
  match e with
  | NotEq p l r => NotEq p r l
  | DiffType p l r => DiffType p r l
  | SelfUniq p v => OtherUniq p v
  | OtherUniq p v => SelfUniq p v
  end.

Lemma swap_is_mirror e : map mirror_step (e_steps e) = e_steps e -> swap_entry e = mirror_entry e.
Proof. destruct e; simpl; intros ->; reflexivity. Qed.

Lemma same_scalar_type_sym a b : same_scalar_type a b = same_scalar_type b a.
Proof. destruct a, b; reflexivity. Qed.

Lemma same_type_sym x y : same_type x y = same_type y x.
Proof.
  destruct x as [a|c ka|c xs], y as [b|c' kb|c' ys]; simpl; try reflexivity.
  - apply same_scalar_type_sym.
  - destruct c, c'; reflexivity.
  - destruct c, c'; reflexivity.
Qed.

Lemma scalar_eqb_sym a b : scalar_eqb a b = scalar_eqb b a.
Proof.
  destruct (scalar_eqb a b) eqn:E.
  - apply scalar_eqb_eq in E. subst. symmetry. now apply scalar_eqb_eq.
  - destruct (scalar_eqb b a) eqn:E'; [|reflexivity]. apply scalar_eqb_eq in E'. subst.
    assert (scalar_eqb a a = true) by now apply scalar_eqb_eq. congruence.
Qed.

Lemma val_neq_sym x y : val_neq x y = val_neq y x.
Proof. destruct x as [a| |], y as [b| |]; simpl; try reflexivity. now rewrite scalar_eqb_sym. Qed.

Lemma same_type_scalar x y : same_type x y = true -> is_cmp_scalar y = is_cmp_scalar x.
Proof. destruct x as [[]| |], y as [[]| |]; simpl; intros H; try discriminate; reflexivity. Qed.

(* ---- results of a sequence ------------------------------------------------------------------ *)
Definition unok (x : res report) : report := match x with Ok a => a | _ => [] end.

Lemma seq_res_concat (l : list (res report)) r : seq_res l = Ok r -> r = flat_map unok l.
Proof.
  revert r; induction l as [|x l IH]; intros r H.
  - simpl in H. now inversion H.
  - apply seq_res_cons_ok in H. destruct H as (a & b & -> & Hl & ->). simpl. f_equal. now apply IH.
Qed.

Lemma map_flat_map {A B C} (f : B -> C) (g : A -> list B) l : map f (flat_map g l) = flat_map (fun x => map f (g x)) l.
Proof. induction l as [|x l IH]; simpl; [reflexivity|]. now rewrite map_app, IH. Qed.

Lemma flat_map_filter_nil {A B} (f : A -> list B) (c : A -> bool) l :
  (forall x, In x l -> c x = false -> f x = []) -> flat_map f l = flat_map f (filter c l).
Proof.
  induction l as [|x l IH]; intros H; simpl; [reflexivity|].
  rewrite IH by (intros; apply H; auto; now right).
  destruct (c x) eqn:E; simpl; [reflexivity|]. now rewrite (H x (or_introl eq_refl) E).
Qed.

Lemma flat_map_map' {A B C} (f : B -> list C) (g : A -> B) l : flat_map f (map g l) = flat_map (fun x => f (g x)) l.
Proof. induction l as [|x l IH]; simpl; [reflexivity|]. now rewrite IH. Qed.

Lemma flat_map_ext_in' {A B} (f g : A -> list B) l : (forall x, In x l -> f x = g x) -> flat_map f l = flat_map g l.
Proof.
  induction l as [|x l IH]; intros H; simpl; [reflexivity|].
  rewrite (H x (or_introl eq_refl)), IH; [reflexivity|]. intros; apply H; now right.
Qed.

Lemma Permutation_flat_map_pointwise {A B} (f g : A -> list B) l :
  (forall x, In x l -> Permutation (f x) (g x)) -> Permutation (flat_map f l) (flat_map g l).
Proof.
  induction l as [|x l IH]; intros H; simpl; [constructor|].
  apply Permutation_app; [apply H; now left|apply IH; intros; apply H; now right].
Qed.

Section Swap.
Variables (fl : flags) (o : opts).
Hypothesis Hq : quiet o.

Definition rec_swap (rec : pats -> steps -> tree -> tree -> res report) : Prop :=
  forall ck q x y r r', rec ck q x y = Ok r -> rec ck q y x = Ok r' -> wf x -> wf y ->
    Permutation r' (map swap_entry r).

Lemma pair_swap rec par ck tp p x y r r' :
  par <> PListK -> rec_swap rec -> wf x -> wf y ->
  cmp_pair fl o rec par ck tp p p p p x y = Ok r ->
  cmp_pair fl o rec par ck tp p p p p y x = Ok r' ->
  Permutation r' (map swap_entry r).
Proof.
  intros Hpar Hrec Wx Wy H H'. unfold cmp_pair in *. rewrite !(q_transformed o Hq), !(q_only_ok o Hq) in *.
  rewrite (same_type_sym y x) in H'. destruct (same_type x y) eqn:Est.
  - rewrite (same_type_scalar x y Est) in H'. destruct (is_cmp_scalar x) eqn:Esc.
    + rewrite (val_neq_sym y x) in H'. destruct (val_neq x y); simpl in *; inversion H; inversion H'; subst; simpl; auto.
    + destruct x as [sx|c ka|c xs], y as [sy|c' kb|c' ys]; simpl in Est; try discriminate.
      * destruct sx, sy; simpl in *; try discriminate; inversion H; inversion H'; subst; constructor.
      * destruct par; try congruence; eapply Hrec; eauto.
      * apply Bool.eqb_prop in Est. subst c'.
        destruct par; try congruence; [eapply Hrec; eauto|].
        destruct c; [eapply Hrec; eauto|discriminate].
  - inversion H; inversion H'; subst. simpl. unfold mk_diff. destruct (f_types fl); simpl; auto.
Qed.

(* ---- ordered list walk ------------------------------------------------------------------------ *)
Lemma ld_loop_left_only rec ck p xs : forall i,
  seq_res (ld_loop fl o rec ck p i xs []) = Ok (map (fun ix => SelfUniq (p ++ [SIdx (fst ix)]) (snd ix)) (enum_from i xs)).
Proof.
  induction xs as [|x xs IH]; intros i; simpl; [reflexivity|]. now rewrite IH.
Qed.

Lemma ld_loop_right_only rec ck p ys i :
  seq_res (ld_loop fl o rec ck p i [] ys) = Ok (map (fun iy => OtherUniq (p ++ [SIdx (fst iy)]) (snd iy)) (enum_from i ys)).
Proof. simpl. now rewrite app_nil_r. Qed.

Lemma swap_uniq_lists p (l : list (nat * tree)) :
  map swap_entry (map (fun ix => SelfUniq (p ++ [SIdx (fst ix)]) (snd ix)) l) =
  map (fun iy => OtherUniq (p ++ [SIdx (fst iy)]) (snd iy)) l /\
  map swap_entry (map (fun iy => OtherUniq (p ++ [SIdx (fst iy)]) (snd iy)) l) =
  map (fun ix => SelfUniq (p ++ [SIdx (fst ix)]) (snd ix)) l.
Proof. rewrite !map_map. split; reflexivity. Qed.

Lemma ld_swap rec ck p xs : rec_swap rec -> forall ys i r r',
  (forall x, In x xs -> wf x) -> (forall y, In y ys -> wf y) ->
  seq_res (ld_loop fl o rec ck p i xs ys) = Ok r -> seq_res (ld_loop fl o rec ck p i ys xs) = Ok r' ->
  Permutation r' (map swap_entry r).
Proof.
  intros Hrec. induction xs as [|x xs IH]; intros ys i r r' Wx Wy H H'.
  - rewrite ld_loop_right_only in H. rewrite ld_loop_left_only in H'. inversion H; inversion H'; subst.
    simpl. rewrite ?(proj2 (swap_uniq_lists p _)). apply Permutation_refl.
  - destruct ys as [|y ys].
    + rewrite ld_loop_right_only in H'. rewrite ld_loop_left_only in H. inversion H; inversion H'; subst.
      simpl. rewrite ?(proj1 (swap_uniq_lists p _)). apply Permutation_refl.
    + cbn [ld_loop] in H, H'. apply seq_res_cons_ok in H. apply seq_res_cons_ok in H'.
      destruct H as (a & b & Ha & Hb & ->). destruct H' as (a' & b' & Ha' & Hb' & ->).
      rewrite map_app. apply Permutation_app.
      * refine (pair_swap rec PListD ck _ _ x y a a' _ Hrec (Wx x (or_introl eq_refl)) (Wy y (or_introl eq_refl)) Ha Ha').
        discriminate.
      * refine (IH ys (S i) b b' _ _ Hb Hb'); intros; [apply Wx|apply Wy]; now right.
Qed.

(* ---- dict walk ----------------------------------------------------------------------------------- *)
Lemma dict_left_swap p ka kb kv :
  map swap_entry (dict_left o SelfUniq p kb kv) = dict_left o OtherUniq p kb kv /\
  map swap_entry (dict_left o OtherUniq p ka kv) = dict_left o SelfUniq p ka kv.
Proof.
  unfold dict_left. split.
  - destruct (mem_key _ kb); [reflexivity|]. destruct (_ && _); reflexivity.
  - destruct (mem_key _ ka); [reflexivity|]. destruct (_ && _); reflexivity.
Qed.

Lemma keys_wf c kvs : wf (Dict c kvs) -> NoDup (map fst kvs).
Proof. intros [H _]. exact H. Qed.

Lemma dict_swap rec : rec_swap rec -> forall ck p c c' ka kb r r',
  wf (Dict c ka) -> wf (Dict c' kb) ->
  dict_walk fl o rec ck p ka kb = Ok r -> dict_walk fl o rec ck p kb ka = Ok r' ->
  Permutation r' (map swap_entry r).
Proof.
  intros Hrec ck p c c' ka kb r r' Wa Wb H H'. unfold dict_walk in *.
  destruct (seq_res (map (dict_common fl o rec ck p kb) ka)) as [c1| | |] eqn:E1; try discriminate.
  destruct (seq_res (map (dict_common fl o rec ck p ka) kb)) as [c2| | |] eqn:E2; try discriminate.
  inversion H; inversion H'; subst; clear H H'.
  rewrite !map_app, !map_flat_map.
  assert (S1 : flat_map (fun x => map swap_entry (dict_left o SelfUniq p kb x)) ka = flat_map (dict_left o OtherUniq p kb) ka)
    by (apply flat_map_ext; intros kv; apply (dict_left_swap p ka kb kv)).
  assert (S2 : flat_map (fun x => map swap_entry (dict_left o OtherUniq p ka x)) kb = flat_map (dict_left o SelfUniq p ka) kb)
    by (apply flat_map_ext; intros kv; apply (dict_left_swap p ka kb kv)).
  rewrite S1, S2.
  apply Permutation_app; [|apply Permutation_app_comm].
  (* the common keys *)
  pose proof (seq_res_ok_forall _ _ E1) as A1. pose proof (seq_res_ok_forall _ _ E2) as A2.
  rewrite (seq_res_concat _ _ E1), (seq_res_concat _ _ E2), !flat_map_concat_map, !map_map, <- !flat_map_concat_map.
  set (F1 := fun kv : pstr * tree => unok (dict_common fl o rec ck p kb kv)).
  set (F2 := fun kv : pstr * tree => unok (dict_common fl o rec ck p ka kv)).
  (* by key *)
  set (G1 := fun k : pstr => match lookup k ka with Some v => F1 (k, v) | None => [] end).
  set (G2 := fun k : pstr => match lookup k kb with Some v => F2 (k, v) | None => [] end).
  assert (HF1 : flat_map F1 ka = flat_map G1 (map fst ka)).
  { rewrite flat_map_map'. apply flat_map_ext_in'.
    intros [k v] Hin. unfold G1. simpl. now rewrite (proj2 (wf_dict_child c ka k v Wa Hin)). }
  assert (HF2 : flat_map F2 kb = flat_map G2 (map fst kb)).
  { rewrite flat_map_map'. apply flat_map_ext_in'.
    intros [k v] Hin. unfold G2. simpl. now rewrite (proj2 (wf_dict_child c' kb k v Wb Hin)). }
  rewrite HF1, HF2.
  set (inb := fun k : pstr => mem_key k kb). set (ina := fun k : pstr => mem_key k ka).
  rewrite (flat_map_filter_nil G1 inb), (flat_map_filter_nil G2 ina).
  2:{ intros k _ Hk. unfold G2, F2, dict_common. destruct (lookup k kb); [|reflexivity]. simpl.
      unfold ina in Hk. apply mem_key_false in Hk. now rewrite Hk. }
  2:{ intros k _ Hk. unfold G1, F1, dict_common. destruct (lookup k ka); [|reflexivity]. simpl.
      unfold inb in Hk. apply mem_key_false in Hk. now rewrite Hk. }
  assert (HP : Permutation (filter ina (map fst kb)) (filter inb (map fst ka))).
  { apply NoDup_Permutation; try (apply NoDup_filter; eapply keys_wf; eauto).
    intros k. rewrite !filter_In. unfold ina, inb. rewrite !mem_key_true. split.
    - intros [Hk [v Hv]]. split; [|apply in_map_iff in Hk; destruct Hk as ([k' v'] & <- & Hin);
        exists v'; apply (wf_dict_child c' kb k' v' Wb Hin)].
      apply lookup_In in Hv. destruct Hv as (k' & Hin & ->). apply in_map_iff. now exists (k', v).
    - intros [Hk [v Hv]]. split; [|apply in_map_iff in Hk; destruct Hk as ([k' v'] & <- & Hin);
        exists v'; apply (wf_dict_child c ka k' v' Wa Hin)].
      apply lookup_In in Hv. destruct Hv as (k' & Hin & ->). apply in_map_iff. now exists (k', v). }
  rewrite map_flat_map.
  eapply Permutation_trans; [apply Permutation_flat_map; exact HP|].
  apply Permutation_flat_map_pointwise. intros k Hk. apply filter_In in Hk. destruct Hk as [Hk1 Hk2].
  unfold inb in Hk2. apply mem_key_true in Hk2. destruct Hk2 as [vb Hvb].
  apply in_map_iff in Hk1. destruct Hk1 as ([k' va] & Hk' & Hin). simpl in Hk'. subst k'.
  destruct (wf_dict_child c ka k va Wa Hin) as [Wva Hva].
  pose proof (lookup_In _ _ _ Hvb) as (k2 & Hinb & Ek). subst k2.
  destruct (wf_dict_child c' kb k vb Wb Hinb) as [Wvb _].
  unfold G1, G2. rewrite Hva, Hvb. unfold F1, F2.
  rewrite Forall_forall in A1, A2.
  destruct (A1 _ (in_map _ _ _ Hin)) as [r1 Hr1]. destruct (A2 _ (in_map _ _ _ Hinb)) as [r2 Hr2].
  rewrite Hr1, Hr2. simpl. unfold dict_common in Hr1, Hr2. simpl in Hr1, Hr2.
  rewrite Hvb, (q_excluded o Hq) in Hr1. rewrite Hva, (q_excluded o Hq) in Hr2.
  refine (pair_swap rec PDict ck _ _ va vb r1 r2 _ Hrec Wva Wvb Hr1 Hr2). discriminate.
Qed.

Theorem walk_swap : forall fuel, rec_swap (walk fl o fuel MDirect).
Proof.
  induction fuel as [|f IH]; intros ck q x y r r' H H' Wx Wy; [discriminate|].
  simpl in H, H'. destruct x as [sx|c ka|c xs], y as [sy|c' kb|c' ys]; try discriminate.
  - exact (dict_swap (walk fl o f MDirect) IH ck q c c' ka kb r r' Wx Wy H H').
  - unfold list_direct in *. rewrite (q_excluded o Hq) in *.
    refine (ld_swap (walk fl o f MDirect) ck q xs IH ys 0 r r' _ _ H H'); intros z Hz;
      [exact (wf_list_child c xs z Wx Hz)|exact (wf_list_child c' ys z Wy Hz)].
Qed.
End Swap.

(* direct_compare: swapping the operands swaps self_unique with other_unique and mirrors
   every pair; the entries are the same up to their order (the dict walk follows the key
   order of its left operand) *)
Theorem swap_mirror fl o ck a b r r' :
  quiet o -> wf a -> wf b ->
  compare_top fl o MDirect ck a b = Ok r -> compare_top fl o MDirect ck b a = Ok r' ->
  Permutation r' (map swap_entry r).
Proof.
  intros Hq Wa Wb H H'. unfold compare_top in *.
  set (f := S (Nat.max (height a) (height b))).
  assert (Ha : walk fl o f MDirect ck [] a b = Ok r).
  { destruct a as [|[] ka|[] xs]; try discriminate.
    - destruct b as [|[] kb|]; try discriminate. eapply walk_mono; [|exact H]. unfold f. lia.
    - destruct b as [| |[] ys]; try discriminate. eapply walk_mono; [|exact H]. unfold f. lia. }
  assert (Hb : walk fl o f MDirect ck [] b a = Ok r').
  { destruct b as [|[] kb|[] ys]; try discriminate.
    - destruct a as [|[] ka|]; try discriminate. eapply walk_mono; [|exact H']. unfold f. lia.
    - destruct a as [| |[] xs]; try discriminate. eapply walk_mono; [|exact H']. unfold f. lia. }
  exact (walk_swap fl o Hq f ck [] a b r r' Ha Hb Wa Wb).
Qed.
