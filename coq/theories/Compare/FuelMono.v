(* Compare/FuelMono.v — a report obtained with some fuel is obtained with any larger fuel. *)
From Coq Require Import List NArith ZArith Bool Lia.
From N0 Require Import Base.PyStr Base.PyVal Compare.Util Compare.Flags Compare.Match Compare.Model
  Compare.WalkLemmas.
Import ListNotations.

Section Mono.
Variables (fl : flags) (o : opts).

Definition rec_le (rec rec' : pats -> steps -> tree -> tree -> res report) : Prop :=
  forall ck q x y r, rec ck q x y = Ok r -> rec' ck q x y = Ok r.

Lemma pair_mono rec rec' par ck tp p pd sl sd x y r :
  rec_le rec rec' -> cmp_pair fl o rec par ck tp p pd sl sd x y = Ok r ->
  cmp_pair fl o rec' par ck tp p pd sl sd x y = Ok r.
Proof.
  intros Hle. unfold cmp_pair. destruct (same_type _ _); [|auto].
  destruct (is_cmp_scalar _); [auto|]. destruct x as [s|c ka|c xs]; auto.
  - destruct par; try apply Hle. destruct y as [|[]|]; auto.
  - destruct par; try apply Hle. destruct c; auto.
Qed.

Lemma seq_res_mono (l l' : list (res report)) r :
  Forall2 (fun x x' => forall a, x = Ok a -> x' = Ok a) l l' -> seq_res l = Ok r -> seq_res l' = Ok r.
Proof.
  intros HF H. exact (seq_res_map_hom (fun a => a) l l' eq_refl (fun a b => eq_refl) HF r H).
Qed.

Lemma Forall2_map_same' {A B C} (R : B -> C -> Prop) (f : A -> B) (g : A -> C) l :
  (forall x, In x l -> R (f x) (g x)) -> Forall2 R (map f l) (map g l).
Proof.
  induction l as [|x l IH]; intros H; simpl; constructor; [apply H; now left|apply IH; intros; apply H; now right].
Qed.

Lemma dict_mono rec rec' ck p ka kb r :
  rec_le rec rec' -> dict_walk fl o rec ck p ka kb = Ok r -> dict_walk fl o rec' ck p ka kb = Ok r.
Proof.
  intros Hle H. unfold dict_walk in *.
  destruct (seq_res (map (dict_common fl o rec ck p kb) ka)) as [c0| | |] eqn:Es; try discriminate.
  rewrite (seq_res_mono (map (dict_common fl o rec ck p kb) ka) (map (dict_common fl o rec' ck p kb) ka) c0); [exact H| |exact Es].
  apply Forall2_map_same'. intros kv _ a Ha. unfold dict_common in *.
  destruct (lookup (fst kv) kb); [|exact Ha]. destruct (excluded o _); [exact Ha|].
  eapply pair_mono; eauto.
Qed.

Lemma ld_mono rec rec' ck p xs : rec_le rec rec' -> forall i ys,
  Forall2 (fun x x' => forall a, x = Ok a -> x' = Ok a) (ld_loop fl o rec ck p i xs ys) (ld_loop fl o rec' ck p i xs ys).
Proof.
  intros Hle. induction xs as [|x xs IH]; intros i ys; simpl.
  - constructor; [auto|constructor].
  - destruct ys as [|y ys]; constructor; auto. intros a Ha. eapply pair_mono; eauto.
Qed.

Lemma lk_mono rec rec' ck p xs : rec_le rec rec' -> forall rem,
  let '(ps, un, rm) := lk_loop fl o rec ck p xs rem in
  let '(ps', un', rm') := lk_loop fl o rec' ck p xs rem in
  Forall2 (fun x x' => forall a, x = Ok a -> x' = Ok a) ps ps' /\ un = un' /\ rm = rm'.
Proof.
  intros Hle. induction xs as [|[k [i x]] xs IH]; intros rem; simpl; [auto|].
  destruct (find_key k rem) as [[[j y] rem']|].
  - specialize (IH rem'). destruct (lk_loop fl o rec ck p xs rem') as [[ps un] rm],
      (lk_loop fl o rec' ck p xs rem') as [[ps' un'] rm']. destruct IH as (I1 & -> & ->).
    repeat split; auto. constructor; [|assumption]. intros a Ha. eapply pair_mono; eauto.
  - specialize (IH rem). destruct (lk_loop fl o rec ck p xs rem) as [[ps un] rm],
      (lk_loop fl o rec' ck p xs rem) as [[ps' un'] rm']. destruct IH as (I1 & -> & ->). auto.
Qed.

Lemma list_keyed_mono rec rec' ck p xs ys r :
  rec_le rec rec' -> list_keyed fl o rec ck p xs ys = Ok r -> list_keyed fl o rec' ck p xs ys = Ok r.
Proof.
  intros Hle H. unfold list_keyed in *. destruct (excluded o p); [exact H|].
  destruct (item_keys o (render p) ck (enum_from 0 xs)) as [ka| | |]; try discriminate.
  destruct (item_keys o (render p) ck (enum_from 0 ys)) as [kb| | |]; try discriminate.
  pose proof (lk_mono rec rec' ck p ka Hle kb) as HL.
  destruct (lk_loop fl o rec ck p ka kb) as [[ps un] rm], (lk_loop fl o rec' ck p ka kb) as [[ps' un'] rm'].
  destruct HL as (I1 & <- & <-).
  destruct (seq_res ps) as [c0| | |] eqn:Es; try discriminate.
  now rewrite (seq_res_mono ps ps' c0 I1 Es).
Qed.

Theorem walk_mono : forall f f' m, f <= f' -> rec_le (walk fl o f m) (walk fl o f' m).
Proof.
  induction f as [|f IH]; intros f' m Hf ck q x y r H; [discriminate|].
  destruct f' as [|f']; [lia|]. assert (Hle : rec_le (walk fl o f m) (walk fl o f' m)) by (apply IH; lia).
  simpl in *. destruct x as [s|c ka|c xs], y as [s'|c' kb|c' ys]; try discriminate.
  - eapply dict_mono; eauto.
  - destruct m.
    + unfold list_direct in *. destruct (excluded o q); [exact H|].
      eapply seq_res_mono; [apply ld_mono; eauto|exact H].
    + eapply list_keyed_mono; eauto.
Qed.
End Mono.
