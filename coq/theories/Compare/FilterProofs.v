(* Compare/FilterProofs.v — C10: compare_only and exclude_xpaths are filters on the
   report of the unrestricted comparison. *)
From Coq Require Import List NArith ZArith Bool Lia.
From N0 Require Import Base.PyStr Base.PyVal Compare.Util Compare.Flags Compare.Match Compare.Model
  Compare.Spec Compare.WalkLemmas Compare.VerdictProofs Compare.ReportProofs.
Import ListNotations.

Definition RF (keep : entry -> bool) (r : res report) : res report := res_map (filter keep) r.

Lemma RF_seq keep (l : list (res report)) : RF keep (seq_res l) = seq_res (map (RF keep) l).
Proof.
  induction l as [|x l IH]; [reflexivity|]. simpl.
  destruct x as [a| | |]; try reflexivity. simpl.
  rewrite <- IH. destruct (seq_res l); simpl; try reflexivity. now rewrite filter_app.
Qed.

(* ---- compare_only ------------------------------------------------------------------------------------ *)
Section Only.
Variables (fl : flags) (o1 o0 : opts).
Hypothesis Hexcl : o_excl o1 = o_excl o0.
Hypothesis Htr : o_tr o1 = o_tr o0.
Hypothesis Hon : pats_truthy (o_only o1) = true.
Hypothesis Hoff : pats_truthy (o_only o0) = false.

Let O := pats_list (o_only o1).
Let keep := keep_only O.

Lemma only_ok_off par p : only_ok o0 par p = true.
Proof. unfold only_ok. rewrite Hoff. destruct par; reflexivity. Qed.

Lemma only_excluded p : excluded o1 p = excluded o0 p.
Proof. unfold excluded. now rewrite Hexcl. Qed.

Lemma only_transformed tp v : transformed o1 tp v = transformed o0 tp v.
Proof. unfold transformed. now rewrite Htr. Qed.

Lemma keep_key_entry p k (e : entry) :
  e_steps e = p ++ [SKey k] -> keep e = only_ok o1 PDict (p ++ [SKey k]).
Proof.
  intros H. unfold keep, keep_only, only_ok. rewrite H, ends_with_index_snoc, Hon. reflexivity.
Qed.

Lemma keep_idx_entry p s (e : entry) :
  e_steps e = p ++ [s] -> (match s with SKey _ => False | _ => True end) -> keep e = true.
Proof.
  intros H Hs. unfold keep, keep_only. rewrite H, ends_with_index_snoc. destruct s; [contradiction| |]; reflexivity.
Qed.

Definition rec_only (rec1 rec0 : pats -> steps -> tree -> tree -> res report) : Prop :=
  forall ck q x y, rec1 ck q x y = RF keep (rec0 ck q x y).

(* the xpaths of a pair's own entries decide alike *)
Lemma pair_only rec1 rec0 par ck tp p pd sl sd x y :
  rec_only rec1 rec0 ->
  (forall e, e_steps e = p -> keep e = only_ok o1 par p) ->
  (forall e, e_steps e = pd -> keep e = only_ok o1 par pd) ->
  only_ok o1 par p = only_ok o1 par pd ->
  cmp_pair fl o1 rec1 par ck tp p pd sl sd x y = RF keep (cmp_pair fl o0 rec0 par ck tp p pd sl sd x y).
Proof.
  intros Hrec Kp Kpd Hpp. unfold cmp_pair. rewrite !only_transformed, !only_ok_off.
  destruct (same_type _ _).
  - destruct (is_cmp_scalar _).
    + rewrite andb_true_r. destruct (val_neq _ _); simpl; [|reflexivity].
      rewrite (Kp (NotEq p x y) eq_refl). destruct (only_ok o1 par p); reflexivity.
    + destruct x as [s|c ka|c xs]; try (destruct s; reflexivity).
      * destruct par; try apply Hrec. destruct y as [|[]|]; try reflexivity. apply Hrec.
      * destruct par; try apply Hrec. destruct c; [apply Hrec|reflexivity].
  - simpl. assert (K : keep (mk_diff fl pd p x y) = only_ok o1 par pd).
    { unfold mk_diff. destruct (f_types fl); [now apply Kpd|]. rewrite (Kp (NotEq p x y) eq_refl). exact Hpp. }
    rewrite K. destruct (only_ok o1 par pd); reflexivity.
Qed.

Lemma filter_flat_map {A B} (f : B -> bool) (g : A -> list B) l :
  filter f (flat_map g l) = flat_map (fun x => filter f (g x)) l.
Proof. induction l as [|x l IH]; simpl; [reflexivity|]. now rewrite filter_app, IH. Qed.

Lemma dict_only rec1 rec0 ck p ka kb :
  rec_only rec1 rec0 -> dict_walk fl o1 rec1 ck p ka kb = RF keep (dict_walk fl o0 rec0 ck p ka kb).
Proof.
  intros Hrec. unfold dict_walk.
  assert (E : seq_res (map (dict_common fl o1 rec1 ck p kb) ka) =
              RF keep (seq_res (map (dict_common fl o0 rec0 ck p kb) ka))).
  { rewrite RF_seq, map_map. f_equal. apply map_ext. intros [k v]. unfold dict_common. simpl.
    destruct (lookup k kb); [|reflexivity]. rewrite only_excluded. destruct (excluded o0 _); [reflexivity|].
    apply pair_only; auto; intros e He; now apply keep_key_entry. }
  rewrite E. destruct (seq_res (map (dict_common fl o0 rec0 ck p kb) ka)) as [c0| | |]; simpl; try reflexivity.
  rewrite !filter_app, !filter_flat_map. f_equal. f_equal. f_equal.
  - apply flat_map_ext. intros [k v]. unfold dict_left. cbn [fst snd]. destruct (mem_key k kb); [reflexivity|].
    rewrite only_excluded, only_ok_off, andb_true_r. destruct (excluded o0 _); cbn [negb andb filter]; [reflexivity|].
    rewrite (keep_key_entry p k (SelfUniq (p ++ [SKey k]) v) eq_refl). destruct (only_ok o1 PDict _); reflexivity.
  - apply flat_map_ext. intros [k v]. unfold dict_left. cbn [fst snd]. destruct (mem_key k ka); [reflexivity|].
    rewrite only_excluded, only_ok_off, andb_true_r. destruct (excluded o0 _); cbn [negb andb filter]; [reflexivity|].
    rewrite (keep_key_entry p k (OtherUniq (p ++ [SKey k]) v) eq_refl). destruct (only_ok o1 PDict _); reflexivity.
Qed.

Lemma filter_all {A} (f : A -> bool) l : (forall x, In x l -> f x = true) -> filter f l = l.
Proof.
  induction l as [|x l IH]; intros H; simpl; [reflexivity|].
  rewrite (H x (or_introl eq_refl)), IH; [reflexivity|]. intros; apply H; now right.
Qed.

Lemma ld_only rec1 rec0 ck p xs : rec_only rec1 rec0 -> forall i ys,
  ld_loop fl o1 rec1 ck p i xs ys = map (RF keep) (ld_loop fl o0 rec0 ck p i xs ys).
Proof.
  intros Hrec. induction xs as [|x xs IH]; intros i ys; simpl.
  - f_equal. f_equal. symmetry. apply filter_all. intros e He. apply in_map_iff in He.
    destruct He as ([j y] & <- & _). now apply (keep_idx_entry p (SIdx j)).
  - destruct ys as [|y ys]; simpl; rewrite IH; f_equal.
    + now rewrite (keep_idx_entry p (SIdx i) (SelfUniq (p ++ [SIdx i]) x) eq_refl I).
    + apply pair_only; auto; intros e He; now rewrite (keep_idx_entry p (SIdx i) e He I).
Qed.

Lemma item_keys_only prefix ck l : item_keys o1 prefix ck l = item_keys o0 prefix ck l.
Proof.
  assert (K : forall x, item_key o1 prefix ck x = item_key o0 prefix ck x).
  { intros x. unfold item_key. destruct x; try reflexivity. generalize (@nil N).
    induction (pats_list ck) as [|k r IH]; intros acc; simpl; [reflexivity|].
    destruct (lookup k kvs); [|apply IH]. rewrite only_transformed. destruct (py_str _); [apply IH|reflexivity]. }
  induction l as [|[i x] l IH]; simpl; [reflexivity|]. now rewrite K, IH.
Qed.

Lemma lk_only rec1 rec0 ck p xs : rec_only rec1 rec0 -> forall rem,
  lk_loop fl o1 rec1 ck p xs rem =
  let '(ps, un, rm) := lk_loop fl o0 rec0 ck p xs rem in (map (RF keep) ps, un, rm).
Proof.
  intros Hrec. induction xs as [|[k [i x]] xs IH]; intros rem; simpl; [reflexivity|].
  destruct (find_key k rem) as [[[j y] rem']|].
  - rewrite IH. destruct (lk_loop fl o0 rec0 ck p xs rem') as [[ps un] rm]. simpl. f_equal. f_equal. f_equal.
    assert (Hi : match idx_step i j with SKey _ => False | _ => True end)
      by (unfold idx_step; destruct (Nat.eqb i j); exact I).
    apply pair_only; auto; intros e He.
    + now rewrite (keep_idx_entry p (idx_step i j) e He Hi).
    + now rewrite (keep_idx_entry p (SIdx i) e He I).
  - rewrite IH. destruct (lk_loop fl o0 rec0 ck p xs rem) as [[ps un] rm]. reflexivity.
Qed.

Lemma list_keyed_only rec1 rec0 ck p xs ys :
  rec_only rec1 rec0 -> list_keyed fl o1 rec1 ck p xs ys = RF keep (list_keyed fl o0 rec0 ck p xs ys).
Proof.
  intros Hrec. unfold list_keyed. rewrite only_excluded. destruct (excluded o0 p); [reflexivity|].
  rewrite !item_keys_only.
  destruct (item_keys o0 (render p) ck (enum_from 0 xs)) as [ka| | |]; try reflexivity.
  destruct (item_keys o0 (render p) ck (enum_from 0 ys)) as [kb| | |]; try reflexivity.
  rewrite (lk_only rec1 rec0 ck p ka Hrec kb).
  destruct (lk_loop fl o0 rec0 ck p ka kb) as [[ps un] rm].
  rewrite <- RF_seq. destruct (seq_res ps) as [c0| | |]; simpl; try reflexivity.
  rewrite !filter_app. f_equal. f_equal. f_equal.
  - symmetry. apply filter_all. intros e He. apply in_map_iff in He. destruct He as ([i x] & <- & _).
    now apply (keep_idx_entry p (SIdx i)).
  - symmetry. apply filter_all. intros e He. apply in_map_iff in He. destruct He as ([k [j y]] & <- & _).
    now apply (keep_idx_entry p (SIdx j)).
Qed.

Theorem walk_only : forall fuel m, rec_only (walk fl o1 fuel m) (walk fl o0 fuel m).
Proof.
  induction fuel as [|f IH]; intros m ck p a b; [reflexivity|].
  simpl. destruct a as [s|c ka|c xs], b as [s'|c' kb|c' ys]; try reflexivity.
  - apply dict_only, IH.
  - destruct m.
    + unfold list_direct. rewrite only_excluded. destruct (excluded o0 p); [reflexivity|].
      rewrite RF_seq. f_equal. apply ld_only, IH.
    + apply list_keyed_only, IH.
Qed.
End Only.

(* compare_only = O keeps, among the differences located at dictionary entries,
   exactly those whose xpath matches, and leaves list-membership differences alone *)
Theorem compare_only_is_filter fl O excl tr m ck a b :
  pats_truthy O = true ->
  compare_top fl (mk_opts O excl tr) m ck a b =
  RF (keep_only (pats_list O)) (compare_top fl (mk_opts (PSeq []) excl tr) m ck a b).
Proof.
  intros HO. unfold compare_top.
  destruct a as [|[] ka|[] xs]; try reflexivity.
  - destruct b as [|[] kb|]; try reflexivity. now apply walk_only.
  - destruct b as [| |[] ys]; try reflexivity. now apply walk_only.
Qed.

(* ---- exclude_xpaths ------------------------------------------------------------------------------------ *)
(* The checks the walks make on the way from the container at [pre] down to the place
   [pre ++ rest]: at a key step, the dictionary entry pre/key; at an index step, the
   list at pre (lines 264 / 469: the list walks test their own prefix). *)
Fixpoint excl_hit (E : list pstr) (pre rest : steps) : bool :=
  match rest with
  | [] => false
  | s :: r =>
    (match s with SKey _ => xmatch (render (pre ++ [s])) E | _ => xmatch (render pre) E end)
    || excl_hit E (pre ++ [s]) r
  end.

Definition keep_excl (E : list pstr) (p : steps) (e : entry) : bool :=
  negb (excl_hit E p (skipn (length p) (e_steps e))).

Lemma skipn_app_exact {A} (p rest : list A) : skipn (length p) (p ++ rest) = rest.
Proof. induction p; simpl; auto. Qed.

Section Excl.
Variables (fl : flags) (oE o0 : opts).
Hypothesis Honly : o_only oE = o_only o0.
Hypothesis Htr : o_tr oE = o_tr o0.
Hypothesis H0 : pats_list (o_excl o0) = [].

Let E := pats_list (o_excl oE).

Lemma excl_only_ok par p : only_ok oE par p = only_ok o0 par p.
Proof. unfold only_ok. now rewrite Honly. Qed.
Lemma excl_transformed tp v : transformed oE tp v = transformed o0 tp v.
Proof. unfold transformed. now rewrite Htr. Qed.
Lemma excl_off p : excluded o0 p = false.
Proof. unfold excluded. now rewrite H0. Qed.
Lemma excl_on p : excluded oE p = xmatch (render p) E.
Proof. reflexivity. Qed.

Definition rec_excl (m : mode) (recE rec0 : pats -> steps -> tree -> tree -> res report) : Prop :=
  forall ck q x y r, rec0 ck q x y = Ok r -> walk_guard m x ->
    Forall (extends q) r /\ recE ck q x y = Ok (filter (keep_excl E q) r).

(* entries below p ++ [s], when the check at s did not hit: the filter relative to p is
   the filter relative to p ++ [s] *)
Lemma keep_excl_step p s r :
  Forall (extends (p ++ [s])) r ->
  (match s with SKey _ => xmatch (render (p ++ [s])) E | _ => xmatch (render p) E end) = false ->
  filter (keep_excl E p) r = filter (keep_excl E (p ++ [s])) r.
Proof.
  intros Hext Hs. apply filter_ext_in. intros e He. rewrite Forall_forall in Hext.
  destruct (Hext e He) as (rest & Hr & _). unfold keep_excl. rewrite Hr.
  rewrite skipn_app_exact. rewrite <- app_assoc. simpl. rewrite (skipn_app_exact p (s :: rest)).
  simpl. now rewrite Hs.
Qed.

Lemma keep_excl_here p s (e : entry) :
  e_steps e = p ++ [s] ->
  keep_excl E p e = negb (match s with SKey _ => xmatch (render (p ++ [s])) E | _ => xmatch (render p) E end).
Proof. intros H. unfold keep_excl. rewrite H, skipn_app_exact. simpl. now rewrite orb_false_r. Qed.

Lemma pair_excl m recE rec0 par ck tp p s1 s2 sl x y r :
  rec_excl m recE rec0 -> walk_guard m x -> (par = PListK -> m = MKeyed /\ is_list x = false) ->
  (par <> PListK -> sl = p ++ [s1]) ->
  (match s1 with SKey _ => xmatch (render (p ++ [s1])) E | _ => xmatch (render p) E end) = false ->
  (match s2 with SKey _ => xmatch (render (p ++ [s2])) E | _ => xmatch (render p) E end) = false ->
  cmp_pair fl o0 rec0 par ck tp (p ++ [s1]) (p ++ [s2]) sl (p ++ [s1]) x y = Ok r ->
  cmp_pair fl oE recE par ck tp (p ++ [s1]) (p ++ [s2]) sl (p ++ [s1]) x y = Ok (filter (keep_excl E p) r).
Proof.
  intros Hrec G Hk Hsl Hs1 Hs2 H. unfold cmp_pair in *.
  rewrite !excl_transformed, !excl_only_ok.
  destruct (same_type _ _).
  - destruct (is_cmp_scalar _).
    + destruct (val_neq _ _ && only_ok o0 par (p ++ [s1])); inversion H; subst; [|reflexivity].
      simpl. now rewrite (keep_excl_here p s1 (NotEq (p ++ [s1]) x y) eq_refl), Hs1.
    + assert (Hsub : forall q s, q = p ++ [s] ->
                (match s with SKey _ => xmatch (render (p ++ [s])) E | _ => xmatch (render p) E end) = false ->
                rec0 ck q x y = Ok r -> recE ck q x y = Ok (filter (keep_excl E p) r)).
      { intros q s -> Hs Hr. destruct (Hrec ck (p ++ [s]) x y r Hr G) as [Hext HrE].
        rewrite HrE. f_equal. symmetry. now apply keep_excl_step. }
      destruct x as [sx|c ka|c xs].
      * destruct sx; inversion H; reflexivity.
      * destruct par; try (eapply Hsub; eauto).
        destruct y as [|[]|]; try discriminate. eapply Hsub; eauto.
      * destruct par.
        -- rewrite Hsl in * by discriminate. eapply Hsub; eauto.
        -- destruct c; [|discriminate]. rewrite Hsl in * by discriminate. eapply Hsub; eauto.
        -- destruct (Hk eq_refl) as [_ Hl]. discriminate.
  - destruct (only_ok o0 par (p ++ [s2])); inversion H; subst; [|reflexivity].
    simpl. assert (K : keep_excl E p (mk_diff fl (p ++ [s2]) (p ++ [s1]) x y) = true).
    { unfold mk_diff. destruct (f_types fl).
      - now rewrite (keep_excl_here p s2 (DiffType (p ++ [s2]) x y) eq_refl), Hs2.
      - now rewrite (keep_excl_here p s1 (NotEq (p ++ [s1]) x y) eq_refl), Hs1. }
    now rewrite K.
Qed.

(* the entries of a pair sit at, or below, one of its two xpaths *)
Definition at_or_below (p : steps) (s1 s2 : step) (e : entry) : Prop :=
  exists rest, e_steps e = p ++ s1 :: rest \/ e_steps e = p ++ s2 :: rest.

Lemma pair_below m rec0 par ck tp p s1 s2 sl x y r :
  (forall ck q x y r, rec0 ck q x y = Ok r -> walk_guard m x -> Forall (extends q) r) ->
  walk_guard m x -> (par = PListK -> m = MKeyed /\ is_list x = false) ->
  (par <> PListK -> sl = p ++ [s1]) ->
  cmp_pair fl o0 rec0 par ck tp (p ++ [s1]) (p ++ [s2]) sl (p ++ [s1]) x y = Ok r ->
  Forall (at_or_below p s1 s2) r.
Proof.
  intros Hrec G Hk Hsl H.
  assert (Hsub : forall r', Forall (extends (p ++ [s1])) r' -> Forall (at_or_below p s1 s2) r').
  { intros r' Hr'. eapply Forall_impl; [|exact Hr']. intros e (rest & He & _). exists rest. left.
    now rewrite He, <- app_assoc. }
  pose proof (cmp_pair_outcome fl o0 rec0 par ck tp (p ++ [s1]) (p ++ [s2]) sl (p ++ [s1]) x y) as O.
  rewrite H in O.
  inversion O as [| | | |c xs Hst Hsc Hx Hc Hr|c kvs Hst Hsc Hx Hc Hr|]; subst.
  - constructor.
  - constructor; [|constructor]. exists []. now left.
  - constructor; [|constructor]. exists []. unfold mk_diff. destruct (f_types fl); simpl; auto.
  - constructor.
  - assert (Hr' : rec0 ck sl (Lst c xs) y = Ok r) by congruence. destruct par.
    + rewrite Hsl in Hr' by discriminate. apply Hsub. eapply Hrec; eauto.
    + rewrite Hsl in Hr' by discriminate. apply Hsub. eapply Hrec; eauto.
    + destruct (Hk eq_refl) as [_ Hl]. discriminate.
  - assert (Hr' : rec0 ck (p ++ [s1]) (Dict c kvs) y = Ok r) by congruence.
    apply Hsub. eapply Hrec; eauto.
Qed.

(* everything below a step whose check hits is dropped *)
Lemma keep_excl_hit p s1 s2 r :
  Forall (at_or_below p s1 s2) r ->
  (match s1 with SKey _ => xmatch (render (p ++ [s1])) E | _ => xmatch (render p) E end) = true ->
  (match s2 with SKey _ => xmatch (render (p ++ [s2])) E | _ => xmatch (render p) E end) = true ->
  filter (keep_excl E p) r = [].
Proof.
  intros Hb H1 H2. induction Hb as [|e r (rest & [He|He]) _ IH]; [reflexivity| |];
    simpl; unfold keep_excl at 1; rewrite He, skipn_app_exact; simpl; rewrite ?H1, ?H2; simpl; exact IH.
Qed.

Lemma Forall2_map_same {A B C} (R : B -> C -> Prop) (f : A -> B) (g : A -> C) l :
  (forall x, In x l -> R (f x) (g x)) -> Forall2 R (map f l) (map g l).
Proof.
  induction l as [|x l IH]; intros H; simpl; constructor; [apply H; now left|apply IH; intros; apply H; now right].
Qed.

Lemma dict_excl m recE rec0 : rec_excl m recE rec0 -> forall ck p c ka kb r,
  dict_walk fl o0 rec0 ck p ka kb = Ok r -> walk_guard m (Dict c ka) ->
  dict_walk fl oE recE ck p ka kb = Ok (filter (keep_excl E p) r).
Proof.
  intros Hrec ck p c ka kb r H G. unfold dict_walk in *.
  destruct (seq_res (map (dict_common fl o0 rec0 ck p kb) ka)) as [common| | |] eqn:Es; try discriminate.
  inversion H; subst; clear H.
  assert (Hext : forall ck q x y r, rec0 ck q x y = Ok r -> walk_guard m x -> Forall (extends q) r)
    by (intros ck' q x y r' Hr' G'; exact (proj1 (Hrec ck' q x y r' Hr' G'))).
  assert (Ec : seq_res (map (dict_common fl oE recE ck p kb) ka) = Ok (filter (keep_excl E p) common)).
  { eapply (seq_res_map_hom (filter (keep_excl E p))); [reflexivity|apply filter_app| |exact Es].
    apply Forall2_map_same. intros [k v] Hin a Ha. unfold dict_common in *. simpl in *.
    destruct (lookup k kb) as [vb|]; [|inversion Ha; reflexivity].
    rewrite excl_off in Ha. rewrite excl_on.
    pose proof (guard_dict_child m c ka k v G Hin) as Gv.
    destruct (xmatch (render (p ++ [SKey k])) E) eqn:Eh.
    - f_equal. symmetry. eapply (keep_excl_hit p (SKey k) (SKey k)); eauto.
      eapply (pair_below m rec0 PDict); eauto; discriminate.
    - eapply (pair_excl m recE rec0 PDict); eauto; discriminate. }
  rewrite Ec. f_equal. rewrite !filter_app, !filter_flat_map. f_equal. f_equal.
  - apply flat_map_ext. intros [k v]. unfold dict_left. cbn [fst snd]. destruct (mem_key k kb); [reflexivity|].
    rewrite excl_off, excl_on, excl_only_ok. cbn [negb andb].
    destruct (only_ok o0 PDict _); [|rewrite andb_false_r; reflexivity]. rewrite andb_true_r. cbn [filter].
    rewrite (keep_excl_here p (SKey k) (SelfUniq (p ++ [SKey k]) v) eq_refl).
    destruct (xmatch _ E); reflexivity.
  - apply flat_map_ext. intros [k v]. unfold dict_left. cbn [fst snd]. destruct (mem_key k ka); [reflexivity|].
    rewrite excl_off, excl_on, excl_only_ok. cbn [negb andb].
    destruct (only_ok o0 PDict _); [|rewrite andb_false_r; reflexivity]. rewrite andb_true_r. cbn [filter].
    rewrite (keep_excl_here p (SKey k) (OtherUniq (p ++ [SKey k]) v) eq_refl).
    destruct (xmatch _ E); reflexivity.
Qed.

(* the entries of a list walk start, below its prefix, with an index step *)
Definition is_idx (s : step) : Prop := match s with SKey _ => False | _ => True end.
Definition first_idx (p : steps) (e : entry) : Prop := exists s rest, e_steps e = p ++ s :: rest /\ is_idx s.

Lemma below_first_idx p s1 s2 r : is_idx s1 -> is_idx s2 -> Forall (at_or_below p s1 s2) r -> Forall (first_idx p) r.
Proof.
  intros H1 H2 H. eapply Forall_impl; [|exact H]. intros e (rest & [He|He]); [exists s1, rest|exists s2, rest]; auto.
Qed.

Lemma keep_excl_hit_list p r :
  Forall (first_idx p) r -> xmatch (render p) E = true -> filter (keep_excl E p) r = [].
Proof.
  intros Hb Hh. induction Hb as [|e r (s & rest & He & Hs) _ IH]; [reflexivity|].
  simpl. unfold keep_excl at 1. rewrite He, skipn_app_exact. simpl.
  destruct s; [contradiction| |]; rewrite Hh; simpl; exact IH.
Qed.

Lemma idx_step_is_idx i j : is_idx (idx_step i j).
Proof. unfold idx_step. destruct (Nat.eqb i j); exact I. Qed.

Section ListExcl.
Variables (m : mode) (recE rec0 : pats -> steps -> tree -> tree -> res report).
Hypothesis Hrec : rec_excl m recE rec0.

Lemma rec0_ext : forall ck q x y r, rec0 ck q x y = Ok r -> walk_guard m x -> Forall (extends q) r.
Proof. intros ck' q x y r' Hr' G'. exact (proj1 (Hrec ck' q x y r' Hr' G')). Qed.

Lemma ld_first ck p xs : m = MDirect -> forall ys i r,
  seq_res (ld_loop fl o0 rec0 ck p i xs ys) = Ok r -> Forall (first_idx p) r.
Proof.
  intros Hm. induction xs as [|x xs IH]; intros ys i r H.
  - simpl in H. inversion H; subst. rewrite app_nil_r. apply Forall_forall. intros e He.
    apply in_map_iff in He. destruct He as ([j y] & <- & _). exists (SIdx j), []. split; [reflexivity|exact I].
  - destruct ys as [|y ys]; cbn [ld_loop] in H; apply seq_res_cons_ok in H; destruct H as (a & b & Ha & Hb & ->);
      apply Forall_app; split.
    + inversion Ha; subst. constructor; [|constructor]. exists (SIdx i), []. split; [reflexivity|exact I].
    + exact (IH _ _ _ Hb).
    + apply (below_first_idx p (SIdx i) (SIdx i)); try exact I.
      eapply (pair_below m rec0 PListD); eauto using rec0_ext; try discriminate. rewrite Hm. intros E0; discriminate.
    + exact (IH _ _ _ Hb).
Qed.

Lemma ld_excl ck p xs : m = MDirect -> xmatch (render p) E = false -> forall ys i r,
  seq_res (ld_loop fl o0 rec0 ck p i xs ys) = Ok r ->
  seq_res (ld_loop fl oE recE ck p i xs ys) = Ok (filter (keep_excl E p) r).
Proof.
  intros Hm Hh. induction xs as [|x xs IH]; intros ys i r H.
  - simpl in *. inversion H; subst. f_equal. rewrite !app_nil_r. symmetry. apply filter_all.
    intros e He. apply in_map_iff in He. destruct He as ([j y] & <- & _). cbn [fst snd].
    now rewrite (keep_excl_here p (SIdx j) (OtherUniq (p ++ [SIdx j]) y) eq_refl), Hh.
  - destruct ys as [|y ys]; cbn [ld_loop] in *; apply seq_res_cons_ok in H; destruct H as (a & b & Ha & Hb & ->);
      apply seq_res_cons_ok.
    + inversion Ha; subst. exists [SelfUniq (p ++ [SIdx i]) x], (filter (keep_excl E p) b).
      repeat split; [exact (IH _ _ _ Hb)|]. rewrite filter_app. f_equal. simpl.
      now rewrite (keep_excl_here p (SIdx i) (SelfUniq (p ++ [SIdx i]) x) eq_refl), Hh.
    + exists (filter (keep_excl E p) a), (filter (keep_excl E p) b). repeat split.
      * eapply (pair_excl m recE rec0 PListD); eauto; try discriminate. rewrite Hm. intros E0; discriminate.
      * exact (IH _ _ _ Hb).
      * apply filter_app.
Qed.

(* the unordered walk *)
Lemma lk_first ck p : m = MKeyed -> forall xs rem,
  (forall k i x, In (k, (i, x)) xs -> walk_guard MKeyed x /\ is_list x = false) ->
  forall a, In (Ok a) (fst (fst (lk_loop fl o0 rec0 ck p xs rem))) -> Forall (first_idx p) a.
Proof.
  intros Hm. induction xs as [|[k [i x]] xs IH]; intros rem Hg a Ha; [destruct Ha|].
  cbn [lk_loop] in Ha. destruct (find_key k rem) as [[[j y] rem']|].
  - specialize (IH rem' (fun k0 i0 x0 H => Hg k0 i0 x0 (or_intror H)) a).
    destruct (lk_loop fl o0 rec0 ck p xs rem') as [[ps0 un0] rm0]. simpl in *.
    destruct (Hg k i x (or_introl eq_refl)) as [Gx Hl].
    destruct Ha as [Ha|Ha]; [|auto].
    apply (below_first_idx p (idx_step i j) (SIdx i)); [apply idx_step_is_idx|exact I|].
    assert (Gx' : walk_guard m x) by (rewrite Hm; exact Gx).
    refine (pair_below m rec0 PListK ck _ p (idx_step i j) (SIdx i) (kl_sub_list p i j) x y a rec0_ext Gx' _ _ Ha); auto; congruence.
  - specialize (IH rem (fun k0 i0 x0 H => Hg k0 i0 x0 (or_intror H)) a).
    destruct (lk_loop fl o0 rec0 ck p xs rem) as [[ps0 un0] rm0]. simpl in *. auto.
Qed.

Lemma lk_excl ck p : m = MKeyed -> xmatch (render p) E = false -> forall xs rem,
  (forall k i x, In (k, (i, x)) xs -> walk_guard MKeyed x /\ is_list x = false) ->
  (snd (fst (lk_loop fl oE recE ck p xs rem)) = snd (fst (lk_loop fl o0 rec0 ck p xs rem))) /\
  (snd (lk_loop fl oE recE ck p xs rem) = snd (lk_loop fl o0 rec0 ck p xs rem)) /\
  Forall2 (fun x0 xE => forall a, x0 = Ok a -> xE = Ok (filter (keep_excl E p) a))
          (fst (fst (lk_loop fl o0 rec0 ck p xs rem))) (fst (fst (lk_loop fl oE recE ck p xs rem))).
Proof.
  intros Hm Hh. induction xs as [|[k [i x]] xs IH]; intros rem Hg.
  - simpl. repeat split; auto.
  - cbn [lk_loop]. destruct (find_key k rem) as [[[j y] rem']|].
    + specialize (IH rem' (fun k0 i0 x0 H => Hg k0 i0 x0 (or_intror H))).
      destruct (lk_loop fl oE recE ck p xs rem') as [[psE unE] rmE].
      destruct (lk_loop fl o0 rec0 ck p xs rem') as [[ps0 un0] rm0]. simpl in *.
      destruct IH as (I2 & I3 & I4). destruct (Hg k i x (or_introl eq_refl)) as [Gx Hl].
      repeat split; auto.
      constructor; [|assumption]. intros a Ha.
      assert (Gx' : walk_guard m x) by (rewrite Hm; exact Gx).
      refine (pair_excl m recE rec0 PListK ck _ p (idx_step i j) (SIdx i) (kl_sub_list p i j) x y a Hrec Gx' _ _ _ Hh Ha);
        auto; try congruence.
      pose proof (idx_step_is_idx i j) as Hi. destruct (idx_step i j); [contradiction| |]; exact Hh.
    + specialize (IH rem (fun k0 i0 x0 H => Hg k0 i0 x0 (or_intror H))).
      destruct (lk_loop fl oE recE ck p xs rem) as [[psE unE] rmE].
      destruct (lk_loop fl o0 rec0 ck p xs rem) as [[ps0 un0] rm0]. simpl in *.
      destruct IH as (I2 & I3 & I4). repeat split; auto. now rewrite I2.
Qed.

Lemma item_keys_excl prefix ck l : item_keys oE prefix ck l = item_keys o0 prefix ck l.
Proof.
  assert (K : forall x, item_key oE prefix ck x = item_key o0 prefix ck x).
  { intros x. unfold item_key. destruct x; try reflexivity. generalize (@nil N).
    induction (pats_list ck) as [|k r IH]; intros acc; simpl; [reflexivity|].
    destruct (lookup k kvs); [|apply IH]. rewrite excl_transformed. destruct (py_str _); [apply IH|reflexivity]. }
  induction l as [|[i x] l IH]; simpl; [reflexivity|]. now rewrite K, IH.
Qed.

Lemma list_keyed_excl ck p c xs ys r : m = MKeyed ->
  list_keyed fl o0 rec0 ck p xs ys = Ok r -> walk_guard MKeyed (Lst c xs) ->
  list_keyed fl oE recE ck p xs ys = Ok (filter (keep_excl E p) r).
Proof.
  intros Hm H G. unfold list_keyed in *. rewrite excl_off in H. rewrite excl_on, !item_keys_excl.
  destruct (item_keys o0 (render p) ck (enum_from 0 xs)) as [ka| | |] eqn:Ea; try discriminate.
  destruct (item_keys o0 (render p) ck (enum_from 0 ys)) as [kb| | |] eqn:Eb; try discriminate.
  assert (Hg : forall k i x, In (k, (i, x)) ka -> walk_guard MKeyed x /\ is_list x = false).
  { intros k i x Hin. apply item_keys_items in Ea. assert (Hx : In x xs).
    { eapply (enum_from_in xs 0 i). rewrite <- Ea. apply in_map_iff. exists (k, (i, x)). auto. }
    split; [eapply guard_list_child; eauto|eapply guard_keyed_item; eauto]. }
  pose proof (lk_first ck p Hm ka kb Hg) as HF.
  destruct (xmatch (render p) E) eqn:Eh.
  - (* the list itself is excluded: everything it reports is dropped *)
    destruct (lk_loop fl o0 rec0 ck p ka kb) as [[ps0 un0] rm0]. simpl in HF.
    destruct (seq_res ps0) as [paired| | |] eqn:Es; try discriminate. inversion H; subst.
    f_equal. symmetry. apply keep_excl_hit_list; [|assumption].
    apply Forall_app. split; [eapply seq_res_forall; eauto|]. apply Forall_app. split.
    + apply Forall_forall. intros e He. apply in_map_iff in He. destruct He as ([i x] & <- & _).
      exists (SIdx i), []. split; [reflexivity|exact I].
    + apply Forall_forall. intros e He. apply in_map_iff in He. destruct He as ([k [j y]] & <- & _).
      exists (SIdx j), []. split; [reflexivity|exact I].
  - pose proof (lk_excl ck p Hm Eh ka kb Hg) as HL.
    destruct (lk_loop fl o0 rec0 ck p ka kb) as [[ps0 un0] rm0].
    destruct (lk_loop fl oE recE ck p ka kb) as [[psE unE] rmE]. simpl in HL.
    destruct HL as (-> & -> & HF2).
    destruct (seq_res ps0) as [paired| | |] eqn:Es; try discriminate. inversion H; subst.
    rewrite (seq_res_map_hom (filter (keep_excl E p)) ps0 psE eq_refl (filter_app _) HF2 paired Es).
    f_equal. rewrite !filter_app. f_equal. f_equal.
    + symmetry. apply filter_all. intros e He. apply in_map_iff in He. destruct He as ([i x] & <- & _).
      cbn [fst snd]. now rewrite (keep_excl_here p (SIdx i) (SelfUniq (p ++ [SIdx i]) x) eq_refl), Eh.
    + symmetry. apply filter_all. intros e He. apply in_map_iff in He. destruct He as ([k [j y]] & <- & _).
      cbn [fst snd]. now rewrite (keep_excl_here p (SIdx j) (OtherUniq (p ++ [SIdx j]) y) eq_refl), Eh.
Qed.

Lemma list_direct_excl ck p xs ys r : m = MDirect ->
  list_direct fl o0 rec0 ck p xs ys = Ok r ->
  list_direct fl oE recE ck p xs ys = Ok (filter (keep_excl E p) r).
Proof.
  intros Hm H. unfold list_direct in *. rewrite excl_off in H. rewrite excl_on.
  destruct (xmatch (render p) E) eqn:Eh.
  - f_equal. symmetry. apply keep_excl_hit_list; [|assumption]. eapply ld_first; eauto.
  - eapply ld_excl; eauto.
Qed.
End ListExcl.

Theorem walk_excl : forall fuel m, rec_excl m (walk fl oE fuel m) (walk fl o0 fuel m).
Proof.
  induction fuel as [|f IH]; intros m ck q x y r H G; [discriminate|].
  split; [exact (walk_ext fl o0 (S f) m ck q x y r H G)|].
  simpl in *. destruct x as [s|c ka|c xs], y as [s'|c' kb|c' ys]; try discriminate.
  - eapply dict_excl; eauto.
  - destruct m.
    + eapply list_direct_excl; eauto.
    + eapply list_keyed_excl; eauto.
Qed.
End Excl.

(* The reading of keep_excl at the root: an entry is dropped iff some check on the way to
   its xpath hits: a dictionary entry on the way whose xpath matches a pattern, or a list
   on the way whose own xpath matches a pattern. *)
Definition keep_excluded (E : list pstr) (e : entry) : bool := negb (excl_hit E [] (e_steps e)).

(* exclude_xpaths = E reports exactly the differences of the comparison without it that do
   not lie at or below an excluded place (when that comparison returns a report; a
   comparison that raises below an excluded place returns with the exclusion) *)
Theorem exclude_is_filter fl only E tr m ck a b r :
  walk_guard m a ->
  compare_top fl (mk_opts only (PSeq []) tr) m ck a b = Ok r ->
  compare_top fl (mk_opts only E tr) m ck a b = Ok (filter (keep_excluded (pats_list E)) r).
Proof.
  intros G H. unfold compare_top in *.
  assert (K : forall e, keep_excluded (pats_list E) e = keep_excl (pats_list E) [] e) by reflexivity.
  rewrite (filter_ext _ _ K).
  destruct a as [|[] ka|[] xs]; try discriminate.
  - destruct b as [|[] kb|]; try discriminate.
    exact (proj2 (walk_excl fl (mk_opts only E tr) (mk_opts only (PSeq []) tr) eq_refl eq_refl eq_refl _ m ck [] _ _ r H G)).
  - destruct b as [| |[] ys]; try discriminate.
    exact (proj2 (walk_excl fl (mk_opts only E tr) (mk_opts only (PSeq []) tr) eq_refl eq_refl eq_refl _ m ck [] _ _ r H G)).
Qed.

(* ---- transform ------------------------------------------------------------------------------------------- *)
(* two leaves of the same transformed scalar type count as different iff their transformed
   values differ; the entry shows the original values *)
Theorem transform_pair fl o rec par ck tp p pd sl sd x y :
  same_type (transformed o tp x) (transformed o tp y) = true ->
  is_cmp_scalar (transformed o tp x) = true ->
  cmp_pair fl o rec par ck tp p pd sl sd x y =
  Ok (if val_neq (transformed o tp x) (transformed o tp y) && only_ok o par p then [NotEq p x y] else []).
Proof. intros H1 H2. unfold cmp_pair. rewrite H1, H2. now destruct (_ && _). Qed.

(* ---- non-vacuity ---------------------------------------------------------------------------------------- *)
(* {"x":{"y":1,"z":[1,{"y":5}]},"y":3} vs {"x":{"y":9,"z":[2,{"y":6}]},"y":4}: four differences;
   exclude "//y" leaves /x/z[0]; exclude "/x/z" leaves the two /…/y at dictionary level;
   compare_only "//y" keeps the three y and the list-membership-free rest *)
Definition fx_a : tree :=
  Dict true [([120], Dict true [([121], Leaf (SInt 1)); ([122], Lst true [Leaf (SInt 1); Dict true [([121], Leaf (SInt 5))]])]);
             ([121], Leaf (SInt 3))]%N.
Definition fx_b : tree :=
  Dict true [([120], Dict true [([121], Leaf (SInt 9)); ([122], Lst true [Leaf (SInt 2); Dict true [([121], Leaf (SInt 6))]])]);
             ([121], Leaf (SInt 4))]%N.
Definition pat_any_y : pats := PSeq [[47; 47; 121]]%N.
Definition pat_x_z : pats := PStr [47; 120; 47; 122]%N.
Definition pat_x_y : pats := PSeq [[47; 88; 47; 121]]%N.   (* "/X/y" *)

Lemma filter_example :
  (exists r, compare_top flags_init no_opts MDirect (PSeq []) fx_a fx_b = Ok r /\ length r = 4 /\
     length (filter (keep_excluded (pats_list pat_any_y)) r) = 1 /\
     length (filter (keep_excluded (pats_list pat_x_z)) r) = 2 /\
     length (filter (keep_only (pats_list pat_any_y)) r) = 4 /\
     length (filter (keep_only (pats_list pat_x_y)) r) = 2) /\
  walk_guard MKeyed fx_a /\ pats_truthy pat_any_y = true.
Proof. split; [eexists; repeat split; vm_compute; reflexivity|]. split; [intros _|]; reflexivity. Qed.
