(* Compare/MatchProofs.v — xpath_match meets its specification. *)
From Coq Require Import List NArith ZArith Bool Lia.
From N0 Require Import Base.PyStr Base.PyVal Compare.Match.
Import ListNotations.

Lemma part_ok_spec p x : part_ok p x = true <-> part_matches p x.
Proof.
  unfold part_ok, part_matches. rewrite orb_true_iff, !pstr_eqb_eq. tauto.
Qed.

(* the reversed loop, characterised on the reversed lists *)
Lemma match_rev_spec pp : forall xp,
  match_rev pp xp = true <->
  exists Q X rest,
    Forall (fun p => p <> []) Q /\ (pp = Q \/ exists more, pp = Q ++ [] :: more) /\
    xp = X ++ rest /\ Forall2 part_matches Q X.
Proof.
  induction pp as [|p ps IH]; intros xp.
  - simpl. split; [intros _|reflexivity].
    exists [], [], xp. repeat split; auto.
  - destruct p as [|c p'].
    + simpl. split; [intros _|reflexivity].
      exists [], [], xp. repeat split; auto. right. now exists ps.
    + cbn [match_rev]. destruct xp as [|x xs].
      * split; [discriminate|].
        intros (Q & X & rest & HQ & Hpp & Hxp & HF).
        destruct Q as [|q Q'].
        -- destruct Hpp as [Hpp|[more Hpp]]; discriminate.
        -- inversion HF; subst. destruct (app_eq_nil _ _ (eq_sym Hxp)). discriminate.
      * rewrite andb_true_iff, part_ok_spec, IH. split.
        -- intros (Hm & Q & X & rest & HQ & Hpp & Hxp & HF).
           exists ((c :: p') :: Q), (x :: X), rest. split; [|split; [|split]].
           ++ constructor; [discriminate|assumption].
           ++ destruct Hpp as [->|[more ->]]; [now left|right; now exists more].
           ++ simpl. now rewrite Hxp.
           ++ now constructor.
        -- intros (Q & X & rest & HQ & Hpp & Hxp & HF).
           destruct Q as [|q Q'].
           ++ destruct Hpp as [Hpp|[more Hpp]]; discriminate.
           ++ inversion HF as [|? y ? X' Hqy HF']; subst.
              simpl in Hxp. inversion Hxp; subst.
              assert (q = c :: p' /\ (ps = Q' \/ exists more, ps = Q' ++ [] :: more)) as [-> Hps].
              { destruct Hpp as [Hpp|[more Hpp]]; simpl in Hpp; inversion Hpp; subst; split; auto.
                right. now exists more. }
              split; [assumption|]. exists Q', X', rest. inversion HQ; subst. repeat split; auto.
Qed.

Lemma Forall2_rev {A B} (R : A -> B -> Prop) l l' : Forall2 R l l' -> Forall2 R (rev l) (rev l').
Proof.
  induction 1; simpl; [constructor|]. apply Forall2_app; [assumption|]. constructor; [assumption|constructor].
Qed.

Lemma Forall_rev' {A} (P : A -> Prop) l : Forall P l -> Forall P (rev l).
Proof. intros H. apply Forall_forall. intros x Hx. apply in_rev in Hx. rewrite Forall_forall in H. auto. Qed.

Theorem match_one_spec xpath pat : match_one xpath pat = true <-> tail_match xpath pat.
Proof.
  unfold match_one, tail_match, tail_of. rewrite match_rev_spec. split.
  - intros (Q & X & rest & HQ & Hpp & Hxp & HF).
    exists (rev Q), (rev rest), (rev X). split; [split|split].
    + now apply Forall_rev'.
    + destruct Hpp as [Hpp|[more Hpp]].
      * left. rewrite <- (rev_involutive (split_chr slash pat)), Hpp. reflexivity.
      * right. exists (rev more). rewrite <- (rev_involutive (split_chr slash pat)), Hpp.
        rewrite rev_app_distr. simpl. rewrite <- app_assoc. reflexivity.
    + rewrite <- (rev_involutive (split_chr slash xpath)), Hxp. now rewrite rev_app_distr.
    + now apply Forall2_rev.
  - intros (Q & pre & X & [HQ Hpp] & Hxp & HF).
    exists (rev Q), (rev X), (rev pre). split; [|split; [|split]].
    + now apply Forall_rev'.
    + destruct Hpp as [Hpp|[more Hpp]]; rewrite Hpp.
      * now left.
      * right. exists (rev more). rewrite rev_app_distr. simpl. rewrite <- app_assoc. reflexivity.
    + rewrite Hxp. now rewrite rev_app_distr.
    + now apply Forall2_rev.
Qed.

(* the returned number: 0 iff no pattern matches; i+1 iff pattern i is the first that does *)
Lemma xpath_match_from_spec l : forall i xpath,
  (xpath_match_from i xpath l = 0 <-> Forall (fun p => match_one xpath p = false) l) /\
  (forall n, xpath_match_from i xpath l = S n <->
     exists k p, n = i + k /\ nth_error l k = Some p /\ match_one xpath p = true /\
                 Forall (fun q => match_one xpath q = false) (firstn k l)).
Proof.
  induction l as [|p r IH]; intros i xpath; simpl.
  - split; [split; auto|]. intros n. split; [discriminate|].
    intros (k & q & _ & Hk & _). destruct k; discriminate.
  - destruct (match_one xpath p) eqn:E.
    + split.
      * split; [discriminate|]. intros H. inversion H; congruence.
      * intros n. split.
        -- intros H. inversion H; subst. exists 0, p. simpl. repeat split; auto; lia.
        -- intros (k & q & -> & Hk & Hq & Hpre). destruct k; [f_equal; lia|].
           simpl in Hpre. inversion Hpre; congruence.
    + destruct (IH (S i) xpath) as [IH0 IHn]. split.
      * rewrite IH0. split; intros H; [now constructor|now inversion H].
      * intros n. rewrite IHn. split.
        -- intros (k & q & -> & Hk & Hq & Hpre). exists (S k), q. simpl. repeat split; auto; try lia.
        -- intros (k & q & -> & Hk & Hq & Hpre). destruct k as [|k]; simpl in *.
           ++ inversion Hk; congruence.
           ++ exists k, q. inversion Hpre; subst. repeat split; auto; lia.
Qed.

Theorem xpath_match_zero xpath l :
  xpath_match xpath l = 0 <-> forall p, In p l -> ~ tail_match xpath p.
Proof.
  unfold xpath_match. rewrite (proj1 (xpath_match_from_spec l 0 xpath)), Forall_forall.
  split; intros H p Hp; specialize (H p Hp).
  - rewrite <- match_one_spec. congruence.
  - rewrite <- match_one_spec in H. destruct (match_one xpath p); congruence.
Qed.

Theorem xpath_match_index xpath l n :
  xpath_match xpath l = S n <->
  exists p, nth_error l n = Some p /\ tail_match xpath p /\
            forall q, In q (firstn n l) -> ~ tail_match xpath q.
Proof.
  unfold xpath_match. rewrite (proj2 (xpath_match_from_spec l 0 xpath)). split.
  - intros (k & p & -> & Hk & Hp & Hpre). exists p. simpl. split; [assumption|]. split.
    + now apply match_one_spec.
    + intros q Hq. rewrite Forall_forall in Hpre. rewrite <- match_one_spec. rewrite (Hpre q Hq). discriminate.
  - intros (p & Hk & Hp & Hpre). exists n, p. repeat split; auto.
    + now apply match_one_spec.
    + apply Forall_forall. intros q Hq. specialize (Hpre q Hq). rewrite <- match_one_spec in Hpre.
      destruct (match_one xpath q); congruence.
Qed.

(* a str argument behaves as the one-element tuple *)
Lemma pats_str_is_singleton s : pats_list (PStr s) = pats_list (PSeq [s]).
Proof. reflexivity. Qed.

Lemma xmatch_true xpath l : xmatch xpath l = true <-> exists p, In p l /\ tail_match xpath p.
Proof.
  unfold xmatch. rewrite negb_true_iff, Nat.eqb_neq.
  destruct (xpath_match xpath l) as [|n] eqn:E.
  - split; [congruence|]. intros (p & Hp & Hm). rewrite xpath_match_zero in E. exfalso. eapply E; eauto.
  - split; [intros _|discriminate]. apply xpath_match_index in E. destruct E as (p & Hk & Hp & _).
    exists p. split; [eapply nth_error_In; eauto|assumption].
Qed.

(* non-vacuity / readable instances: "//k", "/k", "k", "K" and "*" all match "/x/k";
   "/x" does not; "//x/*" does *)
Example match_examples :
  let xp := [47; 120; 47; 107]%N in
  map (fun p => match_one xp p)
      [[47; 47; 107]; [47; 107]; [107]; [75]; [42]; [47; 120]; [47; 47; 120; 47; 42]; []]%N
  = [true; true; true; true; true; false; true; true].
Proof. vm_compute. reflexivity. Qed.
