(* Compare/DefaultReflProofs.v — compare (no composite key) of an operand with itself. *)
From Coq Require Import List NArith ZArith Bool.
From N0 Require Import Base.PyStr Base.PyVal Compare.Util Compare.Flags Compare.Match Compare.Model
  Compare.Spec Compare.WalkLemmas Compare.VerdictProofs Compare.DefaultProofs Compare.ReflProofs Compare.EqImpliesProofs Compare.ReportProofs.
Import ListNotations.

Theorem eq_mod_order_refl t : wf t -> eq_mod_order t t = true.
Proof. intros Hw. apply tree_eq_eq_mod_order. now apply tree_eq_refl. Qed.

Theorem default_reflexive fl o ck a r :
  quiet o -> ck_empty ck -> good a -> wf a -> keys_ok a a = true ->
  compare_top fl o MKeyed ck a a = Ok r -> r = [].
Proof.
  intros Hq Hck Ga Wa Hk Hr.
  apply (default_verdict fl o ck a a r Hq Hck Ga Ga Hk Hr). now apply eq_mod_order_refl.
Qed.

Example default_reflexive_example :
  good dv_a /\ wf dv_a /\ keys_ok dv_a dv_a = true /\
  compare_top flags_init no_opts MKeyed (PSeq []) dv_a dv_a = Ok [].
Proof.
  split; [split; vm_compute; reflexivity|].
  split; [apply wfb_wf; vm_compute; reflexivity|].
  split; vm_compute; reflexivity.
Qed.
