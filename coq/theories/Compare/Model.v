(* Compare/Model.v — executable model of the three comparison walks
     n0dict.compare / direct_compare      (n0struct_n0list_n0dict.py 749-966)
     n0list.direct_compare                (205-405)
     n0list.compare                       (409-642)
   with generate_composite_keys (n0struct_utils_compare.py 138-179) and
   update_extend (n0struct_n0dict__.py 244-270), as the code behaves after the
   repairs be3ee9e (the list walks hand the unbound list walk to the dict walk)
   and 3dc13b1 (the pairing loop no longer shadows composite_key).

   Representation decisions.
   * The xpath prefix string the code threads through its recursion is kept
     as the list of [step]s it was built from; [render] is the string.  Every
     prefix the code builds is the caller's prefix plus "/key", "[i]" or
     "[i]<>[j]" (or the reset of line 548, see [kl_sub_list]), so nothing is
     lost; xpath_match is always applied to the rendered string.
   * The result dict of lists is one ordered list of entries, in the order the
     code appends its 'differences' lines; each structured list of the result
     is the sub-list of its kind (update_extend concatenates per key, in call
     order), 'differences' has one line per entry.
   * Not modelled (never observed): the texts of 'differences', the numeric
     delta appended under the delta flag, self_equal / other_equal.
   * Class tags decide type(x)==type(y), the AttributeError of a plain list
     item under the direct list walk and the TypeError of a plain dict item
     under the keyed list walk. *)
From Coq Require Import List NArith ZArith Bool.
From N0 Require Import Base.PyStr Base.PyVal Compare.Util Compare.Flags Compare.Match.
Import ListNotations.

(* ---- paths ---------------------------------------------------------------------- *)
Inductive step := SKey (k : pstr) | SIdx (i : nat) | SIdx2 (i j : nat).
Definition steps := list step.

Definition lbr : N := 91%N.
Definition rbr : N := 93%N.
Definition s_ltgt : pstr := [60; 62]%N.

Definition render_step (s : step) : pstr :=
  match s with
  | SKey k => slash :: k
  | SIdx i => [lbr] ++ dec_nat i ++ [rbr]
  | SIdx2 i j => [lbr] ++ dec_nat i ++ [rbr] ++ s_ltgt ++ [lbr] ++ dec_nat j ++ [rbr]
  end.
Definition render (p : steps) : pstr := concat (map render_step p).

(* ---- report --------------------------------------------------------------------- *)
Inductive entry :=
| NotEq (p : steps) (l r : tree)        (* result["not_equal"]   : (xpath, [l, r]) or (xpath, (l, r)) *)
| DiffType (p : steps) (l r : tree)     (* result["difftypes"]   : (xpath, (type l, l, type r, r)) *)
| SelfUniq (p : steps) (v : tree)       (* result["self_unique"] : (xpath, v) *)
| OtherUniq (p : steps) (v : tree).     (* result["other_unique"]: (xpath, v) *)
Definition report := list entry.

(* ---- options -------------------------------------------------------------------- *)
(* the finite family of transform functions the harness supplies:
     TId      lambda v: v
     TLower   lambda v: v.lower() if isinstance(v, str) else v
     TConstI  lambda v: z           TConstS  lambda v: s
     TRound   lambda v: round(v) if isinstance(v, (int, float)) and not isinstance(v, bool) else v *)
Inductive tfun := TId | TLower | TConstI (z : Z) | TConstS (s : pstr) | TRound.

Definition round_half_even (h : Z) : Z :=
  let q := Z.div h 2 in
  if Z.even h then q else if Z.even q then q else (q + 1)%Z.

Definition apply_tfun (f : tfun) (v : tree) : tree :=
  match f with
  | TId => v
  | TLower => match v with Leaf (SStr s) => Leaf (SStr (lower s)) | _ => v end
  | TConstI z => Leaf (SInt z)
  | TConstS s => Leaf (SStr s)
  | TRound => match v with Leaf (SFlt h) => Leaf (SInt (round_half_even h)) | _ => v end
  end.

Record opts := mk_opts {
  o_only : pats;                   (* compare_only *)
  o_excl : pats;                   (* exclude_xpaths *)
  o_tr : list (pstr * tfun)        (* transform: ((pattern, fn), ...) *)
}.
Definition no_opts : opts := mk_opts (PSeq []) (PSeq []) [].

Inductive mode := MDirect | MKeyed.    (* one_of_list_compare = n0list.direct_compare | n0list.compare *)
Inductive parent := PDict | PListD | PListK.

(* ---- type tests ------------------------------------------------------------------- *)
Definition same_scalar_type (a b : scalar) : bool :=
  match a, b with
  | SNone, SNone | SBool _, SBool _ | SInt _, SInt _ | SFlt _, SFlt _ | SStr _, SStr _ | SBytes _, SBytes _ => true
  | _, _ => false
  end.

(* type(x) == type(y) *)
Definition same_type (x y : tree) : bool :=
  match x, y with
  | Leaf a, Leaf b => same_scalar_type a b
  | Dict c _, Dict c' _ => Bool.eqb c c'
  | Lst c _, Lst c' _ => Bool.eqb c c'
  | _, _ => false
  end.

(* isinstance(x, (str, int, float)): bool is an int *)
Definition is_cmp_scalar (x : tree) : bool :=
  match x with
  | Leaf (SBool _) | Leaf (SInt _) | Leaf (SFlt _) | Leaf (SStr _) => true
  | _ => false
  end.

(* x != y for two values of the same scalar type *)
Definition val_neq (x y : tree) : bool :=
  match x, y with
  | Leaf a, Leaf b => negb (scalar_eqb a b)
  | _, _ => true
  end.

Definition idx_step (i j : nat) : step := if Nat.eqb i j then SIdx i else SIdx2 i j.

Section Walk.
Variable fl : flags.
Variable o : opts.

Definition excluded (p : steps) : bool := xmatch (render p) (pats_list (o_excl o)).

(* not compare_only or xpath_match(fullxpath, compare_only)  — consulted by the dict walk only *)
Definition only_ok (par : parent) (p : steps) : bool :=
  match par with
  | PDict => negb (pats_truthy (o_only o)) || xmatch (render p) (pats_list (o_only o))
  | _ => true
  end.

Definition transformed (tpath : pstr) (v : tree) : tree :=
  match xpath_match tpath (map fst (o_tr o)) with
  | O => v
  | S i => match nth_error (o_tr o) i with Some (_, f) => apply_tfun f v | None => v end
  end.

(* the type-clash entry: difftypes under the flag, not_equal otherwise *)
Definition mk_diff (pd p : steps) (x y : tree) : entry :=
  if f_types fl then DiffType pd x y else NotEq p x y.

(* One pair of values found at the same place.
   rec   : the walk one level down (composite key, prefix, operands)
   tpath : the string the transform patterns are matched against
   p     : xpath of a not_equal entry        pd   : xpath of a difftypes entry
   subl  : prefix handed to a list child     subd : prefix handed to a dict child *)
Definition cmp_pair (rec : pats -> steps -> tree -> tree -> res report)
           (par : parent) (ck : pats) (tpath : pstr) (p pd subl subd : steps) (x y : tree) : res report :=
  let sv := transformed tpath x in
  let ov := transformed tpath y in
  if same_type sv ov then
    if is_cmp_scalar sv then
      if val_neq sv ov && only_ok par p then Ok [NotEq p x y] else Ok []
    else
      match x with
      | Lst c _ =>
        match par with
        | PListD => if c then rec ck subl x y else Raise ExAttribute   (* self[i].direct_compare *)
        | _ => rec ck subl x y                                           (* n0list(..) wraps both *)
        end
      | Dict _ _ =>
        match par with
        | PListK => match y with Dict true _ => rec ck subd x y | _ => Raise ExType end  (* other[other_i] not wrapped *)
        | _ => rec ck subd x y
        end
      | Leaf SNone => Ok []
      | Leaf _ => Raise ExType
      end
  else if only_ok par pd then Ok [mk_diff pd p x y] else Ok [].

(* ---- n0dict.compare ----------------------------------------------------------------- *)
Definition dict_common (rec : pats -> steps -> tree -> tree -> res report) (ck : pats) (prefix : steps)
           (kb : list (pstr * tree)) (kv : pstr * tree) : res report :=
  match lookup (fst kv) kb with
  | None => Ok []
  | Some vb =>
    let p := prefix ++ [SKey (fst kv)] in
    if excluded p then Ok [] else cmp_pair rec PDict ck (render p) p p p p (snd kv) vb
  end.

Definition dict_left (mk : steps -> tree -> entry) (prefix : steps) (others : list (pstr * tree))
           (kv : pstr * tree) : report :=
  if mem_key (fst kv) others then [] else
  let p := prefix ++ [SKey (fst kv)] in
  if negb (excluded p) && only_ok PDict p then [mk p (snd kv)] else [].

Definition dict_walk (rec : pats -> steps -> tree -> tree -> res report) (ck : pats) (prefix : steps)
           (ka kb : list (pstr * tree)) : res report :=
  match seq_res (map (dict_common rec ck prefix kb) ka) with
  | Ok common => Ok (common ++ flat_map (dict_left SelfUniq prefix kb) ka ++ flat_map (dict_left OtherUniq prefix ka) kb)
  | e => e
  end.

(* ---- n0list.direct_compare ------------------------------------------------------------ *)
Fixpoint ld_loop (rec : pats -> steps -> tree -> tree -> res report) (ck : pats) (prefix : steps)
         (i : nat) (xs ys : list tree) : list (res report) :=
  match xs with
  | [] => [Ok (map (fun iy => OtherUniq (prefix ++ [SIdx (fst iy)]) (snd iy)) (enum_from i ys))]
  | x :: xs' =>
    match ys with
    | [] => Ok [SelfUniq (prefix ++ [SIdx i]) x] :: ld_loop rec ck prefix (S i) xs' []
    | y :: ys' =>
      let p := prefix ++ [SIdx i] in
      cmp_pair rec PListD ck (render prefix) p p p p x y :: ld_loop rec ck prefix (S i) xs' ys'
    end
  end.

Definition list_direct (rec : pats -> steps -> tree -> tree -> res report) (ck : pats) (prefix : steps)
           (xs ys : list tree) : res report :=
  if excluded prefix then Ok [] else seq_res (ld_loop rec ck prefix 0 xs ys).

(* ---- generate_composite_keys ----------------------------------------------------------- *)
Definition semicolon : N := 59%N.
Definition equals : N := 61%N.

Fixpoint record_key (prefix : pstr) (keys : list pstr) (kvs : list (pstr * tree)) (acc : pstr) : res pstr :=
  match keys with
  | [] => Ok acc
  | k :: r =>
    match lookup k kvs with
    | None => record_key prefix r kvs acc
    | Some v =>
      let acc1 := match acc with [] => acc | _ => acc ++ [semicolon] end in
      let full := prefix ++ slash :: k in
      (* str(line[key]) or, since 71ec733, str(transform(line[key])) *)
      match py_str (transformed full v) with
      | Some s => record_key prefix r kvs (acc1 ++ k ++ equals :: s)
      | None => Unmodelled
      end
    end
  end.

Definition item_key (prefix : pstr) (ck : pats) (x : tree) : res pstr :=
  match x with
  | Dict _ kvs => record_key prefix (pats_list ck) kvs []
  | _ => res_of_opt (py_str x)
  end.

Definition keyed := (pstr * (nat * tree))%type.

Fixpoint item_keys (prefix : pstr) (ck : pats) (l : list (nat * tree)) : res (list keyed) :=
  match l with
  | [] => Ok []
  | (i, x) :: r =>
    match item_key prefix ck x with
    | Ok k => match item_keys prefix ck r with Ok ks => Ok ((k, (i, x)) :: ks) | e => e end
    | Raise e => Raise e
    | OutOfFuel => OutOfFuel
    | Unmodelled => Unmodelled
    end
  end.

(* ---- n0list.compare ---------------------------------------------------------------------- *)
(* first entry with the key, and the list without it *)
Fixpoint find_key (k : pstr) (l : list keyed) : option ((nat * tree) * list keyed) :=
  match l with
  | [] => None
  | (k', v) :: r =>
    if pstr_eqb k k' then Some (v, r)
    else match find_key k r with Some (v', r') => Some (v', (k', v) :: r') | None => None end
  end.

(* line 548: f"{prefix}[{other_i}]" + f"<>[{other_i}]" if self_i != other_i else "" *)
Definition kl_sub_list (prefix : steps) (i j : nat) : steps :=
  if Nat.eqb i j then [] else prefix ++ [SIdx2 j j].

(* the pairing loop: results of the pairs in order, the unmatched items of
   self, what is left of other.  (Since 3dc13b1 the walks below a pair receive
   the caller's composite key; before, the loop variable shadowed it.) *)
Fixpoint lk_loop (rec : pats -> steps -> tree -> tree -> res report) (ck : pats) (prefix : steps)
         (xs rem : list keyed) : list (res report) * list (nat * tree) * list keyed :=
  match xs with
  | [] => ([], [], rem)
  | (k, (i, x)) :: xs' =>
    match find_key k rem with
    | Some ((j, y), rem') =>
      let '(ps, un, rm) := lk_loop rec ck prefix xs' rem' in
      let p := prefix ++ [idx_step i j] in
      (cmp_pair rec PListK ck (render prefix) p (prefix ++ [SIdx i]) (kl_sub_list prefix i j) p x y :: ps, un, rm)
    | None =>
      let '(ps, un, rm) := lk_loop rec ck prefix xs' rem in
      (ps, (i, x) :: un, rm)
    end
  end.

Definition list_keyed (rec : pats -> steps -> tree -> tree -> res report) (ck : pats) (prefix : steps)
           (xs ys : list tree) : res report :=
  if excluded prefix then Ok [] else
  match item_keys (render prefix) ck (enum_from 0 xs) with
  | Ok ka =>
    match item_keys (render prefix) ck (enum_from 0 ys) with
    | Ok kb =>
      let '(ps, un, rm) := lk_loop rec ck prefix ka kb in
      match seq_res ps with
      | Ok paired =>
        Ok (paired ++ map (fun ix => SelfUniq (prefix ++ [SIdx (fst ix)]) (snd ix)) un
                   ++ map (fun kjy => OtherUniq (prefix ++ [SIdx (fst (snd kjy))]) (snd (snd kjy))) rm)
      | e => e
      end
    | Raise e => Raise e | OutOfFuel => OutOfFuel | Unmodelled => Unmodelled
    end
  | Raise e => Raise e | OutOfFuel => OutOfFuel | Unmodelled => Unmodelled
  end.

(* ---- the recursion ------------------------------------------------------------------------- *)
Fixpoint walk (fuel : nat) (m : mode) (ck : pats) (prefix : steps) (a b : tree) {struct fuel} : res report :=
  match fuel with
  | O => OutOfFuel
  | S f =>
    match a, b with
    | Dict _ ka, Dict _ kb => dict_walk (walk f m) ck prefix ka kb
    | Lst _ xs, Lst _ ys =>
      match m with
      | MDirect => list_direct (walk f m) ck prefix xs ys
      | MKeyed => list_keyed (walk f m) ck prefix xs ys
      end
    | _, _ => Unmodelled
    end
  end.

(* the public entry points: a.compare(b, ...) / a.direct_compare(b, ...) with a an
   n0dict or an n0list; other must be of the same n0 class *)
Definition compare_top (m : mode) (ck : pats) (a b : tree) : res report :=
  match a with
  | Dict true _ => match b with Dict true _ => walk (S (height a)) m ck [] a b | _ => Raise ExType end
  | Lst true _ => match b with Lst true _ => walk (S (height a)) m ck [] a b | _ => Raise ExType end
  | _ => Unmodelled
  end.

End Walk.

(* ---- observation ------------------------------------------------------------------------------ *)
Definition k_n : pstr := [110]%N.
Definition k_not_equal : pstr := [110; 111; 116; 95; 101; 113; 117; 97; 108]%N.
Definition k_self_unique : pstr := [115; 101; 108; 102; 95; 117; 110; 105; 113; 117; 101]%N.
Definition k_other_unique : pstr := [111; 116; 104; 101; 114; 95; 117; 110; 105; 113; 117; 101]%N.
Definition k_difftypes : pstr := [100; 105; 102; 102; 116; 121; 112; 101; 115]%N.

Definition obs_pair (p : steps) (l r : tree) : tree := Lst false [t_str (render p); l; r].
Definition obs_uniq (fl : flags) (p : steps) (v : tree) : tree :=
  if f_place fl then Lst false [t_str (render p); v] else v.

Definition obs_report (fl : flags) (r : report) : tree :=
  Dict false
    ([(k_n, t_int (Z.of_nat (length r)));
      (k_not_equal, Lst false (flat_map (fun e => match e with NotEq p l r => [obs_pair p l r] | _ => [] end) r));
      (k_self_unique, Lst false (flat_map (fun e => match e with SelfUniq p v => [obs_uniq fl p v] | _ => [] end) r));
      (k_other_unique, Lst false (flat_map (fun e => match e with OtherUniq p v => [obs_uniq fl p v] | _ => [] end) r))]
     ++ (if f_types fl
         then [(k_difftypes, Lst false (flat_map (fun e => match e with DiffType p l r => [obs_pair p l r] | _ => [] end) r))]
         else [])).

(* what the model covers: ASCII text only (str.lower, repr), dictionary keys that
   __getitem__ does not read as xpaths *)
Definition ascii (s : pstr) : bool := forallb (fun c => (c <? 128)%N) s.
Definition plain_key (k : pstr) : bool :=
  ascii k && negb (mem_chr slash k) && negb (mem_chr lbr k) &&
  match k with c :: _ => negb (N.eqb c 63) | [] => true end.

Fixpoint covered (t : tree) : bool :=
  match t with
  | Leaf (SStr s) => ascii s
  | Leaf _ => true
  | Dict _ kvs => forallb (fun kv => plain_key (fst kv) && covered (snd kv)) kvs
  | Lst _ xs => forallb covered xs
  end.

Definition covered_pats (p : pats) : bool := forallb ascii (pats_list p).
Definition covered_tfun (f : tfun) : bool := match f with TConstS s => ascii s | _ => true end.
Definition covered_opts (o : opts) : bool :=
  covered_pats (o_only o) && covered_pats (o_excl o) &&
  forallb (fun pf => ascii (fst pf) && covered_tfun (snd pf)) (o_tr o).

Record cinput := mk_cin {
  ci_hist : list (setter * bool);    (* the set__flag_compare_* calls made before the comparison *)
  ci_mode : mode;
  ci_ck : pats;
  ci_opts : opts;
  ci_a : tree;
  ci_b : tree
}.

Definition obs_compare (x : cinput) : out :=
  if covered (ci_a x) && covered (ci_b x) && covered_opts (ci_opts x) && covered_pats (ci_ck x) then
    let fl := run_setters (ci_hist x) flags_init in
    match compare_top fl (ci_opts x) (ci_mode x) (ci_ck x) (ci_a x) (ci_b x) with
    | Ok r => Ok (obs_report fl r)
    | Raise e => Raise e
    | OutOfFuel => OutOfFuel
    | Unmodelled => Unmodelled
    end
  else Unmodelled.
