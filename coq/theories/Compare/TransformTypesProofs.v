(* Compare/TransformTypesProofs.v — a transform decides equality only: when the transformed values of a pair are of
   different types, the entry written for the pair (not_equal, or difftypes under the check-types flag) carries the
   ORIGINAL values, exactly as in the same-type case (FilterProofs.transform_pair). *)
From Coq Require Import List NArith ZArith Bool.
From N0 Require Import Base.PyStr Base.PyVal Compare.Util Compare.Flags Compare.Match Compare.Model.
Import ListNotations.

Theorem transform_pair_types fl o rec par ck tp p pd sl sd x y :
  same_type (transformed o tp x) (transformed o tp y) = false ->
  cmp_pair fl o rec par ck tp p pd sl sd x y =
  Ok (if only_ok o par pd then [if f_types fl then DiffType pd x y else NotEq p x y] else []).
Proof. intros H. unfold cmp_pair, mk_diff. rewrite H. now destruct (only_ok o par pd). Qed.

(* non-vacuity: 2.5 against the text "x" under transform ("T", round): the transformed values 2 and "x" differ in
   type, the entry shows 2.5 and "x" *)
Definition tt_opts : opts := mk_opts (PSeq []) (PSeq []) [([84]%N, TRound)].
Definition tt_x : tree := Leaf (SFlt 5).
Definition tt_y : tree := Leaf (SStr [120]%N).

Lemma transform_types_example :
  transformed tt_opts [47; 84]%N tt_x = Leaf (SInt 2) /\
  same_type (transformed tt_opts [47; 84]%N tt_x) (transformed tt_opts [47; 84]%N tt_y) = false /\
  forall rec, cmp_pair flags_init tt_opts rec PDict (PSeq []) [47; 84]%N [SKey [84]%N] [SKey [84]%N] [] [] tt_x tt_y
              = Ok [NotEq [SKey [84]%N] tt_x tt_y].
Proof. repeat split. Qed.
