(* Compare/EqImpliesProofs.v — structural equality implies equality up to the order
   of non-record list items: where the ordered walk finds no difference, the
   unordered one (within its guard keys_ok) finds none either. *)
From Coq Require Import List NArith ZArith Bool.
From N0 Require Import Base.PyStr Base.PyVal Compare.Util Compare.Flags Compare.Match Compare.Model
  Compare.Spec Compare.WalkLemmas Compare.VerdictProofs Compare.DefaultProofs.
Import ListNotations.

Lemma tree_eq_is_record x y : tree_eq x y = true -> is_record x = is_record y.
Proof. destruct x, y; cbn; try discriminate; reflexivity. Qed.

Lemma filt_eqb_skip {A} (p : A -> bool) f y : p y = false ->
  forall l l', filt_eqb p f l (y :: l') = filt_eqb p f l l'.
Proof.
  intros Hy. induction l as [|x r IH]; intros l'; cbn.
  - now rewrite Hy.
  - destruct (p x); [now rewrite Hy|apply IH].
Qed.

Lemma lists_eq_mod_order xs : 
  Forall (fun x => forall y, tree_eq x y = true -> eq_mod_order x y = true) xs ->
  forall ys, list_eqb tree_eq xs ys = true ->
  filt_eqb is_record eq_mod_order xs ys = true /\
  multiset_eqb tree_eq (filter (fun t => negb (is_record t)) xs) (filter (fun t => negb (is_record t)) ys) = true.
Proof.
  induction 1 as [|x r Hx Hr IH]; intros [|y r'] H; cbn in H; try discriminate.
  - split; reflexivity.
  - apply andb_true_iff in H. destruct H as [H1 H2]. destruct (IH _ H2) as [F M].
    pose proof (tree_eq_is_record _ _ H1) as R. cbn [filter].
    destruct (is_record x) eqn:Rx; rewrite <- R; cbn [negb].
    + split; [|exact M]. cbn. rewrite Rx, <- R. now rewrite (Hx _ H1), F.
    + split.
      * cbn. rewrite Rx. rewrite filt_eqb_skip by (now rewrite <- R). exact F.
      * cbn. now rewrite H1.
Qed.

Theorem tree_eq_eq_mod_order a : forall b, tree_eq a b = true -> eq_mod_order a b = true.
Proof.
  induction a as [s|c ka IH|c xs IH] using tree_ind'; intros b H.
  - destruct b; cbn in *; try discriminate. exact H.
  - destruct b as [|c2 kb|]; cbn [tree_eq] in H; try discriminate.
    apply andb_true_iff in H. destruct H as [H1 H2]. cbn [eq_mod_order]. rewrite H2, andb_true_r.
    rewrite forallb_forall in *. rewrite Forall_forall in IH.
    intros kv Hin. specialize (H1 _ Hin). destruct (lookup (fst kv) kb); [|discriminate].
    exact (IH _ Hin _ H1).
  - destruct b as [| |c2 ys]; cbn [tree_eq] in H; try discriminate.
    cbn [eq_mod_order]. destruct (lists_eq_mod_order xs IH ys H) as [F M]. now rewrite F, M.
Qed.

(* the unordered walk agrees with the ordered one on "no difference" *)
Theorem direct_equal_default_equal fl fl' o ck ck' a b r :
  quiet o -> ck_empty ck' -> good a -> good b -> same_kind a b -> keys_ok a b = true ->
  compare_top fl o MDirect ck a b = Ok [] ->
  compare_top fl' o MKeyed ck' a b = Ok r -> r = [].
Proof.
  intros Hq Hck Ga Gb Hk Hko Hd Hr.
  destruct (direct_verdict fl o ck a b Hq Ga Gb Hk) as [r1 [E1 V1]].
  assert (r1 = []) by congruence.
  apply (default_verdict fl' o ck' a b r Hq Hck Ga Gb Hko Hr).
  apply tree_eq_eq_mod_order. now apply V1.
Qed.
