(* Compare/SymProofs.v — structural equality is symmetric; the verdict of
   direct_compare does not depend on the order of the operands. *)
From Coq Require Import List NArith ZArith Bool.
From N0 Require Import Base.PyStr Base.PyVal Compare.Util Compare.Flags Compare.Match Compare.Model
  Compare.Spec Compare.WalkLemmas Compare.VerdictProofs Compare.ReflProofs.
Import ListNotations.

Lemma list_eqb_sym_Forall {A} (f : A -> A -> bool) l :
  Forall (fun x => forall y, f x y = true -> f y x = true) l ->
  forall l', list_eqb f l l' = true -> list_eqb f l' l = true.
Proof.
  induction 1 as [|x r Hx Hr IH]; intros [|y r']; cbn; try congruence.
  intros H. apply andb_true_iff in H. destruct H as [H1 H2]. now rewrite (Hx _ H1), (IH _ H2).
Qed.

Theorem tree_eq_sym a : forall b, wf a -> wf b -> tree_eq a b = true -> tree_eq b a = true.
Proof.
  induction a as [s|c ka IH|c xs IH] using tree_ind'; intros b Wa Wb H.
  - destruct b as [s2| |]; cbn in H; try discriminate. cbn. apply scalar_eqb_eq in H. subst. now apply scalar_eqb_eq.
  - destruct b as [|c2 kb|]; cbn [tree_eq] in H; try discriminate.
    apply wf_dict_Forall in Wa. destruct Wa as [Na Wa]. apply wf_dict_Forall in Wb. destruct Wb as [Nb Wb].
    apply andb_true_iff in H. destruct H as [H1 H2]. rewrite forallb_forall in H1, H2.
    rewrite Forall_forall in IH, Wa, Wb.
    cbn [tree_eq]. apply andb_true_iff. split; apply forallb_forall.
    + intros [k v] Hin. cbn [fst snd]. specialize (H2 _ Hin). cbn [fst] in H2. unfold mem_key in H2.
      destruct (lookup k ka) as [va|] eqn:La; [|discriminate].
      destruct (lookup_In _ _ _ La) as [k' [Hina <-]].
      specialize (H1 _ Hina). cbn [fst snd] in H1. rewrite (lookup_in_nodup kb k v Nb Hin) in H1.
      exact (IH _ Hina v (Wa _ Hina) (Wb _ Hin) H1).
    + intros [k v] Hin. cbn [fst]. specialize (H1 _ Hin). cbn [fst snd] in H1. unfold mem_key.
      destruct (lookup k kb); [reflexivity|discriminate].
  - destruct b as [| |c2 ys]; cbn [tree_eq] in H; try discriminate.
    apply wf_lst_Forall in Wa. apply wf_lst_Forall in Wb. cbn [tree_eq].
    revert ys Wb H. induction xs as [|x r IHr]; intros [|y r'] Wb H; cbn in *; try congruence.
    apply andb_true_iff in H. destruct H as [H1 H2].
    inversion IH as [|? ? Ix Ir]; subst. inversion Wa as [|? ? Wx Wr]; subst. inversion Wb as [|? ? Wy Wr']; subst.
    rewrite (Ix y Wx Wy H1). cbn. exact (IHr Ir Wr r' Wr' H2).
Qed.

Corollary tree_eq_comm a b : wf a -> wf b -> tree_eq a b = tree_eq b a.
Proof.
  intros Wa Wb. destruct (tree_eq a b) eqn:E1, (tree_eq b a) eqn:E2; try reflexivity.
  - rewrite (tree_eq_sym a b Wa Wb E1) in E2. discriminate.
  - rewrite (tree_eq_sym b a Wb Wa E2) in E1. discriminate.
Qed.

Lemma same_kind_sym a b : same_kind a b -> same_kind b a.
Proof. destruct a, b; cbn; tauto. Qed.

(* the verdict of direct_compare is the same whichever operand comes first *)
Theorem direct_verdict_symmetric fl o ck a b : quiet o -> good a -> good b -> wf a -> wf b -> same_kind a b ->
  exists r1 r2, compare_top fl o MDirect ck a b = Ok r1 /\ compare_top fl o MDirect ck b a = Ok r2 /\
                (r1 = [] <-> r2 = []).
Proof.
  intros Hq Ga Gb Wa Wb Hk.
  destruct (direct_verdict fl o ck a b Hq Ga Gb Hk) as [r1 [E1 V1]].
  destruct (direct_verdict fl o ck b a Hq Gb Ga (same_kind_sym _ _ Hk)) as [r2 [E2 V2]].
  exists r1, r2. split; [exact E1|]. split; [exact E2|].
  rewrite V1, V2, (tree_eq_comm a b Wa Wb). tauto.
Qed.
