(* Compare/Util.v — helpers the compare models need and Base lacks: decimal
   printing, Python's str()/repr() of the value trees (on the alphabet the
   generators emit; anything else is None = unmodelled), sequential
   composition of results. *)
From Coq Require Import List NArith ZArith Bool Lia.
From N0 Require Import Base.PyStr Base.PyVal.
Import ListNotations.

(* ---- decimal ------------------------------------------------------------------ *)
Fixpoint dec_aux (fuel : nat) (n : N) (acc : pstr) : pstr :=
  match fuel with
  | O => acc
  | S f =>
    let d := (48 + N.modulo n 10)%N in
    let q := N.div n 10 in
    if N.eqb q 0 then d :: acc else dec_aux f q (d :: acc)
  end.
Definition dec_N (n : N) : pstr := dec_aux (S (N.size_nat n)) n [].
Definition dec_nat (n : nat) : pstr := dec_N (N.of_nat n).
Definition dec_Z (z : Z) : pstr :=
  if (z <? 0)%Z then 45%N :: dec_N (Z.abs_N z) else dec_N (Z.abs_N z).

(* repr of the float h/2 (only halves are ever generated); exponent notation
   starts at 1e16, so larger magnitudes are outside the model *)
Definition repr_half (h : Z) : option pstr :=
  let m := Z.abs_N h in
  if (20000000000000000 <=? m)%N then None else
  let body := dec_N (N.div m 2) ++ [46%N] ++ [if N.eqb (N.modulo m 2) 0 then 48%N else 53%N] in
  Some (if (h <? 0)%Z then 45%N :: body else body).

(* strings whose repr is the text between single quotes *)
Definition simple_chr (c : N) : bool :=
  (32 <=? c)%N && (c <=? 126)%N && negb (N.eqb c 39) && negb (N.eqb c 92).
Definition repr_simple (s : pstr) : bool := forallb simple_chr s.
Definition repr_str (s : pstr) : option pstr :=
  if repr_simple s then Some (39%N :: s ++ [39%N]) else None.

Definition s_None : pstr := [78; 111; 110; 101]%N.
Definition s_True : pstr := [84; 114; 117; 101]%N.
Definition s_False : pstr := [70; 97; 108; 115; 101]%N.
Definition s_comma_sp : pstr := [44; 32]%N.
Definition s_colon_sp : pstr := [58; 32]%N.

Definition repr_scalar (s : scalar) : option pstr :=
  match s with
  | SNone => Some s_None
  | SBool true => Some s_True
  | SBool false => Some s_False
  | SInt z => Some (dec_Z z)
  | SFlt h => repr_half h
  | SStr x => repr_str x
  | SBytes _ => None
  end.

Fixpoint py_repr (t : tree) : option pstr :=
  match t with
  | Leaf s => repr_scalar s
  | Dict _ kvs =>
    let fix go (l : list (pstr * tree)) : option (list pstr) :=
      match l with
      | [] => Some []
      | (k, v) :: r =>
        match repr_str k, py_repr v, go r with
        | Some ks, Some vs, Some rs => Some ((ks ++ s_colon_sp ++ vs) :: rs)
        | _, _, _ => None
        end
      end in
    match go kvs with Some parts => Some ([123%N] ++ join s_comma_sp parts ++ [125%N]) | None => None end
  | Lst _ xs =>
    let fix go (l : list tree) : option (list pstr) :=
      match l with
      | [] => Some []
      | v :: r =>
        match py_repr v, go r with
        | Some vs, Some rs => Some (vs :: rs)
        | _, _ => None
        end
      end in
    match go xs with Some parts => Some ([91%N] ++ join s_comma_sp parts ++ [93%N]) | None => None end
  end.

(* str(x): a str is itself, everything else is its repr *)
Definition py_str (t : tree) : option pstr :=
  match t with
  | Leaf (SStr s) => Some s
  | _ => py_repr t
  end.

(* ---- results --------------------------------------------------------------------- *)
Definition res_of_opt {A} (o : option A) : res A :=
  match o with Some a => Ok a | None => Unmodelled end.

(* run the computations left to right, concatenating the produced lists;
   the first non-Ok outcome is the outcome (Python: the exception escapes) *)
Fixpoint seq_res {A} (l : list (res (list A))) : res (list A) :=
  match l with
  | [] => Ok []
  | x :: r =>
    match x with
    | Ok a => match seq_res r with Ok b => Ok (a ++ b) | e => e end
    | Raise e => Raise e
    | OutOfFuel => OutOfFuel
    | Unmodelled => Unmodelled
    end
  end.

Fixpoint height (t : tree) : nat :=
  match t with
  | Leaf _ => 0
  | Dict _ kvs => S (fold_right (fun kv m => Nat.max (height (snd kv)) m) 0 kvs)
  | Lst _ xs => S (fold_right (fun v m => Nat.max (height v) m) 0 xs)
  end.

(* enumerate from i *)
Fixpoint enum_from {A} (i : nat) (l : list A) : list (nat * A) :=
  match l with [] => [] | x :: r => (i, x) :: enum_from (S i) r end.

Definition mem_key {A} (k : pstr) (kvs : list (pstr * A)) : bool :=
  match lookup k kvs with Some _ => true | None => false end.

(* class / domain predicates *)
Fixpoint all_n0 (t : tree) : bool :=
  match t with
  | Leaf _ => true
  | Dict c kvs => c && forallb (fun kv => all_n0 (snd kv)) kvs
  | Lst c xs => c && forallb all_n0 xs
  end.

Fixpoint no_bytes (t : tree) : bool :=
  match t with
  | Leaf (SBytes _) => false
  | Leaf _ => true
  | Dict _ kvs => forallb (fun kv => no_bytes (snd kv)) kvs
  | Lst _ xs => forallb no_bytes xs
  end.
