(* Compare/FilterMonoProofs.v — the two filters only ever remove entries: what
   is reported under exclude_xpaths / compare_only was reported without them, in
   the same order; an empty report stays empty. *)
From Coq Require Import List NArith ZArith Bool Lia.
From N0 Require Import Base.PyStr Base.PyVal Compare.Util Compare.Flags Compare.Match Compare.MatchProofs
  Compare.Model Compare.Spec Compare.WalkLemmas Compare.VerdictProofs Compare.ReportProofs Compare.FilterProofs.
Import ListNotations.

Lemma filter_length_le {A} (f : A -> bool) l : length (filter f l) <= length l.
Proof. induction l as [|x r IH]; cbn; [lia|]. destruct (f x); cbn; lia. Qed.

Theorem exclude_only_removes fl only E tr m ck a b r :
  walk_guard m a ->
  compare_top fl (mk_opts only (PSeq []) tr) m ck a b = Ok r ->
  exists r', compare_top fl (mk_opts only E tr) m ck a b = Ok r' /\
             (forall e, In e r' -> In e r) /\ length r' <= length r /\ (r = [] -> r' = []).
Proof.
  intros Hg Hr. exists (filter (keep_excluded (pats_list E)) r).
  split; [now apply exclude_is_filter|]. split; [|split].
  - intros e He. apply filter_In in He. tauto.
  - apply filter_length_le.
  - intros ->. reflexivity.
Qed.

Theorem compare_only_only_removes fl O excl tr m ck a b r :
  pats_truthy O = true ->
  compare_top fl (mk_opts (PSeq []) excl tr) m ck a b = Ok r ->
  exists r', compare_top fl (mk_opts O excl tr) m ck a b = Ok r' /\
             (forall e, In e r' -> In e r) /\ length r' <= length r /\ (r = [] -> r' = []).
Proof.
  intros Ht Hr. exists (filter (keep_only (pats_list O)) r).
  split; [rewrite (compare_only_is_filter fl O excl tr m ck a b Ht), Hr; reflexivity|]. split; [|split].
  - intros e He. apply filter_In in He. tauto.
  - apply filter_length_le.
  - intros ->. reflexivity.
Qed.

(* excluding by the patterns of E1 and then of E2 is excluding by both; the order of the patterns is irrelevant *)
Theorem exclude_filters_commute (E1 E2 : list pstr) (r : report) :
  filter (keep_excluded E2) (filter (keep_excluded E1) r) = filter (keep_excluded E1) (filter (keep_excluded E2) r).
Proof.
  induction r as [|e r IH]; cbn; [reflexivity|].
  destruct (keep_excluded E1 e) eqn:A, (keep_excluded E2 e) eqn:B; cbn; rewrite ?A, ?B; now rewrite IH.
Qed.
