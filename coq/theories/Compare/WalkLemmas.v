(* Compare/WalkLemmas.v — structural lemmas about the walk combinators, used by
   all the property proofs. *)
From Coq Require Import List NArith ZArith Bool Lia.
From N0 Require Import Base.PyStr Base.PyVal Compare.Util Compare.Flags Compare.Match Compare.Model.
Import ListNotations.

(* ---- seq_res --------------------------------------------------------------------- *)
Lemma seq_res_cons_ok {A} (x : res (list A)) l r :
  seq_res (x :: l) = Ok r <-> exists a b, x = Ok a /\ seq_res l = Ok b /\ r = a ++ b.
Proof.
  simpl. destruct x as [a| | |]; try (split; [discriminate|intros (a' & b & H & _); discriminate]).
  destruct (seq_res l) as [b| | |]; try (split; [discriminate|intros (a' & b & _ & H & _); discriminate]).
  split.
  - intros H. inversion H. now exists a, b.
  - intros (a' & b' & Ha & Hb & ->). inversion Ha; inversion Hb. reflexivity.
Qed.

Lemma seq_res_ok_forall {A} (l : list (res (list A))) r :
  seq_res l = Ok r -> Forall (fun x => exists a, x = Ok a) l.
Proof.
  revert r; induction l as [|x l IH]; intros r H; [constructor|].
  apply seq_res_cons_ok in H. destruct H as (a & b & Hx & Hl & _).
  constructor; [now exists a|eauto].
Qed.

Lemma seq_res_nil_iff {A} (l : list (res (list A))) r :
  seq_res l = Ok r -> (r = [] <-> Forall (fun x => x = Ok []) l).
Proof.
  revert r; induction l as [|x l IH]; intros r H.
  - simpl in H. inversion H. split; auto.
  - apply seq_res_cons_ok in H. destruct H as (a & b & -> & Hl & ->).
    specialize (IH b Hl). split.
    + intros E. apply app_eq_nil in E. destruct E as [-> ->]. constructor; [reflexivity|now apply IH].
    + intros F. inversion F as [|? ? Hx Hr]; subst. inversion Hx; subst. apply IH in Hr. now subst.
Qed.

(* every element of the result comes from one of the computations *)
Lemma seq_res_in {A} (l : list (res (list A))) r e :
  seq_res l = Ok r -> In e r -> exists a, In (Ok a) l /\ In e a.
Proof.
  revert r; induction l as [|x l IH]; intros r H Hin.
  - simpl in H. inversion H; subst. destruct Hin.
  - apply seq_res_cons_ok in H. destruct H as (a & b & -> & Hl & ->).
    apply in_app_or in Hin. destruct Hin as [Hin|Hin].
    + exists a. split; [now left|assumption].
    + destruct (IH b Hl Hin) as (a' & Ha' & He). exists a'. split; [now right|assumption].
Qed.

Lemma seq_res_forall {A} (P : A -> Prop) (l : list (res (list A))) r :
  seq_res l = Ok r -> (forall a, In (Ok a) l -> Forall P a) -> Forall P r.
Proof.
  intros H HP. apply Forall_forall. intros e He.
  destruct (seq_res_in l r e H He) as (a & Ha & Hea).
  specialize (HP a Ha). rewrite Forall_forall in HP. auto.
Qed.

(* pointwise related computations give related results, for a list homomorphism *)
Lemma seq_res_map_hom {A B} (F : list A -> list B) (l : list (res (list A))) (l' : list (res (list B))) :
  F [] = [] -> (forall a b, F (a ++ b) = F a ++ F b) ->
  Forall2 (fun x x' => forall a, x = Ok a -> x' = Ok (F a)) l l' ->
  forall r, seq_res l = Ok r -> seq_res l' = Ok (F r).
Proof.
  intros Hnil Happ HF. induction HF as [|x x' l l' Hx HF IH]; intros r H.
  - simpl in *. inversion H. now rewrite Hnil.
  - apply seq_res_cons_ok in H. destruct H as (a & b & -> & Hl & ->).
    apply seq_res_cons_ok. exists (F a), (F b). repeat split; auto.
Qed.

(* ---- height and fuel ---------------------------------------------------------------- *)
Lemma height_dict_child c kvs k v : In (k, v) kvs -> height v < height (Dict c kvs).
Proof.
  simpl. induction kvs as [|[k' v'] r IH]; intros H; [destruct H|].
  simpl. destruct H as [H|H]; [inversion H; subst; lia|]. specialize (IH H). lia.
Qed.

Lemma height_list_child c xs v : In v xs -> height v < height (Lst c xs).
Proof.
  simpl. induction xs as [|v' r IH]; intros H; [destruct H|].
  simpl. destruct H as [H|H]; [subst; lia|]. specialize (IH H). lia.
Qed.

Lemma lookup_In {A} k (kvs : list (pstr * A)) v : lookup k kvs = Some v -> exists k', In (k', v) kvs /\ k = k'.
Proof.
  induction kvs as [|[k' v'] r IH]; simpl; [discriminate|].
  destruct (pstr_eqb k k') eqn:E.
  - intros H. inversion H; subst. apply pstr_eqb_eq in E. exists k'. split; [now left|assumption].
  - intros H. destruct (IH H) as (k2 & Hin & ->). exists k2. split; [now right|reflexivity].
Qed.

Lemma mem_key_true {A} k (kvs : list (pstr * A)) : mem_key k kvs = true <-> exists v, lookup k kvs = Some v.
Proof. unfold mem_key. destruct (lookup k kvs); split; try discriminate; eauto. intros [v H]; discriminate. Qed.

Lemma mem_key_false {A} k (kvs : list (pstr * A)) : mem_key k kvs = false <-> lookup k kvs = None.
Proof. unfold mem_key. destruct (lookup k kvs); split; congruence. Qed.

(* ---- cmp_pair: the five outcomes ------------------------------------------------------ *)
Section Pair.
Variables (fl : flags) (o : opts).
Variable rec : pats -> steps -> tree -> tree -> res report.

Inductive pair_outcome (par : parent) (ck : pats) (tpath : pstr) (p pd subl subd : steps) (x y : tree)
  : res report -> Prop :=
| PO_equal :
    same_type (transformed o tpath x) (transformed o tpath y) = true ->
    (is_cmp_scalar (transformed o tpath x) = true /\
       val_neq (transformed o tpath x) (transformed o tpath y) && only_ok o par p = false
     \/ is_cmp_scalar (transformed o tpath x) = false /\ x = Leaf SNone) ->
    pair_outcome par ck tpath p pd subl subd x y (Ok [])
| PO_noteq :
    same_type (transformed o tpath x) (transformed o tpath y) = true ->
    is_cmp_scalar (transformed o tpath x) = true ->
    val_neq (transformed o tpath x) (transformed o tpath y) = true -> only_ok o par p = true ->
    pair_outcome par ck tpath p pd subl subd x y (Ok [NotEq p x y])
| PO_clash :
    same_type (transformed o tpath x) (transformed o tpath y) = false -> only_ok o par pd = true ->
    pair_outcome par ck tpath p pd subl subd x y (Ok [mk_diff fl pd p x y])
| PO_clash_hidden :
    same_type (transformed o tpath x) (transformed o tpath y) = false -> only_ok o par pd = false ->
    pair_outcome par ck tpath p pd subl subd x y (Ok [])
| PO_list c xs :
    same_type (transformed o tpath x) (transformed o tpath y) = true ->
    is_cmp_scalar (transformed o tpath x) = false ->
    x = Lst c xs -> (par = PListD -> c = true) ->
    pair_outcome par ck tpath p pd subl subd x y (rec ck subl x y)
| PO_dict c kvs :
    same_type (transformed o tpath x) (transformed o tpath y) = true ->
    is_cmp_scalar (transformed o tpath x) = false ->
    x = Dict c kvs -> (par = PListK -> exists kb, y = Dict true kb) ->
    pair_outcome par ck tpath p pd subl subd x y (rec ck subd x y)
| PO_raise e :
    same_type (transformed o tpath x) (transformed o tpath y) = true ->
    is_cmp_scalar (transformed o tpath x) = false ->
    pair_outcome par ck tpath p pd subl subd x y (Raise e).

Lemma cmp_pair_outcome par ck tpath p pd subl subd x y :
  pair_outcome par ck tpath p pd subl subd x y (cmp_pair fl o rec par ck tpath p pd subl subd x y).
Proof.
  unfold cmp_pair.
  destruct (same_type (transformed o tpath x) (transformed o tpath y)) eqn:Est.
  - destruct (is_cmp_scalar (transformed o tpath x)) eqn:Esc.
    + destruct (val_neq (transformed o tpath x) (transformed o tpath y)) eqn:Ene; simpl.
      * destruct (only_ok o par p) eqn:Eo.
        -- now apply PO_noteq.
        -- apply PO_equal; auto. left. split; auto. now rewrite Ene, Eo.
      * apply PO_equal; auto. left. split; auto. now rewrite Ene.
    + destruct x as [s|c kvs|c xs].
      * destruct s; try (now apply PO_raise). apply PO_equal; auto.
      * destruct par.
        -- eapply PO_dict; eauto. discriminate.
        -- eapply PO_dict; eauto. discriminate.
        -- destruct y as [s'|[] kb|c' ys]; try (now apply PO_raise).
           eapply PO_dict; eauto.
      * destruct par.
        -- eapply PO_list; eauto. discriminate.
        -- destruct c; [|now apply PO_raise]. eapply PO_list; eauto.
        -- eapply PO_list; eauto. discriminate.
  - destruct (only_ok o par pd) eqn:Eo.
    + now apply PO_clash.
    + now apply PO_clash_hidden.
Qed.
End Pair.

(* ---- induction principle over the walks ------------------------------------------------- *)
Section WalkInd.
Variables (fl : flags) (o : opts).
Variable P : mode -> pats -> steps -> tree -> tree -> report -> Prop.

Definition rec_ok (m : mode) (rec : pats -> steps -> tree -> tree -> res report) : Prop :=
  forall ck p x y r, rec ck p x y = Ok r -> P m ck p x y r.

Hypothesis Hdict : forall m rec, rec_ok m rec -> forall ck p c c' ka kb r,
  dict_walk fl o rec ck p ka kb = Ok r -> P m ck p (Dict c ka) (Dict c' kb) r.
Hypothesis Hld : forall rec, rec_ok MDirect rec -> forall ck p c c' xs ys r,
  list_direct fl o rec ck p xs ys = Ok r -> P MDirect ck p (Lst c xs) (Lst c' ys) r.
Hypothesis Hlk : forall rec, rec_ok MKeyed rec -> forall ck p c c' xs ys r,
  list_keyed fl o rec ck p xs ys = Ok r -> P MKeyed ck p (Lst c xs) (Lst c' ys) r.

Lemma walk_ind : forall fuel m, rec_ok m (walk fl o fuel m).
Proof.
  induction fuel as [|f IH]; intros m ck p a b r H; [discriminate|].
  simpl in H. destruct a as [s|c ka|c xs], b as [s'|c' kb|c' ys]; try discriminate.
  - eapply Hdict; eauto.
  - destruct m; [eapply Hld|eapply Hlk]; eauto.
Qed.
End WalkInd.

(* ---- enough fuel ------------------------------------------------------------------------ *)
(* with fuel above the height of the left operand the walk never runs out of fuel;
   compare_top supplies S (height a) *)
Section Fuel.
Variables (fl : flags) (o : opts).

Lemma seq_res_no_oof {A} (l : list (res (list A))) :
  Forall (fun x => x <> OutOfFuel) l -> seq_res l <> OutOfFuel.
Proof.
  induction 1 as [|x l Hx Hl IH]; simpl; [discriminate|].
  destruct x; try congruence. destruct (seq_res l); congruence.
Qed.

Lemma cmp_pair_no_oof rec par ck tpath p pd subl subd x y :
  (forall ck' p' y', rec ck' p' x y' <> OutOfFuel) ->
  cmp_pair fl o rec par ck tpath p pd subl subd x y <> OutOfFuel.
Proof.
  intros Hrec. pose proof (cmp_pair_outcome fl o rec par ck tpath p pd subl subd x y) as H.
  inversion H; try congruence; try (rewrite <- H0; discriminate).
Qed.

Lemma record_key_no_oof prefix keys kvs acc : record_key o prefix keys kvs acc <> OutOfFuel.
Proof.
  revert acc; induction keys as [|k r IH]; intros acc; simpl; [discriminate|].
  destruct (lookup k kvs); [|apply IH].
  destruct (py_str _); [apply IH|discriminate].
Qed.

Lemma item_keys_no_oof prefix ck l : item_keys o prefix ck l <> OutOfFuel.
Proof.
  induction l as [|[i x] r IH]; simpl; [discriminate|].
  assert (Hk : item_key o prefix ck x <> OutOfFuel).
  { unfold item_key. destruct x; try (destruct (py_str _); discriminate). apply record_key_no_oof. }
  destruct (item_key o prefix ck x); try congruence.
  destruct (item_keys o prefix ck r); congruence.
Qed.

Lemma item_keys_items prefix ck l ks :
  item_keys o prefix ck l = Ok ks -> map snd ks = l.
Proof.
  revert ks; induction l as [|[i x] r IH]; intros ks H; simpl in H.
  - inversion H. reflexivity.
  - destruct (item_key o prefix ck x); try discriminate.
    destruct (item_keys o prefix ck r) eqn:E; try discriminate.
    inversion H; subst. simpl. f_equal. now apply IH.
Qed.

Lemma find_key_some k l v l' :
  find_key k l = Some (v, l') -> exists l1 l2, l = l1 ++ (k, v) :: l2 /\ l' = l1 ++ l2 /\
    Forall (fun kv => pstr_eqb k (fst kv) = false) l1.
Proof.
  revert v l'; induction l as [|[k' v'] r IH]; intros v l' H; simpl in H; [discriminate|].
  destruct (pstr_eqb k k') eqn:E.
  - inversion H; subst. apply pstr_eqb_eq in E; subst. exists [], l'. repeat split; auto.
  - destruct (find_key k r) as [[v2 r2]|] eqn:F; [|discriminate].
    inversion H; subst. destruct (IH _ _ eq_refl) as (l1 & l2 & -> & -> & HF).
    exists ((k', v') :: l1), l2. repeat split; auto.
Qed.

Lemma find_key_none k l : find_key k l = None <-> Forall (fun kv => pstr_eqb k (fst kv) = false) l.
Proof.
  induction l as [|[k' v'] r IH]; simpl; [split; auto|].
  destruct (pstr_eqb k k') eqn:E.
  - split; [discriminate|]. intros H. inversion H; subst. simpl in *. congruence.
  - destruct (find_key k r) as [[v2 r2]|]; split; try discriminate.
    + intros H. inversion H; subst. apply IH in H3. discriminate.
    + intros _. constructor; [assumption|now apply IH].
    + intros _. reflexivity.
Qed.

(* the items the pairing loop handles are items of the left list *)
Lemma lk_loop_no_oof rec ck prefix xs : forall rem,
  (forall k i x, In (k, (i, x)) xs -> forall ck' p' y', rec ck' p' x y' <> OutOfFuel) ->
  Forall (fun r => r <> OutOfFuel) (fst (fst (lk_loop fl o rec ck prefix xs rem))).
Proof.
  induction xs as [|[k [i x]] xs IH]; intros rem Hrec; simpl; [constructor|].
  destruct (find_key k rem) as [[[j y] rem']|].
  - specialize (IH rem' (fun k0 i0 x0 H => Hrec k0 i0 x0 (or_intror H))).
    destruct (lk_loop fl o rec ck prefix xs rem') as [[ps un] rm]. simpl in *.
    constructor; [|assumption]. apply cmp_pair_no_oof. eapply Hrec. now left.
  - specialize (IH rem (fun k0 i0 x0 H => Hrec k0 i0 x0 (or_intror H))).
    destruct (lk_loop fl o rec ck prefix xs rem) as [[ps un] rm]. simpl in *. assumption.
Qed.

Lemma ld_loop_no_oof rec ck prefix xs : forall i ys,
  (forall x, In x xs -> forall ck' p' y', rec ck' p' x y' <> OutOfFuel) ->
  Forall (fun r => r <> OutOfFuel) (ld_loop fl o rec ck prefix i xs ys).
Proof.
  induction xs as [|x xs IH]; intros i ys Hrec; simpl.
  - constructor; [discriminate|constructor].
  - destruct ys as [|y ys].
    + constructor; [discriminate|]. apply IH. intros; apply Hrec; now right.
    + constructor.
      * apply cmp_pair_no_oof. apply Hrec. now left.
      * apply IH. intros; apply Hrec; now right.
Qed.

Lemma enum_from_in {A} (l : list A) : forall i j x, In (j, x) (enum_from i l) -> In x l.
Proof.
  induction l as [|y r IH]; intros i j x H; simpl in *; [assumption|].
  destruct H as [H|H]; [inversion H; now left|right; eapply IH; eauto].
Qed.

Lemma walk_no_oof : forall fuel m ck p a b, height a < fuel -> walk fl o fuel m ck p a b <> OutOfFuel.
Proof.
  induction fuel as [|f IH]; intros m ck p a b Hh; [lia|].
  simpl. destruct a as [s|c ka|c xs], b as [s'|c' kb|c' ys]; try discriminate.
  - unfold dict_walk.
    assert (H : seq_res (map (dict_common fl o (walk fl o f m) ck p kb) ka) <> OutOfFuel).
    { apply seq_res_no_oof. apply Forall_forall. intros r Hr. apply in_map_iff in Hr.
      destruct Hr as ([k v] & <- & Hin). unfold dict_common. simpl.
      destruct (lookup k kb); [|discriminate]. destruct (excluded _ _); [discriminate|].
      apply cmp_pair_no_oof. intros. apply IH. pose proof (height_dict_child c ka k v Hin). lia. }
    destruct (seq_res _); congruence.
  - destruct m.
    + unfold list_direct. destruct (excluded _ _); [discriminate|].
      apply seq_res_no_oof. apply ld_loop_no_oof. intros x Hx ck' p' y'. apply IH.
      pose proof (height_list_child c xs x Hx). lia.
    + unfold list_keyed. destruct (excluded _ _); [discriminate|].
      pose proof (item_keys_no_oof (render p) ck (enum_from 0 xs)) as H1.
      destruct (item_keys o (render p) ck (enum_from 0 xs)) as [ka| | |] eqn:Ea; try congruence.
      pose proof (item_keys_no_oof (render p) ck (enum_from 0 ys)) as H2.
      destruct (item_keys o (render p) ck (enum_from 0 ys)) as [kb| | |] eqn:Eb; try congruence.
      pose proof (lk_loop_no_oof (walk fl o f MKeyed) ck p ka kb) as H3.
      destruct (lk_loop fl o (walk fl o f MKeyed) ck p ka kb) as [[ps un] rm]. simpl in H3.
      assert (H4 : seq_res ps <> OutOfFuel).
      { apply seq_res_no_oof. apply H3. intros k i x Hin ck' p' y'. apply IH.
        apply item_keys_items in Ea. assert (In (i, x) (enum_from 0 xs)).
        { rewrite <- Ea. apply in_map_iff. exists (k, (i, x)). auto. }
        apply enum_from_in in H. pose proof (height_list_child c xs x H). lia. }
      destruct (seq_res ps); congruence.
Qed.
End Fuel.
