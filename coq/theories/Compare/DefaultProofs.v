(* Compare/DefaultProofs.v — C07: the verdict of the default compare (the unordered walk
   without composite key) is exact where str() identifies list items as their value does. *)
From Coq Require Import List NArith ZArith Bool Lia.
From N0 Require Import Base.PyStr Base.PyVal Compare.Util Compare.Flags Compare.Match Compare.Model
  Compare.Spec Compare.WalkLemmas Compare.VerdictProofs.
Import ListNotations.

(* ---- first match and removal, generically --------------------------------------------------- *)
Fixpoint find_rm {A} (f : A -> bool) (l : list A) : option (A * list A) :=
  match l with
  | [] => None
  | y :: r => if f y then Some (y, r)
              else match find_rm f r with Some (z, r') => Some (z, y :: r') | None => None end
  end.

Lemma remove_first_find_rm {A} (f : A -> bool) l :
  remove_first f l = match find_rm f l with Some (_, r) => Some r | None => None end.
Proof.
  induction l as [|y r IH]; simpl; [reflexivity|]. destruct (f y); [reflexivity|].
  rewrite IH. destruct (find_rm f r) as [[z r']|]; reflexivity.
Qed.

Lemma find_key_find_rm k (l : list keyed) :
  find_key k l = match find_rm (fun e => pstr_eqb k (fst e)) l with Some (e, r) => Some (snd e, r) | None => None end.
Proof.
  induction l as [|[k' v] r IH]; simpl; [reflexivity|]. destruct (pstr_eqb k k'); [reflexivity|].
  rewrite IH. match goal with |- context [find_rm ?f r] => destruct (find_rm f r) as [[z r']|] end; reflexivity.
Qed.

Lemma find_rm_some {A} (f : A -> bool) l z r :
  find_rm f l = Some (z, r) -> f z = true /\ exists l1 l2, l = l1 ++ z :: l2 /\ r = l1 ++ l2 /\ forallb (fun y => negb (f y)) l1 = true.
Proof.
  revert z r; induction l as [|y l IH]; intros z r H; simpl in H; [discriminate|].
  destruct (f y) eqn:E.
  - inversion H; subst. split; [assumption|]. exists [], r. auto.
  - destruct (find_rm f l) as [[z' r']|] eqn:F; [|discriminate]. inversion H; subst.
    destruct (IH _ _ eq_refl) as (Hz & l1 & l2 & -> & -> & Hl1). split; [assumption|].
    exists (y :: l1), l2. simpl. rewrite E. auto.
Qed.

Lemma find_rm_none {A} (f : A -> bool) l : find_rm f l = None <-> forallb (fun y => negb (f y)) l = true.
Proof.
  induction l as [|y l IH]; simpl; [tauto|]. destruct (f y); simpl.
  - split; discriminate.
  - rewrite <- IH. destruct (find_rm f l) as [[z r]|]; split; congruence.
Qed.

(* searching a list for something that can only be found in the class c: search the
   class; the other class is untouched *)
Lemma find_rm_filter {A} (f c : A -> bool) l :
  (forall y, In y l -> f y = true -> c y = true) ->
  match find_rm f l with
  | Some (z, r) => find_rm f (filter c l) = Some (z, filter c r) /\
                   filter (fun y => negb (c y)) r = filter (fun y => negb (c y)) l
  | None => find_rm f (filter c l) = None
  end.
Proof.
  induction l as [|y l IH]; intros H; simpl; [reflexivity|].
  destruct (f y) eqn:E.
  - rewrite (H y (or_introl eq_refl) E). simpl. rewrite E. auto.
  - assert (H' : forall y0, In y0 l -> f y0 = true -> c y0 = true) by (intros; apply H; auto; now right).
    specialize (IH H'). destruct (find_rm f l) as [[z r]|].
    + destruct IH as [I1 I2]. simpl. destruct (c y) eqn:Ec; simpl; rewrite ?E, ?I1, ?I2; auto.
    + simpl. destruct (c y) eqn:Ec; simpl; rewrite ?E, ?IH; reflexivity.
Qed.

(* two predicates that agree on the list find the same thing *)
Lemma find_rm_ext {A} (f g : A -> bool) l : (forall y, In y l -> f y = g y) -> find_rm f l = find_rm g l.
Proof.
  induction l as [|y l IH]; intros H; simpl; [reflexivity|].
  rewrite (H y (or_introl eq_refl)), IH; [reflexivity|]. intros; apply H; now right.
Qed.

Lemma find_rm_map {A B} (h : A -> B) (f : B -> bool) l :
  find_rm f (map h l) = match find_rm (fun y => f (h y)) l with Some (z, r) => Some (h z, map h r) | None => None end.
Proof.
  induction l as [|y l IH]; simpl; [reflexivity|]. destruct (f (h y)); [reflexivity|].
  rewrite IH. match goal with |- context [find_rm ?g l] => destruct (find_rm g l) as [[z r]|] end; reflexivity.
Qed.

(* ---- the pairing loop as a boolean ------------------------------------------------------------ *)
Notation kitem := (pstr * tree)%type (only parsing).    (* key, item *)

Fixpoint pair_allb (Q : tree -> tree -> bool) (xs rem : list kitem) : bool :=
  match xs with
  | [] => match rem with [] => true | _ => false end
  | (k, x) :: xs' =>
    match find_rm (fun e => pstr_eqb k (fst e)) rem with
    | Some ((_, y), rem') => Q x y && pair_allb Q xs' rem'
    | None => false
    end
  end.

Definition rec_k (e : kitem) : bool := is_record (snd e).
Definition nrec (t : tree) : bool := negb (is_record t).

(* what the guard gives for two keyed lists *)
Record keyed_ok (Q : tree -> tree -> bool) (xs ys : list kitem) : Prop := {
  ko_rec_x : forall k x, In (k, x) xs -> is_record x = true -> k = [];
  ko_rec_y : forall k y, In (k, y) ys -> is_record y = true -> k = [];
  ko_cross : forall k x k' y, In (k, x) xs -> In (k', y) ys -> is_record x <> is_record y -> k <> k';
  ko_val : forall k x k' y, In (k, x) xs -> In (k', y) ys -> is_record x = false -> is_record y = false ->
             (pstr_eqb k k' = tree_eq x y) /\ (k = k' -> Q x y = true)
}.

Lemma keyed_ok_sub Q xs ys xs' ys' :
  keyed_ok Q xs ys -> (forall e, In e xs' -> In e xs) -> (forall e, In e ys' -> In e ys) -> keyed_ok Q xs' ys'.
Proof.
  intros [H1 H2 H3 H4] Hx Hy. constructor; intros.
  - eapply H1; eauto.
  - eapply H2; eauto.
  - eapply H3; eauto.
  - eapply H4; eauto.
Qed.

Lemma filter_map_snd (c : tree -> bool) (l : list kitem) :
  filter c (map snd l) = map snd (filter (fun e => c (snd e)) l).
Proof. induction l as [|[k x] l IH]; simpl; [reflexivity|]. destruct (c x); simpl; now rewrite IH. Qed.

Lemma in_app_mid {A} (l1 l2 : list A) z e : In e (l1 ++ l2) -> In e (l1 ++ z :: l2).
Proof. intros H. apply in_app_or in H. apply in_or_app. destruct H; [now left|right; now right]. Qed.

Theorem pair_allb_spec Q xs : forall ys,
  keyed_ok Q xs ys ->
  pair_allb Q xs ys =
  list_eqb Q (filter is_record (map snd xs)) (filter is_record (map snd ys))
  && multiset_eqb tree_eq (filter nrec (map snd xs)) (filter nrec (map snd ys)).
Proof.
  induction xs as [|[k x] xs IH]; intros ys KO.
  - simpl. destruct ys as [|[k' y] ys]; [reflexivity|]. simpl. unfold nrec.
    destruct (is_record y); simpl; [reflexivity|]. now rewrite andb_false_r.
  - cbn [pair_allb].
    assert (KO' : forall rem', (forall e, In e rem' -> In e ys) -> keyed_ok Q xs rem').
    { intros rem' Hsub. eapply keyed_ok_sub; eauto. intros e He. now right. }
    destruct (is_record x) eqn:Rx.
    + (* a record: its key is "", the first entry with that key is the first record *)
      pose proof (ko_rec_x Q _ _ KO k x (or_introl eq_refl) Rx) as ->.
      pose proof (find_rm_filter (fun e : kitem => pstr_eqb [] (fst e)) rec_k ys) as HF.
      assert (Hc : forall e, In e ys -> pstr_eqb [] (fst e) = true -> rec_k e = true).
      { intros [k' y] Hin Hk. cbn [fst] in Hk. apply pstr_eqb_eq in Hk. subst k'. unfold rec_k. simpl.
        destruct (is_record y) eqn:Ry; [reflexivity|]. exfalso.
        apply (ko_cross Q _ _ KO [] x [] y (or_introl eq_refl) Hin); congruence. }
      specialize (HF Hc).
      (* on records every key is "" *)
      assert (Hall : find_rm (fun e : kitem => pstr_eqb [] (fst e)) (filter rec_k ys) =
                     match filter rec_k ys with [] => None | e :: r => Some (e, r) end).
      { destruct (filter rec_k ys) as [|[k' y] r] eqn:Ef; [reflexivity|]. simpl.
        assert (Hin : In (k', y) (filter rec_k ys)) by (rewrite Ef; now left).
        apply filter_In in Hin. destruct Hin as [Hin Hr]. unfold rec_k in Hr. simpl in Hr.
        now rewrite (ko_rec_y Q _ _ KO k' y Hin Hr). }
      cbn [map snd filter]. rewrite Rx. unfold nrec at 1. rewrite Rx. cbn [negb].
      rewrite (filter_map_snd is_record ys). change (fun e : pstr * tree => is_record (snd e)) with rec_k.
      destruct (find_rm (fun e : kitem => pstr_eqb [] (fst e)) ys) as [[[k' y] rem']|] eqn:Ef.
      * destruct HF as [HF1 HF2]. rewrite Hall in HF1.
        destruct (filter rec_k ys) as [|e r] eqn:Er; [discriminate|]. inversion HF1; subst e r.
        simpl. rewrite (IH rem').
        -- rewrite (filter_map_snd is_record rem'). change (fun e : pstr * tree => is_record (snd e)) with rec_k.
           assert (Hn : filter nrec (map snd rem') = filter nrec (map snd ys)).
           { rewrite !(filter_map_snd nrec). f_equal. exact HF2. }
           rewrite Hn. now rewrite andb_assoc.
        -- apply KO'. intros e He. apply find_rm_some in Ef. destruct Ef as (_ & l1 & l2 & -> & -> & _).
           now apply in_app_mid.
      * rewrite Hall in HF. destruct (filter rec_k ys); [reflexivity|discriminate].
    + (* a non-record: its key selects the first equal non-record *)
      cbn [map snd filter]. rewrite Rx. unfold nrec at 1. rewrite Rx. cbn [negb multiset_eqb].
      set (nk := fun e : kitem => negb (rec_k e)).
      pose proof (find_rm_filter (fun e : kitem => pstr_eqb k (fst e)) nk ys) as HF.
      assert (Hc : forall e, In e ys -> pstr_eqb k (fst e) = true -> nk e = true).
      { intros [k' y] Hin Hk. cbn [fst] in Hk. apply pstr_eqb_eq in Hk. subst k'. unfold nk, rec_k. simpl.
        destruct (is_record y) eqn:Ry; [|reflexivity]. exfalso.
        apply (ko_cross Q _ _ KO k x k y (or_introl eq_refl) Hin); congruence. }
      specialize (HF Hc).
      (* among the non-records, key equality is value equality *)
      assert (Hext : find_rm (fun e : kitem => pstr_eqb k (fst e)) (filter nk ys) =
                     find_rm (fun e : kitem => tree_eq x (snd e)) (filter nk ys)).
      { apply find_rm_ext. intros [k' y] Hin. apply filter_In in Hin. destruct Hin as [Hin Hn].
        unfold nk, rec_k in Hn. simpl in *. apply negb_true_iff in Hn.
        exact (proj1 (ko_val Q _ _ KO k x k' y (or_introl eq_refl) Hin Rx Hn)). }
      rewrite remove_first_find_rm.
      assert (Hm : filter nrec (map snd ys) = map snd (filter nk ys)) by (apply (filter_map_snd nrec)).
      rewrite Hm, find_rm_map.
      destruct (find_rm (fun e : kitem => pstr_eqb k (fst e)) ys) as [[[k' y] rem']|] eqn:Ef.
      * destruct HF as [HF1 HF2]. rewrite Hext in HF1. rewrite HF1.
        pose proof (find_rm_some _ _ _ _ Ef) as (Hk & l1 & l2 & Hys & Hrem & _).
        simpl in Hk. apply pstr_eqb_eq in Hk. subst k'.
        assert (Hin : In (k, y) ys) by (rewrite Hys; apply in_or_app; right; now left).
        assert (Ry : is_record y = false).
        { destruct (is_record y) eqn:Ry; [|reflexivity]. exfalso.
          apply (ko_cross Q _ _ KO k x k y (or_introl eq_refl) Hin); congruence. }
        rewrite (proj2 (ko_val Q _ _ KO k x k y (or_introl eq_refl) Hin Rx Ry) eq_refl). cbn [andb].
        rewrite (IH rem').
        -- rewrite (filter_map_snd nrec rem'). fold nk.
           assert (Hr : filter is_record (map snd rem') = filter is_record (map snd ys)).
           { rewrite !(filter_map_snd is_record). f_equal.
             assert (HH : filter (fun y0 : kitem => negb (nk y0)) rem' = filter (fun y0 : kitem => negb (nk y0)) ys) by exact HF2.
             erewrite (filter_ext (fun e : kitem => is_record (snd e)) (fun y0 : kitem => negb (nk y0))).
             2:{ intros e. unfold nk, rec_k. now rewrite negb_involutive. }
             rewrite HH. apply filter_ext. intros e. unfold nk, rec_k. now rewrite negb_involutive. }
           now rewrite Hr.
        -- apply KO'. intros e He. subst rem' ys. now apply in_app_mid.
      * rewrite Hext in HF. rewrite HF. now rewrite andb_false_r.
Qed.

(* ---- Spec lemmas --------------------------------------------------------------------------------- *)
Lemma split_first_filter {A} (p : A -> bool) l :
  match split_first p l with
  | Some (y, r) => filter p l = y :: filter p r
  | None => filter p l = []
  end.
Proof.
  induction l as [|x l IH]; simpl; [reflexivity|]. destruct (p x) eqn:E; [reflexivity|].
  destruct (split_first p l) as [[y r]|]; exact IH.
Qed.

Lemma existsb_filter_nil {A} (p : A -> bool) l : negb (existsb p l) = match filter p l with [] => true | _ => false end.
Proof. induction l as [|x l IH]; simpl; [reflexivity|]. destruct (p x); simpl; [reflexivity|exact IH]. Qed.

Lemma filt_eqb_filter {A} (p : A -> bool) (f : A -> A -> bool) l : forall l',
  filt_eqb p f l l' = list_eqb f (filter p l) (filter p l').
Proof.
  induction l as [|x r IH]; intros l'; simpl.
  - rewrite existsb_filter_nil. destruct (filter p l'); reflexivity.
  - destruct (p x) eqn:E; [|apply IH].
    pose proof (split_first_filter p l') as H. destruct (split_first p l') as [[y r']|]; rewrite H; simpl.
    + now rewrite IH.
    + reflexivity.
Qed.

Lemma tree_eq_kind x y : tree_eq x y = true -> is_record x = is_record y.
Proof. destruct x, y; simpl; intros H; try discriminate; reflexivity. Qed.

Lemma tree_eq_emo : forall x y, tree_eq x y = true -> eq_mod_order x y = true.
Proof.
  induction x as [s|c ka IH|c xs IH] using tree_ind'; intros y H; destruct y as [s'|c' kb|c' ys]; simpl in *;
    try discriminate; try assumption.
  - apply andb_true_iff in H. destruct H as [H1 H2]. rewrite H2, andb_true_r.
    rewrite forallb_forall in *. intros [k v] Hin. specialize (H1 (k, v) Hin). simpl in *.
    destruct (lookup k kb) as [vb|]; [|discriminate].
    rewrite Forall_forall in IH. exact (IH (k, v) Hin vb H1).
  - rewrite filt_eqb_filter. revert ys H. induction xs as [|x xs IHx]; intros ys H; destruct ys as [|y ys]; simpl in *;
      try discriminate; try reflexivity.
    apply andb_true_iff in H. destruct H as [Hxy Hr]. inversion IH as [|? ? Hx Hxs]; subst.
    specialize (IHx Hxs ys Hr). apply andb_true_iff in IHx. destruct IHx as [I1 I2].
    pose proof (tree_eq_kind x y Hxy) as Hk. destruct (is_record x) eqn:Rx; rewrite <- Hk; simpl.
    + rewrite (Hx y Hxy), I1, I2. reflexivity.
    + rewrite Hxy, I1, I2. reflexivity.
Qed.

Lemma same_type_false_emo x y : good x -> good y -> same_type x y = false -> eq_mod_order x y = false.
Proof.
  intros Gx Gy H. destruct x as [a|c ka|c xs], y as [b|c' kb|c' ys]; simpl in *; try reflexivity.
  - now apply same_scalar_type_false.
  - apply good_tag_dict in Gx, Gy. subst. discriminate.
  - apply good_tag_list in Gx, Gy. subst. discriminate.
Qed.

Lemma scalar_pair_emo x y :
  same_type x y = true -> is_cmp_scalar x = true -> (val_neq x y = false <-> eq_mod_order x y = true).
Proof.
  destruct x as [a| |], y as [b| |]; simpl; try discriminate. intros _ _.
  rewrite negb_false_iff. tauto.
Qed.

(* ---- the walks ------------------------------------------------------------------------------------- *)
Definition ck_empty (ck : pats) : Prop := pats_list ck = [].

Section Default.
Variables (fl : flags) (o : opts).
Hypothesis Hq : quiet o.

Definition rec_emo (rec : pats -> steps -> tree -> tree -> res report) : Prop :=
  forall ck p x y r, ck_empty ck -> rec ck p x y = Ok r -> good x -> good y -> keys_ok x y = true ->
    (r = [] <-> eq_mod_order x y = true).

Lemma pair_emo rec par ck tp p pd sl sd x y r :
  ck_empty ck -> rec_emo rec -> good x -> good y -> keys_ok x y = true ->
  cmp_pair fl o rec par ck tp p pd sl sd x y = Ok r -> (r = [] <-> eq_mod_order x y = true).
Proof.
  intros Hck Hrec Gx Gy K H.
  pose proof (cmp_pair_outcome fl o rec par ck tp p pd sl sd x y) as O.
  rewrite H in O.
  inversion O as [Hst Hc|Hst Hsc Hne _|Hst _|Hst Hf|c xs Hst Hsc Hx Hc Hr|c kvs Hst Hsc Hx Hc Hr|]; subst;
    rewrite ?(q_transformed o Hq), ?(q_only_ok o Hq) in *.
  - destruct Hc as [[Hsc Hne]|[Hsc ->]].
    + rewrite andb_true_r in Hne. apply (scalar_pair_emo x y Hst Hsc) in Hne. tauto.
    + destruct y as [[]| |]; simpl in Hst; try discriminate. simpl. tauto.
  - split; [discriminate|]. intros E. apply (scalar_pair_emo x y Hst Hsc) in E. congruence.
  - split; [discriminate|]. rewrite (same_type_false_emo x y Gx Gy Hst). discriminate.
  - discriminate.
  - assert (Hr' : rec ck sl (Lst c xs) y = Ok r) by congruence. eapply Hrec; eauto.
  - assert (Hr' : rec ck sd (Dict c kvs) y = Ok r) by congruence. eapply Hrec; eauto.
Qed.

Lemma dict_emo rec : rec_emo rec -> forall ck p c c' ka kb r, ck_empty ck ->
  dict_walk fl o rec ck p ka kb = Ok r -> good (Dict c ka) -> good (Dict c' kb) ->
  keys_ok (Dict c ka) (Dict c' kb) = true ->
  (r = [] <-> eq_mod_order (Dict c ka) (Dict c' kb) = true).
Proof.
  intros Hrec ck p c c' ka kb r Hck H Ga Gb K. unfold dict_walk in H.
  destruct (seq_res (map (dict_common fl o rec ck p kb) ka)) as [common| | |] eqn:Es; try discriminate.
  inversion H; subst; clear H.
  pose proof (seq_res_ok_forall _ _ Es) as Hall. pose proof (seq_res_nil_iff _ _ Es) as Hnil.
  simpl in K. rewrite forallb_forall in K.
  simpl. rewrite andb_true_iff, !forallb_forall.
  assert (Hpair : forall k v vb r', In (k, v) ka -> lookup k kb = Some vb ->
            dict_common fl o rec ck p kb (k, v) = Ok r' -> (r' = [] <-> eq_mod_order v vb = true)).
  { intros k v vb r' Hin Hvb Hc. unfold dict_common in Hc. simpl in Hc. rewrite Hvb, (q_excluded o Hq) in Hc.
    eapply pair_emo; eauto.
    - exact (good_dict_child c ka k v Ga Hin).
    - exact (good_lookup c' kb k vb Gb Hvb).
    - specialize (K (k, v) Hin). simpl in K. now rewrite Hvb in K. }
  split.
  - intros E. apply app_eq_nil in E. destruct E as [E1 E2]. apply app_eq_nil in E2. destruct E2 as [E2 E3].
    rewrite flat_map_nil_iff in E2, E3. apply Hnil in E1. rewrite Forall_forall in E1, Hall. split.
    + intros [k v] Hin. simpl. specialize (E2 (k, v) Hin). apply (dict_left_nil o Hq) in E2. simpl in E2.
      apply mem_key_true in E2. destruct E2 as [vb Hvb]. rewrite Hvb.
      apply (Hpair k v vb [] Hin Hvb); [|reflexivity]. apply E1, in_map. assumption.
    + intros kv Hin. apply (dict_left_nil o Hq OtherUniq p ka kv). auto.
  - intros [F1 F2]. assert (E1 : common = []).
    { apply Hnil. apply Forall_forall. intros x Hx. apply in_map_iff in Hx. destruct Hx as ([k v] & <- & Hin).
      specialize (F1 (k, v) Hin). simpl in F1.
      destruct (lookup k kb) as [vb|] eqn:Hvb; [|discriminate].
      rewrite Forall_forall in Hall.
      destruct (Hall (dict_common fl o rec ck p kb (k, v)) (in_map _ _ _ Hin)) as [r' Hr'].
      rewrite Hr'. f_equal. now apply (Hpair k v vb r' Hin Hvb Hr'). }
    rewrite E1. simpl.
    assert (E2 : flat_map (dict_left o SelfUniq p kb) ka = []).
    { apply flat_map_nil_iff. intros [k v] Hin. apply (dict_left_nil o Hq). specialize (F1 (k, v) Hin). simpl in *.
      apply mem_key_true. destruct (lookup k kb); [eauto|discriminate]. }
    assert (E3 : flat_map (dict_left o OtherUniq p ka) kb = []).
    { apply flat_map_nil_iff. intros kv Hin. apply (dict_left_nil o Hq). auto. }
    now rewrite E2, E3.
Qed.

(* ---- the unordered list walk --------------------------------------------------------------------- *)
Definition strip (l : list keyed) : list (pstr * tree) := map (fun e => (fst e, snd (snd e))) l.

Definition call (rec : pats -> steps -> tree -> tree -> res report) (ck : pats) (p : steps)
           (i : nat) (x : tree) (j : nat) (y : tree) : res report :=
  cmp_pair fl o rec PListK ck (render p) (p ++ [idx_step i j]) (p ++ [SIdx i]) (kl_sub_list p i j)
           (p ++ [idx_step i j]) x y.

Lemma find_key_strip k (l : list keyed) :
  find_rm (fun e : pstr * tree => pstr_eqb k (fst e)) (strip l) =
  match find_key k l with Some ((j, y), r) => Some ((k, y), strip r) | None => None end.
Proof.
  unfold strip. rewrite find_rm_map, find_key_find_rm. cbn [fst snd].
  match goal with |- context [find_rm ?f l] => destruct (find_rm f l) as [[[k' [j y]] r]|] eqn:E end; [|reflexivity].
  apply find_rm_some in E. destruct E as [Hk _]. cbn [fst] in Hk. apply pstr_eqb_eq in Hk. now subst.
Qed.

Lemma lk_pair_allb rec ck p Q : forall xs rem ps un rm,
  lk_loop fl o rec ck p xs rem = (ps, un, rm) ->
  Forall (fun c => exists a, c = Ok a) ps ->
  (forall k i x j y, In (k, (i, x)) xs -> In (k, (j, y)) rem ->
     forall a, call rec ck p i x j y = Ok a -> (a = [] <-> Q x y = true)) ->
  ((Forall (fun c => c = Ok []) ps /\ un = [] /\ rm = []) <-> pair_allb Q (strip xs) (strip rem) = true).
Proof.
  induction xs as [|[k [i x]] xs IH]; intros rem ps un rm H Hok Hlink.
  - simpl in H. inversion H; subst. destruct rm as [|e rm]; simpl.
    + split; auto.
    + split; [intros (_ & _ & H0); discriminate|discriminate].
  - cbn [lk_loop] in H. cbn [strip map pair_allb fst snd]. fold (strip xs). fold (strip rem).
    rewrite find_key_strip.
    destruct (find_key k rem) as [[[j y] rem']|] eqn:Ef.
    + destruct (lk_loop fl o rec ck p xs rem') as [[ps' un'] rm'] eqn:EL. inversion H; subst; clear H.
      inversion Hok as [|? ? [a Ha] Hok']; subst.
      pose proof (find_key_some _ _ _ _ Ef) as (l1 & l2 & Hrem & Hrem' & _).
      assert (Hy : In (k, (j, y)) rem) by (rewrite Hrem; apply in_or_app; right; now left).
      pose proof (Hlink k i x j y (or_introl eq_refl) Hy a Ha) as HQ.
      specialize (IH rem' ps' un rm EL Hok').
      assert (IH' : (Forall (fun c => c = Ok []) ps' /\ un = [] /\ rm = []) <-> pair_allb Q (strip xs) (strip rem') = true).
      { apply IH. intros k0 i0 x0 j0 y0 Hi Hj. apply (Hlink k0); [now right|].
        rewrite Hrem. rewrite Hrem' in Hj. apply in_app_or in Hj. apply in_or_app.
        destruct Hj; [now left|right; now right]. }
      rewrite andb_true_iff, <- IH', <- HQ. unfold call in Ha. rewrite Ha. split.
      * intros (F & -> & ->). inversion F as [|? ? Hc F']; subst. inversion Hc. auto.
      * intros (-> & F & -> & ->). auto.
    + destruct (lk_loop fl o rec ck p xs rem) as [[ps' un'] rm'] eqn:EL. inversion H; subst; clear H.
      split; [intros (_ & Hu & _); discriminate|discriminate].
Qed.

Lemma item_keys_spec prefix ck l ks :
  item_keys o prefix ck l = Ok ks ->
  forall k i x, In (k, (i, x)) ks -> In (i, x) l /\ item_key o prefix ck x = Ok k.
Proof.
  revert ks; induction l as [|[i0 x0] l IH]; intros ks H k i x Hin; simpl in H.
  - inversion H; subst. destruct Hin.
  - destruct (item_key o prefix ck x0) as [k0| | |] eqn:E0; try discriminate.
    destruct (item_keys o prefix ck l) as [ks'| | |]; try discriminate. inversion H; subst.
    destruct Hin as [Hin|Hin].
    + inversion Hin; subst. split; [now left|assumption].
    + destruct (IH ks' eq_refl k i x Hin). split; [now right|assumption].
Qed.

Lemma item_key_record prefix ck c kvs : ck_empty ck -> item_key o prefix ck (Dict c kvs) = Ok [].
Proof. intros H. unfold item_key. rewrite H. reflexivity. Qed.

Lemma item_key_nonrecord prefix ck x k : is_record x = false -> item_key o prefix ck x = Ok k -> py_str x = Some k.
Proof.
  intros Hr H. destruct x; simpl in Hr; try discriminate; unfold item_key, res_of_opt in H;
    destruct (py_str _); inversion H; reflexivity.
Qed.

Lemma strip_items (ks : list keyed) : map snd (strip ks) = map (fun e => snd (snd e)) ks.
Proof. unfold strip. now rewrite map_map. Qed.

Lemma item_keys_strip prefix ck l ks :
  item_keys o prefix ck (enum_from 0 l) = Ok ks -> map snd (strip ks) = l.
Proof.
  intros H. rewrite strip_items. apply item_keys_items in H.
  rewrite <- (map_map snd snd ks), H. clear. generalize 0. induction l as [|x l IH]; intros n; simpl; [reflexivity|]. now rewrite IH.
Qed.

Lemma list_keyed_emo rec : rec_emo rec -> forall ck p c c' xs ys r, ck_empty ck ->
  list_keyed fl o rec ck p xs ys = Ok r -> good (Lst c xs) -> good (Lst c' ys) ->
  keys_ok (Lst c xs) (Lst c' ys) = true ->
  (r = [] <-> eq_mod_order (Lst c xs) (Lst c' ys) = true).
Proof.
  intros Hrec ck p c c' xs ys r Hck H Ga Gb K. unfold list_keyed in H. rewrite (q_excluded o Hq) in H.
  destruct (item_keys o (render p) ck (enum_from 0 xs)) as [ka| | |] eqn:Ea; try discriminate.
  destruct (item_keys o (render p) ck (enum_from 0 ys)) as [kb| | |] eqn:Eb; try discriminate.
  destruct (lk_loop fl o rec ck p ka kb) as [[ps un] rm] eqn:EL.
  destruct (seq_res ps) as [paired| | |] eqn:Es; try discriminate. inversion H; subst; clear H.
  (* what the guard says about an item of xs and an item of ys *)
  simpl in K. rewrite forallb_forall in K.
  assert (KG : forall x y, In x xs -> In y ys ->
            match is_record x, is_record y with
            | true, true => keys_ok x y = true
            | false, false => exists s t, py_str x = Some s /\ py_str y = Some t /\
                                pstr_eqb s t = tree_eq x y /\ (pstr_eqb s t = true -> keys_ok x y = true)
            | true, false => nonempty_str y = true
            | false, true => nonempty_str x = true
            end).
  { intros x y Hx Hy. specialize (K x Hx). rewrite forallb_forall in K. specialize (K y Hy).
    destruct (is_record x), (is_record y); try assumption.
    destruct (py_str x) as [s|], (py_str y) as [t|]; try discriminate.
    apply andb_true_iff in K. destruct K as [K1 K2]. exists s, t. repeat split; auto.
    - apply Bool.eqb_prop in K1. exact K1.
    - intros E. rewrite E in K2. exact K2. }
  assert (Hxa : forall k i x, In (k, (i, x)) ka -> In x xs /\ item_key o (render p) ck x = Ok k).
  { intros k i x Hin. destruct (item_keys_spec _ _ _ _ Ea k i x Hin) as [H1 H2]. split; [|assumption].
    eapply enum_from_in; eauto. }
  assert (Hyb : forall k j y, In (k, (j, y)) kb -> In y ys /\ item_key o (render p) ck y = Ok k).
  { intros k j y Hin. destruct (item_keys_spec _ _ _ _ Eb k j y Hin) as [H1 H2]. split; [|assumption].
    eapply enum_from_in; eauto. }
  assert (Hrk : forall x k, is_record x = true -> item_key o (render p) ck x = Ok k -> k = []).
  { intros x k Hr Hk. destruct x; simpl in Hr; try discriminate. rewrite item_key_record in Hk by assumption. now inversion Hk. }
  (* the keyed lists satisfy keyed_ok *)
  assert (KO : keyed_ok eq_mod_order (strip ka) (strip kb)).
  { unfold strip. constructor.
    - intros k x Hin Hr. apply in_map_iff in Hin. destruct Hin as ([k0 [i x0]] & E & Hin). simpl in E. inversion E; subst.
      destruct (Hxa _ _ _ Hin) as [_ Hk]. eapply Hrk; eauto.
    - intros k y Hin Hr. apply in_map_iff in Hin. destruct Hin as ([k0 [j y0]] & E & Hin). simpl in E. inversion E; subst.
      destruct (Hyb _ _ _ Hin) as [_ Hk]. eapply Hrk; eauto.
    - intros k x k' y Hx Hy Hne. apply in_map_iff in Hx, Hy.
      destruct Hx as ([k0 [i x0]] & E & Hx). simpl in E. inversion E; subst.
      destruct Hy as ([k1 [j y0]] & E' & Hy). simpl in E'. inversion E'; subst.
      destruct (Hxa _ _ _ Hx) as [Hix Hkx]. destruct (Hyb _ _ _ Hy) as [Hiy Hky].
      pose proof (KG x y Hix Hiy) as G. intros Ek. subst k'.
      destruct (is_record x) eqn:Rx, (is_record y) eqn:Ry; try congruence.
      + pose proof (Hrk x k Rx Hkx). subst k. apply item_key_nonrecord in Hky; [|assumption].
        unfold nonempty_str in G. rewrite Hky in G. discriminate.
      + pose proof (Hrk y k Ry Hky). subst k. apply item_key_nonrecord in Hkx; [|assumption].
        unfold nonempty_str in G. rewrite Hkx in G. discriminate.
    - intros k x k' y Hx Hy Rx Ry. apply in_map_iff in Hx, Hy.
      destruct Hx as ([k0 [i x0]] & E & Hx). simpl in E. inversion E; subst.
      destruct Hy as ([k1 [j y0]] & E' & Hy). simpl in E'. inversion E'; subst.
      destruct (Hxa _ _ _ Hx) as [Hix Hkx]. destruct (Hyb _ _ _ Hy) as [Hiy Hky].
      pose proof (KG x y Hix Hiy) as G. rewrite Rx, Ry in G. destruct G as (s & t & Hs & Ht & G1 & G2).
      apply item_key_nonrecord in Hkx, Hky; try assumption. rewrite Hs in Hkx. rewrite Ht in Hky.
      inversion Hkx; inversion Hky; subst. split; [assumption|].
      intros ->. apply tree_eq_emo. rewrite <- G1. apply pstr_eqb_refl. }
  (* the calls the loop makes decide alike *)
  assert (Hlink : forall k i x j y, In (k, (i, x)) ka -> In (k, (j, y)) kb ->
            forall a, call rec ck p i x j y = Ok a -> (a = [] <-> eq_mod_order x y = true)).
  { intros k i x j y Hx Hy a Ha. destruct (Hxa _ _ _ Hx) as [Hix Hkx]. destruct (Hyb _ _ _ Hy) as [Hiy Hky].
    pose proof (KG x y Hix Hiy) as G. unfold call in Ha.
    assert (Kxy : keys_ok x y = true).
    { destruct (is_record x) eqn:Rx, (is_record y) eqn:Ry.
      - assumption.
      - exfalso. pose proof (Hrk x k Rx Hkx). subst k. apply item_key_nonrecord in Hky; [|assumption].
        unfold nonempty_str in G. rewrite Hky in G. discriminate.
      - exfalso. pose proof (Hrk y k Ry Hky). subst k. apply item_key_nonrecord in Hkx; [|assumption].
        unfold nonempty_str in G. rewrite Hkx in G. discriminate.
      - destruct G as (s & t & Hs & Ht & G1 & G2). apply item_key_nonrecord in Hkx, Hky; try assumption.
        rewrite Hs in Hkx. rewrite Ht in Hky. inversion Hkx; inversion Hky; subst. apply G2, pstr_eqb_refl. }
    eapply pair_emo; eauto.
    - exact (good_list_child c xs x Ga Hix).
    - exact (good_list_child c' ys y Gb Hiy). }
  pose proof (lk_pair_allb rec ck p eq_mod_order ka kb ps un rm EL (seq_res_ok_forall _ _ Es) Hlink) as HL.
  rewrite (pair_allb_spec eq_mod_order (strip ka) (strip kb) KO) in HL.
  rewrite (item_keys_strip _ _ _ _ Ea), (item_keys_strip _ _ _ _ Eb) in HL.
  simpl. rewrite filt_eqb_filter. rewrite <- HL. rewrite <- (seq_res_nil_iff _ _ Es). split.
  - intros E. apply app_eq_nil in E. destruct E as [E1 E2]. apply app_eq_nil in E2. destruct E2 as [E2 E3].
    apply map_eq_nil in E2, E3. auto.
  - intros (-> & -> & ->). reflexivity.
Qed.

Theorem walk_emo : forall fuel, rec_emo (walk fl o fuel MKeyed).
Proof.
  induction fuel as [|f IH]; intros ck p x y r Hck H Gx Gy K; [discriminate|].
  simpl in H. destruct x as [s|c ka|c xs], y as [s'|c' kb|c' ys]; try discriminate.
  - eapply dict_emo; eauto.
  - eapply list_keyed_emo; eauto.
Qed.
End Default.

(* the default compare: no differences iff the trees are equal up to the order of the
   non-record items inside each list, wherever str() identifies list items as their
   value does (keys_ok) *)
Theorem default_verdict fl o ck a b r :
  quiet o -> ck_empty ck -> good a -> good b -> keys_ok a b = true ->
  compare_top fl o MKeyed ck a b = Ok r -> (r = [] <-> eq_mod_order a b = true).
Proof.
  intros Hq Hck Ga Gb K H. unfold compare_top in H.
  destruct a as [|[] ka|[] xs]; try discriminate.
  - destruct b as [|[] kb|]; try discriminate. eapply (walk_emo fl o Hq); eauto.
  - destruct b as [| |[] ys]; try discriminate. eapply (walk_emo fl o Hq); eauto.
Qed.

(* ---- non-vacuity and the limits of the guard ------------------------------------------------------- *)
(* {"a":[1,"x",{"k":1},[2,3]]} vs {"a":[[2,3],{"k":1},"x",1]}: permuted non-records, one record *)
Definition dv_a : tree :=
  Dict true [([97], Lst true [Leaf (SInt 1); Leaf (SStr [120]); Dict true [([107], Leaf (SInt 1))];
                              Lst true [Leaf (SInt 2); Leaf (SInt 3)]])]%N.
Definition dv_b : tree :=
  Dict true [([97], Lst true [Lst true [Leaf (SInt 2); Leaf (SInt 3)]; Dict true [([107], Leaf (SInt 1))];
                              Leaf (SStr [120]); Leaf (SInt 1)])]%N.
(* the same with the record changed *)
Definition dv_c : tree :=
  Dict true [([97], Lst true [Lst true [Leaf (SInt 2); Leaf (SInt 3)]; Dict true [([107], Leaf (SInt 2))];
                              Leaf (SStr [120]); Leaf (SInt 1)])]%N.

Lemma default_example :
  good dv_a /\ good dv_b /\ good dv_c /\ keys_ok dv_a dv_b = true /\ keys_ok dv_a dv_c = true /\
  compare_top flags_init no_opts MKeyed (PSeq []) dv_a dv_b = Ok [] /\ eq_mod_order dv_a dv_b = true /\
  tree_eq dv_a dv_b = false /\
  (exists e, compare_top flags_init no_opts MKeyed (PSeq []) dv_a dv_c = Ok [e]) /\ eq_mod_order dv_a dv_c = false.
Proof.
  repeat split; try reflexivity. eexists. vm_compute. reflexivity.
Qed.

(* outside the guard the statement fails: [1,"1"] vs ["1",1]; ["",{..}] vs [{..},""];
   [[{"k":1,"n":2}]] vs [[{"n":2,"k":1}]] are equal up to the order of non-record items
   and reported different (known finding C07/str-keys) *)
Definition w1_a : tree := Dict true [([97], Lst true [Leaf (SInt 1); Leaf (SStr [49])])]%N.
Definition w1_b : tree := Dict true [([97], Lst true [Leaf (SStr [49]); Leaf (SInt 1)])]%N.
Definition w2_a : tree := Dict true [([97], Lst true [Leaf (SStr []); Dict true [([107], Leaf (SInt 1))]])]%N.
Definition w2_b : tree := Dict true [([97], Lst true [Dict true [([107], Leaf (SInt 1))]; Leaf (SStr [])])]%N.
Definition w3_a : tree :=
  Dict true [([97], Lst true [Lst true [Dict true [([107], Leaf (SInt 1)); ([110], Leaf (SInt 2))]]])]%N.
Definition w3_b : tree :=
  Dict true [([97], Lst true [Lst true [Dict true [([110], Leaf (SInt 2)); ([107], Leaf (SInt 1))]]])]%N.

Definition refutes (a b : tree) : Prop :=
  good a /\ good b /\ keys_ok a b = false /\ eq_mod_order a b = true /\
  exists r, compare_top flags_init no_opts MKeyed (PSeq []) a b = Ok r /\ r <> [].

Lemma direct_example :
  quiet no_opts /\ good dv_a /\ good dv_b /\ same_kind dv_a dv_b /\
  compare_top flags_init no_opts MDirect (PSeq []) dv_a dv_a = Ok [] /\ tree_eq dv_a dv_a = true /\
  (exists r, compare_top flags_init no_opts MDirect (PSeq []) dv_a dv_b = Ok r /\ length r = 4) /\
  tree_eq dv_a dv_b = false.
Proof.
  split; [apply quiet_no_opts|]. repeat split; try reflexivity. eexists. split; vm_compute; reflexivity.
Qed.
