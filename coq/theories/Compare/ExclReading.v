(* Compare/ExclReading.v — C10: for patterns without "[" and keys without "/", the
   exclusion predicate of exclude_is_filter (dictionary entries and lists on the way) is
   the dictionary-entry reading of the property (Spec.under_excl). *)
From Coq Require Import List NArith ZArith Bool Lia.
From N0 Require Import Base.PyStr Base.PyVal Compare.Util Compare.Flags Compare.Match Compare.MatchProofs
  Compare.Model Compare.Spec Compare.FilterProofs.
Import ListNotations.

(* ---- strings ----------------------------------------------------------------------------------- *)
Lemma split_chr_aux_last d s t : ~ In d t -> forall cur,
  split_chr_aux d (s ++ d :: t) cur = split_chr_aux d s cur ++ [t].
Proof.
  intros Hd. induction s as [|c s IH]; intros cur; simpl.
  - rewrite N.eqb_refl. simpl. f_equal.
    pose proof (split_chr_aux_app d t [] [] Hd) as H. rewrite app_nil_r in H. exact H.
  - destruct (N.eqb c d); [now rewrite IH|apply IH].
Qed.

Lemma split_chr_last d s t : ~ In d t -> split_chr d (s ++ d :: t) = split_chr d s ++ [t].
Proof. intros H. unfold split_chr. now apply split_chr_aux_last. Qed.

Lemma split_chr_aux_chars d s : forall cur part c,
  In part (split_chr_aux d s cur) -> In c part -> In c s \/ In c cur.
Proof.
  induction s as [|x s IH]; intros cur part c Hp Hc; simpl in Hp.
  - destruct Hp as [<-|[]]. right. now apply in_rev.
  - destruct (N.eqb x d).
    + destruct Hp as [<-|Hp].
      * right. now apply in_rev.
      * destruct (IH [] part c Hp Hc) as [H|[]]. left. now right.
    + destruct (IH (x :: cur) part c Hp Hc) as [H|[H|H]]; auto.
      * left. now right.
      * left. now left.
Qed.

Lemma split_chr_chars d s part c : In part (split_chr d s) -> In c part -> In c s.
Proof. intros Hp Hc. destruct (split_chr_aux_chars d s [] part c Hp Hc) as [H|[]]. exact H. Qed.

Lemma dec_aux_digits fuel : forall n acc,
  Forall (fun c => (48 <= c <= 57)%N) acc -> Forall (fun c => (48 <= c <= 57)%N) (dec_aux fuel n acc).
Proof.
  induction fuel as [|f IH]; intros n acc H; simpl; [assumption|].
  assert (Hd : (48 <= 48 + n mod 10 <= 57)%N).
  { assert (n mod 10 < 10)%N by (apply N.mod_upper_bound; discriminate). remember (n mod 10)%N as m. lia. }
  destruct (N.eqb (n / 10) 0); [|apply IH]; constructor; assumption.
Qed.

Lemma dec_nat_no c n : (c < 48 \/ 57 < c)%N -> ~ In c (dec_nat n).
Proof.
  intros Hc Hin. unfold dec_nat, dec_N in Hin.
  pose proof (dec_aux_digits (S (N.size_nat (N.of_nat n))) (N.of_nat n) [] (Forall_nil _)) as H.
  rewrite Forall_forall in H. specialize (H c Hin). lia.
Qed.

Definition idx_only (l : steps) : Prop := Forall is_idx l.

Lemma render_app p q : render (p ++ q) = render p ++ render q.
Proof. unfold render. now rewrite map_app, concat_app. Qed.

Lemma render_idx_noslash l : idx_only l -> ~ In slash (render l).
Proof.
  induction 1 as [|s l Hs _ IH]; [intros []|]. unfold render. simpl. fold (render l).
  intros Hin. apply in_app_or in Hin. destruct Hin as [Hin|Hin]; [|auto].
  destruct s; [contradiction| |]; simpl in Hin; unfold lbr, rbr, s_ltgt, slash in *.
  - destruct Hin as [H|Hin]; [discriminate|]. apply in_app_or in Hin.
    destruct Hin as [Hin|[H|[]]]; [|discriminate]. revert Hin. apply dec_nat_no. lia.
  - destruct Hin as [H|Hin]; [discriminate|]. apply in_app_or in Hin.
    destruct Hin as [Hin|Hin]; [revert Hin; apply dec_nat_no; lia|].
    destruct Hin as [H|[H|[H|[H|Hin]]]]; try discriminate. apply in_app_or in Hin.
    destruct Hin as [Hin|[H|[]]]; [|discriminate]. revert Hin. apply dec_nat_no. lia.
Qed.

Lemma render_idx_head s l : is_idx s -> exists t, render (s :: l) = lbr :: t.
Proof. intros H. destruct s; [contradiction| |]; unfold render; simpl; eauto. Qed.

Lemma lower_chr_lbr c : lower_chr c = lbr -> c = lbr.
Proof.
  unfold lower_chr, lbr. destruct ((65 <=? c)%N && (c <=? 90)%N) eqn:E; [|auto].
  apply andb_true_iff in E. destruct E as [E1 E2]. apply N.leb_le in E1, E2. lia.
Qed.

Lemma lower_has_lbr s : In lbr (lower s) <-> In lbr s.
Proof.
  unfold lower. rewrite in_map_iff. split.
  - intros (c & Hc & Hin). apply lower_chr_lbr in Hc. now subst.
  - intros H. exists lbr. split; [reflexivity|assumption].
Qed.

(* ---- one pattern ------------------------------------------------------------------------------- *)
Definition bracket_free (pat : pstr) : Prop := ~ In lbr pat.

Lemma match_one_list_implies_entry R k sfx pat :
  bracket_free pat -> ~ In slash k -> ~ In slash sfx -> (exists t, sfx = lbr :: t) ->
  match_one (R ++ slash :: k ++ sfx) pat = true -> match_one (R ++ slash :: k) pat = true.
Proof.
  intros Hb Hk Hs (t & ->). unfold match_one.
  rewrite (split_chr_last slash R (k ++ lbr :: t)), (split_chr_last slash R k); try assumption.
  2:{ intros Hin. apply in_app_or in Hin. destruct Hin; auto. }
  rewrite !rev_app_distr. simpl.
  assert (Hparts : forall part, In part (rev (split_chr slash pat)) -> ~ In lbr part).
  { intros part Hp Hin. apply in_rev in Hp. apply Hb. eapply split_chr_chars; eauto. }
  destruct (rev (split_chr slash pat)) as [|p1 ps]; [reflexivity|].
  destruct p1 as [|c p1]; [reflexivity|]. cbn [match_rev].
  intros H. apply andb_true_iff in H. destruct H as [H1 H2]. rewrite H2, andb_true_r.
  unfold part_ok in *. apply orb_true_iff in H1. destruct H1 as [H1|H1]; [now rewrite H1|].
  exfalso. apply pstr_eqb_eq in H1.
  apply (Hparts (c :: p1) (or_introl eq_refl)). apply lower_has_lbr. rewrite H1.
  apply lower_has_lbr. apply in_or_app. right. now left.
Qed.

Lemma xmatch_existsb x l : xmatch x l = existsb (match_one x) l.
Proof.
  unfold xmatch, xpath_match.
  assert (G : forall i, Nat.eqb (xpath_match_from i x l) 0 = negb (existsb (match_one x) l)).
  { induction l as [|p l IH]; intros i; simpl; [reflexivity|].
    destruct (match_one x p); [reflexivity|apply IH]. }
  rewrite G. apply negb_involutive.
Qed.

Lemma xmatch_list_implies_entry E q k idxs :
  Forall bracket_free E -> ~ In slash k -> idx_only idxs ->
  xmatch (render (q ++ [SKey k] ++ idxs)) E = true -> xmatch (render (q ++ [SKey k])) E = true.
Proof.
  intros Hb Hk Hi. destruct idxs as [|s idxs]; [now rewrite app_nil_r|].
  rewrite !xmatch_existsb, !existsb_exists. intros (pat & Hin & Hm). exists pat. split; [assumption|].
  rewrite Forall_forall in Hb. rewrite !render_app in *. unfold render at 2 in Hm. unfold render at 2. simpl in *.
  rewrite app_nil_r in *. inversion Hi; subst.
  apply (match_one_list_implies_entry (render q) k (render (s :: idxs)) pat); auto.
  - now apply render_idx_noslash.
  - now apply render_idx_head.
Qed.

(* ---- the two predicates ---------------------------------------------------------------------------- *)
Definition key_noslash (s : step) : Prop := match s with SKey k => ~ In slash k | _ => True end.

Section Reading.
Variable E : list pstr.
Hypothesis HE : Forall bracket_free E.

Definition inv (pre : steps) (lk : bool) : Prop :=
  exists q k idxs, pre = q ++ [SKey k] ++ idxs /\ idx_only idxs /\ ~ In slash k /\
                   lk = xmatch (render (q ++ [SKey k])) E.

Lemma reading_below : forall rest pre lk,
  inv pre lk -> Forall key_noslash rest ->
  lk || excl_hit E pre rest = lk || under_excl_from E pre rest.
Proof.
  induction rest as [|s r IH]; intros pre lk Hinv Hks; [reflexivity|].
  inversion Hks as [|? ? Hs Hr]; subst. destruct Hinv as (q & k & idxs & Hpre & Hi & Hk & Hlk).
  destruct s as [k'|i|i j]; cbn [excl_hit under_excl_from].
  - set (c := xmatch (render (pre ++ [SKey k'])) E).
    assert (Hc : inv (pre ++ [SKey k']) c).
    { exists pre, k', []. repeat split; auto. constructor. }
    specialize (IH (pre ++ [SKey k']) c Hc Hr). fold c.
    destruct lk; [reflexivity|]. simpl. exact IH.
  - assert (Hc : inv (pre ++ [SIdx i]) lk).
    { exists q, k, (idxs ++ [SIdx i]). repeat split; auto.
      - rewrite Hpre. now rewrite <- !app_assoc.
      - apply Forall_app. split; [assumption|repeat constructor]. }
    specialize (IH (pre ++ [SIdx i]) lk Hc Hr).
    destruct (xmatch (render pre) E) eqn:Ex.
    + rewrite Hpre in Ex. rewrite (xmatch_list_implies_entry E q k idxs HE Hk Hi Ex) in Hlk. subst lk. reflexivity.
    + simpl. exact IH.
  - assert (Hc : inv (pre ++ [SIdx2 i j]) lk).
    { exists q, k, (idxs ++ [SIdx2 i j]). repeat split; auto.
      - rewrite Hpre. now rewrite <- !app_assoc.
      - apply Forall_app. split; [assumption|repeat constructor]. }
    specialize (IH (pre ++ [SIdx2 i j]) lk Hc Hr).
    destruct (xmatch (render pre) E) eqn:Ex.
    + rewrite Hpre in Ex. rewrite (xmatch_list_implies_entry E q k idxs HE Hk Hi Ex) in Hlk. subst lk. reflexivity.
    + simpl. exact IH.
Qed.

(* an xpath below a dictionary root: first step a key *)
Theorem excl_reading k rest :
  Forall key_noslash (SKey k :: rest) ->
  excl_hit E [] (SKey k :: rest) = under_excl E (SKey k :: rest).
Proof.
  intros H. inversion H as [|? ? Hk Hr]; subst. unfold under_excl. cbn [excl_hit under_excl_from app].
  apply reading_below; [|assumption]. exists [], k, []. repeat split; auto. constructor.
Qed.
End Reading.
