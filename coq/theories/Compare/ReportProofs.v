(* Compare/ReportProofs.v — C09: the reports are faithful to the operands. *)
From Coq Require Import List NArith ZArith Bool Lia.
From N0 Require Import Base.PyStr Base.PyVal Compare.Util Compare.Flags Compare.Match Compare.Model
  Compare.Spec Compare.WalkLemmas Compare.VerdictProofs.
Import ListNotations.

(* no list directly inside a list: the unordered walk hands a list item the
   prefix of line 548 (empty, or "[j]<>[j]"), not an extension of its own *)
Definition is_list (t : tree) : bool := match t with Lst _ _ => true | _ => false end.
Fixpoint nll (t : tree) : bool :=
  match t with
  | Leaf _ => true
  | Dict _ kvs => forallb (fun kv => nll (snd kv)) kvs
  | Lst _ xs => forallb (fun x => negb (is_list x) && nll x) xs
  end.

(* the guard of the theorems about the unordered walk *)
Definition walk_guard (m : mode) (a : tree) : Prop := m = MKeyed -> nll a = true.

Lemma guard_dict_child m c kvs k v : walk_guard m (Dict c kvs) -> In (k, v) kvs -> walk_guard m v.
Proof. intros G Hin E. specialize (G E). simpl in G. rewrite forallb_forall in G. apply (G (k, v) Hin). Qed.

Lemma guard_list_child m c xs x : walk_guard m (Lst c xs) -> In x xs -> walk_guard m x.
Proof.
  intros G Hin E. specialize (G E). simpl in G. rewrite forallb_forall in G.
  specialize (G x Hin). now apply andb_true_iff in G.
Qed.

Lemma guard_keyed_item c xs x : walk_guard MKeyed (Lst c xs) -> In x xs -> is_list x = false.
Proof.
  intros G Hin. specialize (G eq_refl). simpl in G. rewrite forallb_forall in G.
  specialize (G x Hin). apply andb_true_iff in G. now apply negb_true_iff.
Qed.

(* ---- every entry's xpath extends the prefix of the walk that produced it ------------------ *)
Definition extends (p : steps) (e : entry) : Prop := exists rest, e_steps e = p ++ rest /\ rest <> [].

Lemma extends_step p s e : extends (p ++ [s]) e -> extends p e.
Proof.
  intros (rest & H & _). exists (s :: rest). rewrite H, <- app_assoc. split; [reflexivity|discriminate].
Qed.

Lemma extends_here p s e : e_steps e = p ++ [s] -> extends p e.
Proof. intros H. exists [s]. split; [assumption|discriminate]. Qed.

Section Extend.
Variables (fl : flags) (o : opts).

Definition rec_ext (m : mode) (rec : pats -> steps -> tree -> tree -> res report) : Prop :=
  forall ck q x y r, rec ck q x y = Ok r -> walk_guard m x -> Forall (extends q) r.

Lemma mk_diff_steps pd p x y : e_steps (mk_diff fl pd p x y) = pd \/ e_steps (mk_diff fl pd p x y) = p.
Proof. unfold mk_diff. destruct (f_types fl); simpl; auto. Qed.

Lemma pair_ext m rec par ck tp p0 s1 s2 sl x y r :
  rec_ext m rec -> walk_guard m x -> (par = PListK -> m = MKeyed /\ is_list x = false) ->
  cmp_pair fl o rec par ck tp (p0 ++ [s1]) (p0 ++ [s2]) sl (p0 ++ [s1]) x y = Ok r ->
  (par <> PListK -> sl = p0 ++ [s1]) ->
  Forall (extends p0) r.
Proof.
  intros Hrec G Hk H Hsl.
  pose proof (cmp_pair_outcome fl o rec par ck tp (p0 ++ [s1]) (p0 ++ [s2]) sl (p0 ++ [s1]) x y) as O.
  rewrite H in O.
  inversion O as [| | | |c xs Hst Hsc Hx Hc Hr|c kvs Hst Hsc Hx Hc Hr|]; subst.
  - constructor.
  - constructor; [|constructor]. now apply (extends_here p0 s1).
  - constructor; [|constructor]. destruct (mk_diff_steps (p0 ++ [s2]) (p0 ++ [s1]) x y) as [E|E].
    + now apply (extends_here p0 s2).
    + now apply (extends_here p0 s1).
  - constructor.
  - assert (Hr' : rec ck sl (Lst c xs) y = Ok r) by congruence.
    destruct par.
    + rewrite Hsl in Hr' by discriminate. apply Hrec in Hr'; auto.
      eapply Forall_impl; [|exact (Hr' G)]. intros e. apply extends_step.
    + rewrite Hsl in Hr' by discriminate. apply Hrec in Hr'; auto.
      eapply Forall_impl; [|exact (Hr' G)]. intros e. apply extends_step.
    + destruct (Hk eq_refl) as [_ Hl]. discriminate.
  - assert (Hr' : rec ck (p0 ++ [s1]) (Dict c kvs) y = Ok r) by congruence.
    apply Hrec in Hr'; auto.
    eapply Forall_impl; [|exact (Hr' G)]. intros e. apply extends_step.
Qed.

Lemma dict_left_ext mk p others kv :
  (forall q v, e_steps (mk q v) = q) -> Forall (extends p) (dict_left o mk p others kv).
Proof.
  intros Hmk. unfold dict_left. destruct (mem_key _ _); [constructor|].
  destruct (_ && _); [|constructor]. constructor; [|constructor].
  apply (extends_here p (SKey (fst kv))). apply Hmk.
Qed.

Lemma Forall_flat_map {A B} (P : B -> Prop) (f : A -> list B) l :
  (forall x, In x l -> Forall P (f x)) -> Forall P (flat_map f l).
Proof.
  intros H. induction l as [|x l IH]; simpl; [constructor|].
  apply Forall_app. split; [apply H; now left|apply IH; intros; apply H; now right].
Qed.

Lemma dict_ext m rec : rec_ext m rec -> forall ck p c ka kb r,
  dict_walk fl o rec ck p ka kb = Ok r -> walk_guard m (Dict c ka) -> Forall (extends p) r.
Proof.
  intros Hrec ck p c ka kb r H G. unfold dict_walk in H.
  destruct (seq_res (map (dict_common fl o rec ck p kb) ka)) as [common| | |] eqn:Es; try discriminate.
  inversion H; subst; clear H. apply Forall_app. split; [|apply Forall_app; split].
  - eapply seq_res_forall; [exact Es|]. intros a Ha. apply in_map_iff in Ha.
    destruct Ha as ([k v] & Hc & Hin). unfold dict_common in Hc. simpl in Hc.
    destruct (lookup k kb) as [vb|]; [|inversion Hc; constructor].
    destruct (excluded o _); [inversion Hc; constructor|].
    refine (pair_ext m rec PDict ck _ p (SKey k) (SKey k) _ v vb a Hrec _ _ Hc _); try discriminate; auto.
    exact (guard_dict_child m c ka k v G Hin).
  - apply Forall_flat_map. intros kv _. now apply dict_left_ext.
  - apply Forall_flat_map. intros kv _. now apply dict_left_ext.
Qed.

Lemma ld_ext rec : rec_ext MDirect rec -> forall ck p xs ys i r,
  seq_res (ld_loop fl o rec ck p i xs ys) = Ok r -> Forall (extends p) r.
Proof.
  intros Hrec ck p xs. induction xs as [|x xs IH]; intros ys i r H.
  - simpl in H. inversion H; subst. apply Forall_forall. intros e He. rewrite app_nil_r in He.
    apply in_map_iff in He. destruct He as ([j y] & <- & _). now apply (extends_here p (SIdx j)).
  - destruct ys as [|y ys]; cbn [ld_loop] in H; apply seq_res_cons_ok in H; destruct H as (a & b & Ha & Hb & ->);
      apply Forall_app; split.
    + inversion Ha; subst. constructor; [|constructor]. now apply (extends_here p (SIdx i)).
    + exact (IH _ _ _ Hb).
    + refine (pair_ext MDirect rec PListD ck _ p (SIdx i) (SIdx i) _ x y a Hrec _ _ Ha _); try discriminate; auto.
    + exact (IH _ _ _ Hb).
Qed.

Lemma lk_ext rec ck p : rec_ext MKeyed rec -> forall xs rem,
  (forall k i x, In (k, (i, x)) xs -> walk_guard MKeyed x /\ is_list x = false) ->
  forall a, In (Ok a) (fst (fst (lk_loop fl o rec ck p xs rem))) -> Forall (extends p) a.
Proof.
  intros Hrec. induction xs as [|[k [i x]] xs IH]; intros rem Hg a Ha; simpl in Ha; [destruct Ha|].
  destruct (find_key k rem) as [[[j y] rem']|].
  - specialize (IH rem' (fun k0 i0 x0 H => Hg k0 i0 x0 (or_intror H)) a).
    destruct (lk_loop fl o rec ck p xs rem') as [[ps un] rm]. simpl in *.
    destruct Ha as [Ha|Ha]; [|auto].
    destruct (Hg k i x (or_introl eq_refl)) as [G Hl].
    refine (pair_ext MKeyed rec PListK ck _ p (idx_step i j) (SIdx i) _ x y a Hrec G _ Ha _); auto. congruence.
  - specialize (IH rem (fun k0 i0 x0 H => Hg k0 i0 x0 (or_intror H)) a).
    destruct (lk_loop fl o rec ck p xs rem) as [[ps un] rm]. simpl in *. auto.
Qed.

Lemma list_keyed_ext rec : rec_ext MKeyed rec -> forall ck p c xs ys r,
  list_keyed fl o rec ck p xs ys = Ok r -> walk_guard MKeyed (Lst c xs) -> Forall (extends p) r.
Proof.
  intros Hrec ck p c xs ys r H G. unfold list_keyed in H.
  destruct (excluded o p); [inversion H; constructor|].
  destruct (item_keys o (render p) ck (enum_from 0 xs)) as [ka| | |] eqn:Ea; try discriminate.
  destruct (item_keys o (render p) ck (enum_from 0 ys)) as [kb| | |] eqn:Eb; try discriminate.
  pose proof (lk_ext rec ck p Hrec ka kb) as HL.
  destruct (lk_loop fl o rec ck p ka kb) as [[ps un] rm]. simpl in HL.
  destruct (seq_res ps) as [paired| | |] eqn:Es; try discriminate.
  inversion H; subst; clear H. apply Forall_app. split; [|apply Forall_app; split].
  - eapply seq_res_forall; [exact Es|]. apply HL. intros k i x Hin.
    apply item_keys_items in Ea. assert (Hx : In x xs).
    { eapply (enum_from_in xs 0 i). rewrite <- Ea. apply in_map_iff. exists (k, (i, x)). auto. }
    split; [eapply guard_list_child; eauto|eapply guard_keyed_item; eauto].
  - apply Forall_forall. intros e He. apply in_map_iff in He. destruct He as ([i x] & <- & _).
    now apply (extends_here p (SIdx i)).
  - apply Forall_forall. intros e He. apply in_map_iff in He. destruct He as ([k [j y]] & <- & _).
    now apply (extends_here p (SIdx j)).
Qed.

Theorem walk_ext : forall fuel m, rec_ext m (walk fl o fuel m).
Proof.
  intros fuel m ck q x y r H.
  refine (walk_ind fl o (fun m ck p a b r => walk_guard m a -> Forall (extends p) r) _ _ _ fuel m ck q x y r H).
  - intros m' rec Hrec ck' p c c' ka kb r' H' G. eapply dict_ext; eauto.
  - intros rec Hrec ck' p c c' xs ys r' H' G. unfold list_direct in H'.
    destruct (excluded o p); [inversion H'; constructor|]. eapply ld_ext; eauto.
  - intros rec Hrec ck' p c c' xs ys r' H' G. eapply list_keyed_ext; eauto.
Qed.
End Extend.

(* ---- every entry is true of the operands --------------------------------------------------- *)
(* absence on the other side is claimed for dictionary keys, and for list items
   of the ordered walk (an item of the unordered walk has no partner: C08) *)
Definition entry_ok (m : mode) (ra rb : tree) (e : entry) : Prop :=
  match e with
  | NotEq q l r => resolve ra (lefts q) = Some l /\ resolve rb (rights q) = Some r /\ tree_eq l r = false
  | DiffType q l r => resolve ra (lefts q) = Some l /\ tree_eq l r = false /\
                      (m = MDirect -> resolve rb (rights q) = Some r)
  | SelfUniq q v => resolve ra (lefts q) = Some v /\
                    (m = MDirect \/ ends_with_index q = false -> resolve rb (rights q) = None)
  | OtherUniq q v => resolve rb (rights q) = Some v /\
                     (m = MDirect \/ ends_with_index q = false -> resolve ra (lefts q) = None)
  end.

Lemma lefts_app p q : lefts (p ++ q) = lefts p ++ lefts q.
Proof. apply map_app. Qed.
Lemma rights_app p q : rights (p ++ q) = rights p ++ rights q.
Proof. apply map_app. Qed.

Lemma lefts_snoc p s : lefts (p ++ [s]) = lefts p ++ [left_step s].
Proof. unfold lefts. now rewrite map_app. Qed.
Lemma rights_snoc p s : rights (p ++ [s]) = rights p ++ [right_step s].
Proof. unfold rights. now rewrite map_app. Qed.

Lemma wf_dict_child c kvs k v : wf (Dict c kvs) -> In (k, v) kvs -> wf v /\ lookup k kvs = Some v.
Proof.
  intros [Hnd Hall] Hin. split; [|now apply lookup_in_nodup].
  clear Hnd. induction kvs as [|[k' v'] r IH]; [destruct Hin|]. destruct Hall as [Hv Hr].
  destruct Hin as [Hin|Hin]; [inversion Hin; now subst|auto].
Qed.

Lemma wf_lookup c kvs k v : wf (Dict c kvs) -> lookup k kvs = Some v -> wf v.
Proof.
  intros W H. apply lookup_In in H. destruct H as (k' & Hin & _). now apply (wf_dict_child c kvs k' v W Hin).
Qed.

Lemma wf_list_child c xs v : wf (Lst c xs) -> In v xs -> wf v.
Proof.
  simpl. induction xs as [|x r IH]; intros W Hin; [destruct Hin|]. destruct W as [Hx Hr].
  destruct Hin as [->|Hin]; auto.
Qed.

Lemma resolve_snoc t p s u :
  resolve t p = Some u -> resolve t (p ++ [s]) = resolve u [s].
Proof. intros H. now rewrite resolve_app, H. Qed.

Lemma ends_with_index_snoc p s :
  ends_with_index (p ++ [s]) = match s with SKey _ => false | _ => true end.
Proof. unfold ends_with_index. rewrite rev_app_distr. simpl. destruct s; reflexivity. Qed.

Lemma good_resolve_key c kvs k v : good (Dict c kvs) -> resolve (Dict c kvs) [PKey k] = Some v -> good v.
Proof. simpl. intros G H. destruct (lookup k kvs) eqn:E; inversion H; subst. eapply good_lookup; eauto. Qed.

Lemma nth_error_good c xs i v : good (Lst c xs) -> nth_error xs i = Some v -> good v.
Proof. intros G H. apply nth_error_In in H. eapply good_list_child; eauto. Qed.

Section Faithful.
Variables (fl : flags) (o : opts).
Hypothesis Hq : quiet o.
Variables (ra rb : tree).

Definition rec_faithful (m : mode) (rec : pats -> steps -> tree -> tree -> res report) : Prop :=
  forall ck q x y r, rec ck q x y = Ok r ->
    resolve ra (lefts q) = Some x -> resolve rb (rights q) = Some y ->
    good x -> good y -> wf x -> wf y -> walk_guard m x ->
    Forall (entry_ok m ra rb) r.

Lemma pair_faithful m rec par ck tp p0 s1 s2 sl x y r :
  rec_faithful m rec ->
  resolve ra (lefts (p0 ++ [s1])) = Some x -> resolve rb (rights (p0 ++ [s1])) = Some y ->
  left_step s2 = left_step s1 -> (m = MDirect -> s2 = s1) ->
  good x -> good y -> wf x -> wf y -> walk_guard m x -> (par = PListK -> m = MKeyed /\ is_list x = false) ->
  (par <> PListK -> sl = p0 ++ [s1]) ->
  cmp_pair fl o rec par ck tp (p0 ++ [s1]) (p0 ++ [s2]) sl (p0 ++ [s1]) x y = Ok r ->
  Forall (entry_ok m ra rb) r.
Proof.
  intros Hrec Hl Hr Hs Hm Gx Gy Wx Wy G Hk Hsl H.
  assert (Hl2 : resolve ra (lefts (p0 ++ [s2])) = Some x).
  { rewrite lefts_snoc in *. now rewrite Hs. }
  pose proof (cmp_pair_outcome fl o rec par ck tp (p0 ++ [s1]) (p0 ++ [s2]) sl (p0 ++ [s1]) x y) as O.
  rewrite H in O.
  inversion O as [|Hst Hsc Hne _|Hst _| |c xs Hst Hsc Hx Hc Hr'|c kvs Hst Hsc Hx Hc Hr'|]; subst;
    rewrite ?(q_transformed o Hq) in *.
  - constructor.
  - constructor; [|constructor]. simpl. repeat split; auto.
    destruct (tree_eq x y) eqn:E; [|reflexivity]. apply (scalar_pair_verdict x y Hst Hsc) in E. congruence.
  - constructor; [|constructor]. pose proof (same_type_false_neq x y Gx Gy Hst) as Hne.
    unfold mk_diff. destruct (f_types fl); simpl; repeat split; auto.
    intros E. now rewrite (Hm E).
  - constructor.
  - assert (Hr2 : rec ck sl (Lst c xs) y = Ok r) by congruence.
    destruct par.
    + rewrite Hsl in Hr2 by discriminate. eapply Hrec; eauto.
    + rewrite Hsl in Hr2 by discriminate. eapply Hrec; eauto.
    + destruct (Hk eq_refl) as [_ Hli]. discriminate.
  - assert (Hr2 : rec ck (p0 ++ [s1]) (Dict c kvs) y = Ok r) by congruence.
    eapply Hrec; eauto.
Qed.

Lemma dict_left_faithful_self m p c c' ka kb kv :
  resolve ra (lefts p) = Some (Dict c ka) -> resolve rb (rights p) = Some (Dict c' kb) ->
  wf (Dict c ka) -> In kv ka ->
  Forall (entry_ok m ra rb) (dict_left o SelfUniq p kb kv).
Proof.
  intros Ha Hb W Hin. unfold dict_left. destruct (mem_key (fst kv) kb) eqn:Em; [constructor|].
  destruct (_ && _); [|constructor]. constructor; [|constructor]. destruct kv as [k v]. simpl in *.
  destruct (wf_dict_child c ka k v W Hin) as [_ Hv]. split.
  - rewrite lefts_snoc, (resolve_snoc _ _ _ _ Ha). simpl. now rewrite Hv.
  - intros _. rewrite rights_snoc, (resolve_snoc _ _ _ _ Hb). simpl.
    apply mem_key_false in Em. now rewrite Em.
Qed.

Lemma dict_left_faithful_other m p c c' ka kb kv :
  resolve ra (lefts p) = Some (Dict c ka) -> resolve rb (rights p) = Some (Dict c' kb) ->
  wf (Dict c' kb) -> In kv kb ->
  Forall (entry_ok m ra rb) (dict_left o OtherUniq p ka kv).
Proof.
  intros Ha Hb W Hin. unfold dict_left. destruct (mem_key (fst kv) ka) eqn:Em; [constructor|].
  destruct (_ && _); [|constructor]. constructor; [|constructor]. destruct kv as [k v]. simpl in *.
  destruct (wf_dict_child c' kb k v W Hin) as [_ Hv]. split.
  - rewrite rights_snoc, (resolve_snoc _ _ _ _ Hb). simpl. now rewrite Hv.
  - intros _. rewrite lefts_snoc, (resolve_snoc _ _ _ _ Ha). simpl.
    apply mem_key_false in Em. now rewrite Em.
Qed.

Lemma dict_faithful m rec : rec_faithful m rec -> forall ck p c c' ka kb r,
  dict_walk fl o rec ck p ka kb = Ok r ->
  resolve ra (lefts p) = Some (Dict c ka) -> resolve rb (rights p) = Some (Dict c' kb) ->
  good (Dict c ka) -> good (Dict c' kb) -> wf (Dict c ka) -> wf (Dict c' kb) -> walk_guard m (Dict c ka) ->
  Forall (entry_ok m ra rb) r.
Proof.
  intros Hrec ck p c c' ka kb r H Ha Hb Ga Gb Wa Wb G. unfold dict_walk in H.
  destruct (seq_res (map (dict_common fl o rec ck p kb) ka)) as [common| | |] eqn:Es; try discriminate.
  inversion H; subst; clear H. apply Forall_app. split; [|apply Forall_app; split].
  - eapply seq_res_forall; [exact Es|]. intros a Hin. apply in_map_iff in Hin.
    destruct Hin as ([k v] & Hc & Hin). unfold dict_common in Hc. simpl in Hc.
    destruct (lookup k kb) as [vb|] eqn:Hvb; [|inversion Hc; constructor].
    rewrite (q_excluded o Hq) in Hc.
    destruct (wf_dict_child c ka k v Wa Hin) as [Wv Hv].
    refine (pair_faithful m rec PDict ck _ p (SKey k) (SKey k) _ v vb a Hrec _ _ eq_refl (fun _ => eq_refl)
              _ _ Wv _ _ _ _ Hc); try discriminate; auto.
    + rewrite lefts_snoc, (resolve_snoc _ _ _ _ Ha). simpl. now rewrite Hv.
    + rewrite rights_snoc, (resolve_snoc _ _ _ _ Hb). simpl. now rewrite Hvb.
    + exact (good_dict_child c ka k v Ga Hin).
    + exact (good_lookup c' kb k vb Gb Hvb).
    + exact (wf_lookup c' kb k vb Wb Hvb).
    + exact (guard_dict_child m c ka k v G Hin).
  - apply Forall_flat_map. intros kv Hin. eapply dict_left_faithful_self; eauto.
  - apply Forall_flat_map. intros kv Hin. eapply dict_left_faithful_other; eauto.
Qed.

Lemma enum_from_nth {A} (l : list A) : forall i j y,
  In (j, y) (enum_from i l) <-> exists n, j = i + n /\ nth_error l n = Some y.
Proof.
  induction l as [|x l IH]; intros i j y; simpl.
  - split; [tauto|]. intros (n & _ & H). destruct n; discriminate.
  - rewrite IH. split.
    + intros [H|(n & -> & H)].
      * inversion H; subst. exists 0. split; [lia|reflexivity].
      * exists (S n). split; [lia|assumption].
    + intros ([|n] & -> & H); simpl in H.
      * left. inversion H. f_equal. lia.
      * right. exists n. split; [lia|assumption].
Qed.

Lemma ld_faithful rec : rec_faithful MDirect rec -> forall ck p c c' XS YS,
  resolve ra (lefts p) = Some (Lst c XS) -> resolve rb (rights p) = Some (Lst c' YS) ->
  good (Lst c XS) -> good (Lst c' YS) -> wf (Lst c XS) -> wf (Lst c' YS) ->
  forall xs ys i r,
  (forall n, nth_error xs n = nth_error XS (i + n)) -> (forall n, nth_error ys n = nth_error YS (i + n)) ->
  seq_res (ld_loop fl o rec ck p i xs ys) = Ok r -> Forall (entry_ok MDirect ra rb) r.
Proof.
  intros Hrec ck p c c' XS YS Ha Hb Ga Gb Wa Wb xs.
  induction xs as [|x xs IH]; intros ys i r Hxs Hys H.
  - simpl in H. inversion H; subst. rewrite app_nil_r. apply Forall_forall. intros e He.
    apply in_map_iff in He. destruct He as ([j y] & <- & Hj). apply enum_from_nth in Hj.
    destruct Hj as (n & -> & Hn). simpl. split.
    + rewrite rights_snoc, (resolve_snoc _ _ _ _ Hb). simpl. rewrite <- Hys, Hn. reflexivity.
    + intros _. rewrite lefts_snoc, (resolve_snoc _ _ _ _ Ha). simpl. rewrite <- Hxs. now destruct n.
  - assert (Hx : nth_error XS i = Some x) by (rewrite <- (Nat.add_0_r i), <- Hxs; reflexivity).
    assert (Hxs' : forall n, nth_error xs n = nth_error XS (S i + n)).
    { intros n. replace (S i + n) with (i + S n) by lia. rewrite <- Hxs. reflexivity. }
    destruct ys as [|y ys]; cbn [ld_loop] in H; apply seq_res_cons_ok in H; destruct H as (a & b & Hpa & Hpb & ->);
      apply Forall_app; split.
    + inversion Hpa; subst. constructor; [|constructor]. simpl. split.
      * rewrite lefts_snoc, (resolve_snoc _ _ _ _ Ha). simpl. now rewrite Hx.
      * intros _. rewrite rights_snoc, (resolve_snoc _ _ _ _ Hb). simpl.
        rewrite <- (Nat.add_0_r i), <- Hys. reflexivity.
    + apply (IH [] (S i) b Hxs'); [|assumption]. intros n.
      replace (S i + n) with (i + S n) by lia. rewrite <- Hys. now destruct n.
    + assert (Hy : nth_error YS i = Some y) by (rewrite <- (Nat.add_0_r i), <- Hys; reflexivity).
      refine (pair_faithful MDirect rec PListD ck _ p (SIdx i) (SIdx i) _ x y a Hrec _ _ eq_refl (fun _ => eq_refl)
                _ _ _ _ _ _ _ Hpa); try discriminate; auto.
      * rewrite lefts_snoc, (resolve_snoc _ _ _ _ Ha). simpl. now rewrite Hx.
      * rewrite rights_snoc, (resolve_snoc _ _ _ _ Hb). simpl. now rewrite Hy.
      * exact (nth_error_good c XS i x Ga Hx).
      * exact (nth_error_good c' YS i y Gb Hy).
      * exact (wf_list_child c XS x Wa (nth_error_In _ _ Hx)).
      * exact (wf_list_child c' YS y Wb (nth_error_In _ _ Hy)).
    + apply (IH ys (S i) b Hxs'); [|assumption]. intros n.
      replace (S i + n) with (i + S n) by lia. rewrite <- Hys. reflexivity.
Qed.

Lemma left_idx_step i j : left_step (idx_step i j) = PIdx i.
Proof. unfold idx_step. destruct (Nat.eqb i j); reflexivity. Qed.
Lemma right_idx_step i j : right_step (idx_step i j) = PIdx j.
Proof. unfold idx_step. destruct (Nat.eqb i j) eqn:E; [apply Nat.eqb_eq in E; now subst|reflexivity]. Qed.

Lemma lk_faithful rec ck p c c' XS YS : rec_faithful MKeyed rec ->
  resolve ra (lefts p) = Some (Lst c XS) -> resolve rb (rights p) = Some (Lst c' YS) ->
  good (Lst c XS) -> good (Lst c' YS) -> wf (Lst c XS) -> wf (Lst c' YS) -> walk_guard MKeyed (Lst c XS) ->
  forall xs rem,
  (forall k i x, In (k, (i, x)) xs -> nth_error XS i = Some x) ->
  (forall k j y, In (k, (j, y)) rem -> nth_error YS j = Some y) ->
  let '(ps, un, rm) := lk_loop fl o rec ck p xs rem in
  (forall a, In (Ok a) ps -> Forall (entry_ok MKeyed ra rb) a) /\
  (forall i x, In (i, x) un -> nth_error XS i = Some x) /\
  (forall k j y, In (k, (j, y)) rm -> nth_error YS j = Some y).
Proof.
  intros Hrec Ha Hb Ga Gb Wa Wb G. induction xs as [|[k [i x]] xs IH]; intros rem Hxs Hrem; simpl.
  - repeat split; auto; intros; contradiction.
  - destruct (find_key k rem) as [[[j y] rem']|] eqn:Ef.
    + apply find_key_some in Ef. destruct Ef as (l1 & l2 & -> & -> & _).
      assert (Hrem' : forall k0 j0 y0, In (k0, (j0, y0)) (l1 ++ l2) -> nth_error YS j0 = Some y0).
      { intros k0 j0 y0 Hin. apply (Hrem k0). apply in_app_or in Hin. apply in_or_app.
        destruct Hin; [now left|right; now right]. }
      specialize (IH (l1 ++ l2) (fun k0 i0 x0 H => Hxs k0 i0 x0 (or_intror H)) Hrem').
      destruct (lk_loop fl o rec ck p xs (l1 ++ l2)) as [[ps un] rm].
      destruct IH as (I1 & I2 & I3). repeat split; auto.
      intros a [Hpa|Hpa]; [|auto].
      assert (Hx : nth_error XS i = Some x) by (apply (Hxs k); now left).
      assert (Hy : nth_error YS j = Some y) by (apply (Hrem k); apply in_or_app; right; now left).
      refine (pair_faithful MKeyed rec PListK ck _ p (idx_step i j) (SIdx i) _ x y a Hrec _ _ _ _
                _ _ _ _ _ _ _ Hpa); auto; try congruence.
      * rewrite lefts_snoc, (resolve_snoc _ _ _ _ Ha), left_idx_step. simpl. now rewrite Hx.
      * rewrite rights_snoc, (resolve_snoc _ _ _ _ Hb), right_idx_step. simpl. now rewrite Hy.
      * now rewrite left_idx_step.
      * exact (nth_error_good c XS i x Ga Hx).
      * exact (nth_error_good c' YS j y Gb Hy).
      * exact (wf_list_child c XS x Wa (nth_error_In _ _ Hx)).
      * exact (wf_list_child c' YS y Wb (nth_error_In _ _ Hy)).
      * exact (guard_list_child MKeyed c XS x G (nth_error_In _ _ Hx)).
      * intros _. split; [reflexivity|]. exact (guard_keyed_item c XS x G (nth_error_In _ _ Hx)).
    + specialize (IH rem (fun k0 i0 x0 H => Hxs k0 i0 x0 (or_intror H)) Hrem).
      destruct (lk_loop fl o rec ck p xs rem) as [[ps un] rm].
      destruct IH as (I1 & I2 & I3). repeat split; auto.
      intros i0 x0 [Hin|Hin]; [inversion Hin; subst; apply (Hxs k); now left|auto].
Qed.

Lemma item_keys_nth prefix ck l ks XS :
  item_keys o prefix ck (enum_from 0 XS) = Ok ks -> l = ks ->
  forall k i x, In (k, (i, x)) ks -> nth_error XS i = Some x.
Proof.
  intros H _ k i x Hin. apply item_keys_items in H.
  assert (Hi : In (i, x) (enum_from 0 XS)) by (rewrite <- H; apply in_map_iff; exists (k, (i, x)); auto).
  apply enum_from_nth in Hi. destruct Hi as (n & -> & Hn). exact Hn.
Qed.

Lemma list_keyed_faithful rec : rec_faithful MKeyed rec -> forall ck p c c' XS YS r,
  list_keyed fl o rec ck p XS YS = Ok r ->
  resolve ra (lefts p) = Some (Lst c XS) -> resolve rb (rights p) = Some (Lst c' YS) ->
  good (Lst c XS) -> good (Lst c' YS) -> wf (Lst c XS) -> wf (Lst c' YS) -> walk_guard MKeyed (Lst c XS) ->
  Forall (entry_ok MKeyed ra rb) r.
Proof.
  intros Hrec ck p c c' XS YS r H Ha Hb Ga Gb Wa Wb G. unfold list_keyed in H.
  rewrite (q_excluded o Hq) in H.
  destruct (item_keys o (render p) ck (enum_from 0 XS)) as [ka| | |] eqn:Ea; try discriminate.
  destruct (item_keys o (render p) ck (enum_from 0 YS)) as [kb| | |] eqn:Eb; try discriminate.
  pose proof (lk_faithful rec ck p c c' XS YS Hrec Ha Hb Ga Gb Wa Wb G ka kb
                (item_keys_nth _ _ ka ka XS Ea eq_refl) (item_keys_nth _ _ kb kb YS Eb eq_refl)) as HL.
  destruct (lk_loop fl o rec ck p ka kb) as [[ps un] rm]. destruct HL as (I1 & I2 & I3).
  destruct (seq_res ps) as [paired| | |] eqn:Es; try discriminate.
  inversion H; subst; clear H. apply Forall_app. split; [|apply Forall_app; split].
  - eapply seq_res_forall; eauto.
  - apply Forall_forall. intros e He. apply in_map_iff in He. destruct He as ([i x] & <- & Hin).
    simpl. split.
    + rewrite lefts_snoc, (resolve_snoc _ _ _ _ Ha). simpl. now rewrite (I2 i x Hin).
    + rewrite ends_with_index_snoc. intros [E|E]; discriminate.
  - apply Forall_forall. intros e He. apply in_map_iff in He. destruct He as ([k [j y]] & <- & Hin).
    simpl. split.
    + rewrite rights_snoc, (resolve_snoc _ _ _ _ Hb). simpl. now rewrite (I3 k j y Hin).
    + rewrite ends_with_index_snoc. intros [E|E]; discriminate.
Qed.

Theorem walk_faithful : forall fuel m, rec_faithful m (walk fl o fuel m).
Proof.
  intros fuel m ck q x y r H.
  refine (walk_ind fl o (fun m ck p a b r =>
            resolve ra (lefts p) = Some a -> resolve rb (rights p) = Some b ->
            good a -> good b -> wf a -> wf b -> walk_guard m a -> Forall (entry_ok m ra rb) r)
          _ _ _ fuel m ck q x y r H).
  - intros m' rec Hrec ck' p c c' ka kb r' H'. eapply dict_faithful; eauto.
  - intros rec Hrec ck' p c c' xs ys r' H' Ha Hb Ga Gb Wa Wb G. unfold list_direct in H'.
    rewrite (q_excluded o Hq) in H'.
    eapply (ld_faithful rec Hrec ck' p c c' xs ys Ha Hb Ga Gb Wa Wb xs ys 0 r'); eauto.
  - intros rec Hrec ck' p c c' xs ys r' H'. eapply list_keyed_faithful; eauto.
Qed.
End Faithful.

(* ---- the entry points ---------------------------------------------------------------------------- *)
Theorem report_faithful fl o m ck a b r :
  quiet o -> good a -> good b -> wf a -> wf b -> walk_guard m a ->
  compare_top fl o m ck a b = Ok r -> Forall (entry_ok m a b) r.
Proof.
  intros Hq Ga Gb Wa Wb G H. unfold compare_top in H.
  destruct a as [|[] ka|[] xs]; try discriminate.
  - destruct b as [|[] kb|]; try discriminate. eapply (walk_faithful fl o Hq); eauto.
  - destruct b as [| |[] ys]; try discriminate. eapply (walk_faithful fl o Hq); eauto.
Qed.

(* ---- one 'differences' line per structured entry ------------------------------------------------- *)
Definition is_noteq (e : entry) : bool := match e with NotEq _ _ _ => true | _ => false end.
Definition is_difftype (e : entry) : bool := match e with DiffType _ _ _ => true | _ => false end.
Definition is_selfuniq (e : entry) : bool := match e with SelfUniq _ _ => true | _ => false end.
Definition is_otheruniq (e : entry) : bool := match e with OtherUniq _ _ => true | _ => false end.

Lemma report_partition (r : report) :
  length r = length (filter is_noteq r) + length (filter is_difftype r)
             + length (filter is_selfuniq r) + length (filter is_otheruniq r).
Proof. induction r as [|[] r IH]; simpl; lia. Qed.

(* without the check-types flag nothing is filed under difftypes (the key is then absent
   from the result) *)
Section NoDiffType.
Variables (fl : flags) (o : opts).
Hypothesis Hf : f_types fl = false.

Definition rec_nodt (rec : pats -> steps -> tree -> tree -> res report) : Prop :=
  forall ck q x y r, rec ck q x y = Ok r -> Forall (fun e => is_difftype e = false) r.

Lemma pair_nodt rec par ck tp p pd sl sd x y r :
  rec_nodt rec -> cmp_pair fl o rec par ck tp p pd sl sd x y = Ok r -> Forall (fun e => is_difftype e = false) r.
Proof.
  intros Hrec H. pose proof (cmp_pair_outcome fl o rec par ck tp p pd sl sd x y) as O. rewrite H in O.
  inversion O; subst; try (constructor; [|constructor]); try constructor; try reflexivity.
  - unfold mk_diff. now rewrite Hf.
  - eapply Hrec; eauto.
  - eapply Hrec; eauto.
Qed.

Lemma lk_nodt rec ck p : rec_nodt rec -> forall xs rem a,
  In (Ok a) (fst (fst (lk_loop fl o rec ck p xs rem))) -> Forall (fun e => is_difftype e = false) a.
Proof.
  intros Hrec. induction xs as [|[k [i x0]] xs IH]; intros rem a Ha; simpl in Ha; [destruct Ha|].
  destruct (find_key k rem) as [[[j y0] rem']|].
  - specialize (IH rem' a). destruct (lk_loop fl o rec ck p xs rem') as [[ps un] rm]. simpl in *.
    destruct Ha as [Ha|Ha]; [eapply pair_nodt; eauto|auto].
  - specialize (IH rem a). destruct (lk_loop fl o rec ck p xs rem) as [[ps un] rm]. simpl in *. auto.
Qed.

Theorem walk_nodt : forall fuel m, rec_nodt (walk fl o fuel m).
Proof.
  intros fuel m ck q x y r H.
  refine (walk_ind fl o (fun m ck p a b r => Forall (fun e => is_difftype e = false) r) _ _ _ fuel m ck q x y r H).
  - intros m' rec Hrec ck' p c c' ka kb r' H'. unfold dict_walk in H'.
    destruct (seq_res (map (dict_common fl o rec ck' p kb) ka)) as [common| | |] eqn:Es; try discriminate.
    inversion H'; subst. apply Forall_app. split; [|apply Forall_app; split].
    + eapply seq_res_forall; [exact Es|]. intros a Ha. apply in_map_iff in Ha. destruct Ha as ([k v] & Hc & _).
      unfold dict_common in Hc. simpl in Hc. destruct (lookup k kb); [|inversion Hc; constructor].
      destruct (excluded o _); [inversion Hc; constructor|]. eapply pair_nodt; eauto.
    + apply Forall_flat_map. intros kv _. unfold dict_left. destruct (mem_key _ _); [constructor|].
      destruct (_ && _); repeat constructor.
    + apply Forall_flat_map. intros kv _. unfold dict_left. destruct (mem_key _ _); [constructor|].
      destruct (_ && _); repeat constructor.
  - intros rec Hrec ck' p c c' xs ys r' H'. unfold list_direct in H'.
    destruct (excluded o p); [inversion H'; constructor|].
    eapply seq_res_forall; [exact H'|]. clear H'. generalize 0 as i. revert ys.
    induction xs as [|x0 xs IH]; intros ys i a Ha; simpl in Ha.
    + destruct Ha as [Ha|[]]. inversion Ha; subst. apply Forall_forall. intros e He.
      apply in_map_iff in He. destruct He as (? & <- & _). reflexivity.
    + destruct ys as [|y0 ys]; destruct Ha as [Ha|Ha].
      * inversion Ha; subst. repeat constructor.
      * exact (IH _ _ _ Ha).
      * eapply pair_nodt; eauto.
      * exact (IH _ _ _ Ha).
  - intros rec Hrec ck' p c c' xs ys r' H'. unfold list_keyed in H'.
    destruct (excluded o p); [inversion H'; constructor|].
    destruct (item_keys o (render p) ck' (enum_from 0 xs)) as [ka| | |]; try discriminate.
    destruct (item_keys o (render p) ck' (enum_from 0 ys)) as [kb| | |]; try discriminate.
    pose proof (lk_nodt rec ck' p Hrec ka kb) as HL.
    destruct (lk_loop fl o rec ck' p ka kb) as [[ps un] rm]. simpl in HL.
    destruct (seq_res ps) as [paired| | |] eqn:Es; try discriminate. inversion H'; subst.
    apply Forall_app. split; [eapply seq_res_forall; eauto|].
    apply Forall_app. split; apply Forall_forall; intros e He; apply in_map_iff in He; destruct He as (? & <- & _); reflexivity.
Qed.
End NoDiffType.

(* the lists of the result, as the observation shows them, add up to 'differences' *)
Theorem one_line_per_entry fl o m ck a b r :
  compare_top fl o m ck a b = Ok r ->
  length r = length (filter is_noteq r) + length (filter is_selfuniq r) + length (filter is_otheruniq r)
             + (if f_types fl then length (filter is_difftype r) else 0) /\
  (f_types fl = false -> filter is_difftype r = []).
Proof.
  intros H.
  assert (Hd : f_types fl = false -> filter is_difftype r = []).
  { intros Hf. assert (HF : Forall (fun e => is_difftype e = false) r).
    { unfold compare_top in H. destruct a as [|[] ka|[] xs]; try discriminate.
      - destruct b as [|[] kb|]; try discriminate. eapply walk_nodt; eauto.
      - destruct b as [| |[] ys]; try discriminate. eapply walk_nodt; eauto. }
    clear H. induction HF as [|e r He _ IH]; simpl; [reflexivity|]. now rewrite He. }
  split; [|assumption]. rewrite (report_partition r). destruct (f_types fl); [lia|].
  rewrite (Hd eq_refl). simpl. lia.
Qed.

(* ---- non-vacuity ------------------------------------------------------------------------------------ *)
(* a changed leaf, a type clash, a removed key, a shorter list and a record inside a list *)
Definition ex_a : tree :=
  Dict true [([97], Leaf (SInt 1)); ([98], Lst true [Leaf (SInt 1); Dict true [([107], Leaf (SStr [120]))]; Leaf SNone]);
             ([99], Leaf (SBool true))]%N.
Definition ex_b : tree :=
  Dict true [([98], Lst true [Leaf (SFlt 2); Dict true [([107], Leaf (SStr [121]))]]); ([97], Leaf (SInt 2))]%N.

Lemma nodup_keys_NoDup l : nodup_keys l = true -> NoDup l.
Proof.
  induction l as [|k l IH]; simpl; intros H; [constructor|].
  apply andb_true_iff in H. destruct H as [H1 H2]. constructor; [|auto].
  intros Hin. apply negb_true_iff in H1. unfold mem_str in H1.
  assert (existsb (pstr_eqb k) l = true) by (apply existsb_exists; exists k; split; [assumption|apply pstr_eqb_refl]).
  congruence.
Qed.

Lemma wfb_wf : forall t, wfb t = true -> wf t.
Proof.
  induction t as [s|c kvs IH|c xs IH] using tree_ind'; simpl; intros H; [exact I| |].
  - apply andb_true_iff in H. destruct H as [H1 H2]. split; [now apply nodup_keys_NoDup|].
    clear H1. induction kvs as [|[k v] kvs IHk]; [exact I|]. inversion IH; subst.
    apply andb_true_iff in H2. destruct H2 as [Hv Hr]. split; [now apply H1|now apply IHk].
  - induction xs as [|v xs IHx]; [exact I|]. inversion IH as [|? ? Hv1 Hr1]; subst.
    apply andb_true_iff in H. destruct H as [Hv Hr]. split; [now apply Hv1|now apply IHx].
Qed.

Lemma faithful_example :
  good ex_a /\ good ex_b /\ wf ex_a /\ wf ex_b /\ walk_guard MKeyed ex_a /\
  (exists r, compare_top flags_init no_opts MDirect (PSeq []) ex_a ex_b = Ok r /\ length r = 5) /\
  (exists r, compare_top flags_init no_opts MKeyed (PSeq []) ex_a ex_b = Ok r /\ length r = 6).
Proof.
  split; [split; reflexivity|]. split; [split; reflexivity|].
  split; [apply wfb_wf; reflexivity|]. split; [apply wfb_wf; reflexivity|].
  split; [intros _; reflexivity|]. split; eexists; split; vm_compute; reflexivity.
Qed.
