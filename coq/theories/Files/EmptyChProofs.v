(* Files/EmptyChProofs.v — contains_header given as an empty list (or an empty string) is as good as not given: the whole
   load is the same, whatever the file and the other options are. *)
From Coq Require Import List NArith Bool.
From N0 Require Import Base.PyStr Base.PyVal Codec.Csv Files.Bytes Files.Util Files.SaveLoad Files.CsvFile.
Import ListNotations.

Definition with_ch (o : opts) (ch : chdr) : opts :=
  {| o_cn := o_cn o; o_delim := o_delim o; o_ch := ch; o_him := o_him o; o_skip := o_skip o;
     o_strip_line := o_strip_line o; o_strip_field := o_strip_field o; o_binary := o_binary o; o_codec := o_codec o |}.

Lemma norm_opts_empty_list cn him : norm_opts cn (ChList []) him = norm_opts cn ChNone him.
Proof. unfold norm_opts. destruct him as [b|]; destruct cn as [[|c l]|]; reflexivity. Qed.

Lemma norm_opts_empty_str cn him : norm_opts cn (ChStr []) him = norm_opts cn ChNone him.
Proof. unfold norm_opts. destruct him as [b|]; destruct cn as [[|c l]|]; reflexivity. Qed.

Lemma file_lines_ch o ch b : file_lines (with_ch o ch) b = file_lines o b.
Proof. reflexivity. Qed.

Lemma parse_fields_ch o ch l : parse_fields (with_ch o ch) l = parse_fields o l.
Proof. reflexivity. Qed.

Lemma data_records_ch o ch keys cols ls : data_records (with_ch o ch) keys cols ls = data_records o keys cols ls.
Proof.
  induction ls as [|l r IH]; [reflexivity|]. cbn [data_records].
  rewrite parse_fields_ch, IH. reflexivity.
Qed.

Lemma load_csv_depends_on_norm disk o ch ch' :
  norm_opts (o_cn o) ch (o_him o) = norm_opts (o_cn o) ch' (o_him o) ->
  load_csv disk (with_ch o ch) = load_csv disk (with_ch o ch').
Proof.
  intros H. unfold load_csv. cbn [with_ch o_cn o_ch o_him o_delim]. rewrite H.
  destruct (norm_opts (o_cn o) ch' (o_him o)) as [[[cn h] him]| e| |]; cbn [bind]; try reflexivity.
  fold (with_ch o ch). fold (with_ch o ch').
  destruct (negb (ascii_delim (o_delim o))); [reflexivity|].
  destruct disk as [b|]; [|reflexivity].
  rewrite !file_lines_ch. destruct (file_lines o b) as [ls| e| |]; cbn [bind]; try reflexivity.
  destruct (drop_blank ls) as [|hl rest]; [reflexivity|].
  rewrite !parse_fields_ch. destruct (parse_fields o hl) as [first| e| |]; cbn [bind]; try reflexivity.
  destruct (decide cn h him first); try reflexivity; now rewrite !data_records_ch.
Qed.

Theorem empty_contains_header_is_none disk o :
  load_csv disk (with_ch o (ChList [])) = load_csv disk (with_ch o ChNone) /\
  load_csv disk (with_ch o (ChStr [])) = load_csv disk (with_ch o ChNone).
Proof.
  split; apply load_csv_depends_on_norm; [apply norm_opts_empty_list|apply norm_opts_empty_str].
Qed.
