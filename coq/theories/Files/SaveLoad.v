(* Files/SaveLoad.v — model of n0struct_files.save_file / load_file / load_lines
   (as repaired by the "fix:" commit for C15: close() is called) over a
   byte-level file: the file is [option bytes] (None = does not exist), a handle
   opened for writing collects what is written in a buffer that reaches the file
   when the handle is closed (and not before: the harness keeps every handle
   alive, so no finaliser runs).  Python's text layer is explicit: newline
   translation on write ([newline=EOL]), the incremental encoder that emits the
   BOM of utf-8-sig once and only at file position 0, universal-newline
   translation and line splitting on read.  [open]'s mode-string validation is
   modelled for the characters r w a b t + (x: Unmodelled). *)
From Coq Require Import List NArith ZArith Bool.
From N0 Require Import Base.PyStr Base.PyVal Files.Bytes.
Import ListNotations.
Local Open Scope N_scope.

Definition LF : N := 10.
Definition CR : N := 13.

(* ---- payloads ------------------------------------------------------------------ *)
Inductive item := IStr (s : pstr) | IBytes (b : pstr).
Inductive payload :=
| PStr (s : pstr)
| PBytes (b : pstr)
| PList (l : list item)                 (* list / tuple of str and bytes lines *)
| PDict (kvs : list (pstr * pstr)).     (* dict of str -> str *)

(* ---- mode strings ---------------------------------------------------------------- *)
Definition ch_r : N := 114. Definition ch_w : N := 119. Definition ch_a : N := 97.
Definition ch_x : N := 120. Definition ch_b : N := 98.  Definition ch_t : N := 116.
Definition ch_plus : N := 43.

Inductive omode := MRead | MWrite | MAppend.

Fixpoint nodup_chr (s : pstr) : bool :=
  match s with [] => true | c :: r => negb (mem_chr c r) && nodup_chr r end.

Definition b2n (b : bool) : nat := if b then 1%nat else 0%nat.

(* io.open's validation of the mode string; result (kind, binary) *)
Definition parse_mode (m : pstr) : res (omode * bool)%type :=
  if negb (forallb (fun c => mem_chr c [ch_r; ch_w; ch_a; ch_x; ch_b; ch_t; ch_plus]) m) || negb (nodup_chr m)
  then Raise ExValue
  else
    let r := mem_chr ch_r m in let w := mem_chr ch_w m in
    let a := mem_chr ch_a m in let x := mem_chr ch_x m in
    let t := mem_chr ch_t m in let b := mem_chr ch_b m in
    if t && b then Raise ExValue
    else if Nat.ltb 1 (b2n r + b2n w + b2n a + b2n x) then Raise ExValue
    else if negb (r || w || a || x) then Raise ExValue
    else if x then Unmodelled
    else Ok (if r then MRead else if w then MWrite else MAppend, b).

(* f"{mode[0]}b{mode[2:]}" *)
Definition set_b (m : pstr) : res pstr :=
  match m with
  | [] => Raise ExIndex
  | c :: _ => Ok (c :: ch_b :: skipn 2 m)
  end.

Definition std_eol (e : pstr) : bool :=
  pstr_eqb e [CR; LF] || pstr_eqb e [LF] || pstr_eqb e [CR].

Definition short_modes : list pstr := [[ch_t]; [ch_b]; [ch_t; ch_plus]; [ch_b; ch_plus]].

(* if mode in ('t','b','t+','b+'): mode = 'w' + mode *)
Definition norm_mode (m : pstr) : pstr := if mem_str m short_modes then ch_w :: m else m.

(* ---- encoding helpers ------------------------------------------------------------ *)
Definition enc_res (c : codec) (s : pstr) : res pstr :=
  match encode c s with Some b => Ok b | None => Raise ExValue end.
Definition dec_res (c : codec) (b : pstr) : res pstr :=
  match c_dec c b with Some s => Ok s | None => Raise ExValue end.
(* reading a whole file through the text layer *)
Definition decs_res (c : codec) (b : pstr) : res pstr :=
  match c_decs c b with Some s => Ok s | None => Raise ExValue end.

(* ---- the text layer on write -------------------------------------------------------- *)
(* TextIOWrapper.write(s) with newline=nl: every "\n" becomes nl, then the
   incremental encoder (BOM in front of the first chunk when [first]) *)
Definition translate (nl s : pstr) : pstr := replace s [LF] nl.

Fixpoint text_writes (c : codec) (nl : pstr) (first : bool) (ws : list pstr) : res pstr :=
  match ws with
  | [] => Ok []
  | w :: r =>
    match enc_chars c (translate nl w) with
    | None => Raise ExValue
    | Some b =>
      do rest <- text_writes c nl false r ;;
      Ok ((if first then c_bom c else []) ++ b ++ rest)
    end
  end.

(* ---- save_file ------------------------------------------------------------------- *)
Definition dict_text (kvs : list (pstr * pstr)) : pstr :=
  join [LF] (map (fun kv => fst kv ++ [61] ++ snd kv) kvs).

Fixpoint bin_lines (c : codec) (eolb : pstr) (l : list item) : res pstr :=
  match l with
  | [] => Ok []
  | it :: r =>
    do b <- (match it with IBytes b => Ok b | IStr s => enc_res c s end) ;;
    do rest <- bin_lines c eolb r ;;
    Ok (b ++ eolb ++ rest)
  end.

Fixpoint text_lines (c : codec) (l : list item) : res (list pstr) :=
  match l with
  | [] => Ok []
  | it :: r =>
    do s <- (match it with IBytes b => dec_res c b | IStr s => Ok s end) ;;
    do rest <- text_lines c r ;;
    Ok (s :: [LF] :: rest)
  end.

Definition content (disk : option pstr) : pstr := match disk with Some b => b | None => [] end.

(* what the file holds once a handle opened with [om] on [disk] that received
   [written] is closed / is left open *)
Definition after_write (do_close : bool) (disk : option pstr) (om : omode) (written : pstr) : option pstr :=
  let base := match om with MAppend => content disk | _ => [] end in
  Some (if do_close then base ++ written else base).

Definition save_file_gen (do_close : bool) (disk : option pstr) (p : payload) (mode : pstr)
           (c : codec) (eol : pstr) : res (option pstr) :=
  let mode1 := norm_mode mode in
  do mode2 <- (match p with PBytes _ => set_b mode1 | _ => Ok mode1 end) ;;
  let p1 := match p with PDict kvs => PStr (dict_text kvs) | _ => p end in
  if mem_chr ch_b mode2 || negb (std_eol eol) then
    do mode3 <- set_b mode2 ;;
    do p2 <- (match p1 with
              | PStr s => do b <- enc_res c (replace s [LF] eol) ;; Ok (PBytes b)
              | _ => Ok p1
              end) ;;
    do eolb <- enc_res c eol ;;
    do omb <- parse_mode mode3 ;;
    match fst omb with
    | MRead => Unmodelled
    | om =>
      do written <- (match p2 with
                     | PBytes b => Ok b
                     | PList l => bin_lines c eolb l
                     | _ => Unmodelled
                     end) ;;
      Ok (after_write do_close disk om written)
    end
  else
    do omb <- parse_mode mode2 ;;
    match fst omb with
    | MRead => Unmodelled
    | om =>
      let first := match om with MAppend => match content disk with [] => true | _ => false end | _ => true end in
      do ws <- (match p1 with
                | PStr s => Ok [s]
                | PList l => text_lines c l
                | _ => Unmodelled
                end) ;;
      do written <- text_writes c eol first ws ;;
      Ok (after_write do_close disk om written)
    end.

Definition save_file := save_file_gen true.

(* ---- the text layer on read --------------------------------------------------------- *)
(* universal newlines: "\r\n" and "\r" become "\n" *)
Fixpoint univ (s : pstr) : pstr :=
  match s with
  | [] => []
  | c :: r =>
    if c =? CR then
      LF :: match r with
            | d :: r' => if d =? LF then univ r' else univ r
            | [] => []
            end
    else c :: univ r
  end.

(* the successive results of readline(): pieces ending in "\n", a last piece
   without it if non-empty *)
Fixpoint readlines_aux (s cur : pstr) : list pstr :=
  match s with
  | [] => match cur with [] => [] | _ => [rev cur] end
  | c :: r => if c =? LF then rev (c :: cur) :: readlines_aux r [] else readlines_aux r (c :: cur)
  end.
Definition readlines (s : pstr) : list pstr := readlines_aux s [].

Inductive loaded := LStr (s : pstr) | LBytes (b : pstr).

Definition open_read (disk : option pstr) (m : pstr) : res pstr :=
  do omb <- parse_mode m ;;
  match disk with
  | None => match fst omb with MRead => Raise ExOther | _ => Unmodelled end
  | Some b => match fst omb with MRead => Ok b | _ => Unmodelled end
  end.

Definition load_file (disk : option pstr) (read_mode : pstr) (c : codec) (eol : pstr) : res loaded :=
  if mem_chr ch_b read_mode || negb (std_eol eol) then
    do b <- open_read disk (ch_r :: ch_b :: skipn 1 read_mode) ;;
    if mem_chr ch_t read_mode then
      match encode utf8 eol with
      | None => Raise ExValue
      | Some [] => Unmodelled                 (* bytes.replace(b"", ...) *)
      | Some eolb => do s <- dec_res c (replace b eolb [LF]) ;; Ok (LStr s)
      end
    else Ok (LBytes b)
  else
    do b <- open_read disk (ch_r :: ch_t :: skipn 1 read_mode) ;;
    do s <- decs_res c b ;;
    Ok (LStr (univ s)).

Inductive loaded_lines := LLStr (l : list pstr) | LLBytes (l : list pstr).

Definition load_lines (disk : option pstr) (read_mode : pstr) (c : codec) (eol : pstr) : res loaded_lines :=
  if mem_chr ch_b read_mode || negb (std_eol eol) then
    match encode utf8 eol with
    | None => Raise ExValue
    | Some eolb =>
      do b <- open_read disk [ch_r; ch_b] ;;
      match eolb with
      | [] => Raise ExValue                   (* empty separator *)
      | _ => Ok (LLBytes (split_str b eolb))
      end
    end
  else
    do b <- open_read disk [ch_r; ch_t] ;;
    do s <- decs_res c b ;;
    Ok (LLStr (map (rstrip_set [CR; LF]) (readlines (univ s)))).

(* ---- observations ------------------------------------------------------------------ *)
Definition t_bytes (b : pstr) : tree := Leaf (SBytes b).

Definition exn_code (e : exn) : Z :=
  match e with
  | ExIndex => 0 | ExKey => 1 | ExType => 2 | ExValue => 3 | ExSyntax => 4 | ExAttribute => 5
  | ExAssertion => 6 | ExUnbound => 7 | ExRecursion => 8 | ExOther => 9
  end%Z.

Definition t_loaded (l : loaded) : tree := match l with LStr s => t_str s | LBytes b => t_bytes b end.
Definition t_lines (l : loaded_lines) : tree :=
  match l with LLStr l => t_strs l | LLBytes l => Lst false (map t_bytes l) end.

(* a nested result inside a tree: [v] for a value, the exception's code otherwise *)
Definition wrap {A} (f : A -> tree) (r : res A) (k : tree -> out) : out :=
  match r with
  | Ok a => k (Lst false [f a])
  | Raise e => k (t_int (exn_code e))
  | OutOfFuel => OutOfFuel
  | Unmodelled => Unmodelled
  end.

Definition obs_disk (d : option pstr) : tree := match d with Some b => t_bytes b | None => t_none end.

(* inputs as the harness prints them *)
Definition save_in : Type := ((((option pstr * payload) * pstr) * N) * pstr)%type.   (* disk, payload, mode, codec, EOL *)
Definition load_in : Type := (((option pstr * pstr) * N) * pstr)%type.             (* disk, read_mode, codec, EOL *)

Definition obs_save (x : save_in) : out :=
  let '((((disk, p), mode), cn), eol) := x in
  do d <- save_file disk p mode (codec_of cn) eol ;; Ok (obs_disk d).

Definition obs_load (x : load_in) : out :=
  let '(((disk, rm), cn), eol) := x in
  do l <- load_file disk rm (codec_of cn) eol ;; Ok (t_loaded l).

Definition obs_lines (x : load_in) : out :=
  let '(((disk, rm), cn), eol) := x in
  do l <- load_lines disk rm (codec_of cn) eol ;; Ok (t_lines l).

(* save, then load_file with [rm], then load_lines in text mode, same codec / EOL *)
Definition obs_rt (x : (save_in * pstr)%type) : out :=
  let '(((((disk, p), mode), cn), eol), rm) := x in
  do d <- save_file disk p mode (codec_of cn) eol ;;
  wrap t_loaded (load_file d rm (codec_of cn) eol) (fun a =>
  wrap t_lines (load_lines d [ch_t] (codec_of cn) eol) (fun b =>
  Ok (Lst false [obs_disk d; a; b]))).

(* codec stream: encode a text / decode bytes *)
Definition obs_encode (x : (N * pstr)%type) : out :=
  match encode (codec_of (fst x)) (snd x) with Some b => Ok (t_bytes b) | None => Raise ExValue end.
Definition obs_decode (x : (N * pstr)%type) : out :=
  match c_dec (codec_of (fst x)) (snd x) with Some s => Ok (t_str s) | None => Raise ExValue end.
Definition obs_decode_stream (x : (N * pstr)%type) : out :=
  match c_decs (codec_of (fst x)) (snd x) with Some s => Ok (t_str s) | None => Raise ExValue end.
