(* Files/OverwriteProofs.v — what save_file leaves on disk depends on the file
   that was there before only through its bytes, and not at all in a truncating mode. *)
From Coq Require Import List NArith ZArith Bool Lia.
From N0 Require Import Base.PyStr Base.PyVal Files.Bytes Files.Util Files.BytesProofs Files.SaveLoad Files.SaveLoadProofs.
Import ListNotations.
Local Open Scope N_scope.

(* a missing file and an empty one, or two files with the same bytes, are
   indistinguishable to save_file: any payload, mode, codec and EOL *)
Theorem save_depends_on_content_only close d1 d2 p m c eol :
  content d1 = content d2 ->
  save_file_gen close d1 p m c eol = save_file_gen close d2 p m c eol.
Proof.
  intros H. unfold save_file_gen, after_write. rewrite H. reflexivity.
Qed.

(* truncating modes: nothing of the previous file survives or influences the result *)
Theorem overwrite_ignores_previous close d1 d2 p m c eol :
  mode_kind m = Some MWrite ->
  save_file_gen close d1 p m c eol = save_file_gen close d2 p m c eol.
Proof.
  intros H. by_modes H; [|discriminate].
  clear H. each_mode T; unfold save_file_gen;
  (destruct p as [s|b|l|kvs]);
  match goal with |- context [norm_mode ?mm] => let v := eval vm_compute in (norm_mode mm) in change (norm_mode mm) with v end;
  cbn [set_b skipn bind];
  match goal with |- context [mem_chr ch_b ?mm] => let v := eval vm_compute in (mem_chr ch_b mm) in change (mem_chr ch_b mm) with v end;
  cbn [orb]; try (destruct (negb (std_eol eol)));
  cbn [set_b skipn bind];
  repeat match goal with |- context [parse_mode ?mm] => let v := eval vm_compute in (parse_mode mm) in change (parse_mode mm) with v end;
  reflexivity.
Qed.
