(* Files/CsvFileProofs.v — C14: the header decision rules of load_csv as
   implications, the round trip save_csv -> load_csv in the header-from-file
   mode (reusing the per-line theorem parse_gen_w of C13 and the text-layer
   lemmas of C15), and the independence of the result from LF/CRLF and from a
   BOM in text mode. *)
From Coq Require Import List NArith ZArith Bool Lia FinFun.
From N0 Require Import Base.PyStr Base.PyVal Codec.Csv Codec.CsvProofs
  Files.Bytes Files.Util Files.BytesProofs Files.SaveLoad Files.SaveLoadProofs Files.CsvFile.
Import ListNotations.
Local Open Scope N_scope.

Arguments N.eqb : simpl never.

(* ---- equality tests ------------------------------------------------------------------- *)
Lemma tstr_eqb_eq a b : tstr_eqb a b = true <-> a = b.
Proof.
  destruct a as [ta sa], b as [tb sb]. unfold tstr_eqb. simpl.
  rewrite andb_true_iff, pstr_eqb_eq. split.
  - intros [H ->]. apply Bool.eqb_prop in H. now subst.
  - intros H. inversion H. split; [apply Bool.eqb_reflx|reflexivity].
Qed.

Lemma key_eqb_eq a b : key_eqb a b = true <-> a = b.
Proof.
  destruct a as [x|n], b as [y|m]; simpl; try (split; intros H; discriminate).
  - rewrite tstr_eqb_eq. split; congruence.
  - rewrite Nat.eqb_eq. split; congruence.
Qed.

Lemma key_eqb_refl a : key_eqb a a = true.
Proof. now apply key_eqb_eq. Qed.

Lemma keys_eqb_refl l : keys_eqb l l = true.
Proof. induction l as [|x l IH]; [reflexivity|]. simpl. now rewrite key_eqb_refl, IH. Qed.

Lemma mem_t_In x l : mem_t x l = true <-> In x l.
Proof.
  unfold mem_t. rewrite existsb_exists. split.
  - intros [y [Hy E]]. apply tstr_eqb_eq in E. now subst.
  - intros H. exists x. split; [exact H|now apply tstr_eqb_eq].
Qed.

Lemma has_dup_t_false l : has_dup_t l = false -> NoDup l.
Proof.
  induction l as [|x l IH]; intros H; [constructor|]. simpl in H.
  apply orb_false_iff in H as [H1 H2]. constructor; [|now apply IH].
  intros Hi. apply mem_t_In in Hi. congruence.
Qed.

(* ---- the decision rules --------------------------------------------------------------- *)
(* the header the caller declared is not what the first line holds *)
Definition header_missing (h : chn) (first : list tstr) : bool :=
  match h with
  | HStr s => match first with f0 :: _ => negb (tstr_eqb f0 (false, s)) | [] => false end
  | HList m => match first_missing m first with Some x => t_truthy x | None => false end
  | HNone => false
  end.

(* a mandatory header that is missing is refused, never consumed as data *)
Theorem mandatory_missing_refused cn h first :
  header_missing h first = true -> decide cn h true first = Refuse.
Proof.
  unfold header_missing, decide. destruct h as [|s|m].
  - discriminate.
  - destruct first as [|f0 r]; [discriminate|]. intros H. apply negb_true_iff in H. now rewrite H.
  - destruct (first_missing m first) as [x|]; [|discriminate]. intros ->. reflexivity.
Qed.

(* not mandatory: the same first line is data, keyed by the caller's names or by position *)
Theorem optional_missing_is_data cn h first :
  header_missing h first = true ->
  decide cn h false first =
  IsData (match cn with Some l => map KT l | None => map KInt (seq 0 (length first)) end).
Proof.
  unfold header_missing, decide. destruct h as [|s|m].
  - discriminate.
  - destruct first as [|f0 r]; [discriminate|]. intros H. apply negb_true_iff in H. now rewrite H.
  - destruct (first_missing m first) as [x|]; [|discriminate]. intros ->. reflexivity.
Qed.

(* header taken from the file: nothing declared, header mandatory *)
Theorem header_from_file first :
  has_dup_t first = false ->
  decide None HNone true first = IsHeader (map KT first) (map KT first).
Proof. intros H. unfold decide. simpl. now rewrite H. Qed.

(* without a header records are keyed by position *)
Theorem no_header_positional first :
  decide None HNone false first = IsData (map KInt (seq 0 (length first))).
Proof. reflexivity. Qed.

(* names given by the caller, no header in the file (nothing recognisable in
   the first line): keyed by the caller's names *)
Theorem names_by_caller l first x :
  first_missing l first = Some x -> t_truthy x = true ->
  decide (Some l) (HList l) false first = IsData (map KT l).
Proof. intros H1 H2. unfold decide. now rewrite H1, H2. Qed.

(* both: the caller's names are all in the first line: it is the header, and
   the caller's list (subset / order) selects the columns *)
Theorem names_and_header l first him :
  first_missing l first = None -> has_dup_t first = false ->
  decide (Some l) (HList l) him first = IsHeader (map KT first) (map KT l).
Proof. intros H1 H2. unfold decide. rewrite H1, H2. now rewrite andb_false_r. Qed.

(* the first-column-name form and the mandatory-names form of contains_header *)
Theorem header_by_first_name cn s f0 r him :
  has_dup_t (f0 :: r) = false -> tstr_eqb f0 (false, s) = true ->
  decide cn (HStr s) him (f0 :: r) =
  IsHeader (map KT (f0 :: r)) (match cn with Some l => map KT l | None => map KT (f0 :: r) end).
Proof. intros H1 H2. unfold decide. rewrite H2, H1. now rewrite andb_false_r. Qed.

(* option normalisation: the legacy bool form (as repaired), the plain forms *)
Theorem norm_legacy_true : norm_opts None (ChBool true) None = Ok (None, HNone, true).
Proof. reflexivity. Qed.
Theorem norm_legacy_false : norm_opts None (ChBool false) None = Ok (None, HNone, false).
Proof. reflexivity. Qed.
Theorem norm_legacy_conflict b : norm_opts None (ChBool b) (Some (negb b)) = Raise ExSyntax.
Proof. destruct b; reflexivity. Qed.
Theorem norm_names l him : l <> [] -> has_dup_t l = false ->
  norm_opts (Some l) ChNone him = Ok (Some l, HList l, match him with Some b => b | None => false end).
Proof. intros Hl Hd. destruct l as [|c0 r]; [congruence|]. unfold norm_opts. rewrite Hd. reflexivity. Qed.

(* ---- records -------------------------------------------------------------------------- *)
Lemma rec_set_fresh k v acc : ~ In k (map fst acc) -> rec_set k v acc = acc ++ [(k, v)].
Proof.
  induction acc as [|[k' v'] t IH]; intros H; [reflexivity|]. simpl in *.
  destruct (key_eqb k k') eqn:E.
  - apply key_eqb_eq in E. subst. exfalso. apply H. now left.
  - rewrite IH; [reflexivity|]. intros Hi. apply H. now right.
Qed.

Lemma zip_dict_combine keys : forall vals acc,
  NoDup keys -> (forall k, In k keys -> ~ In k (map fst acc)) ->
  zip_dict keys vals acc = acc ++ combine keys vals.
Proof.
  induction keys as [|k kr IH]; intros vals acc Hnd Hf; simpl.
  - now rewrite app_nil_r.
  - destruct vals as [|v vr]; [now rewrite app_nil_r|].
    inversion Hnd as [|? ? Hk Hkr]; subst.
    rewrite rec_set_fresh by (apply Hf; now left).
    rewrite IH; [now rewrite <- app_assoc| exact Hkr |].
    intros k' Hk' Hi. rewrite map_app in Hi. apply in_app_or in Hi as [Hi|[Hi|[]]].
    + apply (Hf k'); [now right|exact Hi].
    + simpl in Hi. subst. contradiction.
Qed.

Definition ty (s : pstr) : tstr := (false, s).
Definition hkeys (H : list pstr) : list key := map KT (map ty H).

(* the record of one row: each column name -> exactly the saved cell, short rows
   padded with None (rows longer than the header lose the surplus) *)
Definition row_record (H r : list pstr) : record :=
  combine (hkeys H) (pad (length (hkeys H)) (map Some (map ty r))).

Lemma NoDup_hkeys H : NoDup H -> NoDup (hkeys H).
Proof.
  intros Hn. unfold hkeys. apply FinFun.Injective_map_NoDup; [intros a b E; now inversion E|].
  apply FinFun.Injective_map_NoDup; [intros a b E; now inversion E|exact Hn].
Qed.

Lemma make_record_same H r : NoDup H ->
  make_record (hkeys H) (hkeys H) (map ty r) = Ok (row_record H r).
Proof.
  intros Hn. unfold make_record. rewrite keys_eqb_refl.
  rewrite zip_dict_combine; [reflexivity|now apply NoDup_hkeys|intros k _ []].
Qed.

(* generalisation: any duplicate-free key list, any duplicate-free plain column list *)
Definition rec_of (keys : list key) (r : list pstr) : record :=
  combine keys (pad (length keys) (map Some (map ty r))).

(* the requested columns, in the requested order; a name the record lacks maps to None *)
Definition select (cols : list key) (d : record) : record := map (fun k => (k, rec_val k d)) cols.

Lemma fold_select d cols : forall acc, NoDup cols -> (forall k, In k cols -> ~ In k (map fst acc)) ->
  fold_left (fun a k => rec_set k (rec_val k d) a) cols acc = acc ++ select cols d.
Proof.
  induction cols as [|k kr IH]; intros acc Hnd Hf; simpl.
  - now rewrite app_nil_r.
  - inversion Hnd as [|? ? Hk Hkr]; subst.
    rewrite rec_set_fresh by (apply Hf; now left).
    rewrite IH; [now rewrite <- app_assoc|exact Hkr|].
    intros k' Hk' Hi. rewrite map_app in Hi. apply in_app_or in Hi as [Hi|[Hi|[]]].
    + apply (Hf k'); [now right|exact Hi].
    + simpl in Hi. subst. contradiction.
Qed.

Lemma rec_get_combine_hd k kr v vr : rec_get k (combine (k :: kr) (v :: vr)) = Some v.
Proof. simpl. now rewrite key_eqb_refl. Qed.

Lemma select_self keys : forall vals, NoDup keys -> (length keys <= length vals)%nat ->
  select keys (combine keys vals) = combine keys vals.
Proof.
  unfold select. induction keys as [|k kr IH]; intros vals Hnd Hl; [reflexivity|].
  destruct vals as [|v vr]; [simpl in Hl; lia|]. inversion Hnd as [|? ? Hk Hkr]; subst.
  cbn [map combine]. f_equal.
  - unfold rec_val. simpl. now rewrite key_eqb_refl.
  - transitivity (map (fun k0 => (k0, rec_val k0 (combine kr vr))) kr); [|apply IH; [exact Hkr|simpl in Hl; lia]].
    apply map_ext_in. intros a Ha.
    unfold rec_val. simpl. destruct (key_eqb a k) eqn:E; [|reflexivity].
    apply key_eqb_eq in E. subst. contradiction.
Qed.

Lemma pad_length n (vals : list cell) : (n <= length (pad n vals))%nat.
Proof. unfold pad. rewrite app_length, repeat_length. lia. Qed.

Lemma make_record_gen keys cols r : NoDup keys -> NoDup cols -> forallb plain_key cols = true ->
  make_record keys cols (map ty r) = Ok (select cols (rec_of keys r)).
Proof.
  intros Hk Hc Hp. unfold make_record.
  rewrite zip_dict_combine; [|exact Hk|intros k _ []]. cbn [app]. fold (rec_of keys r).
  destruct (keys_eqb cols keys) eqn:E.
  - assert (cols = keys).
    { clear -E. revert keys E. induction cols as [|x c IH]; intros [|y k] E; simpl in E; try discriminate; [reflexivity|].
      apply andb_true_iff in E as [E1 E2]. apply key_eqb_eq in E1. subst. f_equal. now apply IH. }
    subst. unfold rec_of. now rewrite select_self by (exact Hk || apply pad_length).
  - rewrite Hp. now rewrite (fold_select _ cols []) by (exact Hc || intros k _ []).
Qed.

(* ---- lines of a written table ------------------------------------------------------------ *)
Section table.
Variable d : N.
Hypothesis dQ : d <> Q.
Hypothesis d_nocrlf : nocrlf d.

Definition cells_ok (r : list pstr) : Prop := Forall (Forall nocrlf) r.

Lemma nocrlf_Q : nocrlf Q.
Proof. reflexivity. Qed.

Lemma gen_w_nocrlf r : cells_ok r -> Forall nocrlf (gen_w d r).
Proof.
  intros H. unfold gen_w.
  assert (G : Forall nocrlf (gen_g d (needq_w d) r)) by (apply Forall_gen; [apply nocrlf_Q|exact d_nocrlf|exact H]).
  destruct r as [|[|c f] [|g t]]; try exact G. repeat constructor.
Qed.

Lemma nocrlf_not_in c : nocrlf c -> c <> SaveLoad.CR /\ c <> SaveLoad.LF.
Proof.
  unfold nocrlf. intros H. apply mem_chr_false in H. split; intros ->; apply H; simpl; auto.
Qed.

Lemma gen_w_line_ok r : cells_ok r -> line_ok (gen_w d r).
Proof.
  intros H. pose proof (gen_w_nocrlf r H) as G. rewrite Forall_forall in G.
  split; intros Hi; apply G in Hi; apply nocrlf_not_in in Hi; destruct Hi; congruence.
Qed.

Lemma gen_w_nil r : is_nil (gen_w d r) = match r with [] => true | _ => false end.
Proof.
  destruct r as [|[|c f] [|g t]]; try reflexivity.
  - unfold gen_w, gen_g, genf_g. destruct (needq_w d (c :: f)); reflexivity.
  - unfold gen_w. change (gen_g d (needq_w d) ((c :: f) :: g :: t)) with (genf_g (needq_w d) (c :: f) ++ d :: gen_g d (needq_w d) (g :: t)).
    unfold genf_g. destruct (needq_w d (c :: f)); reflexivity.
Qed.

Lemma parse_gen_w_line r : r <> [] -> cells_ok r -> parse_line d (gen_w d r) = Some r.
Proof.
  intros Hr Hc. rewrite <- (app_nil_r (gen_w d r)).
  apply parse_gen_w; auto. constructor.
Qed.

Variable k : N.                      (* codec number: the file is written and read with it *)
Hypothesis G : good_codec (codec_of k).
Variable eol : pstr.
Hypothesis eol_std : eol = [SaveLoad.LF] \/ eol = [SaveLoad.CR; SaveLoad.LF].

Definition read_opts (cn : option (list tstr)) (ch : chdr) (him : option bool) : opts :=
  {| o_cn := cn; o_delim := d; o_ch := ch; o_him := him; o_skip := true;
     o_strip_line := false; o_strip_field := false; o_binary := false; o_codec := k |}.

Lemma std_eol_eol : std_eol eol = true.
Proof. destruct eol_std as [->| ->]; reflexivity. Qed.

(* the lines load_csv sees in the file save_csv wrote are the generated rows *)
Lemma file_lines_written (rows : list (list pstr)) bs cn ch him : rows <> [] ->
  Forall cells_ok rows ->
  enc_chars (codec_of k) (concat (map (fun r => gen_w d r ++ eol) rows)) = Some bs ->
  file_lines (read_opts cn ch him) (c_bom (codec_of k) ++ bs) = Ok (map (gen_w d) rows).
Proof.
  intros Hne Hrows Henc. unfold file_lines. cbn [o_binary o_codec o_strip_line read_opts].
  unfold read_text. rewrite (g_rts _ G _ bs Henc). cbn [bind].
  assert (Hl : Forall line_ok (map (gen_w d) rows)).
  { apply Forall_forall. intros l Hl. apply in_map_iff in Hl as [r [<- Hr]].
    apply gen_w_line_ok. rewrite Forall_forall in Hrows. now apply Hrows. }
  replace (concat (map (fun r => gen_w d r ++ eol) rows))
    with (concat (map (fun l => l ++ eol) (map (gen_w d) rows))) by (now rewrite map_map).
  rewrite lines_as_expansion by exact Hl.
  rewrite univ_expand; [|apply std_eol_eol|].
  - rewrite readlines_lines by (eapply Forall_impl; [|exact Hl]; intros a [_ H]; exact H).
    rewrite map_map. f_equal. rewrite <- (map_id (map (gen_w d) rows)) at 2. apply map_ext_in.
    intros a Ha. rewrite Forall_forall in Hl. destruct (Hl a Ha). now apply rstrip_with_lf.
  - intros Hi. apply in_concat in Hi as [x [Hx Hi]]. apply in_map_iff in Hx as [l [<- Hin]].
    rewrite Forall_forall in Hl. destruct (Hl l Hin) as [H1 _].
    unfold with_lf in Hi. apply in_app_or in Hi as [Hi|[Hi|[]]]; [contradiction|discriminate].
Qed.

Definition nonblank (r : list pstr) : bool := match r with [] => false | _ => true end.

Lemma parse_fields_written cn ch him r : r <> [] -> cells_ok r ->
  parse_fields (read_opts cn ch him) (gen_w d r) = Ok (map ty r).
Proof.
  intros Hr Hc. unfold parse_fields. cbn [o_delim o_binary o_strip_field read_opts].
  rewrite (parse_gen_w_line r Hr Hc). reflexivity.
Qed.

Lemma data_records_written cn ch him H (rows : list (list pstr)) : NoDup H ->
  Forall cells_ok rows ->
  data_records (read_opts cn ch him) (hkeys H) (hkeys H) (map (gen_w d) rows) =
  Ok (map (row_record H) (filter nonblank rows)).
Proof.
  intros Hn. induction 1 as [|r rows Hr Hrows IH]; [reflexivity|].
  cbn [map data_records]. cbn [o_skip read_opts andb]. rewrite gen_w_nil.
  destruct r as [|f t].
  - exact IH.
  - rewrite parse_fields_written by (congruence || exact Hr). cbn [bind].
    rewrite make_record_same by exact Hn. cbn [bind]. rewrite IH. reflexivity.
Qed.

(* save_csv then load_csv, header taken from the file (header_is_mandatory=True
   alone, or the legacy contains_header=True): one record per non-blank row, in
   order, each column name mapped to exactly the saved cell, short rows padded
   with None.  Every delimiter other than the quote / CR / LF, LF and CRLF,
   every good codec (with or without BOM), every table with a non-empty header
   of unique names and cells free of CR / LF. *)
Theorem load_save_header_from_file H (rows : list (list pstr)) ch him bs :
  (ch = ChNone /\ him = Some true) \/ (ch = ChBool true /\ (him = None \/ him = Some true)) ->
  ascii_delim d = true -> H <> [] -> NoDup H -> cells_ok H -> Forall cells_ok rows ->
  enc_chars (codec_of k) (csv_text d eol (map (map Some) (H :: rows))) = Some bs ->
  save_csv H (map (map Some) rows) (codec_of k) eol d = Ok (c_bom (codec_of k) ++ bs) /\
  load_csv (Some (c_bom (codec_of k) ++ bs)) (read_opts None ch him) =
  Ok (map (row_record H) (filter nonblank rows)).
Proof.
  intros Hmode Hd HH Hn HcH Hrows Henc.
  assert (Etext : csv_text d eol (map (map Some) (H :: rows)) =
                  concat (map (fun r => gen_w d r ++ eol) (H :: rows))).
  { unfold csv_text. rewrite map_map. f_equal. apply map_ext. intros r.
    rewrite map_map. simpl. now rewrite map_id. }
  split.
  - unfold save_csv. destruct H as [|h0 ht]; [congruence|].
    change (map Some (h0 :: ht) :: map (map Some) rows) with (map (map Some) ((h0 :: ht) :: rows)).
    unfold enc_res, encode. rewrite Henc. reflexivity.
  - rewrite Etext in Henc. unfold load_csv.
    assert (Hno : norm_opts (o_cn (read_opts None ch him)) (o_ch (read_opts None ch him)) (o_him (read_opts None ch him))
                  = Ok (None, HNone, true)).
    { cbn [o_cn o_ch o_him read_opts]. destruct Hmode as [[-> ->]|[-> [->| ->]]]; reflexivity. }
    rewrite Hno. cbn [bind]. cbn [o_delim read_opts]. rewrite Hd. cbn [negb].
    rewrite (file_lines_written (H :: rows) bs None ch him); [|discriminate|now constructor|exact Henc].
    cbn [bind map drop_blank]. rewrite gen_w_nil. destruct H as [|h0 ht]; [congruence|].
    rewrite parse_fields_written by (congruence || exact HcH). cbn [bind].
    assert (Hd2 : has_dup_t (map ty (h0 :: ht)) = false).
    { destruct (has_dup_t (map ty (h0 :: ht))) eqn:E; [|reflexivity]. exfalso.
      assert (Hn2 : NoDup (map ty (h0 :: ht)))
        by (apply FinFun.Injective_map_NoDup; [intros a b E2; now inversion E2|exact Hn]).
      clear -E Hn2. induction (map ty (h0 :: ht)) as [|x l IH]; [discriminate|].
      simpl in E. inversion Hn2; subst. apply orb_true_iff in E as [E|E].
      - apply mem_t_In in E. contradiction.
      - now apply IH. }
    rewrite (header_from_file _ Hd2).
    now apply data_records_written.
Qed.
Lemma data_records_gen cn ch him keys cols (rows : list (list pstr)) :
  NoDup keys -> NoDup cols -> forallb plain_key cols = true -> Forall cells_ok rows ->
  data_records (read_opts cn ch him) keys cols (map (gen_w d) rows) =
  Ok (map (fun r => select cols (rec_of keys r)) (filter nonblank rows)).
Proof.
  intros Hk Hc Hp. induction 1 as [|r rows Hr Hrows IH]; [reflexivity|].
  cbn [map data_records]. cbn [o_skip read_opts andb]. rewrite gen_w_nil.
  destruct r as [|f t].
  - exact IH.
  - rewrite parse_fields_written by (congruence || exact Hr). cbn [bind].
    rewrite make_record_gen by assumption. cbn [bind]. rewrite IH. reflexivity.
Qed.

Lemma has_dup_t_ty l : NoDup l -> has_dup_t (map ty l) = false.
Proof.
  induction 1 as [|x l Hx Hl IH]; [reflexivity|]. simpl. rewrite IH, orb_false_r.
  destruct (mem_t (ty x) (map ty l)) eqn:E; [|reflexivity]. exfalso.
  apply mem_t_In in E. apply in_map_iff in E as [y [Ey Hy]]. inversion Ey. subst. contradiction.
Qed.

Lemma first_missing_none l first : (forall x, In x l -> In x first) -> first_missing l first = None.
Proof.
  induction l as [|x l IH]; intros H; [reflexivity|]. simpl.
  assert (E : mem_t x first = true) by (apply mem_t_In, H; now left). rewrite E.
  apply IH. intros y Hy. apply H. now right.
Qed.

Lemma first_missing_some l first : (exists x, In x l /\ ~ In x first) ->
  exists y, first_missing l first = Some y /\ In y l /\ ~ In y first.
Proof.
  induction l as [|x l IH]; intros [z [Hz Hn]]; [destruct Hz|]. simpl.
  destruct (mem_t x first) eqn:E.
  - destruct Hz as [->|Hz].
    + apply mem_t_In in E. contradiction.
    + destruct IH as [y [H1 [H2 H3]]]; [now exists z|]. exists y. auto.
  - exists x. repeat split; [now left|]. intros Hi. apply mem_t_In in Hi. congruence.
Qed.

Lemma NoDup_map_inj {A B} (f : A -> B) l : (forall a b, f a = f b -> a = b) -> NoDup l -> NoDup (map f l).
Proof. intros Hf. apply FinFun.Injective_map_NoDup. exact Hf. Qed.

(* hypotheses on a written table, shared by the theorems below *)
Definition table_ok (H : list pstr) (rows : list (list pstr)) : Prop :=
  H <> [] /\ NoDup H /\ cells_ok H /\ Forall cells_ok rows.

Definition written (H : list pstr) (rows : list (list pstr)) (bs : pstr) : Prop :=
  enc_chars (codec_of k) (concat (map (fun r => gen_w d r ++ eol) (H :: rows))) = Some bs.

(* what load_csv does with the file of a table with header H once the options are
   normalised to (cn, h, him): the decision on the parsed header, then the rows *)
Lemma load_written H rows bs cn ch him cn1 h him1 :
  ascii_delim d = true -> table_ok H rows -> written H rows bs ->
  norm_opts cn ch him = Ok (cn1, h, him1) ->
  load_csv (Some (c_bom (codec_of k) ++ bs)) (read_opts cn ch him) =
  match decide cn1 h him1 (map ty H) with
  | Refuse => Raise ExOther
  | DupHeader => Raise ExKey
  | IsHeader keys cols => data_records (read_opts cn ch him) keys cols (map (gen_w d) rows)
  | IsData keys => data_records (read_opts cn ch him) keys keys (map (gen_w d) (H :: rows))
  end.
Proof.
  intros Hd [HH [Hn [HcH Hrows]]] Henc Hno. unfold load_csv.
  cbn [o_cn o_ch o_him read_opts]. rewrite Hno. cbn [bind]. cbn [o_delim read_opts]. rewrite Hd. cbn [negb].
  rewrite (file_lines_written (H :: rows) bs cn ch him); [|discriminate|now constructor|exact Henc].
  cbn [bind map drop_blank]. rewrite gen_w_nil. destruct H as [|h0 ht]; [congruence|].
  rewrite parse_fields_written by (congruence || exact HcH). cbn [bind]. reflexivity.
Qed.

(* Both: the caller's names (any non-empty duplicate-free list of names that all
   occur in the file's header, in any order) select exactly those columns, in
   the requested order, whatever header_is_mandatory. *)
Theorem load_save_select H rows l him bs :
  ascii_delim d = true -> table_ok H rows -> written H rows bs ->
  l <> [] -> NoDup l -> (forall x, In x l -> In x H) -> forallb plain_key (hkeys l) = true ->
  load_csv (Some (c_bom (codec_of k) ++ bs)) (read_opts (Some (map ty l)) ChNone him) =
  Ok (map (fun r => select (hkeys l) (row_record H r)) (filter nonblank rows)).
Proof.
  intros Hd Ht Henc Hl Hnl Hin Hp. destruct Ht as [HH [Hn [HcH Hrows]]].
  rewrite (load_written H rows bs _ _ _ (Some (map ty l)) (HList (map ty l))
             (match him with Some b => b | None => false end)); [|exact Hd|repeat split; assumption|exact Henc|].
  - rewrite names_and_header.
    + apply data_records_gen; [now apply NoDup_hkeys|now apply NoDup_hkeys|exact Hp|exact Hrows].
    + apply first_missing_none. intros x Hx. apply in_map_iff in Hx as [y [<- Hy]]. apply in_map. now apply Hin.
    + now apply has_dup_t_ty.
  - apply norm_names; [destruct l; [congruence|discriminate]|now apply has_dup_t_ty].
Qed.

(* A mandatory header that is missing is refused end to end: some requested
   name (all requested names are non-empty) is not in the file's first line. *)
Theorem load_refuses_missing H rows l bs :
  ascii_delim d = true -> table_ok H rows -> written H rows bs ->
  NoDup l -> Forall (fun n => n <> []) l -> (exists x, In x l /\ ~ In x H) ->
  load_csv (Some (c_bom (codec_of k) ++ bs)) (read_opts (Some (map ty l)) ChNone (Some true)) = Raise ExOther.
Proof.
  intros Hd Ht Henc Hnl Hne [x [Hx Hnx]].
  assert (Hl : l <> []) by (intros ->; destruct Hx).
  rewrite (load_written H rows bs _ _ _ (Some (map ty l)) (HList (map ty l)) true); [|exact Hd|exact Ht|exact Henc|].
  - rewrite mandatory_missing_refused; [reflexivity|]. unfold header_missing.
    destruct (first_missing_some (map ty l) (map ty H)) as [y [E [Hy _]]].
    { exists (ty x). split; [now apply in_map|]. intros Hi. apply in_map_iff in Hi as [z [Ez Hz]]. inversion Ez. now subst. }
    rewrite E. apply in_map_iff in Hy as [n [<- Hn]]. rewrite Forall_forall in Hne. specialize (Hne n Hn).
    unfold t_truthy, ty. simpl. destruct n; [congruence|reflexivity].
  - apply (norm_names (map ty l) (Some true)); [destruct l; [congruence|discriminate]|now apply has_dup_t_ty].
Qed.

(* Without a header (nothing declared, header not mandatory) every non-blank
   line, the first included, is a record keyed by position; the width is that
   of the first line. *)
Theorem load_save_positional r0 rows ch him bs :
  (ch = ChNone \/ ch = ChBool false) -> (him = None \/ him = Some false) ->
  ascii_delim d = true -> r0 <> [] -> cells_ok r0 -> Forall cells_ok rows ->
  enc_chars (codec_of k) (concat (map (fun r => gen_w d r ++ eol) (r0 :: rows))) = Some bs ->
  load_csv (Some (c_bom (codec_of k) ++ bs)) (read_opts None ch him) =
  Ok (map (rec_of (map KInt (seq 0 (length r0)))) (r0 :: filter nonblank rows)).
Proof.
  intros Hch Hhim Hd Hr0 Hc0 Hrows Henc. unfold load_csv.
  assert (Hno : norm_opts None ch him = Ok (None, HNone, false))
    by (destruct Hch as [->| ->], Hhim as [->| ->]; reflexivity).
  cbn [o_cn o_ch o_him read_opts]. rewrite Hno. cbn [bind]. cbn [o_delim read_opts]. rewrite Hd. cbn [negb].
  rewrite (file_lines_written (r0 :: rows) bs None ch him); [|discriminate|now constructor|exact Henc].
  cbn [bind map drop_blank]. rewrite gen_w_nil. destruct r0 as [|c0 ct]; [congruence|].
  rewrite parse_fields_written by (congruence || exact Hc0). cbn [bind].
  rewrite no_header_positional. rewrite map_length.
  change (gen_w d (c0 :: ct) :: map (gen_w d) rows) with (map (gen_w d) ((c0 :: ct) :: rows)).
  assert (Hk : NoDup (map KInt (seq 0 (length (c0 :: ct)))))
    by (apply NoDup_map_inj; [intros a b E; now inversion E|apply seq_NoDup]).
  rewrite (data_records_gen None ch him _ _ ((c0 :: ct) :: rows) Hk Hk); [| |now constructor].
  - cbn [filter nonblank map]. f_equal. f_equal.
    + unfold rec_of. apply select_self; [exact Hk|apply pad_length].
    + apply map_ext. intros r. unfold rec_of. apply select_self; [exact Hk|apply pad_length].
  - clear. induction (seq 0 (length (c0 :: ct))) as [|n l IH]; [reflexivity|exact IH].
Qed.
End table.

(* ---- LF / CRLF and BOM ---------------------------------------------------------------------- *)
Lemma expand_lf_id s : expand one [10] s = s.
Proof.
  induction s as [|c s IH]; [reflexivity|]. rewrite expand_cons, IH.
  destruct (N.eqb_spec c 10) as [->|_]; reflexivity.
Qed.

(* In text mode the result does not depend on whether the lines of the file end
   in LF or CRLF: for every text T without CR, every option set, every good
   codec. *)
Theorem lf_crlf_same (o : opts) T b1 b2 :
  o_binary o = false -> good_codec (codec_of (o_codec o)) -> ~ In SaveLoad.CR T ->
  enc_chars (codec_of (o_codec o)) T = Some b1 ->
  enc_chars (codec_of (o_codec o)) (expand one [SaveLoad.CR; SaveLoad.LF] T) = Some b2 ->
  load_csv (Some (c_bom (codec_of (o_codec o)) ++ b2)) o =
  load_csv (Some (c_bom (codec_of (o_codec o)) ++ b1)) o.
Proof.
  intros Hb G Hcr H1 H2.
  assert (E : file_lines o (c_bom (codec_of (o_codec o)) ++ b2) = file_lines o (c_bom (codec_of (o_codec o)) ++ b1)).
  { unfold file_lines. rewrite Hb. unfold read_text.
    rewrite (g_rts _ G _ b2 H2), (g_rts _ G _ b1 H1). cbn [bind].
    rewrite univ_expand by (reflexivity || exact Hcr).
    rewrite <- (expand_lf_id T) at 2. rewrite univ_expand by (reflexivity || exact Hcr). reflexivity. }
  unfold load_csv. now rewrite E.
Qed.

(* With the utf-8-sig codec (load_csv's default) a file with and without a BOM
   give the same result in text mode. *)
Lemma utf8sig_decs_bom b : startswith b BOM = false -> bom_prefix b = false ->
  utf8sig_decs (BOM ++ b) = utf8sig_decs b.
Proof.
  intros Hs Hp. unfold utf8sig_decs. rewrite Hp. change (bom_prefix (BOM ++ b)) with false. cbv iota.
  unfold utf8sig_dec. rewrite startswith_app, Hs. reflexivity.
Qed.

Theorem bom_same (o : opts) b s :
  o_binary o = false -> o_codec o = 1 -> startswith b BOM = false -> bom_prefix b = false ->
  utf8_dec b = Some s ->
  load_csv (Some (BOM ++ b)) o = load_csv (Some b) o.
Proof.
  intros Hb Hc Hs Hp Hd.
  assert (E : file_lines o (BOM ++ b) = file_lines o b).
  { unfold file_lines. rewrite Hb, Hc. unfold read_text. change (c_decs (codec_of 1)) with utf8sig_decs.
    rewrite (utf8sig_decs_bom b Hs Hp).
    assert (E0 : utf8sig_decs b = Some s)
      by (unfold utf8sig_decs; rewrite Hp; unfold utf8sig_dec; rewrite Hs; exact Hd).
    rewrite E0. reflexivity. }
  unfold load_csv. now rewrite E.
Qed.

(* ---- non-vacuity ------------------------------------------------------------------------------ *)
Example c14_example :
  let H := [[65]; [66]] in
  let rows := [[[120; 44; 121]; [34; 113]]; []; [[233]]] in
  (exists bs, enc_chars utf8 (csv_text 44 [13; 10] (map (map Some) (H :: rows))) = Some bs) /\
  save_csv H (map (map Some) rows) utf8 [13; 10] 44 =
    Ok [65; 44; 66; 13; 10; 34; 120; 44; 121; 34; 44; 34; 34; 34; 113; 34; 13; 10; 13; 10; 195; 169; 13; 10] /\
  load_csv (Some [65; 44; 66; 13; 10; 34; 120; 44; 121; 34; 44; 34; 34; 34; 113; 34; 13; 10; 13; 10; 195; 169; 13; 10])
           (read_opts 44 0 None ChNone (Some true)) =
    Ok [row_record H [[120; 44; 121]; [34; 113]]; row_record H [[233]]] /\
  row_record H [[233]] = [(KT (false, [65]), Some (false, [233])); (KT (false, [66]), None)] /\
  header_missing (HList [(false, [65]); (false, [90])]) [(false, [65]); (false, [66])] = true /\
  load_csv (Some [65; 44; 66; 10; 49; 44; 50; 10])
           (read_opts 44 1 (Some [(false, [65]); (false, [90])]) ChNone (Some true)) = Raise ExOther.
Proof. cbv zeta. repeat split; try (eexists; vm_compute; reflexivity); vm_compute; reflexivity. Qed.
