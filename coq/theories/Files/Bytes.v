(* Files/Bytes.v — the text codecs named by the quantifier of C15 (utf-8,
   utf-8-sig, latin-1, cp1252) as executable Gallina functions, in the shape the
   proofs need: an encoder is a per-character function [N -> option bytes]
   (every monoid morphism out of the free monoid of code points is of that
   form; None = UnicodeEncodeError), optionally preceded by a byte-order mark
   (utf-8-sig); a decoder is a total function on byte strings
   (None = UnicodeDecodeError).  External behaviour (CPython's codecs) is
   modelled here and validated by the [codec] correspondence stream of C15 on
   every run; the theorems of SaveLoadProofs are stated for an arbitrary codec
   record satisfying the hypotheses [good_codec], and UTF-8 / Latin-1 are shown
   to satisfy them in BytesProofs. *)
From Coq Require Import List NArith Bool.
From N0 Require Import Base.PyStr.
Import ListNotations.
Local Open Scope N_scope.

Record codec := {
  c_ench : N -> option pstr;      (* one code point -> its bytes *)
  c_bom  : pstr;                  (* written once in front (utf-8-sig), else [] *)
  c_dec  : pstr -> option pstr;   (* bytes.decode(encoding), one shot *)
  c_decs : pstr -> option pstr    (* what the text layer's incremental decoder yields for the whole file *)
}.

Fixpoint enc_chars (c : codec) (s : pstr) : option pstr :=
  match s with
  | [] => Some []
  | x :: r =>
    match c_ench c x, enc_chars c r with
    | Some b, Some br => Some (b ++ br)
    | _, _ => None
    end
  end.

(* str.encode(encoding): one-shot, the BOM (if any) in front, also for "" *)
Definition encode (c : codec) (s : pstr) : option pstr :=
  match enc_chars c s with Some b => Some (c_bom c ++ b) | None => None end.

(* ---- UTF-8 ------------------------------------------------------------------- *)
Definition utf8_ench (x : N) : option pstr :=
  if x <? 128 then Some [x]
  else if x <? 2048 then Some [192 + x / 64; 128 + x mod 64]
  else if x <? 65536 then
    if (55296 <=? x) && (x <? 57344) then None      (* surrogates *)
    else Some [224 + x / 4096; 128 + (x / 64) mod 64; 128 + x mod 64]
  else if x <? 1114112 then
    Some [240 + x / 262144; 128 + (x / 4096) mod 64; 128 + (x / 64) mod 64; 128 + x mod 64]
  else None.

Definition is_cont (b : N) : bool := (128 <=? b) && (b <? 192).

Definition ocons (x : N) (o : option pstr) : option pstr :=
  match o with Some r => Some (x :: r) | None => None end.

(* strict decoder: rejects overlong forms, surrogates, > U+10FFFF, truncation,
   stray continuation bytes — as CPython's 'strict' utf-8 decoder does *)
Fixpoint utf8_dec (b : pstr) : option pstr :=
  match b with
  | [] => Some []
  | b0 :: r =>
    if b0 <? 128 then ocons b0 (utf8_dec r)
    else if b0 <? 194 then None
    else if b0 <? 224 then
      match r with
      | b1 :: r1 => if is_cont b1 then ocons ((b0 - 192) * 64 + (b1 - 128)) (utf8_dec r1) else None
      | _ => None
      end
    else if b0 <? 240 then
      match r with
      | b1 :: b2 :: r2 =>
        if is_cont b1 && is_cont b2
           && negb ((b0 =? 224) && (b1 <? 160))
           && negb ((b0 =? 237) && (160 <=? b1))
        then ocons ((b0 - 224) * 4096 + (b1 - 128) * 64 + (b2 - 128)) (utf8_dec r2)
        else None
      | _ => None
      end
    else if b0 <? 245 then
      match r with
      | b1 :: b2 :: b3 :: r3 =>
        if is_cont b1 && is_cont b2 && is_cont b3
           && negb ((b0 =? 240) && (b1 <? 144))
           && negb ((b0 =? 244) && (144 <=? b1))
        then ocons ((b0 - 240) * 262144 + (b1 - 128) * 4096 + (b2 - 128) * 64 + (b3 - 128)) (utf8_dec r3)
        else None
      | _ => None
      end
    else None
  end.

Definition utf8 : codec := {| c_ench := utf8_ench; c_bom := []; c_dec := utf8_dec; c_decs := utf8_dec |}.

Definition BOM : pstr := [239; 187; 191].

(* utf-8-sig: decoding drops one leading BOM if present *)
Definition utf8sig_dec (b : pstr) : option pstr :=
  if startswith b BOM then utf8_dec (skipn 3 b) else utf8_dec b.
(* CPython's incremental utf-8-sig decoder keeps a proper prefix of the BOM in its
   buffer waiting for more data, also at end of file: such a file reads as "" *)
Definition bom_prefix (b : pstr) : bool := pstr_eqb b [239] || pstr_eqb b [239; 187].
Definition utf8sig_decs (b : pstr) : option pstr := if bom_prefix b then Some [] else utf8sig_dec b.
Definition utf8sig : codec := {| c_ench := utf8_ench; c_bom := BOM; c_dec := utf8sig_dec; c_decs := utf8sig_decs |}.

(* ---- Latin-1 ----------------------------------------------------------------- *)
Definition latin1_ench (x : N) : option pstr := if x <? 256 then Some [x] else None.
Fixpoint latin1_dec (b : pstr) : option pstr :=
  match b with
  | [] => Some []
  | x :: r => if x <? 256 then ocons x (latin1_dec r) else None
  end.
Definition latin1 : codec := {| c_ench := latin1_ench; c_bom := []; c_dec := latin1_dec; c_decs := latin1_dec |}.

(* ---- cp1252 ------------------------------------------------------------------ *)
(* bytes 0x80..0x9F; 0 = undefined in CPython's cp1252 (0x81 0x8D 0x8F 0x90 0x9D) *)
Definition cp1252_hi : list N :=
  [8364; 0; 8218; 402; 8222; 8230; 8224; 8225; 710; 8240; 352; 8249; 338; 0; 381; 0;
   0; 8216; 8217; 8220; 8221; 8226; 8211; 8212; 732; 8482; 353; 8250; 339; 0; 382; 376].

Definition cp1252_dec1 (b : N) : option N :=
  if b <? 128 then Some b
  else if b <? 160 then
    match nth_error cp1252_hi (N.to_nat (b - 128)) with
    | Some 0 => None
    | Some u => Some u
    | None => None
    end
  else if b <? 256 then Some b
  else None.

Fixpoint index_of (x : N) (l : list N) (i : N) : option N :=
  match l with
  | [] => None
  | y :: r => if x =? y then Some i else index_of x r (i + 1)
  end.

Definition cp1252_ench (x : N) : option pstr :=
  if x <? 128 then Some [x]
  else if x <? 160 then None
  else if x <? 256 then Some [x]
  else match index_of x cp1252_hi 128 with Some b => Some [b] | None => None end.

Fixpoint cp1252_dec (b : pstr) : option pstr :=
  match b with
  | [] => Some []
  | x :: r => match cp1252_dec1 x with Some u => ocons u (cp1252_dec r) | None => None end
  end.
Definition cp1252 : codec := {| c_ench := cp1252_ench; c_bom := []; c_dec := cp1252_dec; c_decs := cp1252_dec |}.

(* the harness names codecs by number *)
Definition codec_of (n : N) : codec :=
  match n with
  | 0 => utf8
  | 1 => utf8sig
  | 2 => latin1
  | _ => cp1252
  end.
