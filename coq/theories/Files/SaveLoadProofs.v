(* Files/SaveLoadProofs.v — C15: what save_file puts on disk and what load_file /
   load_lines read back, for every codec satisfying [good_codec] (UTF-8,
   UTF-8-sig and Latin-1 are shown to in BytesProofs). *)
From Coq Require Import List NArith ZArith Bool Lia.
From N0 Require Import Base.PyStr Base.PyVal Files.Bytes Files.Util Files.BytesProofs Files.SaveLoad.
Import ListNotations.
Local Open Scope N_scope.

Arguments N.eqb : simpl never.

(* ---- the mode strings of the quantifier ------------------------------------------- *)
Definition trunc_modes : list pstr :=
  [[ch_t]; [ch_b]; [ch_w; ch_t]; [ch_w; ch_b]; [ch_w]; [ch_t; ch_plus]; [ch_b; ch_plus];
   [ch_w; ch_plus]; [ch_w; ch_t; ch_plus]; [ch_w; ch_b; ch_plus]].
Definition append_modes : list pstr :=
  [[ch_a; ch_t]; [ch_a; ch_b]; [ch_a]; [ch_a; ch_plus]; [ch_a; ch_t; ch_plus]; [ch_a; ch_b; ch_plus]].

Definition mode_kind (m : pstr) : option omode :=
  if mem_str m trunc_modes then Some MWrite
  else if mem_str m append_modes then Some MAppend else None.

Arguments norm_mode : simpl never.

Lemma mem_str_In m l : mem_str m l = true -> In m l.
Proof.
  unfold mem_str. rewrite existsb_exists. intros [x [Hx E]]. apply pstr_eqb_eq in E. now subst.
Qed.

Ltac by_modes H :=
  unfold mode_kind in H;
  match type of H with
  | (if mem_str ?m trunc_modes then _ else _) = _ =>
    let T := fresh "T" in let A := fresh "A" in
    destruct (mem_str m trunc_modes) eqn:T;
    [ apply mem_str_In in T | destruct (mem_str m append_modes) eqn:A; [apply mem_str_In in A|discriminate] ]
  end.

Ltac each_mode T := simpl in T; repeat (destruct T as [ <- | T ]); [..|destruct T].

(* text path: the normalised mode opens a text handle of the expected kind *)
Lemma mode_text m om : mode_kind m = Some om -> mem_chr ch_b (norm_mode m) = false ->
  parse_mode (norm_mode m) = Ok (om, false).
Proof.
  intros H. by_modes H.
  - inversion H; subst om. each_mode T; intros Hb; vm_compute in Hb; try discriminate; reflexivity.
  - inversion H; subst om. each_mode A; intros Hb; vm_compute in Hb; try discriminate; reflexivity.
Qed.

(* binary path: mode[0] + 'b' + mode[2:] opens a binary handle of the expected kind *)
Lemma mode_bin m om : mode_kind m = Some om ->
  exists m3, set_b (norm_mode m) = Ok m3 /\ mem_chr ch_b m3 = true /\ set_b m3 = Ok m3 /\
             parse_mode m3 = Ok (om, true).
Proof.
  intros H. by_modes H.
  - inversion H; subst om. each_mode T; eexists; (split; [reflexivity|]); repeat split; reflexivity.
  - inversion H; subst om. each_mode A; eexists; (split; [reflexivity|]); repeat split; reflexivity.
Qed.

Lemma mode_kind_not_read m om : mode_kind m = Some om -> om <> MRead.
Proof.
  unfold mode_kind. destruct (mem_str m trunc_modes); [congruence|].
  destruct (mem_str m append_modes); congruence.
Qed.

(* ---- standard EOLs ------------------------------------------------------------------ *)
Lemma std_eol_cases e : std_eol e = true -> e = [CR; LF] \/ e = [LF] \/ e = [CR].
Proof.
  unfold std_eol. intros H. apply orb_true_iff in H as [H|H]; [apply orb_true_iff in H as [H|H]|];
    apply pstr_eqb_eq in H; auto.
Qed.

Lemma std_eol_ascii e : std_eol e = true -> Forall (fun x => x < 128) e.
Proof. intros H. destruct (std_eol_cases e H) as [ -> | [ -> | -> ] ]; repeat constructor. Qed.

(* ---- universal newlines invert the expansion ---------------------------------------- *)
Lemma univ_cons c r : univ (c :: r) =
  if c =? CR then LF :: match r with d :: r' => if d =? LF then univ r' else univ r | [] => [] end
  else c :: univ r.
Proof. reflexivity. Qed.

Lemma expand_cons f e c s : expand f e (c :: s) = (if N.eqb c 10 then e else f c) ++ expand f e s.
Proof. reflexivity. Qed.
Lemma univ_crlf r : univ (CR :: LF :: r) = LF :: univ r.
Proof. reflexivity. Qed.
Lemma univ_lf r : univ (LF :: r) = LF :: univ r.
Proof. reflexivity. Qed.
Lemma univ_other c r : c <> CR -> univ (c :: r) = c :: univ r.
Proof. intros H. rewrite univ_cons. destruct (N.eqb_spec c CR); [contradiction|reflexivity]. Qed.
Lemma univ_cr r : (forall x t, r = x :: t -> x <> LF) -> univ (CR :: r) = LF :: univ r.
Proof.
  intros H. rewrite univ_cons. change (CR =? CR) with true. cbv iota.
  destruct r as [|x t]; [reflexivity|].
  destruct (N.eqb_spec x LF) as [E|E]; [exfalso; eapply H; eauto|reflexivity].
Qed.
Lemma expand_cr_hd s x t : expand one [CR] s = x :: t -> x <> LF.
Proof.
  destruct s as [|c s]; [discriminate|]. rewrite expand_cons.
  destruct (N.eqb_spec c 10) as [E|E].
  - intros H. inversion H. discriminate.
  - change (one c) with [c]. intros H. inversion H. subst. exact E.
Qed.

Lemma univ_expand e s : std_eol e = true -> ~ In CR s -> univ (expand one e s) = s.
Proof.
  intros He. induction s as [|c s IH]; intros H; [reflexivity|].
  assert (Hs : ~ In CR s) by (intros Hi; apply H; now right).
  assert (Hc : c <> CR) by (intros ->; apply H; now left).
  rewrite expand_cons. destruct (N.eqb_spec c 10) as [->|Hn].
  - destruct (std_eol_cases e He) as [ -> | [ -> | -> ] ]; cbn [app].
    + now rewrite univ_crlf, IH.
    + change 10 with LF. now rewrite univ_lf, IH.
    + rewrite univ_cr by (intros x t; apply expand_cr_hd). now rewrite IH.
  - change (one c) with [c]. cbn [app]. rewrite univ_other by exact Hc. now rewrite IH.
Qed.

(* ---- readline splitting ------------------------------------------------------------------ *)
Lemma readlines_aux_line l : forall rest cur, ~ In LF l ->
  readlines_aux (l ++ LF :: rest) cur = (rev cur ++ l ++ [LF]) :: readlines_aux rest [].
Proof.
  induction l as [|c l IH]; intros rest cur H; simpl.
  - change (LF =? LF) with true. cbv iota. simpl. reflexivity.
  - destruct (N.eqb_spec c LF) as [->|Hc]; [exfalso; apply H; now left|].
    rewrite IH by (intros Hi; apply H; now right). simpl. now rewrite <- app_assoc.
Qed.

Definition with_lf (l : pstr) : pstr := l ++ [LF].

Lemma readlines_lines lines : Forall (fun l => ~ In LF l) lines ->
  readlines (concat (map with_lf lines)) = map with_lf lines.
Proof.
  unfold readlines. induction 1 as [|l r Hl Hr IH]; [reflexivity|].
  simpl. unfold with_lf at 1. rewrite <- app_assoc. simpl.
  rewrite readlines_aux_line by exact Hl. simpl. now rewrite IH.
Qed.

Lemma lstrip_cons cs x t : lstrip_set cs (x :: t) = if mem_chr x cs then lstrip_set cs t else x :: t.
Proof. reflexivity. Qed.

Lemma rstrip_with_lf l : ~ In CR l -> ~ In LF l -> rstrip_set [CR; LF] (with_lf l) = l.
Proof.
  intros H1 H2. unfold rstrip_set, with_lf. rewrite rev_app_distr.
  change (rev [LF] ++ rev l) with (LF :: rev l).
  rewrite lstrip_cons. change (mem_chr LF [CR; LF]) with true. cbv iota.
  assert (G : lstrip_set [CR; LF] (rev l) = rev l).
  { destruct (rev l) as [|x t] eqn:E; [reflexivity|]. rewrite lstrip_cons.
    assert (Hx : In x l) by (apply in_rev; rewrite E; now left).
    assert (M : mem_chr x [CR; LF] = false).
    { apply mem_chr_false. intros [<-|[<-|[]]]; contradiction. }
    now rewrite M. }
  rewrite G. apply rev_involutive.
Qed.

(* ---- the text layer's writes --------------------------------------------------------------- *)
Lemma text_writes_ok c nl : forall ws first bs,
  enc_chars c (concat (map (translate nl) ws)) = Some bs ->
  text_writes c nl first ws =
  Ok ((match ws with [] => [] | _ => if first then c_bom c else [] end) ++ bs).
Proof.
  induction ws as [|w ws IH]; intros first bs H; simpl in *.
  - apply Some_inj in H. now subst.
  - rewrite enc_chars_app in H.
    destruct (enc_chars c (translate nl w)) as [b|]; [|discriminate].
    destruct (enc_chars c (concat (map (translate nl) ws))) as [br|] eqn:Er; [|discriminate].
    apply Some_inj in H. subst bs. rewrite (IH false br eq_refl). simpl.
    destruct ws; simpl; now rewrite ?app_nil_r.
Qed.

Lemma translate_line nl l : ~ In LF l -> translate nl l = l.
Proof.
  intros H. unfold translate. change [LF] with [10]. rewrite replace_chr_expand.
  rewrite expand_no_lf by exact H. apply flat_map_one.
Qed.

Lemma translate_lf nl : translate nl [LF] = nl.
Proof.
  unfold translate. change [LF] with [10]. rewrite replace_chr_expand. unfold expand. simpl.
  change (10 =? 10) with true. cbv iota. apply app_nil_r.
Qed.

(* ---- the guard on text and EOL ------------------------------------------------------------ *)
(* standard EOL: the text has no CR; custom EOL: some character of the EOL other
   than "\n" does not occur in the text *)
Definition eol_ok (eol s : pstr) : bool :=
  if std_eol eol then negb (mem_chr CR s) else has_marker eol s.

Definition ascii (e : pstr) : Prop := Forall (fun x => x < 128) e.

Section codec.
Variable c : codec.
Hypothesis G : good_codec c.

Lemma encT_lf : encT c 10 = [10].
Proof. unfold encT. rewrite (g_ascii c G 10); [reflexivity|reflexivity]. Qed.

Lemma expand_encT_lf s : expand (encT c) [10] s = flat_map (encT c) s.
Proof.
  induction s as [|x s IH]; [reflexivity|]. unfold expand in *. simpl. rewrite IH.
  destruct (N.eqb_spec x 10) as [->|_]; [now rewrite encT_lf|reflexivity].
Qed.

Lemma enc_res_ascii e : ascii e -> enc_res c e = Ok (c_bom c ++ e).
Proof. intros H. unfold enc_res, encode. now rewrite (enc_chars_ascii c e G H). Qed.

(* save_file followed by load_file with the same EOL and encoding returns the
   text; the bytes on disk are the text with every "\n" replaced by the EOL, in
   the requested encoding.  Every truncating mode of the quantifier, both
   paths (text layer with newline=EOL / manual replacement and binary write),
   standard and custom EOL, any previous file content. *)
Theorem save_load_text disk s m eol bs0 :
  mode_kind m = Some MWrite -> ascii eol -> eol_ok eol s = true ->
  enc_chars c s = Some bs0 ->
  exists d, encode c (replace s [LF] eol) = Some d /\
            save_file disk (PStr s) m c eol = Ok (Some d) /\
            load_file (Some d) [ch_t] c eol = Ok (LStr s).
Proof.
  intros Hm Ha Hok Hs.
  change [LF] with [10]. rewrite replace_chr_expand.
  pose proof (enc_chars_expand c eol s bs0 G Ha Hs) as HB.
  set (T := expand one eol s) in *. set (B := expand (encT c) eol s) in *.
  exists (c_bom c ++ B). split; [unfold encode; now rewrite HB|]. split.
  - (* what save_file writes *)
    unfold save_file, save_file_gen. cbn [bind].
    destruct (mem_chr ch_b (norm_mode m) || negb (std_eol eol)) eqn:P.
    + destruct (mode_bin m MWrite Hm) as [m3 [E1 [_ [_ E3]]]]. rewrite E1. cbn [bind].
      change [LF] with [10]. rewrite replace_chr_expand. fold T.
      unfold enc_res at 1. unfold encode. rewrite HB. cbn [bind].
      rewrite (enc_res_ascii eol Ha). cbn [bind]. rewrite E3. cbn [bind fst].
      unfold after_write. now rewrite app_nil_l.
    + apply orb_false_iff in P as [P1 P2]. rewrite (mode_text m MWrite Hm P1). cbn [bind fst].
      rewrite (text_writes_ok c eol [s] true B).
      * cbn [bind]. unfold after_write. now rewrite app_nil_l.
      * simpl. rewrite app_nil_r. unfold translate. change [LF] with [10].
        rewrite replace_chr_expand. exact HB.
  - (* what load_file reads *)
    unfold load_file, eol_ok in *. change (mem_chr ch_b [ch_t]) with false. cbn [orb].
    destruct (std_eol eol) eqn:Hstd; cbn [negb].
    + (* text layer, universal newlines *)
      change (open_read (Some (c_bom c ++ B)) (ch_r :: ch_t :: skipn 1 [ch_t])) with (@Ok pstr (c_bom c ++ B)).
      cbn [bind]. unfold decs_res. rewrite (g_rts c G T B HB). cbn [bind].
      unfold T. rewrite univ_expand; [reflexivity|exact Hstd|].
      apply mem_chr_false. now destruct (mem_chr CR s).
    + (* binary read, EOL replaced back *)
      change (open_read (Some (c_bom c ++ B)) (ch_r :: ch_b :: skipn 1 [ch_t])) with (@Ok pstr (c_bom c ++ B)).
      cbn [bind]. change (mem_chr ch_t [ch_t]) with true. cbv iota.
      rewrite (encode_utf8_ascii eol Ha).
      destruct (has_marker_split _ _ Hok) as [u [mk [v [-> [Hu [Hmk Hnin]]]]]].
      assert (Hlt : mk < 128).
      { unfold ascii in Ha. rewrite Forall_forall in Ha. apply Ha. apply in_or_app. right. now left. }
      destruct (u ++ mk :: v) as [|e0 et] eqn:Ee; [destruct u; discriminate|]. rewrite <- Ee.
      unfold B. rewrite Ee at 1. rewrite <- Ee.
      rewrite (collapse_prefix (encT c) u v mk Hu Hmk).
      * rewrite expand_encT_lf. rewrite <- (enc_chars_flat c s bs0 Hs).
        unfold dec_res. rewrite (g_rt c G s bs0 Hs). reflexivity.
      * intros Hi. pose proof (g_bom_hi c G) as Hb. rewrite Forall_forall in Hb.
        specialize (Hb mk Hi). lia.
      * intros x Hx _ Hi. unfold encT in Hi. destruct (c_ench c x) as [bx|] eqn:Ex; [|destruct Hi].
        pose proof (g_transp c G x bx mk Ex Hi Hlt). subst x. contradiction.
Qed.

(* bytes payloads are stored verbatim whatever the mode letter, and load back
   verbatim in binary read mode *)
Theorem save_load_bytes disk b m eol e :
  mode_kind m = Some MWrite -> encode c eol = Some e ->
  save_file disk (PBytes b) m c eol = Ok (Some b) /\
  forall c' eol', load_file (Some b) [ch_b] c' eol' = Ok (LBytes b).
Proof.
  intros Hm He. split; [|reflexivity].
  unfold save_file, save_file_gen.
  destruct (mode_bin m MWrite Hm) as [m3 [E1 [E2 [E3 E4]]]].
  rewrite E1. cbn [bind]. rewrite E2. cbn [orb]. rewrite E3. cbn [bind].
  unfold enc_res. rewrite He. cbn [bind]. rewrite E4. cbn [bind fst].
  unfold after_write. now rewrite app_nil_l.
Qed.

(* append mode adds to the existing content *)
Theorem append_adds_bytes disk b m eol e :
  mode_kind m = Some MAppend -> encode c eol = Some e ->
  save_file disk (PBytes b) m c eol = Ok (Some (content disk ++ b)).
Proof.
  intros Hm He.
  unfold save_file, save_file_gen.
  destruct (mode_bin m MAppend Hm) as [m3 [E1 [E2 [E3 E4]]]].
  rewrite E1. cbn [bind]. rewrite E2. cbn [orb]. rewrite E3. cbn [bind].
  unfold enc_res. rewrite He. cbn [bind]. rewrite E4. cbn [bind fst]. reflexivity.
Qed.

Theorem append_adds_text disk s m eol bs0 :
  mode_kind m = Some MAppend -> ascii eol -> enc_chars c s = Some bs0 ->
  exists pre w, (pre = [] \/ pre = c_bom c) /\
    enc_chars c (replace s [LF] eol) = Some w /\
    save_file disk (PStr s) m c eol = Ok (Some (content disk ++ pre ++ w)).
Proof.
  intros Hm Ha Hs.
  change [LF] with [10]. rewrite replace_chr_expand.
  pose proof (enc_chars_expand c eol s bs0 G Ha Hs) as HB.
  set (B := expand (encT c) eol s) in *.
  unfold save_file, save_file_gen. cbn [bind].
  destruct (mem_chr ch_b (norm_mode m) || negb (std_eol eol)) eqn:P.
  - exists (c_bom c), B. split; [now right|]. split; [exact HB|].
    destruct (mode_bin m MAppend Hm) as [m3 [E1 [_ [_ E3]]]]. rewrite E1. cbn [bind].
    change [LF] with [10]. rewrite replace_chr_expand.
    unfold enc_res at 1. unfold encode. rewrite HB. cbn [bind].
    rewrite (enc_res_ascii eol Ha). cbn [bind]. rewrite E3. cbn [bind fst]. reflexivity.
  - apply orb_false_iff in P as [P1 P2]. rewrite (mode_text m MAppend Hm P1). cbn [bind fst].
    exists (if match content disk with [] => true | _ => false end then c_bom c else []), B.
    split; [destruct (content disk); auto|]. split; [exact HB|].
    rewrite (text_writes_ok c eol [s] _ B).
    + cbn [bind]. reflexivity.
    + simpl. rewrite app_nil_r. unfold translate. change [LF] with [10].
      rewrite replace_chr_expand. exact HB.
Qed.

(* a list of lines is stored one line per EOL (text path: BOM once, if any), and
   load_lines returns exactly those lines, for the standard line endings *)
Definition line_ok (l : pstr) : Prop := ~ In CR l /\ ~ In LF l.

Lemma text_lines_strs lines :
  text_lines c (map IStr lines) = Ok (flat_map (fun l => [l; [LF]]) lines).
Proof. induction lines as [|l r IH]; [reflexivity|]. simpl. rewrite IH. reflexivity. Qed.

Lemma concat_translate eol lines : Forall line_ok lines ->
  concat (map (translate eol) (flat_map (fun l => [l; [LF]]) lines)) =
  concat (map (fun l => l ++ eol) lines).
Proof.
  induction 1 as [|l r [_ Hl] Hr IH]; [reflexivity|]. simpl.
  rewrite translate_line by exact Hl. rewrite translate_lf, IH. now rewrite <- app_assoc.
Qed.

Lemma lines_as_expansion eol lines : Forall line_ok lines ->
  concat (map (fun l => l ++ eol) lines) = expand one eol (concat (map with_lf lines)).
Proof.
  induction 1 as [|l r [_ Hl] Hr IH]; [reflexivity|]. simpl. rewrite IH.
  unfold with_lf at 2. rewrite !expand_app. rewrite (expand_no_lf one eol l Hl). rewrite flat_map_one.
  unfold expand at 2. simpl. change (LF =? 10) with true. cbv iota. now rewrite app_nil_r, <- app_assoc.
Qed.

(* reading back a file that holds the lines, one per standard EOL *)
Lemma load_lines_written lines eol bs :
  std_eol eol = true -> Forall line_ok lines ->
  enc_chars c (concat (map (fun l => l ++ eol) lines)) = Some bs ->
  load_lines (Some ((match lines with [] => [] | _ => c_bom c end) ++ bs)) [ch_t] c eol = Ok (LLStr lines).
Proof.
  intros Hstd Hl Henc. set (d := (match lines with [] => [] | _ => c_bom c end) ++ bs).
  unfold load_lines. change (mem_chr ch_b [ch_t]) with false. rewrite Hstd. cbn [orb negb].
  change (open_read (Some d) [ch_r; ch_t]) with (@Ok pstr d). cbn [bind].
  assert (Hd : decs_res c d = Ok (concat (map (fun l => l ++ eol) lines))).
  { unfold d, decs_res. destruct lines as [|l0 r0].
    - simpl in Henc. apply Some_inj in Henc. subst bs. simpl. now rewrite (g_decs_nil c G).
    - now rewrite (g_rts c G _ bs Henc). }
  rewrite Hd. cbn [bind]. rewrite lines_as_expansion by exact Hl.
  rewrite univ_expand; [|exact Hstd|].
  + rewrite readlines_lines by (eapply Forall_impl; [|exact Hl]; intros a [_ H]; exact H).
    rewrite map_map.
    assert (M : map (fun x => rstrip_set [CR; LF] (with_lf x)) lines = lines).
    { rewrite <- (map_id lines) at 2. apply map_ext_in.
      intros a Ha. rewrite Forall_forall in Hl. destruct (Hl a Ha). now apply rstrip_with_lf. }
    now rewrite M.
  + intros Hi. apply in_concat in Hi as [x [Hx Hi]]. apply in_map_iff in Hx as [l [<- Hin]].
    rewrite Forall_forall in Hl. destruct (Hl l Hin) as [H1 _].
    unfold with_lf in Hi. apply in_app_or in Hi as [Hi|[Hi|[]]]; [contradiction|discriminate].
Qed.

Theorem save_lines_load_lines disk lines m eol bs :
  mode_kind m = Some MWrite -> mem_chr ch_b (norm_mode m) = false -> std_eol eol = true ->
  Forall line_ok lines ->
  enc_chars c (concat (map (fun l => l ++ eol) lines)) = Some bs ->
  let d := (match lines with [] => [] | _ => c_bom c end) ++ bs in
  save_file disk (PList (map IStr lines)) m c eol = Ok (Some d) /\
  load_lines (Some d) [ch_t] c eol = Ok (LLStr lines).
Proof.
  intros Hm Hb Hstd Hl Henc d. split; [|now apply load_lines_written].
  unfold save_file, save_file_gen. cbn [bind].
  rewrite Hb, Hstd. cbn [orb negb]. rewrite (mode_text m MWrite Hm Hb). cbn [bind fst].
  rewrite text_lines_strs. cbn [bind].
  rewrite (text_writes_ok c eol _ true bs) by (now rewrite concat_translate).
  cbn [bind]. unfold after_write. rewrite app_nil_l. unfold d.
  destruct lines; reflexivity.
Qed.

(* the same list through the binary path (mode with 'b'): one line per EOL
   provided the codec has no BOM — with utf-8-sig every chunk gets its own BOM
   (known finding C15/bom-per-chunk, witness in Refuted/C15.v) *)
Lemma bin_lines_strs eolb lines bs : c_bom c = [] ->
  enc_chars c (concat (map (fun l => l ++ eolb) lines)) = Some bs -> ascii eolb ->
  bin_lines c eolb (map IStr lines) = Ok bs.
Proof.
  intros Hbom. revert bs; induction lines as [|l r IH]; intros bs H Ha.
  - simpl in *. apply Some_inj in H. now subst.
  - change (enc_chars c ((l ++ eolb) ++ concat (map (fun l0 => l0 ++ eolb) r)) = Some bs) in H.
    rewrite <- app_assoc, !enc_chars_app in H.
    destruct (enc_chars c l) as [bl|] eqn:El; [|discriminate].
    rewrite (enc_chars_ascii c eolb G Ha) in H.
    destruct (enc_chars c (concat (map (fun l0 => l0 ++ eolb) r))) as [br|] eqn:Er; [|discriminate].
    apply Some_inj in H. subst bs.
    change (bin_lines c eolb (map IStr (l :: r))) with
      (do b <- enc_res c l ;; do rest <- bin_lines c eolb (map IStr r) ;; Ok (b ++ eolb ++ rest)).
    unfold enc_res, encode. rewrite El, Hbom. cbn [bind app].
    rewrite (IH br eq_refl Ha). cbn [bind]. reflexivity.
Qed.

Theorem save_lines_binary disk lines m eol bs :
  mode_kind m = Some MWrite -> mem_chr ch_b (norm_mode m) = true -> ascii eol ->
  c_bom c = [] ->
  enc_chars c (concat (map (fun l => l ++ eol) lines)) = Some bs ->
  save_file disk (PList (map IStr lines)) m c eol = Ok (Some bs).
Proof.
  intros Hm Hb Ha Hbom Henc.
  unfold save_file, save_file_gen. cbn [bind]. rewrite Hb. cbn [orb].
  destruct (mode_bin m MWrite Hm) as [m3 [E1 [_ [_ E3]]]]. rewrite E1. cbn [bind].
  rewrite (enc_res_ascii eol Ha). cbn [bind]. rewrite E3. cbn [bind fst]. rewrite Hbom. cbn [app].
  rewrite (bin_lines_strs eol lines bs Hbom Henc Ha). cbn [bind].
  unfold after_write. now rewrite app_nil_l.
Qed.

Theorem save_lines_binary_load_lines disk lines m eol bs :
  mode_kind m = Some MWrite -> mem_chr ch_b (norm_mode m) = true -> std_eol eol = true ->
  c_bom c = [] -> Forall line_ok lines ->
  enc_chars c (concat (map (fun l => l ++ eol) lines)) = Some bs ->
  save_file disk (PList (map IStr lines)) m c eol = Ok (Some bs) /\
  load_lines (Some bs) [ch_t] c eol = Ok (LLStr lines).
Proof.
  intros Hm Hb Hstd Hbom Hl Henc. split.
  - apply save_lines_binary; auto. now apply std_eol_ascii.
  - pose proof (load_lines_written lines eol bs Hstd Hl Henc) as H. rewrite Hbom in H.
    destruct lines; exact H.
Qed.

(* a dict is stored as its "key=value" lines joined by "\n" (then as a text) *)
Theorem save_dict disk kvs m eol :
  save_file disk (PDict kvs) m c eol = save_file disk (PStr (dict_text kvs)) m c eol.
Proof. reflexivity. Qed.

(* a list of bytes lines through the binary path: each line verbatim followed by
   the EOL (BOM-less codec) *)
Lemma bin_lines_bytes eolb ls :
  bin_lines c eolb (map IBytes ls) = Ok (concat (map (fun b => b ++ eolb) ls)).
Proof.
  induction ls as [|b r IH]; [reflexivity|]. cbn [map bin_lines bind]. rewrite IH. cbn [bind concat map].
  now rewrite <- app_assoc.
Qed.

Theorem save_bytes_lines disk ls m eol :
  mode_kind m = Some MWrite -> ascii eol -> c_bom c = [] ->
  mem_chr ch_b (norm_mode m) || negb (std_eol eol) = true ->
  save_file disk (PList (map IBytes ls)) m c eol = Ok (Some (concat (map (fun b => b ++ eol) ls))).
Proof.
  intros Hm Ha Hbom P.
  unfold save_file, save_file_gen. cbn [bind]. rewrite P.
  destruct (mode_bin m MWrite Hm) as [m3 [E1 [_ [_ E3]]]]. rewrite E1. cbn [bind].
  rewrite (enc_res_ascii eol Ha). cbn [bind]. rewrite E3. cbn [bind fst]. rewrite Hbom. cbn [app].
  rewrite bin_lines_bytes. cbn [bind]. unfold after_write. now rewrite app_nil_l.
Qed.

End codec.

(* ---- durability --------------------------------------------------------------------------- *)
(* In the model the written data reach the file when the handle is closed: the
   variant of save_file that returns without closing (the code before the
   repair) leaves on disk exactly what was there when the handle was opened —
   nothing for a truncating mode, the old content for append — while the
   repaired save_file leaves base ++ everything written. *)
Lemma after_write_unclosed disk om w : om <> MRead ->
  after_write false disk om w = Some [] \/ after_write false disk om w = Some (content disk).
Proof. destruct om; [congruence|left|right]; reflexivity. Qed.

Theorem unclosed_keeps_nothing c disk p m eol d :
  save_file_gen false disk p m c eol = Ok d -> d = Some [] \/ d = Some (content disk).
Proof.
  unfold save_file_gen.
  set (m1 := norm_mode m).
  destruct (match p with PBytes _ => set_b m1 | _ => Ok m1 end) as [m2| | |]; cbn [bind]; try discriminate.
  destruct (mem_chr ch_b m2 || negb (std_eol eol)).
  - destruct (set_b m2) as [m3| | |]; cbn [bind]; try discriminate.
    destruct (match match p with PDict kvs => PStr (dict_text kvs) | _ => p end with
              | PStr s => _ | _ => _ end) as [p2| | |]; cbn [bind]; try discriminate.
    destruct (enc_res c eol) as [eb| | |]; cbn [bind]; try discriminate.
    destruct (parse_mode m3) as [[om b]| | |]; cbn [bind fst]; try discriminate.
    destruct om; try discriminate.
    + destruct (match p2 with PBytes b0 => _ | _ => _ end) as [w| | |]; cbn [bind]; try discriminate.
      intros H. inversion H. now left.
    + destruct (match p2 with PBytes b0 => _ | _ => _ end) as [w| | |]; cbn [bind]; try discriminate.
      intros H. inversion H. now right.
  - destruct (parse_mode m2) as [[om b]| | |]; cbn [bind fst]; try discriminate.
    destruct om; try discriminate.
    + destruct (match match p with PDict kvs => PStr (dict_text kvs) | _ => p end with
                | PStr s => _ | _ => _ end) as [ws| | |]; cbn [bind]; try discriminate.
      destruct (text_writes c eol _ ws) as [w| | |]; cbn [bind]; try discriminate.
      intros H. inversion H. now left.
    + destruct (match match p with PDict kvs => PStr (dict_text kvs) | _ => p end with
                | PStr s => _ | _ => _ end) as [ws| | |]; cbn [bind]; try discriminate.
      destruct (text_writes c eol _ ws) as [w| | |]; cbn [bind]; try discriminate.
      intros H. inversion H. now right.
Qed.

(* ---- non-vacuity ----------------------------------------------------------------------------- *)
Example c15_example :
  let s := [97; 10; 233; 8364; 10; 10; 98] in
  mode_kind [ch_w; ch_t] = Some MWrite /\ mode_kind [ch_b] = Some MWrite /\
  eol_ok [CR; LF] s = true /\ eol_ok [60; 69; 79; 76; 62] s = true /\ eol_ok [LF; CR] s = true /\
  (exists bs, enc_chars utf8 s = Some bs) /\
  save_file None (PStr s) [ch_w; ch_t] utf8 [CR; LF]
    = Ok (Some [97; 13; 10; 195; 169; 226; 130; 172; 13; 10; 13; 10; 98]) /\
  save_file (Some [1]) (PStr s) [ch_b] utf8sig [60; 69; 79; 76; 62]
    = Ok (Some [239; 187; 191; 97; 60; 69; 79; 76; 62; 195; 169; 226; 130; 172; 60; 69; 79; 76; 62; 60; 69; 79; 76; 62; 98]) /\
  load_file (Some [239; 187; 191; 97; 60; 69; 79; 76; 62; 195; 169; 226; 130; 172; 60; 69; 79; 76; 62; 60; 69; 79; 76; 62; 98])
    [ch_t] utf8sig [60; 69; 79; 76; 62] = Ok (LStr s) /\
  Forall line_ok [[97]; []; [233]] /\
  load_lines (Some [97; 13; 13; 233; 13]) [ch_t] latin1 [CR] = Ok (LLStr [[97]; []; [233]]).
Proof.
  cbv zeta. repeat split; try (vm_compute; reflexivity); try (eexists; vm_compute; reflexivity).
  repeat constructor; intros H; simpl in H; repeat (destruct H as [H|H]; [discriminate|]); exact H.
Qed.
