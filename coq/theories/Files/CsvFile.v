(* Files/CsvFile.v — model of n0struct_files_csv.load_csv (option normalisation,
   the header decision on the first non-empty line, record construction with
   None padding and column selection) and save_csv (csv.writer per row), as
   repaired by the two "fix:" commits for C14 (a bool contains_header is copied
   into an absent header_is_mandatory; save_csv accepts zero rows).
   Strings carry a type tag because the code compares caller-supplied names
   (str, or bytes for binary mode) with fields read from the file (str in text
   mode, bytes in binary mode) and str never equals bytes in Python.
   The per-line parser is Codec.Csv.parse_line (C13), the codecs and the text
   layer on read are those of Files/Bytes.v and Files/SaveLoad.v. *)
From Coq Require Import List NArith ZArith Bool.
From N0 Require Import Base.PyStr Base.PyVal Codec.Csv Files.Bytes Files.SaveLoad.
Import ListNotations.
Local Open Scope N_scope.

(* ---- typed strings, keys, cells ---------------------------------------------------- *)
Definition tstr : Type := (bool * pstr)%type.          (* (true, b) = bytes; (false, s) = str *)
Definition tstr_eqb (a b : tstr) : bool := Bool.eqb (fst a) (fst b) && pstr_eqb (snd a) (snd b).
Definition mem_t (x : tstr) (l : list tstr) : bool := existsb (tstr_eqb x) l.
Fixpoint has_dup_t (l : list tstr) : bool :=
  match l with [] => false | x :: r => mem_t x r || has_dup_t r end.

Inductive key := KT (s : tstr) | KInt (n : nat).
Definition key_eqb (a b : key) : bool :=
  match a, b with
  | KT x, KT y => tstr_eqb x y
  | KInt n, KInt m => Nat.eqb n m
  | _, _ => false
  end.

Definition cell := option tstr.                         (* None = Python None *)
Definition record := list (key * cell).

(* contains_header as the caller passes it *)
Inductive chdr := ChNone | ChBool (b : bool) | ChStr (s : pstr) | ChList (l : list tstr).
(* ... and after normalisation *)
Inductive chn := HNone | HStr (s : pstr) | HList (l : list tstr).

Record opts := {
  o_cn : option (list tstr);      (* column_names *)
  o_delim : N;                    (* delimiter (one ASCII character) *)
  o_ch : chdr;                    (* contains_header *)
  o_him : option bool;            (* header_is_mandatory *)
  o_skip : bool;                  (* skip_empty_lines *)
  o_strip_line : bool;
  o_strip_field : bool;
  o_binary : bool;                (* read_mode 'b' *)
  o_codec : N                     (* encoding (text mode), numbered as in Files.Bytes.codec_of *)
}.

(* ---- option normalisation (lines 140-181 of the repaired code) ------------------------ *)
Definition ch_truthy (ch : chdr) : bool :=
  match ch with
  | ChNone => false | ChBool b => b
  | ChStr s => match s with [] => false | _ => true end
  | ChList l => match l with [] => false | _ => true end
  end.

Definition of_cn (cn : option (list tstr)) : chn :=
  match cn with Some l => HList l | None => HNone end.

Definition norm_opts (cn : option (list tstr)) (ch : chdr) (him : option bool)
  : res (option (list tstr) * chn * bool)%type :=
  let him1 := match him with
              | Some b => b
              | None => match ch with ChBool b => b | _ => false end
              end in
  do cn1 <- (match cn with
             | None => Ok None
             | Some [] => Ok None
             | Some ((c0 :: _) as l) =>
               if has_dup_t l then Raise ExSyntax
               else if ch_truthy ch then
                 match ch with
                 | ChStr s => if tstr_eqb c0 (false, s) then Ok (Some l) else Raise ExSyntax
                 | ChList m => if forallb (fun x => mem_t x l) m then Ok (Some l) else Raise ExSyntax
                 | _ => Ok (Some l)
                 end
               else Ok (Some l)
             end) ;;
  match ch with
  | ChBool b => if Bool.eqb him1 b then Ok (cn1, of_cn cn1, him1) else Raise ExSyntax
  | ChList [] | ChStr [] | ChNone => Ok (cn1, of_cn cn1, him1)
  | ChList m => if has_dup_t m then Raise ExSyntax else Ok (cn1, HList m, him1)
  | ChStr s => Ok (cn1, HStr s, him1)
  end.

(* ---- the decision on the first non-empty line (lines 228-265) ---------------------------- *)
Inductive decision :=
| Refuse                                   (* ReferenceError: mandatory header missing *)
| DupHeader                                (* KeyError: mandatory header with repeated names *)
| IsHeader (keys : list key) (cols : list key)
| IsData (keys : list key).                (* first line is re-read as data; cols = keys *)

Fixpoint first_missing (m first : list tstr) : option tstr :=
  match m with
  | [] => None
  | x :: r => if mem_t x first then first_missing r first else Some x
  end.

Definition t_truthy (x : tstr) : bool := match snd x with [] => false | _ => true end.

Definition decide (cn : option (list tstr)) (h : chn) (him : bool) (first : list tstr) : decision :=
  let is_header :=
      match h with
      | HStr s =>
        match first with
        | f0 :: _ => if tstr_eqb f0 (false, s) then Some true else if him then None else Some false
        | [] => Some false
        end
      | HList m =>
        match first_missing m first with
        | Some x => if t_truthy x then (if him then None else Some false) else Some true
        | None => Some true
        end
      | HNone => Some (him && match cn with None => true | Some _ => false end)
      end in
  match is_header with
  | None => Refuse
  | Some false =>
    IsData (match cn with
            | Some l => map KT l
            | None => map KInt (seq 0 (length first))
            end)
  | Some true =>
    if him && has_dup_t first then DupHeader
    else IsHeader (map KT first) (match cn with Some l => map KT l | None => map KT first end)
  end.

(* ---- records ---------------------------------------------------------------------------- *)
(* dict(zip(keys, values)): a repeated key keeps its first position, last value *)
Fixpoint rec_set (k : key) (v : cell) (r : record) : record :=
  match r with
  | [] => [(k, v)]
  | (k', v') :: t => if key_eqb k k' then (k', v) :: t else (k', v') :: rec_set k v t
  end.

Fixpoint zip_dict (keys : list key) (vals : list cell) (acc : record) : record :=
  match keys, vals with
  | k :: kr, v :: vr => zip_dict kr vr (rec_set k v acc)
  | _, _ => acc
  end.

Fixpoint rec_get (k : key) (r : record) : option cell :=
  match r with
  | [] => None
  | (k', v) :: t => if key_eqb k k' then Some v else rec_get k t
  end.

(* n0dict.get(key): plain lookup unless key is a str that starts with '?' or
   contains '/' or '[' (xpath syntax: not modelled) *)
Definition plain_key (k : key) : bool :=
  match k with
  | KT (false, s) => negb (mem_chr 47 s || mem_chr 91 s || match s with 63 :: _ => true | _ => false end)
  | _ => true
  end.

(* d.get(key): the value, or None for a missing key *)
Definition rec_val (k : key) (d : record) : cell := match rec_get k d with Some v => v | None => None end.

Definition pad (n : nat) (vals : list cell) : list cell := vals ++ repeat None (n - length vals).

Fixpoint keys_eqb (a b : list key) : bool :=
  match a, b with
  | [], [] => true
  | x :: a', y :: b' => key_eqb x y && keys_eqb a' b'
  | _, _ => false
  end.

Definition make_record (keys cols : list key) (fields : list tstr) : res record :=
  let d := zip_dict keys (pad (length keys) (map Some fields)) [] in
  if keys_eqb cols keys then Ok d
  else if forallb plain_key cols then
    Ok (fold_left (fun acc k => rec_set k (rec_val k d) acc) cols [])
  else Unmodelled.

(* ---- lines ------------------------------------------------------------------------------ *)
Definition bytes_ws : list N := [32; 9; 10; 13; 11; 12].
Definition strip_t (binary : bool) (s : pstr) : pstr :=
  if binary then strip_set bytes_ws s else strip s.

(* the lines readline() yields, each rstrip("\r\n")-ed and passed through process_line *)
(* The text layer decodes chunk-wise and keeps an incomplete multi-byte sequence
   at the very end of the file pending until end of file is reached, so that an
   exception of the header decision can pre-empt the UnicodeDecodeError: when
   the whole file does not decode but the file minus its last 1..3 bytes does,
   the outcome depends on that laziness and is not modelled. *)
Definition drop_last (n : nat) (b : pstr) : pstr := firstn (length b - n) b.
Definition seq_len (b0 : N) : nat :=
  if b0 <? 194 then 0 else if b0 <? 224 then 2 else if b0 <? 240 then 3 else if b0 <? 245 then 4 else 0.
(* the last n bytes start a UTF-8 sequence that is longer than n, and the rest decodes *)
Definition trunc_tail (c : codec) (b : pstr) : bool :=
  existsb (fun n => match c_decs c (drop_last n b) with
                    | Some _ => match skipn (length b - n) b with
                                | t0 :: _ => Nat.ltb n (seq_len t0)
                                | [] => false
                                end
                    | None => false
                    end) [1; 2; 3]%nat.
Definition read_text (k : N) (b : pstr) : res pstr :=
  match c_decs (codec_of k) b with
  | Some s => Ok (univ s)
  | None => if (k <? 2) && trunc_tail (codec_of k) b then Unmodelled else Raise ExValue
  end.

Definition file_lines (o : opts) (b : pstr) : res (list pstr) :=
  do text <- (if o_binary o then Ok b else read_text (o_codec o) b) ;;
  Ok (map (fun l => let l1 := rstrip_set [13; 10] l in
                    if o_strip_line o then strip_t (o_binary o) l1 else l1)
          (readlines text)).

Definition is_nil (s : pstr) : bool := match s with [] => true | _ => false end.

Fixpoint drop_blank (ls : list pstr) : list pstr :=
  match ls with
  | l :: r => if is_nil l then drop_blank r else ls
  | [] => []
  end.

Definition parse_fields (o : opts) (line : pstr) : res (list tstr) :=
  match parse_line (o_delim o) line with
  | Some fs => Ok (map (fun f => (o_binary o, if o_strip_field o then strip_t (o_binary o) f else f)) fs)
  | None => Raise ExValue
  end.

Fixpoint data_records (o : opts) (keys cols : list key) (ls : list pstr) : res (list record) :=
  match ls with
  | [] => Ok []
  | l :: r =>
    if o_skip o && is_nil l then data_records o keys cols r
    else
      do fs <- parse_fields o l ;;
      do rec <- make_record keys cols fs ;;
      do rest <- data_records o keys cols r ;;
      Ok (rec :: rest)
  end.

(* ---- load_csv --------------------------------------------------------------------------- *)
Definition ascii_delim (d : N) : bool := (d <? 128) && negb (d =? 10) && negb (d =? 13).

Definition load_csv (disk : option pstr) (o : opts) : res (list record) :=
  do n <- norm_opts (o_cn o) (o_ch o) (o_him o) ;;
  let '(cn, h, him) := n in
  if negb (ascii_delim (o_delim o)) then Unmodelled else
  match disk with
  | None => Raise ExOther                                    (* FileNotFoundError *)
  | Some b =>
    do ls <- file_lines o b ;;
    match drop_blank ls with
    | [] => Raise ExOther                                    (* EOFError: empty file *)
    | hl :: rest =>
      do first <- parse_fields o hl ;;
      match decide cn h him first with
      | Refuse => Raise ExOther                              (* ReferenceError *)
      | DupHeader => Raise ExKey
      | IsHeader keys cols => data_records o keys cols rest
      | IsData keys => data_records o keys keys (hl :: rest)
      end
    end
  end.

(* ---- save_csv --------------------------------------------------------------------------- *)
(* csv.writer(delimiter, lineterminator=EOL): header (if truthy) then the rows,
   cells str or None (written as ""), on a text file opened with newline='' *)
Definition cell_text (c : option pstr) : pstr := match c with Some s => s | None => [] end.
Definition csv_text (d : N) (eol : pstr) (rows : list (list (option pstr))) : pstr :=
  concat (map (fun r => gen_w d (map cell_text r) ++ eol) rows).

Definition save_csv (header : list pstr) (rows : list (list (option pstr))) (c : codec) (eol : pstr) (d : N)
  : res pstr :=
  let all_rows := match header with [] => rows | _ => map Some header :: rows end in
  (* TextIOWrapper: nothing is encoded (no BOM) unless something is written *)
  match all_rows with
  | [] => Ok []
  | _ => enc_res c (csv_text d eol all_rows)
  end.

(* ---- observations ----------------------------------------------------------------------- *)
Definition t_tstr (x : tstr) : tree := if fst x then Leaf (SBytes (snd x)) else Leaf (SStr (snd x)).
Definition t_key (k : key) : tree := match k with KT x => t_tstr x | KInt n => Leaf (SInt (Z.of_nat n)) end.
Definition t_cell (c : cell) : tree := match c with Some x => t_tstr x | None => Leaf SNone end.
Definition t_record (r : record) : tree := Lst false (map (fun kv => Lst false [t_key (fst kv); t_cell (snd kv)]) r).
Definition t_records (l : list record) : tree := Lst false (map t_record l).

Definition obs_load_csv (x : (option pstr * opts)%type) : out :=
  do l <- load_csv (fst x) (snd x) ;; Ok (t_records l).

(* table: header, rows, codec number, EOL, delimiter *)
Definition table_in : Type := ((((list pstr * list (list (option pstr))) * N) * pstr) * N)%type.

Definition obs_save_csv (x : table_in) : out :=
  let '((((h, rows), cn), eol), d) := x in
  do b <- save_csv h rows (codec_of cn) eol d ;; Ok (Leaf (SBytes b)).

(* save_csv then load_csv: file bytes and records *)
Definition obs_csv_rt (x : (table_in * opts)%type) : out :=
  let '(((((h, rows), cn), eol), d), o) := x in
  do b <- save_csv h rows (codec_of cn) eol d ;;
  wrap t_records (load_csv (Some b) o) (fun a => Ok (Lst false [Leaf (SBytes b); a])).
