(* Files/Util.v — string lemmas the file proofs stand on: fuel-independence and
   unfolding of Base.PyStr.replace, newline expansion as a flat_map, the
   "unique marker character" argument by which replacing a multi-character EOL
   back to "\n" inverts the expansion (char level and byte level), universal
   newlines, readline splitting. *)
From Coq Require Import List NArith Bool Lia Arith PeanoNat.
From N0 Require Import Base.PyStr.
Import ListNotations.

Arguments N.eqb : simpl never.

(* ---- generic list facts ------------------------------------------------------ *)
Lemma first_occ_unique {A} (m : A) a b a' b' :
  a ++ m :: b = a' ++ m :: b' -> ~ In m a -> ~ In m a' -> a = a' /\ b = b'.
Proof.
  revert a'; induction a as [|x a IH]; intros [|y a'] E Ha Ha'; simpl in *.
  - inversion E. auto.
  - inversion E; subst. exfalso. apply Ha'. now left.
  - inversion E; subst. exfalso. apply Ha. now left.
  - inversion E; subst. destruct (IH a' H1) as [-> ->]; auto.
Qed.

Lemma in_split_first (m : N) l : In m l -> exists p q, l = p ++ m :: q /\ ~ In m p.
Proof.
  induction l as [|x l IH]; intros H; [destruct H|].
  destruct (N.eq_dec x m) as [->|Hne].
  - exists [], l. split; [reflexivity|intros []].
  - destruct H as [H|H]; [congruence|]. destruct (IH H) as [p [q [-> Hp]]].
    exists (x :: p), q. split; [reflexivity|]. intros [E|E]; [congruence|auto].
Qed.

Lemma startswith_false_len s p : length s < length p -> startswith s p = false.
Proof.
  revert s; induction p as [|c p IH]; intros s H; simpl in *; [lia|].
  destruct s as [|d s]; [reflexivity|]. simpl in H. rewrite IH by lia. apply andb_false_r.
Qed.

Lemma startswith_true_skipn s p : startswith s p = true -> s = p ++ skipn (length p) s.
Proof.
  revert s; induction p as [|c p IH]; intros s H; simpl in *; [reflexivity|].
  destruct s as [|d s]; [discriminate|]. apply andb_true_iff in H as [H1 H2].
  apply N.eqb_eq in H1. subst. simpl. f_equal. now apply IH.
Qed.

(* ---- replace: fuel independence and unfolding ----------------------------------- *)
Section replace.
Variables old new : pstr.
Hypothesis old_ne : old <> [].

Lemma skipn_old_len (c : N) (s : pstr) : length (skipn (length old) (c :: s)) <= length s.
Proof.
  destruct old as [|o r]; [congruence|]. simpl. rewrite skipn_length. lia.
Qed.

Lemma replace_aux_fuel : forall f1 f2 s, length s <= f1 -> length s <= f2 ->
  replace_aux f1 s old new = replace_aux f2 s old new.
Proof.
  induction f1 as [|f1 IH]; intros f2 s H1 H2.
  - destruct s; [|simpl in H1; lia]. destruct f2; reflexivity.
  - destruct s as [|c s]; [destruct f2; reflexivity|].
    destruct f2 as [|f2]; [simpl in H2; lia|]. simpl in H1, H2.
    cbn [replace_aux]. destruct (startswith (c :: s) old).
    + f_equal. pose proof (skipn_old_len c s). apply IH; lia.
    + f_equal. apply IH; lia.
Qed.

Lemma replace_eq s : replace s old new = replace_aux (length s) s old new.
Proof. unfold replace. destruct old; [congruence|reflexivity]. Qed.

Lemma replace_nil : replace [] old new = [].
Proof. rewrite replace_eq. reflexivity. Qed.

Lemma replace_hit r : replace (old ++ r) old new = new ++ replace r old new.
Proof.
  rewrite !replace_eq.
  assert (L : 1 <= length old) by (destruct old; [congruence|simpl; lia]).
  destruct (old ++ r) as [|o w] eqn:W.
  - apply app_eq_nil in W as [W _]. congruence.
  - assert (Lw : length old + length r = S (length w)) by (rewrite <- app_length, W; reflexivity).
    cbn [length replace_aux]. rewrite <- W. rewrite startswith_app. f_equal.
    rewrite skipn_app, skipn_all, Nat.sub_diag. simpl.
    apply replace_aux_fuel; lia.
Qed.

Lemma replace_miss c s : startswith (c :: s) old = false ->
  replace (c :: s) old new = c :: replace s old new.
Proof.
  intros H. rewrite !replace_eq. cbn [length replace_aux]. rewrite H. reflexivity.
Qed.
End replace.

(* replacing a single character is a flat_map *)
Definition expand (f : N -> pstr) (e : pstr) (s : pstr) : pstr :=
  flat_map (fun c => if N.eqb c 10 then e else f c) s.
Definition one (c : N) : pstr := [c].

Lemma replace_chr_expand e s : replace s [10%N] e = expand one e s.
Proof.
  induction s as [|c s IH]; [apply replace_nil; discriminate|].
  destruct (N.eqb c 10) eqn:E.
  - apply N.eqb_eq in E. subst. change (10%N :: s) with ([10%N] ++ s).
    rewrite replace_hit by discriminate. rewrite IH. unfold expand. simpl. reflexivity.
  - rewrite replace_miss; [|discriminate|].
    + rewrite IH. unfold expand. simpl. rewrite E. reflexivity.
    + simpl. rewrite N.eqb_sym, E. reflexivity.
Qed.

Lemma expand_app f e a b : expand f e (a ++ b) = expand f e a ++ expand f e b.
Proof. apply flat_map_app. Qed.

Lemma expand_no_lf f e s : ~ In 10%N s -> expand f e s = flat_map f s.
Proof.
  induction s as [|c s IH]; intros H; [reflexivity|]. unfold expand in *. simpl.
  destruct (N.eqb c 10) eqn:E.
  - apply N.eqb_eq in E. subst. exfalso. apply H. now left.
  - rewrite IH; [reflexivity|]. intros Hi. apply H. now right.
Qed.

Lemma flat_map_one s : flat_map one s = s.
Proof. induction s as [|c s IH]; [reflexivity|]. simpl. now rewrite IH. Qed.

(* ---- the marker argument ----------------------------------------------------------- *)
(* E = u ++ m :: v, this being the first occurrence of m in E, m <> "\n"; the
   chunks [f c] of the characters of s other than "\n" do not contain m.  Then scanning
   [expand f E s] for E finds exactly the copies of E. *)
Section marker.
Variable f : N -> pstr.
Variables u v : pstr.
Variable m : N.
Let E := u ++ m :: v.
Hypothesis m_u : ~ In m u.
Hypothesis m_lf : m <> 10%N.

Definition chunks_ok (s : pstr) : Prop := forall c, In c s -> c <> 10%N -> ~ In m (f c).

(* the first m of R is at distance >= |u| *)
Definition far (R : pstr) : Prop := forall p q, R = p ++ m :: q -> ~ In m p -> length u <= length p.

Lemma E_ne : E <> [].
Proof. unfold E. destruct u; discriminate. Qed.

Lemma far_expand s : chunks_ok s -> far (expand f E s).
Proof.
  induction s as [|c s IH]; intros Hok p q Heq Hp.
  - destruct p; discriminate.
  - assert (Hok' : chunks_ok s) by (intros x Hx; apply Hok; now right).
    unfold expand in Heq. simpl in Heq. fold (expand f E s) in Heq.
    destruct (N.eqb c 10) eqn:Ec.
    + unfold E in Heq. rewrite <- app_assoc in Heq. simpl in Heq.
      apply first_occ_unique in Heq as [-> _]; auto.
    + assert (Hfc : ~ In m (f c)).
      { apply Hok; [now left|]. intros ->. now rewrite N.eqb_refl in Ec. }
      assert (Hin : In m (expand f E s)).
      { assert (H : In m (f c ++ expand f E s)) by (rewrite Heq; apply in_or_app; right; now left).
        apply in_app_or in H as [H|H]; [contradiction|exact H]. }
      destruct (in_split_first _ _ Hin) as [p' [q' [Hs Hp']]].
      rewrite Hs in Heq. rewrite app_assoc in Heq.
      apply first_occ_unique in Heq as [<- _]; auto.
      * rewrite app_length. specialize (IH Hok' p' q' Hs Hp'). lia.
      * intros H. apply in_app_or in H as [H|H]; contradiction.
Qed.

Lemma no_match W R x : ~ In m (x :: W) -> far R -> startswith (x :: W ++ R) E = false.
Proof.
  intros HW HR. destruct (startswith (x :: W ++ R) E) eqn:S; [|reflexivity]. exfalso.
  apply startswith_spec in S as [r Hr]. unfold E in Hr. rewrite <- app_assoc in Hr. simpl in Hr.
  assert (Hin : In m R).
  { assert (H : In m ((x :: W) ++ R)) by (change ((x :: W) ++ R) with (x :: W ++ R); rewrite Hr; apply in_or_app; right; now left).
    apply in_app_or in H as [H|H]; [contradiction|exact H]. }
  destruct (in_split_first _ _ Hin) as [p [q [Hs Hp]]].
  change (x :: W ++ R) with ((x :: W) ++ R) in Hr. rewrite Hs, app_assoc in Hr.
  apply first_occ_unique in Hr as [Hu _]; auto.
  - specialize (HR p q Hs Hp). rewrite <- Hu, app_length in HR. simpl in HR. lia.
  - intros H. apply in_app_or in H as [H|H]; contradiction.
Qed.

Lemma skip_chunk new W R : ~ In m W -> far R -> replace (W ++ R) E new = W ++ replace R E new.
Proof.
  induction W as [|x W IH]; intros HW HR; [reflexivity|].
  simpl. rewrite replace_miss; [|apply E_ne|apply no_match; assumption].
  rewrite IH; [reflexivity| |exact HR]. intros H. apply HW. now right.
Qed.

(* collapsing the copies of E back to "\n" leaves the chunks *)
Lemma collapse s : chunks_ok s ->
  replace (expand f E s) E [10%N] = expand f [10%N] s.
Proof.
  induction s as [|c s IH]; intros Hok; [apply replace_nil, E_ne|].
  assert (Hok' : chunks_ok s) by (intros x Hx; apply Hok; now right).
  unfold expand. simpl. fold (expand f E s). fold (expand f [10%N] s).
  destruct (N.eqb c 10) eqn:Ec.
  - rewrite replace_hit by apply E_ne. now rewrite IH.
  - rewrite skip_chunk; [now rewrite IH| |now apply far_expand].
    apply Hok; [now left|]. intros ->. now rewrite N.eqb_refl in Ec.
Qed.

Lemma collapse_prefix W s : ~ In m W -> chunks_ok s ->
  replace (W ++ expand f E s) E [10%N] = W ++ expand f [10%N] s.
Proof.
  intros HW Hok. rewrite skip_chunk; [|exact HW|now apply far_expand]. now rewrite collapse.
Qed.
End marker.

(* the boolean guard: some character of e other than "\n" does not occur in s *)
Definition marker_of (s : pstr) (c : N) : bool := negb (N.eqb c 10) && negb (mem_chr c s).
Definition has_marker (e s : pstr) : bool := existsb (marker_of s) e.

Lemma has_marker_split e s : has_marker e s = true ->
  exists u m v, e = u ++ m :: v /\ ~ In m u /\ m <> 10%N /\ ~ In m s.
Proof.
  unfold has_marker. rewrite existsb_exists. intros [m [Hin H]]. unfold marker_of in H.
  apply andb_true_iff in H as [H1 H2].
  destruct (in_split_first _ _ Hin) as [u [v [-> Hu]]].
  exists u, m, v. repeat split; auto.
  - intros ->. now rewrite N.eqb_refl in H1.
  - apply mem_chr_false. now destruct (mem_chr m s).
Qed.

(* the lemma the custom-EOL path stands on, at character level *)
Theorem replace_inverse e s : has_marker e s = true ->
  replace (replace s [10%N] e) e [10%N] = s.
Proof.
  intros H. destruct (has_marker_split _ _ H) as [u [m [v [-> [Hu [Hm Hs]]]]]].
  rewrite replace_chr_expand. rewrite (collapse one u v m Hu Hm).
  - clear. induction s as [|c s IH]; [reflexivity|].
    unfold expand in *. simpl. rewrite IH. unfold one.
    destruct (N.eqb c 10) eqn:E; [apply N.eqb_eq in E; now subst|reflexivity].
  - intros c Hc _ [Hi|[]]. congruence.
Qed.
