(* Files/BytesProofs.v — what the file theorems assume of a codec
   ([good_codec]), general facts about per-character encoders, and the proof
   that the Gallina UTF-8, UTF-8-sig, Latin-1 and cp1252 codecs of Files/Bytes.v
   satisfy the assumptions (so the Section hypotheses of SaveLoadProofs are
   satisfiable by the codecs the correspondence check validates). *)
From Coq Require Import List NArith ZArith Bool Lia.
From N0 Require Import Base.PyStr Files.Bytes Files.Util.
Import ListNotations.
Local Open Scope N_scope.

Record good_codec (c : codec) : Prop := {
  (* ASCII-compatible: a code point below 128 is its own single byte ... *)
  g_ascii : forall x, x < 128 -> c_ench c x = Some [x];
  (* ... and a byte below 128 never occurs in the encoding of anything else *)
  g_transp : forall x bs b, c_ench c x = Some bs -> In b bs -> b < 128 -> x = b;
  (* decoding inverts encoding (with the BOM, if the codec writes one) *)
  g_rt : forall s bs, enc_chars c s = Some bs -> c_dec c (c_bom c ++ bs) = Some s;
  g_dec_nil : c_dec c [] = Some [];
  (* the same through the text layer's incremental decoder *)
  g_rts : forall s bs, enc_chars c s = Some bs -> c_decs c (c_bom c ++ bs) = Some s;
  g_decs_nil : c_decs c [] = Some [];
  g_bom_hi : Forall (fun b => 128 <= b) (c_bom c)
}.

(* total per-character encoder (junk [] where undefined) *)
Definition encT (c : codec) (x : N) : pstr := match c_ench c x with Some b => b | None => [] end.

Lemma enc_chars_app c a b :
  enc_chars c (a ++ b) =
  match enc_chars c a, enc_chars c b with Some x, Some y => Some (x ++ y) | _, _ => None end.
Proof.
  induction a as [|x a IH]; simpl.
  - destruct (enc_chars c b); reflexivity.
  - rewrite IH. destruct (c_ench c x); [|reflexivity].
    destruct (enc_chars c a); [|reflexivity]. destruct (enc_chars c b); [|reflexivity].
    now rewrite app_assoc.
Qed.

Lemma enc_chars_ext c c' s : (forall x, c_ench c x = c_ench c' x) -> enc_chars c s = enc_chars c' s.
Proof. intros H. induction s as [|x s IH]; simpl; [reflexivity|]. now rewrite H, IH. Qed.

Lemma enc_chars_flat c s bs : enc_chars c s = Some bs -> bs = flat_map (encT c) s.
Proof.
  revert bs; induction s as [|x s IH]; simpl; intros bs H; [congruence|].
  unfold encT at 1. destruct (c_ench c x); [|discriminate].
  destruct (enc_chars c s); [|discriminate]. inversion H. f_equal. now apply IH.
Qed.

Lemma enc_chars_ascii c e : good_codec c -> Forall (fun x => x < 128) e -> enc_chars c e = Some e.
Proof.
  intros G. induction 1 as [|x e Hx He IH]; simpl; [reflexivity|].
  rewrite (g_ascii c G x Hx), IH. reflexivity.
Qed.

(* encoding commutes with the expansion of "\n" to an ASCII EOL *)
Lemma enc_chars_expand c e s bs : good_codec c -> Forall (fun x => x < 128) e ->
  enc_chars c s = Some bs -> enc_chars c (expand one e s) = Some (expand (encT c) e s).
Proof.
  intros G He. revert bs; induction s as [|x s IH]; simpl; intros bs H; [reflexivity|].
  destruct (c_ench c x) as [bx|] eqn:Ex; [|discriminate].
  destruct (enc_chars c s) as [br|] eqn:Er; [|discriminate].
  unfold expand in *. simpl. rewrite enc_chars_app. rewrite (IH br eq_refl).
  destruct (N.eqb x 10).
  - rewrite (enc_chars_ascii c e G He). reflexivity.
  - unfold one. simpl. rewrite Ex. unfold encT. rewrite Ex. now rewrite app_nil_r.
Qed.

Lemma Some_inj {A} (a b : A) : Some a = Some b -> a = b.
Proof. congruence. Qed.

(* ---- Latin-1 -------------------------------------------------------------------- *)
Lemma latin1_enc s bs : enc_chars latin1 s = Some bs -> bs = s /\ latin1_dec s = Some s.
Proof.
  revert bs; induction s as [|x s IH]; simpl; intros bs H; [inversion H; auto|].
  unfold latin1_ench in H. destruct (N.ltb x 256) eqn:E; [|discriminate].
  destruct (enc_chars latin1 s) as [br|]; [|discriminate].
  destruct (IH br eq_refl) as [-> ->]. apply Some_inj in H. subst. auto.
Qed.

Theorem latin1_good : good_codec latin1.
Proof.
  constructor; simpl.
  - intros x H. unfold latin1_ench. destruct (N.ltb_spec x 256); [reflexivity|lia].
  - intros x bs b H Hb _. unfold latin1_ench in H. destruct (N.ltb x 256); [|discriminate].
    apply Some_inj in H. subst. destruct Hb as [Hb|[]]. auto.
  - intros s bs H. destruct (latin1_enc s bs H) as [-> E]. exact E.
  - reflexivity.
  - intros s bs H. destruct (latin1_enc s bs H) as [-> E]. exact E.
  - reflexivity.
  - constructor.
Qed.

(* ---- UTF-8 ------------------------------------------------------------------------ *)
Lemma utf8_dec_cons b0 r : utf8_dec (b0 :: r) =
    if b0 <? 128 then ocons b0 (utf8_dec r)
    else if b0 <? 194 then None
    else if b0 <? 224 then
      match r with
      | b1 :: r1 => if is_cont b1 then ocons ((b0 - 192) * 64 + (b1 - 128)) (utf8_dec r1) else None
      | _ => None
      end
    else if b0 <? 240 then
      match r with
      | b1 :: b2 :: r2 =>
        if is_cont b1 && is_cont b2
           && negb ((b0 =? 224) && (b1 <? 160))
           && negb ((b0 =? 237) && (160 <=? b1))
        then ocons ((b0 - 224) * 4096 + (b1 - 128) * 64 + (b2 - 128)) (utf8_dec r2)
        else None
      | _ => None
      end
    else if b0 <? 245 then
      match r with
      | b1 :: b2 :: b3 :: r3 =>
        if is_cont b1 && is_cont b2 && is_cont b3
           && negb ((b0 =? 240) && (b1 <? 144))
           && negb ((b0 =? 244) && (144 <=? b1))
        then ocons ((b0 - 240) * 262144 + (b1 - 128) * 4096 + (b2 - 128) * 64 + (b3 - 128)) (utf8_dec r3)
        else None
      | _ => None
      end
    else None.
Proof. reflexivity. Qed.

Ltac dm x k :=
  let q := fresh "q" in let r := fresh "r" in
  pose proof (N.div_mod' x k); pose proof (N.mod_lt x k ltac:(lia));
  set (q := x / k) in *; set (r := x mod k) in *; clearbody q r.

Ltac lt_case a b := destruct (N.ltb_spec a b); try lia.
Ltac le_case a b := destruct (N.leb_spec a b); try lia.



Lemma is_cont_ok r : r < 64 -> is_cont (128 + r) = true.
Proof. intros H. unfold is_cont. apply andb_true_iff. split; [apply N.leb_le|apply N.ltb_lt]; lia. Qed.

Lemma utf8_dec_ench x bs r : utf8_ench x = Some bs -> utf8_dec (bs ++ r) = ocons x (utf8_dec r).
Proof.
  unfold utf8_ench.
  destruct (N.ltb_spec x 128) as [H1|H1].
  { intros E; apply Some_inj in E; subst bs. rewrite <- ?app_comm_cons, app_nil_l. rewrite utf8_dec_cons.
    lt_case x 128. reflexivity. }
  destruct (N.ltb_spec x 2048) as [H2|H2].
  { intros E; apply Some_inj in E; subst bs. rewrite <- ?app_comm_cons, app_nil_l. rewrite utf8_dec_cons. dm x 64.
    lt_case (192 + q) 128. lt_case (192 + q) 194. lt_case (192 + q) 224.
    rewrite is_cont_ok by lia. f_equal. lia. }
  destruct (N.ltb_spec x 65536) as [H3|H3].
  { destruct ((55296 <=? x) && (x <? 57344)) eqn:S; [discriminate|].
    intros E; apply Some_inj in E; subst bs. rewrite <- ?app_comm_cons, app_nil_l. rewrite utf8_dec_cons.
    replace (x / 4096) with (x / 64 / 64) by (rewrite N.div_div; [reflexivity|lia|lia]).
    dm x 64. dm q 64.
    lt_case (224 + q0) 128. lt_case (224 + q0) 194. lt_case (224 + q0) 224. lt_case (224 + q0) 240.
    rewrite !is_cont_ok by lia.
    assert (G1 : (224 + q0 =? 224) && (128 + r1 <? 160) = false).
    { destruct (N.eqb_spec (224 + q0) 224); [|reflexivity]. apply N.ltb_ge. lia. }
    assert (G2 : (224 + q0 =? 237) && (160 <=? 128 + r1) = false).
    { destruct (N.eqb_spec (224 + q0) 237); [|reflexivity]. apply N.leb_gt.
      apply andb_false_iff in S. destruct S as [S|S].
      - apply N.leb_gt in S. lia.
      - apply N.ltb_ge in S. lia. }
    rewrite G1, G2. simpl andb. simpl negb. cbv iota. f_equal. lia. }
  destruct (N.ltb_spec x 1114112) as [H4|H4]; [|discriminate].
  intros E; apply Some_inj in E; subst bs. rewrite <- ?app_comm_cons, app_nil_l. rewrite utf8_dec_cons.
  replace (x / 262144) with (x / 64 / 64 / 64) by (rewrite !N.div_div; [reflexivity|lia..]).
  replace (x / 4096) with (x / 64 / 64) by (rewrite N.div_div; [reflexivity|lia|lia]).
  dm x 64. dm q 64. dm q0 64.
  lt_case (240 + q1) 128. lt_case (240 + q1) 194. lt_case (240 + q1) 224. lt_case (240 + q1) 240. lt_case (240 + q1) 245.
  rewrite !is_cont_ok by lia.
  assert (G1 : (240 + q1 =? 240) && (128 + r2 <? 144) = false).
  { destruct (N.eqb_spec (240 + q1) 240); [|reflexivity]. apply N.ltb_ge. lia. }
  assert (G2 : (240 + q1 =? 244) && (144 <=? 128 + r2) = false).
  { destruct (N.eqb_spec (240 + q1) 244); [|reflexivity]. apply N.leb_gt. lia. }
  rewrite G1, G2. simpl andb. simpl negb. cbv iota. f_equal. lia.
Qed.

Lemma utf8_rt s : forall bs, enc_chars utf8 s = Some bs -> utf8_dec bs = Some s.
Proof.
  induction s as [|x s IH]; simpl; intros bs H; [apply Some_inj in H; now subst|].
  destruct (utf8_ench x) as [bx|] eqn:Ex; [|discriminate].
  destruct (enc_chars utf8 s) as [br|]; [|discriminate]. apply Some_inj in H. subst bs.
  rewrite (utf8_dec_ench x bx br Ex), (IH br eq_refl). reflexivity.
Qed.

Lemma utf8_ascii x : x < 128 -> utf8_ench x = Some [x].
Proof. intros H. unfold utf8_ench. destruct (N.ltb_spec x 128); [reflexivity|lia]. Qed.

Lemma utf8_transp x bs b : utf8_ench x = Some bs -> In b bs -> b < 128 -> x = b.
Proof.
  unfold utf8_ench. intros H Hb Hlt.
  destruct (N.ltb_spec x 128).
  { apply Some_inj in H. subst. destruct Hb as [Hb|[]]. exact Hb. }
  set (r2 := (x / 64) mod 64) in *. set (r3 := (x / 4096) mod 64) in *.
  set (q1 := x / 64) in *. set (r1 := x mod 64) in *. set (q2 := x / 4096) in *. set (q3 := x / 262144) in *.
  clearbody q1 r1 q2 r2 q3 r3.
  destruct (N.ltb_spec x 2048).
  { apply Some_inj in H. subst. exfalso. destruct Hb as [Hb|[Hb|[]]]; lia. }
  destruct (N.ltb_spec x 65536).
  { destruct ((55296 <=? x) && (x <? 57344)); [discriminate|].
    apply Some_inj in H. subst. exfalso. destruct Hb as [Hb|[Hb|[Hb|[]]]]; lia. }
  destruct (N.ltb_spec x 1114112); [|discriminate].
  apply Some_inj in H. subst. exfalso. destruct Hb as [Hb|[Hb|[Hb|[Hb|[]]]]]; lia.
Qed.

Theorem utf8_good : good_codec utf8.
Proof.
  constructor; simpl.
  - exact utf8_ascii.
  - exact utf8_transp.
  - intros s bs H. now apply utf8_rt.
  - reflexivity.
  - intros s bs H. now apply utf8_rt.
  - reflexivity.
  - constructor.
Qed.

Theorem utf8sig_good : good_codec utf8sig.
Proof.
  constructor; simpl.
  - exact utf8_ascii.
  - exact utf8_transp.
  - intros s bs H. change (utf8sig_dec (BOM ++ bs) = Some s). unfold utf8sig_dec. rewrite startswith_app.
    change (skipn 3 (BOM ++ bs)) with bs. apply utf8_rt.
    rewrite <- H. apply enc_chars_ext. reflexivity.
  - reflexivity.
  - intros s bs H. change (utf8sig_decs (BOM ++ bs) = Some s). unfold utf8sig_decs.
    change (bom_prefix (BOM ++ bs)) with false. cbv iota.
    unfold utf8sig_dec. rewrite startswith_app.
    change (skipn 3 (BOM ++ bs)) with bs. apply utf8_rt.
    rewrite <- H. apply enc_chars_ext. reflexivity.
  - reflexivity.
  - repeat constructor; unfold N.le; discriminate.
Qed.

(* ---- cp1252 ------------------------------------------------------------------------ *)
Lemma index_of_spec x : forall l i b, index_of x l i = Some b ->
  i <= b /\ b < i + N.of_nat (length l) /\ nth_error l (N.to_nat (b - i)) = Some x.
Proof.
  induction l as [|y l IH]; intros i b H; simpl in H; [discriminate|].
  destruct (N.eqb_spec x y) as [->|Hne].
  - apply Some_inj in H. subst. rewrite N.sub_diag. simpl. repeat split; lia.
  - apply IH in H as [H1 [H2 H3]]. repeat split; try lia.
    + simpl length. lia.
    + replace (N.to_nat (b - i)) with (S (N.to_nat (b - (i + 1)))) by lia. exact H3.
Qed.

Lemma cp1252_char x b : cp1252_ench x = Some b -> exists y, b = [y] /\ cp1252_dec1 y = Some x /\ (y < 128 -> x = y).
Proof.
  unfold cp1252_ench.
  destruct (N.ltb_spec x 128).
  { intros E; apply Some_inj in E; subst. exists x. split; [reflexivity|]. split; [|reflexivity].
    unfold cp1252_dec1. destruct (N.ltb_spec x 128); [reflexivity|lia]. }
  destruct (N.ltb_spec x 160); [discriminate|].
  destruct (N.ltb_spec x 256).
  { intros E; apply Some_inj in E; subst. exists x. split; [reflexivity|]. split; [|lia].
    unfold cp1252_dec1. destruct (N.ltb_spec x 128); [lia|]. destruct (N.ltb_spec x 160); [lia|].
    destruct (N.ltb_spec x 256); [reflexivity|lia]. }
  destruct (index_of x cp1252_hi 128) as [y|] eqn:E; [|discriminate].
  intros E2; apply Some_inj in E2; subst. exists y.
  apply index_of_spec in E as [H2 [H3 H4]]. change (N.of_nat (length cp1252_hi)) with 32 in H3.
  split; [reflexivity|]. split; [|lia].
  unfold cp1252_dec1. destruct (N.ltb_spec y 128); [lia|]. destruct (N.ltb_spec y 160); [|lia].
  rewrite H4. destruct x; [lia|reflexivity].
Qed.

Lemma cp1252_rt s : forall bs, enc_chars cp1252 s = Some bs -> cp1252_dec bs = Some s.
Proof.
  induction s as [|x s IH]; simpl; intros bs H; [apply Some_inj in H; now subst|].
  destruct (cp1252_ench x) as [bx|] eqn:Ex; [|discriminate].
  destruct (enc_chars cp1252 s) as [br|]; [|discriminate]. apply Some_inj in H. subst bs.
  destruct (cp1252_char x bx Ex) as [y [-> [Hd _]]]. simpl. rewrite Hd, (IH br eq_refl). reflexivity.
Qed.

Theorem cp1252_good : good_codec cp1252.
Proof.
  constructor; simpl.
  - intros x H. unfold cp1252_ench. destruct (N.ltb_spec x 128); [reflexivity|lia].
  - intros x bs b H Hb Hlt. destruct (cp1252_char x bs H) as [y [-> [_ Hy]]].
    destruct Hb as [<-|[]]. now apply Hy.
  - intros s bs H. now apply cp1252_rt.
  - reflexivity.
  - intros s bs H. now apply cp1252_rt.
  - reflexivity.
  - constructor.
Qed.

(* an ASCII string is its own UTF-8 encoding (load_file encodes the EOL with utf-8) *)
Lemma encode_utf8_ascii e : Forall (fun x => x < 128) e -> encode utf8 e = Some e.
Proof. intros H. unfold encode. rewrite (enc_chars_ascii utf8 e utf8_good H). reflexivity. Qed.
