(* Xpath/SpecProofs.v — lens laws of the plain nested dict/list Spec (Base.PyVal):
   replace_at / delete_at / resolve. *)
From Coq Require Import List NArith ZArith Bool Lia.
From N0 Require Import Base.PyStr Base.PyVal.
Import ListNotations.

Lemma replace_at_app t q r v u :
  resolve t q = Some u -> replace_at t (q ++ r) v = replace_at t q (replace_at u r v).
Proof.
  revert t. induction q as [|s q IH]; intros t H; cbn in *.
  - now inversion H.
  - destruct s as [k|i]; destruct t as [sc|c kvs|c xs]; try discriminate.
    + destruct (lookup k kvs) as [w|] eqn:E; [|discriminate]. now rewrite (IH w H).
    + destruct (nth_error xs i) as [w|] eqn:E; [|discriminate]. now rewrite (IH w H).
Qed.

Lemma nth_error_Some_lt {A} (l : list A) i x : nth_error l i = Some x -> i < length l.
Proof. intros H. apply nth_error_Some. congruence. Qed.

(* get-put: what was written is read back *)
Lemma resolve_replace_same t p v u : resolve t p = Some u -> resolve (replace_at t p v) p = Some v.
Proof.
  revert t. induction p as [|s p IH]; intros t H; cbn in *; [reflexivity|].
  destruct s as [k|i]; destruct t as [sc|c kvs|c xs]; try discriminate.
  - destruct (lookup k kvs) as [w|] eqn:E; [|discriminate]. cbn. rewrite lookup_update_same. now apply IH.
  - destruct (nth_error xs i) as [w|] eqn:E; [|discriminate]. cbn.
    rewrite nth_error_set_nth_same by (eapply nth_error_Some_lt; eauto). now apply IH.
Qed.

(* two paths that part ways at some step: neither is a prefix of the other *)
Inductive diverge : path -> path -> Prop :=
| div_here s s' p q : s <> s' -> diverge (s :: p) (s' :: q)
| div_later s p q : diverge p q -> diverge (s :: p) (s :: q).

(* put-frame: a path that diverges from the written one resolves as before *)
Lemma resolve_replace_other t p q v : diverge p q -> resolve (replace_at t p v) q = resolve t q.
Proof.
  intros D. revert t. induction D as [s s' p q Hne|s p q D IH]; intros t.
  - destruct s as [k|i]; destruct t as [sc|c kvs|c xs]; cbn; try reflexivity.
    + destruct (lookup k kvs) as [w|] eqn:E; [|reflexivity]. destruct s' as [k'|i']; cbn; [|reflexivity].
      rewrite lookup_update_other by congruence. reflexivity.
    + destruct (nth_error xs i) as [w|] eqn:E; [|reflexivity]. destruct s' as [k'|i']; cbn; [reflexivity|].
      rewrite nth_error_set_nth_other by congruence. reflexivity.
  - destruct s as [k|i]; destruct t as [sc|c kvs|c xs]; cbn; try reflexivity.
    + destruct (lookup k kvs) as [w|] eqn:E; [|now rewrite E]. cbn. rewrite lookup_update_same. apply IH.
    + destruct (nth_error xs i) as [w|] eqn:E; [|now rewrite E]. cbn.
      rewrite nth_error_set_nth_same by (eapply nth_error_Some_lt; eauto). apply IH.
Qed.

(* put on an ancestor's other children: the parent of the written slot differs only in that slot *)
Lemma replace_at_last_key t q c kvs k u v :
  resolve t q = Some (Dict c kvs) -> lookup k kvs = Some u ->
  replace_at t (q ++ [PKey k]) v = replace_at t q (Dict c (update k v kvs)).
Proof. intros H1 H2. rewrite (replace_at_app t q [PKey k] v _ H1). cbn. now rewrite H2. Qed.

Lemma replace_at_last_idx t q c xs i u v :
  resolve t q = Some (Lst c xs) -> nth_error xs i = Some u ->
  replace_at t (q ++ [PIdx i]) v = replace_at t q (Lst c (set_nth i v xs)).
Proof. intros H1 H2. rewrite (replace_at_app t q [PIdx i] v _ H1). cbn. now rewrite H2. Qed.

Lemma delete_at_app t q r u :
  r <> [] -> resolve t q = Some u -> delete_at t (q ++ r) = replace_at t q (delete_at u r).
Proof.
  intros Hr. revert t. induction q as [|s q IH]; intros t H; cbn [app] in *.
  - cbn in H. now inversion H.
  - cbn in H. destruct s as [k|i]; destruct t as [sc|c kvs|c xs]; try discriminate.
    + destruct (lookup k kvs) as [w|] eqn:E; [|discriminate].
      pose proof (IH w H) as IHw.
      cbn [delete_at replace_at]. destruct (q ++ r) eqn:Eqr; [destruct q; destruct r; cbn in *; congruence|].
      rewrite E, IHw. reflexivity.
    + destruct (nth_error xs i) as [w|] eqn:E; [|discriminate].
      pose proof (IH w H) as IHw.
      cbn [delete_at replace_at]. destruct (q ++ r) eqn:Eqr; [destruct q; destruct r; cbn in *; congruence|].
      rewrite E, IHw. reflexivity.
Qed.
