(* Xpath/FstrProofs.v — the found-path string (xpath_found_str) the resolver threads through
   its recursion, and what re-resolving it from the root yields: the invariant behind the
   [new()] and '..' branches. *)
From Coq Require Import List NArith ZArith Bool Lia.
From N0 Require Import Base.PyStr Base.PyVal Xpath.Dec Xpath.DecProofs Xpath.Token Xpath.TokenProofs
  Xpath.Find Xpath.FindProofs Xpath.Write Xpath.SpecProofs Xpath.WalkProofs Xpath.TokenizeProofs Xpath.EnumProofs.
Import ListNotations.

Arguments N.eqb : simpl never.

(* a walk together with the segments it appends to the found-path string *)
Inductive walks : tree -> list pstr -> path -> tree -> list seg -> Prop :=
| walks_nil t : walks t [] [] t []
| walks_key x toks c kvs k child p v segs :
    split_name_index x = Ok (k, IdxNone) -> plain_key k -> lookup k kvs = Some child ->
    walks child toks p v segs -> walks (Dict c kvs) (x :: toks) (PKey k :: p) v (SK k :: segs)
| walks_idx x toks c items si z i child p v segs :
    split_name_index x = Ok ([], IdxStr si) -> plain_idx si -> n0eval si = EvInt z ->
    norm_idx (length items) z = Some i -> nth_error items i = Some child ->
    walks child toks p v segs -> walks (Lst c items) (x :: toks) (PIdx i :: p) v (SI z :: segs)
| walks_keyidx x toks c kvs k si c' items z i child p v segs :
    split_name_index x = Ok (k, IdxStr si) -> plain_key k -> plain_idx si ->
    split_name_index (br si) = Ok ([], IdxStr si) -> n0eval si = EvInt z ->
    lookup k kvs = Some (Lst c' items) ->
    norm_idx (length items) z = Some i -> nth_error items i = Some child ->
    walks child toks p v segs -> walks (Dict c kvs) (x :: toks) (PKey k :: PIdx i :: p) v (SK k :: SI z :: segs).

Lemma walk_walks t toks p v : walk t toks p v -> exists segs, walks t toks p v segs.
Proof.
  induction 1 as [t|x toks c kvs k child p v Hs Hk Hl Hw [segs IH]
                  |x toks c items si z i child p v Hs Hi He Hn Hc Hw [segs IH]
                  |x toks c kvs k si c' items z i child p v Hs Hk Hi Hb He Hl Hn Hc Hw [segs IH]].
  - exists []. constructor.
  - exists (SK k :: segs). eapply walks_key; eassumption.
  - exists (SI z :: segs). eapply walks_idx; eassumption.
  - exists (SK k :: SI z :: segs). eapply walks_keyidx; eassumption.
Qed.

Lemma walks_walk t toks p v segs : walks t toks p v segs -> walk t toks p v.
Proof.
  induction 1; [constructor|eapply walk_key; eassumption|eapply walk_idx; eassumption|eapply walk_keyidx; eassumption].
Qed.

Lemma render_segs_app a b : render_segs (a ++ b) = render_segs a ++ render_segs b.
Proof. unfold render_segs. now rewrite map_app, concat_app. Qed.

(* the prefix theorem with the found-path string made explicit *)
Theorem find_walks_prefix rl : forall sub toks p v segs, walks sub toks p v segs ->
  forall rest, rest <> [] ->
  forall fuel root pos fstr, 2 * length toks <= fuel ->
  exists fuel', fuel <= fuel' + 2 * length toks /\ fuel' <= fuel /\
    find true rl fuel root (toks ++ rest) (PAt pos) sub fstr =
    find true rl fuel' root rest (PAt (pos ++ p)) v (fstr ++ render_segs segs).
Proof.
  induction 1 as [t|x toks c kvs k child p v segs Hs Hk Hl Hw IH
                  |x toks c items si z i child p v segs Hs Hi He Hn Hc Hw IH
                  |x toks c kvs k si c' items z i child p v segs Hs Hk Hi Hb He Hl Hn Hc Hw IH];
    intros rest Hrest fuel root pos fstr Hf.
  - exists fuel. cbn. rewrite !app_nil_r. repeat split; lia.
  - destruct fuel as [|f]; [cbn in Hf; lia|]. cbn [app].
    rewrite (find_key_step rl f root x (toks ++ rest) (PAt pos) c kvs fstr k child Hs Hk Hl).
    destruct (toks ++ rest) eqn:E; [destruct toks; cbn in E; congruence|]. rewrite <- E.
    destruct (IH rest Hrest f root (pos ++ [PKey k]) (sl fstr k)) as [fuel' [H1 [H2 H3]]]; [cbn in *; lia|].
    exists fuel'. cbn [child_key]. rewrite H3, <- app_assoc.
    change (SK k :: segs) with ([SK k] ++ segs). rewrite render_segs_app. unfold sl, render_segs at 2. cbn [map concat render_seg].
    rewrite app_nil_r, <- !app_assoc. cbn in *. repeat split; lia.
  - destruct fuel as [|f]; [cbn in Hf; lia|]. cbn [app].
    rewrite (find_idx_step rl f root x (toks ++ rest) (PAt pos) c items fstr si z i child Hs Hi He Hn Hc).
    destruct (toks ++ rest) eqn:E; [destruct toks; cbn in E; congruence|]. rewrite <- E.
    destruct (IH rest Hrest f root (pos ++ [PIdx i]) (fstr ++ br (dec_of_Z z))) as [fuel' [H1 [H2 H3]]]; [cbn in *; lia|].
    exists fuel'. cbn [child_idx]. rewrite H3, <- app_assoc.
    change (SI z :: segs) with ([SI z] ++ segs). rewrite render_segs_app. unfold render_segs at 2. cbn [map concat render_seg].
    rewrite app_nil_r, <- !app_assoc. cbn in *. repeat split; lia.
  - destruct fuel as [|f]; [cbn in Hf; lia|]. cbn [app].
    destruct Hi as [Hsine Hi'].
    rewrite (find_keyidx_step rl f root x (toks ++ rest) (PAt pos) c kvs fstr k si (Lst c' items) Hs Hk Hsine Hl).
    destruct f as [|f]; [cbn in Hf; lia|]. cbn [child_key].
    rewrite (find_idx_step rl f root (br si) (toks ++ rest) (PAt (pos ++ [PKey k])) c' items (sl fstr k) si z i child Hb
               (conj Hsine Hi') He Hn Hc).
    destruct (toks ++ rest) eqn:E; [destruct toks; cbn in E; congruence|]. rewrite <- E.
    destruct (IH rest Hrest f root ((pos ++ [PKey k]) ++ [PIdx i]) (sl fstr k ++ br (dec_of_Z z))) as [fuel' [H1 [H2 H3]]];
      [cbn in *; lia|].
    exists fuel'. cbn [child_idx]. rewrite H3, <- !app_assoc.
    change (SK k :: SI z :: segs) with ([SK k; SI z] ++ segs). rewrite render_segs_app.
    unfold sl, render_segs at 2. cbn [map concat render_seg].
    rewrite app_nil_r, <- !app_assoc. cbn in *. repeat split; lia.
Qed.

(* ---- re-resolving the found path ---------------------------------------------------------------- *)
(* the segments denote a path in a tree *)
Inductive seg_path : tree -> list seg -> path -> tree -> Prop :=
| sgp_nil t : seg_path t [] [] t
| sgp_key c kvs k child segs p v :
    lookup k kvs = Some child -> seg_path child segs p v -> seg_path (Dict c kvs) (SK k :: segs) (PKey k :: p) v
| sgp_idx c items z i child segs p v :
    norm_idx (length items) z = Some i -> nth_error items i = Some child ->
    seg_path child segs p v -> seg_path (Lst c items) (SI z :: segs) (PIdx i :: p) v.

Lemma walks_seg_path t toks p v segs : walks t toks p v segs -> seg_path t segs p v.
Proof.
  induction 1.
  - constructor.
  - eapply sgp_key; eassumption.
  - eapply sgp_idx; eassumption.
  - eapply sgp_key; [eassumption|]. eapply sgp_idx; eassumption.
Qed.

Lemma norm_idx_spell len z i : norm_idx len z = Some i -> idx_spell len i (dec_of_Z z).
Proof.
  intros H. apply norm_idx_spec in H. destruct H as [[H1 H2]|[H1 H2]].
  - rewrite <- H2. constructor.
  - replace z with (Z.of_nat i - Z.of_nat len)%Z by lia. constructor.
Qed.

Lemma seg_path_spells : forall n segs t p v, length segs <= n -> keys_good t -> seg_path t segs p v ->
  spells t p (seg_tokens segs) /\ segs_ok segs.
Proof.
  induction n as [|n IH]; intros segs t p v Hlen Hg Hsp.
  - destruct segs; [|cbn in Hlen; lia]. inversion Hsp; subst. split; constructor.
  - inversion Hsp as [t0|c kvs k child segs' p' v' Hl Hrest|c items z i child segs' p' v' Hn Hc Hrest]; subst.
    + split; constructor.
    + destruct (keys_good_lookup _ _ _ _ Hg Hl) as [[Hsk Hpk] Hgc].
      inversion Hrest as [t0|c2 kvs2 k2 child2 segs2 p2 v2 Hl2 Hrest2|c2 items2 z2 i2 child2 segs2 p2 v2 Hn2 Hc2 Hrest2]; subst.
      * cbn. split; [eapply sp_key; [exact Hl|apply sp_nil]|constructor; [assumption|constructor]].
      * destruct (IH (SK k2 :: segs2) (Dict c2 kvs2) (PKey k2 :: p2) v ltac:(cbn in *; lia) Hgc Hrest) as [H1 H2].
        cbn [seg_tokens] in *. split; [eapply sp_key; eauto|constructor; assumption].
      * pose proof (keys_good_nth _ _ _ _ Hgc Hc2) as Hgc2.
        destruct (IH segs2 child2 p2 v ltac:(cbn in *; lia) Hgc2 Hrest2) as [H1 H2].
        cbn [seg_tokens]. split.
        -- eapply sp_keyidx; eauto. now apply norm_idx_spell.
        -- constructor; [assumption|]. constructor; [exact I|assumption].
    + pose proof (keys_good_nth _ _ _ _ Hg Hc) as Hgc.
      destruct (IH segs' child p' v ltac:(cbn in *; lia) Hgc Hrest) as [H1 H2].
      cbn [seg_tokens]. split.
      * eapply sp_idx; eauto. now apply norm_idx_spell.
      * constructor; [exact I|assumption].
Qed.

(* re-resolution of the found path of a walk from the root reaches the same node *)
Theorem refind_walks rl fuel root toks p v segs :
  keys_good root -> walks root toks p v segs -> segs <> [] ->
  2 * length (seg_tokens segs) <= fuel ->
  exists F, find true rl fuel root (tokenize (s_root ++ render_segs segs)) (PAt []) root s_root = Ok (root, false, F) /\
            found_at root [] p v F.
Proof.
  intros Hg Hw Hne Hf.
  destruct (seg_path_spells (length segs) segs root p v (le_n _) Hg (walks_seg_path _ _ _ _ _ Hw)) as [Hsp Hok].
  rewrite (tokenize_rendered segs Hok).
  destruct (spells_walk root p (seg_tokens segs) Hsp (keys_good_ok root Hg)) as [v' Hw'].
  assert (v' = v).
  { pose proof (walk_resolve _ _ _ _ Hw') as R1. pose proof (walk_resolve _ _ _ _ (walks_walk _ _ _ _ _ Hw)) as R2. congruence. }
  subst v'.
  apply (find_walk rl root (seg_tokens segs) p v Hw' (seg_tokens_nonempty segs Hne) fuel root [] s_root Hf).
Qed.
