(* Xpath/BlankBracketProofs.v — white space between the name of a step and its bracket is not part of the name:
   'b [new()]' is read exactly as 'b[new()]' (split_name_index strips the name part after the split at '['),
   whatever stands between the brackets. *)
From Coq Require Import List NArith ZArith Bool Lia.
From N0 Require Import Base.PyStr Base.PyVal Xpath.Dec Xpath.Token Xpath.TokenProofs.
Import ListNotations.

Arguments N.eqb : simpl never.
Arguments N.leb : simpl never.

Lemma lstrip_all cs bl : Forall (fun c => mem_chr c cs = true) bl -> lstrip_set cs bl = [].
Proof. induction 1 as [|c bl Hc Hbl IH]; cbn [lstrip_set]; [reflexivity|]. now rewrite Hc. Qed.

Lemma lstrip_drop cs bl x : Forall (fun c => mem_chr c cs = true) bl -> lstrip_set cs (bl ++ x) = lstrip_set cs x.
Proof. induction 1 as [|c bl Hc Hbl IH]; cbn [lstrip_set app]; [reflexivity|]. now rewrite Hc. Qed.

Lemma lstrip_app_ws cs k bl : Forall (fun c => mem_chr c cs = true) bl ->
  lstrip_set cs (k ++ bl) = match lstrip_set cs k with [] => [] | x => x ++ bl end.
Proof.
  intros Hbl. induction k as [|c k IH]; cbn [lstrip_set app].
  - now apply lstrip_all.
  - destruct (mem_chr c cs); [exact IH|reflexivity].
Qed.

Lemma rstrip_app_ws cs x bl : Forall (fun c => mem_chr c cs = true) bl -> rstrip_set cs (x ++ bl) = rstrip_set cs x.
Proof.
  intros Hbl. unfold rstrip_set. rewrite rev_app_distr. rewrite lstrip_drop by (now apply Forall_rev). reflexivity.
Qed.

Lemma strip_set_app_ws cs k bl : Forall (fun c => mem_chr c cs = true) bl -> strip_set cs (k ++ bl) = strip_set cs k.
Proof.
  intros Hbl. unfold strip_set. rewrite lstrip_app_ws by exact Hbl.
  destruct (lstrip_set cs k) as [|c x] eqn:E; [reflexivity|]. now apply rstrip_app_ws.
Qed.

Lemma strip_app_ws k bl : Forall (fun c => mem_chr c py_ws = true) bl -> strip (k ++ bl) = strip k.
Proof. intros H. unfold strip. now apply strip_set_app_ws. Qed.

Lemma ws_not_lb bl : Forall (fun c => mem_chr c py_ws = true) bl -> ~ In c_lb bl.
Proof.
  intros H Hin. rewrite Forall_forall in H. specialize (H _ Hin). vm_compute in H. discriminate H.
Qed.

Theorem sni_blank_before_bracket k bl r :
  mem_chr c_lb k = false -> Forall (fun c => mem_chr c py_ws = true) bl ->
  split_name_index (k ++ bl ++ c_lb :: r ++ [c_rb]) = split_name_index (k ++ c_lb :: r ++ [c_rb]).
Proof.
  intros Hk Hbl. unfold split_name_index.
  assert (E1 : mem_chr c_lb (k ++ bl ++ c_lb :: r ++ [c_rb]) = true).
  { apply mem_chr_In. apply in_or_app. right. apply in_or_app. right. now left. }
  assert (E2 : mem_chr c_lb (k ++ c_lb :: r ++ [c_rb]) = true).
  { apply mem_chr_In. apply in_or_app. right. now left. }
  rewrite E1, E2.
  replace (k ++ bl ++ c_lb :: r ++ [c_rb]) with (((k ++ bl) ++ c_lb :: r) ++ [c_rb])
    by (now rewrite <- !app_assoc).
  replace (k ++ c_lb :: r ++ [c_rb]) with ((k ++ c_lb :: r) ++ [c_rb]) by (now rewrite <- app_assoc).
  rewrite !last_chr_snoc, N.eqb_refl. cbn [andb]. rewrite !removelast_last.
  rewrite split_once_first.
  2:{ intros Hin. apply in_app_or in Hin as [Hin|Hin]; [|now apply (ws_not_lb bl Hbl)].
      apply mem_chr_In in Hin. congruence. }
  rewrite split_once_first by (now apply mem_chr_false).
  rewrite (strip_app_ws k bl Hbl). reflexivity.
Qed.

(* the statement is about real spellings: 'b [new()]' and 'b  [0]' *)
Example blank_before_bracket_example :
  split_name_index ([98; 32; 91; 110; 101; 119; 40; 41; 93])%N = split_name_index ([98; 91; 110; 101; 119; 40; 41; 93])%N
  /\ split_name_index ([98; 32; 91; 110; 101; 119; 40; 41; 93])%N = Ok ([98]%N, IdxStr [110; 101; 119; 40; 41]%N).
Proof. split; vm_compute; reflexivity. Qed.
