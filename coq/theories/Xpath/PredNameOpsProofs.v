(* Xpath/PredNameOpsProofs.v — P[k op v]/f with the predicate on the name token, for '=', '!=' and '~'. *)
From Coq Require Import List NArith ZArith Bool Lia.
From N0 Require Import Base.PyStr Base.PyVal Xpath.Dec Xpath.DecProofs Xpath.Token Xpath.TokenProofs
  Xpath.Find Xpath.FindProofs Xpath.Write Xpath.SpecProofs Xpath.WalkProofs Xpath.TokenizeProofs Xpath.EnumProofs
  Xpath.FstrProofs Xpath.FanoutProofs Xpath.PredProofs Xpath.PredOpsProofs.
Import ListNotations.

(* the quoted predicate token the resolver builds from  name[k op v]  re-parses to the same predicate, for the
   three operators ('=' is stored as "==", '~' as "~~") *)
Definition quoted_pred_ok_op (o : pop) (k v : pstr) : Prop :=
  k <> [] /\ forallb idx_chr k = true /\ v <> [] /\ forallb idx_chr v = true /\ ~ In 33%N k /\ ~ In 33%N v /\
  startswith (lower (k ++ op_str o ++ 39%N :: v ++ [39%N])) s_contains = false /\
  pred_value (39%N :: v ++ [39%N]) = Ok (PvStr v).

Lemma sni_pred_quoted_op o k v : quoted_pred_ok_op o k v ->
  split_name_index (br (k ++ op_str o ++ 39%N :: v ++ [39%N])) = Ok ([], IdxPred k (op_str o) (PvStr v)).
Proof.
  intros [Hkne [Hkall [Hvne [Hvall [Hk33 [Hv33 [Hcont Hpv]]]]]]].
  destruct o; [exact (sni_pred_quoted k v (conj Hkne (conj Hkall (conj Hvne (conj Hvall (conj Hcont Hpv))))))| |].
  all: rewrite forallb_forall in Hkall, Hvall.
  all: assert (HFk : forall P : N -> Prop, (forall c, idx_chr c = true -> P c) -> Forall P k)
         by (intros P HP; apply Forall_forall; intros c Hin; apply HP, Hkall, Hin).
  all: assert (HFv : forall P : N -> Prop, (forall c, idx_chr c = true -> P c) -> Forall P v)
         by (intros P HP; apply Forall_forall; intros c Hin; apply HP, Hvall, Hin).
  all: assert (Hstripk : strip k = k) by (apply strip_id_forall, HFk; intros c Hc; now destruct (idx_chr_spec c Hc)).
  all: assert (Hasck : existsb (fun c => (128 <=? c)%N) k = false)
         by (apply existsb_false_forall, HFk; intros c Hc; now destruct (idx_chr_spec c Hc) as [_ [? _]]).
  all: assert (Hascv : existsb (fun c => (128 <=? c)%N) v = false)
         by (apply existsb_false_forall, HFv; intros c Hc; now destruct (idx_chr_spec c Hc) as [_ [? _]]).
  all: assert (Hk61 : ~ In 61%N k) by (intros Hin; assert (Hc : idx_chr 61 = true) by (apply Hkall, Hin); discriminate Hc).
  all: assert (Hv61 : ~ In 61%N v) by (intros Hin; assert (Hc : idx_chr 61 = true) by (apply Hvall, Hin); discriminate Hc).
  all: assert (Hk126 : ~ In 126%N k) by (intros Hin; assert (Hc : idx_chr 126 = true) by (apply Hkall, Hin); discriminate Hc).
  all: assert (Hv126 : ~ In 126%N v) by (intros Hin; assert (Hc : idx_chr 126 = true) by (apply Hvall, Hin); discriminate Hc).
  all: assert (Hk0ws : match k with c :: _ => mem_chr c py_ws = false | [] => True end)
         by (destruct k as [|k0 k1]; [exact I|]; assert (Hc : idx_chr k0 = true) by (apply Hkall; now left);
             now destruct (idx_chr_spec k0 Hc)).
  all: assert (Hq61 : ~ In 61%N (39%N :: v ++ [39%N]))
         by (intros [Hin|Hin]; [discriminate|]; apply in_app_or in Hin; destruct Hin as [Hin|[Hin|[]]]; [contradiction|discriminate]).
  all: destruct k as [|k0 k1]; [congruence|]; set (kk := k0 :: k1) in *.
  - (* != *)
    change (kk ++ op_str OpNe ++ 39%N :: v ++ [39%N]) with (k0 :: (k1 ++ 33%N :: 61%N :: 39%N :: v ++ [39%N])) in *.
    set (bt := k1 ++ 33%N :: 61%N :: 39%N :: v ++ [39%N]) in *.
    assert (Hbody : k0 :: bt = kk ++ 33%N :: 61%N :: (39%N :: v ++ [39%N])) by reflexivity.
    unfold split_name_index, br.
    assert (E1 : mem_chr c_lb (c_lb :: (k0 :: bt) ++ [c_rb]) = true) by reflexivity. rewrite E1.
    change (c_lb :: (k0 :: bt) ++ [c_rb]) with ((c_lb :: k0 :: bt) ++ [c_rb]).
    rewrite last_chr_snoc, N.eqb_refl. cbn [andb]. rewrite removelast_last.
    change (c_lb :: k0 :: bt) with ([] ++ c_lb :: k0 :: bt). rewrite (split_once_first c_lb [] (k0 :: bt)) by (intros []).
    replace (strip []) with (@nil N) by reflexivity.
    assert (Hstrip : strip (k0 :: bt) = k0 :: bt).
    { unfold strip. apply strip_set_id; [exact Hk0ws|]. rewrite Hbody.
      replace (kk ++ 33%N :: 61%N :: (39%N :: v ++ [39%N])) with ((kk ++ 33%N :: 61%N :: 39%N :: v) ++ [39%N])
        by (rewrite <- app_assoc; reflexivity).
      rewrite rev_app_distr. reflexivity. }
    rewrite Hstrip.
    assert (Hascii : existsb (fun c => (128 <=? c)%N) (k0 :: bt) = false).
    { rewrite Hbody, existsb_app, Hasck. cbn [existsb orb]. rewrite existsb_app, Hascv. reflexivity. }
    rewrite Hascii, Hcont. cbn [andb].
    assert (Heq : mem_chr 61 (k0 :: bt) = true).
    { apply mem_chr_In. rewrite Hbody. apply in_or_app. right. right. now left. }
    rewrite Heq. cbn [orb first_delim delims].
    rewrite Hbody.
    rewrite (find_eqeq_absent kk 33%N (39%N :: v ++ [39%N]) Hk61 ltac:(discriminate) Hq61).
    rewrite (split_once_first2 33%N 61%N kk (39%N :: v ++ [39%N]) Hk33).
    rewrite Hstripk.
    assert (Hsq : strip (39%N :: v ++ [39%N]) = 39%N :: v ++ [39%N]).
    { unfold strip. apply strip_set_id; [reflexivity|].
      change (39%N :: v ++ [39%N]) with ((39%N :: v) ++ [39%N]). rewrite rev_app_distr. reflexivity. }
    rewrite Hsq. cbn [bind]. rewrite Hpv. reflexivity.
  - (* ~~ *)
    change (kk ++ op_str OpHas ++ 39%N :: v ++ [39%N]) with (k0 :: (k1 ++ 126%N :: 126%N :: 39%N :: v ++ [39%N])) in *.
    set (bt := k1 ++ 126%N :: 126%N :: 39%N :: v ++ [39%N]) in *.
    assert (Hbody : k0 :: bt = kk ++ 126%N :: 126%N :: (39%N :: v ++ [39%N])) by reflexivity.
    unfold split_name_index, br.
    assert (E1 : mem_chr c_lb (c_lb :: (k0 :: bt) ++ [c_rb]) = true) by reflexivity. rewrite E1.
    change (c_lb :: (k0 :: bt) ++ [c_rb]) with ((c_lb :: k0 :: bt) ++ [c_rb]).
    rewrite last_chr_snoc, N.eqb_refl. cbn [andb]. rewrite removelast_last.
    change (c_lb :: k0 :: bt) with ([] ++ c_lb :: k0 :: bt). rewrite (split_once_first c_lb [] (k0 :: bt)) by (intros []).
    replace (strip []) with (@nil N) by reflexivity.
    assert (Hstrip : strip (k0 :: bt) = k0 :: bt).
    { unfold strip. apply strip_set_id; [exact Hk0ws|]. rewrite Hbody.
      replace (kk ++ 126%N :: 126%N :: (39%N :: v ++ [39%N])) with ((kk ++ 126%N :: 126%N :: 39%N :: v) ++ [39%N])
        by (rewrite <- app_assoc; reflexivity).
      rewrite rev_app_distr. reflexivity. }
    rewrite Hstrip.
    assert (Hascii : existsb (fun c => (128 <=? c)%N) (k0 :: bt) = false).
    { rewrite Hbody, existsb_app, Hasck. cbn [existsb orb]. rewrite existsb_app, Hascv. reflexivity. }
    rewrite Hascii, Hcont. cbn [andb].
    assert (Htil : mem_chr 126 (k0 :: bt) = true).
    { apply mem_chr_In. rewrite Hbody. apply in_or_app. right. now left. }
    rewrite Htil, orb_true_r. cbn [first_delim delims].
    rewrite Hbody.
    assert (Hno61 : ~ In 61%N (kk ++ 126%N :: 126%N :: 39%N :: v ++ [39%N])).
    { intros Hin. apply in_app_or in Hin. destruct Hin as [Hin|[Hin|[Hin|Hin]]]; try discriminate; [contradiction|contradiction]. }
    rewrite (split_once_absent 61%N [61%N] _ Hno61).
    assert (Hno33 : ~ In 33%N (kk ++ 126%N :: 126%N :: 39%N :: v ++ [39%N])).
    { intros Hin. apply in_app_or in Hin. destruct Hin as [Hin|[Hin|[Hin|[Hin|Hin]]]]; try discriminate; [contradiction|].
      apply in_app_or in Hin. destruct Hin as [Hin|[Hin|[]]]; [contradiction|discriminate]. }
    rewrite (split_once_absent 33%N [61%N] _ Hno33).
    rewrite (split_once_first2 126%N 126%N kk (39%N :: v ++ [39%N]) Hk126).
    rewrite Hstripk.
    assert (Hsq : strip (39%N :: v ++ [39%N]) = 39%N :: v ++ [39%N]).
    { unfold strip. apply strip_set_id; [reflexivity|].
      change (39%N :: v ++ [39%N]) with ((39%N :: v) ++ [39%N]). rewrite rev_app_distr. reflexivity. }
    rewrite Hsq. cbn [bind]. rewrite Hpv. reflexivity.
Qed.

(* P[k op v]/f : the predicate rides on the name token, for '=', '!=' and '~' *)
Theorem pred_lookup_name_op o fuel root x re rl dflt toks0 p0 c0 kvs0 segs0 name c r0 items yk fk k f v :
  keys_good root ->
  has_path_char x = true -> tokenize x = toks0 ++ [yk; fk] ->
  walks root toks0 p0 (Dict c0 kvs0) segs0 ->
  split_name_index yk = Ok (name, IdxPred k (op_str o) (PvStr v)) ->
  split_name_index name = Ok (name, IdxNone) -> plain_key name ->
  lookup name kvs0 = Some (Lst c (r0 :: items)) ->
  pstr_eqb k s_text = false -> clean_lit_ops v -> quoted_pred_ok_op o k v ->
  split_name_index fk = Ok (f, IdxNone) -> plain_key f ->
  all_selectable_op o k f v (r0 :: items) ->
  2 * length toks0 + 2 * (length segs0 + 2) + 12 <= fuel ->
  dict_get_core fuel root x re rl dflt =
  Ok (root, fanout_result re rl dflt (flat_map (sel_list (rec_select_op o k f v)) (r0 :: items))).
Proof.
  intros Hg Hc Ht Hw Hyk Hsn Hpn Hln Hkt Hv Hq Hfk Hpk Hall Hf. unfold dict_get_core. rewrite Hc, Ht.
  destruct (find_walks_prefix rl root toks0 p0 _ segs0 Hw [yk; fk] ltac:(congruence) fuel root [] s_root ltac:(lia))
    as [fuel' [H1 [H2 H3]]].
  rewrite H3. cbn [app].
  destruct fuel' as [|[|[|f']]]; try lia.
  rewrite (find_keypred_step rl _ root yk [fk] (PAt p0) c0 kvs0 _ name k (op_str o) (PvStr v) _ Hyk Hpn Hln).
  cbn [pval_str child_key].
  pose proof (walks_snoc_key _ _ _ _ _ Hw c0 kvs0 name _ eq_refl Hsn Hpn Hln) as Hw1.
  assert (Hfstr : sl (s_root ++ render_segs segs0) name = s_root ++ render_segs (segs0 ++ [SK name])).
  { unfold sl, render_segs. rewrite map_app, concat_app. cbn [map concat render_seg].
    rewrite app_nil_r, <- app_assoc. reflexivity. }
  rewrite Hfstr.
  destruct (pred_at_list_op o rl root _ _ c r0 items _ _ fk k f v f' Hg Hw1 (sni_pred_quoted_op o k v Hq) Hkt Hv Hfk Hpk Hall) as [F [HF Hsh]].
  { rewrite app_length. cbn. lia. }
  rewrite HF. unfold fanout_result.
  destruct (flat_map (sel_list (rec_select_op o k f v)) (r0 :: items)) as [|v0 vs].
  - now rewrite Hsh.
  - destruct Hsh as [Hval Hr]. now rewrite Hr, Hval.
Qed.

(* non-vacuity:  r[k!=a]/f  and  r[k~a]/f  on the records of [pr_recs] *)
Definition pr_xn_ne : pstr := [114; 91; 107; 33; 61; 97; 93; 47; 102]%N.    (* r[k!=a]/f *)
Definition pr_xn_has : pstr := [114; 91; 107; 126; 97; 93; 47; 102]%N.      (* r[k~a]/f *)
Theorem pred_name_ops_example :
  quoted_pred_ok_op OpNe [107]%N [97]%N /\ quoted_pred_ok_op OpHas [107]%N [97]%N /\
  dict_get_core (fuel_for pr_root pr_xn_ne) pr_root pr_xn_ne true true LDefault = Ok (pr_root, LVal (Lst true [Leaf (SInt 2)])) /\
  dict_get_core (fuel_for pr_root pr_xn_has) pr_root pr_xn_has true true LDefault
  = Ok (pr_root, LVal (Lst true [Leaf (SInt 1); Leaf (SInt 3)])).
Proof.
  split; [|split; [|split]].
  - repeat split; try discriminate; try reflexivity; intros [H|[]]; discriminate.
  - repeat split; try discriminate; try reflexivity; intros [H|[]]; discriminate.
  - vm_compute. reflexivity.
  - vm_compute. reflexivity.
Qed.
