(* Xpath/ListRootProofs.v — lookups below an element of a list-rooted container reduce to the dict-rooted case:
   [i]/rest on a list root whose element i is a dictionary answers what rest answers on that dictionary.
   (Since the "fix:" commit 1eca224 the element is handed over with the found path reset to "/".) *)
From Coq Require Import List NArith ZArith Bool Lia.
From N0 Require Import Base.PyStr Base.PyVal Xpath.Dec Xpath.Token Xpath.Find Xpath.FindProofs.
Import ListNotations.

Lemma set_nth_same {A} (l : list A) : forall i x, nth_error l i = Some x -> set_nth i x l = l.
Proof.
  induction l as [|a l IH]; intros [|i] x H; cbn in *; try discriminate.
  - inversion H; reflexivity.
  - f_equal. apply IH. exact H.
Qed.

Lemma replace_at_idx_same c items i child :
  nth_error items i = Some child -> replace_at (Lst c items) [PIdx i] child = Lst c items.
Proof. intros H. cbn [replace_at]. rewrite H. now rewrite (set_nth_same items i child H). Qed.

(* the list resolver at an index step whose element is a dictionary, with further steps: it delegates *)
Lemma lfind_delegates rl f c items y0 rest si z i c' kvs :
  split_name_index y0 = Ok ([], IdxStr si) -> plain_idx si -> n0eval si = EvInt z ->
  norm_idx (length items) z = Some i -> nth_error items i = Some (Dict c' kvs) -> rest <> [] ->
  lfind rl (S f) (Lst c items) (y0 :: rest) (PAt []) (Lst c items) s_root =
  match find true rl f (Dict c' kvs) rest (PAt []) (Dict c' kvs) s_root with
  | Ok (child', m, F) => Ok ((if m then replace_at (Lst c items) [PIdx i] child' else Lst c items), m, rebase [PIdx i] F)
  | Raise e => Raise e
  | OutOfFuel => OutOfFuel
  | Unmodelled => Unmodelled
  end.
Proof.
  intros Hs [Hne [Hnew Hst]] He Hn Hc Hr.
  cbn [lfind]. rewrite Hs. cbn [bind nonempty]. rewrite Hst. cbn [wrap_parent]. rewrite He, Hn, Hc.
  destruct rest as [|r0 rest']; [congruence|]. cbn [child_idx app].
  destruct (find true rl f (Dict c' kvs) (r0 :: rest') (PAt []) (Dict c' kvs) s_root) as [[[ch m] F]|e| |]; reflexivity.
Qed.

Theorem list_root_reduces fuel c items x x' y0 si z i c' kvs re rl dflt child' r :
  has_path_char x = true -> has_path_char x' = true ->
  tokenize x = y0 :: tokenize x' -> tokenize x' <> [] ->
  split_name_index y0 = Ok ([], IdxStr si) -> plain_idx si -> n0eval si = EvInt z ->
  norm_idx (length items) z = Some i -> nth_error items i = Some (Dict c' kvs) ->
  dict_get_core fuel (Dict c' kvs) x' re rl dflt = Ok (child', r) ->
  list_get_core (S fuel) (Lst c items) x re rl dflt = Ok (replace_at (Lst c items) [PIdx i] child', r).
Proof.
  intros Hc Hc' Ht Hne Hs Hpi He Hn Hnth H.
  unfold list_get_core. rewrite Hc, Ht.
  rewrite (lfind_delegates rl fuel c items y0 (tokenize x') si z i c' kvs Hs Hpi He Hn Hnth Hne).
  unfold dict_get_core in H. rewrite Hc' in H.
  destruct (find true rl fuel (Dict c' kvs) (tokenize x') (PAt []) (Dict c' kvs) s_root) as [[[ch m] F]|e| |] eqn:Ef;
    try discriminate H.
  - cbn [rebase f_rest f_val].
    assert (Hroot : (if m then replace_at (Lst c items) [PIdx i] ch else Lst c items) = replace_at (Lst c items) [PIdx i] ch).
    { destruct m; [reflexivity|].
      rewrite (find_unmutated rl _ _ _ _ _ _ _ _ _ Ef eq_refl). symmetry. apply replace_at_idx_same. exact Hnth. }
    rewrite Hroot.
    destruct (rest_falsy (f_rest F)).
    + destruct (f_val F); inversion H; subst; reflexivity.
    + inversion H; subst; reflexivity.
  - destruct (funnelled e); inversion H; subst; rewrite (replace_at_idx_same c items i _ Hnth); reflexivity.
Qed.

(* when the lookup on the element leaves the element as it is (every lookup the other theorems speak about does),
   the list-rooted lookup leaves the list as it is *)
Corollary list_root_reduces_pure fuel c items x x' y0 si z i c' kvs re rl dflt r :
  has_path_char x = true -> has_path_char x' = true ->
  tokenize x = y0 :: tokenize x' -> tokenize x' <> [] ->
  split_name_index y0 = Ok ([], IdxStr si) -> plain_idx si -> n0eval si = EvInt z ->
  norm_idx (length items) z = Some i -> nth_error items i = Some (Dict c' kvs) ->
  dict_get_core fuel (Dict c' kvs) x' re rl dflt = Ok (Dict c' kvs, r) ->
  list_get_core (S fuel) (Lst c items) x re rl dflt = Ok (Lst c items, r).
Proof.
  intros Hc Hc' Ht Hne Hs Hpi He Hn Hnth H.
  rewrite (list_root_reduces fuel c items x x' y0 si z i c' kvs re rl dflt _ r Hc Hc' Ht Hne Hs Hpi He Hn Hnth H).
  now rewrite (replace_at_idx_same c items i _ Hnth).
Qed.

(* non-vacuity: the predicate lookup of PredProofs below element 1 of a list root:  [1]/r/[k=a]/f *)
From N0 Require Import Xpath.DecProofs Xpath.TokenProofs Xpath.Write Xpath.SpecProofs Xpath.WalkProofs Xpath.TokenizeProofs
  Xpath.EnumProofs Xpath.FstrProofs Xpath.DeleteProofs Xpath.FanoutProofs Xpath.PredProofs.
Definition lr_root : tree := Lst true [Dict true [([120]%N, Leaf (SInt 1))]; pr_root].
Definition lr_x : pstr := [91; 49; 93; 47]%N ++ pr_x.
Theorem list_root_example :
  tokenize lr_x = [91; 49; 93]%N :: tokenize pr_x /\ tokenize pr_x <> [] /\
  split_name_index [91; 49; 93]%N = Ok ([], IdxStr [49]%N) /\ n0eval [49]%N = EvInt 1 /\
  list_get_core (S (fuel_for pr_root pr_x)) lr_root lr_x true true LDefault
  = Ok (lr_root, LVal (Lst true [Leaf (SInt 1); Leaf (SInt 3)])).
Proof.
  split; [vm_compute; reflexivity|]. split; [vm_compute; discriminate|]. split; [vm_compute; reflexivity|].
  split; vm_compute; reflexivity.
Qed.
