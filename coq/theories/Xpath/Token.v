(* Xpath/Token.v — the path tokenizer: the "][" -> "]/[" rewrite and split on '/',
   split_name_index (n0struct_utils_find.py) and n0eval (n0struct_utils.py),
   transliterated. *)
From Coq Require Import List NArith ZArith Bool Lia.
From N0 Require Import Base.PyStr Base.PyVal Xpath.Dec.
Import ListNotations.

Definition c_slash : N := 47%N.
Definition c_lb : N := 91%N.
Definition c_rb : N := 93%N.
Definition s_new : pstr := [110; 101; 119; 40; 41]%N.          (* new() *)
Definition s_last : pstr := [108; 97; 115; 116; 40; 41]%N.     (* last() *)
Definition s_star : pstr := [42]%N.
Definition s_dotdot : pstr := [46; 46]%N.
Definition s_text : pstr := [116; 101; 120; 116; 40; 41]%N.    (* text() *)
Definition s_root : pstr := [c_slash].

(* "[" ++ s ++ "]" and a ++ "/" ++ b as the f-strings of the resolver build them *)
Definition br (s : pstr) : pstr := c_lb :: s ++ [c_rb].
Definition sl (a b : pstr) : pstr := a ++ c_slash :: b.

Definition nonempty (s : pstr) : bool := match s with [] => false | _ => true end.

(* [itm.strip() for itm in xpath.replace("][","]/[").split('/') if itm] *)
Definition tokenize (x : pstr) : list pstr :=
  map strip (filter nonempty (split_chr c_slash (replace x [c_rb; c_lb] [c_rb; c_slash; c_lb]))).

(* ---- n0eval ------------------------------------------------------------------ *)
Inductive ev := EvInt (z : Z) | EvStr (s : pstr) | EvUnk.

Fixpoint my_split_go (d : N) (plus : bool) (items : list pstr) (i : nat) : list pstr :=
  match items with
  | [] => []
  | itm :: r =>
    let s := strip itm in
    let rest := my_split_go d plus r (S i) in
    match s with
    | [] => rest
    | _ => (if negb plus && negb (Nat.eqb i 0) then d :: s else s) :: rest
    end
  end.
Definition my_split (s : pstr) (d : N) : list pstr :=
  my_split_go d (N.eqb d 43) (split_chr d s) 0.

Fixpoint n0eval_sum (items : list pstr) (acc : Z) (orig : pstr) : ev :=
  match items with
  | [] => EvInt acc
  | it :: r =>
    if pstr_eqb it s_new then EvStr orig
    else if pstr_eqb it s_last then n0eval_sum r (acc - 1)%Z orig
    else if mem_chr 46 it then EvUnk          (* '.' in item: float(item) is tried instead of int(item) *)
    else match py_int it with
         | IntOk z => n0eval_sum r (acc + z)%Z orig
         | IntFail => EvStr orig
         | IntUnk => EvUnk
         end
  end.

Definition n0eval (s0 : pstr) : ev :=
  if existsb (fun c => (128 <=? c)%N) s0 then EvUnk else
  let s := lower (filter (fun c => negb (N.eqb c 32)) s0) in
  match s with
  | [] => EvStr s
  | _ => n0eval_sum (flat_map (fun it => my_split it 45%N) (my_split s 43%N)) 0%Z s
  end.

(* ---- split_name_index ------------------------------------------------------- *)
Inductive pval := PvStr (s : pstr) | PvBool (b : bool).
Inductive idx := IdxNone | IdxStr (s : pstr) | IdxPred (name op : pstr) (v : pval).

Definition idx_truthy (i : idx) : bool :=
  match i with IdxNone => false | IdxStr s => nonempty s | IdxPred _ _ _ => true end.

(* s.split(sep, 1) when sep occurs *)
Definition split_once (s sep : pstr) : option (pstr * pstr) :=
  match find_sub s sep with
  | Some i => Some (firstn i s, skipn (i + length sep) s)
  | None => None
  end.

Definition delims : list (pstr * pstr) :=
  (* (delimiter as searched, operator stored) in the order of the tuple in the code *)
  [([61; 61], [61; 61]); ([33; 61], [33; 61]); ([126; 126], [126; 126]); ([33; 126], [33; 126]);
   ([126], [126; 126]); ([61], [61; 61])]%N.

Fixpoint first_delim (s : pstr) (ds : list (pstr * pstr)) : option (pstr * pstr * pstr) :=
  match ds with
  | [] => None
  | (d, op) :: r =>
    match split_once s d with
    | Some (a, b) => Some (strip a, op, strip b)
    | None => first_delim s r
    end
  end.

Definition s_true : pstr := [116; 114; 117; 101; 40; 41]%N.     (* true() *)
Definition s_false : pstr := [102; 97; 108; 115; 101; 40; 41]%N. (* false() *)
Definition s_contains : pstr := [99; 111; 110; 116; 97; 105; 110; 115]%N.

Definition last_chr (s : pstr) : option N := match rev s with c :: _ => Some c | [] => None end.
Definition quoted_by (q : N) (s : pstr) : bool :=
  match s with c :: _ => N.eqb c q | [] => false end &&
  match last_chr s with Some c => N.eqb c q | None => false end.

Definition pred_value (v : pstr) : res pval :=
  if pstr_eqb (lower v) s_true then Ok (PvBool true)
  else if pstr_eqb (lower v) s_false then Ok (PvBool false)
  else if quoted_by 34 v || quoted_by 39 v then
    let u := removelast (tl v) in
    if mem_chr 37 u then Unmodelled                      (* urllib unquote of %xx *)
    else Ok (match u with [] => PvBool false | _ => PvStr u end)
  else Ok (match v with [] => PvBool false | _ => PvStr v end).

Definition split_name_index (s : pstr) : res (pstr * idx) :=
  if mem_chr c_lb s && match last_chr s with Some c => N.eqb c c_rb | None => false end then
    match split_once (removelast s) [c_lb] with
    | None => Unmodelled   (* cannot happen: '[' in s and s ends with ']' *)
    | Some (nm, ix) =>
      let nm := strip nm in
      let ix := strip ix in
      if existsb (fun c => (128 <=? c)%N) ix then Unmodelled   (* str.lower on non-ASCII inside an index *)
      else
      match ix with
      | [] => Ok (nm, IdxStr [])
      | _ =>
        if startswith (lower ix) s_contains && match last_chr ix with Some c => N.eqb c 41 | None => false end
        then Unmodelled
        else if mem_chr 61 ix || mem_chr 126 ix then
          match first_delim ix delims with
          | None => Raise ExSyntax
          | Some (n, op, v) => do pv <- pred_value v ;; Ok (nm, IdxPred n op pv)
          end
        else Ok (nm, IdxStr ix)
      end
    end
  else Ok (s, IdxNone).

(* how a pval prints in an f-string *)
Definition s_True : pstr := [84; 114; 117; 101]%N.
Definition s_False : pstr := [70; 97; 108; 115; 101]%N.
Definition pval_str (v : pval) : pstr :=
  match v with PvStr s => s | PvBool true => s_True | PvBool false => s_False end.

(* ---- observations -------------------------------------------------------------- *)
Definition obs_tokenize (x : pstr) : out := Ok (t_strs (tokenize x)).
Definition obs_n0eval (x : pstr) : out :=
  match n0eval x with
  | EvInt z => Ok (t_int z)
  | EvStr s => Ok (t_str s)
  | EvUnk => Unmodelled
  end.
Definition obs_sni (x : pstr) : out :=
  match split_name_index x with
  | Ok (nm, IdxNone) => Ok (t_list [t_str nm; t_none])
  | Ok (nm, IdxStr s) => Ok (t_list [t_str nm; t_str s])
  | Ok (nm, IdxPred n op v) =>
    Ok (t_list [t_str nm; t_list [t_str n; t_str op; match v with PvStr s => t_str s | PvBool b => t_bool b end]])
  | Raise e => Raise e
  | OutOfFuel => OutOfFuel
  | Unmodelled => Unmodelled
  end.
