(* Xpath/PureProofs.v — lookups on strings without the letter 'w' (or without 'n') never modify
   the tree: the only branch of the resolver that writes is [new()], and no token the resolver
   ever builds — from the caller's string, from the keys of the tree, from the path string it
   accumulates, from printed indexes — can be "[new()]" when that letter occurs nowhere. *)
From Coq Require Import List NArith ZArith Bool Lia.
From N0 Require Import Base.PyStr Base.PyVal Xpath.Dec Xpath.DecProofs Xpath.Token Xpath.Find Xpath.FindProofs.
Import ListNotations.

Section NoLetter.
Variable c0 : N.
Hypothesis Hc0 : c0 = 110%N \/ c0 = 119%N.     (* 'n' or 'w' *)

Definition okc (c : N) : Prop := c <> c0.
Definition nw (s : pstr) : Prop := Forall okc s.

Ltac okc_const := unfold okc; let E := fresh "E" in let E0 := fresh "E0" in
  intros E; destruct Hc0 as [E0|E0]; rewrite E0 in E; vm_compute in E; discriminate E.
Ltac nw_const := unfold nw; repeat constructor; okc_const.

Lemma nw_app a b : nw (a ++ b) <-> nw a /\ nw b.
Proof. unfold nw. apply Forall_app. Qed.
Lemma nw_rev a : nw a -> nw (rev a).
Proof. unfold nw. intros H. apply Forall_rev. exact H. Qed.
Lemma nw_firstn n a : nw a -> nw (firstn n a).
Proof. unfold nw. revert a; induction n as [|n IH]; intros [|c a] H; cbn; auto. inversion H; subst. constructor; auto. Qed.
Lemma nw_skipn n a : nw a -> nw (skipn n a).
Proof. unfold nw. revert a; induction n as [|n IH]; intros [|c a] H; cbn; auto. inversion H; subst. auto. Qed.
Lemma nw_removelast a : nw a -> nw (removelast a).
Proof. unfold nw. induction a as [|c a IH]; intros H; cbn; auto. inversion H; subst. destruct a; [constructor|]. constructor; auto. Qed.
Lemma nw_tl a : nw a -> nw (tl a).
Proof. unfold nw. destruct a; cbn; auto. intros H; inversion H; auto. Qed.
Lemma nw_lstrip cs a : nw a -> nw (lstrip_set cs a).
Proof. unfold nw. induction a as [|c a IH]; intros H; cbn; auto. inversion H; subst. destruct (mem_chr c cs); auto. Qed.
Lemma nw_strip a : nw a -> nw (strip a).
Proof. intros H. unfold strip, strip_set, rstrip_set. apply nw_rev, nw_lstrip, nw_rev, nw_lstrip, H. Qed.

Lemma nw_split_chr_aux d s : forall cur, nw s -> nw cur -> Forall nw (split_chr_aux d s cur).
Proof.
  induction s as [|c s IH]; intros cur Hs Hc; cbn.
  - constructor; [apply nw_rev, Hc|constructor].
  - inversion Hs; subst. destruct (N.eqb c d).
    + constructor; [apply nw_rev, Hc|]. apply IH; [assumption|constructor].
    + apply IH; [assumption|constructor; assumption].
Qed.
Lemma nw_split_chr d s : nw s -> Forall nw (split_chr d s).
Proof. intros H. apply nw_split_chr_aux; [exact H|constructor]. Qed.

Lemma nw_replace_aux old new : nw new -> forall fuel s, nw s -> nw (replace_aux fuel s old new).
Proof.
  intros Hn. induction fuel as [|f IH]; intros s Hs; [exact Hs|]. cbn [replace_aux].
  destruct s as [|c s']; [constructor|].
  destruct (startswith (c :: s') old).
  - apply nw_app. split; [exact Hn|]. apply IH. apply nw_skipn. exact Hs.
  - inversion Hs; subst. constructor; [assumption|apply IH; assumption].
Qed.
Lemma nw_replace s old new : nw s -> nw new -> nw (replace s old new).
Proof. intros Hs Hn. unfold replace. destruct old; [exact Hs|]. apply nw_replace_aux; assumption. Qed.

Lemma Forall_nw_filter (f : pstr -> bool) l : Forall nw l -> Forall nw (filter f l).
Proof. induction l as [|a l IH]; intros H; cbn; auto. inversion H; subst. destruct (f a); auto. Qed.
Lemma Forall_nw_map_strip l : Forall nw l -> Forall nw (map strip l).
Proof. induction l as [|a l IH]; intros H; cbn; auto. inversion H; subst. constructor; auto using nw_strip. Qed.
Lemma Forall_nw_removelast (l : list pstr) : Forall nw l -> Forall nw (removelast l).
Proof. induction l as [|a l IH]; intros H; cbn; auto. inversion H; subst. destruct l; [constructor|]. constructor; auto. Qed.

Lemma nw_rb_lb : nw [c_rb; c_slash; c_lb]. Proof. nw_const. Qed.

Lemma nw_tokenize x : nw x -> Forall nw (tokenize x).
Proof.
  intros H. unfold tokenize. apply Forall_nw_map_strip, Forall_nw_filter, nw_split_chr, nw_replace; [exact H|apply nw_rb_lb].
Qed.

Lemma nw_br s : nw s -> nw (br s).
Proof. intros H. unfold br. constructor; [okc_const|]. apply nw_app. split; [exact H|nw_const]. Qed.
Lemma nw_sl a b : nw a -> nw b -> nw (sl a b).
Proof. intros Ha Hb. unfold sl. apply nw_app. split; [exact Ha|]. constructor; [okc_const|exact Hb]. Qed.

Lemma nw_dec_of_Z z : nw (dec_of_Z z).
Proof.
  destruct (dec_of_Z_chars z) as [H _]. eapply Forall_impl; [|exact H].
  intros c [[H1 H2]|H1]; unfold okc; intros ->; destruct Hc0; subst; lia.
Qed.
Lemma nw_dec_of_nat n : nw (dec_of_nat n).
Proof. rewrite dec_of_nat_Z. apply nw_dec_of_Z. Qed.

Lemma nw_split_once s sep a b : nw s -> split_once s sep = Some (a, b) -> nw a /\ nw b.
Proof.
  unfold split_once. intros H. destruct (find_sub s sep); [|discriminate].
  intros E; inversion E; subst. split; [apply nw_firstn|apply nw_skipn]; exact H.
Qed.

Lemma nw_first_delim s : forall ds n op v, nw s -> Forall (fun d => nw (snd d)) ds ->
  first_delim s ds = Some (n, op, v) -> nw n /\ nw op /\ nw v.
Proof.
  induction ds as [|[d o] ds IH]; intros n op v Hs Hd E; cbn in E; [discriminate|].
  inversion Hd; subst.
  destruct (split_once s d) as [[a b]|] eqn:Es.
  - inversion E; subst. destruct (nw_split_once _ _ _ _ Hs Es). repeat split; auto using nw_strip.
  - eapply IH; eauto.
Qed.

Lemma nw_delims : Forall (fun d => nw (snd d)) delims.
Proof. unfold delims. repeat constructor; cbn; okc_const. Qed.

Definition nw_pval (v : pval) : Prop := nw (pval_str v).
Definition nw_idx (i : idx) : Prop :=
  match i with IdxNone => True | IdxStr s => nw s | IdxPred n op v => nw n /\ nw op /\ nw_pval v end.

Lemma nw_pred_value v pv : nw v -> pred_value v = Ok pv -> nw_pval pv.
Proof.
  intros H. unfold pred_value, nw_pval.
  destruct (pstr_eqb (lower v) s_true); [intros E; inversion E; subst; cbn; nw_const|].
  destruct (pstr_eqb (lower v) s_false); [intros E; inversion E; subst; cbn; nw_const|].
  destruct (quoted_by 34 v || quoted_by 39 v).
  - destruct (mem_chr 37 (removelast (tl v))); [discriminate|].
    intros E; inversion E; subst.
    destruct (removelast (tl v)) eqn:Eu; cbn; [nw_const|]. rewrite <- Eu. apply nw_removelast, nw_tl, H.
  - intros E; inversion E; subst. destruct v; cbn; [nw_const|exact H].
Qed.

Lemma nw_sni x name ix : nw x -> split_name_index x = Ok (name, ix) -> nw name /\ nw_idx ix.
Proof.
  intros H. unfold split_name_index.
  destruct (mem_chr c_lb x && match last_chr x with Some c => N.eqb c c_rb | None => false end).
  2: { intros E; inversion E; subst. split; [exact H|exact I]. }
  destruct (split_once (removelast x) [c_lb]) as [[nm i0]|] eqn:Es; [|discriminate].
  destruct (nw_split_once _ _ _ _ (nw_removelast _ H) Es) as [Hn Hi].
  destruct (existsb _ (strip i0)); [discriminate|].
  pose proof (nw_strip _ Hi) as Hi'. pose proof (nw_strip _ Hn) as Hn'.
  destruct (strip i0) as [|i1 i2] eqn:Ei.
  - intros E; inversion E; subst. split; [exact Hn'|constructor].
  - destruct (startswith _ _ && _); [discriminate|].
    destruct (mem_chr 61 (i1 :: i2) || mem_chr 126 (i1 :: i2)).
    + destruct (first_delim (i1 :: i2) delims) as [[[n op] v]|] eqn:Ef; [|discriminate].
      destruct (nw_first_delim _ _ _ _ _ Hi' nw_delims Ef) as [H1 [H2 H3]].
      unfold bind. destruct (pred_value v) as [pv| | |] eqn:Ep; try discriminate.
      intros E; inversion E; subst. split; [exact Hn'|]. cbn. repeat split; auto. eapply nw_pred_value; eauto.
    + intros E; inversion E; subst. split; [exact Hn'|exact Hi'].
Qed.

Lemma s_new_not_nw : ~ nw s_new.
Proof. unfold nw, s_new. intros H. rewrite Forall_forall in H. destruct Hc0 as [-> | ->]; [apply (H 110%N)|apply (H 119%N)]; cbn; auto 10. Qed.


(* ---- trees whose keys avoid the letter -------------------------------------------------------- *)
Fixpoint knw (t : tree) : Prop :=
  match t with
  | Leaf _ => True
  | Dict _ kvs =>
    (fix all (l : list (pstr * tree)) := match l with [] => True | (k, v) :: r => nw k /\ knw v /\ all r end) kvs
  | Lst _ xs => (fix all (l : list tree) := match l with [] => True | v :: r => knw v /\ all r end) xs
  end.

Lemma knw_kvs c kvs : knw (Dict c kvs) <-> Forall (fun kv => nw (fst kv) /\ knw (snd kv)) kvs.
Proof.
  cbn [knw]. induction kvs as [|[k v] r IH].
  - split; intros _; [constructor|exact I].
  - split.
    + intros [H1 [H2 H3]]. constructor; [split; assumption|apply IH; exact H3].
    + intros H. inversion H as [|? ? [H1 H2] H3]; subst. cbn in H1, H2. repeat split; [assumption..|apply IH; exact H3].
Qed.
Lemma knw_items c xs : knw (Lst c xs) <-> Forall knw xs.
Proof.
  cbn [knw]. induction xs as [|v r IH].
  - split; intros _; [constructor|exact I].
  - split.
    + intros [H1 H2]. constructor; [assumption|apply IH; exact H2].
    + intros H. inversion H; subst. split; [assumption|apply IH; assumption].
Qed.
Lemma knw_lookup c kvs k v : knw (Dict c kvs) -> lookup k kvs = Some v -> knw v.
Proof.
  rewrite knw_kvs. induction kvs as [|[k' v'] r IH]; cbn; intros H E; [discriminate|].
  inversion H as [|? ? [H1 H2] H3]; subst. destruct (pstr_eqb k k'); [inversion E; subst; exact H2|auto].
Qed.
Lemma knw_nth c xs i v : knw (Lst c xs) -> nth_error xs i = Some v -> knw v.
Proof.
  rewrite knw_items. intros H E. rewrite Forall_forall in H. apply H. eapply nth_error_In; eauto.
Qed.

Definition Fnw (F : found) : Prop :=
  knw (f_parv F) /\ (forall s, f_slot F = Some s -> nw s) /\ (forall v, f_val F = Some v -> knw v) /\
  nw (f_str F) /\ (forall r, f_rest F = Some r -> Forall nw r).
Definition optF (o : option found) : Prop := forall F, o = Some F -> Fnw F.
Definition candok (cd : list pstr * pref * tree * pstr) : Prop :=
  let '(xs, _, parv, fstr) := cd in Forall nw xs /\ knw parv /\ nw fstr.

Lemma knw_agg rl vals : Forall knw vals -> knw (agg rl vals).
Proof.
  intros H. unfold agg. destruct vals as [|v [|v2 r]]; try (apply knw_items; exact H).
  destruct rl; [apply knw_items; exact H|]. inversion H; assumption.
Qed.

Lemma nw_root : nw s_root. Proof. nw_const. Qed.
Lemma nw_star : nw s_star. Proof. nw_const. Qed.
Lemma nw_dotdot : nw s_dotdot. Proof. nw_const. Qed.
Lemma nw_text : nw s_text. Proof. nw_const. Qed.

Lemma nw_segs fstr : nw fstr ->
  Forall nw (removelast (filter nonempty (split_chr c_slash (replace fstr [c_rb; c_lb] [c_rb; c_slash; c_lb])))).
Proof. intros H. apply Forall_nw_removelast, Forall_nw_filter, nw_split_chr, nw_replace; [exact H|apply nw_rb_lb]. Qed.

Lemma Fnw_parv F : Fnw F -> knw (f_parv F). Proof. intros [H1 [H2 [H3 [H4 H5]]]]; exact H1. Qed.
Lemma Fnw_slot F s : Fnw F -> f_slot F = Some s -> nw s. Proof. intros [H1 [H2 [H3 [H4 H5]]]]; apply H2. Qed.
Lemma Fnw_val F v : Fnw F -> f_val F = Some v -> knw v. Proof. intros [H1 [H2 [H3 [H4 H5]]]]; apply H3. Qed.
Lemma Fnw_str F : Fnw F -> nw (f_str F). Proof. intros [H1 [H2 [H3 [H4 H5]]]]; exact H4. Qed.
Lemma Fnw_rest F r : Fnw F -> f_rest F = Some r -> Forall nw r. Proof. intros [H1 [H2 [H3 [H4 H5]]]]; apply H5. Qed.

Ltac nws :=
  repeat match goal with
  | |- _ => assumption
  | |- _ /\ _ => split
  | |- True => exact I
  | |- Forall okc ?s => change (nw s)
  | |- knw (f_parv _) => eapply Fnw_parv; eassumption
  | |- knw (agg _ _) => apply knw_agg
  | |- knw (lagg _ _) => apply knw_agg
  | |- nw (f_str _) => eapply Fnw_str; eassumption
  | |- Forall nw [] => constructor
  | |- Forall nw (_ :: _) => constructor
  | |- Forall nw (tokenize _) => apply nw_tokenize
  | |- Forall nw (removelast (filter _ _)) => apply nw_segs
  | |- nw (br _) => apply nw_br
  | |- nw (sl _ _) => apply nw_sl
  | |- nw (dec_of_Z _) => apply nw_dec_of_Z
  | |- nw (dec_of_nat _) => apply nw_dec_of_nat
  | |- nw s_star => apply nw_star
  | |- nw s_root => apply nw_root
  | |- nw s_dotdot => apply nw_dotdot
  | |- nw s_text => apply nw_text
  | |- nw (_ ++ _) => apply nw_app; split
  | |- nw [] => constructor
  | |- nw (_ :: _) => constructor
  | |- okc _ => okc_const
  | |- nw _ => eapply Fnw_slot; eassumption
  end.

Ltac fnw :=
  unfold Fnw; cbn [f_parv f_slot f_val f_str f_rest];
  repeat match goal with
         | |- _ /\ _ => split
         | |- forall _, _ = Some _ -> _ => let E := fresh "E" in intros ? E; try discriminate E; inversion E; subst; clear E
         end.

Lemma knw_wrap par parv p2 t l0 : knw parv -> wrap_parent par parv = (p2, t, l0) -> knw t /\ Forall knw l0.
Proof.
  intros H. unfold wrap_parent. destruct parv; intros E; inversion E; subst; cbn; auto.
  split; [exact H|]. apply (knw_items c). exact H.
Qed.

Ltac sat :=
  unfold nw_pval in *;
  repeat match goal with
  | Hi : _ /\ _ |- _ => destruct Hi
  | Hk : knw (Dict ?c ?kvs), Hl : lookup ?k ?kvs = Some ?t |- _ =>
      lazymatch goal with | _ : knw t |- _ => fail | _ => pose proof (knw_lookup c kvs k t Hk Hl) end
  | Hk : knw ?pv, Hw : wrap_parent ?par ?pv = (?p2, ?t, ?l0) |- _ =>
      lazymatch goal with | _ : Forall knw l0 |- _ => fail | _ => destruct (knw_wrap par pv p2 t l0 Hk Hw) end
  | Hk : Forall knw ?l0, Hn : nth_error ?l0 ?n = Some ?t0 |- _ =>
      lazymatch goal with | _ : knw t0 |- _ => fail
      | _ => pose proof (proj1 (Forall_forall knw l0) Hk t0 (nth_error_In l0 n Hn)) end
  end.

(* the fan-out loop, whatever its candidates: values and first match stay clean *)
Ltac loop_nw IH Hr :=
  match goal with
  | Hl : ?L ?cs0 [] None = Ok (?vals', ?fst') |- _ =>
    let G := fresh "G" in
    assert (G : forall cs vals fst, Forall candok cs -> Forall knw vals -> optF fst ->
                L cs vals fst = Ok (vals', fst') -> Forall knw vals' /\ optF fst');
    [ let cs := fresh "cs" in let IHc := fresh "IHc" in
      intros cs; induction cs as [|[[[? ?] ?] ?] ? IHc]; intros ? ? Hcs Hvs Hfs Hx;
      [ inversion Hx; subst; split; [apply Forall_rev; assumption|assumption]
      | inversion Hcs as [|? ? Hcd Hcs']; subst; cbn in Hcd; destruct Hcd as [Hc1 [Hc2 Hc3]]; cbn in Hx;
        match type of Hx with
        | context [find ?a ?b ?c2 ?d ?e1 ?g ?h ?i] =>
          let Ef := fresh "Ef" in
          destruct (find a b c2 d e1 g h i) as [[[? ?] ?]|?| |] eqn:Ef; try discriminate Hx;
          let Hm := fresh "Hm" in let HF := fresh "HF" in
          destruct (IH _ _ _ _ _ _ _ _ Hr Hc2 Hc1 Hc3 Ef) as [Hm HF]; subst;
          repeat match type of Hx with
                 | context [if ?d2 then _ else _] => destruct d2 eqn:?; try discriminate Hx
                 | context [match ?d2 with _ => _ end] => destruct d2 eqn:?; try discriminate Hx
                 end;
          (eapply IHc; [exact Hcs'| | |exact Hx]);
          try assumption;
          try (constructor; [eapply Fnw_val; eassumption|assumption]);
          try (intros ? E; inversion E; subst; assumption);
          try (intros ? E; first [discriminate E | apply Hfs; exact E])
        end ]
    | ]
  end.

Theorem find_nw rl : forall fuel root xs par parv fstr root' m F,
  knw root -> knw parv -> Forall nw xs -> nw fstr ->
  find true rl fuel root xs par parv fstr = Ok (root', m, F) -> m = false /\ Fnw F.
Proof.
  induction fuel as [|f IH]; intros root xs par parv fstr root' m F Hr Hp Hx Hf H; [discriminate H|].
  cbn [find] in H. unfold bind in H.
  repeat (step_in H; try discriminate H).
  all: subst.
  all: try match goal with Hxx : Forall nw (_ :: _) |- _ => inversion Hxx; subst; clear Hxx end.
  all: try match goal with Hs : split_name_index ?p = Ok (?n, ?i), Hp1 : nw ?p |- _ =>
             let Hn := fresh "Hn" in let Hi := fresh "Hi" in destruct (nw_sni p n i Hp1 Hs) as [Hn Hi]; cbn [nw_idx] in Hi end.
  (* the new() branch is unreachable *)
  all: try match goal with Hq : pstr_eqb ?s s_new = true, Hi : nw ?s |- _ =>
             apply pstr_eqb_eq in Hq; subst; exfalso; exact (s_new_not_nw Hi) end.
  all: sat.
  (* direct results *)
  all: try (inversion H; subst; clear H; split; [reflexivity|]; fnw; nws; fail).
  (* one recursive call, nothing else *)
  all: try (eapply IH; [| | | |exact H]; nws; fail).
  (* the '..' step: re-find the parent, then continue from it *)
  all: try match goal with
       | Hd : find true _ _ _ (removelast _) (PAt []) _ s_root = Ok (?t, ?b, ?f0) |- _ =>
         let HF0 := fresh "HF0" in
         destruct (IH _ _ _ _ _ _ _ _ Hr Hr (nw_segs _ Hf) nw_root Hd) as [-> HF0];
         pose proof (find_unmutated rl _ _ _ _ _ _ _ _ _ Hd eq_refl); subst;
         match goal with
         | Hn : _ = Ok (?p2, ?t0) |- _ =>
           assert (Hk0 : knw t0) by
             (pose proof (Fnw_parv _ HF0) as Hpv;
              repeat (step_in Hn; try discriminate Hn); inversion Hn; subst;
              try match goal with E : f_parv _ = _ |- _ => rewrite E in Hpv end;
              eauto using knw_lookup, knw_nth)
         end
       end.
  all: try (match goal with
       | H2 : find true _ _ _ _ _ _ (f_str ?f0) = Ok (_, ?b0, ?f1), HF0 : Fnw ?f0 |- _ =>
         let HF1 := fresh "HF1" in
         assert (HF1 : b0 = false /\ Fnw f1) by
           (eapply IH; [| | | |exact H2]; [exact Hr|exact Hk0|nws|eapply Fnw_str; eassumption]);
         destruct HF1 as [-> HF1];
         inversion H; subst; split; [reflexivity|exact HF1]
       end; fail).
  all: try (inversion H; subst; clear H; split; [reflexivity|]; fnw; nws; fail).
  (* fan-out loops *)
  all: try (loop_nw IH Hr;
       match goal with
       | Hl : _ ?cs0 [] None = Ok (_, ?o), G : forall cs vals fst, _ |- _ =>
         let Hv := fresh "Hv" in let Ho := fresh "Ho" in
         assert (Hcs0 : Forall candok cs0) by
           (apply Forall_forall; intros cd Hin; apply in_map_iff in Hin; destruct Hin as [x [<- Hin]];
            try match goal with Hk : knw (Dict ?c ?kvs) |- _ =>
                  let Hq := fresh in
                  pose proof (proj1 (Forall_forall _ kvs) (proj1 (knw_kvs c kvs) Hk) x Hin) as Hq; destruct Hq end;
            cbn [candok]; nws);
         destruct (G cs0 [] None Hcs0 (Forall_nil _) ltac:(intros ? E; discriminate E) Hl) as [Hv Ho];
         try pose proof (Ho _ eq_refl);
         inversion H; subst; clear H; split; [reflexivity|]; fnw; nws
       end; fail).
Qed.

Lemma Fnw_rebase cp F : Fnw F -> Fnw (rebase cp F).
Proof. intros H. exact H. Qed.

Theorem lfind_nw rl : forall fuel root xs par parv fstr root' m F,
  knw root -> knw parv -> Forall nw xs -> nw fstr ->
  lfind rl fuel root xs par parv fstr = Ok (root', m, F) -> m = false /\ Fnw F.
Proof.
  induction fuel as [|f IH]; intros root xs par parv fstr root' m F Hr Hp Hx Hf H; [discriminate H|].
  cbn [lfind] in H. unfold bind in H.
  repeat (step_in H; try discriminate H).
  all: subst.
  all: try match goal with Hxx : Forall nw (_ :: _) |- _ => inversion Hxx; subst; clear Hxx end.
  all: try match goal with Hs : split_name_index ?p = Ok (?n, ?i), Hp1 : nw ?p |- _ =>
             let Hn := fresh "Hn" in let Hi := fresh "Hi" in destruct (nw_sni p n i Hp1 Hs) as [Hn Hi]; cbn [nw_idx] in Hi end.
  all: sat.
  all: try (inversion H; subst; clear H; split; [reflexivity|]; fnw; nws; fail).
  all: try (eapply IH; [| | | |exact H]; nws; fail).
  (* an item that is a dict: the dict resolver takes over *)
  all: try (match goal with
       | Hd : find true _ _ _ _ (PAt []) _ _ = Ok (_, ?mm, ?f0) |- _ =>
         let HF0 := fresh "HF0" in
         assert (HF0 : mm = false /\ Fnw f0) by (eapply find_nw; [| | | |exact Hd]; nws);
         destruct HF0 as [HF0 HF1];
         first [discriminate HF0 | inversion H; subst; split; [reflexivity|apply Fnw_rebase; exact HF1]]
       end; fail).
  (* the [*] loop over the items *)
  all: try (match goal with
       | Hl : ?L ?cs0 [] None = Ok (?vals', ?fst') |- _ =>
         assert (G : forall cs vals fst, Forall (fun ic : nat * tree => knw (snd ic)) cs -> Forall knw vals -> optF fst ->
                     L cs vals fst = Ok (vals', fst') -> Forall knw vals' /\ optF fst');
         [ let cs := fresh "cs" in let IHc := fresh "IHc" in
           intros cs; induction cs as [|[ii child] ? IHc]; intros ? ? Hcs Hvs Hfs Hx;
           [ inversion Hx; subst; split; [apply Forall_rev; assumption|assumption]
           | inversion Hcs as [|? ? Hcd Hcs']; subst; cbn [snd] in Hcd; cbn -[dec_of_nat dec_of_Z find lfind] in Hx;
             match type of Hx with
             | context [match ?d with Ok _ => _ | Raise _ => _ | OutOfFuel => _ | Unmodelled => _ end] =>
               let Eone := fresh "Eone" in
               destruct d as [[[? mm] F1]|?| |] eqn:Eone; try discriminate Hx;
               assert (Hone : mm = false /\ Fnw F1) by
                 (destruct child as [?|? ?|? ?];
                  [ discriminate Eone
                  | repeat (step_in Eone; try discriminate Eone); inversion Eone; subst;
                    match goal with Hd : find true _ _ _ _ _ _ _ = Ok (_, _, ?f0) |- _ =>
                      let HH := fresh in
                      assert (HH : _ = false /\ Fnw f0) by (eapply find_nw; [| | | |exact Hd]; nws);
                      destruct HH; split; [assumption|apply Fnw_rebase; assumption] end
                  | eapply IH; [| | | |exact Eone]; nws ]);
               destruct Hone as [-> HF];
               repeat match type of Hx with
                      | context [if ?d2 then _ else _] => destruct d2 eqn:?; try discriminate Hx
                      | context [match ?d2 with _ => _ end] => destruct d2 eqn:?; try discriminate Hx
                      end;
               (eapply IHc; [exact Hcs'| | |exact Hx]);
               try assumption;
               try (constructor; [eapply Fnw_val; eassumption|assumption]);
               try (intros ? E; inversion E; subst; assumption)
             end ]
         | assert (Hcs0 : Forall (fun ic : nat * tree => knw (snd ic)) cs0) by
             (apply Forall_forall; intros [ii child] Hin; apply in_combine_r in Hin; cbn [snd];
              match goal with Hk : knw (Lst _ ?items) |- _ =>
                exact (proj1 (Forall_forall _ items) (proj1 (knw_items _ items) Hk) child Hin) end);
           destruct (G cs0 [] None Hcs0 (Forall_nil _) ltac:(intros ? E; discriminate E) Hl) as [Hv Ho];
           try pose proof (Ho _ eq_refl);
           inversion H; subst; clear H; split; [reflexivity|]; fnw; nws ]
       end; fail).
Qed.

(* ---- whole lookups ------------------------------------------------------------------------------ *)
Lemma nw_qmark_tail c x : nw (c :: x) -> nw x.
Proof. intros H; inversion H; assumption. Qed.

Theorem dict_get_core_nw fuel root x re rl dflt root' r :
  knw root -> nw x -> dict_get_core fuel root x re rl dflt = Ok (root', r) -> root' = root.
Proof.
  intros Hr Hx H. eapply dict_get_core_pure; [exact H|].
  unfold dict_lookup_mutates.
  destruct (find true rl fuel root (tokenize x) (PAt []) root s_root) as [[[r0 m] F]|e| |] eqn:Ef; try reflexivity.
  destruct (find_nw rl _ _ _ _ _ _ _ _ _ Hr Hr (nw_tokenize _ Hx) nw_root Ef) as [Hm _]. exact Hm.
Qed.

Theorem dict_get_nw fuel root x re rl root' r :
  knw root -> nw x -> dict_get fuel root x re rl = Ok (root', r) -> root' = root.
Proof.
  intros Hr Hx. unfold dict_get.
  destruct x as [|c x']; [apply dict_get_core_nw; assumption|].
  destruct (N.eqb c 63) eqn:Ec.
  - apply N.eqb_eq in Ec. subst c. apply dict_get_core_nw; [assumption|eapply nw_qmark_tail; exact Hx].
  - assert (Hm : match c :: x' with 63%N :: x'0 => dict_get_core fuel root x'0 false rl LEmpty
                                | _ => dict_get_core fuel root (c :: x') re rl LDefault end
                 = dict_get_core fuel root (c :: x') re rl LDefault).
    { apply N.eqb_neq in Ec. destruct c as [|p]; [reflexivity|].
      repeat (destruct p as [p|p|]; try reflexivity). congruence. }
    rewrite Hm. apply dict_get_core_nw; assumption.
Qed.

Theorem list_get_core_nw fuel root x re rl dflt root' r :
  knw root -> nw x -> list_get_core fuel root x re rl dflt = Ok (root', r) -> root' = root.
Proof.
  intros Hr Hx. unfold list_get_core.
  destruct (has_path_char x).
  - destruct (lfind rl fuel root (tokenize x) (PAt []) root s_root) as [[[r0 m] F]|e| |] eqn:Ef; try discriminate.
    + destruct (lfind_nw rl _ _ _ _ _ _ _ _ _ Hr Hr (nw_tokenize _ Hx) nw_root Ef) as [Hm _]. subst m.
      pose proof (lfind_unmutated rl _ _ _ _ _ _ _ _ _ Ef eq_refl). subst r0.
      destruct (rest_falsy (f_rest F)); [destruct (f_val F)|]; intros H; inversion H; reflexivity.
    + destruct (funnelled e); intros H; inversion H; reflexivity.
  - destruct root; try discriminate. destruct (n0eval x); try discriminate.
    + destruct (norm_idx (length xs) z); [destruct (nth_error xs n)|]; intros H; inversion H; reflexivity.
    + intros H; inversion H; reflexivity.
Qed.

Theorem list_get_nw fuel root x re rl root' r :
  knw root -> nw x -> list_get fuel root x re rl = Ok (root', r) -> root' = root.
Proof.
  intros Hr Hx. unfold list_get.
  destruct x as [|c x']; [intros H; inversion H; reflexivity|].
  destruct (N.eqb c 63) eqn:Ec.
  - apply N.eqb_eq in Ec. subst c. apply list_get_core_nw; [assumption|eapply nw_qmark_tail; exact Hx].
  - assert (Hm : match c :: x' with
                 | [] => Ok (root, LDefault)
                 | 63%N :: x'0 => list_get_core fuel root x'0 false rl LEmpty
                 | _ => list_get_core fuel root (c :: x') re rl LDefault end
                 = list_get_core fuel root (c :: x') re rl LDefault).
    { apply N.eqb_neq in Ec. destruct c as [|p]; [reflexivity|].
      repeat (destruct p as [p|p|]; try reflexivity). congruence. }
    rewrite Hm. apply list_get_core_nw; assumption.
Qed.



End NoLetter.

(* non-vacuity: a tree and a string over much of the xpath alphabet ('..', an index, last(), an
   index sum, the '?' prefix) in which the letter w does not occur *)
Definition pure_root : tree :=
  Dict true [([97], Lst true [Dict true [([107], Leaf (SStr [120])); ([98], Lst true [Leaf (SInt 1); Leaf (SInt 2)])]])]%N.
(* ?/a/[0]/k/../b[last()-1+0] *)
Definition pure_x : pstr :=
  [63; 47; 97; 47; 91; 48; 93; 47; 107; 47; 46; 46; 47; 98; 91; 108; 97; 115; 116; 40; 41; 45; 49; 43; 48; 93]%N.
Lemma pure_example : knw 119 pure_root /\ nw 119 pure_x /\
  dict_get (fuel_for pure_root pure_x) pure_root pure_x true true = Ok (pure_root, LVal (Leaf (SInt 1))).
Proof.
  split; [|split].
  - cbn. unfold nw, okc. repeat split; repeat constructor; discriminate.
  - unfold nw, okc, pure_x. repeat constructor; discriminate.
  - vm_compute. reflexivity.
Qed.
