(* Xpath/LongPathProofs.v — the number of steps of a path has no limit: C02_set_existing quantifies over every
   string, and its hypotheses are met by paths of any length.  A concrete instance with 70 tokens (140 path steps), dictionary
   levels and list levels mixed (computed inside the kernel). *)
From Coq Require Import List NArith ZArith Bool.
From N0 Require Import Base.PyStr Base.PyVal Xpath.Dec Xpath.Token Xpath.Find Xpath.Write.
Import ListNotations.

(* level n: {"d": [0, <level n-1>]} ; the path is d[1]/d[1]/.../d[1] *)
Fixpoint deep (n : nat) : tree :=
  match n with
  | O => Leaf (SInt 1)
  | S m => Dict true [([100]%N, Lst true [Leaf (SInt 0); deep m])]
  end.
Fixpoint deep_x (n : nat) : pstr :=
  match n with O => [] | S m => [47; 100; 91; 49; 93]%N ++ deep_x m end.      (* "/d[1]" n times *)
Fixpoint deep_p (n : nat) : path :=
  match n with O => [] | S m => PKey [100]%N :: PIdx 1 :: deep_p m end.

Lemma long_path_example :
  length (tokenize (deep_x 70)) = 70 /\ length (deep_p 70) = 140 /\
  resolve (deep 70) (deep_p 70) = Some (Leaf (SInt 1)) /\
  setitem (wfuel (deep_x 70)) (deep 70) (deep_x 70) (Leaf (SInt 7)) = Ok (replace_at (deep 70) (deep_p 70) (Leaf (SInt 7))) /\
  resolve (replace_at (deep 70) (deep_p 70) (Leaf (SInt 7))) (deep_p 70) = Some (Leaf (SInt 7)).
Proof. vm_compute. repeat split. Qed.
