(* Xpath/TokenizeProofs.v — the string layer: tokenize equals a single-pass splitter,
   and the strings the library itself renders (xpath() results, xpath_found_str)
   tokenise to the expected step tokens. *)
From Coq Require Import List NArith ZArith Bool Lia.
From N0 Require Import Base.PyStr Base.PyVal Xpath.Dec Xpath.DecProofs Xpath.Token Xpath.TokenProofs.
Import ListNotations.

Arguments N.eqb : simpl never.

(* single pass: cut at '/', and between ']' and '[' *)
Fixpoint split2 (s : pstr) (cur : pstr) (prb : bool) : list pstr :=
  match s with
  | [] => [rev cur]
  | c :: s' =>
    if N.eqb c c_slash then rev cur :: split2 s' [] false
    else if N.eqb c c_lb && prb then rev cur :: split2 s' [c_lb] false
    else split2 s' (c :: cur) (N.eqb c c_rb)
  end.

Definition old_ : pstr := [c_rb; c_lb].
Definition new_ : pstr := [c_rb; c_slash; c_lb].

Lemma startswith_old s : startswith s old_ = true <-> exists r, s = c_rb :: c_lb :: r.
Proof.
  unfold old_. split.
  - destruct s as [|a [|b r]]; cbn; try discriminate.
    + rewrite andb_false_r. discriminate.
    + rewrite !andb_true_iff, !N.eqb_eq. intros [<- [<- _]]. now exists r.
  - intros [r ->]. cbn. now rewrite !N.eqb_refl.
Qed.

Lemma split_replace fuel : forall s cur prb,
  length s <= fuel ->
  (prb = true -> match s with c :: _ => c <> c_lb | [] => True end) ->
  split_chr_aux c_slash (replace_aux fuel s old_ new_) cur = split2 s cur prb.
Proof.
  induction fuel as [|f IH]; intros s cur prb Hlen Hprb.
  - destruct s; [reflexivity|cbn in Hlen; lia].
  - destruct s as [|c s']; [reflexivity|].
    cbn [replace_aux]. destruct (startswith (c :: s') old_) eqn:Esw.
    + apply startswith_old in Esw. destruct Esw as [r Er]. inversion Er; subst. clear Er.
      unfold new_, old_. cbn [app length skipn split_chr_aux split2].
      replace (N.eqb c_rb c_slash) with false by reflexivity.
      replace (N.eqb c_slash c_slash) with true by reflexivity.
      replace (N.eqb c_lb c_slash) with false by reflexivity.
      replace (N.eqb c_rb c_lb) with false by reflexivity.
      replace (N.eqb c_rb c_rb) with true by reflexivity.
      replace (N.eqb c_lb c_lb) with true by reflexivity.
      cbn [andb]. f_equal.
      apply (IH r [c_lb] false); [cbn in Hlen; lia|discriminate].
    + cbn [split_chr_aux split2].
      destruct (N.eqb c c_slash) eqn:Esl.
      * f_equal. apply IH; [cbn in Hlen; lia|discriminate].
      * destruct (N.eqb c c_lb && prb) eqn:Ecut.
        -- apply andb_true_iff in Ecut as [E1 E2]. apply N.eqb_eq in E1. subst. exfalso. now apply (Hprb eq_refl).
        -- apply IH; [cbn in Hlen; lia|].
           intros Erb. apply N.eqb_eq in Erb. subst c. destruct s' as [|d s'']; [exact I|].
           intros ->. assert (startswith (c_rb :: c_lb :: s'') old_ = true) by (apply startswith_old; now eexists).
           congruence.
Qed.

Theorem tokenize_split2 x : tokenize x = map strip (filter nonempty (split2 x [] false)).
Proof.
  unfold tokenize, split_chr.
  change (replace x [c_rb; c_lb] [c_rb; c_slash; c_lb]) with (replace_aux (length x) x old_ new_).
  rewrite (split_replace (length x) x [] false); [reflexivity|lia|discriminate].
Qed.

(* ---- rendered strings ------------------------------------------------------------------------ *)
Inductive seg := SK (k : pstr) | SI (z : Z).
Definition render_seg (s : seg) : pstr :=
  match s with SK k => c_slash :: k | SI z => br (dec_of_Z z) end.
Definition render_segs (l : list seg) : pstr := concat (map render_seg l).

(* a key that renders unambiguously *)
Definition not_ws_hd (k : pstr) : Prop := match k with c :: _ => mem_chr c py_ws = false | [] => True end.
Definition seg_key (k : pstr) : Prop :=
  k <> [] /\ Forall (fun c => c <> c_slash /\ c <> c_lb /\ c <> c_rb) k /\ not_ws_hd k /\ not_ws_hd (rev k).

Fixpoint seg_tokens (l : list seg) : list pstr :=
  match l with
  | [] => []
  | SK k :: r =>
    match r with
    | SI z :: r' => (k ++ br (dec_of_Z z)) :: seg_tokens r'
    | _ => k :: seg_tokens r
    end
  | SI z :: r => br (dec_of_Z z) :: seg_tokens r
  end.

Definition segs_ok (l : list seg) : Prop := Forall (fun s => match s with SK k => seg_key k | SI _ => True end) l.

Lemma split2_plain k : forall rest cur prb,
  Forall (fun c => c <> c_slash /\ c <> c_lb /\ c <> c_rb) k -> k <> [] ->
  split2 (k ++ rest) cur prb = split2 rest (rev k ++ cur) false.
Proof.
  induction k as [|c k IH]; intros rest cur prb HF Hne; [congruence|].
  inversion HF as [|? ? [H1 [H2 H3]] HF']; subst. cbn [app split2].
  apply N.eqb_neq in H1, H2, H3. rewrite H1, H2, H3. cbn [andb].
  destruct k as [|c' k'].
  - reflexivity.
  - rewrite IH by (auto; congruence). cbn [rev]. now rewrite <- !app_assoc.
Qed.

Lemma dec_chars_plain z : Forall (fun c => c <> c_slash /\ c <> c_lb /\ c <> c_rb) (dec_of_Z z) /\ dec_of_Z z <> [].
Proof.
  destruct (dec_of_Z_chars z) as [HF Hne]. split; [|exact Hne].
  eapply Forall_impl; [|exact HF]. intros c [[H1 H2]| ->]; unfold c_slash, c_lb, c_rb; repeat split; lia.
Qed.

Lemma split2_idx z rest cur prb :
  split2 (br (dec_of_Z z) ++ rest) cur prb =
  if prb then rev cur :: split2 rest (c_rb :: rev (dec_of_Z z) ++ [c_lb]) true
  else split2 rest (c_rb :: rev (dec_of_Z z) ++ c_lb :: cur) true.
Proof.
  destruct (dec_chars_plain z) as [HF Hne]. unfold br. cbn [app split2].
  replace (N.eqb c_lb c_slash) with false by reflexivity.
  replace (N.eqb c_lb c_lb) with true by reflexivity. cbn [andb].
  destruct prb.
  - f_equal. rewrite <- app_assoc. rewrite split2_plain by assumption. cbn [app split2].
    replace (N.eqb c_rb c_slash) with false by reflexivity.
    replace (N.eqb c_rb c_lb) with false by reflexivity.
    replace (N.eqb c_rb c_rb) with true by reflexivity. reflexivity.
  - replace (N.eqb c_lb c_rb) with false by reflexivity.
    rewrite <- app_assoc. rewrite split2_plain by assumption. cbn [app split2].
    replace (N.eqb c_rb c_slash) with false by reflexivity.
    replace (N.eqb c_rb c_lb) with false by reflexivity.
    replace (N.eqb c_rb c_rb) with true by reflexivity. reflexivity.
Qed.

(* pieces of a rendered segment list, given the piece under construction [cur] (reversed) *)
Fixpoint seg_pieces (l : list seg) (cur : pstr) (prb : bool) : list pstr :=
  match l with
  | [] => [rev cur]
  | SK k :: r => rev cur :: seg_pieces r (rev k) false
  | SI z :: r =>
    if prb then rev cur :: seg_pieces r (c_rb :: rev (dec_of_Z z) ++ [c_lb]) true
    else seg_pieces r (c_rb :: rev (dec_of_Z z) ++ c_lb :: cur) true
  end.

Lemma split2_segs l : forall cur prb, segs_ok l ->
  split2 (render_segs l) cur prb = seg_pieces l cur prb.
Proof.
  induction l as [|s r IH]; intros cur prb Hok; [reflexivity|].
  inversion Hok as [|? ? Hs Hr]; subst. unfold render_segs. cbn [map concat]. fold (render_segs r).
  destruct s as [k|z]; cbn [render_seg seg_pieces].
  - destruct Hs as [Hne [HF _]]. cbn [app split2].
    replace (N.eqb c_slash c_slash) with true by reflexivity. f_equal.
    rewrite split2_plain by assumption. rewrite app_nil_r. now apply IH.
  - rewrite split2_idx. destruct prb; [f_equal|]; now apply IH.
Qed.

(* ---- from pieces to tokens ---------------------------------------------------------------------- *)
Definition emit (tok : pstr) : list pstr := match tok with [] => [] | _ => [tok] end.

Fixpoint tokens_acc (l : list seg) (tok : pstr) (prb : bool) : list pstr :=
  match l with
  | [] => emit tok
  | SK k :: r => emit tok ++ tokens_acc r k false
  | SI z :: r =>
    if prb then emit tok ++ tokens_acc r (br (dec_of_Z z)) true
    else tokens_acc r (tok ++ br (dec_of_Z z)) true
  end.

Lemma filter_emit tok rest : filter nonempty (tok :: rest) = emit tok ++ filter nonempty rest.
Proof. destruct tok; reflexivity. Qed.

Lemma pieces_tokens l : forall cur prb, filter nonempty (seg_pieces l cur prb) = tokens_acc l (rev cur) prb.
Proof.
  induction l as [|s r IH]; intros cur prb.
  - cbn [seg_pieces tokens_acc]. rewrite filter_emit. cbn. now rewrite app_nil_r.
  - destruct s as [k|z]; cbn [seg_pieces tokens_acc].
    + rewrite filter_emit, IH, rev_involutive. reflexivity.
    + destruct prb.
      * rewrite filter_emit, IH. cbn [rev]. rewrite rev_app_distr, rev_involutive. reflexivity.
      * rewrite IH. cbn [rev]. rewrite rev_app_distr, rev_involutive. cbn [rev app]. unfold br.
        now rewrite <- !app_assoc.
Qed.

Lemma br_nonempty d : br d <> [].
Proof. unfold br. discriminate. Qed.

Lemma tokens_acc_spec l : segs_ok l ->
  (forall tok, tok <> [] -> tokens_acc l tok true = tok :: seg_tokens l) /\
  (forall k, k <> [] -> tokens_acc l k false = seg_tokens (SK k :: l)) /\
  tokens_acc l [] false = seg_tokens l.
Proof.
  induction l as [|s r IH]; intros Hok.
  - repeat split.
    + intros tok Hne. destruct tok; [congruence|reflexivity].
    + intros k Hne. destruct k; [congruence|reflexivity].
  - inversion Hok as [|? ? Hs Hr]; subst. destruct (IH Hr) as [IH1 [IH2 IH3]].
    destruct s as [k'|z]; cbn [tokens_acc].
    + destruct Hs as [Hk' _]. repeat split.
      * intros tok Hne. destruct tok as [|t0 t1]; [congruence|]. cbn [emit app]. now rewrite IH2.
      * intros k Hne. destruct k as [|k0 k1]; [congruence|]. cbn [emit app seg_tokens]. now rewrite IH2.
      * cbn [emit app]. now apply IH2.
    + repeat split.
      * intros tok Hne. destruct tok as [|t0 t1]; [congruence|]. cbn [emit app seg_tokens].
        now rewrite IH1 by apply br_nonempty.
      * intros k Hne. cbn [seg_tokens]. apply IH1. destruct k; [congruence|discriminate].
      * cbn [app seg_tokens]. apply IH1, br_nonempty.
Qed.

(* every token is its own strip *)
Lemma strip_token_key k : seg_key k -> strip k = k.
Proof. intros [_ [_ [H1 H2]]]. unfold strip. now apply strip_set_id. Qed.

Lemma strip_token_br d : strip (br d) = br d.
Proof.
  unfold strip. apply strip_set_id; [reflexivity|]. unfold br.
  change (c_lb :: d ++ [c_rb]) with ((c_lb :: d) ++ [c_rb]). rewrite rev_app_distr. reflexivity.
Qed.

Lemma strip_token_keybr k d : seg_key k -> strip (k ++ br d) = k ++ br d.
Proof.
  intros [Hne [_ [H1 _]]]. unfold strip. apply strip_set_id.
  - destruct k; [congruence|exact H1].
  - unfold br. replace (k ++ c_lb :: d ++ [c_rb]) with ((k ++ c_lb :: d) ++ [c_rb]) by (now rewrite <- app_assoc).
    rewrite rev_app_distr. reflexivity.
Qed.

Lemma seg_tokens_strip l : segs_ok l -> map strip (seg_tokens l) = seg_tokens l.
Proof.
  assert (G : forall n l, length l <= n -> segs_ok l -> map strip (seg_tokens l) = seg_tokens l).
  { induction n as [|n IH]; intros l0 Hlen Hok.
    - destruct l0; [reflexivity|cbn in Hlen; lia].
    - destruct l0 as [|s r]; [reflexivity|]. inversion Hok as [|? ? Hs Hr]; subst.
      destruct s as [k|z].
      + destruct r as [|[k'|z'] r'].
        * cbn. now rewrite strip_token_key.
        * cbn [seg_tokens map]. rewrite strip_token_key by assumption. f_equal.
          apply (IH (SK k' :: r')); [cbn in *; lia|exact Hr].
        * cbn [seg_tokens map]. rewrite strip_token_keybr by assumption. f_equal.
          inversion Hr; subst. apply IH; [cbn in *; lia|assumption].
      + cbn [seg_tokens map]. rewrite strip_token_br. f_equal. apply IH; [cbn in *; lia|exact Hr]. }
  intros Hok. now apply (G (length l)).
Qed.

Theorem tokenize_rendered l : segs_ok l -> tokenize (s_root ++ render_segs l) = seg_tokens l.
Proof.
  intros Hok. rewrite tokenize_split2. unfold s_root. cbn [app split2].
  replace (N.eqb c_slash c_slash) with true by reflexivity.
  rewrite split2_segs by assumption. cbn [rev filter nonempty].
  rewrite pieces_tokens. cbn [rev]. destruct (tokens_acc_spec l Hok) as [_ [_ H3]]. rewrite H3.
  now apply seg_tokens_strip.
Qed.

(* the split the '..' branch performs on the found path (no strip): same tokens *)
Lemma raw_tokens_rendered l : segs_ok l ->
  filter nonempty (split_chr c_slash (replace (s_root ++ render_segs l) [c_rb; c_lb] [c_rb; c_slash; c_lb])) = seg_tokens l.
Proof.
  intros Hok. unfold split_chr.
  change (replace (s_root ++ render_segs l) [c_rb; c_lb] [c_rb; c_slash; c_lb])
    with (replace_aux (length (s_root ++ render_segs l)) (s_root ++ render_segs l) old_ new_).
  rewrite (split_replace _ (s_root ++ render_segs l) [] false); [|lia|discriminate].
  unfold s_root. cbn [app split2]. replace (N.eqb c_slash c_slash) with true by reflexivity.
  rewrite split2_segs by assumption. cbn [rev filter nonempty].
  rewrite pieces_tokens. cbn [rev]. now destruct (tokens_acc_spec l Hok) as [_ [_ H3]].
Qed.

Lemma seg_tokens_snoc_key : forall n l k, length l <= n -> seg_tokens (l ++ [SK k]) = seg_tokens l ++ [k].
Proof.
  induction n as [|n IH]; intros l k Hlen.
  - destruct l; [reflexivity|cbn in Hlen; lia].
  - destruct l as [|[k0|z0] r]; [reflexivity| |].
    + destruct r as [|[k1|z1] r'].
      * reflexivity.
      * cbn [app seg_tokens]. f_equal. apply (IH (SK k1 :: r')). cbn in *; lia.
      * cbn [app seg_tokens]. f_equal. apply IH. cbn in *; lia.
    + cbn [app seg_tokens]. f_equal. apply IH. cbn in *; lia.
Qed.

Lemma seg_tokens_length : forall n l, length l <= n -> length (seg_tokens l) <= length l.
Proof.
  induction n as [|n IH]; intros l Hlen.
  - destruct l; [cbn; lia|cbn in Hlen; lia].
  - destruct l as [|[k0|z0] r]; [cbn; lia| |].
    + destruct r as [|[k1|z1] r'].
      * cbn; lia.
      * cbn [seg_tokens length]. specialize (IH (SK k1 :: r') ltac:(cbn in *; lia)). cbn in *; lia.
      * cbn [seg_tokens length]. specialize (IH r' ltac:(cbn in *; lia)). cbn in *; lia.
    + cbn [seg_tokens length]. specialize (IH r ltac:(cbn in *; lia)). lia.
Qed.

Lemma segs_ok_app a b : segs_ok a -> segs_ok b -> segs_ok (a ++ b).
Proof. unfold segs_ok. intros. apply Forall_app. auto. Qed.
