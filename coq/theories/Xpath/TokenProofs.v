(* Xpath/TokenProofs.v — what the tokenizer does on the step spellings the
   properties quantify over: plain names, [i], name[i], printed integers. *)
From Coq Require Import List NArith ZArith Bool Lia.
From N0 Require Import Base.PyStr Base.PyVal Xpath.Dec Xpath.DecProofs Xpath.Token.
Import ListNotations.

Arguments N.eqb : simpl never.
Arguments N.leb : simpl never.

(* ---- generic string lemmas ------------------------------------------------------- *)
Lemma lstrip_keep cs b : (match b with c :: _ => mem_chr c cs = false | [] => True end) -> lstrip_set cs b = b.
Proof. destruct b as [|c b]; simpl; [reflexivity|]. now intros ->. Qed.

Lemma strip_set_id cs s :
  (match s with c :: _ => mem_chr c cs = false | [] => True end) ->
  (match rev s with c :: _ => mem_chr c cs = false | [] => True end) ->
  strip_set cs s = s.
Proof.
  intros H1 H2. unfold strip_set, rstrip_set. rewrite (lstrip_keep cs s H1).
  rewrite (lstrip_keep cs (rev s) H2). apply rev_involutive.
Qed.

Lemma strip_id_forall s : Forall (fun c => mem_chr c py_ws = false) s -> strip s = s.
Proof.
  intros H. unfold strip. apply strip_set_id.
  - destruct s; [exact I|]. now inversion H.
  - apply Forall_rev in H. destruct (rev s); [exact I|]. now inversion H.
Qed.

Lemma split_chr_none d s : ~ In d s -> split_chr d s = [s].
Proof.
  intros H. unfold split_chr. rewrite <- (app_nil_r s) at 1.
  rewrite split_chr_aux_app by exact H. reflexivity.
Qed.

Lemma split_chr_head d s : split_chr d (d :: s) = [] :: split_chr d s.
Proof. unfold split_chr. cbn [split_chr_aux]. now rewrite N.eqb_refl. Qed.

Lemma filter_id {A} (f : A -> bool) l : Forall (fun x => f x = true) l -> filter f l = l.
Proof. induction 1 as [|x l Hx Hl IH]; simpl; [reflexivity|]. now rewrite Hx, IH. Qed.

Lemma map_id_forall {A} (f : A -> A) l : Forall (fun x => f x = x) l -> map f l = l.
Proof. induction 1 as [|x l Hx Hl IH]; simpl; [reflexivity|]. now rewrite Hx, IH. Qed.

Lemma existsb_false_forall {A} (f : A -> bool) l : Forall (fun x => f x = false) l -> existsb f l = false.
Proof. induction 1 as [|x l Hx Hl IH]; simpl; [reflexivity|]. now rewrite Hx, IH. Qed.

Lemma mem_chr_false_forall c l : Forall (fun x => x <> c) l -> mem_chr c l = false.
Proof.
  intros H. apply mem_chr_false. intros Hin. rewrite Forall_forall in H. exact (H c Hin eq_refl).
Qed.

Lemma startswith_nil_r s : startswith s [] = true.
Proof. reflexivity. Qed.

Lemma find_sub_aux_first c : forall k r i fuel,
  ~ In c k -> (length k <= fuel)%nat ->
  find_sub_aux fuel (k ++ c :: r) [c] i = Some (i + length k)%nat.
Proof.
  induction k as [|x k IH]; intros r i fuel Hn Hf.
  - destruct fuel; cbn [find_sub_aux app startswith]; rewrite N.eqb_refl; cbn [andb length]; f_equal; lia.
  - assert (Hx : N.eqb c x = false) by (apply N.eqb_neq; intros ->; apply Hn; now left).
    destruct fuel as [|f]; [cbn in Hf; lia|].
    cbn [find_sub_aux app startswith]. rewrite Hx. cbn [andb].
    rewrite IH by (try (intros Hi; apply Hn; now right); cbn in Hf; lia). cbn [length]. f_equal. lia.
Qed.

Lemma split_once_first c k r : ~ In c k -> split_once (k ++ c :: r) [c] = Some (k, r).
Proof.
  intros Hn. unfold split_once, find_sub.
  rewrite find_sub_aux_first by (try assumption; rewrite app_length; lia).
  cbn [plus length]. f_equal. f_equal.
  - now rewrite firstn_app, firstn_all, Nat.sub_diag, app_nil_r.
  - replace (length k + 1)%nat with (length (k ++ [c])) by (rewrite app_length; reflexivity).
    replace (k ++ c :: r) with ((k ++ [c]) ++ r) by (now rewrite <- app_assoc).
    now rewrite skipn_app, skipn_all, Nat.sub_diag.
Qed.

Lemma last_chr_snoc s c : last_chr (s ++ [c]) = Some c.
Proof. unfold last_chr. now rewrite rev_app_distr. Qed.

(* ---- characters of index strings --------------------------------------------------- *)
(* an "index character": ASCII, not white space, not '=', '~', '[', '/' *)
Definition idx_chr (c : N) : bool :=
  negb (mem_chr c py_ws) && N.ltb c 128 && negb (N.eqb c 61) && negb (N.eqb c 126) && negb (N.eqb c c_lb)
  && negb (N.eqb c c_slash).
Definition clean_idx (si : pstr) : bool :=
  nonempty si && forallb idx_chr si && negb (startswith (lower si) s_contains).

Lemma idx_chr_spec c : idx_chr c = true ->
  mem_chr c py_ws = false /\ N.leb 128 c = false /\ c <> 61%N /\ c <> 126%N /\ c <> c_lb /\ c <> c_slash.
Proof.
  unfold idx_chr. rewrite !andb_true_iff, !negb_true_iff, !N.eqb_neq, N.ltb_lt.
  intros [[[[[H1 H2] H3] H4] H5] H6]. repeat split; auto. apply N.leb_gt. exact H2.
Qed.

(* ---- split_name_index -------------------------------------------------------------- *)
Lemma sni_plain k : mem_chr c_lb k = false -> split_name_index k = Ok (k, IdxNone).
Proof. intros H. unfold split_name_index. now rewrite H. Qed.

Lemma sni_name_idx k si :
  mem_chr c_lb k = false -> strip k = k -> clean_idx si = true ->
  split_name_index (k ++ br si) = Ok (k, IdxStr si).
Proof.
  intros Hk Hsk Hc. unfold clean_idx in Hc. apply andb_true_iff in Hc as [Hc Hcont].
  apply andb_true_iff in Hc as [Hne Hall]. rewrite forallb_forall in Hall.
  assert (HF : forall P : N -> Prop, (forall c, idx_chr c = true -> P c) -> Forall P si).
  { intros P HP. apply Forall_forall. intros c Hin. apply HP, Hall, Hin. }
  unfold split_name_index, br.
  assert (E1 : mem_chr c_lb (k ++ c_lb :: si ++ [c_rb]) = true).
  { apply mem_chr_In. apply in_or_app. right. now left. }
  rewrite E1.
  replace (k ++ c_lb :: si ++ [c_rb]) with ((k ++ c_lb :: si) ++ [c_rb]) by (now rewrite <- app_assoc).
  rewrite last_chr_snoc, N.eqb_refl. cbn [andb]. rewrite removelast_last.
  rewrite split_once_first by (now apply mem_chr_false).
  rewrite Hsk.
  rewrite (strip_id_forall si) by (apply HF; intros c Hc; now destruct (idx_chr_spec c Hc)).
  rewrite existsb_false_forall by (apply HF; intros c Hc; now destruct (idx_chr_spec c Hc) as [_ [? _]]).
  destruct si as [|c0 si0] eqn:Esi; [discriminate|]. rewrite <- Esi in *.
  apply negb_true_iff in Hcont. rewrite Hcont. cbn [andb].
  rewrite (mem_chr_false_forall 61%N si) by (apply HF; intros c Hc; now destruct (idx_chr_spec c Hc) as [_ [_ [? _]]]).
  rewrite (mem_chr_false_forall 126%N si) by (apply HF; intros c Hc; now destruct (idx_chr_spec c Hc) as [_ [_ [_ [? _]]]]).
  cbn [orb]. rewrite Esi. reflexivity.
Qed.

Lemma sni_br si : clean_idx si = true -> split_name_index (br si) = Ok ([], IdxStr si).
Proof. intros H. apply (sni_name_idx [] si); auto. Qed.

(* ---- printed integers are clean index strings and evaluate to themselves ------------- *)
Lemma dec_chr_idx c : dec_chr c -> idx_chr c = true.
Proof.
  intros [[H1 H2]| ->]; [|reflexivity].
  unfold idx_chr, c_lb, c_slash.
  assert (E0 : mem_chr c py_ws = false).
  { unfold py_ws, mem_chr. cbn [existsb].
    repeat match goal with |- context [N.eqb c ?k] =>
      let E := fresh in assert (E : N.eqb c k = false) by (apply N.eqb_neq; lia); rewrite E; clear E end.
    reflexivity. }
  rewrite E0.
  assert (E1 : N.ltb c 128 = true) by (apply N.ltb_lt; lia).
  assert (E2 : N.eqb c 61 = false) by (apply N.eqb_neq; lia).
  assert (E3 : N.eqb c 126 = false) by (apply N.eqb_neq; lia).
  assert (E4 : N.eqb c 91 = false) by (apply N.eqb_neq; lia).
  assert (E5 : N.eqb c 47 = false) by (apply N.eqb_neq; lia).
  now rewrite E1, E2, E3, E4, E5.
Qed.

Lemma dec_chr_lower c : dec_chr c -> lower_chr c = c.
Proof.
  intros [[H1 H2]| ->]; [|reflexivity]. unfold lower_chr.
  assert (E : N.leb 65 c = false) by (apply N.leb_gt; lia). now rewrite E.
Qed.

Lemma clean_idx_dec z : clean_idx (dec_of_Z z) = true.
Proof.
  destruct (dec_of_Z_chars z) as [HF Hne]. unfold clean_idx.
  destruct (dec_of_Z z) as [|c l] eqn:E; [congruence|]. cbn [nonempty andb].
  apply andb_true_iff. split.
  - apply forallb_forall. intros x Hx. rewrite Forall_forall in HF. apply dec_chr_idx, HF, Hx.
  - apply negb_true_iff. cbn [lower map startswith s_contains].
    inversion HF as [|? ? Hc Hl]; subst. rewrite (dec_chr_lower c Hc).
    assert (E99 : N.eqb 99 c = false).
    { apply N.eqb_neq. destruct Hc as [[H1 H2]|H]; [unfold digit in *; lia|lia]. }
    now rewrite E99.
Qed.

Lemma dec_not_kw z (kw : pstr) :
  (match kw with c :: _ => (57 < c)%N | [] => True end) -> pstr_eqb (dec_of_Z z) kw = false.
Proof.
  intros Hkw. destruct (dec_of_Z_chars z) as [HF Hne].
  destruct (dec_of_Z z) as [|c l]; [congruence|]. destruct kw as [|k kw]; [reflexivity|].
  cbn [pstr_eqb]. inversion HF as [|? ? Hc Hl]; subst.
  assert (E : N.eqb c k = false).
  { apply N.eqb_neq. destruct Hc as [[H1 H2]|H]; lia. }
  now rewrite E.
Qed.

Theorem n0eval_dec z : n0eval (dec_of_Z z) = EvInt z.
Proof.
  destruct (dec_of_Z_chars z) as [HF Hne].
  assert (HP : forall P : N -> Prop, (forall c, dec_chr c -> P c) -> Forall P (dec_of_Z z)).
  { intros P HPc. eapply Forall_impl; [|exact HF]. exact HPc. }
  assert (Hidx : forall c, dec_chr c -> idx_chr c = true) by exact dec_chr_idx.
  unfold n0eval.
  rewrite existsb_false_forall
    by (apply HP; intros c Hc; now destruct (idx_chr_spec c (Hidx c Hc)) as [_ [? _]]).
  rewrite filter_id.
  2:{ apply HP. intros c Hc. apply negb_true_iff, N.eqb_neq. destruct Hc as [[H1 H2]|H]; lia. }
  unfold lower. rewrite map_id_forall by (apply HP; exact dec_chr_lower).
  set (s := dec_of_Z z) in *.
  destruct s as [|c0 l0] eqn:Es; [congruence|]. rewrite <- Es in *.
  assert (Hstrip : strip s = s).
  { apply strip_id_forall. apply HP. intros c Hc. now destruct (idx_chr_spec c (Hidx c Hc)). }
  (* split on '+' : no '+' in s *)
  assert (Hplus : my_split s 43%N = [s]).
  { unfold my_split. rewrite split_chr_none.
    - cbn [my_split_go]. rewrite Hstrip, Es. rewrite N.eqb_refl. reflexivity.
    - intros Hin. rewrite Forall_forall in HF. destruct (HF _ Hin) as [[H1 H2]|H]; lia. }
  rewrite Hplus. cbn [flat_map]. rewrite app_nil_r.
  (* split on '-' *)
  assert (Hminus : my_split s 45%N = [s]).
  { unfold my_split. replace (N.eqb 45 43) with false by reflexivity.
    subst s. unfold dec_of_Z in *. destruct (Z.ltb z 0) eqn:Ez.
    - destruct (dec_of_N_spec (Z.to_N (- z))) as [_ [HD HDne]].
      rewrite split_chr_head, split_chr_none.
      + cbn [my_split_go]. replace (strip []) with (@nil N) by reflexivity.
        rewrite strip_id_forall.
        * destruct (dec_of_N (Z.to_N (- z))); [congruence|]. reflexivity.
        * eapply Forall_impl; [|exact HD]. intros c Hc.
          now destruct (idx_chr_spec c (Hidx c (or_introl Hc))).
      + intros Hin. rewrite Forall_forall in HD. destruct (HD _ Hin) as [H1 H2]. lia.
    - destruct (dec_of_N_spec (Z.to_N z)) as [_ [HD HDne]].
      rewrite split_chr_none.
      + cbn [my_split_go]. rewrite Hstrip. destruct (dec_of_N (Z.to_N z)); [congruence|]. reflexivity.
      + intros Hin. rewrite Forall_forall in HD. destruct (HD _ Hin) as [H1 H2]. lia. }
  rewrite Hminus. rewrite Es. rewrite <- Es.
  cbn [n0eval_sum]. subst s.
  rewrite (dec_not_kw z s_new) by (cbn; lia).
  rewrite (dec_not_kw z s_last) by (cbn; lia).
  rewrite (mem_chr_false_forall 46%N).
  2:{ apply HP. intros c [[H1 H2]|H]; lia. }
  rewrite py_int_dec. cbn [n0eval_sum]. f_equal.
Qed.
