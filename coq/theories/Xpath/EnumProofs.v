(* Xpath/EnumProofs.v — the leaf enumeration (xpath()) against the Spec. *)
From Coq Require Import List NArith ZArith Bool Lia.
From N0 Require Import Base.PyStr Base.PyVal Xpath.Dec Xpath.DecProofs Xpath.Token Xpath.TokenProofs
  Xpath.Find Xpath.FindProofs Xpath.Write Xpath.SpecProofs Xpath.WalkProofs.
Import ListNotations.

(* Spec: scalar leaves with their positions, document order *)
Fixpoint leaves (t : tree) : list (path * scalar) :=
  match t with
  | Leaf s => [([], s)]
  | Dict _ kvs =>
    (fix go (l : list (pstr * tree)) : list (path * scalar) :=
       match l with
       | [] => []
       | (k, v) :: r => map (fun ps => (PKey k :: fst ps, snd ps)) (leaves v) ++ go r
       end) kvs
  | Lst _ xs =>
    (fix go (l : list tree) (i : nat) : list (path * scalar) :=
       match l with
       | [] => []
       | v :: r => map (fun ps => (PIdx i :: fst ps, snd ps)) (leaves v) ++ go r (S i)
       end) xs 0
  end.

(* the rendering xpath() gives a position, relative to its prefix *)
Fixpoint render (p : path) : pstr :=
  match p with
  | [] => []
  | PKey k :: r => c_slash :: k ++ render r
  | PIdx i :: r => br (dec_of_nat i) ++ render r
  end.

Lemma enum_pre : forall t pre, enum t pre = map (fun ps => (pre ++ render (fst ps), snd ps)) (leaves t).
Proof.
  induction t as [s|c kvs IH|c xs IH] using tree_ind'; intros pre.
  - cbn. now rewrite app_nil_r.
  - cbn [enum leaves].
    induction kvs as [|[k v] r IHr]; [reflexivity|].
    inversion IH as [|? ? Hv Hr]; subst. cbn [snd] in Hv.
    rewrite map_app, map_map. rewrite (IHr Hr). f_equal.
    rewrite Hv. apply map_ext. intros [p s]. cbn. unfold sl. now rewrite <- app_assoc.
  - cbn [enum leaves].
    generalize 0 as i. induction xs as [|v r IHr]; intros i; [reflexivity|].
    inversion IH as [|? ? Hv Hr]; subst.
    rewrite map_app, map_map. rewrite (IHr Hr (S i)). f_equal.
    rewrite Hv. apply map_ext. intros [p s]. cbn. now rewrite <- app_assoc.
Qed.

Theorem enum_leaves t : xpath_enum t = map (fun ps => (s_root ++ render (fst ps), snd ps)) (leaves t).
Proof. apply enum_pre. Qed.

Theorem leaves_resolve : forall t, wf t -> forall p s, In (p, s) (leaves t) -> resolve t p = Some (Leaf s).
Proof.
  induction t as [s0|c kvs IH|c xs IH] using tree_ind'; intros Hwf p s Hin.
  - cbn in Hin. destruct Hin as [H|[]]. now inversion H.
  - cbn [wf] in Hwf. destruct Hwf as [Hnd Hall]. cbn [leaves] in Hin.
    assert (G : forall l,
      (forall k v, In (k, v) l -> lookup k kvs = Some v) ->
      Forall (fun kv => wf (snd kv) -> forall p s, In (p, s) (leaves (snd kv)) -> resolve (snd kv) p = Some (Leaf s)) l ->
      (fix all (l : list (pstr * tree)) := match l with [] => True | (_, v) :: r => wf v /\ all r end) l ->
      In (p, s) ((fix go (l : list (pstr * tree)) : list (path * scalar) :=
                    match l with
                    | [] => []
                    | (k, v) :: r => map (fun ps => (PKey k :: fst ps, snd ps)) (leaves v) ++ go r
                    end) l) ->
      resolve (Dict c kvs) p = Some (Leaf s)).
    { induction l as [|[k v] r IHr]; intros Hlk HF Hw Hi; [destruct Hi|].
      inversion HF as [|? ? Hv Hr]; subst. cbn [snd] in Hv. destruct Hw as [Hwv Hwr].
      apply in_app_or in Hi. destruct Hi as [Hi|Hi].
      - apply in_map_iff in Hi. destruct Hi as [[q s'] [E Hq]]. inversion E; subst.
        cbn. rewrite (Hlk k v (or_introl eq_refl)). now apply Hv.
      - apply IHr; auto. intros; apply Hlk; now right. }
    apply (G kvs); auto. intros k v Hkv. now apply lookup_in_nodup.
  - cbn [wf] in Hwf. cbn [leaves] in Hin.
    assert (G : forall l i0,
      (forall j v, nth_error l j = Some v -> nth_error xs (i0 + j) = Some v) ->
      Forall (fun t => wf t -> forall p s, In (p, s) (leaves t) -> resolve t p = Some (Leaf s)) l ->
      (fix all (l : list tree) := match l with [] => True | v :: r => wf v /\ all r end) l ->
      In (p, s) ((fix go (l : list tree) (i : nat) : list (path * scalar) :=
                    match l with
                    | [] => []
                    | v :: r => map (fun ps => (PIdx i :: fst ps, snd ps)) (leaves v) ++ go r (S i)
                    end) l i0) ->
      resolve (Lst c xs) p = Some (Leaf s)).
    { induction l as [|v r IHr]; intros i0 Hn HF Hw Hi; [destruct Hi|].
      inversion HF as [|? ? Hv Hr]; subst. destruct Hw as [Hwv Hwr].
      apply in_app_or in Hi. destruct Hi as [Hi|Hi].
      - apply in_map_iff in Hi. destruct Hi as [[q s'] [E Hq]]. inversion E; subst.
        cbn. specialize (Hn 0 v eq_refl). rewrite Nat.add_0_r in Hn. rewrite Hn. now apply Hv.
      - apply (IHr (S i0)); auto. intros j w Hj. specialize (Hn (S j) w Hj).
        replace (S i0 + j) with (i0 + S j) by lia. exact Hn. }
    apply (G xs 0); auto.
Qed.
