(* Xpath/EnumProofs.v — the leaf enumeration (xpath()) against the Spec. *)
From Coq Require Import List NArith ZArith Bool Lia.
From N0 Require Import Base.PyStr Base.PyVal Xpath.Dec Xpath.DecProofs Xpath.Token Xpath.TokenProofs
  Xpath.Find Xpath.FindProofs Xpath.Write Xpath.SpecProofs Xpath.WalkProofs.
Import ListNotations.

(* Spec: scalar leaves with their positions, document order *)
Fixpoint leaves (t : tree) : list (path * scalar) :=
  match t with
  | Leaf s => [([], s)]
  | Dict _ kvs =>
    (fix go (l : list (pstr * tree)) : list (path * scalar) :=
       match l with
       | [] => []
       | (k, v) :: r => map (fun ps => (PKey k :: fst ps, snd ps)) (leaves v) ++ go r
       end) kvs
  | Lst _ xs =>
    (fix go (l : list tree) (i : nat) : list (path * scalar) :=
       match l with
       | [] => []
       | v :: r => map (fun ps => (PIdx i :: fst ps, snd ps)) (leaves v) ++ go r (S i)
       end) xs 0
  end.

(* the rendering xpath() gives a position, relative to its prefix *)
Fixpoint render (p : path) : pstr :=
  match p with
  | [] => []
  | PKey k :: r => c_slash :: k ++ render r
  | PIdx i :: r => br (dec_of_nat i) ++ render r
  end.

Lemma enum_pre : forall t pre, enum t pre = map (fun ps => (pre ++ render (fst ps), snd ps)) (leaves t).
Proof.
  induction t as [s|c kvs IH|c xs IH] using tree_ind'; intros pre.
  - cbn. now rewrite app_nil_r.
  - cbn [enum leaves].
    induction kvs as [|[k v] r IHr]; [reflexivity|].
    inversion IH as [|? ? Hv Hr]; subst. cbn [snd] in Hv.
    rewrite map_app, map_map. rewrite (IHr Hr). f_equal.
    rewrite Hv. apply map_ext. intros [p s]. cbn. unfold sl. now rewrite <- app_assoc.
  - cbn [enum leaves].
    generalize 0 as i. induction xs as [|v r IHr]; intros i; [reflexivity|].
    inversion IH as [|? ? Hv Hr]; subst.
    rewrite map_app, map_map. rewrite (IHr Hr (S i)). f_equal.
    rewrite Hv. apply map_ext. intros [p s]. cbn. now rewrite <- app_assoc.
Qed.

Theorem enum_leaves t : xpath_enum t = map (fun ps => (s_root ++ render (fst ps), snd ps)) (leaves t).
Proof. apply enum_pre. Qed.

Theorem leaves_resolve : forall t, wf t -> forall p s, In (p, s) (leaves t) -> resolve t p = Some (Leaf s).
Proof.
  induction t as [s0|c kvs IH|c xs IH] using tree_ind'; intros Hwf p s Hin.
  - cbn in Hin. destruct Hin as [H|[]]. now inversion H.
  - cbn [wf] in Hwf. destruct Hwf as [Hnd Hall]. cbn [leaves] in Hin.
    assert (G : forall l,
      (forall k v, In (k, v) l -> lookup k kvs = Some v) ->
      Forall (fun kv => wf (snd kv) -> forall p s, In (p, s) (leaves (snd kv)) -> resolve (snd kv) p = Some (Leaf s)) l ->
      (fix all (l : list (pstr * tree)) := match l with [] => True | (_, v) :: r => wf v /\ all r end) l ->
      In (p, s) ((fix go (l : list (pstr * tree)) : list (path * scalar) :=
                    match l with
                    | [] => []
                    | (k, v) :: r => map (fun ps => (PKey k :: fst ps, snd ps)) (leaves v) ++ go r
                    end) l) ->
      resolve (Dict c kvs) p = Some (Leaf s)).
    { induction l as [|[k v] r IHr]; intros Hlk HF Hw Hi; [destruct Hi|].
      inversion HF as [|? ? Hv Hr]; subst. cbn [snd] in Hv. destruct Hw as [Hwv Hwr].
      apply in_app_or in Hi. destruct Hi as [Hi|Hi].
      - apply in_map_iff in Hi. destruct Hi as [[q s'] [E Hq]]. inversion E; subst.
        cbn. rewrite (Hlk k v (or_introl eq_refl)). now apply Hv.
      - apply IHr; auto. intros; apply Hlk; now right. }
    apply (G kvs); auto. intros k v Hkv. now apply lookup_in_nodup.
  - cbn [wf] in Hwf. cbn [leaves] in Hin.
    assert (G : forall l i0,
      (forall j v, nth_error l j = Some v -> nth_error xs (i0 + j) = Some v) ->
      Forall (fun t => wf t -> forall p s, In (p, s) (leaves t) -> resolve t p = Some (Leaf s)) l ->
      (fix all (l : list tree) := match l with [] => True | v :: r => wf v /\ all r end) l ->
      In (p, s) ((fix go (l : list tree) (i : nat) : list (path * scalar) :=
                    match l with
                    | [] => []
                    | v :: r => map (fun ps => (PIdx i :: fst ps, snd ps)) (leaves v) ++ go r (S i)
                    end) l i0) ->
      resolve (Lst c xs) p = Some (Leaf s)).
    { induction l as [|v r IHr]; intros i0 Hn HF Hw Hi; [destruct Hi|].
      inversion HF as [|? ? Hv Hr]; subst. destruct Hw as [Hwv Hwr].
      apply in_app_or in Hi. destruct Hi as [Hi|Hi].
      - apply in_map_iff in Hi. destruct Hi as [[q s'] [E Hq]]. inversion E; subst.
        cbn. specialize (Hn 0 v eq_refl). rewrite Nat.add_0_r in Hn. rewrite Hn. now apply Hv.
      - apply (IHr (S i0)); auto. intros j w Hj. specialize (Hn (S j) w Hj).
        replace (S i0 + j) with (i0 + S j) by lia. exact Hn. }
    apply (G xs 0); auto.
Qed.

(* ---- every enumerated xpath string resolves to its leaf ------------------------------------------ *)
From N0 Require Import Xpath.TokenizeProofs.

Definition segs_of (p : path) : list seg :=
  map (fun s => match s with PKey k => SK k | PIdx i => SI (Z.of_nat i) end) p.

Lemma render_segs_of p : render p = render_segs (segs_of p).
Proof.
  induction p as [|[k|i] r IH]; [reflexivity| |]; cbn [render segs_of map]; unfold render_segs in *; cbn [map concat render_seg].
  - now rewrite IH.
  - now rewrite IH, dec_of_nat_Z.
Qed.

(* keys that render unambiguously and address one-to-one *)
Definition good_key (k : pstr) : Prop := seg_key k /\ plain_key k.

Fixpoint keys_good (t : tree) : Prop :=
  match t with
  | Leaf _ => True
  | Dict _ kvs =>
    (fix all (l : list (pstr * tree)) := match l with [] => True | (k, v) :: r => good_key k /\ keys_good v /\ all r end) kvs
  | Lst _ xs => (fix all (l : list tree) := match l with [] => True | v :: r => keys_good v /\ all r end) xs
  end.

Lemma good_key_ok k : good_key k -> key_ok k.
Proof.
  intros [Hs Hp]. split; [|split; [now apply strip_token_key|exact Hp]].
  destruct Hs as [_ [HF _]]. apply mem_chr_false. intros Hin. rewrite Forall_forall in HF.
  destruct (HF _ Hin) as [_ [H _]]. congruence.
Qed.

Lemma keys_good_ok : forall t, keys_good t -> keys_ok t.
Proof.
  induction t as [s|c kvs IH|c xs IH] using tree_ind'; intros H; [exact I| |].
  - cbn in *. induction kvs as [|[k v] r IHr]; [exact I|].
    inversion IH as [|? ? Hv Hr]; subst. destruct H as [Hk [Hgv Hgr]].
    split; [now apply good_key_ok|]. split; [now apply Hv|now apply IHr].
  - cbn in *. induction xs as [|v r IHr]; [exact I|].
    inversion IH as [|? ? Hv Hr]; subst. destruct H as [Hgv Hgr]. split; [now apply Hv|now apply IHr].
Qed.

Lemma keys_good_lookup c kvs k v : keys_good (Dict c kvs) -> lookup k kvs = Some v -> good_key k /\ keys_good v.
Proof.
  cbn. induction kvs as [|[k' v'] r IH]; cbn; [discriminate|].
  intros [Hk [Hv Hr]]. destruct (pstr_eqb k k') eqn:E.
  - intros H. inversion H; subst. apply pstr_eqb_eq in E. subst. auto.
  - auto.
Qed.

Lemma keys_good_nth c xs i v : keys_good (Lst c xs) -> nth_error xs i = Some v -> keys_good v.
Proof.
  cbn. revert i. induction xs as [|x r IH]; intros [|i]; cbn; try discriminate.
  - intros [Hx _] H. now inversion H; subst.
  - intros [_ Hr]. now apply IH.
Qed.

Lemma canonical_spells : forall n p t v, length p <= n -> keys_good t -> resolve t p = Some v ->
  spells t p (seg_tokens (segs_of p)) /\ segs_ok (segs_of p).
Proof.
  induction n as [|n IH]; intros p t v Hlen Hg Hr.
  - destruct p; [|cbn in Hlen; lia]. split; constructor.
  - destruct p as [|[k|i] r]; [split; constructor| |].
    + cbn in Hr. destruct t as [sc|c kvs|c xs]; try discriminate.
      destruct (lookup k kvs) as [child|] eqn:El; [|discriminate].
      destruct (keys_good_lookup _ _ _ _ Hg El) as [[Hsk Hpk] Hgc].
      destruct r as [|[k'|i'] r'].
      * cbn. split; [eapply sp_key; [exact El|apply sp_nil]|constructor; [assumption|constructor]].
      * destruct (IH (PKey k' :: r') child v ltac:(cbn in *; lia) Hgc Hr) as [H1 H2].
        cbn [segs_of map seg_tokens] in *. split; [eapply sp_key; eauto|constructor; assumption].
      * cbn in Hr. destruct child as [sc|c' kvs'|c' xs']; try discriminate.
        destruct (nth_error xs' i') as [child'|] eqn:En; [|discriminate].
        pose proof (keys_good_nth _ _ _ _ Hgc En) as Hgc'.
        destruct (IH r' child' v ltac:(cbn in *; lia) Hgc' Hr) as [H1 H2].
        cbn [segs_of map seg_tokens] in *. split.
        -- eapply sp_keyidx; eauto. apply spell_fwd.
        -- constructor; [assumption|]. constructor; [exact I|assumption].
    + cbn in Hr. destruct t as [sc|c kvs|c xs]; try discriminate.
      destruct (nth_error xs i) as [child|] eqn:En; [|discriminate].
      pose proof (keys_good_nth _ _ _ _ Hg En) as Hgc.
      destruct (IH r child v ltac:(cbn in *; lia) Hgc Hr) as [H1 H2].
      cbn [segs_of map seg_tokens] in *. split.
      * eapply sp_idx; eauto. apply spell_fwd.
      * constructor; [exact I|assumption].
Qed.

Lemma seg_tokens_nonempty l : l <> [] -> seg_tokens l <> [].
Proof. destruct l as [|[k|z] r]; [congruence| |]; cbn; [destruct r as [|[k'|z'] r']|]; discriminate. Qed.

Lemma leaves_dict_nonempty c kvs p s : In (p, s) (leaves (Dict c kvs)) -> p <> [].
Proof.
  cbn [leaves]. induction kvs as [|[k v] r IH]; intros Hin; [destruct Hin|].
  apply in_app_or in Hin. destruct Hin as [Hin|Hin]; [|now apply IH].
  apply in_map_iff in Hin. destruct Hin as [[q s'] [E _]]. inversion E. discriminate.
Qed.

Theorem enumerated_xpaths_resolve c kvs :
  let t := Dict c kvs in
  wf t -> keys_good t ->
  forall xp s, In (xp, s) (xpath_enum t) ->
    dict_getitem (fuel_for t xp) t xp = Ok (t, LVal (Leaf s)) /\
    dict_get_pub (fuel_for t xp) t xp = Ok (t, LVal (Leaf s)) /\
    dict_first (fuel_for t xp) t xp = Ok (t, LVal (Leaf s)).
Proof.
  intros t Hwf Hg xp s Hin. rewrite enum_leaves in Hin. apply in_map_iff in Hin.
  destruct Hin as [[p s'] [E Hl]]. cbn [fst snd] in E. inversion E; subst. clear E.
  pose proof (leaves_resolve t Hwf p s Hl) as Hr.
  pose proof (leaves_dict_nonempty c kvs p s Hl) as Hne.
  destruct (canonical_spells (length p) p t (Leaf s) (le_n _) Hg Hr) as [Hsp Hok].
  rewrite render_segs_of.
  set (x := s_root ++ render_segs (segs_of p)).
  assert (Ht : tokenize x = seg_tokens (segs_of p)) by (now apply tokenize_rendered).
  assert (Hc : has_path_char x = true) by reflexivity.
  assert (Hq : no_qmark x) by exact I.
  assert (Htne : tokenize x <> []).
  { rewrite Ht. apply seg_tokens_nonempty. destruct p; [congruence|discriminate]. }
  destruct (spelled_path_resolves t x p (keys_good_ok t Hg) Hc Hq Htne ltac:(now rewrite Ht)) as [v [Hv [H1 [H2 H3]]]].
  rewrite Hr in Hv. inversion Hv; subst. auto.
Qed.

(* non-vacuity of the hypotheses of [enumerated_xpaths_resolve] *)
Lemma good_key_letter c : (97 <= c)%N -> (c <= 122)%N -> good_key [c].
Proof.
  intros H1 H2. unfold good_key, seg_key, plain_key, not_ws_hd. cbn [rev app].
  assert (Hws : mem_chr c py_ws = false).
  { unfold py_ws, mem_chr. cbn [existsb].
    repeat match goal with |- context [N.eqb c ?k] =>
      let E := fresh in assert (E : N.eqb c k = false) by (apply N.eqb_neq; lia); rewrite E; clear E end.
    reflexivity. }
  repeat split; try discriminate; try exact Hws.
  - constructor; [|constructor]. unfold c_slash, c_lb, c_rb. repeat split; lia.
  - cbn. destruct (N.eqb c 46) eqn:E; [apply N.eqb_eq in E; lia|reflexivity].
  - cbn. destruct (N.eqb c 42) eqn:E; [apply N.eqb_eq in E; lia|reflexivity].
Qed.

Theorem enum_example :
  wf ex_root /\ keys_good ex_root /\
  xpath_enum ex_root <> [] /\
  forall xp s, In (xp, s) (xpath_enum ex_root) ->
    dict_getitem (fuel_for ex_root xp) ex_root xp = Ok (ex_root, LVal (Leaf s)).
Proof.
  assert (Hwf : wf ex_root).
  { cbn. repeat split; repeat constructor; cbn; intuition discriminate. }
  assert (Hg : keys_good ex_root).
  { cbn. repeat split; apply good_key_letter; cbv; congruence. }
  split; [exact Hwf|]. split; [exact Hg|]. split; [vm_compute; discriminate|].
  intros xp s Hin. exact (proj1 (enumerated_xpaths_resolve true _ Hwf Hg xp s Hin)).
Qed.
