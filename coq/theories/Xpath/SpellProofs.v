(* Xpath/SpellProofs.v — further index spellings: last(), last()-k, i+j. *)
From Coq Require Import List NArith ZArith Bool Lia.
From N0 Require Import Base.PyStr Base.PyVal Xpath.Dec Xpath.DecProofs Xpath.Token Xpath.TokenProofs
  Xpath.Find Xpath.FindProofs Xpath.Write Xpath.SpecProofs Xpath.WalkProofs.
Import ListNotations.

Arguments N.eqb : simpl never.
Arguments N.leb : simpl never.

Lemma split_chr_cut d a b : ~ In d a -> split_chr d (a ++ d :: b) = a :: split_chr d b.
Proof.
  intros H. unfold split_chr. rewrite split_chr_aux_app by exact H. cbn [split_chr_aux].
  rewrite N.eqb_refl, app_nil_r, rev_involutive. reflexivity.
Qed.

(* facts about the digits of a natural number *)
Definition dn (n : nat) : pstr := dec_of_N (N.of_nat n).

Lemma dn_facts n :
  Forall digit (dn n) /\ dn n <> [] /\ digits_val (dn n) = N.of_nat n.
Proof. unfold dn. destruct (dec_of_N_spec (N.of_nat n)) as [H1 [H2 H3]]. auto. Qed.

Lemma digit_props c : digit c ->
  mem_chr c py_ws = false /\ N.leb 128 c = false /\ c <> 32%N /\ c <> 43%N /\ c <> 45%N /\ c <> 46%N /\ lower_chr c = c /\
  int_unk_chr c = false /\ idx_chr c = true.
Proof.
  intros Hd. pose proof (dec_chr_idx c (or_introl Hd)) as Hi. destruct (idx_chr_spec c Hi) as [H1 [H2 _]].
  destruct Hd as [Ha Hb]. repeat split; auto; try lia.
  - apply dec_chr_lower. left. split; assumption.
  - apply digit_not_unk. split; assumption.
Qed.

Lemma py_int_digits_nat n : py_int (dn n) = IntOk (Z.of_nat n).
Proof.
  destruct (dn_facts n) as [HF [Hne Hv]]. unfold py_int.
  rewrite existsb_unk_digits by exact HF.
  destruct (dn n) as [|c l] eqn:E; [congruence|].
  assert (Hc : digit c) by (inversion HF; assumption). unfold digit in Hc.
  assert (E1 : N.eqb c 45 = false) by (apply N.eqb_neq; lia).
  assert (E2 : N.eqb c 43 = false) by (apply N.eqb_neq; lia).
  rewrite E1, E2, all_digits_of by (congruence || assumption). rewrite Hv. f_equal. lia.
Qed.

Lemma py_int_neg_digits_nat n : py_int (45%N :: dn n) = IntOk (- Z.of_nat n).
Proof.
  destruct (dn_facts n) as [HF [Hne Hv]]. unfold py_int. cbn [existsb].
  rewrite existsb_unk_digits by exact HF.
  replace (int_unk_chr 45) with false by reflexivity. cbn [orb].
  replace (N.eqb 45 45) with true by reflexivity.
  rewrite all_digits_of by assumption. rewrite Hv. f_equal. lia.
Qed.

Lemma dn_forall (P : N -> Prop) n : (forall c, digit c -> P c) -> Forall P (dn n).
Proof. intros H. destruct (dn_facts n) as [HF _]. eapply Forall_impl; [|exact HF]. exact H. Qed.

Lemma dn_not_kw n (kw : pstr) : (match kw with c :: _ => (57 < c)%N | [] => True end) -> pstr_eqb (dn n) kw = false.
Proof.
  intros Hk. destruct (dn_facts n) as [HF [Hne _]]. destruct (dn n) as [|c l]; [congruence|].
  destruct kw as [|k kw]; [reflexivity|]. cbn [pstr_eqb]. inversion HF as [|? ? [H1 H2] _]; subst.
  assert (E : N.eqb c k = false) by (apply N.eqb_neq; lia). now rewrite E.
Qed.

(* ---- last()-k -------------------------------------------------------------------------------- *)
Definition s_last_minus (k : nat) : pstr := s_last ++ 45%N :: dn k.

Theorem n0eval_last_minus k : n0eval (s_last_minus k) = EvInt (-1 - Z.of_nat k).
Proof.
  unfold n0eval, s_last_minus.
  assert (Hchars : Forall (fun c => N.leb 128 c = false /\ c <> 32%N /\ lower_chr c = c /\ mem_chr c py_ws = false /\ c <> 43%N)
                          (s_last ++ 45%N :: dn k)).
  { apply Forall_app. split; [repeat constructor; cbv; intuition discriminate|].
    constructor; [cbv; intuition discriminate|]. apply dn_forall. intros c Hc.
    destruct (digit_props c Hc) as [A [B [C [D [E [F [G _]]]]]]]. auto. }
  rewrite existsb_false_forall by (eapply Forall_impl; [|exact Hchars]; intros c H; apply H).
  rewrite filter_id by (eapply Forall_impl; [|exact Hchars]; intros c [_ [H _]]; apply negb_true_iff, N.eqb_neq; exact H).
  unfold lower. rewrite map_id_forall by (eapply Forall_impl; [|exact Hchars]; intros c [_ [_ [H _]]]; exact H).
  set (s := s_last ++ 45%N :: dn k).
  assert (Hstrip : strip s = s).
  { apply strip_id_forall. eapply Forall_impl; [|exact Hchars]. intros c [_ [_ [_ [H _]]]]. exact H. }
  assert (Hne : s <> []) by (unfold s; discriminate).
  destruct s as [|s0 s1] eqn:Es; [congruence|]. rewrite <- Es in *.
  assert (Hplus : my_split s 43%N = [s]).
  { unfold my_split. rewrite split_chr_none.
    - cbn [my_split_go]. rewrite Hstrip, Es, N.eqb_refl. reflexivity.
    - intros Hin. rewrite Forall_forall in Hchars. destruct (Hchars _ Hin) as [_ [_ [_ [_ H]]]]. congruence. }
  rewrite Hplus. cbn [flat_map]. rewrite app_nil_r.
  assert (Hminus : my_split s 45%N = [s_last; 45%N :: dn k]).
  { unfold my_split, s. replace (N.eqb 45 43) with false by reflexivity.
    rewrite split_chr_cut by (cbv; intuition discriminate).
    rewrite split_chr_none.
    - cbn [my_split_go]. replace (strip s_last) with s_last by reflexivity.
      rewrite (strip_id_forall (dn k)) by (apply dn_forall; intros c Hc; now destruct (digit_props c Hc)).
      destruct (dn_facts k) as [_ [Hdne _]]. destruct (dn k); [congruence|]. reflexivity.
    - intros Hin. destruct (dn_facts k) as [HF _]. rewrite Forall_forall in HF. destruct (HF _ Hin). lia. }
  rewrite Hminus. cbn [n0eval_sum].
  replace (pstr_eqb s_last s_new) with false by reflexivity.
  replace (pstr_eqb s_last s_last) with true by reflexivity.
  replace (pstr_eqb (45%N :: dn k) s_new) with false by reflexivity.
  replace (pstr_eqb (45%N :: dn k) s_last) with false by reflexivity.
  assert (Hdot : mem_chr 46 (45%N :: dn k) = false).
  { apply mem_chr_false_forall. constructor; [discriminate|]. apply dn_forall. intros c Hc. now destruct (digit_props c Hc) as [_ [_ [_ [_ [_ [? _]]]]]]. }
  rewrite Hdot, py_int_neg_digits_nat. cbn [n0eval_sum]. f_equal; lia.
Qed.

Lemma clean_idx_last_minus k : clean_idx (s_last_minus k) = true.
Proof.
  unfold clean_idx, s_last_minus. apply andb_true_iff. split; [apply andb_true_iff; split; [reflexivity|]|reflexivity].
  rewrite forallb_app. apply andb_true_iff. split; [reflexivity|]. cbn [forallb]. apply andb_true_iff. split; [reflexivity|].
  apply forallb_forall. intros c Hin. destruct (dn_facts k) as [HF _]. rewrite Forall_forall in HF.
  now destruct (digit_props c (HF c Hin)) as [_ [_ [_ [_ [_ [_ [_ [_ ?]]]]]]]].
Qed.

Lemma plain_idx_last_minus k : plain_idx (s_last_minus k).
Proof. unfold plain_idx, s_last_minus. split; [discriminate|split; reflexivity]. Qed.

(* ---- i+j ------------------------------------------------------------------------------------------ *)
Definition s_plus (a b : nat) : pstr := dn a ++ 43%N :: dn b.

Lemma my_split_minus_digits n : my_split (dn n) 45%N = [dn n].
Proof.
  unfold my_split. replace (N.eqb 45 43) with false by reflexivity.
  rewrite split_chr_none.
  - cbn [my_split_go]. rewrite (strip_id_forall (dn n)) by (apply dn_forall; intros c Hc; now destruct (digit_props c Hc)).
    destruct (dn_facts n) as [_ [Hne _]]. destruct (dn n); [congruence|reflexivity].
  - intros Hin. destruct (dn_facts n) as [HF _]. rewrite Forall_forall in HF. destruct (HF _ Hin). lia.
Qed.

Theorem n0eval_plus a b : n0eval (s_plus a b) = EvInt (Z.of_nat a + Z.of_nat b).
Proof.
  unfold n0eval, s_plus.
  assert (Hchars : Forall (fun c => N.leb 128 c = false /\ c <> 32%N /\ lower_chr c = c) (dn a ++ 43%N :: dn b)).
  { apply Forall_app. split; [|constructor; [cbv; intuition discriminate|]];
      apply dn_forall; intros c Hc; destruct (digit_props c Hc) as [A [B [C [D [E [F [G _]]]]]]]; auto. }
  rewrite existsb_false_forall by (eapply Forall_impl; [|exact Hchars]; intros c H; apply H).
  rewrite filter_id by (eapply Forall_impl; [|exact Hchars]; intros c [_ [H _]]; apply negb_true_iff, N.eqb_neq; exact H).
  unfold lower. rewrite map_id_forall by (eapply Forall_impl; [|exact Hchars]; intros c [_ [_ H]]; exact H).
  destruct (dn_facts a) as [HFa [Hnea _]]. destruct (dn_facts b) as [HFb [Hneb _]].
  destruct (dn a ++ 43%N :: dn b) as [|s0 s1] eqn:Es; [destruct (dn a); discriminate|]. rewrite <- Es.
  assert (Hplus : my_split (dn a ++ 43%N :: dn b) 43%N = [dn a; dn b]).
  { unfold my_split. rewrite N.eqb_refl.
    rewrite split_chr_cut by (intros Hin; rewrite Forall_forall in HFa; destruct (HFa _ Hin); lia).
    rewrite split_chr_none by (intros Hin; rewrite Forall_forall in HFb; destruct (HFb _ Hin); lia).
    cbn [my_split_go].
    rewrite (strip_id_forall (dn a)) by (apply dn_forall; intros c Hc; now destruct (digit_props c Hc)).
    rewrite (strip_id_forall (dn b)) by (apply dn_forall; intros c Hc; now destruct (digit_props c Hc)).
    destruct (dn a); [congruence|]. destruct (dn b); [congruence|]. reflexivity. }
  rewrite Hplus. cbn [flat_map]. rewrite !my_split_minus_digits. cbn [app n0eval_sum].
  rewrite !(dn_not_kw _ s_new) by (cbn; lia). rewrite !(dn_not_kw _ s_last) by (cbn; lia).
  rewrite (mem_chr_false_forall 46%N (dn a)) by (apply dn_forall; intros c Hc; now destruct (digit_props c Hc) as [_ [_ [_ [_ [_ [? _]]]]]]).
  rewrite (mem_chr_false_forall 46%N (dn b)) by (apply dn_forall; intros c Hc; now destruct (digit_props c Hc) as [_ [_ [_ [_ [_ [? _]]]]]]).
  rewrite !py_int_digits_nat. cbn [n0eval_sum]. f_equal; lia.
Qed.

(* '+' is an index character?  it is: ASCII, no blank, not '=', '~', '[', '/' *)
Lemma clean_idx_plus a b : clean_idx (s_plus a b) = true.
Proof.
  unfold clean_idx, s_plus. destruct (dn_facts a) as [HFa [Hnea _]]. destruct (dn_facts b) as [HFb _].
  assert (Hall : forallb idx_chr (dn a ++ 43%N :: dn b) = true).
  { rewrite forallb_app. apply andb_true_iff. split; [|cbn [forallb]; apply andb_true_iff; split; [reflexivity|]];
      apply forallb_forall; intros c Hin; [rewrite Forall_forall in HFa|rewrite Forall_forall in HFb];
      match goal with H : forall x, In x _ -> digit x |- _ => now destruct (digit_props c (H c Hin)) as [_ [_ [_ [_ [_ [_ [_ [_ ?]]]]]]]] end. }
  rewrite Hall. destruct (dn a) as [|c l] eqn:E; [congruence|]. cbn [app nonempty andb].
  apply negb_true_iff. cbn [lower map startswith s_contains].
  inversion HFa as [|? ? Hc _]; subst. destruct (digit_props c Hc) as [_ [_ [_ [_ [_ [_ [Hl _]]]]]]]. rewrite Hl.
  assert (E99 : N.eqb 99 c = false) by (apply N.eqb_neq; destruct Hc; lia). now rewrite E99.
Qed.

Lemma plain_idx_plus a b : plain_idx (s_plus a b).
Proof.
  unfold plain_idx, s_plus. destruct (dn_facts a) as [HFa [Hnea _]].
  destruct (dn a) as [|c l] eqn:E; [congruence|]. inversion HFa as [|? ? [H1 H2] _]; subst.
  split; [discriminate|split]; cbn [app pstr_eqb s_new s_star].
  - assert (E1 : N.eqb c 110 = false) by (apply N.eqb_neq; lia). now rewrite E1.
  - assert (E1 : N.eqb c 42 = false) by (apply N.eqb_neq; lia). now rewrite E1.
Qed.

(* ---- all five spellings of the statement ------------------------------------------------------------ *)
Inductive idx_spell5 (len i : nat) : pstr -> Prop :=
| sp5_fwd : idx_spell5 len i (dec_of_Z (Z.of_nat i))
| sp5_back : idx_spell5 len i (dec_of_Z (Z.of_nat i - Z.of_nat len))
| sp5_last : i + 1 = len -> idx_spell5 len i s_last
| sp5_last_minus k : i + 1 + k = len -> idx_spell5 len i (s_last_minus k)
| sp5_plus a b : a + b = i -> idx_spell5 len i (s_plus a b).

Theorem idx_spell5_sound len i si :
  i < len -> idx_spell5 len i si ->
  split_name_index (br si) = Ok ([], IdxStr si) /\ plain_idx si /\
  exists z, n0eval si = EvInt z /\ norm_idx len z = Some i.
Proof.
  intros Hi [| |Hl|k Hl|a b Hab].
  - split; [apply sni_br, clean_idx_dec|]. split; [apply plain_idx_dec|].
    exists (Z.of_nat i). split; [apply n0eval_dec|]. apply norm_idx_spec. left. lia.
  - split; [apply sni_br, clean_idx_dec|]. split; [apply plain_idx_dec|].
    exists (Z.of_nat i - Z.of_nat len)%Z. split; [apply n0eval_dec|]. apply norm_idx_spec. right. lia.
  - split; [reflexivity|]. split; [split; [discriminate|split; reflexivity]|].
    exists (-1)%Z. split; [reflexivity|]. apply norm_idx_spec. right. lia.
  - split; [apply sni_br, clean_idx_last_minus|]. split; [apply plain_idx_last_minus|].
    exists (-1 - Z.of_nat k)%Z. split; [apply n0eval_last_minus|]. apply norm_idx_spec. right. lia.
  - split; [apply sni_br, clean_idx_plus|]. split; [apply plain_idx_plus|].
    exists (Z.of_nat a + Z.of_nat b)%Z. split; [apply n0eval_plus|]. apply norm_idx_spec. left. lia.
Qed.

(* ---- paths spelled with any of the five index spellings --------------------------------------------- *)
Inductive spells5 : tree -> path -> list pstr -> Prop :=
| sp5_nil t : spells5 t [] []
| sp5_key c kvs k child p toks :
    lookup k kvs = Some child -> spells5 child p toks -> spells5 (Dict c kvs) (PKey k :: p) (k :: toks)
| sp5_idx c xs i child si p toks :
    nth_error xs i = Some child -> idx_spell5 (length xs) i si -> spells5 child p toks ->
    spells5 (Lst c xs) (PIdx i :: p) (br si :: toks)
| sp5_keyidx c kvs k c' xs i child si p toks :
    lookup k kvs = Some (Lst c' xs) -> nth_error xs i = Some child -> idx_spell5 (length xs) i si ->
    spells5 child p toks -> spells5 (Dict c kvs) (PKey k :: PIdx i :: p) ((k ++ br si) :: toks).

Lemma clean_idx_of_spell5 len i si : i < len -> idx_spell5 len i si -> clean_idx si = true.
Proof.
  intros Hi [| |Hl|k Hl|a b Hab]; [apply clean_idx_dec|apply clean_idx_dec|reflexivity|apply clean_idx_last_minus|apply clean_idx_plus].
Qed.

Theorem spells5_walk : forall t p toks, spells5 t p toks -> keys_ok t -> exists v, walk t toks p v.
Proof.
  induction 1 as [t|c kvs k child p toks Hl Hs IH|c xs i child si p toks Hn Hi Hs IH
                  |c kvs k c' xs i child si p toks Hl Hn Hi Hs IH]; intros Hok.
  - exists t. constructor.
  - destruct (keys_ok_lookup _ _ _ _ Hok Hl) as [[Hlb [Hst Hpk]] Hchild].
    destruct (IH Hchild) as [v Hw]. exists v. eapply walk_key; eauto. now apply sni_plain.
  - pose proof (keys_ok_nth _ _ _ _ Hok Hn) as Hchild. destruct (IH Hchild) as [v Hw]. exists v.
    destruct (idx_spell5_sound _ _ _ (nth_error_Some_lt _ _ _ Hn) Hi) as [Hs1 [Hp1 [z [Hz Hnz]]]].
    eapply walk_idx; eauto.
  - destruct (keys_ok_lookup _ _ _ _ Hok Hl) as [[Hlb [Hst Hpk]] Hlist].
    pose proof (keys_ok_nth _ _ _ _ Hlist Hn) as Hchild. destruct (IH Hchild) as [v Hw]. exists v.
    destruct (idx_spell5_sound _ _ _ (nth_error_Some_lt _ _ _ Hn) Hi) as [Hs1 [Hp1 [z [Hz Hnz]]]].
    eapply walk_keyidx; eauto.
    apply sni_name_idx; auto. exact (clean_idx_of_spell5 _ _ _ (nth_error_Some_lt _ _ _ Hn) Hi).
Qed.

Theorem spelled5_path_resolves :
  forall root x p, keys_ok root -> has_path_char x = true -> no_qmark x -> tokenize x <> [] ->
  spells5 root p (tokenize x) ->
  exists v, resolve root p = Some v /\
    dict_getitem (fuel_for root x) root x = Ok (root, LVal v) /\
    dict_get_pub (fuel_for root x) root x = Ok (root, LVal v) /\
    dict_first (fuel_for root x) root x = Ok (root, unwrap_single (LVal v)).
Proof.
  intros root x p Hok Hc Hq Hne Hs. destruct (spells5_walk root p (tokenize x) Hs Hok) as [v Hw].
  exists v. now apply lookup_walk.
Qed.

(* the same spellings address the same slot for assignment *)
Theorem set_existing5 :
  forall root x v p, keys_ok root -> has_path_char x = true -> no_qmark x -> tokenize x <> [] ->
  spells5 root p (tokenize x) ->
  setitem (wfuel x) root x v = Ok (replace_at root p v).
Proof.
  intros root x v p Hok Hc Hq Hne Hs. destruct (spells5_walk root p (tokenize x) Hs Hok) as [u Hw].
  rewrite setitem_no_qmark by assumption.
  exact (setitem_core_walk _ root x v p u Hc Hne Hw (wfuel_enough x)).
Qed.

(* non-vacuity: {"a": {"b": [[1, 7], 2]}}: a/b[last()-1][0+1] *)
Definition sp_x : pstr := [97; 47; 98]%N ++ br (s_last_minus 1) ++ br (s_plus 0 1).
Theorem spell5_example :
  has_path_char sp_x = true /\ no_qmark sp_x /\ tokenize sp_x <> [] /\
  spells5 ex_root ex_p (tokenize sp_x) /\ resolve ex_root ex_p = Some (Leaf (SInt 7)).
Proof.
  assert (Ht : tokenize sp_x = [[97]%N; [98]%N ++ br (s_last_minus 1); br (s_plus 0 1)]) by (vm_compute; reflexivity).
  split; [reflexivity|]. split; [exact I|]. split; [rewrite Ht; discriminate|]. split; [|reflexivity].
  rewrite Ht. unfold ex_root, ex_p.
  eapply sp5_key; [reflexivity|].
  eapply sp5_keyidx with (si := s_last_minus 1); [reflexivity|reflexivity|apply sp5_last_minus; reflexivity|].
  eapply sp5_idx with (si := s_plus 0 1); [reflexivity|apply sp5_plus; reflexivity|]. constructor.
Qed.
