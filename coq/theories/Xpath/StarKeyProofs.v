(* Xpath/StarKeyProofs.v — a dictionary whose first key is the text "*" and a '*' name step: the fan-out over the keys
   hands every key back to the step parser in front of the steps that are left - the '*' step included - so the key "*"
   is read as the wildcard again, on the same dictionary, with one more step in the list: the resolver never returns.
   In the fuelled model: OutOfFuel for EVERY amount of fuel (the real code ends in RecursionError, which is not one of
   the classes the funnel of get / first converts).  Recorded finding C04/star-key-recursion. *)
From Coq Require Import List NArith ZArith Bool Lia.
From N0 Require Import Base.PyStr Base.PyVal Xpath.Dec Xpath.Token Xpath.TokenProofs Xpath.Find.
Import ListNotations.

Arguments N.eqb : simpl never.
Arguments N.leb : simpl never.

Lemma sni_star_name : split_name_index s_star = Ok (s_star, IdxNone).
Proof. reflexivity. Qed.

Lemma find_star_key_diverges rl root rest par c v others fstr :
  forall f n,
  find true rl f root (repeat s_star (S n) ++ rest) par (Dict c ((s_star, v) :: others)) fstr = OutOfFuel.
Proof.
  induction f as [|f IH]; intros n; [reflexivity|].
  cbn [repeat app]. cbn [find]. rewrite sni_star_name.
  cbn [bind negb andb idx_truthy]. replace (nonempty s_star) with true by reflexivity. cbn [negb andb].
  replace (pstr_eqb s_star s_dotdot) with false by reflexivity.
  cbn [is_list]. replace (pstr_eqb s_star s_star) with true by reflexivity.
  cbn [map fst].
  change (s_star :: s_star :: repeat s_star n ++ rest) with (repeat s_star (S (S n)) ++ rest).
  rewrite IH. reflexivity.
Qed.

(* at the entry points: d.get("p/*") and d["/*"]-style lookups on such a tree run out of any fuel *)
Theorem star_key_never_returns rl c v others :
  forall fuel rest par fstr root,
  find true rl fuel root (s_star :: rest) par (Dict c ((s_star, v) :: others)) fstr = OutOfFuel.
Proof. intros. exact (find_star_key_diverges rl root rest par c v others fstr fuel 0). Qed.

Definition sk_tree : tree := Dict true [([112]%N, Dict true [(s_star, Leaf (SInt 1)); ([97]%N, Leaf (SInt 2))])].
Definition sk_x : pstr := [112; 47; 42]%N.       (* p/* *)

Lemma star_key_example :
  dict_get_pub (fuel_for sk_tree sk_x) sk_tree sk_x = OutOfFuel /\
  dict_getitem (fuel_for sk_tree sk_x) sk_tree sk_x = OutOfFuel.
Proof. split; vm_compute; reflexivity. Qed.
