(* Xpath/DeleteFrameTree.v — delete-frame on whole trees: a path that parts ways
   with the deleted one at a key, or at an index above the removed slot's list,
   resolves exactly as before (siblings of a removed list element shift and are
   described by C05_other_elements_kept instead). *)
From Coq Require Import List NArith ZArith Bool Lia.
From N0 Require Import Base.PyStr Base.PyVal Xpath.SpecProofs Xpath.DeleteFrame.
Import ListNotations.

Inductive kdiverge : path -> path -> Prop :=
| kd_key k s' p q : PKey k <> s' -> kdiverge (PKey k :: p) (s' :: q)
| kd_idx i s' p q : PIdx i <> s' -> p <> [] -> kdiverge (PIdx i :: p) (s' :: q)
| kd_later s p q : kdiverge p q -> kdiverge (s :: p) (s :: q).

Theorem resolve_delete_other t p q : kdiverge p q -> resolve (delete_at t p) q = resolve t q.
Proof.
  intros D. revert t. induction D as [k s' p q Hne|i s' p q Hne Hp|s p q D IH]; intros t.
  - destruct t as [sc|c kvs|c xs]; destruct p as [|s2 p]; cbn [delete_at]; try reflexivity.
    + destruct s' as [k'|i']; cbn; [|reflexivity].
      rewrite lookup_remove_key_other by congruence. reflexivity.
    + destruct (lookup k kvs) as [u|]; [|reflexivity].
      destruct s' as [k'|i']; cbn; [|reflexivity].
      rewrite lookup_update_other by congruence. reflexivity.
  - destruct p as [|s2 p]; [congruence|].
    destruct t as [sc|c kvs|c xs]; cbn [delete_at]; try reflexivity.
    destruct (nth_error xs i) as [u|]; [|reflexivity].
    destruct s' as [k'|i']; cbn; [reflexivity|].
    rewrite nth_error_set_nth_other by congruence. reflexivity.
  - destruct p as [|s2 p]; [inversion D|].
    destruct s as [k|i]; destruct t as [sc|c kvs|c xs]; cbn [delete_at]; try reflexivity.
    + destruct (lookup k kvs) as [u|] eqn:E; [|reflexivity].
      cbn [resolve]. rewrite lookup_update_same, E. apply IH.
    + destruct (nth_error xs i) as [u|] eqn:E; [|reflexivity].
      cbn [resolve]. rewrite nth_error_set_nth_same by (apply nth_error_Some; congruence). rewrite E. apply IH.
Qed.
