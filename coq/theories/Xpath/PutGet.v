(* Xpath/PutGet.v — writing back what is there changes nothing. *)
From Coq Require Import List NArith ZArith Bool Lia.
From N0 Require Import Base.PyStr Base.PyVal Xpath.SpecProofs.
Import ListNotations.

Lemma update_lookup_id {A} k (u : A) kvs : lookup k kvs = Some u -> update k u kvs = kvs.
Proof.
  induction kvs as [|[k' v'] r IH]; cbn; [discriminate|].
  destruct (pstr_eqb k k') eqn:E; intros H.
  - inversion H. reflexivity.
  - now rewrite IH.
Qed.

Lemma set_nth_nth_error_id {A} n (u : A) l : nth_error l n = Some u -> set_nth n u l = l.
Proof.
  revert n. induction l as [|x r IH]; intros [|n]; cbn; try discriminate.
  - intros H. inversion H. reflexivity.
  - intros H. now rewrite IH.
Qed.

Theorem replace_with_same t p u : resolve t p = Some u -> replace_at t p u = t.
Proof.
  revert t. induction p as [|s p IH]; intros t H; cbn in *.
  - now inversion H.
  - destruct s as [k|i]; destruct t as [sc|c kvs|c xs]; try reflexivity.
    + destruct (lookup k kvs) as [w|] eqn:E; [|reflexivity].
      rewrite (IH _ H). now rewrite (update_lookup_id _ _ _ E).
    + destruct (nth_error xs i) as [w|] eqn:E; [|reflexivity].
      rewrite (IH _ H). now rewrite (set_nth_nth_error_id _ _ _ E).
Qed.
