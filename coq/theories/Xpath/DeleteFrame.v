(* Xpath/DeleteFrame.v — what a removal must NOT change: the other keys of the
   dictionary keep their values and their order, the other elements of the list
   keep their values and their relative order. *)
From Coq Require Import List NArith ZArith Lia.
From N0 Require Import Base.PyStr Base.PyVal.
Import ListNotations.

Lemma lookup_remove_key_other {A} (k k2 : pstr) (kvs : list (pstr * A)) :
  k2 <> k -> lookup k2 (remove_key k kvs) = lookup k2 kvs.
Proof.
  intros Hne. induction kvs as [|[k' v'] r IH]; cbn; [reflexivity|].
  destruct (pstr_eqb k k') eqn:E.
  - apply pstr_eqb_eq in E. subst k'. apply pstr_eqb_neq in Hne. now rewrite Hne.
  - cbn. now rewrite IH.
Qed.

Lemma filter_all {A} (f : A -> bool) l : (forall x, In x l -> f x = true) -> filter f l = l.
Proof.
  induction l as [|x r IH]; cbn; intros H; [reflexivity|]. rewrite (H x (or_introl eq_refl)). f_equal. apply IH. intros y Hy. apply H. now right.
Qed.

(* the remaining entries, in their old order *)
Lemma remove_key_filter {A} (k : pstr) (kvs : list (pstr * A)) : NoDup (map fst kvs) ->
  remove_key k kvs = filter (fun kv => negb (pstr_eqb k (fst kv))) kvs.
Proof.
  induction kvs as [|[k' v'] r IH]; cbn; intros Hn; [reflexivity|]. inversion Hn as [|? ? Hnot Hr]; subst.
  destruct (pstr_eqb k k') eqn:E; cbn.
  - apply pstr_eqb_eq in E. subst k'. symmetry. apply filter_all.
    intros [k2 v2] Hin. cbn. destruct (pstr_eqb k k2) eqn:E2; [|reflexivity].
    apply pstr_eqb_eq in E2. subst k2. exfalso. apply Hnot. now apply (in_map fst) in Hin.
  - now rewrite IH.
Qed.

Lemma del_nth_firstn_skipn {A} (l : list A) i : del_nth i l = firstn i l ++ skipn (S i) l.
Proof.
  revert i. induction l as [|x r IH]; intros [|i]; cbn; try reflexivity.
  - now rewrite IH.
Qed.

Lemma del_nth_before {A} (l : list A) i j d : j < i -> nth j (del_nth i l) d = nth j l d.
Proof.
  revert i j. induction l as [|x r IH]; intros [|i] [|j] H; cbn; try reflexivity; try lia.
  apply IH. lia.
Qed.

Lemma del_nth_after {A} (l : list A) i j d : i <= j -> nth j (del_nth i l) d = nth (S j) l d.
Proof.
  revert i j. induction l as [|x r IH]; intros [|i] [|j] H; cbn; try reflexivity; try lia.
  apply IH. lia.
Qed.
