(* Xpath/CreateProofs.v — creation of a missing chain of names below an existing dict:
   d["P/n1/.../nk"] = v  creates exactly nested dictionaries. *)
From Coq Require Import List NArith ZArith Bool Lia.
From N0 Require Import Base.PyStr Base.PyVal Xpath.Dec Xpath.DecProofs Xpath.Token Xpath.TokenProofs
  Xpath.Find Xpath.FindProofs Xpath.Write Xpath.SpecProofs Xpath.WalkProofs.
Import ListNotations.

Arguments N.eqb : simpl never.

(* Spec: the chain a list of names denotes *)
Fixpoint chain (ns : list pstr) (v : tree) : tree :=
  match ns with
  | [] => v
  | n :: r => Dict true [(n, chain r v)]
  end.

Definition name_tok (n : pstr) : Prop := split_name_index n = Ok (n, IdxNone) /\ n <> [].

Lemma update_update_same {A} k (v w : A) kvs : update k v (update k w kvs) = update k v kvs.
Proof.
  induction kvs as [|[k' v'] r IH]; cbn.
  - now rewrite pstr_eqb_refl.
  - destruct (pstr_eqb k k') eqn:E; cbn; rewrite E; [reflexivity|now rewrite IH].
Qed.

Lemma replace_replace_same t p a b u : resolve t p = Some u -> replace_at (replace_at t p a) p b = replace_at t p b.
Proof.
  revert t. induction p as [|s p IH]; intros t H; cbn in *; [reflexivity|].
  destruct s as [k|i]; destruct t as [sc|c kvs|c xs]; try discriminate.
  - destruct (lookup k kvs) as [w|] eqn:E; [|discriminate]. cbn. rewrite lookup_update_same.
    rewrite update_update_same. now rewrite (IH w H).
  - destruct (nth_error xs i) as [w|] eqn:E; [|discriminate]. cbn.
    rewrite nth_error_set_nth_same by (eapply nth_error_Some_lt; eauto).
    rewrite (IH w H). f_equal.
    clear -E. revert i E. induction xs as [|x r IHr]; intros [|i] E; cbn in *; try discriminate; [reflexivity|].
    f_equal. now apply IHr.
Qed.

Lemma write_name root q c kvs n v :
  name_tok n -> resolve root q = Some (Dict c kvs) ->
  write_slot root (PAt q) (Some n) v = Ok (replace_at root q (Dict c (update n v kvs))).
Proof.
  intros [Hs Hne] Hq. unfold write_slot. rewrite Hs. cbn [bind pget idx_truthy pset]. now rewrite Hq.
Qed.

(* one step of _add below the dict created for the previous name *)
Lemma add_under_name f root q n0 c0 kvs0 c1 kvs1 n rest :
  name_tok n0 -> name_tok n ->
  resolve root q = Some (Dict c0 kvs0) -> lookup n0 kvs0 = Some (Dict c1 kvs1) -> lookup n kvs1 = None ->
  add (S f) root q (Some n0) (n :: rest) =
  let root' := replace_at root (q ++ [PKey n0]) (Dict c1 (update n (Dict true []) kvs1)) in
  match rest with
  | [] => Ok (root', q ++ [PKey n0], n)
  | _ => add f root' (q ++ [PKey n0]) (Some n) rest
  end.
Proof.
  intros [Hs0 Hne0] [Hs Hne] Hq Hl0 Hl. cbn [add].
  destruct n0 as [|a0 b0]; [congruence|]. rewrite Hs0, Hs. cbn [bind]. rewrite Hq.
  rewrite Hl0. cbn [bind]. destruct n as [|a b]; [congruence|]. rewrite Hl. cbn [idx_truthy].
  destruct rest; reflexivity.
Qed.

Lemma add_first_name f root q c kvs n rest :
  name_tok n -> resolve root q = Some (Dict c kvs) -> lookup n kvs = None ->
  add (S f) root q None (n :: rest) =
  let root' := replace_at root q (Dict c (update n (Dict true []) kvs)) in
  match rest with
  | [] => Ok (root', q, n)
  | _ => add f root' q (Some n) rest
  end.
Proof.
  intros [Hs Hne] Hq Hl. cbn [add]. rewrite Hs. cbn [bind]. rewrite Hq.
  destruct n as [|a b]; [congruence|]. rewrite Hl. cbn [idx_truthy]. destruct rest; reflexivity.
Qed.

Lemma create_under : forall ns root q n0 c0 kvs0 v fuel,
  ns <> [] -> Forall name_tok ns -> name_tok n0 ->
  resolve root q = Some (Dict c0 kvs0) -> lookup n0 kvs0 = Some (Dict true []) ->
  length ns <= fuel ->
  (do r <- add fuel root q (Some n0) ns ;;
   let '(root2, p2, s2) := r in write_slot root2 (PAt p2) (Some s2) v)
  = Ok (replace_at root q (Dict c0 (update n0 (chain ns v) kvs0))).
Proof.
  induction ns as [|n r IH]; intros root q n0 c0 kvs0 v fuel Hne HF Hn0 Hq Hl0 Hf; [congruence|].
  inversion HF as [|? ? Hn Hr]; subst. destruct fuel as [|f]; [cbn in Hf; lia|].
  rewrite (add_under_name f root q n0 c0 kvs0 true [] n r Hn0 Hn Hq Hl0 eq_refl).
  cbn zeta. set (p1 := q ++ [PKey n0]).
  assert (Hp1 : resolve root p1 = Some (Dict true [])).
  { unfold p1. rewrite resolve_app, Hq. cbn. now rewrite Hl0. }
  assert (Hfold : forall B, replace_at root p1 B = replace_at root q (Dict c0 (update n0 B kvs0))).
  { intros B. unfold p1. now apply (replace_at_last_key root q c0 kvs0 n0 (Dict true []) B Hq Hl0). }
  destruct r as [|n' r'].
  - cbn [bind chain update].
    rewrite (write_name _ p1 true [(n, Dict true [])] n v Hn) by (eapply resolve_replace_same; eauto).
    cbn [update]. rewrite pstr_eqb_refl. rewrite (replace_replace_same root p1 _ _ _ Hp1). now rewrite Hfold.
  - set (root' := replace_at root p1 (Dict true (update n (Dict true []) []))).
    assert (Hq' : resolve root' p1 = Some (Dict true [(n, Dict true [])])).
    { unfold root'. cbn [update]. eapply resolve_replace_same; eauto. }
    rewrite (IH root' p1 n true [(n, Dict true [])] v f ltac:(congruence) Hr Hn Hq'); [| |cbn in Hf; cbn; lia].
    + unfold root'. rewrite (replace_replace_same root p1 _ _ _ Hp1). cbn [update]. rewrite pstr_eqb_refl.
      now rewrite Hfold.
    + cbn. now rewrite pstr_eqb_refl.
Qed.

Theorem create_names_at : forall ns root q c kvs v fuel n1,
  Forall name_tok (n1 :: ns) ->
  resolve root q = Some (Dict c kvs) -> lookup n1 kvs = None ->
  S (length ns) <= fuel ->
  (do r <- add fuel root q None (n1 :: ns) ;;
   let '(root2, p2, s2) := r in write_slot root2 (PAt p2) (Some s2) v)
  = Ok (replace_at root q (Dict c (update n1 (chain ns v) kvs))).
Proof.
  intros ns root q c kvs v fuel n1 HF Hq Hl Hf. inversion HF as [|? ? Hn1 Hns]; subst.
  destruct fuel as [|f]; [lia|].
  rewrite (add_first_name f root q c kvs n1 ns Hn1 Hq Hl). cbn zeta.
  destruct ns as [|n r].
  - cbn [bind chain]. rewrite (write_name _ q c (update n1 (Dict true []) kvs) n1 v Hn1) by (eapply resolve_replace_same; eauto).
    rewrite update_update_same. now rewrite (replace_replace_same root q _ _ _ Hq).
  - set (root' := replace_at root q (Dict c (update n1 (Dict true []) kvs))).
    assert (Hq' : resolve root' q = Some (Dict c (update n1 (Dict true []) kvs))) by (eapply resolve_replace_same; eauto).
    rewrite (create_under (n :: r) root' q n1 c (update n1 (Dict true []) kvs) v f ltac:(congruence) Hns Hn1 Hq');
      [| apply lookup_update_same | cbn in *; lia].
    unfold root'. rewrite (replace_replace_same root q _ _ _ Hq). now rewrite update_update_same.
Qed.

(* through __setitem__: P/n1/.../nk = v with P an existing dict and n1 a fresh name *)
Theorem setitem_creates_names fuel root x v toks p c kvs n1 ns :
  has_path_char x = true -> tokenize x = toks ++ n1 :: ns ->
  walk root toks p (Dict c kvs) ->
  Forall name_tok (n1 :: ns) -> plain_key n1 -> lookup n1 kvs = None ->
  2 * length toks + 2 + length ns <= fuel ->
  setitem_core fuel root x v = Ok (replace_at root p (Dict c (update n1 (chain ns v) kvs))).
Proof.
  intros Hc Ht Hw HF Hpk Hl Hf. unfold setitem_core. rewrite Hc, Ht.
  destruct (find_walk_prefix true root toks p (Dict c kvs) Hw (n1 :: ns) ltac:(congruence) fuel root [] s_root ltac:(lia))
    as [fstr' [fuel' [H1 [H2 H3]]]].
  rewrite H3. destruct fuel' as [|f']; [lia|].
  inversion HF as [|? ? [Hs1 Hne1] Hns]; subst.
  rewrite (find_key_missing true f' root n1 ns (PAt ([] ++ p)) c kvs fstr' n1 IdxNone Hs1 Hpk Hl).
  cbn [bind rest_falsy f_rest f_par f_slot app].
  pose proof (create_names_at ns root p c kvs v fuel n1 HF (walk_resolve _ _ _ _ Hw) Hl ltac:(lia)) as Hcr.
  unfold bind in Hcr |- *.
  destruct (add fuel root p None (n1 :: ns)) as [[[root2 p2] s2]|e| |]; try discriminate Hcr. exact Hcr.
Qed.

(* the chain that was created reads back: P/n1/.../nk resolves to v in the new tree *)
Lemma resolve_chain ns v : resolve (chain ns v) (map PKey ns) = Some v.
Proof. induction ns as [|n r IH]; cbn; [reflexivity|]. now rewrite pstr_eqb_refl. Qed.

Theorem created_chain_resolves root p c kvs n1 ns v :
  resolve root p = Some (Dict c kvs) ->
  resolve (replace_at root p (Dict c (update n1 (chain ns v) kvs))) (p ++ PKey n1 :: map PKey ns) = Some v.
Proof.
  intros Hp. rewrite resolve_app, (resolve_replace_same root p _ _ Hp). cbn. rewrite lookup_update_same.
  apply resolve_chain.
Qed.

(* ---- every previously existing node is unchanged ------------------------------------------------ *)
Definition pstep_eq_dec (a b : pstep) : {a = b} + {a <> b}.
Proof. decide equality; [apply (list_eq_dec N.eq_dec)|apply Nat.eq_dec]. Defined.

Lemma path_trichotomy : forall p q : path,
  diverge p q \/ (exists r, q = p ++ r) \/ (exists r, r <> [] /\ p = q ++ r).
Proof.
  induction p as [|s p IH]; intros q.
  - right. left. now exists q.
  - destruct q as [|s' q].
    + right. right. exists (s :: p). split; [discriminate|reflexivity].
    + destruct (pstep_eq_dec s s') as [->|Hne].
      * destruct (IH q) as [D|[[r ->]|[r [Hr ->]]]].
        -- left. now constructor.
        -- right. left. now exists r.
        -- right. right. exists r. split; [exact Hr|reflexivity].
      * left. now constructor.
Qed.

Theorem creation_preserves root p c kvs n1 X q u :
  resolve root p = Some (Dict c kvs) -> lookup n1 kvs = None ->
  resolve root q = Some u -> (forall r, p <> q ++ r) ->
  resolve (replace_at root p (Dict c (update n1 X kvs))) q = Some u.
Proof.
  intros Hp Hl Hq Hnp.
  destruct (path_trichotomy p q) as [D|[[r ->]|[r [Hr ->]]]].
  - now rewrite resolve_replace_other.
  - rewrite resolve_app, (resolve_replace_same root p _ _ Hp).
    rewrite resolve_app, Hp in Hq.
    destruct r as [|[k|i] r']; [exfalso; apply (Hnp []); now rewrite !app_nil_r| |cbn in *; exact Hq].
    cbn in *. destruct (pstr_eqb k n1) eqn:E.
    + apply pstr_eqb_eq in E. subst. rewrite Hl in Hq. discriminate.
    + rewrite lookup_update_other; [exact Hq|]. intros ->. now rewrite pstr_eqb_refl in E.
  - exfalso. now apply (Hnp r).
Qed.

(* non-vacuity: {"a": {"k": 1}}  and  a/n1/n2 = 7 *)
Definition cr_root : tree := Dict true [([97]%N, Dict true [([107]%N, Leaf (SInt 1))])].
Definition cr_x : pstr := [97; 47; 110; 49; 47; 110; 50]%N.
Theorem create_example :
  setitem_core (wfuel cr_x) cr_root cr_x (Leaf (SInt 7)) =
  Ok (Dict true [([97]%N, Dict true [([107]%N, Leaf (SInt 1)); ([110; 49]%N, Dict true [([110; 50]%N, Leaf (SInt 7))])])]) /\
  exists toks p c kvs n1 ns,
    tokenize cr_x = toks ++ n1 :: ns /\ walk cr_root toks p (Dict c kvs) /\ Forall name_tok (n1 :: ns) /\
    plain_key n1 /\ lookup n1 kvs = None.
Proof.
  split; [vm_compute; reflexivity|].
  exists [[97]%N], [PKey [97]%N], true, [([107]%N, Leaf (SInt 1))], [110; 49]%N, [[110; 50]%N].
  split; [vm_compute; reflexivity|]. split.
  - eapply walk_key with (k := [97]%N); [reflexivity| |reflexivity|constructor].
    unfold plain_key. repeat split; try discriminate; reflexivity.
  - split; [repeat constructor; try reflexivity; discriminate|].
    split; [unfold plain_key; repeat split; try discriminate; reflexivity|reflexivity].
Qed.

(* ---- name[new()] / name[0] on a fresh name creates a one-element list --------------------------- *)
Lemma sni_lastidx : split_name_index s_lastidx = Ok ([], IdxStr s_last).
Proof. reflexivity. Qed.
Lemma n0eval_last : n0eval s_last = EvInt (-1).
Proof. reflexivity. Qed.

Lemma add_fresh_list f root q c kvs x n si :
  split_name_index x = Ok (n, IdxStr si) -> n <> [] -> si <> [] ->
  pstr_eqb si s_new || pstr_eqb si s_zero = true ->
  resolve root q = Some (Dict c kvs) -> lookup n kvs = None ->
  add (S f) root q None [x] =
  Ok (replace_at root q (Dict c (update n (Lst true [Leaf SNone]) kvs)), q ++ [PKey n], s_lastidx).
Proof.
  intros Hs Hne Hsi Hnew Hq Hl. cbn [add]. rewrite Hs. cbn [bind]. rewrite Hq.
  destruct n as [|a b]; [congruence|]. rewrite Hl.
  destruct si as [|s0 s1]; [congruence|]. cbn [idx_truthy nonempty]. now rewrite Hnew.
Qed.

Theorem setitem_creates_list fuel root x v toks p c kvs y n si :
  has_path_char x = true -> tokenize x = toks ++ [y] ->
  walk root toks p (Dict c kvs) ->
  split_name_index y = Ok (n, IdxStr si) -> plain_key n -> si <> [] ->
  pstr_eqb si s_new || pstr_eqb si s_zero = true ->
  lookup n kvs = None ->
  2 * length toks + 2 <= fuel ->
  setitem_core fuel root x v = Ok (replace_at root p (Dict c (update n (Lst true [v]) kvs))).
Proof.
  intros Hc Ht Hw Hs Hpk Hsi Hnew Hl Hf. unfold setitem_core. rewrite Hc, Ht.
  destruct (find_walk_prefix true root toks p (Dict c kvs) Hw [y] ltac:(congruence) fuel root [] s_root ltac:(lia))
    as [fstr' [fuel' [H1 [H2 H3]]]].
  rewrite H3. destruct fuel' as [|f']; [lia|].
  rewrite (find_key_missing true f' root y [] (PAt ([] ++ p)) c kvs fstr' n (IdxStr si) Hs Hpk Hl).
  cbn [bind rest_falsy f_rest f_par f_slot app].
  pose proof (walk_resolve _ _ _ _ Hw) as Hp. destruct Hpk as [Hne _].
  destruct fuel as [|f]; [lia|].
  rewrite (add_fresh_list f root p c kvs y n si Hs Hne Hsi Hnew Hp Hl). cbn [bind].
  set (root' := replace_at root p (Dict c (update n (Lst true [Leaf SNone]) kvs))).
  assert (Hq' : resolve root' (p ++ [PKey n]) = Some (Lst true [Leaf SNone])).
  { unfold root'. rewrite resolve_app, (resolve_replace_same root p _ _ Hp). cbn. now rewrite lookup_update_same. }
  unfold write_slot. rewrite sni_lastidx. cbn [bind pget nonempty]. rewrite Hq', n0eval_last.
  cbn [length norm_idx set_nth pset]. 
  change (norm_idx 1 (-1)) with (Some 0). cbn [set_nth].
  unfold root'.
  rewrite (replace_at_app _ p [PKey n] _ _ (resolve_replace_same root p _ _ Hp)).
  cbn [replace_at]. rewrite lookup_update_same. cbn [replace_at].
  rewrite (replace_replace_same root p _ _ _ Hp). now rewrite update_update_same.
Qed.
