(* Xpath/Find.v — transliteration of n0dict._find and n0list._find
   (n0struct_n0list_n0dict.py) and of the public lookups _get/get/first/__getitem__
   (n0struct_n0dict__.py, n0struct_n0list_.py).

   References become positions: the parent a call returns is either a node of the
   root ([PAt p]) or the temporary one-element list the code builds around a
   non-list ([PWrap inner]).  The resolver's single write (the [new()] branch)
   makes every call return the possibly modified root and a "mutated" flag. *)
From Coq Require Import List NArith ZArith Bool Lia.
From N0 Require Import Base.PyStr Base.PyVal Xpath.Dec Xpath.Token.
Import ListNotations.

Inductive pref := PAt (p : path) | PWrap (inner : pref).

Record found := mkF {
  f_par : pref;            (* [0] parent node, by reference *)
  f_parv : tree;           (*     and by value *)
  f_slot : option pstr;    (* [1] node_name_index exactly as the string Python builds *)
  f_val : option tree;     (* [2] cur_value *)
  f_str : pstr;            (* [3] xpath_found_str *)
  f_rest : option (list pstr) (* [4] not_found_xpath_list *)
}.

Definition fres := res (tree * bool * found).

Definition nonnil {A} (l : list A) : bool := match l with [] => false | _ => true end.
Definition is_list (t : tree) : bool := match t with Lst _ _ => true | _ => false end.
Definition is_dict (t : tree) : bool := match t with Dict _ _ => true | _ => false end.
Definition rest_falsy (r : option (list pstr)) : bool := match r with None | Some [] => true | _ => false end.

Definition child_key (par : pref) (k : pstr) : pref :=
  match par with PAt p => PAt (p ++ [PKey k]) | PWrap i => PWrap i end.
Definition child_idx (par : pref) (i : nat) : pref :=
  match par with PAt p => PAt (p ++ [PIdx i]) | PWrap inner => inner end.


(* Python list indexing with an int: position or None (IndexError) *)
Definition norm_idx (len : nat) (z : Z) : option nat :=
  if (0 <=? z)%Z && (z <? Z.of_nat len)%Z then Some (Z.to_nat z)
  else if (z <? 0)%Z && (- Z.of_nat len <=? z)%Z then Some (Z.to_nat (z + Z.of_nat len))
  else None.

Definition wrap_parent (par : pref) (parv : tree) : pref * tree * list tree :=
  match parv with
  | Lst _ xs => (par, parv, xs)
  | _ => (PWrap par, Lst false [parv], [parv])
  end.

(* The predicate literal after the (repaired) numeric conversion: for an int / float
   field the literal is converted with int() / float(); a literal that does not
   convert stays as it is (and then differs from every number). *)
Inductive plit := LitStr (s : pstr) | LitBool (b : bool) | LitInt (z : Z) | LitFlt (h : Z).

(* float(s) for the spellings the model covers: [sign] digits [ '.' [ '0' | '5' ] ];
   result = twice the value; None = outside the model; a string float() rejects for
   certain (no digit, letter other than e/E/n/N/i/I/f/F/a/A/t/T/y/Y) stays a string *)
Definition py_float2 (s : pstr) : option plit :=
  let '(neg, body) := match s with 45%N :: r => (true, r) | 43%N :: r => (false, r) | _ => (false, s) end in
  let sgn (h : Z) : Z := if neg then (- h)%Z else h in
  match split_once body [46%N] with
  | None =>
    if all_digits body then Some (LitFlt (sgn (2 * Z.of_N (digits_val body))%Z))
    else if existsb (fun c => is_digit c || mem_chr c [46; 95; 101; 69; 110; 78; 105; 73; 102; 70; 97; 65; 116; 84; 121; 89]%N
                              || (128 <=? c)%N || mem_chr c py_ws) s
         then None else Some (LitStr s)
  | Some (ip, fp) =>
    if all_digits ip then
      match fp with
      | [] | [48%N] => Some (LitFlt (sgn (2 * Z.of_N (digits_val ip))%Z))
      | [53%N] => Some (LitFlt (sgn (2 * Z.of_N (digits_val ip) + 1)%Z))
      | _ => None
      end
    else None
  end.

Definition pred_literal (parv : tree) (v : pval) : option plit :=
  match parv with
  | Leaf (SInt _) | Leaf (SBool _) =>
    match v with
    | PvBool b => Some (LitInt (if b then 1 else 0))
    | PvStr s => match py_int (strip s) with
                 | IntOk z => Some (LitInt z)
                 | IntFail => Some (LitStr s)
                 | IntUnk => None
                 end
    end
  | Leaf (SFlt _) =>
    match v with
    | PvBool b => Some (LitFlt (if b then 2 else 0))
    | PvStr s => py_float2 (strip s)
    end
  | _ => Some (match v with PvStr s => LitStr s | PvBool b => LitBool b end)
  end.

Definition num2 (t : tree) : option Z :=   (* numeric value times two *)
  match t with
  | Leaf (SBool b) => Some (if b then 2 else 0)%Z
  | Leaf (SInt z) => Some (2 * z)%Z
  | Leaf (SFlt h) => Some h
  | _ => None
  end.

Definition lit_eq (parv : tree) (l : plit) : bool :=
  match l with
  | LitStr s => match parv with Leaf (SStr s') => pstr_eqb s s' | _ => false end
  | LitBool b => match num2 parv with Some h => Z.eqb h (if b then 2 else 0) | None => false end
  | LitInt z => match num2 parv with Some h => Z.eqb h (2 * z) | None => false end
  | LitFlt k => match num2 parv with Some h => Z.eqb h k | None => false end
  end.

(* isinstance(parent, (str, list, tuple, dict)) and literal in parent *)
Definition lit_in (parv : tree) (l : plit) : res bool :=
  match parv with
  | Leaf (SStr s') => match l with LitStr s => Ok (contains s' s) | _ => Raise ExType end
  | Leaf _ => Ok false
  | Dict _ kvs => Ok (match l with LitStr s => (match lookup s kvs with Some _ => true | None => false end) | _ => false end)
  | Lst _ xs => Ok (existsb (fun x => lit_eq x l) xs)
  end.

Section find.
(* [selfok = false] models n0dict._find called unbound with a plain dict as self
   (from n0list._find): every self._find raises AttributeError. *)
Variable selfok : bool.
Variable rl : bool.       (* return_lists *)

Definition agg (vals : list tree) : tree :=
  match vals with
  | [v] => if rl then Lst true [v] else v
  | _ => Lst true vals
  end.

Fixpoint find (fuel : nat) (root : tree) (xs : list pstr) (par : pref) (parv : tree) (fstr : pstr) {struct fuel} : fres :=
  match fuel with
  | O => OutOfFuel
  | S f =>
    let self_find r xs' par' parv' fstr' : fres :=
      if selfok then find f r xs' par' parv' fstr' else Raise ExAttribute in
    (* the fan-out loops: acc = (values so far, first match) ; any mutation inside is outside the model *)
    let loop := fix loop (cands : list (list pstr * pref * tree * pstr)) (vals : list tree)
                         (fst : option found) {struct cands} : res (list tree * option found) :=
      match cands with
      | [] => Ok (rev vals, fst)
      | (xs', par', parv', fstr') :: r =>
        do (_, m, F) <- self_find root xs' par' parv' fstr' ;;
        if m : bool then Unmodelled
        else if rest_falsy (f_rest F) then
          match f_val F with
          | Some v => loop r (v :: vals) (match fst with None => Some F | _ => fst end)
          | None => Unmodelled
          end
        else loop r vals fst
      end in
    let finish_loop (lr : res (list tree * option found)) (npar : pref) (nparv : tree) : fres :=
      do (vals, fst) <- lr ;;
      match fst with
      | Some F => Ok (root, false, mkF (f_par F) (f_parv F) (f_slot F) (Some (agg vals)) (f_str F) None)
      | None => Ok (root, false, mkF npar nparv None None fstr (Some xs))
      end in
    match xs with
    | [] =>
      if pstr_eqb fstr s_root then Ok (root, false, mkF par parv None (Some parv) fstr None)
      else self_find root (tokenize fstr) (PAt []) root s_root
    | x :: rest =>
      do (name, ix) <- split_name_index x ;;
      if negb (nonempty name) && negb (idx_truthy ix) then Raise ExValue
      else if nonempty name then
        (* ---------------- key step ---------------- *)
        if pstr_eqb name s_dotdot then
          let segs := removelast (filter nonempty (split_chr c_slash (replace fstr [c_rb; c_lb] [c_rb; c_slash; c_lb]))) in
          do (root1, m1, F1) <- self_find root segs (PAt []) root s_root ;;
          do nxt <-
            match f_slot F1 with
            | Some ((_ :: _) as s) =>
              do (cn, ci) <- split_name_index s ;;
              match cn with
              | _ :: _ =>
                match f_parv F1 with
                | Dict _ kvs => match lookup cn kvs with
                                | Some v => Ok (child_key (f_par F1) cn, v)
                                | None => Raise ExKey
                                end
                | Lst _ _ => Raise ExType
                | Leaf _ => Raise ExType
                end
              | [] =>
                match ci with
                | IdxStr si =>
                  match n0eval si, f_parv F1 with
                  | EvUnk, _ => Unmodelled
                  | EvInt z, Lst _ items =>
                    match norm_idx (length items) z with
                    | Some i => match nth_error items i with
                                | Some v => Ok (child_idx (f_par F1) i, v)
                                | None => Raise ExIndex
                                end
                    | None => Raise ExIndex
                    end
                  | EvInt _, Dict _ _ => Raise ExKey
                  | EvStr _, Lst _ _ => Raise ExType
                  | EvStr k, Dict _ kvs => match lookup k kvs with
                                           | Some v => Ok (child_key (f_par F1) k, v)
                                           | None => Raise ExKey
                                           end
                  | _, Leaf _ => Raise ExType
                  end
                | _ => Raise ExType
                end
              end
            | _ => Ok (f_par F1, f_parv F1)
            end ;;
          let '(npar, nval) := nxt in
          if idx_truthy ix || nonnil rest then
            match ix with
            | IdxPred _ _ _ => Unmodelled      (* f"[{tuple}]" *)
            | IdxStr ((_ :: _) as si) =>
              do (r2, m2, F2) <- self_find root1 (br si :: rest) npar nval (f_str F1) ;; Ok (r2, m1 || m2, F2)
            | _ =>
              do (r2, m2, F2) <- self_find root1 rest npar nval (f_str F1) ;; Ok (r2, m1 || m2, F2)
            end
          else
            match f_slot F1 with
            | Some s => Ok (root1, m1, mkF (f_par F1) (f_parv F1) (f_slot F1) (Some nval) (sl fstr s) None)
            | None => Raise ExType            (* str + None *)
            end
        else if is_list parv then self_find root (br s_star :: xs) par parv fstr
        else match parv with
        | Dict _ kvs =>
          if pstr_eqb name s_star then
            finish_loop (loop (map (fun kv => (fst kv :: xs, par, parv, fstr)) kvs) [] None) par parv
          else match lookup name kvs with
          | None => Ok (root, false, mkF par parv None None fstr (Some xs))
          | Some child =>
            match rest, ix with
            | [], IdxNone => Ok (root, false, mkF par parv (Some name) (Some child) (sl fstr name) None)
            | _, IdxNone => self_find root rest (child_key par name) child (sl fstr name)
            | _, IdxStr si => self_find root (br si :: rest) (child_key par name) child (sl fstr name)
            | _, IdxPred n op v =>
              self_find root (br (n ++ op ++ 39%N :: pval_str v ++ [39%N]) :: rest) (child_key par name) child (sl fstr name)
            end
          end
        | _ => Raise ExIndex
        end
      else
        (* ---------------- index step ---------------- *)
        match ix with
        | IdxNone => Raise ExValue
        | IdxPred n op v =>
          if pstr_eqb n s_text then
            match pred_literal parv v with
            | None => Unmodelled
            | Some lit =>
              do cmp <-
                match op with
                | [o0; o1] =>
                  do base <- (if N.eqb o1 61 then Ok (lit_eq parv lit)
                              else if N.eqb o1 126 then lit_in parv lit
                              else Raise ExSyntax) ;;
                  if N.eqb o0 33 then Ok (negb base)
                  else if N.eqb o0 61 || N.eqb o0 126 then Ok base
                  else Raise ExSyntax
                | _ => Unmodelled
                end ;;
              if cmp : bool then self_find root rest par parv fstr
              else Ok (root, false, mkF par parv None None fstr (Some xs))
            end
          else
            match parv with
            | Lst _ (_ :: _) => self_find root (br s_star :: xs) par parv fstr
            | Lst _ [] => Ok (root, false, mkF par parv None None fstr (Some xs))   (* no record to select from *)
            | Dict _ kvs =>
              match lookup n kvs with
              | None => Ok (root, false, mkF par parv None None fstr (Some xs))
              | Some child =>
                self_find root (br (s_text ++ op ++ pval_str v) :: s_dotdot :: rest) (child_key par n) child (sl fstr n)
              end
            | _ => Raise ExIndex
            end
        | IdxStr si =>
          if pstr_eqb si s_new then
            do (root1, m1, F1) <- self_find root (tokenize fstr) (PAt []) root s_root ;;
            match f_parv F1, f_slot F1 with
            | Dict _ kvs, Some s =>
              match lookup s kvs with
              | None => Raise ExKey
              | Some target =>
                let tpar := child_key (f_par F1) s in
                if is_list target then
                  Ok (root1, m1, mkF tpar target None None (f_str F1) (Some (br s_new :: rest)))
                else
                  let target' := Lst true [target] in
                  match tpar with
                  | PAt p => Ok (replace_at root1 p target', true, mkF tpar target' None None (f_str F1) (Some (br s_new :: rest)))
                  | PWrap _ => Unmodelled
                  end
              end
            | Dict _ _, None => Raise ExKey
            | Lst _ items, Some s =>
              if startswith s [c_lb] && endswith s [c_rb] then
                match n0eval (removelast (tl s)) with
                | EvUnk => Unmodelled
                | EvStr _ => Raise ExType
                | EvInt z =>
                  match norm_idx (length items) z with
                  | None => Raise ExIndex
                  | Some i =>
                    match nth_error items i, f_par F1 with
                    | Some target, PAt pp =>
                      let tpar := PAt (pp ++ [PIdx i]) in
                      if is_list target then
                        Ok (root1, m1, mkF tpar target None None (f_str F1) (Some (br s_new :: rest)))
                      else
                        let target' := Lst true [target] in
                        Ok (replace_at root1 (pp ++ [PIdx i]) target', true,
                            mkF tpar target' None None (f_str F1) (Some (br s_new :: rest)))
                    | _, _ => Unmodelled
                    end
                  end
                end
              else Raise ExType
            | Lst _ _, None => Raise ExType
            | Leaf _, _ => Raise ExType
            end
          else if pstr_eqb si s_star then
            let '(npar, nparv, items) := wrap_parent par parv in
            finish_loop
              (loop (map (fun i => (br (dec_of_nat i) :: rest, npar, nparv, fstr)) (seq 0 (length items))) [] None)
              npar nparv
          else
            let '(npar, nparv, items) := wrap_parent par parv in
            match n0eval si with
            | EvUnk => Unmodelled
            | EvStr _ => Raise ExType
            | EvInt z =>
              match norm_idx (length items) z with
              | None => Ok (root, false, mkF npar nparv (Some (br (dec_of_Z z))) None fstr (Some xs))
              | Some i =>
                match nth_error items i with
                | None => Unmodelled
                | Some child =>
                  match rest with
                  | [] => (* since the "fix:" commit 2fc3539 the found path of an element ends with its index *)
                    Ok (root, false, mkF npar nparv (Some (br (dec_of_Z z))) (Some child) (fstr ++ br (dec_of_Z z)) None)
                  | _ => self_find root rest (child_idx npar i) child (fstr ++ br (dec_of_Z z))
                  end
                end
              end
            end
        end
    end
  end.
End find.

(* ---- n0list._find --------------------------------------------------------------- *)
Definition rebase_pref (base : path) (p : pref) : pref :=
  (fix go (p : pref) : pref := match p with PAt q => PAt (base ++ q) | PWrap i => PWrap (go i) end) p.
Definition rebase (base : path) (F : found) : found :=
  mkF (rebase_pref base (f_par F)) (f_parv F) (f_slot F) (f_val F) (f_str F) (f_rest F).

Section lfind.
Variable rl : bool.

Definition lagg (vals : list tree) : tree :=
  match vals with
  | [v] => if rl then Lst true [v] else v
  | _ => Lst true vals
  end.

(* positions: [pos] is the position of [parv] in [root] (list-rooted calls never wrap
   before descending, except at the pure-index step where a non-list parent is wrapped) *)
Fixpoint lfind (fuel : nat) (root : tree) (xs : list pstr) (par : pref) (parv : tree) (fstr : pstr) {struct fuel} : fres :=
  match fuel with
  | O => OutOfFuel
  | S f =>
    (* n0dict._find(child, xs', child, rl, fstr'): the child becomes self/root *)
    let dict_find (child : tree) (cpar : pref) xs' fstr' : fres :=
      match child, cpar with
      | Dict c _, PAt cp =>
        (* after the "fix:" commit the unbound recursion also works for a plain dict child *)
        (* after the "fix:" commit the element is handed over with the found path reset to "/": it is the root of
           the delegated search, and the '..' step re-resolves the found path from the root it was given *)
        do (child', m, F) <- find true rl f child xs' (PAt []) child s_root ;;
        Ok ((if m then replace_at root cp child' else root), m, rebase cp F)
      | _, _ => Unmodelled
      end in
    match xs with
    | [] =>
      if pstr_eqb fstr s_root then Ok (root, false, mkF par parv None (Some parv) fstr None)
      else lfind f root (tokenize fstr) (PAt []) root s_root
    | x :: rest =>
      do (name, ix) <- split_name_index x ;;
      if nonempty name then Ok (root, false, mkF par parv None None fstr (Some xs))
      else match ix with
      | IdxNone => Raise ExIndex
      | IdxPred _ _ _ => Raise ExIndex
      | IdxStr si =>
        if pstr_eqb si s_star then
          match parv with
          | Lst _ items =>
            let loop := fix loop (cands : list (nat * tree)) (vals : list tree) (fst : option found)
                                 {struct cands} : res (list tree * option found) :=
              match cands with
              | [] => Ok (rev vals, fst)
              | (i, child) :: r =>
                do (_, m, F) <-
                  match child with
                  | Dict _ _ => dict_find child (child_idx par i) rest (fstr ++ br (dec_of_nat i))
                  | Lst _ _ => lfind f root rest (child_idx par i) child (fstr ++ br (dec_of_nat i))
                  | Leaf _ => Raise ExType
                  end ;;
                if m : bool then Unmodelled
                else if rest_falsy (f_rest F) then
                  match f_val F with
                  | Some v => loop r (v :: vals) (match fst with None => Some F | _ => fst end)
                  | None => Unmodelled
                  end
                else loop r vals fst
              end in
            do (vals, fst) <- loop (combine (seq 0 (length items)) items) [] None ;;
            match fst with
            | Some F => Ok (root, false, mkF (f_par F) (f_parv F) (f_slot F) (Some (lagg vals)) (f_str F) None)
            | None => Ok (root, false, mkF par parv None None fstr (Some xs))
            end
          | Dict _ kvs => Unmodelled      (* enumerate(dict) iterates keys *)
          | Leaf _ => Raise ExType        (* enumerate(scalar): not iterable (str iterates chars: outside the model) *)
          end
        else
          let '(npar, nparv, items) := wrap_parent par parv in
          match n0eval si with
          | EvUnk => Unmodelled
          | EvStr _ => Raise ExType
          | EvInt z =>
            match norm_idx (length items) z with
            | None => Ok (root, false, mkF npar nparv (Some (br (dec_of_Z z))) None fstr (Some xs))
            | Some i =>
              match nth_error items i with
              | None => Unmodelled
              | Some child =>
                match rest with
                | [] => Ok (root, false, mkF npar nparv (Some (br (dec_of_Z z))) (Some child) fstr None)
                | _ =>
                  match child with
                  | Dict _ _ => dict_find child (child_idx npar i) rest (fstr ++ br (dec_of_Z z))
                  | Lst _ _ => lfind f root rest (child_idx npar i) child (fstr ++ br (dec_of_Z z))
                  | Leaf _ => Raise ExType
                  end
                end
              end
            end
          end
      end
    end
  end.
End lfind.

(* ---- public lookups --------------------------------------------------------------- *)
Definition has_path_char (x : pstr) : bool := mem_chr c_slash x || mem_chr c_lb x.
Definition funnelled (e : exn) : bool :=
  match e with ExValue | ExIndex | ExKey | ExType | ExSyntax => true | _ => false end.

(* result of a lookup: the tree afterwards and the value / default / exception *)
Inductive lres := LVal (v : tree) | LDefault | LEmpty (* '' from the ? prefix *) | LRaise (e : exn).

(* enough for every case the correspondence check generates (the resolver re-enters from the
   root for '..' and new()); the theorems only need the last summand *)
Definition fuel_for (root : tree) (x : pstr) : nat := 8 * length x + 64 + 2 * length (tokenize x).

(* n0dict__._get, after the '?' prefix has been processed *)
Definition dict_get_core (fuel : nat) (root : tree) (x : pstr) (raise_exc rl : bool) (dflt : lres) : res (tree * lres) :=
  if has_path_char x then
    match find true rl fuel root (tokenize x) (PAt []) root s_root with
    | Raise e =>
      if funnelled e then Ok (root, if raise_exc then LRaise e else dflt)
      else Ok (root, LRaise e)
    | Ok (root', _, F) =>
      if rest_falsy (f_rest F) then
        match f_val F with Some v => Ok (root', LVal v) | None => Unmodelled end
      else Ok (root', if raise_exc then LRaise ExIndex else dflt)
    | OutOfFuel => OutOfFuel
    | Unmodelled => Unmodelled
    end
  else
    match root with
    | Dict _ kvs =>
      match lookup x kvs with
      | Some v => Ok (root, LVal v)
      | None => Ok (root, if raise_exc then LRaise ExKey else dflt)
      end
    | _ => Unmodelled
    end.

Definition dict_get (fuel : nat) (root : tree) (x : pstr) (raise_exc rl : bool) : res (tree * lres) :=
  match x with
  | 63%N :: x' => dict_get_core fuel root x' false rl LEmpty
  | _ => dict_get_core fuel root x raise_exc rl LDefault
  end.

Definition unwrap_single (r : lres) : lres :=
  match r with
  | LVal (Lst _ [v]) => LVal v
  | _ => r
  end.

Definition dict_getitem fuel root x := dict_get fuel root x true true.
Definition dict_get_pub fuel root x := dict_get fuel root x false true.
Definition dict_first fuel root x :=
  do (r, v) <- dict_get fuel root x false false ;; Ok (r, unwrap_single v).

(* n0list_._get for a str xpath, after the '?' prefix has been processed *)
Definition list_get_core (fuel : nat) (root : tree) (x : pstr) (raise_exc rl : bool) (dflt : lres) : res (tree * lres) :=
  if has_path_char x then
    match lfind rl fuel root (tokenize x) (PAt []) root s_root with
    | Raise e =>
      if funnelled e then Ok (root, if raise_exc then LRaise e else dflt)
      else Ok (root, LRaise e)
    | Ok (root', _, F) =>
      if rest_falsy (f_rest F) then
        match f_val F with Some v => Ok (root', LVal v) | None => Unmodelled end
      else Ok (root', if raise_exc then LRaise ExIndex else dflt)
    | OutOfFuel => OutOfFuel
    | Unmodelled => Unmodelled
    end
  else
    match root, n0eval x with
    | Lst _ items, EvInt z =>
      match norm_idx (length items) z with
      | Some i => match nth_error items i with Some v => Ok (root, LVal v) | None => Unmodelled end
      | None => Ok (root, if raise_exc then LRaise ExIndex else dflt)
      end
    | Lst _ _, EvStr _ => Ok (root, if raise_exc then LRaise ExType else dflt)
    | _, _ => Unmodelled
    end.

Definition list_get (fuel : nat) (root : tree) (x : pstr) (raise_exc rl : bool) : res (tree * lres) :=
  match x with
  | [] => Ok (root, LDefault)
  | 63%N :: x' => list_get_core fuel root x' false rl LEmpty
  | _ => list_get_core fuel root x raise_exc rl LDefault
  end.

Definition list_first fuel root x :=
  do (r, v) <- list_get fuel root x false false ;; Ok (r, unwrap_single v).

(* ---- observation ------------------------------------------------------------------ *)
(* kind: 0 = [], 1 = get (default sentinel "<D>"), 2 = first; the observation is the
   pair (value-or-outcome, tree afterwards) *)
Definition s_dflt : pstr := [60; 68; 62]%N.
(* [dflt]: what a miss that does not raise returns - the caller's sentinel for get/first, None for
   item access (n0list_.__getitem__('') answers None: _get returns if_not_found before it looks at
   raise_exception) *)
Definition lres_out (dflt : tree) (r : res (tree * lres)) : out :=
  match r with
  | Ok (root', LVal v) => Ok (t_list [v; root'])
  | Ok (root', LDefault) => Ok (t_list [dflt; root'])
  | Ok (root', LEmpty) => Ok (t_list [t_str []; root'])
  | Ok (root', LRaise e) => Raise e
  | Raise e => Raise e
  | OutOfFuel => OutOfFuel
  | Unmodelled => Unmodelled
  end.

Definition obs_lookup (kind : nat) (root : tree) (x : pstr) : out :=
  let fuel := fuel_for root x in
  let dflt := match kind with 0 => t_none | _ => t_str s_dflt end in
  match root with
  | Dict _ _ =>
    lres_out dflt (match kind with
              | 0 => dict_getitem fuel root x
              | 1 => dict_get_pub fuel root x
              | _ => dict_first fuel root x
              end)
  | Lst _ _ =>
    lres_out dflt (match kind with
              | 0 => list_get fuel root x true true
              | 1 => list_get fuel root x false true
              | _ => list_first fuel root x
              end)
  | Leaf _ => Unmodelled
  end.
