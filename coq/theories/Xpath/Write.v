(* Xpath/Write.v — transliteration of n0dict__.__setitem__, n0dict._add,
   n0dict__.delete (as repaired: tokenises like the lookups) and pop, and of the
   leaf enumeration __xpath / xpath().  Mutation through references becomes
   "return the new root": parents are positions, writes are replace_at. *)
From Coq Require Import List NArith ZArith Bool Lia.
From N0 Require Import Base.PyStr Base.PyVal Xpath.Dec Xpath.Token Xpath.Find.
Import ListNotations.

Fixpoint pget (root : tree) (p : pref) : option tree :=
  match p with
  | PAt q => resolve root q
  | PWrap i => match pget root i with Some v => Some (Lst false [v]) | None => None end
  end.

(* write [nv] over the node a reference points at; a write into a temporary is lost *)
Definition pset (root : tree) (p : pref) (nv : tree) : tree :=
  match p with PAt q => replace_at root q nv | PWrap _ => root end.

Definition s_lastidx : pstr := br s_last.   (* "[last()]" *)
Definition s_zero : pstr := [48]%N.

(* the final assignment of __setitem__ once parent and slot are known *)
Definition write_slot (root : tree) (par : pref) (slot : option pstr) (v : tree) : res tree :=
  match slot with
  | None => Raise ExType                  (* split_name_index(None) *)
  | Some s =>
    do (name, ix) <- split_name_index s ;;
    match pget root par with
    | None => Unmodelled
    | Some (Dict c kvs) =>
      if idx_truthy ix then Raise ExIndex
      else Ok (pset root par (Dict c (update s v kvs)))
    | Some (Lst c items) =>
      if nonempty name then Raise ExIndex
      else match ix with
      | IdxStr si =>
        match n0eval si with
        | EvUnk => Unmodelled
        | EvStr _ => Raise ExType
        | EvInt z =>
          match norm_idx (length items) z with
          | Some i => Ok (pset root par (Lst c (set_nth i v items)))
          | None => Raise ExIndex
          end
        end
      | _ => Raise ExType
      end
    | Some (Leaf _) => Raise ExType
    end
  end.

Definition idx_render (i : idx) : option pstr :=
  match i with IdxStr s => Some (br s) | _ => None end.

(* n0dict._add on (root, position of parent_node) *)
Fixpoint add (fuel : nat) (root : tree) (p : path) (slot : option pstr) (xs : list pstr) {struct fuel}
  : res (tree * path * pstr) :=
  match fuel with
  | O => OutOfFuel
  | S f =>
    match xs with
    | [] => Raise ExIndex                      (* xpath_list[0] on an empty list *)
    | x :: rest =>
      do (cn, ci) <- match slot with
                     | Some ((_ :: _) as s) => split_name_index s
                     | _ => Ok ([], IdxNone)
                     end ;;
      do (nn, ni) <- split_name_index x ;;
      let continue (r : tree * path * pstr) : res (tree * path * pstr) :=
        match rest with
        | [] => Ok r
        | _ => let '(root', p', s') := r in add f root' p' (Some s') rest
        end in
      match resolve root p with
      | None => Unmodelled
      | Some parent =>
        match ci with
        | IdxNone =>
          do pp1 <- match cn with
                    | [] => Ok (p, parent)
                    | _ => match parent with
                           | Dict _ kvs => match lookup cn kvs with
                                           | Some c => Ok (p ++ [PKey cn], c)
                                           | None => Raise ExKey
                                           end
                           | _ => Raise ExIndex
                           end
                    end ;;
          let '(p1, parent1) := pp1 in
          match nn with
          | _ :: _ =>
            match parent1 with
            | Dict c kvs =>
              match lookup nn kvs with
              | None =>
                if idx_truthy ni then
                  match ni with
                  | IdxStr si =>
                    if pstr_eqb si s_new || pstr_eqb si s_zero then
                      continue (replace_at root p1 (Dict c (update nn (Lst true [Leaf SNone]) kvs)),
                                p1 ++ [PKey nn], s_lastidx)
                    else Raise ExSyntax
                  | _ => Raise ExSyntax
                  end
                else continue (replace_at root p1 (Dict c (update nn (Dict true []) kvs)), p1, nn)
              | Some old =>
                if idx_truthy ni then
                  match idx_render ni with
                  | Some s' => continue (replace_at root p1 (Dict c (update nn (Lst false [old]) kvs)),
                                         p1 ++ [PKey nn], s')
                  | None => Unmodelled
                  end
                else Raise ExIndex
              end
            | _ => Unmodelled     (* `name in list/str`, list.update: outside the model *)
            end
          | [] =>
            match ni with
            | IdxStr si =>
              if pstr_eqb si s_new then
                match parent1 with
                | Lst c items => continue (replace_at root p1 (Lst c (items ++ [Leaf SNone])), p1, s_lastidx)
                | _ => Raise ExAttribute
                end
              else Raise ExIndex
            | _ => Raise ExIndex
            end
          end
        | IdxStr csi =>
          match cn with
          | _ :: _ => Unmodelled      (* slots never carry both a name and an index *)
          | [] =>
            if pstr_eqb csi s_new then
              match parent with
              | Lst c items =>
                let n := length items in
                match nn with
                | _ :: _ =>
                  if negb (idx_truthy ni) then
                    continue (replace_at root p (Lst c (items ++ [Dict true [(nn, Dict true [])]])), p ++ [PIdx n], nn)
                  else match idx_render ni with
                       | Some s' => continue (replace_at root p (Lst c (items ++ [Dict true [(nn, Lst true [])]])),
                                              p ++ [PIdx n; PKey nn], s')
                       | None => Unmodelled
                       end
                | [] =>
                  if idx_truthy ni then
                    match idx_render ni with
                    | Some s' => continue (replace_at root p (Lst c (items ++ [Lst true []])), p ++ [PIdx n], s')
                    | None => Unmodelled
                    end
                  else Raise ExValue
                end
              | _ => Raise ExAttribute
              end
            else if pstr_eqb csi s_last then
              match parent with
              | Lst c items =>
                let n := length items in
                match nn with
                | _ :: _ =>
                  match n with
                  | O => Raise ExIndex
                  | S n1 =>
                    if negb (idx_truthy ni) then
                      continue (replace_at root p (Lst c (set_nth n1 (Dict true [(nn, Dict true [])]) items)), p ++ [PIdx n1], nn)
                    else match idx_render ni with
                         | Some s' => continue (replace_at root p (Lst c (set_nth n1 (Dict true [(nn, Lst true [])]) items)),
                                                p ++ [PIdx n1; PKey nn], s')
                         | None => Unmodelled
                         end
                  end
                | [] =>
                  if idx_truthy ni then
                    match idx_render ni with
                    | Some s' => continue (replace_at root p (Lst c (items ++ [Lst true []])), p ++ [PIdx n], s')
                    | None => Unmodelled
                    end
                  else Raise ExUnbound
                end
              | _ => Raise ExValue
              end
            else
              match n0eval csi with
              | EvUnk => Unmodelled
              | EvStr _ => match parent with Leaf (SStr _) | Dict _ _ | Lst _ _ => Raise ExSyntax | Leaf _ => Raise ExType end
              | EvInt z =>
                match parent with
                | Lst c items =>
                  if Z.eqb z (Z.of_nat (length items)) then
                    continue (replace_at root p (Lst c (items ++ [Leaf SNone])), p, s_lastidx)
                  else Raise ExSyntax
                | Dict _ kvs => if Z.eqb z (Z.of_nat (length kvs)) then Raise ExAttribute else Raise ExSyntax
                | Leaf (SStr s) => if Z.eqb z (Z.of_nat (length s)) then Raise ExAttribute else Raise ExSyntax
                | Leaf _ => Raise ExType
                end
              end
          end
        | IdxPred _ _ _ =>
          match parent with Leaf (SStr _) | Dict _ _ | Lst _ _ => Raise ExSyntax | Leaf _ => Raise ExType end
        end
      end
    end
  end.

Definition setitem_core (fuel : nat) (root : tree) (x : pstr) (v : tree) : res tree :=
  if has_path_char x then
    do (root1, _, F) <- find true true fuel root (tokenize x) (PAt []) root s_root ;;
    if rest_falsy (f_rest F) then write_slot root1 (f_par F) (f_slot F) v
    else
      match f_rest F, f_par F with
      | Some xs, PAt p =>
        do (root2, p2, s2) <- add fuel root1 p (f_slot F) xs ;;
        write_slot root2 (PAt p2) (Some s2) v
      | Some xs, PWrap _ =>
        (* the parent is a temporary list: everything _add and the final write do
           happens on temporaries; only an exception is observable *)
        do (scr, p2, s2) <- add fuel (f_parv F) [] (f_slot F) xs ;;
        do _ <- write_slot scr (PAt p2) (Some s2) v ;;
        Ok root1
      | None, _ => Unmodelled
      end
  else
    match root with
    | Dict c kvs => Ok (Dict c (update x v kvs))
    | _ => Unmodelled
    end.

Definition setitem (fuel : nat) (root : tree) (x : pstr) (v : tree) : res tree :=
  match x with
  | 63%N :: x' =>
    match v with
    | Leaf SNone | Leaf (SStr []) => Ok root
    | _ => setitem_core fuel root x' v
    end
  | _ => setitem_core fuel root x v
  end.

(* ---- delete / pop ------------------------------------------------------------------- *)
Definition del_slot (root : tree) (par : pref) (slot : option pstr) : res tree :=
  match pget root par with
  | None => Unmodelled
  | Some (Lst c items) =>
    match slot with
    | Some s =>
      if startswith s [c_lb] && endswith s [c_rb] then
        match n0eval (removelast (tl s)) with
        | EvUnk => Unmodelled
        | EvStr _ => Raise ExType
        | EvInt z =>
          match norm_idx (length items) z with
          | Some i => Ok (pset root par (Lst c (del_nth i items)))
          | None => Raise ExIndex
          end
        end
      else Raise ExIndex
    | None => Raise ExIndex
    end
  | Some (Dict c kvs) =>
    match slot with
    | Some s => match lookup s kvs with
                | Some _ => Ok (pset root par (Dict c (remove_key s kvs)))
                | None => Raise ExKey
                end
    | None => Raise ExKey
    end
  | Some (Leaf _) => Raise ExType
  end.

(* returns the tree reached and, if the walk stopped on an exception, that exception *)
Fixpoint delete_loop (fuel : nat) (root : tree) (toks : list pstr) (recursively : bool)
         (last : nat) (first : bool) {struct last} : tree * option (res unit) :=
  match last with
  | O => (root, None)
  | S l' =>
    match find true true fuel root (firstn last toks) (PAt []) root s_root with
    | Ok (root1, _, F) =>
      let empty_n0dict := match f_val F with Some (Dict _ []) => true | _ => false end in
      if first || (recursively && empty_n0dict) then
        match del_slot root1 (f_par F) (f_slot F) with
        | Ok root2 => delete_loop fuel root2 toks recursively l' false
        | Raise e => (root1, Some (Raise e))
        | OutOfFuel => (root1, Some OutOfFuel)
        | Unmodelled => (root1, Some Unmodelled)
        end
      else delete_loop fuel root1 toks recursively l' false
    | Raise e => (root, Some (Raise e))
    | OutOfFuel => (root, Some OutOfFuel)
    | Unmodelled => (root, Some Unmodelled)
    end
  end.

Definition delete (fuel : nat) (root : tree) (x : pstr) (recursively : bool) : tree * option (res unit) :=
  let toks := tokenize x in
  delete_loop fuel root toks recursively (length toks) true.

Definition delete_res (fuel : nat) (root : tree) (x : pstr) (recursively : bool) : res tree :=
  match delete fuel root x recursively with
  | (t, None) => Ok t
  | (_, Some (Raise e)) => Raise e
  | (_, Some OutOfFuel) => OutOfFuel
  | (_, Some _) => Unmodelled
  end.

(* pop: (value or default, tree afterwards); every exception is swallowed *)
Definition pop (fuel : nat) (root : tree) (x : pstr) (recursively : bool) : res (option tree * tree) :=
  match dict_getitem fuel root x with
  | Ok (root1, LVal v) =>
    match delete fuel root1 x recursively with
    | (t, None) => Ok (Some v, t)
    | (t, Some (Raise _)) => Ok (Some v, t)
    | (_, Some OutOfFuel) => OutOfFuel
    | (_, Some _) => Unmodelled
    end
  | Ok (root1, LRaise _) => Ok (None, root1)
  | Ok (root1, _) => Ok (None, root1)
  | Raise e => Raise e
  | OutOfFuel => OutOfFuel
  | Unmodelled => Unmodelled
  end.

(* ---- xpath() enumeration --------------------------------------------------------------- *)
Fixpoint enum (t : tree) (pre : pstr) : list (pstr * scalar) :=
  match t with
  | Leaf s => [(pre, s)]
  | Dict _ kvs =>
    (fix go (l : list (pstr * tree)) : list (pstr * scalar) :=
       match l with
       | [] => []
       | (k, v) :: r => enum v (sl pre k) ++ go r
       end) kvs
  | Lst _ xs =>
    (fix go (l : list tree) (i : nat) : list (pstr * scalar) :=
       match l with
       | [] => []
       | v :: r => enum v (pre ++ br (dec_of_nat i)) ++ go r (S i)
       end) xs 0
  end.
Definition xpath_enum (t : tree) : list (pstr * scalar) := enum t s_root.

(* ---- observations ------------------------------------------------------------------------ *)
Definition wfuel (x : pstr) : nat := 8 * length x + 64 + 2 * length (tokenize x).

Definition obs_set (root : tree) (x : pstr) (v : tree) : out := setitem (wfuel x) root x v.

(* a history of writes: Ok final tree, or the first exception *)
Inductive wop := WSet (x : pstr) (v : tree) | WDel (x : pstr) (recursively : bool) | WPop (x : pstr) (recursively : bool).
Fixpoint run_ops (root : tree) (ops : list wop) : out :=
  match ops with
  | [] => Ok root
  | WSet x v :: r => do t <- setitem (wfuel x) root x v ;; run_ops t r
  | WDel x rc :: r => do t <- delete_res (wfuel x) root x rc ;; run_ops t r
  | WPop x rc :: r => do vt <- pop (wfuel x) root x rc ;; run_ops (snd vt) r
  end.

Definition obs_delete (root : tree) (x : pstr) (rc : bool) : out := delete_res (wfuel x) root x rc.
Definition obs_pop (root : tree) (x : pstr) (rc : bool) : out :=
  match pop (wfuel x) root x rc with
  | Ok (Some v, t) => Ok (t_list [v; t])
  | Ok (None, t) => Ok (t_list [t_str s_dflt; t])
  | Raise e => Raise e
  | OutOfFuel => OutOfFuel
  | Unmodelled => Unmodelled
  end.
Definition obs_enum (root : tree) : out :=
  Ok (t_list (map (fun ps => t_list [t_str (fst ps); Leaf (snd ps)]) (xpath_enum root))).
