(* Xpath/DecProofs.v — decimal printing and parsing are inverse. *)
From Coq Require Import List NArith ZArith Bool Lia.
From N0 Require Import Base.PyStr Xpath.Dec.
Import ListNotations.
Local Open Scope N_scope.
Ltac Zify.zify_post_hook ::= Z.to_euclidean_division_equations.

Arguments N.eqb : simpl never.
Arguments N.leb : simpl never.
Arguments N.mul : simpl never.
Arguments N.add : simpl never.
Arguments N.sub : simpl never.
Arguments N.div : simpl never.
Arguments N.modulo : simpl never.

Fixpoint p10 (k : nat) : N := match k with O => 1 | S k' => 10 * p10 k' end.

Definition dstep (a c : N) : N := a * 10 + (c - 48).

Lemma digits_val_fold s : digits_val s = fold_left dstep s 0.
Proof. reflexivity. Qed.

Lemma fold_dstep_shift l : forall a, fold_left dstep l a = a * p10 (length l) + fold_left dstep l 0.
Proof.
  induction l as [|c l IH]; intros a; cbn [fold_left length p10].
  - lia.
  - rewrite (IH (dstep a c)), (IH (dstep 0 c)). unfold dstep. nia.
Qed.

Lemma digits_val_cons c l : digits_val (c :: l) = (c - 48) * p10 (length l) + digits_val l.
Proof.
  rewrite !digits_val_fold. cbn [fold_left]. rewrite fold_dstep_shift. unfold dstep. lia.
Qed.

Definition digit (c : N) : Prop := 48 <= c /\ c <= 57.

Lemma is_digit_iff c : is_digit c = true <-> digit c.
Proof. unfold is_digit, digit. rewrite andb_true_iff, !N.leb_le. tauto. Qed.

Lemma pow2_succ f : 2 ^ N.of_nat (S f) = 2 * 2 ^ N.of_nat f.
Proof. rewrite Nat2N.inj_succ, N.pow_succ_r'. reflexivity. Qed.

Lemma dec_aux_spec fuel : forall n acc,
  n < 2 ^ N.of_nat fuel ->
  Forall digit acc ->
  digits_val (dec_aux fuel n acc) = n * p10 (length acc) + digits_val acc /\
  Forall digit (dec_aux fuel n acc) /\
  (fuel <> O -> dec_aux fuel n acc <> []).
Proof.
  induction fuel as [|f IH]; intros n acc Hn Hacc.
  - cbn in Hn. assert (n = 0) by lia. subst. cbn [dec_aux]. split; [lia|]. split; [exact Hacc|]. congruence.
  - cbn [dec_aux]. rewrite pow2_succ in Hn.
    assert (Hm : n mod 10 < 10) by (apply N.mod_lt; discriminate).
    assert (Hd : digit (48 + n mod 10)) by (clear - Hm; unfold digit; split; lia).
    assert (Hdm : n = 10 * (n / 10) + n mod 10) by (apply N.div_mod').
    destruct (N.eqb (n / 10) 0) eqn:E.
    + apply N.eqb_eq in E. split; [|split; [constructor; auto|congruence]].
      rewrite digits_val_cons. replace (48 + n mod 10 - 48) with (n mod 10) by lia.
      rewrite E in Hdm. rewrite Hdm at 2. lia.
    + apply N.eqb_neq in E.
      assert (Hq : n / 10 < 2 ^ N.of_nat f).
      { assert (H2 : 0 < 2 ^ N.of_nat f) by (apply N.neq_0_lt_0, N.pow_nonzero; lia). nia. }
      destruct (IH (n / 10) ((48 + n mod 10) :: acc) Hq (Forall_cons _ Hd Hacc)) as [H1 [H2 H3]].
      split; [|split; [exact H2|]].
      * rewrite H1. cbn [length p10]. rewrite digits_val_cons.
        replace (48 + n mod 10 - 48) with (n mod 10) by lia.
        rewrite Hdm at 3. nia.
      * intros _. destruct f as [|f'].
        -- cbn in Hq. lia.
        -- apply H3. congruence.
Qed.

Lemma dec_of_N_spec n :
  digits_val (dec_of_N n) = n /\ Forall digit (dec_of_N n) /\ dec_of_N n <> [].
Proof.
  unfold dec_of_N.
  assert (Hn : n < 2 ^ N.of_nat (S (N.to_nat (N.log2 n)))).
  { rewrite Nat2N.inj_succ, N2Nat.id. destruct (N.eq_dec n 0) as [->|Hne]; [cbn; lia|].
    apply N.log2_spec. lia. }
  destruct (dec_aux_spec _ n [] Hn (Forall_nil _)) as [H1 [H2 H3]].
  split; [|split; [exact H2|apply H3; congruence]].
  rewrite H1. cbn. lia.
Qed.

Lemma all_digits_of l : l <> [] -> Forall digit l -> all_digits l = true.
Proof.
  intros Hne HF. destruct l as [|c l]; [congruence|]. unfold all_digits.
  apply forallb_forall. intros x Hx. apply is_digit_iff. rewrite Forall_forall in HF. auto.
Qed.

Lemma digit_not_unk c : digit c -> int_unk_chr c = false.
Proof.
  unfold digit, int_unk_chr. intros [H1 H2].
  assert (E1 : N.eqb c 95 = false) by (apply N.eqb_neq; lia).
  assert (E2 : N.leb 128 c = false) by (apply N.leb_gt; lia).
  rewrite E1, E2. cbn [orb]. unfold py_ws, mem_chr. cbn [existsb].
  repeat match goal with |- context [N.eqb c ?k] =>
    let E := fresh in assert (E : N.eqb c k = false) by (apply N.eqb_neq; lia); rewrite E; clear E end.
  reflexivity.
Qed.

Lemma existsb_unk_digits l : Forall digit l -> existsb int_unk_chr l = false.
Proof.
  induction 1 as [|c l Hc Hl IH]; [reflexivity|]. cbn [existsb]. now rewrite digit_not_unk, IH.
Qed.

Theorem py_int_dec z : py_int (dec_of_Z z) = IntOk z.
Proof.
  unfold dec_of_Z. destruct (Z.ltb z 0) eqn:Ez.
  - apply Z.ltb_lt in Ez. destruct (dec_of_N_spec (Z.to_N (- z))) as [H1 [H2 H3]].
    unfold py_int. cbn [existsb]. rewrite existsb_unk_digits by exact H2.
    replace (int_unk_chr 45) with false by reflexivity. cbn [orb].
    replace (N.eqb 45 45) with true by reflexivity.
    rewrite all_digits_of by assumption. rewrite H1. f_equal. lia.
  - apply Z.ltb_ge in Ez. destruct (dec_of_N_spec (Z.to_N z)) as [H1 [H2 H3]].
    unfold py_int. rewrite existsb_unk_digits by exact H2.
    destruct (dec_of_N (Z.to_N z)) as [|c l] eqn:El; [congruence|].
    assert (Hc : digit c) by (inversion H2; assumption). unfold digit in Hc.
    assert (E1 : N.eqb c 45 = false) by (apply N.eqb_neq; lia).
    assert (E2 : N.eqb c 43 = false) by (apply N.eqb_neq; lia).
    rewrite E1, E2, all_digits_of by (congruence || assumption). rewrite H1. f_equal. lia.
Qed.

(* characters of a printed integer: digits, possibly after one '-' *)
Definition dec_chr (c : N) : Prop := digit c \/ c = 45.

Lemma dec_of_Z_chars z : Forall dec_chr (dec_of_Z z) /\ dec_of_Z z <> [].
Proof.
  unfold dec_of_Z. destruct (Z.ltb z 0).
  - destruct (dec_of_N_spec (Z.to_N (- z))) as [_ [H2 _]]. split; [|congruence].
    constructor; [right; reflexivity|]. eapply Forall_impl; [|exact H2]. intros c Hc. now left.
  - destruct (dec_of_N_spec (Z.to_N z)) as [_ [H2 H3]]. split; [|exact H3].
    eapply Forall_impl; [|exact H2]. intros c Hc. now left.
Qed.

Lemma dec_of_nat_chars n : Forall digit (dec_of_nat n) /\ dec_of_nat n <> [].
Proof. unfold dec_of_nat. destruct (dec_of_N_spec (N.of_nat n)) as [_ [H2 H3]]. auto. Qed.

Lemma dec_of_nat_Z n : dec_of_nat n = dec_of_Z (Z.of_nat n).
Proof.
  unfold dec_of_nat, dec_of_Z. assert (E : Z.ltb (Z.of_nat n) 0 = false) by (apply Z.ltb_ge; lia).
  rewrite E. f_equal. lia.
Qed.
