(* Xpath/FanoutProofs.v — the [*] fan-out over a list of dict records selects exactly the
   records that have the field, in list order. *)
From Coq Require Import List NArith ZArith Bool Lia.
From N0 Require Import Base.PyStr Base.PyVal Xpath.Dec Xpath.DecProofs Xpath.Token Xpath.TokenProofs
  Xpath.Find Xpath.FindProofs Xpath.Write Xpath.SpecProofs Xpath.WalkProofs.
Import ListNotations.

Arguments N.eqb : simpl never.

(* Spec: the values of field f of the records that have it, in order *)
Definition field_of (f : pstr) (r : tree) : list tree :=
  match r with
  | Dict _ kvs => match lookup f kvs with Some v => [v] | None => [] end
  | _ => []
  end.
Definition select_all (f : pstr) (recs : list tree) : list tree := flat_map (field_of f) recs.

Definition all_records (recs : list tree) : Prop := Forall (fun r => exists c kvs, r = Dict c kvs) recs.

(* the fan-out loop of the resolver, named *)
Fixpoint star_loop (one : list pstr * pref * tree * pstr -> fres)
         (cands : list (list pstr * pref * tree * pstr)) (vals : list tree) (fst : option found)
  : res (list tree * option found) :=
  match cands with
  | [] => Ok (rev vals, fst)
  | cand :: r =>
    do (_, m, F) <- one cand ;;
    if m : bool then Unmodelled
    else if rest_falsy (f_rest F) then
      match f_val F with
      | Some v => star_loop one r (v :: vals) (match fst with None => Some F | _ => fst end)
      | None => Unmodelled
      end
    else star_loop one r vals fst
  end.

Definition star_cands (rest : list pstr) (par : pref) (parv : tree) (fstr : pstr) (n : nat) :=
  map (fun i => (br (dec_of_nat i) :: rest, par, parv, fstr)) (seq 0 n).

Lemma find_star_step rl f root y rest par c items fstr :
  split_name_index y = Ok ([], IdxStr s_star) ->
  find true rl (S f) root (y :: rest) par (Lst c items) fstr =
  (do (vals, fst) <- star_loop (fun cd => let '(xs', par', parv', fstr') := cd in find true rl f root xs' par' parv' fstr')
                                (star_cands rest par (Lst c items) fstr (length items)) [] None ;;
   match fst with
   | Some F => Ok (root, false, mkF (f_par F) (f_parv F) (f_slot F) (Some (agg rl vals)) (f_str F) None)
   | None => Ok (root, false, mkF par (Lst c items) None None fstr (Some (y :: rest)))
   end).
Proof.
  intros Hs. cbn [find]. rewrite Hs. cbn [bind nonempty negb andb idx_truthy s_star].
  replace (pstr_eqb s_star s_new) with false by reflexivity.
  replace (pstr_eqb s_star s_star) with true by reflexivity.
  cbn [wrap_parent]. unfold star_cands.
  generalize (map (fun i : nat => (br (dec_of_nat i) :: rest, par, Lst c items, fstr)) (seq 0 (length items))).
  intros cands.
  match goal with |- bind (?L cands [] None) ?K = _ => set (loop := L) end.
  assert (G : forall cands vals fst,
             loop cands vals fst =
             star_loop (fun cd => let '(xs', par', parv', fstr') := cd in find true rl f root xs' par' parv' fstr')
                       cands vals fst).
  { induction cands0 as [|[[[xs' par'] parv'] fstr'] r IH]; intros vals fst; [reflexivity|].
    cbn [star_loop]. unfold loop at 1. fold loop.
    destruct (find true rl f root xs' par' parv' fstr') as [[[r0 m] F]|e| |]; cbn [bind]; try reflexivity.
    destruct m; [reflexivity|]. destruct (rest_falsy (f_rest F)); [|apply IH].
    destruct (f_val F); [apply IH|reflexivity]. }
  rewrite G. reflexivity.
Qed.

Lemma sni_star : split_name_index (br s_star) = Ok ([], IdxStr s_star).
Proof. reflexivity. Qed.

Lemma norm_idx_nat len i : i < len -> norm_idx len (Z.of_nat i) = Some i.
Proof.
  intros H. apply norm_idx_spec. left. split; [lia|reflexivity].
Qed.

Section fanout.
Variable rl : bool.
Variable root : tree.
Variable fk f : pstr.
Hypothesis Hfk : split_name_index fk = Ok (f, IdxNone).
Hypothesis Hpk : plain_key f.

(* one candidate: element i of the record list *)
Lemma one_record fuel par c items fstr i c' kvs :
  nth_error items i = Some (Dict c' kvs) ->
  find true rl (S (S fuel)) root (br (dec_of_nat i) :: [fk]) par (Lst c items) fstr =
  match lookup f kvs with
  | Some v => Ok (root, false, mkF (child_idx par i) (Dict c' kvs) (Some f) (Some v) (sl (fstr ++ br (dec_of_Z (Z.of_nat i))) f) None)
  | None => Ok (root, false, mkF (child_idx par i) (Dict c' kvs) None None (fstr ++ br (dec_of_Z (Z.of_nat i))) (Some [fk]))
  end.
Proof.
  intros Hn. rewrite dec_of_nat_Z.
  rewrite (find_idx_step rl (S fuel) root (br (dec_of_Z (Z.of_nat i))) [fk] par c items fstr (dec_of_Z (Z.of_nat i))
             (Z.of_nat i) i (Dict c' kvs)); auto using n0eval_dec, plain_idx_dec.
  - destruct (lookup f kvs) as [v|] eqn:El.
    + now rewrite (find_key_step rl fuel root fk [] _ c' kvs _ f v Hfk Hpk El).
    + now rewrite (find_key_missing rl fuel root fk [] _ c' kvs _ f IdxNone Hfk Hpk El).
  - apply sni_br, clean_idx_dec.
  - apply norm_idx_nat. eapply nth_error_Some_lt; eauto.
Qed.

Definition one fuel (cd : list pstr * pref * tree * pstr) : fres :=
  let '(xs', par', parv', fstr') := cd in find true rl fuel root xs' par' parv' fstr'.

Lemma star_loop_records fuel par c items fstr : forall tl_items i0 vals fst,
  all_records tl_items ->
  (forall j r, nth_error tl_items j = Some r -> nth_error items (i0 + j) = Some r) ->
  exists fst',
    star_loop (one (S (S fuel)))
              (map (fun i => (br (dec_of_nat i) :: [fk], par, Lst c items, fstr)) (seq i0 (length tl_items))) vals fst
    = Ok (rev vals ++ select_all f tl_items, fst') /\
    (fst' = None <-> fst = None /\ select_all f tl_items = []).
Proof.
  induction tl_items as [|r rs IH]; intros i0 vals fst Hall Hnth.
  - cbn. exists fst. rewrite app_nil_r. split; [reflexivity|tauto].
  - inversion Hall as [|? ? [c' [kvs ->]] Hall']; subst.
    cbn [length seq map star_loop one].
    assert (Hi0 : nth_error items i0 = Some (Dict c' kvs)).
    { specialize (Hnth 0 _ eq_refl). now rewrite Nat.add_0_r in Hnth. }
    rewrite (one_record fuel par c items fstr i0 c' kvs Hi0).
    assert (Hnth' : forall j r, nth_error rs j = Some r -> nth_error items (S i0 + j) = Some r).
    { intros j r Hj. specialize (Hnth (S j) r Hj). now replace (S i0 + j) with (i0 + S j) by lia. }
    cbn [select_all flat_map field_of].
    destruct (lookup f kvs) as [v|] eqn:El; cbn [bind rest_falsy f_rest f_val].
    + match goal with |- context [star_loop _ _ (v :: vals) ?fs] =>
        destruct (IH (S i0) (v :: vals) fs Hall' Hnth') as [fst' [H1 H2]] end.
      exists fst'. split.
      * rewrite H1. cbn [rev]. now rewrite <- app_assoc.
      * split; [intros E; apply H2 in E; destruct E as [E _]; destruct fst; discriminate|intros [_ E]; discriminate].
    + destruct (IH (S i0) vals fst Hall' Hnth') as [fst' [H1 H2]].
      exists fst'. split; [exact H1|]. cbn [app]. exact H2.
Qed.

(* P[*]/f at the record list *)
Theorem fanout_at_list fuel par c items fstr :
  all_records items ->
  exists F,
    find true rl (S (S (S fuel))) root (br s_star :: [fk]) par (Lst c items) fstr = Ok (root, false, F) /\
    (select_all f items <> [] -> f_val F = Some (agg rl (select_all f items)) /\ f_rest F = None) /\
    (select_all f items = [] -> rest_falsy (f_rest F) = false).
Proof.
  intros Hall. rewrite (find_star_step rl _ root (br s_star) [fk] par c items fstr sni_star).
  unfold star_cands.
  destruct (star_loop_records fuel par c items fstr items 0 [] None Hall ltac:(intros j r Hj; exact Hj)) as [fst' [H1 H2]].
  unfold one in H1. rewrite H1. cbn [bind rev app].
  destruct fst' as [F1|].
  - eexists. split; [reflexivity|]. cbn [f_val f_rest]. split; [auto|].
    intros E. exfalso. assert (Some F1 = None) by (apply H2; auto). discriminate.
  - eexists. split; [reflexivity|]. cbn [f_val f_rest rest_falsy]. split; [|reflexivity].
    intros Hne. exfalso. apply Hne. now apply H2.
Qed.

(* the shorthand P/f: a name applied to a list is P[*]/f *)
Theorem fanout_shorthand fuel par c items fstr :
  find true rl (S fuel) root [fk] par (Lst c items) fstr =
  find true rl fuel root (br s_star :: [fk]) par (Lst c items) fstr.
Proof.
  destruct Hpk as [Hne [Hdd Hst]]. cbn [find]. rewrite Hfk. cbn [bind].
  destruct f as [|f0 f1]; [congruence|]. cbn [nonempty negb andb idx_truthy]. now rewrite Hdd.
Qed.
End fanout.

(* ---- through the public lookup ------------------------------------------------------------------ *)
Definition fanout_result (re rl : bool) (dflt : lres) (sel : list tree) : lres :=
  match sel with
  | [] => if re then LRaise ExIndex else dflt
  | _ => LVal (agg rl sel)
  end.

Theorem fanout_lookup fuel root x re rl dflt toks p c items fk f :
  has_path_char x = true -> tokenize x = toks ++ [br s_star; fk] ->
  walk root toks p (Lst c items) -> all_records items ->
  split_name_index fk = Ok (f, IdxNone) -> plain_key f ->
  2 * length toks + 3 <= fuel ->
  dict_get_core fuel root x re rl dflt = Ok (root, fanout_result re rl dflt (select_all f items)).
Proof.
  intros Hc Ht Hw Hall Hfk Hpk Hf. unfold dict_get_core. rewrite Hc, Ht.
  destruct (find_walk_prefix rl root toks p (Lst c items) Hw [br s_star; fk] ltac:(congruence) fuel root [] s_root ltac:(lia))
    as [fstr' [fuel' [H1 [H2 H3]]]].
  rewrite H3. destruct fuel' as [|[|[|f']]]; try lia.
  destruct (fanout_at_list rl root fk f Hfk Hpk f' (PAt ([] ++ p)) c items fstr' Hall) as [F [HF [Hsome Hnone]]].
  rewrite HF. unfold fanout_result. destruct (select_all f items) as [|v0 vs] eqn:Es.
  - now rewrite (Hnone eq_refl).
  - destruct (Hsome ltac:(congruence)) as [Hv Hr]. now rewrite Hr, Hv.
Qed.

Theorem fanout_shorthand_lookup fuel root x re rl dflt toks p c items fk f :
  has_path_char x = true -> tokenize x = toks ++ [fk] ->
  walk root toks p (Lst c items) -> all_records items ->
  split_name_index fk = Ok (f, IdxNone) -> plain_key f ->
  2 * length toks + 4 <= fuel ->
  dict_get_core fuel root x re rl dflt = Ok (root, fanout_result re rl dflt (select_all f items)).
Proof.
  intros Hc Ht Hw Hall Hfk Hpk Hf. unfold dict_get_core. rewrite Hc, Ht.
  destruct (find_walk_prefix rl root toks p (Lst c items) Hw [fk] ltac:(congruence) fuel root [] s_root ltac:(lia))
    as [fstr' [fuel' [H1 [H2 H3]]]].
  rewrite H3. destruct fuel' as [|[|[|[|f']]]]; try lia.
  rewrite (fanout_shorthand rl root fk f Hfk Hpk).
  destruct (fanout_at_list rl root fk f Hfk Hpk f' (PAt ([] ++ p)) c items fstr' Hall) as [F [HF [Hsome Hnone]]].
  rewrite HF. unfold fanout_result. destruct (select_all f items) as [|v0 vs] eqn:Es.
  - now rewrite (Hnone eq_refl).
  - destruct (Hsome ltac:(congruence)) as [Hv Hr]. now rewrite Hr, Hv.
Qed.

(* first additionally unwraps a single match *)
Lemma first_single v : unwrap_single (LVal (agg false [v])) = unwrap_single (LVal v).
Proof. reflexivity. Qed.

Lemma agg_lists vals : agg true vals = Lst true vals.
Proof. destruct vals as [|v [|w r]]; reflexivity. Qed.

(* non-vacuity: {"r": [{"f": 1}, {"k": 2}, {"f": 3}]} and r/[*]/f *)
Definition ex_recs : list tree :=
  [Dict true [([102]%N, Leaf (SInt 1))]; Dict true [([107]%N, Leaf (SInt 2))]; Dict true [([102]%N, Leaf (SInt 3))]].
Definition ex_froot : tree := Dict true [([114]%N, Lst true ex_recs)].
Definition ex_fx : pstr := [114; 47; 91; 42; 93; 47; 102]%N.     (* r/[*]/f *)

Theorem fanout_example :
  all_records ex_recs /\ select_all [102]%N ex_recs = [Leaf (SInt 1); Leaf (SInt 3)] /\
  dict_get_core (fuel_for ex_froot ex_fx) ex_froot ex_fx true true LDefault
  = Ok (ex_froot, LVal (Lst true [Leaf (SInt 1); Leaf (SInt 3)])).
Proof.
  split; [repeat constructor; eexists; eexists; reflexivity|]. split; reflexivity.
Qed.
