(* Xpath/Dec.v — decimal printing (str(int), f"{i}") and parsing (int(str)) as the
   xpath code uses them. *)
From Coq Require Import List NArith ZArith Bool Lia.
From N0 Require Import Base.PyStr.
Import ListNotations.

Fixpoint dec_aux (fuel : nat) (n : N) (acc : pstr) : pstr :=
  match fuel with
  | O => acc
  | S f =>
    let acc' := (48 + n mod 10)%N :: acc in
    if (n / 10 =? 0)%N then acc' else dec_aux f (n / 10)%N acc'
  end.
Definition dec_of_N (n : N) : pstr := dec_aux (S (N.to_nat (N.log2 n))) n [].
Definition dec_of_Z (z : Z) : pstr :=
  if (z <? 0)%Z then 45%N :: dec_of_N (Z.to_N (- z)) else dec_of_N (Z.to_N z).
Definition dec_of_nat (n : nat) : pstr := dec_of_N (N.of_nat n).

Definition digits_val (s : pstr) : N := fold_left (fun a c => (a * 10 + (c - 48))%N) s 0%N.
Definition all_digits (s : pstr) : bool := match s with [] => false | _ => forallb is_digit s end.

(* int(item) for an item without blanks: IntOk z | IntFail (ValueError) | IntUnk
   (characters whose treatment by int() the model does not cover: '_', any
   whitespace, non-ASCII). *)
Inductive intres := IntOk (z : Z) | IntFail | IntUnk.
Definition int_unk_chr (c : N) : bool :=
  (c =? 95)%N || (128 <=? c)%N || mem_chr c py_ws.
Definition py_int (s : pstr) : intres :=
  if existsb int_unk_chr s then IntUnk else
  match s with
  | [] => IntFail
  | c :: r =>
    if N.eqb c 45 then (if all_digits r then IntOk (- Z.of_N (digits_val r)) else IntFail)
    else if N.eqb c 43 then (if all_digits r then IntOk (Z.of_N (digits_val r)) else IntFail)
    else if all_digits s then IntOk (Z.of_N (digits_val s)) else IntFail
  end.
